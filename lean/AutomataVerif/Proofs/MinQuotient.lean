/-
Proofs/MinQuotient.lean — the quotient construction of `_minify` (`minifyCore`) given a
correct partition (core only).

Under `MinHyp` (what the callers guarantee), duplicate-free rows (Python dicts) and
`HopcroftCorrect` (the partition is the Nerode partition of the refinement system
`(mdelta, mfin)` on `muniverse`; Proofs/Hopcroft.lean) the DFA built from the partition
* accepts exactly the words the refinement system accepts from `init` (`minifyCore_accepts`);
* is valid when every kept state is reachable in the system (`minifyCore_wf`);
* has duplicate-free, pairwise distinguishable, reachable states, all live when the result
  is partial, and it is complete when no trap was needed;
* names every state by a non-empty block of pairwise equivalent kept states.
-/
import AutomataVerif.Proofs.MinifySpec
import AutomataVerif.Proofs.Minimal
import AutomataVerif.Proofs.PyShape

namespace AV

set_option linter.unusedSectionVars false

/-! ### association-list helpers -/
section alist
variable {ι κ β γ : Type} [DecidableEq κ] [DecidableEq β] [DecidableEq γ]

theorem alookup_map_of_inj (f : ι → κ) (g : ι → β) :
    ∀ (l : List ι) (b : ι), b ∈ l → (∀ c ∈ l, f c = f b → c = b) →
      alookup (f b) (l.map fun c => (f c, g c)) = some (g b) := by
  intro l
  induction l with
  | nil => intro b hb; simp at hb
  | cons c l ih =>
    intro b hb hinj
    rw [List.map_cons, alookup_cons]
    by_cases hc : f c = f b
    · have := hinj c (by simp) hc
      subst this; simp
    · rw [if_neg hc]
      rcases List.mem_cons.mp hb with h | h
      · subst h; exact absurd rfl hc
      · exact ih b h fun c' hc' => hinj c' (List.mem_cons_of_mem _ hc')

/-- The row translation of the quotient: keep the entries whose target has a name. -/
def qmap (f : β → Option γ) (l : List (κ × β)) : List (κ × γ) :=
  l.filterMap fun e =>
    match f e.2 with
    | some nm => some (e.1, nm)
    | none => none

theorem qmap_nil (f : β → Option γ) : qmap f ([] : List (κ × β)) = [] := rfl

theorem qmap_cons_some {f : β → Option γ} {k : κ} {v : β} {n : γ} (t : List (κ × β))
    (h : f v = some n) : qmap f ((k, v) :: t) = (k, n) :: qmap f t := by
  unfold qmap; simp [h]

theorem qmap_cons_none {f : β → Option γ} {k : κ} {v : β} (t : List (κ × β))
    (h : f v = none) : qmap f ((k, v) :: t) = qmap f t := by
  unfold qmap; simp [h]

theorem akeys_qmap_sublist (f : β → Option γ) (l : List (κ × β)) :
    (akeys (qmap f l)).Sublist (akeys l) := by
  induction l with
  | nil => simp [qmap_nil, akeys]
  | cons e t ih =>
    obtain ⟨k, v⟩ := e
    cases h : f v with
    | none =>
      rw [qmap_cons_none t h]
      exact List.Sublist.cons _ ih
    | some n =>
      rw [qmap_cons_some t h]
      exact List.Sublist.cons_cons _ ih

theorem alookup_qmap (f : β → Option γ) :
    ∀ (l : List (κ × β)), (akeys l).Nodup → ∀ a, alookup a (qmap f l) = (alookup a l).bind f := by
  intro l
  induction l with
  | nil => intro _ a; simp [qmap_nil]
  | cons e t ih =>
    obtain ⟨k, v⟩ := e
    intro hnd a
    have hnd' : k ∉ akeys t ∧ (akeys t).Nodup := by
      simpa [akeys] using hnd
    rw [alookup_cons]
    cases h : f v with
    | none =>
      rw [qmap_cons_none t h]
      by_cases hk : k = a
      · subst hk
        rw [if_pos rfl, Option.bind_some, h, alookup_eq_none_iff]
        exact fun hm => hnd'.1 ((akeys_qmap_sublist f t).subset hm)
      · rw [if_neg hk]; exact ih hnd'.2 a
    | some n =>
      rw [qmap_cons_some t h, alookup_cons]
      by_cases hk : k = a
      · subst hk; simp [h]
      · rw [if_neg hk, if_neg hk]; exact ih hnd'.2 a

theorem avals_qmap {f : β → Option γ} {l : List (κ × β)} {n : γ} (h : n ∈ avals (qmap f l)) :
    ∃ v ∈ avals l, f v = some n := by
  induction l with
  | nil => simp [qmap_nil, avals] at h
  | cons e t ih =>
    obtain ⟨k, v⟩ := e
    cases hv : f v with
    | none =>
      rw [qmap_cons_none t hv] at h
      obtain ⟨v', hv', hf⟩ := ih h
      exact ⟨v', by simp only [avals, List.map_cons, List.mem_cons] at hv' ⊢; exact Or.inr hv', hf⟩
    | some m =>
      rw [qmap_cons_some t hv] at h
      simp only [avals, List.map_cons, List.mem_cons] at h
      rcases h with h | h
      · subst h; exact ⟨v, by simp [avals], hv⟩
      · obtain ⟨v', hv', hf⟩ := ih h
        exact ⟨v', by simp only [avals, List.map_cons, List.mem_cons] at hv' ⊢; exact Or.inr hv', hf⟩

theorem length_qmap_of_all {f : β → Option γ} {l : List (κ × β)}
    (h : ∀ v ∈ avals l, ∃ n, f v = some n) : (qmap f l).length = l.length := by
  induction l with
  | nil => rfl
  | cons e t ih =>
    obtain ⟨k, v⟩ := e
    obtain ⟨n, hn⟩ := h v (by simp [avals])
    rw [qmap_cons_some t hn]
    simp only [List.length_cons]
    rw [ih fun v' hv' => h v' (by simp only [avals, List.map_cons, List.mem_cons] at hv' ⊢; exact Or.inr hv')]

end alist

namespace DFA
variable {σ α : Type} [DecidableEq σ] [DecidableEq α]

/-! ### the refinement system -/
section system
variable (kept : List σ) (syms : List α) (trans : List (σ × List (α × σ))) (finals : List σ)

@[simp] theorem mrun_nil (s : Option σ) : mrun kept trans s [] = s := rfl
@[simp] theorem mrun_cons_eq (s : Option σ) (a : α) (w : List α) :
    mrun kept trans s (a :: w) = mrun kept trans (mdelta kept trans s a) w := rfl

theorem mrun_append (s : Option σ) (u v : List α) :
    mrun kept trans s (u ++ v) = mrun kept trans (mrun kept trans s u) v := by
  simp [mrun, List.foldl_append]

@[simp] theorem mrun_none (w : List α) : mrun kept trans none w = none := by
  induction w with
  | nil => rfl
  | cons a w ih => simpa [mdelta] using ih

theorem mdelta_some_kept {q t : σ} {a : α} (h : mdelta kept trans (some q) a = some t) :
    t ∈ kept := by
  simp only [mdelta] at h
  split at h
  · split at h
    · cases h; assumption
    · cases h
  · cases h

/-- `x` is the trap or a kept state. -/
def Dom (x : Option σ) : Prop := ∀ q, x = some q → q ∈ kept

theorem dom_none : Dom kept (none : Option σ) := fun _ h => by cases h

theorem dom_mdelta (x : Option σ) (a : α) : Dom kept (mdelta kept trans x a) := by
  intro t ht
  cases x with
  | none => simp [mdelta] at ht
  | some q => exact mdelta_some_kept kept trans ht

theorem dom_mrun {x : Option σ} (hx : Dom kept x) (w : List α) : Dom kept (mrun kept trans x w) := by
  induction w generalizing x with
  | nil => exact hx
  | cons a w ih => rw [mrun_cons_eq]; exact ih (dom_mdelta kept trans x a)

theorem MEquiv.refl (x : Option σ) : MEquiv (α := α) kept trans finals x x := fun _ => rfl

theorem MEquiv.symm {x y : Option σ} (h : MEquiv (α := α) kept trans finals x y) :
    MEquiv kept trans finals y x := fun w => (h w).symm

theorem MEquiv.tr {x y z : Option σ} (h₁ : MEquiv (α := α) kept trans finals x y)
    (h₂ : MEquiv kept trans finals y z) : MEquiv kept trans finals x z :=
  fun w => (h₁ w).trans (h₂ w)

theorem MEquiv.run {x y : Option σ} (h : MEquiv (α := α) kept trans finals x y) (u : List α) :
    MEquiv kept trans finals (mrun kept trans x u) (mrun kept trans y u) := by
  intro w
  rw [← mrun_append, ← mrun_append]
  exact h (u ++ w)

theorem MEquiv.delta {x y : Option σ} (h : MEquiv (α := α) kept trans finals x y) (a : α) :
    MEquiv kept trans finals (mdelta kept trans x a) (mdelta kept trans y a) :=
  h.run kept trans finals [a]

theorem mfin_mrun_none (w : List α) : mfin finals (mrun kept trans none w) = false := by
  rw [mrun_none]; rfl

theorem mem_muniverse_some {q : σ} : some q ∈ muniverse kept syms trans ↔ q ∈ kept := by
  unfold muniverse
  split <;> simp

theorem mem_muniverse_none : none ∈ muniverse kept syms trans ↔ needTrap kept syms trans = true := by
  unfold muniverse
  split <;> simp_all

theorem mem_muniverse_of_dom {x : Option σ} (hx : Dom kept x)
    (hn : x = none → needTrap kept syms trans = true) : x ∈ muniverse kept syms trans := by
  cases x with
  | none => exact (mem_muniverse_none kept syms trans).mpr (hn rfl)
  | some q => exact (mem_muniverse_some kept syms trans).mpr (hx q rfl)

theorem dom_of_mem_muniverse {x : Option σ} (hx : x ∈ muniverse kept syms trans) : Dom kept x := by
  intro q hq; subst hq; exact (mem_muniverse_some kept syms trans).mp hx

/-- The universe is closed under alphabet moves. -/
theorem mdelta_mem_muniverse {q : σ} (hq : q ∈ kept) {a : α} (ha : a ∈ syms) :
    mdelta kept trans (some q) a ∈ muniverse kept syms trans := by
  refine mem_muniverse_of_dom kept syms trans (dom_mdelta kept trans _ a) fun hn => ?_
  unfold needTrap
  rw [List.any_eq_true]
  refine ⟨q, hq, ?_⟩
  rw [List.any_eq_true]
  exact ⟨a, ha, by rw [hn]; rfl⟩

theorem needTrap_eq_false_iff :
    needTrap kept syms trans = false ↔
      ∀ q ∈ kept, ∀ a ∈ syms, ∃ t, mdelta kept trans (some q) a = some t := by
  unfold needTrap
  rw [List.any_eq_false]
  constructor
  · intro h q hq a ha
    have := h q hq
    rw [Bool.not_eq_true, List.any_eq_false] at this
    have := this a ha
    cases hd : mdelta kept trans (some q) a with
    | none => simp [hd] at this
    | some t => exact ⟨t, rfl⟩
  · intro h q hq
    rw [Bool.not_eq_true, List.any_eq_false]
    intro a ha
    obtain ⟨t, ht⟩ := h q hq a ha
    simp [ht]

end system

/-! ### partitions -/
namespace Part
variable {τ : Type} [DecidableEq τ]

theorem IsPartitionOf.blocks_nodup {p : Part τ} {U : List τ} (h : p.IsPartitionOf U) :
    p.blocks.Nodup :=
  List.Pairwise.of_map Prod.fst (fun _ _ hne hab => hne (by rw [hab])) h.ids_nodup

theorem IsPartitionOf.same_block {p : Part τ} {U : List τ} (h : p.IsPartitionOf U)
    {b c : Nat × List τ} (hb : b ∈ p.blocks) (hc : c ∈ p.blocks) {x : τ}
    (hxb : x ∈ b.2) (hxc : x ∈ c.2) : b = c :=
  h.disjoint b hb c hc x hxb hxc

end Part

/-! ### the quotient construction, with the partition as a parameter -/

/-- Blocks that do not contain the trap. -/
def goodBlocks (p : Part (Option σ)) : List (Nat × List (Option σ)) :=
  p.blocks.filter fun b => !(b.2.contains none)

/-- The retained name of a block. -/
def bname (b : Nat × List (Option σ)) : MinName σ := MinName.blk (blockStates b.2)

/-- `back_map`. -/
def nameOfIn (good : List (Nat × List (Option σ))) (q : σ) : Option (MinName σ) :=
  (good.find? fun b => b.2.contains (some q)).map bname

/-- The new row of a block: the row of its representative, entries without a name dropped. -/
def qrow (good : List (Nat × List (Option σ))) (trans : List (σ × List (α × σ)))
    (b : Nat × List (Option σ)) : List (α × MinName σ) :=
  match (blockStates b.2).head? with
  | none => []
  | some r => qmap (nameOfIn good) ((alookup r trans).getD [])

/-- `minifyCore` with the partition as a parameter. -/
def quotOf (p : Part (Option σ)) (syms : List α) (trans : List (σ × List (α × σ))) (init : σ)
    (finals : List σ) : DFA (MinName σ) α :=
  if (goodBlocks p).isEmpty then
    { states := [MinName.zero], syms := syms,
      trans := [(MinName.zero, syms.map fun a => (a, MinName.zero))],
      init := MinName.zero, finals := [], allowPartial := false }
  else
    { states := (goodBlocks p).map bname, syms := syms,
      trans := (goodBlocks p).map fun b => (bname b, qrow (goodBlocks p) trans b),
      init := (nameOfIn (goodBlocks p) init).getD MinName.zero,
      finals := dedup (finals.filterMap (nameOfIn (goodBlocks p))),
      allowPartial := ((goodBlocks p).map fun b => (bname b, qrow (goodBlocks p) trans b)).any
        fun kv => kv.2.length != syms.length }

/-- `minifyCore` is `quotOf` of the partition computed by the refinement loop. -/
theorem minifyCore_eq (kept : List σ) (syms : List α) (trans : List (σ × List (α × σ))) (init : σ)
    (finals : List σ) (pick : List Nat → Nat) :
    minifyCore kept syms trans init finals pick =
      quotOf (hopcroft kept syms trans finals pick) syms trans init finals := by
  unfold minifyCore quotOf goodBlocks
  simp only []
  have key : ∀ good : List (Nat × List (Option σ)),
      (good.map fun b =>
        (MinName.blk (blockStates b.2),
          match (blockStates b.2).head? with
          | none => ([] : List (α × MinName σ))
          | some r => ((alookup r trans).getD []).filterMap fun e =>
              match (good.find? fun b => b.2.contains (some e.2)).map
                  fun b => MinName.blk (blockStates b.2) with
              | some nm => some (e.1, nm)
              | none => none)) =
      good.map fun b => (bname b, qrow good trans b) := by
    intro good
    apply List.map_congr_left
    intro b _
    unfold qrow qmap nameOfIn bname
    congr 1
    split
    · rfl
    · congr 1; funext e
      generalize Option.map _ _ = o
      cases o <;> rfl
  split
  · rfl
  · have := key (List.filter (fun b => !b.snd.contains none)
      (hopcroft kept syms trans finals pick).blocks)
    rw [← this]; rfl

theorem mem_blockStates {l : List (Option σ)} {q : σ} : q ∈ blockStates l ↔ some q ∈ l := by
  simp [blockStates, List.mem_filterMap]

theorem mem_goodBlocks {p : Part (Option σ)} {b : Nat × List (Option σ)} :
    b ∈ goodBlocks p ↔ b ∈ p.blocks ∧ none ∉ b.2 := by
  simp [goodBlocks, List.mem_filter]

/-- Class of an element of the system in the quotient: its block's name, or the sink. -/
def cls (good : List (Nat × List (Option σ))) : Option σ → Option (MinName σ)
  | none => none
  | some q => nameOfIn good q

/-- What the quotient lemmas assume: the callers' guarantees, dict-shaped rows and a
correct partition. -/
structure QuotHyp (kept : List σ) (syms : List α) (trans : List (σ × List (α × σ))) (init : σ)
    (finals : List σ) (p : Part (Option σ)) : Prop where
  min : MinHyp kept syms trans init finals
  rows_nodup : ∀ q r, alookup q trans = some r → (akeys r).Nodup
  part : p.IsPartitionOf (muniverse kept syms trans)
  same : ∀ x ∈ muniverse kept syms trans, ∀ y ∈ muniverse kept syms trans,
    (p.Same x y ↔ MEquiv kept trans finals x y)

theorem QuotHyp.of_hopcroft {kept : List σ} {syms : List α} {trans : List (σ × List (α × σ))}
    {init : σ} {finals : List σ} {pick : List Nat → Nat}
    (hm : MinHyp kept syms trans init finals)
    (hr : ∀ q r, alookup q trans = some r → (akeys r).Nodup)
    (hc : HopcroftCorrect kept syms trans finals pick) :
    QuotHyp kept syms trans init finals (hopcroft kept syms trans finals pick) :=
  ⟨hm, hr, hc.1, hc.2⟩

section quot
variable {kept : List σ} {syms : List α} {trans : List (σ × List (α × σ))} {init : σ}
  {finals : List σ} {p : Part (Option σ)} (H : QuotHyp kept syms trans init finals p)
include H

theorem good_elem {b : Nat × List (Option σ)} (hb : b ∈ goodBlocks p) {x : Option σ}
    (hx : x ∈ b.2) : ∃ q, q ∈ kept ∧ x = some q := by
  obtain ⟨hb', hn⟩ := mem_goodBlocks.mp hb
  have hU : x ∈ muniverse kept syms trans := (H.part.cover x).mpr ⟨b, hb', hx⟩
  cases x with
  | none => exact absurd hx hn
  | some q => exact ⟨q, (mem_muniverse_some kept syms trans).mp hU, rfl⟩

theorem good_rep {b : Nat × List (Option σ)} (hb : b ∈ goodBlocks p) :
    ∃ r, (blockStates b.2).head? = some r ∧ some r ∈ b.2 ∧ r ∈ kept := by
  obtain ⟨hb', _⟩ := mem_goodBlocks.mp hb
  have hne := H.part.nonempty b hb'
  cases hb2 : b.2 with
  | nil => exact absurd hb2 hne
  | cons x t =>
    obtain ⟨q, hq, hxq⟩ := good_elem H hb (x := x) (by rw [hb2]; simp)
    subst hxq
    exact ⟨q, by simp [blockStates], by simp, hq⟩

theorem bname_inj {b c : Nat × List (Option σ)} (hb : b ∈ goodBlocks p) (hc : c ∈ goodBlocks p)
    (h : bname b = bname c) : b = c := by
  unfold bname at h
  injection h with h
  obtain ⟨r, _, hrb, _⟩ := good_rep H hb
  have : some r ∈ c.2 := mem_blockStates.mp (h ▸ mem_blockStates.mpr hrb)
  exact H.part.same_block (mem_goodBlocks.mp hb).1 (mem_goodBlocks.mp hc).1 hrb this

theorem nameOfIn_eq_some {q : σ} {n : MinName σ} :
    nameOfIn (goodBlocks p) q = some n ↔ ∃ b ∈ goodBlocks p, some q ∈ b.2 ∧ bname b = n := by
  unfold nameOfIn
  constructor
  · intro h
    obtain ⟨b, hf, hn⟩ := Option.map_eq_some_iff.mp h
    exact ⟨b, List.mem_of_find?_eq_some hf, by simpa using List.find?_some hf, hn⟩
  · rintro ⟨b, hb, hq, hn⟩
    cases hf : (goodBlocks p).find? fun b => b.2.contains (some q) with
    | none =>
      have := List.find?_eq_none.mp hf b hb
      simp [hq] at this
    | some b' =>
      have hb' := List.mem_of_find?_eq_some hf
      have hq' : some q ∈ b'.2 := by simpa using List.find?_some hf
      have : b' = b :=
        H.part.same_block (mem_goodBlocks.mp hb').1 (mem_goodBlocks.mp hb).1 hq' hq
      subst this
      simp [hn]

omit H in
theorem nameOfIn_eq_none {good : List (Nat × List (Option σ))} {q : σ} :
    nameOfIn good q = none ↔ ∀ b ∈ good, some q ∉ b.2 := by
  unfold nameOfIn
  simp [List.find?_eq_none]

theorem cls_of_mem_block {b : Nat × List (Option σ)} (hb : b ∈ p.blocks) {x : Option σ}
    (hx : x ∈ b.2) :
    (none ∈ b.2 → cls (goodBlocks p) x = none) ∧
    (none ∉ b.2 → cls (goodBlocks p) x = some (bname b)) := by
  constructor
  · intro hn
    cases x with
    | none => rfl
    | some q =>
      show nameOfIn (goodBlocks p) q = none
      rw [nameOfIn_eq_none]
      intro c hc hqc
      have : c = b := H.part.same_block (mem_goodBlocks.mp hc).1 hb hqc hx
      subst this
      exact (mem_goodBlocks.mp hc).2 hn
  · intro hn
    cases x with
    | none => exact absurd hx hn
    | some q =>
      show nameOfIn (goodBlocks p) q = some (bname b)
      exact (nameOfIn_eq_some H).mpr ⟨b, mem_goodBlocks.mpr ⟨hb, hn⟩, hx, rfl⟩

theorem cls_congr {x y : Option σ} (hx : x ∈ muniverse kept syms trans)
    (hy : y ∈ muniverse kept syms trans) (h : MEquiv kept trans finals x y) :
    cls (goodBlocks p) x = cls (goodBlocks p) y := by
  obtain ⟨b, hb, hxb, hyb⟩ := (H.same x hx y hy).mpr h
  by_cases hn : none ∈ b.2
  · rw [(cls_of_mem_block H hb hxb).1 hn, (cls_of_mem_block H hb hyb).1 hn]
  · rw [(cls_of_mem_block H hb hxb).2 hn, (cls_of_mem_block H hb hyb).2 hn]

/-- A kept state without a name is equivalent to the trap (and the trap exists). -/
theorem cls_none {q : σ} (hq : q ∈ kept) (h : cls (goodBlocks p) (some q) = none) :
    none ∈ muniverse kept syms trans ∧ MEquiv kept trans finals (some q) none := by
  have hU : some q ∈ muniverse kept syms trans := (mem_muniverse_some kept syms trans).mpr hq
  obtain ⟨b, hb, hqb⟩ := (H.part.cover _).mp hU
  by_cases hn : none ∈ b.2
  · have hU' : none ∈ muniverse kept syms trans := (H.part.cover _).mpr ⟨b, hb, hn⟩
    exact ⟨hU', (H.same _ hU _ hU').mp ⟨b, hb, hqb, hn⟩⟩
  · rw [(cls_of_mem_block H hb hqb).2 hn] at h
    cases h

/-- A named state is not equivalent to the trap when the trap exists. -/
theorem cls_some {q : σ} {n : MinName σ} (h : cls (goodBlocks p) (some q) = some n)
    (hU' : none ∈ muniverse kept syms trans) : ¬ MEquiv kept trans finals (some q) none := by
  obtain ⟨b, hb, hqb, _⟩ := (nameOfIn_eq_some H).mp h
  obtain ⟨hb', hn⟩ := mem_goodBlocks.mp hb
  have hU : some q ∈ muniverse kept syms trans := (H.part.cover _).mpr ⟨b, hb', hqb⟩
  intro he
  obtain ⟨c, hc, hqc, hnc⟩ := (H.same _ hU _ hU').mpr he
  have : c = b := H.part.same_block hc hb' hqc hqb
  subst this
  exact hn hnc

theorem mdelta_foreign (q : σ) {a : α} (ha : a ∉ syms) : mdelta kept trans (some q) a = none := by
  cases hr : alookup q trans with
  | none => simp [mdelta, hr]
  | some r =>
    have : alookup a r = none := by
      rw [alookup_eq_none_iff]
      exact fun hk => ha (H.min.keys q r hr a hk)
    simp [mdelta, hr, this]

/-! #### the quotient when some block avoids the trap -/

omit H in
theorem quotOf_of_nonempty (hne : (goodBlocks p).isEmpty = false) :
    quotOf p syms trans init finals =
      { states := (goodBlocks p).map bname, syms := syms,
        trans := (goodBlocks p).map fun b => (bname b, qrow (goodBlocks p) trans b),
        init := (nameOfIn (goodBlocks p) init).getD MinName.zero,
        finals := dedup (finals.filterMap (nameOfIn (goodBlocks p))),
        allowPartial := ((goodBlocks p).map fun b => (bname b, qrow (goodBlocks p) trans b)).any
          fun kv => kv.2.length != syms.length } := by
  unfold quotOf
  rw [if_neg (by simp [hne])]

omit H in
theorem quotOf_of_empty (he : (goodBlocks p).isEmpty = true) :
    quotOf p syms trans init finals =
      { states := [MinName.zero], syms := syms,
        trans := [(MinName.zero, syms.map fun a => (a, MinName.zero))],
        init := MinName.zero, finals := [], allowPartial := false } := by
  unfold quotOf
  rw [if_pos he]

theorem quotOf_row (hne : (goodBlocks p).isEmpty = false) {b : Nat × List (Option σ)}
    (hb : b ∈ goodBlocks p) :
    (quotOf p syms trans init finals).row (bname b) = qrow (goodBlocks p) trans b := by
  unfold row row?
  rw [quotOf_of_nonempty hne]
  simp only
  rw [alookup_map_of_inj bname (qrow (goodBlocks p) trans) (goodBlocks p) b hb
    fun c hc h => bname_inj H hc hb h]
  rfl

omit H in
theorem quotOf_row_zero (hne : (goodBlocks p).isEmpty = false) :
    (quotOf p syms trans init finals).row MinName.zero = [] := by
  unfold row row?
  rw [quotOf_of_nonempty hne]
  simp only
  have : alookup MinName.zero
      ((goodBlocks p).map fun b => (bname b, qrow (goodBlocks p) trans b)) = none := by
    rw [alookup_eq_none_iff]
    simp [akeys, bname]
  rw [this]; rfl

theorem row_nodup (r : σ) : (akeys ((alookup r trans).getD [])).Nodup := by
  cases hr : alookup r trans with
  | none => simp [akeys]
  | some rr => exact H.rows_nodup r rr hr

theorem quotOf_step_rep (hne : (goodBlocks p).isEmpty = false) {b : Nat × List (Option σ)}
    (hb : b ∈ goodBlocks p) {r : σ} (hr : (blockStates b.2).head? = some r) (a : α) :
    (quotOf p syms trans init finals).step? (some (bname b)) a =
      cls (goodBlocks p) (mdelta kept trans (some r) a) := by
  show alookup a ((quotOf p syms trans init finals).row (bname b)) = _
  rw [quotOf_row H hne hb]
  have : qrow (goodBlocks p) trans b = qmap (nameOfIn (goodBlocks p)) ((alookup r trans).getD []) := by
    simp only [qrow, hr]
  rw [this, alookup_qmap _ _ (row_nodup H r)]
  cases hl : alookup a ((alookup r trans).getD []) with
  | none => simp [mdelta, hl, cls]
  | some t =>
    by_cases ht : t ∈ kept
    · simp [mdelta, hl, ht, cls]
    · have : nameOfIn (goodBlocks p) t = none := by
        rw [nameOfIn_eq_none]
        intro c hc htc
        obtain ⟨q, hq, he⟩ := good_elem H hc htc
        cases he
        exact ht hq
      simp [mdelta, hl, ht, cls, this]

/-- One move of the quotient follows the class of one move of the system. -/
theorem quotOf_step (hne : (goodBlocks p).isEmpty = false) {x : Option σ} (hx : Dom kept x) (a : α) :
    (quotOf p syms trans init finals).step? (cls (goodBlocks p) x) a =
      cls (goodBlocks p) (mdelta kept trans x a) := by
  cases x with
  | none => rfl
  | some q =>
    have hq : q ∈ kept := hx q rfl
    cases hcl : cls (goodBlocks p) (some q) with
    | none =>
      obtain ⟨hU', he⟩ := cls_none H hq hcl
      have he' := he.delta kept trans finals a
      show none = _
      cases hy : mdelta kept trans (some q) a with
      | none => rfl
      | some t =>
        rw [hy] at he'
        have ht : t ∈ kept := mdelta_some_kept kept trans hy
        have := cls_congr H ((mem_muniverse_some kept syms trans).mpr ht) hU' he'
        rw [this]; rfl
    | some n =>
      obtain ⟨b, hb, hqb, hn⟩ := (nameOfIn_eq_some H).mp hcl
      subst hn
      obtain ⟨r, hr, hrb, hrk⟩ := good_rep H hb
      rw [quotOf_step_rep H hne hb hr]
      have hb' := (mem_goodBlocks.mp hb).1
      have hUr : some r ∈ muniverse kept syms trans := (mem_muniverse_some kept syms trans).mpr hrk
      have hUq : some q ∈ muniverse kept syms trans := (mem_muniverse_some kept syms trans).mpr hq
      have he : MEquiv kept trans finals (some r) (some q) :=
        (H.same _ hUr _ hUq).mp ⟨b, hb', hrb, hqb⟩
      by_cases ha : a ∈ syms
      · exact cls_congr H (mdelta_mem_muniverse kept syms trans hrk ha)
          (mdelta_mem_muniverse kept syms trans hq ha) (he.delta kept trans finals a)
      · rw [mdelta_foreign H r ha, mdelta_foreign H q ha]

theorem quotOf_run (hne : (goodBlocks p).isEmpty = false) {x : Option σ} (hx : Dom kept x)
    (w : List α) :
    (quotOf p syms trans init finals).run (cls (goodBlocks p) x) w =
      cls (goodBlocks p) (mrun kept trans x w) := by
  induction w generalizing x with
  | nil => rfl
  | cons a w ih =>
    rw [run_cons, quotOf_step H hne hx, mrun_cons_eq]
    exact ih (dom_mdelta kept trans x a)

theorem quotOf_isFinal (hne : (goodBlocks p).isEmpty = false) {x : Option σ} (hx : Dom kept x) :
    (quotOf p syms trans init finals).isFinal (cls (goodBlocks p) x) = mfin finals x := by
  cases x with
  | none => rfl
  | some q =>
    have hq : q ∈ kept := hx q rfl
    cases hcl : cls (goodBlocks p) (some q) with
    | none =>
      obtain ⟨_, he⟩ := cls_none H hq hcl
      have := he []
      simp only [mrun_nil] at this
      rw [this]; rfl
    | some n =>
      show decide (n ∈ (quotOf p syms trans init finals).finals) = decide (q ∈ finals)
      rw [quotOf_of_nonempty hne]
      simp only
      rw [decide_eq_decide, mem_dedup, List.mem_filterMap]
      constructor
      · rintro ⟨f, hf, hfn⟩
        obtain ⟨b, hb, hqb, hn⟩ := (nameOfIn_eq_some H).mp hcl
        obtain ⟨b', hb', hfb', hn'⟩ := (nameOfIn_eq_some H).mp hfn
        have : b' = b := bname_inj H hb' hb (hn'.trans hn.symm)
        subst this
        have hb'' := (mem_goodBlocks.mp hb).1
        have hUf : some f ∈ muniverse kept syms trans := (H.part.cover _).mpr ⟨b', hb'', hfb'⟩
        have hUq : some q ∈ muniverse kept syms trans := (mem_muniverse_some kept syms trans).mpr hq
        have he := (H.same _ hUf _ hUq).mp ⟨b', hb'', hfb', hqb⟩ []
        simp only [mrun_nil, mfin, decide_eq_decide] at he
        exact he.mp hf
      · intro hf
        exact ⟨q, hf, hcl⟩

/-- Runs of the quotient from the class of `x` accept exactly what the system accepts from `x`. -/
theorem quotOf_track (hne : (goodBlocks p).isEmpty = false) {x : Option σ} (hx : Dom kept x)
    (w : List α) :
    (quotOf p syms trans init finals).isFinal
        ((quotOf p syms trans init finals).run (cls (goodBlocks p) x) w) =
      mfin finals (mrun kept trans x w) := by
  rw [quotOf_run H hne hx, quotOf_isFinal H hne (dom_mrun kept trans hx w)]

omit H in
theorem quotOf_zero_dead (hne : (goodBlocks p).isEmpty = false) (w : List α) :
    (quotOf p syms trans init finals).isFinal
      ((quotOf p syms trans init finals).run (some MinName.zero) w) = false := by
  cases w with
  | nil =>
    show decide (MinName.zero ∈ (quotOf p syms trans init finals).finals) = false
    rw [quotOf_of_nonempty hne]
    simp only
    rw [decide_eq_false_iff_not, mem_dedup, List.mem_filterMap]
    rintro ⟨f, _, hf⟩
    unfold nameOfIn at hf
    obtain ⟨b, _, hb⟩ := Option.map_eq_some_iff.mp hf
    cases hb
  | cons a w =>
    rw [run_cons]
    have : (quotOf p syms trans init finals).step? (some MinName.zero) a = none := by
      show alookup a ((quotOf p syms trans init finals).row MinName.zero) = none
      rw [quotOf_row_zero hne]; rfl
    rw [this, run_none]; rfl

/-- **Language of the quotient** (partition as a parameter). -/
theorem quotOf_accepts (w : List α) :
    (quotOf p syms trans init finals).accepts w = mfin finals (mrun kept trans (some init) w) := by
  have hinit : Dom kept (some init) := fun q hq => by cases hq; exact H.min.init_mem
  cases hne : (goodBlocks p).isEmpty with
  | false =>
    cases hcl : cls (goodBlocks p) (some init) with
    | none =>
      obtain ⟨_, he⟩ := cls_none H H.min.init_mem hcl
      rw [he w, mfin_mrun_none]
      have hi : (quotOf p syms trans init finals).init = MinName.zero := by
        rw [quotOf_of_nonempty hne]
        show (nameOfIn (goodBlocks p) init).getD MinName.zero = MinName.zero
        have : nameOfIn (goodBlocks p) init = none := hcl
        rw [this]; rfl
      unfold accepts
      rw [hi]
      exact quotOf_zero_dead hne w
    | some n =>
      have hi : (quotOf p syms trans init finals).init = n := by
        rw [quotOf_of_nonempty hne]
        show (nameOfIn (goodBlocks p) init).getD MinName.zero = n
        have : nameOfIn (goodBlocks p) init = some n := hcl
        rw [this]; rfl
      unfold accepts
      rw [hi, ← hcl]
      exact quotOf_track H hne hinit w
  | true =>
    have hg : goodBlocks p = [] := List.isEmpty_iff.mp hne
    have hcl : cls (goodBlocks p) (some init) = none := by
      show nameOfIn (goodBlocks p) init = none
      rw [hg]; rfl
    obtain ⟨_, he⟩ := cls_none H H.min.init_mem hcl
    rw [he w, mfin_mrun_none, quotOf_of_empty hne]
    unfold accepts isFinal
    simp only
    split <;> simp

end quot

/-- **2a. Language of `minifyCore`**: it accepts exactly the words the refinement system
`(mdelta, mfin)` accepts from `init`. -/
theorem minifyCore_accepts {kept : List σ} {syms : List α} {trans : List (σ × List (α × σ))}
    {init : σ} {finals : List σ} {pick : List Nat → Nat}
    (hm : MinHyp kept syms trans init finals)
    (hr : ∀ q r, alookup q trans = some r → (akeys r).Nodup)
    (hc : HopcroftCorrect kept syms trans finals pick) (w : List α) :
    (minifyCore kept syms trans init finals pick).accepts w =
      mfin finals (mrun kept trans (some init) w) := by
  rw [minifyCore_eq]
  exact quotOf_accepts (QuotHyp.of_hopcroft hm hr hc) w

/-! ### validity, shape, distinguishability, reachability, liveness, size, names -/

theorem nodup_map_of_inj_on {β γ : Type} (f : β → γ) {l : List β} (hnd : l.Nodup)
    (hinj : ∀ a ∈ l, ∀ b ∈ l, f a = f b → a = b) : (l.map f).Nodup := by
  unfold List.Nodup
  rw [List.pairwise_map]
  exact List.Pairwise.imp_of_mem (fun ha hb hne he => hne (hinj _ ha _ hb he)) hnd

section quot2
variable {kept : List σ} {syms : List α} {trans : List (σ × List (α × σ))} {init : σ}
  {finals : List σ} {p : Part (Option σ)} (H : QuotHyp kept syms trans init finals p)
include H

omit H in
theorem quotOf_syms : (quotOf p syms trans init finals).syms = syms := by
  unfold quotOf; split <;> rfl

theorem good_nodup : (goodBlocks p).Nodup :=
  List.Nodup.sublist List.filter_sublist H.part.blocks_nodup

theorem qrow_keys {b : Nat × List (Option σ)} :
    (akeys (qrow (goodBlocks p) trans b)).Nodup ∧
      ∀ a ∈ akeys (qrow (goodBlocks p) trans b), a ∈ syms := by
  unfold qrow
  split
  · simp [akeys]
  · rename_i r _
    refine ⟨List.Nodup.sublist (akeys_qmap_sublist _ _) (row_nodup H r), fun a ha => ?_⟩
    have ha' := (akeys_qmap_sublist _ _).subset ha
    cases hr : alookup r trans with
    | none => simp [hr, akeys] at ha'
    | some rr =>
      rw [hr] at ha'
      exact H.min.keys r rr hr a ha'

theorem qrow_vals {b : Nat × List (Option σ)} {n : MinName σ}
    (hn : n ∈ avals (qrow (goodBlocks p) trans b)) : n ∈ (goodBlocks p).map bname := by
  unfold qrow at hn
  split at hn
  · simp [avals] at hn
  · obtain ⟨v, _, hv⟩ := avals_qmap hn
    obtain ⟨c, hc, _, hcn⟩ := (nameOfIn_eq_some H).mp hv
    exact List.mem_map.mpr ⟨c, hc, hcn⟩

/-- If every kept state is reachable in the system and some block avoids the trap, the
initial state has a name. -/
theorem init_named (hne : (goodBlocks p).isEmpty = false)
    (hreach : ∀ q ∈ kept, ∃ w, mrun kept trans (some init) w = some q) :
    ∃ b ∈ goodBlocks p, some init ∈ b.2 ∧
      (quotOf p syms trans init finals).init = bname b ∧
      cls (goodBlocks p) (some init) = some (bname b) := by
  cases hcl : cls (goodBlocks p) (some init) with
  | none =>
    exfalso
    obtain ⟨hU', he⟩ := cls_none H H.min.init_mem hcl
    obtain ⟨b, hb⟩ := List.exists_mem_of_ne_nil _ (List.isEmpty_eq_false_iff.mp hne)
    obtain ⟨r, _, hrb, hrk⟩ := good_rep H hb
    obtain ⟨w, hw⟩ := hreach r hrk
    have he' := he.run kept trans finals w
    rw [hw, mrun_none] at he'
    have hb' := mem_goodBlocks.mp hb
    exact cls_some H ((cls_of_mem_block H hb'.1 hrb).2 hb'.2) hU' he'
  | some n =>
    obtain ⟨b, hb, hib, hn⟩ := (nameOfIn_eq_some H).mp hcl
    subst hn
    refine ⟨b, hb, hib, ?_, rfl⟩
    rw [quotOf_of_nonempty hne]
    show (nameOfIn (goodBlocks p) init).getD MinName.zero = bname b
    have : nameOfIn (goodBlocks p) init = some (bname b) := hcl
    rw [this]; rfl

/-- **2b. Validity of the quotient.** -/
theorem quotOf_wf (hreach : ∀ q ∈ kept, ∃ w, mrun kept trans (some init) w = some q) :
    (quotOf p syms trans init finals).WF := by
  cases hne : (goodBlocks p).isEmpty with
  | true =>
    rw [quotOf_of_empty hne]
    refine ⟨?_, ?_, ?_, ?_, ?_, ?_⟩
    · simp [akeys]
    · intro _ kv hkv a ha
      simp only [List.mem_singleton] at hkv
      subst hkv
      simpa [akeys, List.map_map, Function.comp_def] using ha
    · intro kv hkv a ha
      simp only [List.mem_singleton] at hkv
      subst hkv
      simpa [akeys, List.map_map, Function.comp_def] using ha
    · intro kv hkv n hn
      simp only [List.mem_singleton] at hkv
      subst hkv
      simp only [avals, List.map_map, List.mem_map, Function.comp_def] at hn
      obtain ⟨_, _, hn⟩ := hn
      simp [← hn]
    · simp
    · simp
  | false =>
    obtain ⟨b0, hb0, _, hinit, _⟩ := init_named H hne hreach
    refine ⟨?_, ?_, ?_, ?_, ?_, ?_⟩
    · rw [quotOf_of_nonempty hne]
      intro q hq
      simpa [akeys, List.map_map, Function.comp_def] using hq
    · intro hp kv hkv a ha
      rw [quotOf_of_nonempty hne] at hp hkv ha
      simp only at hp hkv ha
      obtain ⟨b, hb, hkvb⟩ := List.mem_map.mp hkv
      have hlen := List.any_eq_false.mp hp kv hkv
      subst hkvb
      simp only [bne_iff_ne, ne_eq, Decidable.not_not] at hlen
      have hk := qrow_keys H (b := b)
      refine subset_of_nodup_length_eq hk.1 hk.2 ?_ a ha
      rw [← hlen]; simp [akeys]
    · intro kv hkv a ha
      rw [quotOf_syms]
      rw [quotOf_of_nonempty hne] at hkv
      obtain ⟨b, hb, hkvb⟩ := List.mem_map.mp hkv
      subst hkvb
      exact (qrow_keys H).2 a ha
    · intro kv hkv n hn
      rw [quotOf_of_nonempty hne] at hkv ⊢
      obtain ⟨b, hb, hkvb⟩ := List.mem_map.mp hkv
      subst hkvb
      exact qrow_vals H hn
    · rw [hinit, quotOf_of_nonempty hne]
      exact List.mem_map.mpr ⟨b0, hb0, rfl⟩
    · intro n hn
      rw [quotOf_of_nonempty hne] at hn ⊢
      simp only [mem_dedup, List.mem_filterMap] at hn
      obtain ⟨f, _, hf⟩ := hn
      obtain ⟨c, hc, _, hcn⟩ := (nameOfIn_eq_some H).mp hf
      exact List.mem_map.mpr ⟨c, hc, hcn⟩

theorem quotOf_states_nodup : (quotOf p syms trans init finals).states.Nodup := by
  cases hne : (goodBlocks p).isEmpty with
  | true => rw [quotOf_of_empty hne]; simp
  | false =>
    rw [quotOf_of_nonempty hne]
    exact nodup_map_of_inj_on bname (good_nodup H) fun a ha b hb h => bname_inj H ha hb h

/-- The quotient is Python-shaped. -/
theorem quotOf_pyShape : (quotOf p syms trans init finals).PyShape := by
  refine ⟨quotOf_states_nodup H, ?_, ?_, ?_, ?_⟩
  · rw [quotOf_syms]; exact H.min.syms_nodup
  · cases hne : (goodBlocks p).isEmpty with
    | true => rw [quotOf_of_empty hne]; simp
    | false => rw [quotOf_of_nonempty hne]; exact nodup_dedup _
  · have hs := quotOf_states_nodup H
    cases hne : (goodBlocks p).isEmpty with
    | true => rw [quotOf_of_empty hne]; simp [akeys]
    | false =>
      rw [quotOf_of_nonempty hne] at hs ⊢
      simpa [akeys, List.map_map, Function.comp_def] using hs
  · cases hne : (goodBlocks p).isEmpty with
    | true =>
      rw [quotOf_of_empty hne]
      intro kv hkv
      simp only [List.mem_singleton] at hkv
      subst hkv
      simpa [akeys, List.map_map, Function.comp_def] using H.min.syms_nodup
    | false =>
      rw [quotOf_of_nonempty hne]
      intro kv hkv
      obtain ⟨b, _, hkvb⟩ := List.mem_map.mp hkv
      subst hkvb
      exact (qrow_keys H).1

/-- **2c. Distinct states of the quotient are distinguishable.** -/
theorem quotOf_distinguishable :
    ∀ n ∈ (quotOf p syms trans init finals).states, ∀ n' ∈ (quotOf p syms trans init finals).states,
      n ≠ n' → ∃ w, (quotOf p syms trans init finals).isFinal
          ((quotOf p syms trans init finals).run (some n) w) ≠
        (quotOf p syms trans init finals).isFinal
          ((quotOf p syms trans init finals).run (some n') w) := by
  cases hne : (goodBlocks p).isEmpty with
  | true =>
    rw [quotOf_of_empty hne]
    intro n hn n' hn' hnn
    simp only [List.mem_singleton] at hn hn'
    exact absurd (hn.trans hn'.symm) hnn
  | false =>
    intro n hn n' hn' hnn
    have hst : (quotOf p syms trans init finals).states = (goodBlocks p).map bname := by
      rw [quotOf_of_nonempty hne]
    rw [hst] at hn hn'
    obtain ⟨b, hb, hbn⟩ := List.mem_map.mp hn
    obtain ⟨c, hc, hcn⟩ := List.mem_map.mp hn'
    subst hbn hcn
    obtain ⟨r, _, hrb, hrk⟩ := good_rep H hb
    obtain ⟨s, _, hsc, hsk⟩ := good_rep H hc
    have hb' := mem_goodBlocks.mp hb
    have hc' := mem_goodBlocks.mp hc
    have hUr : some r ∈ muniverse kept syms trans := (mem_muniverse_some kept syms trans).mpr hrk
    have hUs : some s ∈ muniverse kept syms trans := (mem_muniverse_some kept syms trans).mpr hsk
    have hne' : ¬ MEquiv kept trans finals (some r) (some s) := by
      intro he
      obtain ⟨e, he', hre, hse⟩ := (H.same _ hUr _ hUs).mpr he
      have h1 : e = b := H.part.same_block he' hb'.1 hre hrb
      have h2 : e = c := H.part.same_block he' hc'.1 hse hsc
      exact hnn (by rw [← h1, ← h2])
    obtain ⟨w, hw⟩ := Classical.not_forall.mp hne'
    refine ⟨w, ?_⟩
    have hdr : Dom kept (some r) := fun q hq => by cases hq; exact hrk
    have hds : Dom kept (some s) := fun q hq => by cases hq; exact hsk
    rw [← (cls_of_mem_block H hb'.1 hrb).2 hb'.2, ← (cls_of_mem_block H hc'.1 hsc).2 hc'.2,
      quotOf_track H hne hdr, quotOf_track H hne hds]
    exact hw

/-- **2c. Every state of the quotient is reachable** when every kept state is reachable in
the system. -/
theorem quotOf_reachable (hreach : ∀ q ∈ kept, ∃ w, mrun kept trans (some init) w = some q) :
    ∀ n ∈ (quotOf p syms trans init finals).states,
      ∃ w, (quotOf p syms trans init finals).run
        (some (quotOf p syms trans init finals).init) w = some n := by
  cases hne : (goodBlocks p).isEmpty with
  | true =>
    rw [quotOf_of_empty hne]
    intro n hn
    simp only [List.mem_singleton] at hn
    subst hn
    exact ⟨[], rfl⟩
  | false =>
    intro n hn
    have hst : (quotOf p syms trans init finals).states = (goodBlocks p).map bname := by
      rw [quotOf_of_nonempty hne]
    rw [hst] at hn
    obtain ⟨b, hb, hbn⟩ := List.mem_map.mp hn
    subst hbn
    obtain ⟨r, _, hrb, hrk⟩ := good_rep H hb
    obtain ⟨w, hw⟩ := hreach r hrk
    obtain ⟨b0, _, _, hinit, hcl⟩ := init_named H hne hreach
    have hb' := mem_goodBlocks.mp hb
    have hdi : Dom kept (some init) := fun q hq => by cases hq; exact H.min.init_mem
    refine ⟨w, ?_⟩
    rw [hinit, ← hcl, quotOf_run H hne hdi, hw]
    exact (cls_of_mem_block H hb'.1 hrb).2 hb'.2

/-- When no trap is needed the quotient is complete. -/
theorem quotOf_complete_of_noTrap (hnt : needTrap kept syms trans = false) :
    (quotOf p syms trans init finals).allowPartial = false := by
  cases hne : (goodBlocks p).isEmpty with
  | true => rw [quotOf_of_empty hne]
  | false =>
    rw [quotOf_of_nonempty hne]
    simp only
    rw [List.any_eq_false]
    intro kv hkv
    obtain ⟨b, hb, hkvb⟩ := List.mem_map.mp hkv
    subst hkvb
    simp only [bne_iff_ne, ne_eq, Decidable.not_not]
    have htot := (needTrap_eq_false_iff kept syms trans).mp hnt
    have hnoU : none ∉ muniverse kept syms trans := by
      rw [mem_muniverse_none, hnt]; simp
    obtain ⟨r, hr, _, hrk⟩ := good_rep H hb
    have hq : qrow (goodBlocks p) trans b =
        qmap (nameOfIn (goodBlocks p)) ((alookup r trans).getD []) := by
      simp only [qrow, hr]
    rw [hq]
    have hnd := row_nodup H r
    have hkeys : ∀ a ∈ akeys ((alookup r trans).getD []), a ∈ syms := by
      intro a ha
      cases hrr : alookup r trans with
      | none => simp [hrr, akeys] at ha
      | some rr => rw [hrr] at ha; exact H.min.keys r rr hrr a ha
    -- every entry keeps its target
    rw [length_qmap_of_all]
    · -- the row has exactly the alphabet as keys
      have h1 : (akeys ((alookup r trans).getD [])).length ≤ syms.length :=
        List.Nodup.length_le_of_subset hnd fun a ha => hkeys a ha
      have h2 : syms.length ≤ (akeys ((alookup r trans).getD [])).length := by
        refine List.Nodup.length_le_of_subset H.min.syms_nodup fun a ha => ?_
        obtain ⟨t, ht⟩ := htot r hrk a ha
        rw [← alookup_isSome_iff]
        cases hl : alookup a ((alookup r trans).getD []) with
        | none => simp [mdelta, hl] at ht
        | some _ => rfl
      have : (akeys ((alookup r trans).getD [])).length = ((alookup r trans).getD []).length := by
        simp [akeys]
      omega
    · intro v hv
      obtain ⟨e, he, hev⟩ := List.mem_map.mp hv
      obtain ⟨a, v'⟩ := e
      cases hev
      have hl := alookup_of_mem_nodup hnd he
      have ha : a ∈ syms := hkeys a (alookup_some_key_mem hl)
      obtain ⟨t, ht⟩ := htot r hrk a ha
      have hvk : v' ∈ kept := by
        by_cases hvk : v' ∈ kept
        · exact hvk
        · simp [mdelta, hl, hvk] at ht
      obtain ⟨c, hc, hvc⟩ := (H.part.cover _).mp ((mem_muniverse_some kept syms trans).mpr hvk)
      have hcn : none ∉ c.2 := fun hn => hnoU ((H.part.cover _).mpr ⟨c, hc, hn⟩)
      exact ⟨bname c, (cls_of_mem_block H hc hvc).2 hcn⟩

/-- **2c. Every state of a partial quotient is live.** -/
theorem quotOf_live (hp : (quotOf p syms trans init finals).allowPartial = true) :
    ∀ n ∈ (quotOf p syms trans init finals).states, (quotOf p syms trans init finals).Live n := by
  have hnt : needTrap kept syms trans = true := by
    cases h : needTrap kept syms trans with
    | true => rfl
    | false => rw [quotOf_complete_of_noTrap H h] at hp; cases hp
  have hU' : none ∈ muniverse kept syms trans := (mem_muniverse_none kept syms trans).mpr hnt
  cases hne : (goodBlocks p).isEmpty with
  | true => rw [quotOf_of_empty hne] at hp; cases hp
  | false =>
    intro n hn
    have hst : (quotOf p syms trans init finals).states = (goodBlocks p).map bname := by
      rw [quotOf_of_nonempty hne]
    rw [hst] at hn
    obtain ⟨b, hb, hbn⟩ := List.mem_map.mp hn
    subst hbn
    obtain ⟨r, _, hrb, hrk⟩ := good_rep H hb
    have hb' := mem_goodBlocks.mp hb
    have hcl := (cls_of_mem_block H hb'.1 hrb).2 hb'.2
    have hne' := cls_some H hcl hU'
    obtain ⟨w, hw⟩ := Classical.not_forall.mp hne'
    rw [mfin_mrun_none] at hw
    have hdr : Dom kept (some r) := fun q hq => by cases hq; exact hrk
    refine ⟨w, ?_⟩
    rw [← hcl, quotOf_track H hne hdr]
    cases hm : mfin finals (mrun kept trans (some r) w) with
    | true => rfl
    | false => exact absurd hm hw

/-- The quotient has at most as many states as were kept. -/
theorem quotOf_size_le : (quotOf p syms trans init finals).states.length ≤ kept.length := by
  cases hne : (goodBlocks p).isEmpty with
  | true =>
    rw [quotOf_of_empty hne]
    exact List.length_pos_of_mem H.min.init_mem
  | false =>
    rw [quotOf_of_nonempty hne]
    simp only [List.length_map]
    refine length_le_of_rel_inj (fun (b : Nat × List (Option σ)) (q : σ) => some q ∈ b.2)
      (goodBlocks p) kept (good_nodup H) ?_ ?_
    · intro b hb
      obtain ⟨r, _, hrb, hrk⟩ := good_rep H hb
      exact ⟨r, hrk, hrb⟩
    · intro b hb c hc q hqb hqc
      exact H.part.same_block (mem_goodBlocks.mp hb).1 (mem_goodBlocks.mp hc).1 hqb hqc

/-- **2d. Names**: every state of the quotient is the `zero` of `empty_language` (only when
every kept state is equivalent to the trap) or `blk l` for a non-empty list `l` of kept
states that is exactly one equivalence class of the system. -/
theorem quotOf_names : ∀ n ∈ (quotOf p syms trans init finals).states,
    (n = MinName.zero ∧ (quotOf p syms trans init finals).states = [MinName.zero] ∧
      ∀ q ∈ kept, MEquiv kept trans finals (some q) none) ∨
    ∃ l, n = MinName.blk l ∧ l ≠ [] ∧ (∀ q ∈ l, q ∈ kept) ∧
      (∀ q ∈ l, ∀ q' ∈ kept, (q' ∈ l ↔ MEquiv kept trans finals (some q) (some q'))) := by
  cases hne : (goodBlocks p).isEmpty with
  | true =>
    intro n hn
    left
    rw [quotOf_of_empty hne] at hn ⊢
    simp only [List.mem_singleton] at hn
    refine ⟨hn, rfl, fun q hq => ?_⟩
    have hcl : cls (goodBlocks p) (some q) = none := by
      show nameOfIn (goodBlocks p) q = none
      rw [List.isEmpty_iff.mp hne]; rfl
    exact (cls_none H hq hcl).2
  | false =>
    intro n hn
    right
    have hst : (quotOf p syms trans init finals).states = (goodBlocks p).map bname := by
      rw [quotOf_of_nonempty hne]
    rw [hst] at hn
    obtain ⟨b, hb, hbn⟩ := List.mem_map.mp hn
    subst hbn
    have hb' := mem_goodBlocks.mp hb
    refine ⟨blockStates b.2, rfl, ?_, ?_, ?_⟩
    · obtain ⟨r, _, hrb, _⟩ := good_rep H hb
      exact List.ne_nil_of_mem (mem_blockStates.mpr hrb)
    · intro q hq
      obtain ⟨q', hq', he⟩ := good_elem H hb (mem_blockStates.mp hq)
      cases he; exact hq'
    · intro q hq q' hq'
      have hqb := mem_blockStates.mp hq
      have hUq : some q ∈ muniverse kept syms trans := (H.part.cover _).mpr ⟨b, hb'.1, hqb⟩
      have hUq' : some q' ∈ muniverse kept syms trans := (mem_muniverse_some kept syms trans).mpr hq'
      rw [mem_blockStates, ← H.same _ hUq _ hUq']
      constructor
      · intro h; exact ⟨b, hb'.1, hqb, h⟩
      · rintro ⟨c, hc, hqc, hq'c⟩
        have : c = b := H.part.same_block hc hb'.1 hqc hqb
        subst this; exact hq'c

/-- **2d. Cover**: a kept state that is not equivalent to the trap (or any kept state when no
trap was needed) lies in the name of some state. -/
theorem quotOf_cover {q : σ} (hq : q ∈ kept)
    (hlive : none ∈ muniverse kept syms trans → ¬ MEquiv kept trans finals (some q) none) :
    ∃ l, MinName.blk l ∈ (quotOf p syms trans init finals).states ∧ q ∈ l := by
  obtain ⟨b, hb, hqb⟩ := (H.part.cover _).mp ((mem_muniverse_some kept syms trans).mpr hq)
  have hn : none ∉ b.2 := by
    intro hn
    have hU' : none ∈ muniverse kept syms trans := (H.part.cover _).mpr ⟨b, hb, hn⟩
    exact hlive hU' ((H.same _ ((mem_muniverse_some kept syms trans).mpr hq) _ hU').mp ⟨b, hb, hqb, hn⟩)
  have hbg : b ∈ goodBlocks p := mem_goodBlocks.mpr ⟨hb, hn⟩
  have hne : (goodBlocks p).isEmpty = false :=
    List.isEmpty_eq_false_iff.mpr (List.ne_nil_of_mem hbg)
  refine ⟨blockStates b.2, ?_, mem_blockStates.mpr hqb⟩
  rw [quotOf_of_nonempty hne]
  exact List.mem_map.mpr ⟨b, hbg, rfl⟩

/-- **2d. Names are pairwise disjoint.** -/
theorem quotOf_disjoint {l l' : List σ}
    (hl : MinName.blk l ∈ (quotOf p syms trans init finals).states)
    (hl' : MinName.blk l' ∈ (quotOf p syms trans init finals).states) {q : σ}
    (hq : q ∈ l) (hq' : q ∈ l') : l = l' := by
  cases hne : (goodBlocks p).isEmpty with
  | true =>
    rw [quotOf_of_empty hne] at hl
    simp at hl
  | false =>
    rw [quotOf_of_nonempty hne] at hl hl'
    obtain ⟨b, hb, hbl⟩ := List.mem_map.mp hl
    obtain ⟨c, hc, hcl⟩ := List.mem_map.mp hl'
    unfold bname at hbl hcl
    injection hbl with hbl
    injection hcl with hcl
    subst hbl hcl
    have : b = c := H.part.same_block (mem_goodBlocks.mp hb).1 (mem_goodBlocks.mp hc).1
      (mem_blockStates.mp hq) (mem_blockStates.mp hq')
    rw [this]

end quot2

end DFA
end AV
