/-
Proofs/CompareEq.lean — `DFA.__eq__` (`eqv`): the generic Hopcroft–Karp theorem of
Proofs/CompareHK.lean instantiated with the disjoint union of the two operands
(`(state | None, operand index)`), core only.
-/
import AutomataVerif.Proofs.Compare
import AutomataVerif.Proofs.CompareHK

namespace AV
namespace DFA

set_option linter.unusedSectionVars false

variable {σ α : Type} [DecidableEq σ] [DecidableEq α]

/-- `transition` of `__eq__`. -/
def eqStep (A B : DFA σ α) : EqState σ → α → EqState σ := fun s a =>
  (if s.2 then B.step? s.1 a else A.step? s.1 a, s.2)

/-- `is_final_state` of `__eq__`. -/
def eqFin (A B : DFA σ α) : EqState σ → Bool := fun s =>
  if s.2 then B.isFinal s.1 else A.isFinal s.1

/-- The finite universe of the union–find: both state sets plus `None` on each side. -/
def eqUniv (A B : DFA σ α) : List (EqState σ) :=
  (none :: A.graphNodes.map some).map (fun x => (x, false)) ++
  (none :: B.graphNodes.map some).map (fun x => (x, true))

theorem eqv_eq (A B : DFA σ α) :
    A.eqv B = if !A.symsEq B then none else
      some (hkLoop (eqStep A B) (eqFin A B) A.syms (A.graphNodes.length + B.graphNodes.length + 4)
        [((some B.init, true), (some A.init, false))] [((some A.init, false), (some B.init, true))]) :=
  rfl

theorem eqRun_left (A B : DFA σ α) (x : Option σ) (w : List α) :
    w.foldl (eqStep A B) (x, false) = (A.run x w, false) := by
  induction w generalizing x with
  | nil => rfl
  | cons a w ih => rw [List.foldl_cons, run_cons, ← ih]; rfl

theorem eqRun_right (A B : DFA σ α) (x : Option σ) (w : List α) :
    w.foldl (eqStep A B) (x, true) = (B.run x w, true) := by
  induction w generalizing x with
  | nil => rfl
  | cons a w ih => rw [List.foldl_cons, run_cons, ← ih]; rfl

theorem length_eqUniv (A B : DFA σ α) :
    (A.eqUniv B).length = A.graphNodes.length + B.graphNodes.length + 2 := by
  simp [eqUniv]; omega

theorem mem_eqUniv (A B : DFA σ α) (x : Option σ) (b : Bool) :
    (x, b) ∈ A.eqUniv B ↔
      (b = false ∧ (x = none ∨ ∃ q ∈ A.graphNodes, x = some q)) ∨
      (b = true ∧ (x = none ∨ ∃ q ∈ B.graphNodes, x = some q)) := by
  unfold eqUniv
  simp only [List.mem_append, List.mem_map, List.mem_cons, Prod.mk.injEq]
  constructor
  · rintro (⟨y, hy, rfl, rfl⟩ | ⟨y, hy, rfl, rfl⟩)
    · left
      refine ⟨rfl, ?_⟩
      rcases hy with h | ⟨q, hq, rfl⟩
      · exact Or.inl h
      · exact Or.inr ⟨q, hq, rfl⟩
    · right
      refine ⟨rfl, ?_⟩
      rcases hy with h | ⟨q, hq, rfl⟩
      · exact Or.inl h
      · exact Or.inr ⟨q, hq, rfl⟩
  · rintro (⟨rfl, h⟩ | ⟨rfl, h⟩)
    · left
      refine ⟨x, ?_, rfl, rfl⟩
      rcases h with h | ⟨q, hq, rfl⟩
      · exact Or.inl h
      · exact Or.inr ⟨q, hq, rfl⟩
    · right
      refine ⟨x, ?_, rfl, rfl⟩
      rcases h with h | ⟨q, hq, rfl⟩
      · exact Or.inl h
      · exact Or.inr ⟨q, hq, rfl⟩

theorem eqUniv_closed (A B : DFA σ α) :
    ∀ s ∈ A.eqUniv B, ∀ a ∈ A.syms, eqStep A B s a ∈ A.eqUniv B := by
  rintro ⟨x, b⟩ _ a _
  cases b with
  | false =>
    show (A.step? x a, false) ∈ A.eqUniv B
    rw [mem_eqUniv]
    exact Or.inl ⟨rfl, step?_in_univ A x a⟩
  | true =>
    show (B.step? x a, true) ∈ A.eqUniv B
    rw [mem_eqUniv]
    exact Or.inr ⟨rfl, step?_in_univ B x a⟩

/-- Language equivalence of the two initial states in the disjoint union = equal verdicts on
all words over the alphabet. -/
theorem eq_LEq_iff (A B : DFA σ α) :
    HK.LEq (eqStep A B) (eqFin A B) A.syms (some A.init, false) (some B.init, true) ↔
      ∀ w : List α, (∀ a ∈ w, a ∈ A.syms) → A.accepts w = B.accepts w := by
  unfold HK.LEq
  simp only [eqRun_left, eqRun_right]
  exact Iff.rfl

/-- `==` is exact: for valid DFAs over one alphabet it answers (never `NotImplemented`) and
the answer is `True` iff the two DFAs give the same verdict on every word. -/
theorem eqv_spec (A B : DFA σ α) (hA : A.validate = .ok ()) (hB : B.validate = .ok ())
    (hs : A.symsEq B = true) :
    ∃ b, A.eqv B = some b ∧ (b = true ↔ ∀ w, A.accepts w = B.accepts w) := by
  have wfA := (DFA.validate_eq_ok A).mp hA
  have wfB := (DFA.validate_eq_ok B).mp hB
  rw [eqv_eq]
  simp only [hs, Bool.not_true, Bool.false_eq_true, if_false]
  refine ⟨_, rfl, ?_⟩
  have hne : ((some A.init, false) : EqState σ) ≠ (some B.init, true) := by
    intro e; exact Bool.noConfusion (congrArg Prod.snd e)
  rw [HK.hkLoop_iff (U := A.eqUniv B) (eqUniv_closed A B) ?_ ?_ hne ?_, eq_LEq_iff]
  · constructor
    · intro h w
      by_cases hw : ∀ a ∈ w, a ∈ A.syms
      · exact h w hw
      · have hw' : ∃ a ∈ w, a ∉ A.syms := by
          simpa using hw
        rw [accepts_foreign wfA hw']
        obtain ⟨a, ha, hna⟩ := hw'
        rw [accepts_foreign wfB ⟨a, ha, fun hb => hna (((symsEq_iff A B).mp hs a).mpr hb)⟩]
    · intro h w _; exact h w
  · rw [mem_eqUniv]
    exact Or.inl ⟨rfl, Or.inr ⟨A.init, states_sub_graphNodes A wfA.initOk, rfl⟩⟩
  · rw [mem_eqUniv]
    exact Or.inr ⟨rfl, Or.inr ⟨B.init, states_sub_graphNodes B wfB.initOk, rfl⟩⟩
  · rw [length_eqUniv]; omega

/-- `==` returns `NotImplemented` exactly for operands over different alphabets. -/
theorem eqv_none_iff (A B : DFA σ α) : A.eqv B = none ↔ A.symsEq B = false := by
  rw [eqv_eq]
  cases A.symsEq B <;> simp

end DFA
end AV
