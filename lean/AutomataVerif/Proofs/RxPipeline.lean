/-
Proofs/RxPipeline.lean — the whole pipeline on a token list of the grammar:
`parse_regex` after lexing (`parseTokens`) returns the builder run of the tree, and
`NFA.from_regex` returns a valid NFA whose transition table is that builder's.  Core only.
-/
import AutomataVerif.Proofs.RxBuild
import AutomataVerif.Proofs.RxShunt

namespace AV.Rx

set_option linter.unusedSectionVars false

variable {α : Type} [DecidableEq α]

theorem G_ne_nil {l : Lvl} {e : Rx α} {ts : List (Tok α)} (h : G l e ts) : ts ≠ [] := by
  obtain ⟨t, r, rfl, _⟩ := G_start h
  simp

/-- On a token list of the grammar that the validator accepts, everything `parse_regex` does
after lexing amounts to the builder run of the tree from counter 0. -/
theorem parseTokens_of_grammar (syms : List α) {e : Rx α} {ts : List (Tok α)} (h : G .E e ts)
    (hv : validateTokens ts = .ok ()) :
    ∃ b c', e.build syms 0 = .ok (b, c') ∧ parseTokens syms ts = .ok b := by
  obtain ⟨b, c', hb, _⟩ := build_spec syms e 0
  refine ⟨b, c', hb, ?_⟩
  unfold parseTokens
  have hne : ts.isEmpty = false := by
    cases ts with
    | nil => exact absurd rfl (G_ne_nil h)
    | cons t r => rfl
  simp only [hne, hv, parse_postfix h, evalPostfix_tree, hb]
  rfl

/-- `NFA.from_regex` on a string that lexes to a token list of the grammar with tree `e`, over an
explicit alphabet without reserved characters that contains the literals of `e`: the result is a
valid NFA (the constructor's `validate()` passes) holding the transition table of the builder
run of `e`. -/
theorem fromRegex_of_grammar {s : List Char} {syms : List Char} {e : Rx Char}
    {ts : List (Tok Char)} (hlex : lex s = .ok ts) (h : G .E e ts)
    (hv : validateTokens ts = .ok ())
    (hres : ∀ c ∈ syms, isReserved c = false) (hlits : ∀ a ∈ e.lits, a ∈ syms) :
    ∃ b c', e.build syms 0 = .ok (b, c') ∧ (b.toNFA syms).validate = .ok () ∧
      fromRegex s (some syms) = .ok (b.toNFA syms) := by
  obtain ⟨b, c', hb, _, i, r, sy, _⟩ := build_spec syms e 0
  obtain ⟨b', c'', hb', hp⟩ := parseTokens_of_grammar syms h hv
  rw [hb] at hb'
  cases hb'
  have hvalid : (b.toNFA syms).validate = .ok () :=
    Builder.toNFA_valid i r (sy.mono (fun x hx => hx.elim id (hlits x)))
  refine ⟨b, c', hb, hvalid, ?_⟩
  have hs : s.isEmpty = false := by
    cases s with
    | nil =>
      have : lex ([] : List Char) = .ok [] := rfl
      rw [this] at hlex
      cases hlex
      exact absurd rfl (G_ne_nil h)
    | cons c r => rfl
  have hany : syms.any isReserved = false := by
    rw [List.any_eq_false]
    intro c hc
    simp [hres c hc]
  unfold fromRegex parseRegex
  simp only [hany, hs, hlex, Bool.false_eq_true, if_false, hp, hvalid]

end AV.Rx
