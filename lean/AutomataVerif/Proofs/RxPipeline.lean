/-
Proofs/RxPipeline.lean — the whole pipeline on a token list of the grammar:
`parse_regex` after lexing (`parseTokens`) returns the builder run of the tree, and
`NFA.from_regex` returns a valid NFA whose transition table is that builder's.  Core only.
-/
import AutomataVerif.Proofs.RxBuild
import AutomataVerif.Proofs.RxShunt
import AutomataVerif.Proofs.RxLex
import AutomataVerif.Proofs.RxValidate

namespace AV.Rx

set_option linter.unusedSectionVars false

variable {α : Type} [DecidableEq α]

theorem G_ne_nil {l : Lvl} {e : Rx α} {ts : List (Tok α)} (h : G l e ts) : ts ≠ [] := by
  obtain ⟨t, r, rfl, _⟩ := G_start h
  simp

/-- On a token list of the grammar that the validator accepts, everything `parse_regex` does
after lexing amounts to the builder run of the tree from counter 0. -/
theorem parseTokens_of_grammar (syms : List α) {e : Rx α} {ts : List (Tok α)} (h : G .E e ts)
    (hv : validateTokens ts = .ok ()) :
    ∃ b c', e.build syms 0 = .ok (b, c') ∧ parseTokens syms ts = .ok b := by
  obtain ⟨b, c', hb, _⟩ := build_spec syms e 0
  refine ⟨b, c', hb, ?_⟩
  unfold parseTokens
  have hne : ts.isEmpty = false := by
    cases ts with
    | nil => exact absurd rfl (G_ne_nil h)
    | cons t r => rfl
  simp only [hne, hv, parse_postfix h, evalPostfix_tree, hb]
  rfl

/-- `NFA.from_regex` on a string that lexes to a token list of the grammar with tree `e`, over an
explicit alphabet without reserved characters that contains the literals of `e`: the result is a
valid NFA (the constructor's `validate()` passes) holding the transition table of the builder
run of `e`. -/
theorem fromRegex_of_grammar {s : List Char} {syms : List Char} {e : Rx Char}
    {ts : List (Tok Char)} (hlex : lex s = .ok ts) (h : G .E e ts)
    (hv : validateTokens ts = .ok ())
    (hres : ∀ c ∈ syms, isReserved c = false) (hlits : ∀ a ∈ e.lits, a ∈ syms) :
    ∃ b c', e.build syms 0 = .ok (b, c') ∧ (b.toNFA syms).validate = .ok () ∧
      fromRegex s (some syms) = .ok (b.toNFA syms) := by
  obtain ⟨b, c', hb, _, i, r, sy, _⟩ := build_spec syms e 0
  obtain ⟨b', c'', hb', hp⟩ := parseTokens_of_grammar syms h hv
  rw [hb] at hb'
  cases hb'
  have hvalid : (b.toNFA syms).validate = .ok () :=
    Builder.toNFA_valid i r (sy.mono (fun x hx => hx.elim id (hlits x)))
  refine ⟨b, c', hb, hvalid, ?_⟩
  have hs : s.isEmpty = false := by
    cases s with
    | nil =>
      have : lex ([] : List Char) = .ok [] := rfl
      rw [this] at hlex
      cases hlex
      exact absurd rfl (G_ne_nil h)
    | cons c r => rfl
  have hany : syms.any isReserved = false := by
    rw [List.any_eq_false]
    intro c hc
    simp [hres c hc]
  unfold fromRegex parseRegex
  simp only [hany, hs, hlex, Bool.false_eq_true, if_false, hp, hvalid]

/-- The literals of the tree are literal tokens of the token list. -/
theorem lits_mem_tokens {l : Lvl} {e : Rx α} {ts : List (Tok α)} (h : G l e ts) :
    ∀ a ∈ e.lits, Tok.str [a] ∈ ts := by
  induction h with
  | lit a => intro x hx; simp [Rx.lits] at hx; subst hx; simp
  | wild => intro x hx; simp [Rx.lits] at hx
  | eps => intro x hx; simp [Rx.lits] at hx
  | paren _ ih =>
    intro x hx
    exact List.mem_cons_of_mem _ (List.mem_append_left _ (ih x hx))
  | atom _ ih => exact ih
  | star _ ih => intro x hx; exact List.mem_append_left _ (ih x hx)
  | plus _ ih => intro x hx; exact List.mem_append_left _ (ih x hx)
  | opt _ ih => intro x hx; exact List.mem_append_left _ (ih x hx)
  | quant _ _ _ ih => intro x hx; exact List.mem_append_left _ (ih x hx)
  | factor _ ih => exact ih
  | cat _ _ ih1 ih2 =>
    intro x hx
    rcases List.mem_append.mp hx with h | h
    · exact List.mem_append_left _ (ih1 x h)
    · exact List.mem_append_right _ (ih2 x h)
  | term _ ih => exact ih
  | union _ _ ih1 ih2 =>
    intro x hx
    rcases List.mem_append.mp hx with h | h
    · exact List.mem_append_left _ (List.mem_append_left _ (ih1 x h))
    · exact List.mem_append_right _ (ih2 x h)
  | inter _ _ ih1 ih2 =>
    intro x hx
    rcases List.mem_append.mp hx with h | h
    · exact List.mem_append_left _ (List.mem_append_left _ (ih1 x h))
    · exact List.mem_append_right _ (ih2 x h)
  | shuffle _ _ ih1 ih2 =>
    intro x hx
    rcases List.mem_append.mp hx with h | h
    · exact List.mem_append_left _ (List.mem_append_left _ (ih1 x h))
    · exact List.mem_append_right _ (ih2 x h)

/-- A literal token of a spelled token list is a non-reserved character of the string. -/
theorem renders_str_mem {ts : List (Tok Char)} {s : List Char} (h : Renders ts s) :
    ∀ a, Tok.str [a] ∈ ts → a ∈ s ∧ isReserved a = false := by
  induction h with
  | nil => intro a ha; simp at ha
  | blank c _ _ ih =>
    intro a ha
    obtain ⟨h1, h2⟩ := ih a ha
    exact ⟨List.mem_cons_of_mem _ h1, h2⟩
  | tok ht _ ih =>
    intro a ha
    rcases List.mem_cons.mp ha with h | h
    · cases ht with
      | sym c hc =>
        cases h
        exact ⟨by simp, hc.2⟩
      | _ => cases h
    · obtain ⟨h1, h2⟩ := ih a h
      exact ⟨List.mem_append_right _ h1, h2⟩

/-- Tokens of a spelled list are lexer tokens. -/
theorem renders_lexTok {ts : List (Tok Char)} {s : List Char} (h : Renders ts s) :
    ∀ t ∈ ts, LexTok t := by
  induction h with
  | nil => intro t ht; simp at ht
  | blank c _ _ ih => exact ih
  | tok ht _ ih =>
    intro t hmem
    rcases List.mem_cons.mp hmem with h | h
    · subst h
      cases ht <;> simp [LexTok]
    · exact ih t h

theorem mem_defaultSyms {s : List Char} {a : Char} (h1 : a ∈ s) (h2 : isReserved a = false) :
    a ∈ defaultSyms s := by
  unfold defaultSyms
  rw [mem_dedup, List.mem_filter]
  exact ⟨h1, by simp [h2]⟩

/-- `NFA.from_regex(s)` with the default alphabet (`input_symbols=None`). -/
theorem fromRegex_default_of_grammar {s : List Char} {e : Rx Char} {ts : List (Tok Char)}
    (hlex : lex s = .ok ts) (h : G .E e ts) (hv : validateTokens ts = .ok ())
    (hlits : ∀ a ∈ e.lits, a ∈ defaultSyms s) :
    ∃ b c', e.build (defaultSyms s) 0 = .ok (b, c') ∧
      (b.toNFA (defaultSyms s)).validate = .ok () ∧
      fromRegex s none = .ok (b.toNFA (defaultSyms s)) := by
  obtain ⟨b, c', hb, _, i, r, sy, _⟩ := build_spec (defaultSyms s) e 0
  obtain ⟨b', c'', hb', hp⟩ := parseTokens_of_grammar (defaultSyms s) h hv
  rw [hb] at hb'
  cases hb'
  have hvalid : (b.toNFA (defaultSyms s)).validate = .ok () :=
    Builder.toNFA_valid i r (sy.mono (fun x hx => hx.elim id (hlits x)))
  refine ⟨b, c', hb, hvalid, ?_⟩
  have hs : s.isEmpty = false := by
    cases s with
    | nil =>
      have : lex ([] : List Char) = .ok [] := rfl
      rw [this] at hlex
      cases hlex
      exact absurd rfl (G_ne_nil h)
    | cons c r => rfl
  unfold fromRegex parseRegex
  simp only [hs, hlex, Bool.false_eq_true, if_false, hp, hvalid]

/-! ### the empty and the blank-only string (fix 9e58d22) -/

/-- A string of blanks spells the empty token list. -/
theorem renders_blanks {s : List Char} (h : ∀ c ∈ s, isBlank c = true) : Renders [] s := by
  induction s with
  | nil => exact .nil
  | cons c r ih =>
    exact .blank c (h c (by simp)) (ih (fun c' h' => h c' (List.mem_cons_of_mem _ h')))

/-- `parse_regex` on the empty string / a string of blanks: `from_string_literal("")` with a fresh
counter, whatever the alphabet. -/
theorem parseRegex_blanks {s : List Char} (h : ∀ c ∈ s, isBlank c = true) (syms : List Char) :
    parseRegex s syms = .ok (Builder.fromStringLiteral ([] : List Char) 0).1 := by
  unfold parseRegex
  by_cases hs : s.isEmpty = true
  · simp only [hs, if_true]
  · simp only [hs, Bool.false_eq_true, if_false, lex_renders (renders_blanks h), parseTokens,
      List.isEmpty_nil, if_true]

/-- The `{ε}` builder as an NFA over any alphabet passes the constructor's validation. -/
theorem epsNFA_valid (syms : List α) :
    ((Builder.fromStringLiteral ([] : List α) 0).1.toNFA syms).validate = .ok () :=
  Builder.toNFA_valid (syms := syms) (Builder.eps_spec (α := α) 0).1 (Builder.rows_eps 0)
    (Builder.syms_eps (fun x => x ∈ syms) 0)

/-- `NFA.from_regex` on the empty string / a string of blanks, explicit alphabet. -/
theorem fromRegex_blanks {s : List Char} (h : ∀ c ∈ s, isBlank c = true) (syms : List Char)
    (hres : ∀ c ∈ syms, isReserved c = false) :
    fromRegex s (some syms) = .ok ((Builder.fromStringLiteral ([] : List Char) 0).1.toNFA syms) := by
  have hany : syms.any isReserved = false := by
    rw [List.any_eq_false]
    intro c hc
    simp [hres c hc]
  unfold fromRegex
  simp only [hany, Bool.false_eq_true, if_false, parseRegex_blanks h, epsNFA_valid]

/-- `NFA.from_regex` on the empty string / a string of blanks, default alphabet. -/
theorem fromRegex_default_blanks {s : List Char} (h : ∀ c ∈ s, isBlank c = true) :
    fromRegex s none =
      .ok ((Builder.fromStringLiteral ([] : List Char) 0).1.toNFA (defaultSyms s)) := by
  unfold fromRegex
  simp only [parseRegex_blanks h, epsNFA_valid]

end AV.Rx
