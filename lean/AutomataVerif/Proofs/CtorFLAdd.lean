/-
Proofs/CtorFLAdd.lean — from_finite_language (C15), layer B1: what `add_to_trie` does to the
dicts, in closed form (no invariant needed).  Core only.
-/
import AutomataVerif.Proofs.CtorFLOrder
import AutomataVerif.Proofs.CtorACTrie

namespace AV.Ctor.FL

set_option linter.unusedSectionVars false
set_option linter.unusedVariables false
set_option linter.unusedSimpArgs false

variable {α : Type} [DecidableEq α]

/-- `transitions[q].get(a)` with a missing row read as `{}`. -/
def look (s : FLState α) (q : List α) (a : α) : Option (List α) :=
  (alookup q s.trans).bind fun row => alookup a row

theorem look_eq (s : FLState α) (q : List α) (a : α) :
    look s q a = alookup a ((alookup q s.trans).getD []) := by
  unfold look
  cases alookup q s.trans <;> simp

theorem nodup_akeys_asetdefault {κ β : Type} [DecidableEq κ] [DecidableEq β] {k : κ} {v : β}
    {d : List (κ × β)} (h : (akeys d).Nodup) : (akeys (asetdefault k v d)).Nodup := by
  unfold asetdefault
  by_cases hk : ahas k d = true
  · simp [hk, h]
  · have hk' : ahas k d = false := by simpa using hk
    simp only [hk', Bool.false_eq_true, if_false]
    have : k ∉ akeys d := by
      intro hm; exact hk (ahas_iff.mpr hm)
    simp only [akeys, List.map_append, List.map_cons, List.map_nil]
    rw [List.nodup_append]
    refine ⟨h, by simp, ?_⟩
    intro a ha b hb e
    simp only [List.mem_singleton] at hb
    subst hb; subst e; exact this ha

/-- Effect of one symbol of the walk. -/
structure SymEffect (s s' : FLState α) (pre : List α) (a : α) : Prop where
  finals : s'.finals = s.finals
  sigs : s'.sigs = s.sigs
  keys : ∀ q, q ∈ akeys s'.trans ↔ q = pre ∨ q ∈ akeys s.trans
  row : ∀ q, q ≠ pre → alookup q s'.trans = alookup q s.trans
  look : ∀ q b, look s' q b =
    match look s q b with
    | some t => some t
    | none => if q = pre ∧ a = b then some (pre ++ [a]) else none
  back : ∀ t, alookup t s'.back =
    if t = pre ++ [a] then some (sinsert pre ((alookup t s.back).getD [])) else alookup t s.back
  keysNodup : (akeys s.trans).Nodup → (akeys s'.trans).Nodup
  rowsNodup : (∀ q row, alookup q s.trans = some row → (akeys row).Nodup) →
    ∀ q row, alookup q s'.trans = some row → (akeys row).Nodup

theorem flAddSym_effect (s : FLState α) (pre : List α) (a : α) :
    SymEffect s (flAddSym (s, pre) a).1 pre a ∧ (flAddSym (s, pre) a).2 = pre ++ [a] := by
  refine ⟨⟨rfl, rfl, ?_, ?_, ?_, ?_, ?_, ?_⟩, rfl⟩
  · intro q
    simp only [flAddSym]
    rw [mem_akeys_ainsert]
  · intro q hq
    simp only [flAddSym]
    rw [alookup_ainsert]
    have : ¬ pre = q := fun e => hq e.symm
    simp [this]
  · intro q b
    unfold look
    simp only [flAddSym]
    rw [alookup_ainsert]
    by_cases h : pre = q
    · subst h
      simp only [if_true, Option.bind_some, alookup_asetdefault]
      cases h1 : alookup pre s.trans with
      | none => simp
      | some row =>
        simp only [Option.getD_some, Option.bind_some]
        cases alookup b row <;> simp
    · have h' : ¬ q = pre := fun e => h e.symm
      simp only [h, if_false, h', false_and]
      cases (alookup q s.trans).bind fun row => alookup b row <;> rfl
  · intro t
    simp only [flAddSym]
    rw [alookup_ainsert]
    by_cases h : pre ++ [a] = t
    · subst h; simp
    · have : ¬ t = pre ++ [a] := fun e => h e.symm
      simp [h, this]
  · intro h
    simp only [flAddSym]
    exact nodup_akeys_ainsert h
  · intro h q row hq
    simp only [flAddSym] at hq
    rw [alookup_ainsert] at hq
    by_cases e : pre = q
    · simp only [e, if_true, Option.some.injEq] at hq
      rw [← hq]
      apply nodup_akeys_asetdefault
      cases h1 : alookup q s.trans with
      | none => simp [akeys]
      | some r => exact h q r h1
    · simp only [e, if_false] at hq
      exact h q row hq

/-- Effect of the whole walk along `rest` starting at the prefix `pre`. -/
structure WalkEffect (s s' : FLState α) (pre rest : List α) : Prop where
  finals : s'.finals = s.finals
  sigs : s'.sigs = s.sigs
  keys : ∀ q, q ∈ akeys s'.trans ↔ q ∈ akeys s.trans ∨ ∃ j, j < rest.length ∧ q = pre ++ rest.take j
  row : ∀ q, (∀ j, j < rest.length → q ≠ pre ++ rest.take j) → alookup q s'.trans = alookup q s.trans
  look : ∀ q b, look s' q b =
    match look s q b with
    | some t => some t
    | none => if ∃ j, j < rest.length ∧ q = pre ++ rest.take j ∧ rest[j]? = some b then some (q ++ [b]) else none
  back : ∀ t, alookup t s'.back =
    if ∃ j, j < rest.length ∧ t = pre ++ rest.take (j + 1)
    then some (sinsert t.dropLast ((alookup t s.back).getD [])) else alookup t s.back
  keysNodup : (akeys s.trans).Nodup → (akeys s'.trans).Nodup
  rowsNodup : (∀ q row, alookup q s.trans = some row → (akeys row).Nodup) →
    ∀ q row, alookup q s'.trans = some row → (akeys row).Nodup

theorem append_take_ne {pre : List α} {r1 r2 : List α} {i j : Nat} (hi : i ≤ r1.length) (hj : j ≤ r2.length)
    (h : i ≠ j) : pre ++ r1.take i ≠ pre ++ r2.take j := by
  intro e
  have := congrArg List.length e
  simp only [List.length_append, List.length_take] at this
  omega

theorem walk_effect (rest : List α) : ∀ (s : FLState α) (pre : List α),
    WalkEffect s (rest.foldl flAddSym (s, pre)).1 pre rest ∧
      (rest.foldl flAddSym (s, pre)).2 = pre ++ rest := by
  induction rest with
  | nil =>
    intro s pre
    refine ⟨⟨rfl, rfl, ?_, fun _ _ => rfl, ?_, ?_, id, id⟩, by simp⟩
    · intro q; simp
    · intro q b
      simp only [List.foldl_nil, List.length_nil, Nat.not_lt_zero, false_and, exists_false, if_false]
      cases look s q b <;> rfl
    · intro t; simp
  | cons a rest ih =>
    intro s pre
    obtain ⟨e1, t1⟩ := flAddSym_effect s pre a
    rw [List.foldl_cons]
    have hpair : flAddSym (s, pre) a = ((flAddSym (s, pre) a).1, pre ++ [a]) := by
      rw [← t1]
    rw [hpair]
    obtain ⟨e2, t2⟩ := ih (flAddSym (s, pre) a).1 (pre ++ [a])
    refine ⟨⟨e2.finals.trans e1.finals, e2.sigs.trans e1.sigs, ?_, ?_, ?_, ?_,
      fun h => e2.keysNodup (e1.keysNodup h), fun h => e2.rowsNodup (e1.rowsNodup h)⟩,
      by rw [t2]; simp⟩
    · intro q
      rw [e2.keys, e1.keys]
      constructor
      · rintro ((h | h) | ⟨j, hj, h⟩)
        · exact Or.inr ⟨0, by simp, by simpa using h⟩
        · exact Or.inl h
        · exact Or.inr ⟨j + 1, by simpa using hj, by simpa using h⟩
      · rintro (h | ⟨j, hj, h⟩)
        · exact Or.inl (Or.inr h)
        · cases j with
          | zero => exact Or.inl (Or.inl (by simpa using h))
          | succ j => exact Or.inr ⟨j, by simpa using hj, by simpa using h⟩
    · intro q hq
      rw [e2.row q (fun j hj => by
        have := hq (j + 1) (by simpa using hj)
        simpa using this)]
      exact e1.row q (by have := hq 0 (by simp); simpa using this)
    · intro q b
      rw [e2.look, e1.look]
      cases h0 : look s q b with
      | some t => rfl
      | none =>
        simp only
        by_cases h1 : q = pre ∧ a = b
        · obtain ⟨rfl, rfl⟩ := h1
          simp only [and_self, if_true]
          have : ∃ j, j < (a :: rest).length ∧ q = q ++ (a :: rest).take j ∧ (a :: rest)[j]? = some a :=
            ⟨0, by simp, by simp, by simp⟩
          rw [if_pos this]
        · simp only [h1, if_false]
          have : (∃ j, j < rest.length ∧ q = pre ++ [a] ++ rest.take j ∧ rest[j]? = some b) ↔
              (∃ j, j < (a :: rest).length ∧ q = pre ++ (a :: rest).take j ∧ (a :: rest)[j]? = some b) := by
            constructor
            · rintro ⟨j, hj, e, hb⟩
              exact ⟨j + 1, by simpa using hj, by simpa using e, by simpa using hb⟩
            · rintro ⟨j, hj, e, hb⟩
              cases j with
              | zero =>
                exfalso
                apply h1
                simp only [List.take_zero, List.append_nil, List.getElem?_cons_zero, Option.some.injEq] at e hb
                exact ⟨e, hb⟩
              | succ j => exact ⟨j, by simpa using hj, by simpa using e, by simpa using hb⟩
          by_cases h2 : ∃ j, j < rest.length ∧ q = pre ++ [a] ++ rest.take j ∧ rest[j]? = some b
          · rw [if_pos h2, if_pos (this.mp h2)]
          · have h3 := fun h => h2 (this.mpr h)
            rw [if_neg h2, if_neg h3]
    · intro t
      rw [e2.back, e1.back]
      by_cases h1 : t = pre ++ [a]
      · -- the entry created by the first step; no later step touches it
        have hno : ¬ ∃ j, j < rest.length ∧ t = pre ++ [a] ++ rest.take (j + 1) := by
          rintro ⟨j, hj, e⟩
          rw [h1] at e
          have := congrArg List.length e
          simp only [List.length_append, List.length_take, List.length_cons, List.length_nil] at this
          omega
        have hyes : ∃ j, j < (a :: rest).length ∧ t = pre ++ (a :: rest).take (j + 1) :=
          ⟨0, by simp, by simpa using h1⟩
        rw [if_neg hno, if_pos h1, if_pos hyes, h1]
        simp
      · have : (∃ j, j < rest.length ∧ t = pre ++ [a] ++ rest.take (j + 1)) ↔
            (∃ j, j < (a :: rest).length ∧ t = pre ++ (a :: rest).take (j + 1)) := by
          constructor
          · rintro ⟨j, hj, e⟩
            exact ⟨j + 1, by simpa using hj, by simpa using e⟩
          · rintro ⟨j, hj, e⟩
            cases j with
            | zero => exact absurd (by simpa using e) h1
            | succ j => exact ⟨j, by simpa using hj, by simpa using e⟩
        rw [if_neg h1]
        by_cases h2 : ∃ j, j < rest.length ∧ t = pre ++ [a] ++ rest.take (j + 1)
        · rw [if_pos h2, if_pos (this.mp h2)]
        · have h3 := fun h => h2 (this.mpr h)
          rw [if_neg h2, if_neg h3]

/-- Effect of `add_to_trie(word)`. -/
structure AddEffect (s s' : FLState α) (w : List α) : Prop where
  finals : s'.finals = sinsert w s.finals
  sigs : s'.sigs = s.sigs
  keys : ∀ q, q ∈ akeys s'.trans ↔ q ∈ akeys s.trans ∨ ∃ j, j ≤ w.length ∧ q = w.take j
  row : ∀ q, (∀ j, j ≤ w.length → q ≠ w.take j) → alookup q s'.trans = alookup q s.trans
  look : ∀ q b, look s' q b =
    if q = w then none else
    match look s q b with
    | some t => some t
    | none => if ∃ j, j < w.length ∧ q = w.take j ∧ w[j]? = some b then some (q ++ [b]) else none
  back : ∀ t, alookup t s'.back =
    if ∃ j, j < w.length ∧ t = w.take (j + 1)
    then some (sinsert t.dropLast ((alookup t s.back).getD [])) else alookup t s.back
  keysNodup : (akeys s.trans).Nodup → (akeys s'.trans).Nodup
  rowsNodup : (∀ q row, alookup q s.trans = some row → (akeys row).Nodup) →
    ∀ q row, alookup q s'.trans = some row → (akeys row).Nodup

theorem AddEffect.look_ne {s s' : FLState α} {w : List α} (e : AddEffect s s' w) (q : List α) (b : α)
    (h : q ≠ w) : FL.look s' q b =
      match FL.look s q b with
      | some t => some t
      | none => if ∃ j, j < w.length ∧ q = w.take j ∧ w[j]? = some b then some (q ++ [b]) else none := by
  rw [e.look, if_neg h]

theorem AddEffect.look_self {s s' : FLState α} {w : List α} (e : AddEffect s s' w) (b : α) :
    FL.look s' w b = none := by
  rw [e.look, if_pos rfl]

theorem flAddWord_effect (s : FLState α) (w : List α) : AddEffect s (flAddWord s w) w := by
  obtain ⟨e, t⟩ := walk_effect w s []
  simp only [List.nil_append] at t
  have hs' : flAddWord s w =
      { (w.foldl flAddSym (s, [])).1 with
        trans := ainsert w [] (w.foldl flAddSym (s, [])).1.trans,
        finals := sinsert w (w.foldl flAddSym (s, [])).1.finals } := by
    unfold flAddWord; simp only; rw [t]
  rw [hs']
  refine ⟨by simp [e.finals], e.sigs, ?_, ?_, ?_, ?_, ?_, ?_⟩
  · intro q
    simp only
    rw [mem_akeys_ainsert, e.keys]
    simp only [List.nil_append]
    constructor
    · rintro (h | h | ⟨j, hj, h⟩)
      · exact Or.inr ⟨w.length, Nat.le_refl _, by simpa using h⟩
      · exact Or.inl h
      · exact Or.inr ⟨j, Nat.le_of_lt hj, h⟩
    · rintro (h | ⟨j, hj, h⟩)
      · exact Or.inr (Or.inl h)
      · by_cases hjw : j = w.length
        · left; rw [h, hjw]; simp
        · exact Or.inr (Or.inr ⟨j, by omega, h⟩)
  · intro q hq
    simp only
    rw [alookup_ainsert]
    have h1 : ¬ w = q := by
      intro e'; exact hq w.length (Nat.le_refl _) (by simp [e'])
    simp only [h1, if_false]
    exact e.row q (fun j hj => by simpa using hq j (Nat.le_of_lt hj))
  · intro q b
    unfold look
    simp only
    rw [alookup_ainsert]
    by_cases h1 : w = q
    · subst h1; simp
    · have h1' : ¬ q = w := fun e' => h1 e'.symm
      simp only [h1, if_false, h1']
      have := e.look q b
      unfold look at this
      simpa using this
  · intro t'
    simpa using e.back t'
  · intro h; exact nodup_akeys_ainsert (e.keysNodup h)
  · intro h q row hq
    simp only at hq
    rw [alookup_ainsert] at hq
    by_cases h1 : w = q
    · simp only [h1, if_true, Option.some.injEq] at hq
      rw [← hq]; simp [akeys]
    · simp only [h1, if_false] at hq
      exact e.rowsNodup h q row hq

end AV.Ctor.FL
