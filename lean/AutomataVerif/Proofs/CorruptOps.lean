/-
Proofs/CorruptOps.lean — edit operators on DFA / NFA definitions used by the operator-level
corruption theorems of Props/C19.lean (core only).
-/
import AutomataVerif.Proofs.ValidateRules

namespace AV.VA
open AV

set_option linter.unusedSectionVars false

variable {σ α : Type} [DecidableEq σ] [DecidableEq α]

/-- Removing the entries for symbol `a` from the row(s) of `q`. -/
def dropSymbol (d : DFA σ α) (q : σ) (a : α) : DFA σ α :=
  { d with trans := d.trans.map fun kv =>
      if kv.1 = q then (kv.1, kv.2.filter fun e => decide (e.1 ≠ a)) else kv }

theorem dropSymbol_keys (d : DFA σ α) (q : σ) (a : α) : akeys (dropSymbol d q a).trans = akeys d.trans := by
  simp only [dropSymbol, akeys, List.map_map]
  apply List.map_congr_left
  intro kv _
  simp only [Function.comp]
  split <;> rfl

theorem mem_ainsert {κ β : Type} [DecidableEq κ] (k : κ) (v : β) (l : List (κ × β)) (e : κ × β) :
    e ∈ ainsert k v l → e = (k, v) ∨ e ∈ l := by
  induction l with
  | nil => intro h; simp [ainsert] at h; exact Or.inl h
  | cons kv t ih =>
    obtain ⟨k', v'⟩ := kv
    simp only [ainsert]
    split
    · intro h
      rcases List.mem_cons.mp h with h | h
      · exact Or.inl h
      · exact Or.inr (List.mem_cons_of_mem _ h)
    · intro h
      rcases List.mem_cons.mp h with h | h
      · exact Or.inr (by simp [h])
      · rcases ih h with h | h
        · exact Or.inl h
        · exact Or.inr (List.mem_cons_of_mem _ h)

theorem ainsert_mem_self {κ β : Type} [DecidableEq κ] (k : κ) (v : β) (l : List (κ × β)) :
    (k, v) ∈ ainsert k v l := by
  induction l with
  | nil => simp [ainsert]
  | cons kv t ih =>
    obtain ⟨k', v'⟩ := kv
    simp only [ainsert]
    split
    · simp
    · exact List.mem_cons_of_mem _ ih

theorem akeys_ainsert_sup {κ β : Type} [DecidableEq κ] (k : κ) (v : β) (l : List (κ × β)) (x : κ)
    (hx : x ∈ akeys l) : x ∈ akeys (ainsert k v l) := by
  induction l with
  | nil => simp [akeys] at hx
  | cons kv t ih =>
    obtain ⟨k', v'⟩ := kv
    simp only [ainsert]
    split
    · rename_i hk
      simp only [akeys, List.map_cons, List.mem_cons] at hx ⊢
      rcases hx with hx | hx
      · exact Or.inl (hx.trans hk)
      · exact Or.inr hx
    · simp only [akeys, List.map_cons, List.mem_cons] at hx ⊢
      rcases hx with hx | hx
      · exact Or.inl hx
      · exact Or.inr (ih hx)

/-- `transitions[q][a] = t` (Python dict assignment: replace or append). -/
def setEntry (d : DFA σ α) (q : σ) (a : α) (t : σ) : DFA σ α :=
  { d with trans := d.trans.map fun kv => if kv.1 = q then (kv.1, ainsert a t kv.2) else kv }

theorem setEntry_keys (d : DFA σ α) (q : σ) (a : α) (t : σ) :
    akeys (setEntry d q a t).trans = akeys d.trans := by
  simp only [setEntry, akeys, List.map_map]
  apply List.map_congr_left
  intro kv _
  simp only [Function.comp]
  split <;> rfl

/-- Rows of the edited table: the old row, or the old row with the entry set. -/
theorem setEntry_rows (d : DFA σ α) (q : σ) (a : α) (t : σ) :
    ∀ kv' ∈ (setEntry d q a t).trans, ∃ kv ∈ d.trans,
      (∀ e ∈ kv'.2, e = (a, t) ∨ e ∈ kv.2) ∧ (∀ x ∈ akeys kv.2, x ∈ akeys kv'.2) := by
  intro kv' hkv'
  simp only [setEntry, List.mem_map] at hkv'
  obtain ⟨kv, hkv, rfl⟩ := hkv'
  refine ⟨kv, hkv, ?_⟩
  split
  · exact ⟨fun e he => mem_ainsert a t kv.2 e he, fun x hx => akeys_ainsert_sup a t kv.2 x hx⟩
  · exact ⟨fun e he => Or.inr he, fun x hx => hx⟩

/-- `transitions[q][a] = ts` on an NFA (Python dict assignment). -/
def NFA.setEntry (n : NFA σ α) (q : σ) (a : Option α) (ts : List σ) : NFA σ α :=
  { n with trans := n.trans.map fun kv => if kv.1 = q then (kv.1, ainsert a ts kv.2) else kv }

theorem NFA.setEntry_keys (n : NFA σ α) (q : σ) (a : Option α) (ts : List σ) :
    akeys (NFA.setEntry n q a ts).trans = akeys n.trans := by
  simp only [NFA.setEntry, akeys, List.map_map]
  apply List.map_congr_left
  intro kv _
  simp only [Function.comp]
  split <;> rfl

theorem NFA.setEntry_rows (n : NFA σ α) (q : σ) (a : Option α) (ts : List σ) :
    ∀ kv' ∈ (NFA.setEntry n q a ts).trans, ∃ kv ∈ n.trans, ∀ e ∈ kv'.2, e = (a, ts) ∨ e ∈ kv.2 := by
  intro kv' hkv'
  simp only [NFA.setEntry, List.mem_map] at hkv'
  obtain ⟨kv, hkv, rfl⟩ := hkv'
  refine ⟨kv, hkv, ?_⟩
  split
  · exact fun e he => mem_ainsert a ts kv.2 e he
  · exact fun e he => Or.inr he

end AV.VA
