/-
Proofs/RxGrammar.lean — the token-level grammar of the documented regular-expression syntax,
as a relation between trees and token lists (`G`), and its variant with the inserted tokens
written out (`G'`: explicit `ConcatToken`s, `()` as `( "" )`).

  E → T | E bin T          bin ∈ { | & ^ }   (one level, left associative)
  T → F | T F              (juxtaposition, left associative)
  F → A | F post           post ∈ { * + ? {lo,hi} }
  A → symbol | . | ( ) | ( E )

Redundant parentheses are derivable (`A → ( E )` with any `E`), so several token lists denote
the same tree.  Blanks never reach the token level (the lexer drops them).  Core only.
-/
import AutomataVerif.Proofs.RxEval

namespace AV.Rx

set_option linter.unusedSectionVars false

variable {α : Type}

/-- Grammar levels. -/
inductive Lvl
  | E | T | F | A
  deriving DecidableEq, Repr

/-- `G l e ts`: the token list `ts` (as produced by the lexer) is a level-`l` phrase of the
documented syntax whose abstract syntax tree is `e`. -/
inductive G : Lvl → Rx α → List (Tok α) → Prop
  | lit (a : α) : G .A (.lit a) [.str [a]]
  | wild : G .A .wildcard [.wildcard]
  | eps : G .A .eps [.lparen, .rparen]
  | paren {e : Rx α} {ts : List (Tok α)} : G .E e ts → G .A e (.lparen :: ts ++ [.rparen])
  | atom {e : Rx α} {ts : List (Tok α)} : G .A e ts → G .F e ts
  | star {e : Rx α} {ts : List (Tok α)} : G .F e ts → G .F (.star e) (ts ++ [.star])
  | plus {e : Rx α} {ts : List (Tok α)} : G .F e ts → G .F (.plus e) (ts ++ [.plus])
  | opt {e : Rx α} {ts : List (Tok α)} : G .F e ts → G .F (.opt e) (ts ++ [.opt])
  | quant {e : Rx α} {ts : List (Tok α)} (lo : Nat) (hi : Option Nat) :
      G .F e ts → G .F (.rep e lo hi) (ts ++ [.quant lo hi])
  | factor {e : Rx α} {ts : List (Tok α)} : G .F e ts → G .T e ts
  | cat {e f : Rx α} {ts us : List (Tok α)} : G .T e ts → G .F f us → G .T (.cat e f) (ts ++ us)
  | term {e : Rx α} {ts : List (Tok α)} : G .T e ts → G .E e ts
  | union {e f : Rx α} {ts us : List (Tok α)} :
      G .E e ts → G .T f us → G .E (.union e f) (ts ++ [.union] ++ us)
  | inter {e f : Rx α} {ts us : List (Tok α)} :
      G .E e ts → G .T f us → G .E (.inter e f) (ts ++ [.inter] ++ us)
  | shuffle {e f : Rx α} {ts us : List (Tok α)} :
      G .E e ts → G .T f us → G .E (.shuffle e f) (ts ++ [.shuffle] ++ us)

/-- The same grammar over the token list *after* `add_concat_and_empty_string_tokens`. -/
inductive G' : Lvl → Rx α → List (Tok α) → Prop
  | lit (a : α) : G' .A (.lit a) [.str [a]]
  | wild : G' .A .wildcard [.wildcard]
  | eps : G' .A .eps [.lparen, .str [], .rparen]
  | paren {e : Rx α} {ts : List (Tok α)} : G' .E e ts → G' .A e (.lparen :: ts ++ [.rparen])
  | atom {e : Rx α} {ts : List (Tok α)} : G' .A e ts → G' .F e ts
  | star {e : Rx α} {ts : List (Tok α)} : G' .F e ts → G' .F (.star e) (ts ++ [.star])
  | plus {e : Rx α} {ts : List (Tok α)} : G' .F e ts → G' .F (.plus e) (ts ++ [.plus])
  | opt {e : Rx α} {ts : List (Tok α)} : G' .F e ts → G' .F (.opt e) (ts ++ [.opt])
  | quant {e : Rx α} {ts : List (Tok α)} (lo : Nat) (hi : Option Nat) :
      G' .F e ts → G' .F (.rep e lo hi) (ts ++ [.quant lo hi])
  | factor {e : Rx α} {ts : List (Tok α)} : G' .F e ts → G' .T e ts
  | cat {e f : Rx α} {ts us : List (Tok α)} :
      G' .T e ts → G' .F f us → G' .T (.cat e f) (ts ++ [.concat] ++ us)
  | term {e : Rx α} {ts : List (Tok α)} : G' .T e ts → G' .E e ts
  | union {e f : Rx α} {ts us : List (Tok α)} :
      G' .E e ts → G' .T f us → G' .E (.union e f) (ts ++ [.union] ++ us)
  | inter {e f : Rx α} {ts us : List (Tok α)} :
      G' .E e ts → G' .T f us → G' .E (.inter e f) (ts ++ [.inter] ++ us)
  | shuffle {e f : Rx α} {ts us : List (Tok α)} :
      G' .E e ts → G' .T f us → G' .E (.shuffle e f) (ts ++ [.shuffle] ++ us)

/-- A token list is in the regex grammar. -/
def InGrammar (ts : List (Tok α)) : Prop := ∃ e, G .E e ts

/-- Every phrase is an expression. -/
theorem G.toE {l : Lvl} {e : Rx α} {ts : List (Tok α)} (h : G l e ts) : G .E e ts := by
  cases l with
  | E => exact h
  | T => exact .term h
  | F => exact .term (.factor h)
  | A => exact .term (.factor (.atom h))

end AV.Rx
