/-
Proofs/OpsE.lean — lemmas for Props/C19g.lean: the failing combinators of Model/DFAOpsE.lean
(`optE`, `asub`, `mapE`, `foldlE`, `bfsAuxE`) succeed and agree with their total counterparts
when every read hits; rows of declared states; `PartitionRefinement` and the loops of `_minify`
under the loop invariant of Proofs/HopcroftLoop.lean.
-/
import AutomataVerif.Model.DFAOpsE
import AutomataVerif.Proofs.Query
import AutomataVerif.Proofs.MinRep
import AutomataVerif.Proofs.Hopcroft

namespace AV

set_option linter.unusedSectionVars false

/-! ## generic lemmas about the failing combinators -/

theorem optE_some {β : Type} {o : Option β} {v : β} (h : o = some v) : optE o = .ok v := by
  subst h; rfl

theorem asub_of_lookup {κ β : Type} [DecidableEq κ] {k : κ} {d : List (κ × β)} {v : β}
    (h : alookup k d = some v) : asub k d = .ok v := optE_some h

theorem mapE_eq_ok {β γ : Type} (f : β → Res γ) (g : β → γ) :
    ∀ l : List β, (∀ x ∈ l, f x = .ok (g x)) → mapE f l = .ok (l.map g) := by
  intro l
  induction l with
  | nil => intro _; rfl
  | cons x t ih =>
    intro h
    have h1 := h x (by simp)
    have h2 := ih fun y hy => h y (by simp [hy])
    simp [mapE, h1, h2]

theorem mapE_optE_eq_filterMap {β γ : Type} (f : β → Option γ) :
    ∀ l : List β, (∀ x ∈ l, (f x).isSome = true) →
      mapE (fun x => optE (f x)) l = .ok (l.filterMap f) := by
  intro l
  induction l with
  | nil => intro _; rfl
  | cons x t ih =>
    intro h
    have h1 := h x (by simp)
    have h2 := ih fun y hy => h y (by simp [hy])
    cases hx : f x with
    | none => simp [hx] at h1
    | some v => rw [mapE, h2, hx]; simp [optE, hx]

theorem foldlE_eq_ok {β γ : Type} (f : γ → β → Res γ) (g : γ → β → γ) (P : γ → Prop)
    (l : List β) (h : ∀ acc x, P acc → x ∈ l → f acc x = .ok (g acc x) ∧ P (g acc x)) :
    ∀ acc, P acc → foldlE f acc l = .ok (l.foldl g acc) := by
  induction l with
  | nil => intro acc _; rfl
  | cons x t ih =>
    intro acc hP
    obtain ⟨h1, h2⟩ := h acc x hP (by simp)
    simp only [foldlE, h1, List.foldl_cons]
    exact ih (fun acc' y hP' hy => h acc' y hP' (by simp [hy])) _ h2

theorem bfsAuxE_eq_ok {σ : Type} [DecidableEq σ] (succE : σ → Res (List σ)) (succ : σ → List σ)
    (P : σ → Prop) (hs : ∀ q, P q → succE q = .ok (succ q)) (hc : ∀ q, P q → ∀ t ∈ succ q, P t) :
    ∀ (fuel : Nat) (work vis : List σ), (∀ q ∈ work, P q) →
      bfsAuxE succE fuel work vis = .ok (bfsAux succ fuel work vis) := by
  intro fuel
  induction fuel with
  | zero => intro work vis _; rfl
  | succ fuel ih =>
    intro work vis hw
    cases work with
    | nil => rfl
    | cons q work =>
      have hq := hw q (by simp)
      simp only [bfsAuxE, hs q hq, bfsAux]
      apply ih
      intro t ht
      rcases List.mem_append.mp ht with h | h
      · exact hw t (by simp [h])
      · have := mem_dedup.mp h
        exact hc q hq t (List.mem_filter.mp this).1

theorem alookup_map_val_g {κ β γ : Type} [DecidableEq κ] (f : β → γ) (k : κ) :
    ∀ l : List (κ × β), alookup k (l.map fun kv => (kv.1, f kv.2)) = (alookup k l).map f := by
  intro l
  induction l with
  | nil => rfl
  | cons e t ih =>
    obtain ⟨k', v⟩ := e
    simp only [List.map_cons, alookup_cons]
    split
    · rfl
    · exact ih

theorem alookup_map_self_g {κ β : Type} [DecidableEq κ] (f : κ → β) (k : κ) :
    ∀ l : List κ, k ∈ l → alookup k (l.map fun e => (e, f e)) = some (f k) := by
  intro l
  induction l with
  | nil => intro h; simp at h
  | cons e t ih =>
    intro h
    simp only [List.map_cons, alookup_cons]
    by_cases he : e = k
    · subst he; simp
    · rw [if_neg he]
      rcases List.mem_cons.mp h with h | h
      · exact absurd h.symm he
      · exact ih h

namespace DFA
variable {σ α : Type} [DecidableEq σ] [DecidableEq α]

/-! ## rows of declared states -/

theorem rowE_eq {d : DFA σ α} (wf : d.WF) {q : σ} (hq : q ∈ d.states) : d.rowE q = .ok (d.row q) := by
  obtain ⟨r, hr⟩ : ∃ r, alookup q d.trans = some r := by
    have := alookup_isSome_iff.mpr (wf.rows q hq)
    cases h : alookup q d.trans with
    | none => simp [h] at this
    | some r => exact ⟨r, rfl⟩
  unfold rowE row row?
  rw [asub_of_lookup hr, hr]; rfl

theorem rowSuccE_eq {d : DFA σ α} (wf : d.WF) {q : σ} (hq : q ∈ d.states) :
    d.rowSuccE q = .ok (avals (d.row q)) := by
  unfold rowSuccE; rw [rowE_eq wf hq]

theorem row_targets {d : DFA σ α} (wf : d.WF) {q t : σ} (ht : t ∈ avals (d.row q)) : t ∈ d.states := by
  unfold row row? at ht
  cases h : alookup q d.trans with
  | none => simp [h, avals] at ht
  | some r =>
    rw [h] at ht
    exact wf.tgtOk (q, r) (alookup_some_mem h) t ht

/-- The BFS over `self.transitions[state]` from the initial state never meets a missing row. -/
theorem bfs_rows_eq {d : DFA σ α} (wf : d.WF) (fuel : Nat) :
    bfsAuxE d.rowSuccE fuel (dedup [d.init]) (dedup [d.init]) =
      .ok (bfsAux (fun q => avals (d.row q)) fuel (dedup [d.init]) (dedup [d.init])) := by
  apply bfsAuxE_eq_ok d.rowSuccE (fun q => avals (d.row q)) (fun q => q ∈ d.states)
  · intro q hq; exact rowSuccE_eq wf hq
  · intro q _ t ht; exact row_targets wf ht
  · intro q hq
    have : q = d.init := by simpa using mem_dedup.mp hq
    subst this; exact wf.initOk


/-! ## `PartitionRefinement` -/

namespace Part
variable {τ : Type} [DecidableEq τ]

theorem getE_eq {p : Part τ} {i : Nat} (h : i ∈ p.ids) : p.getE i = .ok (p.get i) := by
  have : (alookup i p.blocks).isSome := alookup_isSome_iff.mpr h
  unfold getE asub get
  cases hl : alookup i p.blocks with
  | none => simp [hl] at this
  | some v => rfl

theorem refStepE_eq {S : List τ} {acc : Part τ × List (Nat × Nat)} {aid : Nat}
    (h : aid ∈ acc.1.ids) : refStepE S acc aid = .ok (refStep S acc aid) := by
  unfold refStepE refStep
  rw [getE_eq h]
  simp only
  split <;> rfl

theorem refStep_ids_sub (S : List τ) (acc : Part τ × List (Nat × Nat)) (aid : Nat) :
    ∀ i ∈ acc.1.ids, i ∈ (refStep S acc aid).1.ids := by
  intro i hi
  unfold refStep
  simp only
  split
  · obtain ⟨b, hb, rfl⟩ := List.mem_map.mp hi
    apply List.mem_map.mpr
    refine ⟨if b.1 = aid then (aid, _) else b,
      List.mem_append_left _ (List.mem_map.mpr ⟨b, hb, rfl⟩), ?_⟩
    split
    · rename_i h; exact h.symm
    · rfl
  · exact hi

/-- `refine(S)` on a well-formed partition of `U` with `S ⊆ U`: `self._partition[x]` and
`self._sets[Aid]` are always defined. -/
theorem refineE_eq {p : Part τ} {U : List τ} (h : p.WF U) {S : List τ} (hS : ∀ x ∈ S, x ∈ U) :
    p.refineE S = .ok (p.refine S) := by
  have hb : ∀ x ∈ S, (p.blockOf x).isSome = true := by
    intro x hx
    obtain ⟨i, hi, hxi⟩ := (h.cover x).mp (hS x hx)
    rw [h.blockOf_iff.mpr ⟨hi, hxi⟩]; rfl
  have he : p.blockOfE = fun x => optE (p.blockOf x) := rfl
  unfold refineE
  rw [he, mapE_optE_eq_filterMap _ S hb, refine_eq]
  simp only
  apply foldlE_eq_ok (refStepE S) (refStep S) (fun acc => ∀ i ∈ p.ids, i ∈ acc.1.ids)
  · intro acc aid hP haid
    have hid : aid ∈ p.ids := ((h.mem_hit_iff S).mp haid).1
    exact ⟨refStepE_eq (hP aid hid), fun i hi => refStep_ids_sub S acc aid i (hP i hi)⟩
  · intro i hi; exact hi

end Part

/-! ## the loops of `_minify` -/

theorem wStepE_eq {r : Part (Option σ)} {W : List Nat} {pr : Nat × Nat}
    (h1 : pr.1 ∈ r.ids) (h2 : pr.2 ∈ r.ids) : wStepE r W pr = .ok (wStep r W pr) := by
  unfold wStepE wStep
  split
  · rfl
  · rw [Part.getE_eq h1, Part.getE_eq h2]
    simp only
    split <;> rfl

/-- One symbol of the inner loop: `origin_dict[end_state]` is defined for every element of the
active block, and so are all reads inside `refine` and `get_set_by_id`. -/
theorem hopSymbolE_eq {U : List (Option σ)} {delta : Option σ → α → Option σ}
    {Sn : List (Option σ)} {acc : Part (Option σ) × List Nat} (a : α)
    (wf : acc.1.WF U) (hSn : ∀ x ∈ Sn, x ∈ U) :
    hopSymbolE U delta Sn acc a = .ok (hopSymbol U delta Sn acc a) := by
  unfold hopSymbolE
  rw [mapE_eq_ok _ (fun e => U.filter fun s => decide (delta s a = e)) Sn
    (by intro e he; apply asub_of_lookup; unfold backMap
        exact alookup_map_self_g _ e U (hSn e he))]
  simp only
  have hX : (U.filter fun s => decide (s ∈ (Sn.map fun e => U.filter fun s => decide (delta s a = e)).flatten))
      = U.filter fun s => decide (delta s a ∈ Sn) := by
    apply List.filter_congr
    intro s hs
    simp only [List.mem_flatten, List.mem_map, decide_eq_decide]
    constructor
    · rintro ⟨l, ⟨e, he, rfl⟩, hl⟩
      have := (List.mem_filter.mp hl).2
      simp only [decide_eq_true_eq] at this
      rw [this]; exact he
    · intro h
      exact ⟨_, ⟨_, h, rfl⟩, List.mem_filter.mpr ⟨hs, by simp⟩⟩
  rw [hX, Part.refineE_eq wf (S := U.filter fun s => decide (delta s a ∈ Sn))
    (fun x hx => (List.mem_filter.mp hx).1)]
  simp only
  have hs := Part.refine_spec wf (U.filter fun s => decide (delta s a ∈ Sn))
  rw [foldlE_eq_ok (wStepE _) (wStep _) (fun _ => True) _ (by
    intro W pr _ hpr
    refine ⟨wStepE_eq (hs.mem_ids.mpr (Or.inr ⟨pr, hpr, rfl⟩))
      (hs.mem_ids.mpr (Or.inl (hs.out_spec pr hpr).2.1.1)), trivial⟩) _ trivial]
  rfl

theorem innerFoldE_eq {U : List (Option σ)} {delta : Option σ → α → Option σ} {syms : List α}
    {E : Option σ → Option σ → Prop} {fin : Option σ → Bool}
    (hclosed : ∀ x ∈ U, ∀ a ∈ syms, delta x a ∈ U)
    (hE : ∀ x y a, E x y → E (delta x a) (delta y a))
    {Sn : List (Option σ)} (hSn : ∀ x ∈ Sn, x ∈ U) :
    ∀ (todo : List α) (acc : Part (Option σ) × List Nat),
    (∀ a ∈ todo, a ∈ syms) → Inv U delta syms E fin Sn todo acc.1 acc.2 →
    foldlE (hopSymbolE U delta Sn) acc todo = .ok (todo.foldl (hopSymbol U delta Sn) acc) := by
  intro todo
  induction todo with
  | nil => intro acc _ _; rfl
  | cons a rest ih =>
    intro acc hsub inv
    simp only [foldlE, List.foldl_cons]
    rw [hopSymbolE_eq a inv.wf hSn]
    simp only
    obtain ⟨h1, _⟩ := hopSymbol_inv hclosed hE (hsub a (by simp)) inv
    exact ih _ (fun b hb => hsub b (by simp [hb])) h1

theorem hopLoopE_succ_cons (U : List (Option σ)) (delta : Option σ → α → Option σ) (syms : List α)
    (pick : List Nat → Nat) (fuel : Nat) (p : Part (Option σ)) (w : Nat) (ws : List Nat) :
    hopLoopE U delta syms pick (fuel + 1) p (w :: ws) =
      match p.getE ((w :: ws).getD (pick (w :: ws) % (w :: ws).length) w) with
      | .error e => .error e
      | .ok active =>
        match foldlE (hopSymbolE U delta active)
            (p, (w :: ws).eraseIdx (pick (w :: ws) % (w :: ws).length)) syms with
        | .error e => .error e
        | .ok r => hopLoopE U delta syms pick fuel r.1 r.2 := rfl

/-- The `while processing:` loop: every popped id is the id of a block. -/
theorem hopLoopE_eq {U : List (Option σ)} {delta : Option σ → α → Option σ} {syms : List α}
    {E : Option σ → Option σ → Prop} {fin : Option σ → Bool}
    (hclosed : ∀ x ∈ U, ∀ a ∈ syms, delta x a ∈ U)
    (hE : ∀ x y a, E x y → E (delta x a) (delta y a))
    (pick : List Nat → Nat) : ∀ (fuel : Nat) (p : Part (Option σ)) (W : List Nat),
    Inv U delta syms E fin [] [] p W →
    hopLoopE U delta syms pick fuel p W = .ok (hopLoop U delta syms pick fuel p W) := by
  intro fuel
  induction fuel with
  | zero => intro p W _; rfl
  | succ fuel ih =>
    intro p W inv
    cases W with
    | nil => rfl
    | cons w ws =>
      rw [hopLoop_succ_cons, hopLoopE_succ_cons]
      generalize hW : w :: ws = W at *
      have hpos : 0 < W.length := by rw [← hW]; simp
      generalize hi : pick W % W.length = i
      have hilt : i < W.length := by rw [← hi]; exact Nat.mod_lt _ hpos
      have hget : W.getD i w = W[i] := by
        rw [List.getD_eq_getElem?_getD, List.getElem?_eq_getElem hilt]; rfl
      rw [hget]
      have hid : W[i] ∈ W := List.getElem_mem hilt
      have h1 : ∀ j ∈ W, j = W[i] ∨ j ∈ W.eraseIdx i := by
        intro j hj
        obtain ⟨k, hk, rfl⟩ := List.getElem_of_mem hj
        by_cases hki : k = i
        · subst hki; exact Or.inl rfl
        · exact Or.inr (List.mem_eraseIdx_iff_getElem.mpr ⟨k, hk, hki, rfl⟩)
      have h2 : ∀ j ∈ W.eraseIdx i, j ∈ W := fun j hj => (List.eraseIdx_sublist W i).subset hj
      have h3 : (W.eraseIdx i).Nodup := inv.w_nodup.eraseIdx i
      have hidp : W[i] ∈ p.ids := inv.w_ids _ hid
      have hSn : ∀ x ∈ p.get W[i], x ∈ U := fun x hx => (inv.wf.cover x).mpr ⟨_, hidp, hx⟩
      have inv' := pop_inv inv hid h1 h2 h3
      rw [Part.getE_eq hidp]
      simp only
      rw [innerFoldE_eq hclosed hE hSn syms (p, W.eraseIdx i) (fun a ha => ha) inv']
      simp only
      obtain ⟨g1, _⟩ := innerFold_inv hclosed hE syms p (W.eraseIdx i) (fun a ha => ha) inv'
      exact ih _ _ g1.boundary

/-- **The refinement of `_minify` performs no failing read** under the preconditions the callers
guarantee (`MinHyp`), for every pop order. -/
theorem hopcroftE_eq {kept : List σ} {syms : List α} {trans : List (σ × List (α × σ))} {init : σ}
    {finals : List σ} (h : MinHyp kept syms trans init finals) (pick : List Nat → Nat) :
    hopcroftE kept syms trans finals pick = .ok (hopcroft kept syms trans finals pick) := by
  have hU : muniverse kept syms trans ≠ [] := by
    apply List.ne_nil_of_mem (a := some init)
    unfold muniverse
    exact List.mem_append_left _ (List.mem_map.mpr ⟨init, h.init_mem, rfl⟩)
  have hF : ∀ x ∈ finals.map some, x ∈ muniverse kept syms trans := by
    intro x hx
    obtain ⟨f, hf, rfl⟩ := List.mem_map.mp hx
    unfold muniverse
    exact List.mem_append_left _ (List.mem_map.mpr ⟨f, h.finals_sub f hf, rfl⟩)
  unfold hopcroftE
  simp only
  rw [Part.refineE_eq (init_wf hU) hF, hopcroft_eq]
  simp only
  exact hopLoopE_eq (E := MEquiv kept trans finals) (fin := mfin finals)
    (fun x hx a ha => mdelta_closed hx ha) (fun x y a hxy => hxy.step a) pick _ _ _ (init_inv h)


/-! ## the re-assembly after the loop -/

theorem renameRow_eq_qmap (f : σ → Option (MinName σ)) (row : List (α × σ)) :
    renameRow f row = qmap f row := by
  unfold renameRow qmap
  congr 1; funext e
  cases f e.2 <;> rfl

theorem assembleE_eq' (p : Part (Option σ)) (syms : List α) (trans : List (σ × List (α × σ)))
    (init : σ) (finals : List σ) :
    assembleE p syms trans init finals =
      assembleWithE (goodBlocks p) (nameOfIn (goodBlocks p)) syms trans init finals := rfl

/-- `back_map[initial_state]`, `back_map[acc]`, `next(iter(eq))`, `transitions[eq_class_rep]`
succeed as soon as the totalised reads of `quotOf` do not take their defaults. -/
theorem assembleE_eq (p : Part (Option σ)) (syms : List α) (trans : List (σ × List (α × σ)))
    (init : σ) (finals : List σ)
    (h1 : (goodBlocks p).isEmpty = false → (nameOfIn (goodBlocks p) init).isSome = true)
    (h2 : (goodBlocks p).isEmpty = false → ∀ f ∈ finals, (nameOfIn (goodBlocks p) f).isSome = true)
    (h3 : (goodBlocks p).isEmpty = false → ∀ b ∈ goodBlocks p,
      ∃ r row, (blockStates b.2).head? = some r ∧ alookup r trans = some row) :
    assembleE p syms trans init finals = .ok (quotOf p syms trans init finals) := by
  rw [assembleE_eq']
  unfold assembleWithE quotOf
  cases hne : (goodBlocks p).isEmpty with
  | true => simp
  | false =>
    simp only [Bool.false_eq_true, if_false]
    obtain ⟨n, hn⟩ := Option.isSome_iff_exists.mp (h1 hne)
    rw [hn, mapE_optE_eq_filterMap _ finals (h2 hne),
      mapE_eq_ok _ (fun b => (bname b, qrow (goodBlocks p) trans b)) (goodBlocks p)]
    · rfl
    · intro b hb
      obtain ⟨r, row, hr, hrow⟩ := h3 hne b hb
      unfold blockRowE qrow
      rw [hr]
      simp only [asub_of_lookup hrow, hrow, bindE, renameRow_eq_qmap]
      rfl

/-- **`_minify` performs no failing read** on arguments that describe a DFA (`MinSource`: what
`minify`, `to_partial`, `complement`, the Boolean operations and `from_nfa` pass), and returns
the value of the total model `minifyCore`. -/
theorem minifyCoreE_eq {d : DFA σ α} {kept finals : List σ} (S : MinSource d kept finals)
    (pick : List Nat → Nat) :
    minifyCoreE kept d.syms d.trans d.init finals pick =
      .ok (minifyCore kept d.syms d.trans d.init finals pick) := by
  unfold minifyCoreE
  rw [hopcroftE_eq S.hyp pick, minifyCore_eq]
  simp only
  apply assembleE_eq
  · intro hne; exact (S.no_keyerror pick hne).1
  · intro hne; exact (S.no_keyerror pick hne).2.1
  · intro hne; exact (S.no_keyerror pick hne).2.2.1

end DFA

end AV
