/-
Proofs/TMAgree.lean — a deterministic table run as DTM, as NTM (`DTM.asNTM`) and as one-tape
MNTM (`DTM.asMNTM`): the three generators end the same way.  Also: what `validate` gives
about final states (no rows), used instead of assumed.
-/
import AutomataVerif.Proofs.TMRun
import AutomataVerif.Proofs.Validate
import AutomataVerif.Model.TMValidate

namespace AV.TM
set_option linter.unusedSectionVars false
variable {σ Γ : Type} [DecidableEq σ] [DecidableEq Γ]

/-! ### validation: final states carry no transitions, the initial state is not final -/

theorem validateStates_ok {states trKeys : List σ} {init : σ} {finals : List σ}
    (h : validateStates states trKeys init finals = .ok ()) :
    init ∈ states ∧ init ∉ finals ∧ (∀ q ∈ finals, q ∈ states) ∧ ∀ q ∈ finals, q ∉ trKeys := by
  unfold validateStates at h
  simp only [Res.andThen_eq_ok, guardE_eq_ok, firstErr_eq_ok, decide_eq_true_eq, List.all_eq_true] at h
  exact ⟨h.1, h.2.2.1, h.2.2.2.1, h.2.2.2.2⟩

theorem alookup_none_of_not_mem {κ β : Type} [DecidableEq κ] {k : κ} {l : List (κ × β)}
    (h : k ∉ akeys l) : alookup k l = none := by
  induction l with
  | nil => rfl
  | cons kv t ih =>
    simp only [akeys, List.map_cons, List.mem_cons, not_or] at h
    simp only [alookup]
    split
    · rename_i heq; exact absurd heq.symm h.1
    · exact ih h.2

theorem DTM.validate_final_no_rows (M : DTM σ Γ) (h : M.validate = .ok ()) :
    (∀ q ∈ M.finals, alookup q M.trans = none) ∧ M.init ∉ M.finals := by
  unfold DTM.validate at h
  simp only [Res.andThen_eq_ok] at h
  have := validateStates_ok h.2.2
  exact ⟨fun q hq => alookup_none_of_not_mem (this.2.2.2 q hq), this.2.1⟩

theorem NTM.validate_final_no_rows (M : NTM σ Γ) (h : M.validate = .ok ()) :
    (∀ q ∈ M.finals, alookup q M.trans = none) ∧ M.init ∉ M.finals := by
  unfold NTM.validate at h
  simp only [Res.andThen_eq_ok] at h
  have := validateStates_ok h.2.2
  exact ⟨fun q hq => alookup_none_of_not_mem (this.2.2.2 q hq), this.2.1⟩

theorem MNTM.validate_final_no_rows (M : MNTM σ Γ) (h : M.validate = .ok ()) :
    (∀ q ∈ M.finals, alookup q M.trans = none) ∧ M.init ∉ M.finals := by
  unfold MNTM.validate at h
  simp only [Res.andThen_eq_ok] at h
  have := validateStates_ok h.2.2.1
  exact ⟨fun q hq => alookup_none_of_not_mem (this.2.2.2 q hq), this.2.1⟩

/-- `|moves| = n_tapes` and `|key| = n_tapes` for every entry of a valid MNTM. -/
theorem MNTM.validate_tapes (M : MNTM σ Γ) (h : M.validate = .ok ()) :
    ∀ kv ∈ M.trans, ∀ e ∈ kv.2, e.1.length = M.nTapes ∧ ∀ t ∈ e.2, t.2.length = M.nTapes := by
  unfold MNTM.validate at h
  simp only [Res.andThen_eq_ok] at h
  have ht := h.2.2.2
  unfold MNTM.validateTapes at ht
  simp only [firstErr_eq_ok, Res.andThen_eq_ok, guardE_eq_ok, decide_eq_true_eq] at ht
  exact ht

/-- A valid MNTM: the blank is a tape symbol, and every move of every transition writes a tape
symbol. -/
theorem MNTM.validate_symbols (M : MNTM σ Γ) (h : M.validate = .ok ()) :
    M.blank ∈ M.tapeSyms ∧
    ∀ kv ∈ M.trans, ∀ e ∈ kv.2, ∀ t ∈ e.2, ∀ m ∈ t.2, m.1 ∈ M.tapeSyms := by
  unfold MNTM.validate at h
  simp only [Res.andThen_eq_ok] at h
  have h1 := h.1
  have h2 := h.2.1
  unfold validateSymbols at h1
  simp only [Res.andThen_eq_ok, guardE_eq_ok, decide_eq_true_eq] at h1
  refine ⟨h1.2, ?_⟩
  simp only [firstErr_eq_ok] at h2
  intro kv hkv e he t ht m hm
  have hrow := h2 kv hkv
  unfold MNTM.validateRow at hrow
  simp only [Res.andThen_eq_ok, firstErr_eq_ok] at hrow
  have hres := hrow.2.2 e.2 (List.mem_map.mpr ⟨e, he, rfl⟩) t ht m hm
  unfold validateResult at hres
  simp only [Res.andThen_eq_ok, guardE_eq_ok, decide_eq_true_eq] at hres
  exact hres.2.1

/-! ### association lists under `map` -/

theorem alookup_map_val {κ β β' : Type} [DecidableEq κ] (f : β → β') (k : κ) (l : List (κ × β)) :
    alookup k (l.map fun kv => (kv.1, f kv.2)) = (alookup k l).map f := by
  induction l with
  | nil => rfl
  | cons kv t ih =>
    simp only [List.map_cons, alookup]
    split
    · rfl
    · exact ih

theorem alookup_map_key {κ κ' β β' : Type} [DecidableEq κ] [DecidableEq κ'] (g : κ → κ')
    (hg : ∀ a b, g a = g b → a = b) (f : κ × β → β') (k : κ) (l : List (κ × β)) :
    alookup (g k) (l.map fun e => (g e.1, f e)) = (l.find? fun e => e.1 = k).map f := by
  induction l with
  | nil => rfl
  | cons e t ih =>
    simp only [List.map_cons, alookup, List.find?_cons]
    by_cases h : e.1 = k
    · simp [h]
    · have : ¬ g e.1 = g k := fun hh => h (hg _ _ hh)
      simp [h, this, ih]

theorem find?_eq_alookup {κ β : Type} [DecidableEq κ] (k : κ) (l : List (κ × β)) :
    (l.find? fun e => e.1 = k).map Prod.snd = alookup k l := by
  induction l with
  | nil => rfl
  | cons e t ih =>
    simp only [List.find?_cons, alookup]
    by_cases h : e.1 = k
    · simp [h]
    · simp [h, ih]

namespace DTM

def toM (c : Cfg σ Γ) : MCfg σ Γ := { state := c.state, tapes := [c.tape] }

theorem asMNTM_getTransition (M : DTM σ Γ) (c : Cfg σ Γ) :
    M.asMNTM.getTransition c.state [c.tape] =
      (M.getTransition c.state c.tape.read).map fun r => [(r.1, [(r.2.1, r.2.2)])] := by
  unfold MNTM.getTransition getTransition asMNTM MNTM.readHeads
  simp only [List.map_cons, List.map_nil]
  rw [alookup_map_val]
  cases alookup c.state M.trans with
  | none => rfl
  | some row =>
    simp only [Option.map_some]
    rw [alookup_map_key (fun s => [s]) (by intro a b h; simpa using h)
      (fun e => [(e.2.1, [(e.2.2.1, e.2.2.2)])]) c.tape.read row]
    rw [← find?_eq_alookup]
    cases row.find? fun e => e.1 = c.tape.read <;> rfl

theorem asMNTM_resume (M : DTM σ Γ) (hfin : ∀ q ∈ M.finals, alookup q M.trans = none)
    (c : Cfg σ Γ) :
    M.asMNTM.resume (toM c, []) =
      match M.resume c with
      | .ret => .ret
      | .raise e => .raise e
      | .yield c' _ => .yield (toM c') (toM c', []) := by
  have hch : M.asMNTM.children (toM c) =
      (M.getTransition c.state c.tape.read).map fun r => [toM (apply c r)] := by
    unfold MNTM.children
    show (match M.asMNTM.getTransition c.state [c.tape] with | none => _ | some [] => _ | some (t0 :: ts) => _) = _
    rw [asMNTM_getTransition]
    cases M.getTransition c.state c.tape.read with
    | none => rfl
    | some r => rfl
  by_cases hf : c.state ∈ M.finals
  · have hnone : M.getTransition c.state c.tape.read = none := by
      unfold getTransition; rw [hfin _ hf]
    rw [M.resume_final hf]
    simp only [MNTM.resume, hch, hnone, Option.map_none]
    have : (toM c).state ∈ M.asMNTM.finals := hf
    simp [this]
  · have hf' : ¬ (toM c).state ∈ M.asMNTM.finals := hf
    cases hg : M.getTransition c.state c.tape.read with
    | none =>
      have hn : M.next c = .error (.lib .rejectionException) := by unfold next; rw [hg]
      rw [M.resume_err hf hn]
      simp only [MNTM.resume, hch, hg, Option.map_none]
      simp [hf']
    | some r =>
      have hn : M.next c = .ok (apply c r) := by unfold next; rw [hg]
      rw [M.resume_ok hf hn]
      simp only [MNTM.resume, hch, hg, Option.map_some, List.nil_append]

/-- As a one-tape MNTM the table yields the same configurations and ends the same way, at
every budget of `next()` calls. -/
theorem asMNTM_genRun (M : DTM σ Γ) (hfin : ∀ q ∈ M.finals, alookup q M.trans = none) :
    ∀ (n : Nat) (c : Cfg σ Γ),
      genRun M.asMNTM.resume n (toM c, []) =
        ((genRun M.resume n c).1.map toM, (genRun M.resume n c).2) := by
  intro n
  induction n with
  | zero => intro c; rfl
  | succ n ih =>
    intro c
    simp only [genRun]
    rw [asMNTM_resume M hfin c]
    cases hr : M.resume c with
    | ret => rfl
    | raise e => rfl
    | yield c' s' =>
      have : s' = c' := by
        unfold resume at hr
        split at hr
        · cases hr
        · split at hr
          · cases hr
          · simp only [Resume.yield.injEq] at hr; rw [← hr.1, ← hr.2]
      subst this
      simp only [ih s', List.map_cons]

theorem asMNTM_readStepwise (M : DTM σ Γ) (hfin : ∀ q ∈ M.finals, alookup q M.trans = none)
    (w : List Γ) (n : Nat) :
    M.asMNTM.readStepwise w n = ((M.readStepwise w n).1.map toM, (M.readStepwise w n).2) := by
  unfold MNTM.readStepwise readStepwise
  have h0 : M.asMNTM.initCfg w = toM (M.initCfg w) := by
    simp [MNTM.initCfg, MNTM.initTapes, asMNTM, toM, initCfg]
  rw [h0]
  cases n with
  | zero => rfl
  | succ n => simp only [genStart, asMNTM_genRun M hfin n, List.map_cons]

/-! #### as NTM -/

theorem asNTM_getTransitions (M : DTM σ Γ) (q : σ) (s : Γ) :
    M.asNTM.getTransitions q s = (M.getTransition q s).toList := by
  unfold NTM.getTransitions getTransition asNTM
  simp only
  rw [alookup_map_val]
  cases alookup q M.trans with
  | none => rfl
  | some row =>
    simp only [Option.map_some]
    rw [alookup_map_val (fun x => [x])]
    cases alookup s row <;> rfl

theorem asNTM_nextLevel (M : DTM σ Γ) (c : Cfg σ Γ) :
    M.asNTM.nextLevel [c] = ((M.getTransition c.state c.tape.read).map (apply c)).toList := by
  unfold NTM.nextLevel NTM.nextCfgs
  simp only [List.foldl_cons, List.foldl_nil]
  rw [asNTM_getTransitions]
  cases M.getTransition c.state c.tape.read with
  | none => simp [dedup, sunion]
  | some r => simp [dedup, sunion, sinsert]

theorem asNTM_final_iff (M : DTM σ Γ) (c : Cfg σ Γ) :
    (∃ c' ∈ [c], c'.state ∈ M.asNTM.finals) ↔ c.state ∈ M.finals := by
  simp [asNTM]

/-- DTM decided within `n` calls ⇒ the NTM ends the same way within `n + 1` calls. -/
theorem asNTM_of_dtm (M : DTM σ Γ) :
    ∀ (n : Nat) (c : Cfg σ Γ) (e : GenEnd), e ≠ .running → (genRun M.resume n c).2 = e →
      (genRun M.asNTM.resume (n + 1) [c]).2 = e := by
  intro n
  induction n with
  | zero => intro c e he h; simp [genRun] at h; exact absurd h.symm he
  | succ n ih =>
    intro c e he h
    by_cases hf : c.state ∈ M.finals
    · simp only [genRun, M.resume_final hf] at h
      simp only [genRun, M.asNTM.resume_final ((M.asNTM_final_iff c).mpr hf)]
      exact h
    · have hf' := fun hh => hf ((M.asNTM_final_iff c).mp hh)
      have hstep := M.asNTM.resume_step (by simp : [c] ≠ []) hf'
      cases hg : M.getTransition c.state c.tape.read with
      | none =>
        have hn : M.next c = .error (.lib .rejectionException) := by unfold next; rw [hg]
        simp only [genRun, M.resume_err hf hn] at h
        rw [genRun, hstep, asNTM_nextLevel, hg]
        simp only [Option.map_none, Option.toList_none, genRun, NTM.resume_nil]
        exact h
      | some r =>
        have hn : M.next c = .ok (apply c r) := by unfold next; rw [hg]
        simp only [genRun, M.resume_ok hf hn] at h
        rw [genRun, hstep, asNTM_nextLevel, hg]
        simp only [Option.map_some, Option.toList_some]
        exact ih _ e he h

/-- NTM decided within `n` calls ⇒ the DTM ends the same way within `n` calls. -/
theorem dtm_of_asNTM (M : DTM σ Γ) :
    ∀ (n : Nat) (c : Cfg σ Γ) (e : GenEnd), e ≠ .running → (genRun M.asNTM.resume n [c]).2 = e →
      (genRun M.resume n c).2 = e := by
  intro n
  induction n with
  | zero => intro c e he h; simp [genRun] at h; exact absurd h.symm he
  | succ n ih =>
    intro c e he h
    by_cases hf : c.state ∈ M.finals
    · simp only [genRun, M.asNTM.resume_final ((M.asNTM_final_iff c).mpr hf)] at h
      simp only [genRun, M.resume_final hf]
      exact h
    · have hf' := fun hh => hf ((M.asNTM_final_iff c).mp hh)
      have hstep := M.asNTM.resume_step (by simp : [c] ≠ []) hf'
      rw [genRun, hstep, asNTM_nextLevel] at h
      cases hg : M.getTransition c.state c.tape.read with
      | none =>
        have hn : M.next c = .error (.lib .rejectionException) := by unfold next; rw [hg]
        simp only [genRun, M.resume_err hf hn]
        rw [hg] at h
        simp only [Option.map_none, Option.toList_none] at h
        cases n with
        | zero => simp [genRun] at h; exact absurd h.symm he
        | succ n => simpa [genRun, NTM.resume_nil] using h
      | some r =>
        have hn : M.next c = .ok (apply c r) := by unfold next; rw [hg]
        simp only [genRun, M.resume_ok hf hn]
        rw [hg] at h
        simp only [Option.map_some, Option.toList_some] at h
        exact ih _ e he h

end DTM
end AV.TM
