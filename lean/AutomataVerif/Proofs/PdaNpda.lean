/-
Proofs/PdaNpda.lean — the level-by-level loop of `NPDA.read_input_stepwise` against the
`k`-move reachability relation `StepN`.
-/
import AutomataVerif.Proofs.Pda

namespace AV.PDA

set_option linter.unusedSectionVars false

variable {σ α γ τ : Type} [DecidableEq σ] [DecidableEq α] [DecidableEq γ]

/-! ### `StepN` -/

theorem stepN_zero_iff {Δ : Moves σ α γ} {c c' : Config σ α γ} : StepN Δ 0 c c' ↔ c' = c := by
  constructor
  · intro h; cases h; rfl
  · rintro rfl; exact .zero _

theorem stepN_succ_iff {Δ : Moves σ α γ} {n : Nat} {c c'' : Config σ α γ} :
    StepN Δ (n + 1) c c'' ↔ ∃ c', StepN Δ n c c' ∧ Step Δ c' c'' := by
  constructor
  · intro h; cases h with | succ h s => exact ⟨_, h, s⟩
  · rintro ⟨c', h, s⟩; exact .succ h s

/-- A run of `k` moves has a prefix of every smaller length. -/
theorem stepN_prefix {Δ : Moves σ α γ} {k : Nat} {c₀ c : Config σ α γ} (h : StepN Δ k c₀ c) :
    ∀ j, j ≤ k → ∃ c', StepN Δ j c₀ c' := by
  induction h with
  | zero => intro j hj; exact ⟨_, by rw [Nat.le_zero.mp hj]; exact .zero _⟩
  | succ h s ih =>
    intro j hj
    rcases Nat.lt_or_ge j (_ + 1) with hlt | hge
    · exact ih j (Nat.lt_succ_iff.mp hlt)
    · obtain rfl : j = _ + 1 := Nat.le_antisymm hj hge
      exact ⟨_, StepN.succ h s⟩

/-! ### the `for` loop over one level -/

/-- The guard `elif self._has_lambda_transition(...)` is redundant: a configuration with no
input left and no λ-transition for its stack top has no successor. -/
theorem NPDA.nextConfigs_of_no_lambda (M : NPDA σ α γ) (c : Config σ α γ) (hi : c.input = [])
    (hl : M.hasLambdaTransition c.state (Stack.top c.stack) = false) (c' : Config σ α γ) :
    c' ∉ M.nextConfigs c := by
  rw [NPDA.mem_nextConfigs, step_iff]
  rintro ⟨β, X, hs, h⟩
  rcases h with ⟨a, w, _, _, hi', _⟩ | ⟨p, push, hm, _⟩
  · rw [hi] at hi'; cases hi'
  · rw [hs, Stack.top_concat] at hl
    obtain ⟨ts, hts, _⟩ := hm
    simp [Table.hasLambdaTransition, hts] at hl

theorem NPDA.expandLevel_eq_none (M : NPDA σ α γ) (cur acc : List (Config σ α γ)) :
    M.expandLevel cur acc = none ↔ ∃ c ∈ cur, M.hasAccepted c = true := by
  induction cur generalizing acc with
  | nil => simp [NPDA.expandLevel]
  | cons c rest ih =>
    unfold NPDA.expandLevel
    cases h : M.hasAccepted c with
    | true => simp [h]
    | false => simp only [ih]; simp [h]

theorem NPDA.expandLevel_eq_some (M : NPDA σ α γ) (cur acc nxt : List (Config σ α γ))
    (h : M.expandLevel cur acc = some nxt) (c' : Config σ α γ) :
    c' ∈ nxt ↔ c' ∈ acc ∨ ∃ c ∈ cur, c' ∈ M.nextConfigs c := by
  induction cur generalizing acc with
  | nil => simp [NPDA.expandLevel] at h; subst h; simp
  | cons c rest ih =>
    unfold NPDA.expandLevel at h
    cases ha : M.hasAccepted c with
    | true => simp [ha] at h
    | false =>
      simp only [ha] at h
      rw [ih _ h]
      have key : ∀ x, x ∈ M.addSuccessors acc c ↔ x ∈ acc ∨ x ∈ M.nextConfigs c := by
        intro x
        unfold NPDA.addSuccessors
        cases hi : c.input with
        | cons a w => simp
        | nil =>
          cases hl : M.hasLambdaTransition c.state (Stack.top c.stack) with
          | true => simp
          | false =>
            simp only
            have := M.nextConfigs_of_no_lambda c hi hl x
            simp [this]
      rw [key]
      simp only [List.mem_cons, exists_eq_or_imp]
      constructor
      · rintro ((h | h) | h)
        · exact .inl h
        · exact .inr (.inl h)
        · exact .inr (.inr h)
      · rintro (h | h | h)
        · exact .inl (.inl h)
        · exact .inl (.inr h)
        · exact .inr h

end AV.PDA

namespace AV.PDA
set_option linter.unusedSectionVars false
variable {σ α γ τ : Type} [DecidableEq σ] [DecidableEq α] [DecidableEq γ]

/-! ### the `while` loop -/

/-- What `run fuel cur` does when `cur` is the set of configurations reachable from `c₀` in
exactly `j` moves. -/
structure NPDA.RunSpec (M : NPDA σ α γ) (c₀ : Config σ α γ) (fuel j : Nat)
    (r : List (List (Config σ α γ)) × Outcome) : Prop where
  len : r.1.length ≤ fuel
  level : ∀ i L, r.1[i]? = some L → ∀ c, c ∈ L ↔ StepN M.moves (j + 1 + i) c₀ c
  before : ∀ i, i < r.1.length →
    (∃ c, StepN M.moves (j + i) c₀ c) ∧ ∀ c, StepN M.moves (j + i) c₀ c → M.hasAccepted c = false
  returned : r.2 = .returned ↔
    r.1.length < fuel ∧ ∃ c, StepN M.moves (j + r.1.length) c₀ c ∧ M.hasAccepted c = true
  rejected : r.2 = .raised (.lib .rejectionException) ↔
    r.1.length < fuel ∧ ¬ ∃ c, StepN M.moves (j + r.1.length) c₀ c
  fuelOut : r.2 = .outOfFuel ↔ r.1.length = fuel
  onlyRej : ∀ e, r.2 = .raised e → e = .lib .rejectionException

theorem NPDA.run_spec (M : NPDA σ α γ) (c₀ : Config σ α γ) :
    ∀ (fuel j : Nat) (cur : List (Config σ α γ)), (∀ c, c ∈ cur ↔ StepN M.moves j c₀ c) →
      NPDA.RunSpec M c₀ fuel j (M.run fuel cur) := by
  intro fuel
  induction fuel with
  | zero =>
    intro j cur _
    simp only [NPDA.run]
    exact ⟨Nat.le_refl _, by simp, by simp, by simp, by simp, by simp, by simp⟩
  | succ fuel ih =>
    intro j cur hcur
    cases cur with
    | nil =>
      have hempty : ¬ ∃ c, StepN M.moves j c₀ c := by
        rintro ⟨c, hc⟩; have := (hcur c).mpr hc; simp at this
      simp only [NPDA.run]
      refine ⟨by simp, by simp, by simp, ?_, ?_, by simp, by simp⟩
      · simp only [reduceCtorEq, List.length_nil, Nat.add_zero, false_iff, not_and]
        rintro _ ⟨c, hc, _⟩; exact hempty ⟨c, hc⟩
      · simpa using hempty
    | cons c₁ rest =>
      cases hx : M.expandLevel (c₁ :: rest) [] with
      | none =>
        obtain ⟨c, hc, hacc⟩ := (M.expandLevel_eq_none _ _).mp hx
        simp only [NPDA.run, hx]
        refine ⟨by simp, by simp, by simp, ?_, ?_, by simp, by simp⟩
        · simp only [List.length_nil, Nat.add_zero, true_iff]
          exact ⟨Nat.succ_pos _, c, (hcur c).mp hc, hacc⟩
        · simp only [reduceCtorEq, List.length_nil, Nat.add_zero, false_iff, not_and]
          intro _ hne; exact hne ⟨c, (hcur c).mp hc⟩
      | some nxt =>
        have hnone : ∀ c ∈ c₁ :: rest, M.hasAccepted c = false := by
          intro c hc
          cases h : M.hasAccepted c with
          | false => rfl
          | true =>
            have := (M.expandLevel_eq_none (c₁ :: rest) []).mpr ⟨c, hc, h⟩
            rw [hx] at this; cases this
        have hnxt : ∀ c, c ∈ nxt ↔ StepN M.moves (j + 1) c₀ c := by
          intro c
          rw [M.expandLevel_eq_some _ _ _ hx, stepN_succ_iff]
          simp only [List.not_mem_nil, false_or]
          constructor
          · rintro ⟨c', hc', h⟩; exact ⟨c', (hcur c').mp hc', (M.mem_nextConfigs _ _).mp h⟩
          · rintro ⟨c', hc', h⟩; exact ⟨c', (hcur c').mpr hc', (M.mem_nextConfigs _ _).mpr h⟩
        have IH := ih (j + 1) nxt hnxt
        simp only [NPDA.run, hx]
        have hlen : ((nxt :: (M.run fuel nxt).1).length) = (M.run fuel nxt).1.length + 1 := rfl
        have hj : ∀ n, j + (n + 1) = j + 1 + n := by omega
        refine ⟨?_, ?_, ?_, ?_, ?_, ?_, IH.onlyRej⟩
        · simp only [hlen]; exact Nat.succ_le_succ IH.len
        · intro i L hL c
          cases i with
          | zero => simp at hL; subst hL; simpa using hnxt c
          | succ i =>
            simp only [List.getElem?_cons_succ] at hL
            have := IH.level i L hL c
            rw [this]; rw [show j + 1 + (i + 1) = j + 1 + 1 + i by omega]
        · intro i hi
          cases i with
          | zero =>
            simp only [Nat.add_zero]
            exact ⟨⟨c₁, (hcur c₁).mp (by simp)⟩, fun c hc => hnone c ((hcur c).mpr hc)⟩
          | succ i =>
            rw [hj]
            exact IH.before i (by simp only [hlen] at hi; omega)
        · simp only [hlen]
          rw [hj, IH.returned]; simp only [Nat.succ_lt_succ_iff]
        · simp only [hlen]
          rw [hj, IH.rejected]; simp only [Nat.succ_lt_succ_iff]
        · simp only [hlen]
          rw [IH.fuelOut]; omega

end AV.PDA

namespace AV.PDA
set_option linter.unusedSectionVars false
variable {σ α γ τ : Type} [DecidableEq σ] [DecidableEq α] [DecidableEq γ]

/-- More fuel does not change a decided run. -/
theorem NPDA.run_mono (M : NPDA σ α γ) :
    ∀ (fuel : Nat) (cur : List (Config σ α γ)) (d : Nat), (M.run fuel cur).2 ≠ .outOfFuel →
      M.run (fuel + d) cur = M.run fuel cur := by
  intro fuel
  induction fuel with
  | zero => intro cur d h; simp [NPDA.run] at h
  | succ fuel ih =>
    intro cur d h
    rw [show fuel + 1 + d = (fuel + d) + 1 by omega]
    cases cur with
    | nil => simp [NPDA.run]
    | cons c rest =>
      cases hx : M.expandLevel (c :: rest) [] with
      | none => simp [NPDA.run, hx]
      | some nxt =>
        simp only [NPDA.run, hx] at h ⊢
        rw [ih nxt d h]

theorem NPDA.readStepwise_mono (M : NPDA σ α γ) (fuel fuel' : Nat) (w : List α)
    (h : (M.readStepwise fuel w).2 ≠ .outOfFuel) (hle : fuel ≤ fuel') :
    M.readStepwise fuel' w = M.readStepwise fuel w := by
  obtain ⟨d, rfl⟩ := Nat.le.dest hle
  unfold NPDA.readStepwise at h ⊢
  simp only at h ⊢
  rw [M.run_mono fuel _ d h]

end AV.PDA

namespace AV.PDA
set_option linter.unusedSectionVars false
variable {σ α γ τ : Type} [DecidableEq σ] [DecidableEq α] [DecidableEq γ]

/-- The driver's size-guarded run is the model's `run` at some fuel `≤` the requested one. -/
theorem NPDA.guardedRun_eq_run (M : NPDA σ α γ) (cap : Nat) :
    ∀ (fuel : Nat) (cur : List (Config σ α γ)), ∃ fuel', fuel' ≤ fuel ∧
      M.guardedRun cap fuel cur = M.run fuel' cur := by
  intro fuel
  induction fuel with
  | zero => intro cur; exact ⟨0, Nat.le_refl _, rfl⟩
  | succ fuel ih =>
    intro cur
    cases cur with
    | nil => exact ⟨1, by omega, by simp [NPDA.guardedRun, NPDA.run]⟩
    | cons c rest =>
      cases hx : M.expandLevel (c :: rest) [] with
      | none => exact ⟨1, by omega, by simp [NPDA.guardedRun, NPDA.run, hx]⟩
      | some nxt =>
        cases hc : decide (cap < nxt.length) with
        | true => exact ⟨1, by omega, by simp [NPDA.guardedRun, NPDA.run, hx, hc]⟩
        | false =>
          obtain ⟨f', hf', h⟩ := ih nxt
          exact ⟨f' + 1, by omega, by simp [NPDA.guardedRun, NPDA.run, hx, hc, h]⟩

theorem NPDA.guardedReadStepwise_eq (M : NPDA σ α γ) (cap fuel : Nat) (w : List α) :
    ∃ fuel', fuel' ≤ fuel ∧ M.guardedReadStepwise cap fuel w = M.readStepwise fuel' w := by
  obtain ⟨f', hf', h⟩ := M.guardedRun_eq_run cap fuel [M.start w]
  exact ⟨f', hf', by simp [NPDA.guardedReadStepwise, NPDA.readStepwise, h]⟩

end AV.PDA
