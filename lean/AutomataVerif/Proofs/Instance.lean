/-
Proofs/Instance.lean — copy / pickle round trip of the object model (core only).

The round trip is proved for any class name whose regenerated tables satisfy `TablesOk`
(public slots = `__init__` parameters as sets, every public slot is handed to
`Automaton.__init__`, every keyword handed on is a parameter — or GNFA's derived
`final_states`); `tablesOk_all` establishes `TablesOk` for the eight classes by evaluation
of the regenerated tables.
-/
import AutomataVerif.Proofs.Freeze
import AutomataVerif.Model.Instance

namespace AV.VA.Obj
open AV AV.VA

/-! ### generic list lemmas -/

theorem resMapM_ok_of_forall {β β' : Type} (f : β → Res β') (g : β → β') (l : List β)
    (h : ∀ x ∈ l, f x = .ok (g x)) : resMapM f l = .ok (l.map g) := by
  induction l with
  | nil => rfl
  | cons x t ih =>
    have hx := h x (by simp)
    have ht := ih (fun y hy => h y (by simp [hy]))
    simp [resMapM, hx, ht]

theorem resMapM_ok_inv {β β' : Type} [Inhabited β'] (f : β → Res β') (l : List β) (r : List β')
    (h : resMapM f l = .ok r) :
    r = l.map (fun x => match f x with | .ok v => v | .error _ => default) ∧
      ∀ x ∈ l, ∃ v, f x = .ok v := by
  induction l generalizing r with
  | nil => simp [resMapM] at h; subst h; simp
  | cons x t ih =>
    simp only [resMapM] at h
    cases hx : f x with
    | error e => simp [hx] at h
    | ok y =>
      simp only [hx] at h
      cases ht : resMapM f t with
      | error e => simp [ht] at h
      | ok ys =>
        simp only [ht, Except.ok.injEq] at h
        subst h
        obtain ⟨h1, h2⟩ := ih ys ht
        refine ⟨by simp [hx, ← h1], ?_⟩
        intro z hz
        rcases List.mem_cons.mp hz with rfl | hz
        · exact ⟨y, hx⟩
        · exact h2 z hz

theorem alookup_map_self (l : List String) (g : String → PyVal) (s : String) (hs : s ∈ l) :
    alookup s (l.map fun k => (k, g k)) = some (g s) := by
  induction l with
  | nil => simp at hs
  | cons k t ih =>
    simp only [List.map_cons, alookup]
    by_cases hk : k = s
    · simp [hk]
    · rw [if_neg hk]
      rcases List.mem_cons.mp hs with h | h
      · exact absurd h.symm hk
      · exact ih h

theorem alookup_append_left {β : Type} (s : String) (l r : List (String × β)) (v : β)
    (h : alookup s l = some v) : alookup s (l ++ r) = some v := by
  induction l with
  | nil => simp [alookup] at h
  | cons kv t ih =>
    obtain ⟨k, w⟩ := kv
    simp only [List.cons_append, alookup] at h ⊢
    by_cases hk : k = s
    · simpa [hk] using h
    · rw [if_neg hk] at h ⊢; exact ih h

theorem alookup_some_key_mem' {β : Type} {s : String} {l : List (String × β)} {v : β}
    (h : alookup s l = some v) : s ∈ akeys l := by
  induction l with
  | nil => simp [alookup] at h
  | cons kv t ih =>
    obtain ⟨k, w⟩ := kv
    simp only [alookup] at h
    by_cases hk : k = s
    · simp [akeys, hk]
    · rw [if_neg hk] at h
      have := ih h
      simp [akeys] at this ⊢
      exact Or.inr this

theorem akeys_map_self (l : List String) (g : String → PyVal) :
    akeys (l.map fun k => (k, g k)) = l := by
  induction l with
  | nil => rfl
  | cons k t ih => simp [akeys] at ih ⊢; exact ih

/-! ### the tables -/

/-- What the round trip needs from the regenerated tables of one class. -/
structure TablesOk (cls : String) : Prop where
  pub_sub_params : ∀ s ∈ publicSlots cls, s ∈ initParamsOf cls
  params_sub_pub : ∀ p ∈ initParamsOf cls, p ∈ publicSlots cls
  pub_sub_super : ∀ s ∈ publicSlots cls, s ∈ superKwOf cls
  super_ok : ∀ k ∈ superKwOf cls,
    k ∈ initParamsOf cls ∨ (k = "final_states" ∧ "final_state" ∈ initParamsOf cls)

instance (cls : String) : Decidable (TablesOk cls) :=
  if h : (∀ s ∈ publicSlots cls, s ∈ initParamsOf cls) ∧ (∀ p ∈ initParamsOf cls, p ∈ publicSlots cls) ∧
      (∀ s ∈ publicSlots cls, s ∈ superKwOf cls) ∧
      (∀ k ∈ superKwOf cls, k ∈ initParamsOf cls ∨ (k = "final_states" ∧ "final_state" ∈ initParamsOf cls))
  then isTrue ⟨h.1, h.2.1, h.2.2.1, h.2.2.2⟩
  else isFalse fun t => h ⟨t.pub_sub_params, t.params_sub_pub, t.pub_sub_super, t.super_ok⟩

/-- The regenerated `__slots__` / `__init__` tables of all eight classes are consistent:
the public slots are exactly the constructor parameters and all of them reach
`Automaton.__init__`.  (Renaming a slot to start with `_`, dropping one, or adding an
`__init__` parameter without a slot makes this fail at `lake build`.) -/
theorem tablesOk_all : ∀ cls ∈ classes, TablesOk cls := by decide

/-! ### construction -/

/-- The stored form of a value under the option. -/
def fz (allowMutable : Bool) (v : PyVal) : PyVal := if allowMutable then v else v.freeze

theorem storeKwargs_map (am : Bool) (l : List String) (g : String → PyVal) :
    storeKwargs am (l.map fun k => (k, g k)) = l.map fun k => (k, fz am (g k)) := by
  simp [storeKwargs, fz, List.map_map, Function.comp_def]

/-- The value bound to parameter `p` by `cls(**kwargs)`. -/
def boundVal (cls : String) (kwargs : List (String × PyVal)) (p : String) : PyVal :=
  (bindVal cls kwargs p).getD default

theorem bindArgs_ok_inv (cls : String) (params : List String) (kwargs bound : List (String × PyVal))
    (h : bindArgs cls params kwargs = .ok bound) :
    bound = params.map (fun p => (p, boundVal cls kwargs p)) ∧
      (∀ k ∈ akeys kwargs, k ∈ params) ∧ ∀ p ∈ params, (bindVal cls kwargs p).isSome = true := by
  unfold bindArgs at h
  split at h
  · rename_i hk
    obtain ⟨h1, h2⟩ := resMapM_ok_inv _ _ _ h
    have hv : ∀ p ∈ params, (bindVal cls kwargs p).isSome = true := by
      intro p hp
      obtain ⟨v, hv⟩ := h2 p hp
      unfold bindOne at hv
      cases hb : bindVal cls kwargs p with
      | none => simp [hb] at hv
      | some w => rfl
    refine ⟨?_, by simpa using hk, hv⟩
    rw [h1]
    apply List.map_congr_left
    intro p hp
    unfold bindOne boundVal
    cases hb : bindVal cls kwargs p with
    | none => have := hv p hp; simp [hb] at this
    | some w => simp
  · cases h

theorem bindArgs_ok_of (cls : String) (params : List String) (kwargs : List (String × PyVal))
    (hk : ∀ k ∈ akeys kwargs, k ∈ params) (hv : ∀ p ∈ params, (bindVal cls kwargs p).isSome = true) :
    bindArgs cls params kwargs = .ok (params.map fun p => (p, boundVal cls kwargs p)) := by
  unfold bindArgs
  have : ((akeys kwargs).all fun k => decide (k ∈ params)) = true := by simpa using hk
  rw [if_pos this]
  apply resMapM_ok_of_forall
  intro p hp
  unfold bindOne boundVal
  cases hb : bindVal cls kwargs p with
  | none => have := hv p hp; simp [hb] at this
  | some w => simp

/-- The value handed to `Automaton.__init__` under keyword `k`. -/
def superVal (params : List String) (bv : String → PyVal) (k : String) : PyVal :=
  if k ∈ params then bv k else .set [bv "final_state"]

theorem superArg_ok (params : List String) (bv : String → PyVal) (k : String)
    (hk : k ∈ params ∨ (k = "final_states" ∧ "final_state" ∈ params)) :
    superArg (params.map fun p => (p, bv p)) k = .ok (k, superVal params bv k) := by
  unfold superArg superVal
  by_cases hp : k ∈ params
  · rw [alookup_map_self params bv k hp]; simp [hp]
  · rcases hk with hk | ⟨rfl, hf⟩
    · exact absurd hk hp
    · have hnone : alookup "final_states" (params.map fun p => (p, bv p)) = none := by
        cases hl : alookup "final_states" (params.map fun p => (p, bv p)) with
        | none => rfl
        | some v =>
          have := alookup_some_key_mem' hl
          rw [akeys_map_self] at this
          exact absurd this hp
      rw [hnone, alookup_map_self params bv "final_state" hf]
      simp [hp]

/-- `cls(**kwargs)` succeeded: what the new object looks like. -/
theorem classInit_ok_inv (am : Bool) (cls : String) (ht : TablesOk cls)
    (kwargs : List (String × PyVal)) (a : Inst) (h : classInit am cls kwargs = .ok a) :
    a.cls = cls ∧
    a.attrs = ((superKwOf cls).map fun k => (k, fz am (superVal (initParamsOf cls) (boundVal cls kwargs) k)))
      ++ extraAttrs cls := by
  unfold classInit at h
  cases hb : bindArgs cls (initParamsOf cls) kwargs with
  | error e => simp [hb] at h
  | ok bound =>
    obtain ⟨hbound, _, _⟩ := bindArgs_ok_inv _ _ _ _ hb
    simp only [hb] at h
    have hs : resMapM (superArg bound) (superKwOf cls) =
        .ok ((superKwOf cls).map fun k => (k, superVal (initParamsOf cls) (boundVal cls kwargs) k)) := by
      rw [hbound]
      apply resMapM_ok_of_forall
      intro k hk
      exact superArg_ok _ _ k (ht.super_ok k hk)
    simp only [hs, Except.ok.injEq] at h
    subst h
    exact ⟨rfl, by rw [storeKwargs_map]⟩

theorem classInit_ok_of (am : Bool) (cls : String) (ht : TablesOk cls)
    (kwargs : List (String × PyVal))
    (hk : ∀ k ∈ akeys kwargs, k ∈ initParamsOf cls)
    (hv : ∀ p ∈ initParamsOf cls, (bindVal cls kwargs p).isSome = true) :
    ∃ a, classInit am cls kwargs = .ok a := by
  unfold classInit
  rw [bindArgs_ok_of _ _ _ hk hv]
  have hs : resMapM (superArg ((initParamsOf cls).map fun p => (p, boundVal cls kwargs p))) (superKwOf cls) =
      .ok ((superKwOf cls).map fun k => (k, superVal (initParamsOf cls) (boundVal cls kwargs) k)) := by
    apply resMapM_ok_of_forall
    intro k hk'
    exact superArg_ok _ _ k (ht.super_ok k hk')
  simp only [hs]
  exact ⟨_, rfl⟩

/-- `input_parameters` of a freshly constructed object: the public slots, each holding the
stored form of the bound argument. -/
theorem inputParameters_of_attrs (cls : String) (ht : TablesOk cls) (am : Bool) (bv : String → PyVal)
    (a : Inst) (hc : a.cls = cls)
    (ha : a.attrs = ((superKwOf cls).map fun k => (k, fz am (superVal (initParamsOf cls) bv k)))
      ++ extraAttrs cls) :
    inputParameters a = .ok ((publicSlots cls).map fun s => (s, fz am (bv s))) := by
  unfold inputParameters
  rw [hc]
  apply resMapM_ok_of_forall
  intro s hs
  unfold paramOf getattr
  have h1 := alookup_map_self (superKwOf cls) (fun k => fz am (superVal (initParamsOf cls) bv k)) s
    (ht.pub_sub_super s hs)
  rw [ha, alookup_append_left _ _ _ _ h1]
  simp [superVal, ht.pub_sub_params s hs]

/-- Main lemma: construct, then copy (possibly under the other setting of the option). -/
theorem copy_after_init (am0 am1 : Bool) (cls : String) (ht : TablesOk cls)
    (kwargs : List (String × PyVal)) (a : Inst) (h : classInit am0 cls kwargs = .ok a) :
    inputParameters a = .ok ((publicSlots cls).map fun s => (s, fz am0 (boundVal cls kwargs s))) ∧
    ∃ b, copy am1 a = .ok b ∧ b.cls = a.cls ∧
      inputParameters b =
        .ok ((publicSlots cls).map fun s => (s, fz am1 (fz am0 (boundVal cls kwargs s)))) := by
  obtain ⟨hc, ha⟩ := classInit_ok_inv am0 cls ht kwargs a h
  have hpa := inputParameters_of_attrs cls ht am0 (boundVal cls kwargs) a hc ha
  refine ⟨hpa, ?_⟩
  -- the keyword dict of the copy
  let kw' := (publicSlots cls).map fun s => (s, fz am0 (boundVal cls kwargs s))
  have hkeys : ∀ k ∈ akeys kw', k ∈ initParamsOf cls := by
    intro k hk
    have : akeys kw' = publicSlots cls := akeys_map_self _ _
    rw [this] at hk
    exact ht.pub_sub_params k hk
  have hlook : ∀ p ∈ initParamsOf cls, alookup p kw' = some (fz am0 (boundVal cls kwargs p)) := by
    intro p hp
    exact alookup_map_self (publicSlots cls) (fun s => fz am0 (boundVal cls kwargs s)) p
      (ht.params_sub_pub p hp)
  have hvals : ∀ p ∈ initParamsOf cls, (bindVal cls kw' p).isSome = true := by
    intro p hp; unfold bindVal; rw [hlook p hp]; rfl
  obtain ⟨b, hb⟩ := classInit_ok_of am1 cls ht kw' hkeys hvals
  refine ⟨b, ?_, ?_, ?_⟩
  · unfold copy; rw [hpa, hc]; exact hb
  · obtain ⟨hcb, _⟩ := classInit_ok_inv am1 cls ht kw' b hb
    rw [hcb, hc]
  · obtain ⟨hcb, hab⟩ := classInit_ok_inv am1 cls ht kw' b hb
    rw [inputParameters_of_attrs cls ht am1 (boundVal cls kw') b hcb hab]
    congr 1
    apply List.map_congr_left
    intro s hs
    have hp := ht.pub_sub_params s hs
    have : boundVal cls kw' s = fz am0 (boundVal cls kwargs s) := by
      unfold boundVal bindVal; rw [hlook s hp]; rfl
    rw [this]

theorem fz_fz_same (am : Bool) (v : PyVal) : fz am (fz am v) = fz am v := by
  cases am
  · simp [fz, PyVal.freeze_idem]
  · simp [fz]

theorem norm_fz (am : Bool) (v : PyVal) : (fz am v).norm = v.norm := by
  cases am
  · simp [fz, PyVal.norm_freeze]
  · simp [fz]

/-! ### construction and copy with validation (`classInitV`, `copyV`) -/

theorem storeKwargs_true (kw : List (String × PyVal)) : storeKwargs true kw = kw := by
  induction kw with
  | nil => rfl
  | cons kv t ih =>
    simp only [storeKwargs, List.map_cons, if_true] at ih ⊢
    rw [ih]

theorem absKw_storeKwargs (am : Bool) (kw : List (String × PyVal)) :
    absKw (storeKwargs am kw) = absKw kw := by
  simp only [absKw, storeKwargs, List.map_map]
  apply List.map_congr_left
  intro kv _
  cases am <;> simp [PyVal.norm_freeze]

/-- `construct` on a keyword list: the validator sees the abstract value of the arguments,
whatever the options; what is stored is `storeKwargs allowMutable`. -/
theorem construct_kw (w : List (String × PyVal) → Res Unit) (av sv am : Bool)
    (kw : List (String × PyVal)) :
    construct absKw (storeKwargs false) w av sv am kw =
      if sv || av then
        (match w (absKw kw) with
         | .ok _ => .ok (storeKwargs am kw)
         | .error e => .error e)
      else .ok (storeKwargs am kw) := by
  have hst : (if am then kw else storeKwargs false kw) = storeKwargs am kw := by
    cases am
    · simp
    · simp [storeKwargs_true]
  unfold construct
  simp only [hst, absKw_storeKwargs]
  split <;> rfl

theorem boundVal_of_alookup (cls : String) (kw : List (String × PyVal)) (p : String) (w : PyVal)
    (h : alookup p kw = some w) : boundVal cls kw p = w := by
  unfold boundVal bindVal; rw [h]; rfl

theorem filterMap_eq_map_of {β β' : Type} (f : β → Option β') (g : β → β') (l : List β)
    (h : ∀ x ∈ l, f x = some (g x)) : l.filterMap f = l.map g := by
  induction l with
  | nil => rfl
  | cons x t ih =>
    have hx := h x (by simp)
    have ht := ih (fun y hy => h y (by simp [hy]))
    simp [hx, ht]

/-- The definition as a function of the values bound to the parameters. -/
def defOf (cls : String) (bv : String → PyVal) : List (String × PyVal) :=
  (superKwOf cls).map fun k => (k, (superVal (initParamsOf cls) bv k).norm)

theorem definitionOf_of_attrs (cls : String) (am : Bool) (bv : String → PyVal) (a : Inst)
    (hc : a.cls = cls)
    (ha : a.attrs = ((superKwOf cls).map fun k => (k, fz am (superVal (initParamsOf cls) bv k)))
      ++ extraAttrs cls) :
    definitionOf a = defOf cls bv := by
  unfold definitionOf defOf
  rw [hc]
  apply filterMap_eq_map_of
  intro k hk
  have h1 := alookup_map_self (superKwOf cls) (fun k => fz am (superVal (initParamsOf cls) bv k)) k hk
  rw [ha, alookup_append_left _ _ _ _ h1]
  simp [norm_fz]

theorem defOf_congr (cls : String) (ht : TablesOk cls) (bv bv' : String → PyVal)
    (h : ∀ p ∈ initParamsOf cls, (bv' p).norm = (bv p).norm) : defOf cls bv' = defOf cls bv := by
  unfold defOf
  apply List.map_congr_left
  intro k hk
  unfold superVal
  by_cases hp : k ∈ initParamsOf cls
  · simp [hp, h k hp]
  · rcases ht.super_ok k hk with hk' | ⟨_, hf⟩
    · exact absurd hk' hp
    · simp [hp, PyVal.norm, PyVal.normList, h "final_state" hf]

theorem superArgs_ok (cls : String) (ht : TablesOk cls) (kwargs bound : List (String × PyVal))
    (hb : bindArgs cls (initParamsOf cls) kwargs = .ok bound) :
    resMapM (superArg bound) (superKwOf cls) =
      .ok ((superKwOf cls).map fun k => (k, superVal (initParamsOf cls) (boundVal cls kwargs) k)) := by
  obtain ⟨hbound, _, _⟩ := bindArgs_ok_inv _ _ _ _ hb
  rw [hbound]
  apply resMapM_ok_of_forall
  intro k hk
  exact superArg_ok _ _ k (ht.super_ok k hk)

/-- `classInitV` is `classInit` followed (when validation is due) by the validator applied to
the definition of the new object. -/
theorem classInitV_eq (v : String → List (String × PyVal) → Res Unit) (sv am : Bool) (cls : String)
    (ht : TablesOk cls) (kwargs : List (String × PyVal)) :
    classInitV v sv am cls kwargs =
      match classInit am cls kwargs with
      | .error e => .error e
      | .ok a =>
        if sv || alwaysValidates cls then
          (match v cls (definitionOf a) with
           | .ok _ => .ok a
           | .error e => .error e)
        else .ok a := by
  unfold classInitV classInit
  cases hb : bindArgs cls (initParamsOf cls) kwargs with
  | error e => rfl
  | ok bound =>
    simp only [superArgs_ok cls ht kwargs bound hb, construct_kw]
    have hd : ∀ st, st = storeKwargs am ((superKwOf cls).map fun k =>
          (k, superVal (initParamsOf cls) (boundVal cls kwargs) k)) →
        definitionOf { cls := cls, attrs := st ++ extraAttrs cls } =
          absKw ((superKwOf cls).map fun k => (k, superVal (initParamsOf cls) (boundVal cls kwargs) k)) := by
      intro st hst
      rw [definitionOf_of_attrs cls am (boundVal cls kwargs) _ rfl (by rw [hst, storeKwargs_map])]
      simp [defOf, absKw, List.map_map, Function.comp_def]
    rw [hd _ rfl]
    by_cases hcond : (sv || alwaysValidates cls) = true
    · simp only [hcond, if_true]
      cases v cls (absKw ((superKwOf cls).map fun k =>
        (k, superVal (initParamsOf cls) (boundVal cls kwargs) k))) <;> rfl
    · simp only [hcond]
      rfl

theorem classInitV_ok_inv (v : String → List (String × PyVal) → Res Unit) (sv am : Bool) (cls : String)
    (ht : TablesOk cls) (kwargs : List (String × PyVal)) (a : Inst)
    (h : classInitV v sv am cls kwargs = .ok a) :
    classInit am cls kwargs = .ok a ∧
      ((sv || alwaysValidates cls) = true → v cls (definitionOf a) = .ok ()) := by
  rw [classInitV_eq v sv am cls ht] at h
  cases hci : classInit am cls kwargs with
  | error e => simp [hci] at h
  | ok a' =>
    simp only [hci] at h
    by_cases hcond : (sv || alwaysValidates cls) = true
    · simp only [hcond, if_true] at h
      cases hv : v cls (definitionOf a') with
      | error e => simp [hv] at h
      | ok u =>
        simp only [hv, Except.ok.injEq] at h
        subst h
        exact ⟨rfl, fun _ => by cases u; exact hv⟩
    · simp only [hcond] at h
      simp only [Bool.false_eq_true, if_false, Except.ok.injEq] at h
      subst h
      exact ⟨rfl, fun hc => absurd hc hcond⟩

/-- Construct (possibly without validation), then copy with validation due: if the definition
of the original satisfies the validator, the copy is constructed, has the same class and the
same definition (abstract value), and therefore satisfies the validator too. -/
theorem copyV_after_init (v : String → List (String × PyVal) → Res Unit) (am0 sv1 am1 : Bool)
    (cls : String) (ht : TablesOk cls) (kwargs : List (String × PyVal)) (a : Inst)
    (h : classInit am0 cls kwargs = .ok a) (hvalid : v cls (definitionOf a) = .ok ()) :
    ∃ b, copyV v sv1 am1 a = .ok b ∧ copy am1 a = .ok b ∧ definitionOf b = definitionOf a := by
  obtain ⟨hc, ha⟩ := classInit_ok_inv am0 cls ht kwargs a h
  obtain ⟨hpa, b, hb, _, _⟩ := copy_after_init am0 am1 cls ht kwargs a h
  have hda := definitionOf_of_attrs cls am0 (boundVal cls kwargs) a hc ha
  -- the copy
  have hb' : classInit am1 cls ((publicSlots cls).map fun s => (s, fz am0 (boundVal cls kwargs s))) = .ok b := by
    unfold copy at hb; rw [hpa, hc] at hb; exact hb
  obtain ⟨hcb, hab⟩ := classInit_ok_inv am1 cls ht _ b hb'
  have hdb := definitionOf_of_attrs cls am1 _ b hcb hab
  have hdef : definitionOf b = definitionOf a := by
    rw [hdb, hda]
    apply defOf_congr cls ht
    intro p hp
    have hl := alookup_map_self (publicSlots cls) (fun s => fz am0 (boundVal cls kwargs s)) p
      (ht.params_sub_pub p hp)
    rw [boundVal_of_alookup cls _ p _ hl, norm_fz]
  refine ⟨b, ?_, hb, hdef⟩
  unfold copyV
  rw [hpa]
  simp only [hc]
  rw [classInitV_eq v sv1 am1 cls ht, hb']
  simp only [hdef, hvalid]
  split <;> rfl

end AV.VA.Obj
