/-
Proofs/NFAEditRefuse.lean — `NFA.edit_distance` with a reference string that is NOT over the
alphabet: the constructor call at the end refuses the automaton with `InvalidSymbolError`
(the matching transition on the foreign symbol is the first thing `validate` stumbles over:
every target of the grid table is a grid state, so no `InvalidStateError` can come first).
Core only.
-/
import AutomataVerif.Proofs.NFAEditSpec

open AV.AL

namespace AV
namespace NFA
namespace EditRefuse

set_option linter.unusedSectionVars false

variable {σ α : Type} [DecidableEq σ] [DecidableEq α]

theorem foldl_andThen_error {β : Type} (f : β → Res Unit) (e : Exn) (l : List β) :
    l.foldl (fun acc x => Res.andThen acc (f x)) (.error e) = .error e := by
  induction l with
  | nil => rfl
  | cons x l ih => rw [List.foldl_cons]; exact ih

/-- A loop of checks each of which passes or raises `e`, one of which raises: raises `e`. -/
theorem firstErr_eq_error {β : Type} (f : β → Res Unit) (e : Exn) (l : List β)
    (hall : ∀ x ∈ l, f x = .ok () ∨ f x = .error e) (hex : ∃ x ∈ l, f x = .error e) :
    firstErr l f = .error e := by
  unfold firstErr
  induction l with
  | nil => obtain ⟨x, hx, _⟩ := hex; cases hx
  | cons x l ih =>
    rw [List.foldl_cons]
    rcases hall x (by simp) with h | h
    · rw [h]
      refine ih (fun y hy => hall y (List.mem_cons_of_mem _ hy)) ?_
      obtain ⟨y, hy, hfy⟩ := hex
      rcases List.mem_cons.mp hy with rfl | hy
      · rw [h] at hfy; cases hfy
      · exact ⟨y, hy, hfy⟩
    · rw [h]; exact foldl_andThen_error f e l

theorem firstErr_ok_or_error {β : Type} (f : β → Res Unit) (e : Exn) (l : List β)
    (hall : ∀ x ∈ l, f x = .ok () ∨ f x = .error e) :
    firstErr l f = .ok () ∨ firstErr l f = .error e := by
  by_cases hex : ∃ x ∈ l, f x = .error e
  · exact Or.inr (firstErr_eq_error f e l hall hex)
  · refine Or.inl ((firstErr_eq_ok l f).mpr fun x hx => ?_)
    rcases hall x hx with h | h
    · exact h
    · exact absurd ⟨x, hx, h⟩ hex

def symCheck (n : NFA σ α) (a : Option α) : Res Unit :=
  match a with
  | none => .ok ()
  | some a => guardE (decide (a ∈ n.syms)) (.lib .invalidSymbolError)

theorem symCheck_cases (n : NFA σ α) (a : Option α) :
    symCheck n a = .ok () ∨ symCheck n a = .error (.lib .invalidSymbolError) := by
  cases a with
  | none => exact Or.inl rfl
  | some a =>
    by_cases h : a ∈ n.syms
    · left; simp [symCheck, guardE, h]
    · right; simp [symCheck, guardE, h]

theorem validateRow_eq (n : NFA σ α) (paths : List (Option α × List σ))
    (htgt : ∀ e ∈ paths, ∀ p ∈ e.2, p ∈ n.states) :
    n.validateRow paths = firstErr (akeys paths) (symCheck n) := by
  have h2 : (firstErr (avals paths) fun ts =>
      firstErr ts fun q => guardE (decide (q ∈ n.states)) (.lib .invalidStateError)) = .ok () := by
    rw [firstErr_eq_ok]
    intro ts hts
    rw [firstErr_eq_ok]
    intro q hq
    obtain ⟨e, he, rfl⟩ := List.mem_map.mp hts
    simp [guardE, htgt e he q hq]
  unfold validateRow
  rw [h2]
  show Res.andThen (firstErr (akeys paths) (symCheck n)) (.ok ()) = _
  cases firstErr (akeys paths) (symCheck n) <;> rfl

/-- If every target of the table is a state and some row has a key outside the alphabet,
`validate` raises `InvalidSymbolError`. -/
theorem validate_invalidSymbol (n : NFA σ α)
    (htgt : ∀ kv ∈ n.trans, ∀ e ∈ kv.2, ∀ p ∈ e.2, p ∈ n.states)
    (hbad : ∃ kv ∈ n.trans, ∃ a, some a ∈ akeys kv.2 ∧ a ∉ n.syms) :
    n.validate = .error (.lib .invalidSymbolError) := by
  have hrow : ∀ kv ∈ n.trans, n.validateRow kv.2 = .ok () ∨
      n.validateRow kv.2 = .error (.lib .invalidSymbolError) := by
    intro kv hkv
    rw [validateRow_eq n kv.2 (htgt kv hkv)]
    exact firstErr_ok_or_error _ _ _ (fun a _ => symCheck_cases n a)
  have hfirst : (firstErr n.trans fun kv => n.validateRow kv.2) = .error (.lib .invalidSymbolError) := by
    refine firstErr_eq_error _ _ _ hrow ?_
    obtain ⟨kv, hkv, a, ha, hna⟩ := hbad
    refine ⟨kv, hkv, ?_⟩
    rw [validateRow_eq n kv.2 (htgt kv hkv)]
    refine firstErr_eq_error _ _ _ (fun a _ => symCheck_cases n a) ⟨some a, ha, ?_⟩
    simp [symCheck, guardE, hna]
  unfold validate
  rw [hfirst]
  rfl

/-- Every target of the grid table is a grid state — whatever the reference string. -/
theorem editRaw_targets_states (syms ref : List α) (K : Nat) (ins del sub : Bool) :
    Tbl.Ok (fun _ => True) (· ∈ (editRaw syms ref K ins del sub).states)
      (editRaw syms ref K ins del sub).trans := by
  simp only [editRaw]
  refine EditT.ok_foldl_editLast syms ref.length K ins (fun _ _ => trivial) _ _
    (EditT.ok_foldl_editCell syms K ins del sub (fun _ _ => trivial) trivial _ _ Tbl.ok_nil ?_) ?_
  · intro c hc
    obtain ⟨h1, h2⟩ := (mem_cells ref K c).mp hc
    obtain ⟨hi, _⟩ := List.getElem?_eq_some_iff.mp h1
    refine ⟨trivial, ?_, ?_, ?_⟩
    · exact (EditT.mem_lprod _ _ _ _).mpr ⟨List.mem_range.mpr (by omega), List.mem_range.mpr (by omega)⟩
    · intro h; exact (EditT.mem_lprod _ _ _ _).mpr ⟨List.mem_range.mpr (by omega), List.mem_range.mpr (by omega)⟩
    · intro h; exact (EditT.mem_lprod _ _ _ _).mpr ⟨List.mem_range.mpr (by omega), List.mem_range.mpr (by omega)⟩
  · intro e he h
    exact (EditT.mem_lprod _ _ _ _).mpr ⟨List.mem_range.mpr (by omega), List.mem_range.mpr (by have := List.mem_range.mp he; omega)⟩

/-- A non-empty target list comes from an entry of a row of the table. -/
theorem row_of_target {n : NFA σ α} {q p : σ} {a : Option α} (h : p ∈ n.targets q a) :
    ∃ kv ∈ n.trans, a ∈ akeys kv.2 := by
  unfold targets at h
  cases hl : alookup a (n.row q) with
  | none => rw [hl] at h; simp at h
  | some ts =>
    have hk : a ∈ akeys (n.row q) := alookup_isSome_iff.mp (by rw [hl]; rfl)
    unfold row row? at hk
    cases hr : alookup q n.trans with
    | none => rw [hr] at hk; simp [akeys] at hk
    | some r =>
      rw [hr] at hk
      exact ⟨(q, r), alookup_some_mem hr, hk⟩

/-- **Reference string outside the alphabet.**  With admissible `k` and flags, if some symbol
of the reference string is not an input symbol, `edit_distance` raises `InvalidSymbolError`. -/
theorem editDistance_ref_outside (syms ref : List α) (k : Int) (ins del sub : Bool) (hk : 0 ≤ k)
    (hflag : (ins || del || sub) = true) (hbad : ∃ c ∈ ref, c ∉ syms) :
    editDistance syms ref k ins del sub = .error (.lib .invalidSymbolError) := by
  rw [editDistance_eq syms ref k ins del sub hk hflag]
  have hv : (editRaw syms ref k.toNat ins del sub).validate = .error (.lib .invalidSymbolError) := by
    refine validate_invalidSymbol _ ?_ ?_
    · intro kv hkv e he p hp
      exact ((editRaw_targets_states syms ref k.toNat ins del sub) kv hkv e he).2 p hp
    · obtain ⟨c, hc, hnc⟩ := hbad
      obtain ⟨i, hi, rfl⟩ := List.getElem_of_mem hc
      have ht : (i + 1, 0) ∈ (editRaw syms ref k.toNat ins del sub).targets (i, 0) (some ref[i]) := by
        rw [editRaw_tgt]
        exact Or.inl ⟨((ref[i], i), 0), ⟨by simp [hi], by omega⟩, rfl, Or.inl ⟨rfl, rfl⟩⟩
      obtain ⟨kv, hkv, hkey⟩ := row_of_target ht
      exact ⟨kv, hkv, ref[i], hkey, hnc⟩
  unfold create
  rw [hv]

end EditRefuse
end NFA
end AV
