/-
Proofs/Cache.lean — the cached instance (Model/DFACache.lean) refines the stateless
reference: invariant, preservation by every call, agreement of the answers (core only).
-/
import AutomataVerif.Model.DFACache

namespace AV
namespace DFA

set_option linter.unusedSectionVars false

variable {σ α : Type} [DecidableEq σ] [DecidableEq α]

/-! ### the growing caches -/

/-- A cache list is *coherent* when level `i` holds the table of level `i`. -/
def CoherentCount (d : DFA σ α) (cache : List (List (σ × Nat))) : Prop :=
  cache = (List.range cache.length).map d.countLevel

def CoherentWord (d : DFA σ α) (key : α → Int) (cache : List (List (σ × List (List α)))) : Prop :=
  cache = (List.range cache.length).map (d.wordLevel key)

theorem getLast?_range_map {β : Type} (f : Nat → β) (n : Nat) :
    ((List.range (n + 1)).map f).getLast? = some (f n) := by
  rw [List.range_succ, List.map_append]
  simp

theorem nextCountLevel_range (d : DFA σ α) (n : Nat) :
    d.nextCountLevel ((List.range n).map d.countLevel) = d.countLevel n := by
  cases n with
  | zero => simp [nextCountLevel, countLevel]
  | succ n => unfold nextCountLevel; rw [getLast?_range_map]; rfl

theorem extendCount_range (d : DFA σ α) (m n : Nat) :
    d.extendCount m ((List.range n).map d.countLevel) = (List.range (n + m)).map d.countLevel := by
  induction m generalizing n with
  | zero => simp [extendCount]
  | succ m ih =>
    simp only [extendCount, nextCountLevel_range]
    have : (List.range n).map d.countLevel ++ [d.countLevel n] = (List.range (n + 1)).map d.countLevel := by
      rw [List.range_succ, List.map_append]; simp
    rw [this, ih]
    congr 2
    omega

theorem populateCount_coherent {d : DFA σ α} {cache : List (List (σ × Nat))}
    (h : d.CoherentCount cache) (k : Nat) :
    d.populateCount cache k = (List.range (max cache.length (k + 1))).map d.countLevel := by
  unfold populateCount
  rw [h, extendCount_range]
  simp only [List.length_map, List.length_range]
  congr 2
  omega

theorem coherent_populateCount {d : DFA σ α} {cache : List (List (σ × Nat))}
    (h : d.CoherentCount cache) (k : Nat) : d.CoherentCount (d.populateCount cache k) := by
  rw [populateCount_coherent h]
  simp [CoherentCount]

theorem cacheCount_populateCount {d : DFA σ α} {cache : List (List (σ × Nat))}
    (h : d.CoherentCount cache) (k r : Nat) (hr : r ≤ k) (q : σ) :
    cacheCount (d.populateCount cache k) r q = cget (d.countLevel r) q := by
  rw [populateCount_coherent h]
  unfold cacheCount
  have : r < max cache.length (k + 1) := by omega
  simp [this]

theorem nextWordLevel_range (d : DFA σ α) (key : α → Int) (n : Nat) :
    d.nextWordLevel key ((List.range n).map (d.wordLevel key)) = d.wordLevel key n := by
  cases n with
  | zero => simp [nextWordLevel, wordLevel]
  | succ n => unfold nextWordLevel; rw [getLast?_range_map]; rfl

theorem extendWord_range (d : DFA σ α) (key : α → Int) (m n : Nat) :
    d.extendWord key m ((List.range n).map (d.wordLevel key)) =
      (List.range (n + m)).map (d.wordLevel key) := by
  induction m generalizing n with
  | zero => simp [extendWord]
  | succ m ih =>
    simp only [extendWord, nextWordLevel_range]
    have : (List.range n).map (d.wordLevel key) ++ [d.wordLevel key n] =
        (List.range (n + 1)).map (d.wordLevel key) := by
      rw [List.range_succ, List.map_append]; simp
    rw [this, ih]
    congr 2
    omega

theorem populateWord_coherent {d : DFA σ α} {key : α → Int} {cache : List (List (σ × List (List α)))}
    (h : d.CoherentWord key cache) (k : Nat) :
    d.populateWord key cache k = (List.range (max cache.length (k + 1))).map (d.wordLevel key) := by
  unfold populateWord
  rw [h, extendWord_range]
  simp only [List.length_map, List.length_range]
  congr 2
  omega

theorem coherent_populateWord {d : DFA σ α} {key : α → Int} {cache : List (List (σ × List (List α)))}
    (h : d.CoherentWord key cache) (k : Nat) : d.CoherentWord key (d.populateWord key cache k) := by
  rw [populateWord_coherent h]
  simp [CoherentWord]

theorem cacheWords_populateWord {d : DFA σ α} {key : α → Int} {cache : List (List (σ × List (List α)))}
    (h : d.CoherentWord key cache) (k : Nat) :
    cacheWords (d.populateWord key cache k) k d.init = d.wordsOfLength key k := by
  rw [populateWord_coherent h]
  unfold cacheWords wordsOfLength
  have : k < max cache.length (k + 1) := by omega
  simp [this]

/-! ### the invariant -/

/-- Every `cached_method` entry that is present holds the value the method computes from the
definition. -/
structure MemoOK (d : DFA σ α) (m : Memo σ) : Prop where
  digraph : ∀ g, m.digraph = some g → g = d.digraph
  isempty : ∀ b, m.isempty = some b → b = d.isEmpty
  isfinite : ∀ b, m.isfinite = some b → d.isFinite = .ok b
  cardinality : ∀ n, m.cardinality = some n → d.cardinality = .ok n
  minLen : ∀ n, m.minLen = some n → d.minimumWordLength = .ok n
  maxLen : ∀ n, m.maxLen = some n → d.maximumWordLength = .ok n

/-- The coherence invariant of an instance: every populated cache level is the table of that
level, every memoised value is the value computed from the definition. -/
structure CacheInv (d : DFA σ α) (key : α → Int) (s : Inst σ α) : Prop where
  counts : d.CoherentCount s.counts
  words : d.CoherentWord key s.words
  memo : d.MemoOK s.memo

theorem cacheInv_fresh (d : DFA σ α) (key : α → Int) : d.CacheInv key (Inst.fresh : Inst σ α) := by
  refine ⟨?_, ?_, ?_⟩
  · simp [Inst.fresh, CoherentCount]
  · simp [Inst.fresh, CoherentWord]
  · constructor <;> simp [Inst.fresh]

/-- What every cached call guarantees: invariant kept, generators untouched, value = the
stateless one. -/
structure CallSpec {β : Type} (d : DFA σ α) (key : α → Int) (s : Inst σ α) (r : Inst σ α × β) (v : β) :
    Prop where
  inv : d.CacheInv key r.1
  gens : r.1.gens = s.gens
  val : r.2 = v

theorem cDigraph_spec {d : DFA σ α} {key : α → Int} {s : Inst σ α} (h : d.CacheInv key s) :
    CallSpec d key s (d.cDigraph s) d.digraph := by
  unfold cDigraph
  cases hg : s.memo.digraph with
  | some g => exact ⟨h, rfl, h.memo.digraph g hg⟩
  | none =>
    refine ⟨⟨h.counts, h.words, ?_⟩, rfl, rfl⟩
    exact { h.memo with digraph := by intro g hg'; simp at hg'; exact hg'.symm }

theorem cIsEmpty_spec {d : DFA σ α} {key : α → Int} {s : Inst σ α} (h : d.CacheInv key s) :
    CallSpec d key s (d.cIsEmpty s) d.isEmpty := by
  unfold cIsEmpty
  cases hg : s.memo.isempty with
  | some b => exact ⟨h, rfl, h.memo.isempty b hg⟩
  | none =>
    refine ⟨⟨h.counts, h.words, ?_⟩, rfl, rfl⟩
    exact { h.memo with isempty := by intro b hb; simp at hb; exact hb.symm }

theorem cMinLen_spec {d : DFA σ α} {key : α → Int} {s : Inst σ α} (h : d.CacheInv key s) :
    CallSpec d key s (d.cMinLen s) d.minimumWordLength := by
  unfold cMinLen
  cases hg : s.memo.minLen with
  | some m => exact ⟨h, rfl, (h.memo.minLen m hg).symm⟩
  | none =>
    cases hm : d.minimumWordLength with
    | error e => exact ⟨h, rfl, rfl⟩
    | ok m =>
      refine ⟨⟨h.counts, h.words, ?_⟩, rfl, rfl⟩
      exact { h.memo with minLen := by intro n hn; simp at hn; rw [hm, hn] }

theorem cMaxLen_spec {d : DFA σ α} {key : α → Int} {s : Inst σ α} (h : d.CacheInv key s) :
    CallSpec d key s (d.cMaxLen s) d.maximumWordLength := by
  unfold cMaxLen
  cases hg : s.memo.maxLen with
  | some m => exact ⟨h, rfl, (h.memo.maxLen m hg).symm⟩
  | none =>
    have h1 := cIsEmpty_spec h
    simp only
    rw [h1.val]
    cases he : d.isEmpty with
    | true =>
      refine ⟨h1.inv, h1.gens, ?_⟩
      simp [maximumWordLength, he]
    | false =>
      have h2 := cDigraph_spec h1.inv
      simp only
      rw [h2.val]
      refine ⟨⟨h2.inv.counts, h2.inv.words, ?_⟩, h2.gens.trans h1.gens, ?_⟩
      · exact { h2.inv.memo with
          maxLen := by intro n hn; simp at hn; simp [maximumWordLength, he, hn] }
      · simp [maximumWordLength, he]

theorem cIsFinite_spec {d : DFA σ α} {key : α → Int} {s : Inst σ α} (h : d.CacheInv key s) :
    CallSpec d key s (d.cIsFinite s) d.isFinite := by
  unfold cIsFinite
  cases hg : s.memo.isfinite with
  | some b => exact ⟨h, rfl, (h.memo.isfinite b hg).symm⟩
  | none =>
    have h1 := cMaxLen_spec h
    simp only
    rw [h1.val]
    have hf : d.isFinite = isFiniteCore d.maximumWordLength := rfl
    cases hc : isFiniteCore d.maximumWordLength with
    | error e => exact ⟨h1.inv, h1.gens, by rw [hf, hc]⟩
    | ok b =>
      refine ⟨⟨h1.inv.counts, h1.inv.words, ?_⟩, h1.gens, by rw [hf, hc]⟩
      exact { h1.inv.memo with isfinite := by intro b' hb; simp at hb; rw [hf, hc, hb] }

theorem cCountWords_spec {d : DFA σ α} {key : α → Int} {s : Inst σ α} (h : d.CacheInv key s) (k : Nat) :
    CallSpec d key s (d.cCountWords s k) (d.countWordsOfLength k) := by
  unfold cCountWords
  refine ⟨⟨coherent_populateCount h.counts k, h.words, h.memo⟩, rfl, ?_⟩
  exact cacheCount_populateCount h.counts k k (Nat.le_refl k) d.init

theorem cSumCounts_spec {d : DFA σ α} {key : α → Int} (js : List Nat) :
    ∀ {s : Inst σ α} (acc : Nat), d.CacheInv key s →
      CallSpec d key s (d.cSumCounts js s acc) (acc + (js.map d.countWordsOfLength).sum) := by
  induction js with
  | nil => intro s acc h; exact ⟨h, rfl, by simp [cSumCounts]⟩
  | cons j js ih =>
    intro s acc h
    have h1 := cCountWords_spec h j
    have h2 := ih (acc + (d.cCountWords s j).2) h1.inv
    unfold cSumCounts
    refine ⟨h2.inv, h2.gens.trans h1.gens, ?_⟩
    rw [h2.val, h1.val]
    simp [Nat.add_assoc]

theorem cCardinality_spec {d : DFA σ α} {key : α → Int} {s : Inst σ α} (h : d.CacheInv key s) :
    CallSpec d key s (d.cCardinality s) d.cardinality := by
  unfold cCardinality
  cases hg : s.memo.cardinality with
  | some n => exact ⟨h, rfl, (h.memo.cardinality n hg).symm⟩
  | none =>
    have h1 := cMinLen_spec h
    simp only
    rw [h1.val]
    cases hm : d.minimumWordLength with
    | error e =>
      by_cases he : e = .lib .emptyLanguageException
      · subst he
        refine ⟨⟨h1.inv.counts, h1.inv.words, ?_⟩, h1.gens, by simp [cardinality, hm]⟩
        exact { h1.inv.memo with
          cardinality := by intro n hn; simp at hn; simp [cardinality, hm, hn] }
      · have hc : d.cardinality = .error e := by
          unfold cardinality; rw [hm]
          split <;> simp_all
        rw [hc]
        split
        · simp_all
        · rename_i e' heq; cases heq; exact ⟨h1.inv, h1.gens, rfl⟩
        · simp_all
    | ok i =>
      have h2 := cMaxLen_spec h1.inv
      simp only
      rw [h2.val]
      cases hx : d.maximumWordLength with
      | error e => exact ⟨h2.inv, h2.gens.trans h1.gens, by simp [cardinality, hm, hx]⟩
      | ok lim =>
        cases lim with
        | none => exact ⟨h2.inv, h2.gens.trans h1.gens, by simp [cardinality, hm, hx]⟩
        | some limit =>
          have h3 := cSumCounts_spec (key := key) (List.range' i (limit + 1 - i)) 0 h2.inv
          simp only
          have hc : d.cardinality =
              .ok ((List.range' i (limit + 1 - i)).map d.countWordsOfLength).sum := by
            simp [cardinality, hm, hx]
          refine ⟨⟨h3.inv.counts, h3.inv.words, ?_⟩, h3.gens.trans (h2.gens.trans h1.gens), ?_⟩
          · exact { h3.inv.memo with
              cardinality := by intro n hn; simp at hn; rw [hc, ← hn, h3.val]; simp }
          · rw [hc, h3.val]; simp

/-! ### generators -/

theorem cIterAdvance_spec {d : DFA σ α} {key : α → Int} (fuel : Nat) :
    ∀ {s : Inst σ α} (i : Nat) (limit : Option Nat) (rest : List (List α)), d.CacheInv key s →
      d.CacheInv key (d.cIterAdvance key fuel s i limit rest).1 ∧
      (d.cIterAdvance key fuel s i limit rest).1.gens = s.gens ∧
      (d.cIterAdvance key fuel s i limit rest).2 = d.pIterAdvance key fuel i limit rest := by
  induction fuel with
  | zero =>
    intro s i limit rest h
    cases rest with
    | nil => exact ⟨h, rfl, rfl⟩
    | cons w rest => exact ⟨h, rfl, rfl⟩
  | succ fuel ih =>
    intro s i limit rest h
    cases rest with
    | cons w rest => exact ⟨h, rfl, rfl⟩
    | nil =>
      unfold cIterAdvance pIterAdvance
      cases hc : iterCond limit i with
      | false => exact ⟨h, rfl, rfl⟩
      | true =>
        simp only
        have hinv : d.CacheInv key { s with words := d.populateWord key s.words i } :=
          ⟨h.counts, coherent_populateWord h.words i, h.memo⟩
        rw [cacheWords_populateWord h.words]
        exact ih (i + 1) limit (d.wordsOfLength key i) hinv

theorem cSuccStart_spec {d : DFA σ α} {key : α → Int} {s : Inst σ α} (h : d.CacheInv key s)
    (reverse : Bool) :
    d.CacheInv key (d.cSuccStart s reverse).1 ∧ (d.cSuccStart s reverse).1.gens = s.gens ∧
      (d.cSuccStart s reverse).2 = (d.finiteGuard reverse, d.digraph) := by
  cases reverse with
  | false =>
    have h2 := cDigraph_spec h
    unfold cSuccStart finiteGuard
    simp only
    exact ⟨h2.inv, h2.gens, by rw [h2.val]⟩
  | true =>
    have h1 := cIsFinite_spec h
    unfold cSuccStart finiteGuard
    simp only
    rw [h1.val]
    cases hf : d.isFinite with
    | error e => exact ⟨h1.inv, h1.gens, rfl⟩
    | ok b =>
      cases b with
      | false => exact ⟨h1.inv, h1.gens, rfl⟩
      | true =>
        have h2 := cDigraph_spec h1.inv
        simp only
        exact ⟨h2.inv, h2.gens.trans h1.gens, by rw [h2.val]⟩

theorem cGenNext_spec {d : DFA σ α} {key : α → Int} {s : Inst σ α} (h : d.CacheInv key s) (fuel : Nat)
    (g : Gen σ α) :
    d.CacheInv key (d.cGenNext key s fuel g).1 ∧ (d.cGenNext key s fuel g).1.gens = s.gens ∧
      (d.cGenNext key s fuel g).2 = d.pGenNext key fuel g := by
  cases g with
  | wordsNew k =>
    unfold cGenNext pGenNext
    simp only
    rw [cacheWords_populateWord h.words]
    have hinv : d.CacheInv key { s with words := d.populateWord key s.words k } :=
      ⟨h.counts, coherent_populateWord h.words k, h.memo⟩
    cases d.wordsOfLength key k with
    | nil => exact ⟨hinv, rfl, rfl⟩
    | cons w rest => exact ⟨hinv, rfl, rfl⟩
  | wordsRun rest =>
    cases rest with
    | nil => exact ⟨h, rfl, rfl⟩
    | cons w rest => exact ⟨h, rfl, rfl⟩
  | iterNew =>
    unfold cGenNext pGenNext
    have h1 := cIsEmpty_spec h
    simp only
    rw [h1.val]
    cases d.isEmpty with
    | true => exact ⟨h1.inv, h1.gens, rfl⟩
    | false =>
      have h2 := cMinLen_spec h1.inv
      simp only
      rw [h2.val]
      cases d.minimumWordLength with
      | error e => exact ⟨h2.inv, h2.gens.trans h1.gens, rfl⟩
      | ok i =>
        have h3 := cMaxLen_spec h2.inv
        simp only
        rw [h3.val]
        cases d.maximumWordLength with
        | error e => exact ⟨h3.inv, h3.gens.trans (h2.gens.trans h1.gens), rfl⟩
        | ok limit =>
          have h4 := cIterAdvance_spec (d := d) (key := key) fuel i limit [] h3.inv
          exact ⟨h4.1, h4.2.1.trans (h3.gens.trans (h2.gens.trans h1.gens)), h4.2.2⟩
  | iterRun i limit rest => exact cIterAdvance_spec fuel i limit rest h
  | succNew skey input o =>
    have h1 := cSuccStart_spec h o.reverse
    unfold cGenNext pGenNext
    simp only
    rw [h1.2.2]
    cases d.succSetup (d.finiteGuard o.reverse) d.digraph skey input o with
    | error e => exact ⟨h1.1, h1.2.1, rfl⟩
    | ok cs => exact ⟨h1.1, h1.2.1, rfl⟩
  | succRun o c st => exact ⟨h, rfl, rfl⟩
  | raising e => exact ⟨h, rfl, rfl⟩
  | done => exact ⟨h, rfl, rfl⟩

/-! ### `random_word` reads only the levels `≤ k` -/

theorem randomWordLoop_congr (d : DFA σ α) {c1 c2 : Nat → σ → Nat} :
    ∀ (r : Nat) (q : σ) (cs : List Nat) (acc : List α), (∀ r' ≤ r, c1 r' = c2 r') →
      d.randomWordLoop c1 r q cs acc = d.randomWordLoop c2 r q cs acc := by
  intro r
  induction r with
  | zero => intro q cs acc _; rfl
  | succ r ih =>
    intro q cs acc h
    unfold randomWordLoop
    rw [h (r + 1) (Nat.le_refl _), h r (Nat.le_succ r)]
    cases decide (c2 (r + 1) q = 0) with
    | true => rfl
    | false =>
      simp only
      have ih' := fun q cs acc => ih q cs acc (fun r' hr => h r' (Nat.le_succ_of_le hr))
      cases pickEdge (c2 r) (d.row q) (cs.headD 0) with
      | none => exact ih' _ _ _
      | some e => exact ih' _ _ _

theorem randomWordCore_congr (d : DFA σ α) {c1 c2 : Nat → σ → Nat} (k : Nat) (cs : List Nat)
    (h : ∀ r' ≤ k, c1 r' = c2 r') : d.randomWordCore c1 k cs = d.randomWordCore c2 k cs := by
  unfold randomWordCore
  rw [h k (Nat.le_refl k), randomWordLoop_congr d k d.init cs [] h]

/-! ### one call, any call -/

/-- Simulation step: from a coherent instance every public call keeps the instance coherent
and returns exactly what the stateless reference returns (answer and generator positions). -/
theorem step_sim {d : DFA σ α} {key : α → Int} (ext : Ext σ) {s : Inst σ α}
    (h : d.CacheInv key s) (q : Query α) :
    d.CacheInv key (d.step key ext s q).1 ∧
      d.stepPure key ext s.gens q = ((d.step key ext s q).1.gens, (d.step key ext s q).2) := by
  cases q with
  | accepts w => exact ⟨h, rfl⟩
  | count k =>
    have h1 := cCountWords_spec h k
    exact ⟨h1.inv, by simp [step, stepPure, h1.gens, h1.val]⟩
  | wordsOpen k => exact ⟨⟨h.counts, h.words, h.memo⟩, rfl⟩
  | iterOpen => exact ⟨⟨h.counts, h.words, h.memo⟩, rfl⟩
  | next hd fuel =>
    cases hg : s.gens[hd]? with
    | none =>
      simp only [step, stepPure, hg]
      exact ⟨h, trivial⟩
    | some g =>
      have h1 := cGenNext_spec h fuel g
      simp only [step, stepPure, hg]
      refine ⟨⟨h1.1.counts, h1.1.words, h1.1.memo⟩, ?_⟩
      rw [← h1.2.2, h1.2.1]
  | cardinality =>
    have h1 := cCardinality_spec h
    exact ⟨h1.inv, by simp [step, stepPure, h1.gens, h1.val]⟩
  | len =>
    have h1 := cCardinality_spec h
    exact ⟨h1.inv, by simp [step, stepPure, h1.gens, h1.val, len]⟩
  | minLen =>
    have h1 := cMinLen_spec h
    exact ⟨h1.inv, by simp [step, stepPure, h1.gens, h1.val]⟩
  | maxLen =>
    have h1 := cMaxLen_spec h
    exact ⟨h1.inv, by simp [step, stepPure, h1.gens, h1.val]⟩
  | isEmpty =>
    have h1 := cIsEmpty_spec h
    exact ⟨h1.inv, by simp [step, stepPure, h1.gens, h1.val]⟩
  | isFinite =>
    have h1 := cIsFinite_spec h
    exact ⟨h1.inv, by simp [step, stepPure, h1.gens, h1.val]⟩
  | randomWord k cs =>
    refine ⟨⟨coherent_populateCount h.counts k, h.words, h.memo⟩, ?_⟩
    have : d.randomWordCore (cacheCount (d.populateCount s.counts k)) k cs = d.randomWord k cs := by
      unfold randomWord
      apply randomWordCore_congr
      intro r hr
      funext q
      exact cacheCount_populateCount h.counts k r hr q
    simp [step, stepPure, this]
  | succs skey input o n fuel =>
    cases n with
    | zero => exact ⟨h, rfl⟩
    | succ n =>
      have h1 := cSuccStart_spec h o.reverse
      refine ⟨h1.1, ?_⟩
      simp only [step, stepPure, h1.2.1, h1.2.2, successors]
  | first skey input o fuel =>
    have h1 := cSuccStart_spec h o.reverse
    refine ⟨h1.1, ?_⟩
    simp only [step, stepPure, h1.2.1, h1.2.2, successors]
  | succOpen skey input o => exact ⟨⟨h.counts, h.words, h.memo⟩, rfl⟩
  | clearCache =>
    exact ⟨⟨by simp [step, CoherentCount], by simp [step, CoherentWord], h.memo⟩, rfl⟩
  | minify tag =>
    cases hp : d.allowPartial with
    | false => simp only [step, stepPure, hp]; exact ⟨h, trivial⟩
    | true =>
      have h1 := cDigraph_spec h
      simp only [step, stepPure, hp]
      exact ⟨h1.inv, by rw [h1.gens, h1.val]⟩
  | toPartial tag =>
    have h1 := cDigraph_spec h
    simp only [step, stepPure]
    exact ⟨h1.inv, by rw [h1.gens, h1.val]⟩
  | other tag => exact ⟨h, rfl⟩

end DFA
end AV
