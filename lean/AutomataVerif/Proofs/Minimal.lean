/-
Proofs/Minimal.lean — the generic minimality lemma (core only).

A model DFA `M` whose declared states are duplicate-free, all reachable from the initial
state and pairwise distinguishable has the fewest states of any valid *complete* DFA over
(at least) the same alphabet with the same language; if moreover every state of `M` is
live, `M` has no more states than ANY valid DFA (partial or complete) with the same
language has live states.  (Myhill–Nerode by pigeonhole: a reaching word of each state of
`M` is sent to the state the other machine reaches on it; two states of `M` sent to the
same state would have the same right language.)
-/
import AutomataVerif.Proofs.Read

namespace AV

set_option linter.unusedSectionVars false

/-- Pigeonhole for lists used as sets: a relation from a duplicate-free list `l` into `L`
that is total on `l` and injective has `|l| ≤ |L|`. -/
theorem length_le_of_rel_inj {β γ : Type} [DecidableEq γ] (R : β → γ → Prop) :
    ∀ (l : List β) (L : List γ), l.Nodup → (∀ x ∈ l, ∃ y ∈ L, R x y) →
      (∀ x ∈ l, ∀ x' ∈ l, ∀ y, R x y → R x' y → x = x') → l.length ≤ L.length := by
  intro l
  induction l with
  | nil => intro L _ _ _; simp
  | cons x l ih =>
    intro L hnd hex hinj
    obtain ⟨hxl, hndl⟩ := List.nodup_cons.mp hnd
    obtain ⟨y, hyL, hxy⟩ := hex x (by simp)
    have hlen : (L.erase y).length = L.length - 1 := List.length_erase_of_mem hyL
    have hpos : 0 < L.length := List.length_pos_of_mem hyL
    have := ih (L.erase y) hndl ?_ ?_
    · simp only [List.length_cons]; omega
    · intro x' hx'
      obtain ⟨y', hy'L, hx'y'⟩ := hex x' (List.mem_cons_of_mem _ hx')
      refine ⟨y', ?_, hx'y'⟩
      have hne : y' ≠ y := by
        intro h; subst h
        have := hinj x (by simp) x' (List.mem_cons_of_mem _ hx') y' hxy hx'y'
        subst this
        exact hxl hx'
      exact (List.mem_erase_of_ne hne).mpr hy'L
    · intro a ha b hb y' h1 h2
      exact hinj a (List.mem_cons_of_mem _ ha) b (List.mem_cons_of_mem _ hb) y' h1 h2

namespace DFA
variable {σ τ α : Type} [DecidableEq σ] [DecidableEq τ] [DecidableEq α]

/-- A state is live when some word is accepted from it. -/
def Live (d : DFA σ α) (q : σ) : Prop := ∃ w, d.isFinal (d.run (some q) w) = true

/-- The distinct live declared states of `d` (classical: liveness is an existential over
words; `mem_coaccessible_iff_live` in Proofs/MinPrepass.lean gives the computable reading). -/
noncomputable def liveStates (d : DFA σ α) : List σ :=
  haveI : DecidablePred d.Live := fun _ => Classical.propDecidable _
  (dedup d.states).filter fun q => decide (d.Live q)

theorem mem_liveStates {d : DFA σ α} {q : σ} : q ∈ d.liveStates ↔ q ∈ d.states ∧ d.Live q := by
  unfold liveStates
  simp [List.mem_filter]

theorem nodup_liveStates (d : DFA σ α) : d.liveStates.Nodup := by
  unfold liveStates
  exact List.Nodup.sublist List.filter_sublist (nodup_dedup _)

theorem liveStates_length_le (d : DFA σ α) : d.liveStates.length ≤ d.states.length :=
  List.Nodup.length_le_of_subset (nodup_liveStates d) fun _ hq => (mem_liveStates.mp hq).1

theorem isFinal_none (d : DFA σ α) : d.isFinal none = false := rfl

theorem accepts_append (d : DFA σ α) (u v : List α) :
    d.accepts (u ++ v) = d.isFinal (d.run (d.run (some d.init) u) v) := by
  unfold accepts; rw [run_append]

/-- Runs of a well-formed DFA stay inside the declared states (or fall into the sink). -/
theorem good_run {d : DFA σ α} (wf : d.WF) {s : Option σ} (hs : d.Good s) (w : List α) :
    d.Good (d.run s w) := by
  induction w generalizing s with
  | nil => exact hs
  | cons a w ih => rw [run_cons]; exact ih (good_step wf a hs)

/-- In a complete well-formed DFA a run from a declared state over alphabet symbols never
falls into the sink. -/
theorem run_complete {d : DFA σ α} (wf : d.WF) (hc : d.allowPartial = false) {q : σ}
    (hq : q ∈ d.states) (w : List α) (hw : ∀ a ∈ w, a ∈ d.syms) :
    ∃ q', q' ∈ d.states ∧ d.run (some q) w = some q' := by
  induction w generalizing q with
  | nil => exact ⟨q, hq, rfl⟩
  | cons a w ih =>
    obtain ⟨t, ht⟩ := step?_complete wf hc hq (hw a (by simp))
    rw [run_cons, ht]
    exact ih (step?_mem wf ht) fun b hb => hw b (List.mem_cons_of_mem _ hb)

/-- A run of a well-formed DFA that does not end in the sink read alphabet symbols only. -/
theorem syms_of_run_some {d : DFA σ α} (wf : d.WF) {s : Option σ} {w : List α} {q : σ}
    (h : d.run s w = some q) : ∀ a ∈ w, a ∈ d.syms := by
  induction w generalizing s with
  | nil => intro a ha; simp at ha
  | cons b w ih =>
    rw [run_cons] at h
    intro a ha
    rcases List.mem_cons.mp ha with hab | haw
    · subst hab
      refine Classical.byContradiction fun hns => ?_
      rw [step?_foreign wf s hns, run_none] at h
      cases h
    · exact ih h a haw

section minimal
variable (M : DFA σ α) (B : DFA τ α)

/-- The pigeonhole relation: `q` (in `M`) and `t` (in `B`) are reached by a common word. -/
private def CoReach (q : σ) (t : τ) : Prop :=
  ∃ w, M.run (some M.init) w = some q ∧ B.run (some B.init) w = some t

private theorem coReach_inj
    (hdist : ∀ p ∈ M.states, ∀ q ∈ M.states, p ≠ q →
      ∃ w, M.isFinal (M.run (some p) w) ≠ M.isFinal (M.run (some q) w))
    (hlang : ∀ w, B.accepts w = M.accepts w) :
    ∀ p ∈ M.states, ∀ q ∈ M.states, ∀ t, CoReach M B p t → CoReach M B q t → p = q := by
  intro p hp q hq t ⟨u, hup, hut⟩ ⟨v, hvq, hvt⟩
  refine Classical.byContradiction fun hne => ?_
  obtain ⟨w, hw⟩ := hdist p hp q hq hne
  apply hw
  have h1 := hlang (u ++ w)
  have h2 := hlang (v ++ w)
  rw [accepts_append, accepts_append, hup, hut] at h1
  rw [accepts_append, accepts_append, hvq, hvt] at h2
  rw [← h1, ← h2]

/-- **Minimality, complete kind**, against an arbitrary list `L` that contains the declared
states of `B` (e.g. `dedup B.states`).  (`hsym` follows from `M.WF` and `M.syms ⊆ B.syms`.) -/
theorem minimal_of_reachable_distinguishable_complete''
    (hnd : M.states.Nodup)
    (hreach : ∀ q ∈ M.states, ∃ w, M.run (some M.init) w = some q)
    (hdist : ∀ p ∈ M.states, ∀ q ∈ M.states, p ≠ q →
      ∃ w, M.isFinal (M.run (some p) w) ≠ M.isFinal (M.run (some q) w))
    (hsym : ∀ (s : Option σ) (a : α), a ∉ B.syms → M.step? s a = none)
    (wfB : B.WF) (hBc : B.allowPartial = false)
    (hlang : ∀ w, B.accepts w = M.accepts w)
    (L : List τ) (hL : ∀ t ∈ B.states, t ∈ L) :
    M.states.length ≤ L.length := by
  refine length_le_of_rel_inj (CoReach M B) M.states L hnd ?_
    (coReach_inj M B hdist hlang)
  intro q hq
  obtain ⟨w, hw⟩ := hreach q hq
  have hwB : ∀ a ∈ w, a ∈ B.syms := by
    -- a symbol outside `B.syms` would send `M` to the sink
    clear hq
    generalize some M.init = s at hw
    induction w generalizing s with
    | nil => intro a ha; simp at ha
    | cons b w ih =>
      rw [run_cons] at hw
      intro a ha
      rcases List.mem_cons.mp ha with hab | haw
      · subst hab
        refine Classical.byContradiction fun hns => ?_
        rw [hsym s a hns, run_none] at hw
        cases hw
      · exact ih _ hw a haw
  obtain ⟨t, ht, hrun⟩ := run_complete wfB hBc wfB.initOk w hwB
  exact ⟨t, hL t ht, w, hw, hrun⟩

/-- **Minimality, complete kind.**  If the declared states of `M` are duplicate-free, all
reachable and pairwise distinguishable, then every valid complete DFA `B` with the same
language whose alphabet contains the symbols `M` moves on has at least as many states.
(`hsym` follows from `M.WF` and `M.syms ⊆ B.syms`, see the corollary below.) -/
theorem minimal_of_reachable_distinguishable_complete'
    (hnd : M.states.Nodup)
    (hreach : ∀ q ∈ M.states, ∃ w, M.run (some M.init) w = some q)
    (hdist : ∀ p ∈ M.states, ∀ q ∈ M.states, p ≠ q →
      ∃ w, M.isFinal (M.run (some p) w) ≠ M.isFinal (M.run (some q) w))
    (hsym : ∀ (s : Option σ) (a : α), a ∉ B.syms → M.step? s a = none)
    (wfB : B.WF) (hBc : B.allowPartial = false)
    (hlang : ∀ w, B.accepts w = M.accepts w) :
    M.states.length ≤ B.states.length :=
  minimal_of_reachable_distinguishable_complete'' M B hnd hreach hdist hsym wfB hBc hlang
    B.states fun _ h => h

/-- **Minimality, complete kind** (the form used by the property theorems): `M` valid with
duplicate-free, reachable, pairwise distinguishable states; `B` valid, complete, over an
alphabet containing `M`'s, same language ⇒ `|M| ≤ |B|`. -/
theorem minimal_of_reachable_distinguishable_complete
    (wfM : M.WF) (hnd : M.states.Nodup)
    (hreach : ∀ q ∈ M.states, ∃ w, M.run (some M.init) w = some q)
    (hdist : ∀ p ∈ M.states, ∀ q ∈ M.states, p ≠ q →
      ∃ w, M.isFinal (M.run (some p) w) ≠ M.isFinal (M.run (some q) w))
    (wfB : B.WF) (hBc : B.allowPartial = false) (hsyms : ∀ a ∈ M.syms, a ∈ B.syms)
    (hlang : ∀ w, B.accepts w = M.accepts w) :
    M.states.length ≤ B.states.length :=
  minimal_of_reachable_distinguishable_complete' M B hnd hreach hdist
    (fun s _ ha => step?_foreign wfM s fun h => ha (hsyms _ h)) wfB hBc hlang

/-- **Minimality, partial kind**, against an arbitrary list `L` that contains the live
declared states of `B`. -/
theorem minimal_of_reachable_distinguishable_partial'
    (hnd : M.states.Nodup)
    (hreach : ∀ q ∈ M.states, ∃ w, M.run (some M.init) w = some q)
    (hdist : ∀ p ∈ M.states, ∀ q ∈ M.states, p ≠ q →
      ∃ w, M.isFinal (M.run (some p) w) ≠ M.isFinal (M.run (some q) w))
    (hlive : ∀ q ∈ M.states, M.Live q)
    (wfB : B.WF) (hlang : ∀ w, B.accepts w = M.accepts w)
    (L : List τ) (hL : ∀ t ∈ B.states, B.Live t → t ∈ L) :
    M.states.length ≤ L.length := by
  refine length_le_of_rel_inj (CoReach M B) M.states L hnd ?_ (coReach_inj M B hdist hlang)
  intro q hq
  obtain ⟨w, hw⟩ := hreach q hq
  obtain ⟨v, hv⟩ := hlive q hq
  have hacc : B.accepts (w ++ v) = true := by
    rw [hlang, accepts_append, hw]; exact hv
  rw [accepts_append] at hacc
  cases hr : B.run (some B.init) w with
  | none => rw [hr, run_none] at hacc; cases hacc
  | some t =>
    rw [hr] at hacc
    have hgood : B.Good (B.run (some B.init) w) := good_run wfB (s := some B.init) wfB.initOk w
    rw [hr] at hgood
    exact ⟨t, hL t hgood ⟨v, hacc⟩, w, hw, hr⟩

/-- **Minimality, partial kind.**  If moreover every state of `M` is live, then ANY valid
DFA `B` (partial or complete, any alphabet) with the same language has at least `|M|`
live states — a fortiori at least `|M|` states. -/
theorem minimal_of_reachable_distinguishable_partial
    (hnd : M.states.Nodup)
    (hreach : ∀ q ∈ M.states, ∃ w, M.run (some M.init) w = some q)
    (hdist : ∀ p ∈ M.states, ∀ q ∈ M.states, p ≠ q →
      ∃ w, M.isFinal (M.run (some p) w) ≠ M.isFinal (M.run (some q) w))
    (hlive : ∀ q ∈ M.states, M.Live q)
    (wfB : B.WF) (hlang : ∀ w, B.accepts w = M.accepts w) :
    M.states.length ≤ B.liveStates.length ∧ B.liveStates.length ≤ B.states.length :=
  ⟨minimal_of_reachable_distinguishable_partial' M B hnd hreach hdist hlive wfB hlang
      B.liveStates fun _ ht hl => mem_liveStates.mpr ⟨ht, hl⟩,
   liveStates_length_le B⟩

end minimal

end DFA
end AV
