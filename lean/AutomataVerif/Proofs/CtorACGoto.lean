/-
Proofs/CtorACGoto.lean — from_substrings (C15), phase 3: the goto function and the second BFS
(`acTransBfs`) that tabulates it.  Core only.
-/
import AutomataVerif.Proofs.CtorACBfs
import AutomataVerif.Proofs.CtorKMPDfa

namespace AV.Ctor.AC

set_option linter.unusedSectionVars false
set_option linter.unusedVariables false
set_option linter.unusedSimpArgs false

variable {α : Type} [DecidableEq α]

/-- `y` is the longest suffix of `w` that is a string of the trie. -/
def IsLongest (paths : List (List α)) (w y : List α) : Prop :=
  y <:+ w ∧ y ∈ paths ∧ ∀ z, z <:+ w → z ∈ paths → z.length ≤ y.length

theorem IsLongest.unique {paths : List (List α)} {w y y' : List α} (h : IsLongest paths w y)
    (h' : IsLongest paths w y') : y = y' := by
  have h1 := h.2.2 y' h'.1 h'.2.1
  have h2 := h'.2.2 y h.1 h.2.1
  have hs : y <:+ y' := List.suffix_of_suffix_length_le h.1 h'.1 h2
  exact hs.eq_of_length (by omega)

section goto
variable {pats : List (List α)} {nodes : List (ACNode α)} {paths : List (List α)}

/-- The goto function: the node spelling the longest suffix of `x ++ [a]` in the trie. -/
theorem acGoto_spec (hL : Linked pats nodes paths) (cur : Nat) (x : List α)
    (hcur : paths[cur]? = some x) (a : α) :
    ∃ g y, acGoto nodes cur a = .ok (nat g) ∧ paths[g]? = some y ∧ IsLongest paths (x ++ [a]) y := by
  have h := hL.trie
  have hroot : ([] : List α) ∈ paths := (h.mem_iff _).mpr ⟨0, h.root⟩
  have hdepth := h.depth_lt hcur
  obtain ⟨r, hr, ht⟩ := acFollow_spec h a hL.rootfail x.length x (some cur) (Nat.le_refl _) hcur
    (fun v z hv hz _ => (hL.ok v z hv hz).1) (nodes.length + 1) (by omega)
  unfold acGoto
  rw [hr]
  simp only
  rcases ht with ⟨c, z, e1, e2, e3, e4⟩ | ⟨e1, e2⟩
  · rw [e1]
    refine ⟨c, z ++ [a], rfl, e2, KMP.suffix_snoc_snoc.mpr ⟨e3, rfl⟩, (h.mem_iff _).mpr ⟨c, e2⟩, ?_⟩
    intro w hw hm
    rcases List.suffix_concat_iff.mp hw with rfl | ⟨t, rfl, ht⟩
    · simp
    · have := e4 t ht hm
      simp; omega
  · rw [e1]
    refine ⟨0, [], rfl, h.root, List.nil_suffix, hroot, ?_⟩
    intro w hw hm
    rcases List.suffix_concat_iff.mp hw with rfl | ⟨t, rfl, ht⟩
    · simp
    · exact absurd hm (e2 t ht)

/-- The goto function as a function on node indices. -/
def gotoN (nodes : List (ACNode α)) (v : Nat) (a : α) : Nat := (KMP.getOk (acGoto nodes v a)).toNat

theorem gotoN_spec (hL : Linked pats nodes paths) (v : Nat) (x : List α) (hv : paths[v]? = some x) (a : α) :
    acGoto nodes v a = .ok (nat (gotoN nodes v a)) ∧
    ∃ y, paths[gotoN nodes v a]? = some y ∧ IsLongest paths (x ++ [a]) y := by
  obtain ⟨g, y, h1, h2, h3⟩ := acGoto_spec hL v x hv a
  have : gotoN nodes v a = g := by
    unfold gotoN; rw [h1]; simp only [KMP.getOk]; rw [nat_cast]; omega
  rw [this]
  exact ⟨h1, y, h2, h3⟩

end goto

/-! ### the second BFS -/

section trans
variable {pats : List (List α)} {nodes : List (ACNode α)} {paths : List (List α)}
variable (syms : List α)

/-- The row of node `v`. -/
def acRow (nodes : List (ACNode α)) (v : Nat) : List (α × Int) :=
  rowOf syms fun a => nat (gotoN nodes v a)

theorem rowOfM_goto (hL : Linked pats nodes paths) (v : Nat) (x : List α) (hv : paths[v]? = some x) :
    rowOfM (acGoto nodes v) syms = .ok (acRow syms nodes v) := by
  rw [KMP.rowOfM_ok (acGoto nodes v) syms (fun a _ => ⟨_, (gotoN_spec hL v x hv a).1⟩)]
  unfold acRow
  congr 2
  funext a
  rw [(gotoN_spec hL v x hv a).1]; rfl

/-- The nodes the second BFS reaches (it only follows symbols of the alphabet): those whose
string is over the alphabet.  A pattern with a symbol outside the alphabet leaves trie nodes
that have a label but are never visited (no row). -/
def Vis (paths : List (List α)) (v : Nat) : Prop := ∃ x, paths[v]? = some x ∧ Over syms x

theorem over_of_suffix {w y : List α} (hw : Over syms w) (h : y <:+ w) : Over syms y :=
  fun a ha => hw a (h.subset ha)

/-- Invariant of the second BFS. -/
structure TInv (pats : List (List α)) (nodes : List (ACNode α)) (paths : List (List α))
    (queue visited : List Nat) (acc : List (Int × List (α × Int)) × List Int) : Prop where
  nodup : (queue ++ visited).Nodup
  inrange : ∀ v ∈ queue ++ visited, v < nodes.length
  vis : ∀ v ∈ queue ++ visited, Vis syms paths v
  keys : ∀ q : Int, q ∈ akeys acc.1 ↔ ∃ v ∈ visited, q = nat v
  keysNodup : (akeys acc.1).Nodup
  rows : ∀ v ∈ visited, alookup (nat v) acc.1 = some (acRow syms nodes v)
  finals : ∀ q : Int, q ∈ acc.2 ↔ ∃ v ∈ visited, q = nat v ∧ (acGet nodes v).out ≠ []
  root : 0 ∈ queue ++ visited
  closed : ∀ u ∈ visited, ∀ a ∈ syms, ∀ (c : Nat), alookup a (acGet nodes u).succ = some c → c ∈ queue ++ visited
  origin : ∀ v ∈ queue ++ visited, v = 0 ∨ ∃ u ∈ visited, ∃ a : α, alookup a (acGet nodes u).succ = some v

theorem filterMap_children (hL : Linked pats nodes paths) (hsyms : syms.Nodup)
    (cur : Nat) (x : List α) (hcur : paths[cur]? = some x) :
    (syms.filterMap fun a => alookup a (acGet nodes cur).succ).Nodup ∧
    ∀ c, c ∈ (syms.filterMap fun a => alookup a (acGet nodes cur).succ) ↔
      ∃ a ∈ syms, alookup a (acGet nodes cur).succ = some c := by
  have h := hL.trie
  constructor
  · -- distinct symbols lead to distinct children
    have : ∀ (l : List α), l.Nodup → (l.filterMap fun a => alookup a (acGet nodes cur).succ).Nodup := by
      intro l
      induction l with
      | nil => intro _; simp
      | cons a l ih =>
        intro hnd
        rw [List.nodup_cons] at hnd
        rw [List.filterMap_cons]
        cases hl : alookup a (acGet nodes cur).succ with
        | none => exact ih hnd.2
        | some c =>
          simp only
          rw [List.nodup_cons]
          refine ⟨?_, ih hnd.2⟩
          intro hc
          rw [List.mem_filterMap] at hc
          obtain ⟨b, hb, hbc⟩ := hc
          have p1 := (h.child cur x a c hcur).mp hl
          have p2 := (h.child cur x b c hcur).mp hbc
          rw [p1] at p2
          have := (snoc_inj (Option.some.inj p2)).2
          rw [this] at hnd
          exact hnd.1 hb
    exact this syms hsyms
  · intro c
    rw [List.mem_filterMap]

theorem tbfs_step (hL : Linked pats nodes paths) (hsyms : syms.Nodup)
    {cur : Nat} {rest visited : List Nat}
    {acc : List (Int × List (α × Int)) × List Int}
    (inv : TInv syms pats nodes paths (cur :: rest) visited acc) :
    rowOfM (acGoto nodes cur) syms = .ok (acRow syms nodes cur) ∧
    TInv syms pats nodes paths (rest ++ syms.filterMap fun a => alookup a (acGet nodes cur).succ)
      (cur :: visited)
      (ainsert (nat cur) (acRow syms nodes cur) acc.1,
        if (acGet nodes cur).out.isEmpty then acc.2 else sinsert (nat cur) acc.2) := by
  have h := hL.trie
  have hcurmem : cur ∈ (cur :: rest) ++ visited := by simp
  have hcurlt := inv.inrange cur hcurmem
  obtain ⟨x, hcur, hxover⟩ := inv.vis cur hcurmem
  obtain ⟨hknd, hkmem⟩ := filterMap_children syms hL hsyms cur x hcur
  refine ⟨rowOfM_goto syms hL cur x hcur, ?_⟩
  have hnd := inv.nodup
  have hnd0 := hnd
  rw [List.nodup_append] at hnd
  obtain ⟨hq, hvis, hdisj⟩ := hnd
  rw [List.nodup_cons] at hq
  have hcur_nv : cur ∉ visited := fun hh => hdisj cur (by simp) cur hh rfl
  -- children are new
  have hfresh : ∀ c, (∃ a, alookup a (acGet nodes cur).succ = some c) → c ∉ (cur :: rest) ++ visited := by
    rintro c ⟨a, ha⟩ hmem
    have pc := (h.child cur x a c hcur).mp ha
    rcases inv.origin c hmem with h0 | ⟨u, hu, b, hub⟩
    · rw [h0, h.root] at pc
      have := Option.some.inj pc
      simp at this
    · obtain ⟨xu, hxu⟩ : ∃ xu, paths[u]? = some xu := by
        have : u < paths.length := by rw [h.len]; exact inv.inrange u (by simp [hu])
        exact ⟨paths[u], List.getElem?_eq_getElem this⟩
      have p1 := (h.child u xu b c hxu).mp hub
      rw [pc] at p1
      have := (snoc_inj (Option.some.inj p1)).1
      rw [← this] at hxu
      have : u = cur := h.inj u cur x hxu hcur
      rw [this] at hu
      exact hcur_nv hu
  have hmem_new : ∀ v, v ∈ (rest ++ syms.filterMap fun a => alookup a (acGet nodes cur).succ) ++ (cur :: visited) ↔
      v ∈ (cur :: rest) ++ visited ∨ ∃ a ∈ syms, alookup a (acGet nodes cur).succ = some v := by
    intro v
    simp only [List.mem_append, List.mem_cons, hkmem]
    constructor
    · rintro ((h1 | h1) | (h1 | h1))
      · exact Or.inl (Or.inl (Or.inr h1))
      · exact Or.inr h1
      · exact Or.inl (Or.inl (Or.inl h1))
      · exact Or.inl (Or.inr h1)
    · rintro (((h1 | h1) | h1) | h1)
      · exact Or.inr (Or.inl h1)
      · exact Or.inl (Or.inl h1)
      · exact Or.inr (Or.inr h1)
      · exact Or.inl (Or.inr h1)
  have hkeynew : nat cur ∉ akeys acc.1 := by
    intro hk
    obtain ⟨v, hv, e⟩ := (inv.keys _).mp hk
    rw [nat_inj.mp e] at hcur_nv
    exact hcur_nv hv
  have hkid : ∀ c, (∃ a ∈ syms, alookup a (acGet nodes cur).succ = some c) →
      ∃ a, alookup a (acGet nodes cur).succ = some c := fun c ⟨a, _, ha⟩ => ⟨a, ha⟩
  refine
    { nodup := ?_
      inrange := ?_
      vis := ?_
      keys := ?_
      keysNodup := nodup_akeys_ainsert inv.keysNodup
      rows := ?_
      finals := ?_
      root := (hmem_new 0).mpr (Or.inl inv.root)
      closed := ?_
      origin := ?_ }
  · rw [List.nodup_append]
    refine ⟨?_, ?_, ?_⟩
    · rw [List.nodup_append]
      refine ⟨hq.2, hknd, ?_⟩
      intro a ha b hb e
      subst e
      exact hfresh a (hkid a ((hkmem a).mp hb)) (List.mem_append_left _ (List.mem_cons_of_mem _ ha))
    · rw [List.nodup_cons]; exact ⟨hcur_nv, hvis⟩
    · intro a ha b hb e
      subst e
      rcases List.mem_append.mp ha with h2 | h2
      · rcases List.mem_cons.mp hb with h3 | h3
        · rw [h3] at h2; exact hq.1 h2
        · exact hdisj a (List.mem_cons_of_mem _ h2) a h3 rfl
      · apply hfresh a (hkid a ((hkmem a).mp h2))
        rcases List.mem_cons.mp hb with h3 | h3
        · rw [h3]; simp
        · exact List.mem_append_right _ h3
  · intro v hv
    rcases (hmem_new v).mp hv with h1 | ⟨a, _, ha⟩
    · exact inv.inrange v h1
    · have := lt_of_getElem? ((h.child cur x a v hcur).mp ha)
      rw [h.len] at this; exact this
  · intro v hv
    rcases (hmem_new v).mp hv with h1 | ⟨a, has, ha⟩
    · exact inv.vis v h1
    · refine ⟨x ++ [a], (h.child cur x a v hcur).mp ha, ?_⟩
      rw [over_append]
      exact ⟨hxover, by simpa using has⟩
  · intro q
    simp only
    rw [mem_akeys_ainsert, inv.keys]
    constructor
    · rintro (h1 | ⟨v, hv, e⟩)
      · exact ⟨cur, by simp, h1⟩
      · exact ⟨v, List.mem_cons_of_mem _ hv, e⟩
    · rintro ⟨v, hv, e⟩
      rcases List.mem_cons.mp hv with rfl | h1
      · exact Or.inl e
      · exact Or.inr ⟨v, h1, e⟩
  · intro v hv
    simp only
    rw [alookup_ainsert]
    rcases List.mem_cons.mp hv with rfl | h1
    · simp
    · have : ¬ nat cur = nat v := by
        intro e; rw [nat_inj.mp e] at hcur_nv; exact hcur_nv h1
      simp only [this, if_false]
      exact inv.rows v h1
  · intro q
    simp only
    by_cases he : (acGet nodes cur).out.isEmpty = true
    · simp only [he, if_true]
      rw [inv.finals]
      have hout : (acGet nodes cur).out = [] := List.isEmpty_iff.mp he
      constructor
      · rintro ⟨v, hv, e1, e2⟩; exact ⟨v, List.mem_cons_of_mem _ hv, e1, e2⟩
      · rintro ⟨v, hv, e1, e2⟩
        rcases List.mem_cons.mp hv with rfl | h1
        · exact absurd hout e2
        · exact ⟨v, h1, e1, e2⟩
    · have hout : (acGet nodes cur).out ≠ [] := fun e => he (List.isEmpty_iff.mpr e)
      simp only [he, Bool.false_eq_true, if_false]
      rw [mem_sinsert, inv.finals]
      constructor
      · rintro (h1 | ⟨v, hv, e1, e2⟩)
        · exact ⟨cur, by simp, h1, hout⟩
        · exact ⟨v, List.mem_cons_of_mem _ hv, e1, e2⟩
      · rintro ⟨v, hv, e1, e2⟩
        rcases List.mem_cons.mp hv with rfl | h1
        · exact Or.inl e1
        · exact Or.inr ⟨v, h1, e1, e2⟩
  · intro u hu a has c hc
    rcases List.mem_cons.mp hu with rfl | h1
    · exact (hmem_new c).mpr (Or.inr ⟨a, has, hc⟩)
    · exact (hmem_new c).mpr (Or.inl (inv.closed u h1 a has c hc))
  · intro v hv
    rcases (hmem_new v).mp hv with h1 | ⟨a, _, ha⟩
    · rcases inv.origin v h1 with h0 | ⟨u, hu, b, hub⟩
      · exact Or.inl h0
      · exact Or.inr ⟨u, List.mem_cons_of_mem _ hu, b, hub⟩
    · exact Or.inr ⟨cur, by simp, a, ha⟩

theorem count_range {l : List Nat} {n : Nat} (hnd : l.Nodup) (h : ∀ v ∈ l, v < n) : l.length ≤ n := by
  have hsub : ∀ v ∈ l, v ∈ List.range n := fun v hv => List.mem_range.mpr (h v hv)
  have := List.Nodup.length_le_of_subset hnd hsub
  simpa using this

theorem tbfs_loop (hL : Linked pats nodes paths) (hsyms : syms.Nodup) :
    ∀ (fuel : Nat) (queue visited : List Nat)
    (acc : List (Int × List (α × Int)) × List Int), TInv syms pats nodes paths queue visited acc →
    nodes.length + 1 ≤ fuel + visited.length →
    ∃ acc' visited', acTransBfs syms nodes fuel queue acc = .ok acc' ∧
      TInv syms pats nodes paths [] visited' acc' := by
  intro fuel
  induction fuel with
  | zero =>
    intro queue visited acc inv hf
    cases queue with
    | nil => exact ⟨acc, visited, rfl, inv⟩
    | cons cur rest =>
      exfalso
      have := count_range inv.nodup inv.inrange
      simp only [List.length_append, List.length_cons] at this
      omega
  | succ f ih =>
    intro queue visited acc inv hf
    cases queue with
    | nil => exact ⟨acc, visited, rfl, inv⟩
    | cons cur rest =>
      obtain ⟨h1, inv1⟩ := tbfs_step syms hL hsyms inv
      unfold acTransBfs
      simp only
      rw [h1]
      simp only
      exact ih _ _ _ inv1 (by simp only [List.length_cons]; omega)

/-- Result of the second BFS: the table has exactly one row per node whose string is over the
alphabet (all nodes when the patterns are over the alphabet), the goto row, and the final set
marks those of them that have a non-empty output chain. -/
structure Tabulated (pats : List (List α)) (nodes : List (ACNode α)) (paths : List (List α))
    (acc : List (Int × List (α × Int)) × List Int) : Prop where
  keys : ∀ q : Int, q ∈ akeys acc.1 ↔ ∃ v, Vis syms paths v ∧ q = nat v
  keysNodup : (akeys acc.1).Nodup
  rows : ∀ v, Vis syms paths v → alookup (nat v) acc.1 = some (acRow syms nodes v)
  finals : ∀ q : Int, q ∈ acc.2 ↔ ∃ v, Vis syms paths v ∧ q = nat v ∧ (acGet nodes v).out ≠ []

theorem tabulated_of_final (hL : Linked pats nodes paths) {visited : List Nat}
    {acc : List (Int × List (α × Int)) × List Int}
    (inv : TInv syms pats nodes paths [] visited acc) : Tabulated syms pats nodes paths acc := by
  have h := hL.trie
  -- every node whose string is over the alphabet has been visited
  have hall : ∀ (n : Nat) (v : Nat) (x : List α), x.length = n → paths[v]? = some x → Over syms x →
      v ∈ visited := by
    intro n
    induction n with
    | zero =>
      intro v x hx hv _
      have : x = [] := List.eq_nil_of_length_eq_zero hx
      subst this
      have : v = 0 := h.inj v 0 [] hv h.root
      subst this
      simpa using inv.root
    | succ n ih =>
      intro v x hx hv hov
      have hne : x ≠ [] := by intro e; rw [e] at hx; simp at hx
      obtain ⟨y, b, rfl⟩ : ∃ y b, x = y ++ [b] :=
        ⟨x.dropLast, x.getLast hne, (List.dropLast_concat_getLast hne).symm⟩
      rw [over_append] at hov
      obtain ⟨u, hu⟩ := h.pclosed v y b hv
      have hud : u ∈ visited := ih u y (by simp at hx; omega) hu hov.1
      have hb : b ∈ syms := by simpa using hov.2
      simpa using inv.closed u hud b hb v ((h.child u y b v hu).mpr hv)
  have hvis : ∀ v, Vis syms paths v → v ∈ visited := by
    rintro v ⟨x, hx, hov⟩
    exact hall _ v x rfl hx hov
  have hvis' : ∀ v ∈ visited, Vis syms paths v := fun v hv => inv.vis v (by simpa using hv)
  refine ⟨?_, inv.keysNodup, fun v hv => inv.rows v (hvis v hv), ?_⟩
  · intro q
    rw [inv.keys]
    constructor
    · rintro ⟨v, hv, e⟩; exact ⟨v, hvis' v hv, e⟩
    · rintro ⟨v, hv, e⟩; exact ⟨v, hvis v hv, e⟩
  · intro q
    rw [inv.finals]
    constructor
    · rintro ⟨v, hv, e1, e2⟩; exact ⟨v, hvis' v hv, e1, e2⟩
    · rintro ⟨v, hv, e1, e2⟩; exact ⟨v, hvis v hv, e1, e2⟩

/-- **Phase 3.** -/
theorem acTransBfs_spec (hL : Linked pats nodes paths) (hsyms : syms.Nodup) :
    ∃ acc, acTransBfs syms nodes (nodes.length + 1) [0] ([], []) = .ok acc ∧
      Tabulated syms pats nodes paths acc := by
  have inv0 : TInv syms pats nodes paths [0] [] (([] : List (Int × List (α × Int))), ([] : List Int)) := by
    refine ⟨by simp, ?_, ?_, ?_, by simp [akeys], (fun v hv => nomatch hv), ?_, by simp,
      (fun u hu => nomatch hu), ?_⟩
    · intro v hv
      simp only [List.append_nil, List.mem_singleton] at hv
      rw [hv]; exact hL.trie.pos
    · intro v hv
      simp only [List.append_nil, List.mem_singleton] at hv
      rw [hv]; exact ⟨[], hL.trie.root, over_nil syms⟩
    · intro q; simp [akeys]
    · intro q; simp
    · intro v hv
      simp only [List.append_nil, List.mem_singleton] at hv
      exact Or.inl hv
  obtain ⟨acc, visited, h1, inv⟩ := tbfs_loop syms hL hsyms (nodes.length + 1) [0] [] _ inv0 (by simp)
  exact ⟨acc, h1, tabulated_of_final syms hL inv⟩

end trans

end AV.Ctor.AC
