/-
Proofs/RxPath.lean — paths in an ε-automaton given by a step relation, languages as
predicates on words, and the two proof principles every builder operation uses:

* soundness  (`Path.sound`): assign a language `D s` to every state such that final states
  contain `[]` and every edge `s —a→ t` satisfies `a · D t ⊆ D s`; then everything accepted
  from `s` lies in `D s`;
* completeness: construct paths (`Path.trans`, `Path.mono`).

Core only.
-/
import AutomataVerif.Proofs.RxAList

namespace AV.Rx

set_option linter.unusedSectionVars false

variable {σ α : Type}

/-- `Path step q w r`: the automaton can go from `q` to `r` reading `w` (`none`-steps read
nothing). -/
inductive Path (step : σ → Option α → σ → Prop) : σ → List α → σ → Prop
  | nil (q : σ) : Path step q [] q
  | eps {q t r : σ} {w : List α} : step q none t → Path step t w r → Path step q w r
  | sym {q t r : σ} {a : α} {w : List α} : step q (some a) t → Path step t w r →
      Path step q (a :: w) r

namespace Path
variable {step step' : σ → Option α → σ → Prop}

theorem trans {q r s : σ} {u v : List α} (h1 : Path step q u r) (h2 : Path step r v s) :
    Path step q (u ++ v) s := by
  induction h1 with
  | nil => simpa using h2
  | eps hs _ ih => exact Path.eps hs (ih h2)
  | sym hs _ ih => exact Path.sym hs (ih h2)

theorem mono (h : ∀ q a t, step q a t → step' q a t) {q r : σ} {w : List α}
    (hp : Path step q w r) : Path step' q w r := by
  induction hp with
  | nil => exact Path.nil _
  | eps hs _ ih => exact Path.eps (h _ _ _ hs) ih
  | sym hs _ ih => exact Path.sym (h _ _ _ hs) ih

theorem single_eps {q t : σ} (h : step q none t) : Path step q [] t := Path.eps h (Path.nil _)

theorem single_sym {q t : σ} {a : α} (h : step q (some a) t) : Path step q [a] t :=
  Path.sym h (Path.nil _)

theorem snoc_eps {q r t : σ} {w : List α} (hp : Path step q w r) (h : step r none t) :
    Path step q w t := by
  simpa using hp.trans (single_eps h)

/-- Image of a path under a map of states that preserves edges. -/
theorem map {τ : Type} {step2 : τ → Option α → τ → Prop} (f : σ → τ)
    (h : ∀ q a t, step q a t → step2 (f q) a (f t)) {q r : σ} {w : List α}
    (hp : Path step q w r) : Path step2 (f q) w (f r) := by
  induction hp with
  | nil => exact Path.nil _
  | eps hs _ ih => exact Path.eps (h _ _ _ hs) ih
  | sym hs _ ih => exact Path.sym (h _ _ _ hs) ih

/-- Backward invariant: a family of languages `D` that contains `[]` at final states and is
closed under reading an edge backwards contains everything accepted. -/
theorem sound {Fin : σ → Prop} {D : σ → List α → Prop}
    (hfin : ∀ s, Fin s → D s [])
    (heps : ∀ s t w, step s none t → D t w → D s w)
    (hsym : ∀ s a t w, step s (some a) t → D t w → D s (a :: w))
    {s f : σ} {w : List α} (hp : Path step s w f) (hf : Fin f) : D s w := by
  induction hp with
  | nil => exact hfin _ hf
  | eps hs _ ih => exact heps _ _ _ hs (ih hf)
  | sym hs _ ih => exact hsym _ _ _ _ hs (ih hf)

/-- A set of states closed under the step relation is never left. -/
theorem closed {S : σ → Prop} (hS : ∀ q a t, S q → step q a t → S t) {q r : σ} {w : List α}
    (hp : Path step q w r) (hq : S q) : S r := by
  induction hp with
  | nil => exact hq
  | eps hs _ ih => exact ih (hS _ _ _ hq hs)
  | sym hs _ ih => exact ih (hS _ _ _ hq hs)

/-- A path reading nothing uses ε-edges only; it can be transported along any map of states that
preserves ε-edges. -/
theorem eps_lift {τ : Type} {step2 : τ → Option α → τ → Prop} (f : σ → τ)
    (h : ∀ q t, step q none t → step2 (f q) none (f t)) {p r : σ}
    (hp : Path step p [] r) : Path step2 (f p) [] (f r) := by
  generalize hw : ([] : List α) = w at hp
  induction hp with
  | nil => exact Path.nil _
  | eps hs _ ih => exact Path.eps (h _ _ hs) (ih hw)
  | sym hs _ ih => cases hw

/-- A path reading `a :: u` consists of ε-edges, then an `a`-edge, then a path reading `u`. -/
theorem split_cons {p r : σ} {a : α} {u : List α} (hp : Path step p (a :: u) r) :
    ∃ p1 p2, Path step p [] p1 ∧ step p1 (some a) p2 ∧ Path step p2 u r := by
  generalize hw : a :: u = w at hp
  induction hp with
  | nil => cases hw
  | eps hs _ ih =>
    obtain ⟨p1, p2, h1, h2, h3⟩ := ih hw
    exact ⟨p1, p2, Path.eps hs h1, h2, h3⟩
  | sym hs hrest _ =>
    cases hw
    exact ⟨_, _, Path.nil _, hs, hrest⟩

end Path

/-- Words accepted from state `q`. -/
def Acc (step : σ → Option α → σ → Prop) (Fin : σ → Prop) (q : σ) (w : List α) : Prop :=
  ∃ f, Fin f ∧ Path step q w f

namespace Acc
variable {step : σ → Option α → σ → Prop} {Fin : σ → Prop}

theorem of_final {q : σ} (h : Fin q) : Acc step Fin q [] := ⟨q, h, Path.nil _⟩

theorem eps {q t : σ} {w : List α} (h : step q none t) (ha : Acc step Fin t w) :
    Acc step Fin q w := by
  obtain ⟨f, hf, hp⟩ := ha; exact ⟨f, hf, Path.eps h hp⟩

theorem sym {q t : σ} {a : α} {w : List α} (h : step q (some a) t) (ha : Acc step Fin t w) :
    Acc step Fin q (a :: w) := by
  obtain ⟨f, hf, hp⟩ := ha; exact ⟨f, hf, Path.sym h hp⟩

theorem prepend {q r : σ} {u v : List α} (hp : Path step q u r) (ha : Acc step Fin r v) :
    Acc step Fin q (u ++ v) := by
  obtain ⟨f, hf, hp2⟩ := ha; exact ⟨f, hf, hp.trans hp2⟩

end Acc

/-! ### languages as predicates (core-only counterparts of Mathlib's `Language` operations;
`Props/C10.lean` states the theorems with Mathlib's and `Proofs/RxDen.lean` links the two) -/

def LCat (L M : List α → Prop) : List α → Prop := fun w => ∃ u v, L u ∧ M v ∧ w = u ++ v

def LPow (L : List α → Prop) : Nat → List α → Prop
  | 0 => fun w => w = []
  | k + 1 => LCat L (LPow L k)

def LStar (L : List α → Prop) : List α → Prop := fun w => ∃ k, LPow L k w

/-- `Interleave u v w`: `w` is an interleaving (shuffle) of `u` and `v`. -/
inductive Interleave : List α → List α → List α → Prop
  | nil : Interleave [] [] []
  | left (a : α) {u v w : List α} : Interleave u v w → Interleave (a :: u) v (a :: w)
  | right (a : α) {u v w : List α} : Interleave u v w → Interleave u (a :: v) (a :: w)

def LShuffle (L M : List α → Prop) : List α → Prop :=
  fun w => ∃ u v, L u ∧ M v ∧ Interleave u v w

theorem LPow_add {L : List α → Prop} {j k : Nat} {u v : List α} (hu : LPow L j u)
    (hv : LPow L k v) : LPow L (j + k) (u ++ v) := by
  induction j generalizing u with
  | zero => simp only [LPow] at hu; subst hu; simpa using hv
  | succ j ih =>
    obtain ⟨x, y, hx, hy, rfl⟩ := hu
    have : j + 1 + k = (j + k) + 1 := by omega
    rw [this]
    exact ⟨x, y ++ v, hx, ih hy, by simp⟩

theorem LPow_one {L : List α → Prop} {u : List α} (hu : L u) : LPow L 1 u :=
  ⟨u, [], hu, rfl, by simp⟩

theorem LPow_succ_right {L : List α → Prop} {k : Nat} {u v : List α} (hu : LPow L k u)
    (hv : L v) : LPow L (k + 1) (u ++ v) :=
  LPow_add hu (LPow_one hv)

theorem Interleave.nil_left (v : List α) : Interleave [] v v := by
  induction v with
  | nil => exact .nil
  | cons a v ih => exact .right a ih

theorem Interleave.nil_right (u : List α) : Interleave u [] u := by
  induction u with
  | nil => exact .nil
  | cons a u ih => exact .left a ih

end AV.Rx
