/-
Proofs/Rename.lean — renaming the states of a DFA through a function that is injective on
the names that occur (states and row keys) changes neither the verdict on any word nor
validity (core only).  Instance: `renumber` (= `get_renaming_function(count(0))`, the BFS
discovery index), used by every `retain_names=False` path of `_expand_dfa`.
-/
import AutomataVerif.Proofs.Read
import AutomataVerif.Proofs.PyShape
import AutomataVerif.Model.DFAOps

namespace AV
namespace C04
open DFA

set_option linter.unusedSectionVars false

variable {σ τ α : Type} [DecidableEq σ] [DecidableEq τ] [DecidableEq α]

/-- `f` is injective on the elements of `l`. -/
def InjOn (f : σ → τ) (l : List σ) : Prop := ∀ x ∈ l, ∀ y ∈ l, f x = f y → x = y

theorem InjOn.mono {f : σ → τ} {l m : List σ} (h : InjOn f l) (hsub : ∀ x ∈ m, x ∈ l) : InjOn f m :=
  fun x hx y hy e => h x (hsub x hx) y (hsub y hy) e

theorem nodup_map_of_injOn {f : σ → τ} {l : List σ} (hinj : InjOn f l) (hnd : l.Nodup) :
    (l.map f).Nodup := by
  induction l with
  | nil => simp
  | cons x t ih =>
    rw [List.map_cons, List.nodup_cons]
    rw [List.nodup_cons] at hnd
    refine ⟨?_, ih (hinj.mono fun y hy => List.mem_cons_of_mem _ hy) hnd.2⟩
    intro hmem
    obtain ⟨y, hy, hfy⟩ := List.mem_map.mp hmem
    have : y = x := hinj y (List.mem_cons_of_mem _ hy) x (by simp) hfy
    subst this
    exact hnd.1 hy

theorem mem_map_of_injOn {f : σ → τ} {l m : List σ} {x : σ} (hinj : InjOn f l)
    (hm : ∀ y ∈ m, y ∈ l) (hx : x ∈ l) : f x ∈ m.map f ↔ x ∈ m := by
  constructor
  · intro h
    obtain ⟨y, hy, hfy⟩ := List.mem_map.mp h
    have : y = x := hinj y (hm y hy) x hx hfy
    exact this ▸ hy
  · exact fun h => List.mem_map.mpr ⟨x, h, rfl⟩

/-- Looking up a renamed key in a dict whose keys were renamed injectively. -/
theorem alookup_map_key {β γ : Type} (f : σ → τ) (g : β → γ) (l : List (σ × β)) {L : List σ}
    (hinj : InjOn f L) (hl : ∀ k ∈ akeys l, k ∈ L) {k : σ} (hk : k ∈ L) :
    alookup (f k) (l.map fun kv => (f kv.1, g kv.2)) = (alookup k l).map g := by
  induction l with
  | nil => rfl
  | cons kv t ih =>
    obtain ⟨k', v⟩ := kv
    have hk' : k' ∈ L := hl k' (by simp [akeys])
    have ht : ∀ k ∈ akeys t, k ∈ L := fun x hx => hl x (by
      simp only [akeys, List.map_cons, List.mem_cons] at hx ⊢; exact Or.inr hx)
    simp only [List.map_cons, alookup_cons]
    by_cases e : k' = k
    · subst e; simp
    · have : ¬ f k' = f k := fun h => e (hinj k' hk' k hk h)
      simp only [e, this, if_false]
      exact ih ht

/-- Looking up a key in a row whose values were renamed. -/
theorem alookup_map_val {κ β γ : Type} [DecidableEq κ] (g : β → γ) (r : List (κ × β)) (a : κ) :
    alookup a (r.map fun e => (e.1, g e.2)) = (alookup a r).map g := by
  induction r with
  | nil => rfl
  | cons e t ih =>
    obtain ⟨a', v⟩ := e
    simp only [List.map_cons, alookup_cons]
    by_cases h : a' = a
    · simp [h]
    · simp only [h, if_false]; exact ih

theorem akeys_map_val {κ β γ : Type} (g : β → γ) (r : List (κ × β)) :
    akeys (r.map fun e => (e.1, g e.2)) = akeys r := by
  simp [akeys, List.map_map, Function.comp_def]

theorem avals_map_val {κ β γ : Type} (g : β → γ) (r : List (κ × β)) :
    avals (r.map fun e => (e.1, g e.2)) = (avals r).map g := by
  simp [avals, List.map_map, Function.comp_def]

theorem akeys_map_key {β γ : Type} (f : σ → τ) (g : β → γ) (l : List (σ × β)) :
    akeys (l.map fun kv => (f kv.1, g kv.2)) = (akeys l).map f := by
  simp [akeys, List.map_map, Function.comp_def]

/-- `indexOf · l` is injective on the elements of `l`. -/
theorem indexOf_inj {β : Type} [DecidableEq β] (l : List β) : InjOn (fun x => indexOf x l) l := by
  induction l with
  | nil => intro x hx; cases hx
  | cons z t ih =>
    intro x hx y hy e
    simp only [indexOf] at e
    by_cases hzx : z = x
    · by_cases hzy : z = y
      · exact hzx.symm.trans hzy
      · rw [if_pos hzx, if_neg hzy] at e; omega
    · by_cases hzy : z = y
      · rw [if_neg hzx, if_pos hzy] at e; omega
      · rw [if_neg hzx, if_neg hzy] at e
        have hx' : x ∈ t := by
          rcases List.mem_cons.mp hx with h | h
          · exact absurd h.symm hzx
          · exact h
        have hy' : y ∈ t := by
          rcases List.mem_cons.mp hy with h | h
          · exact absurd h.symm hzy
          · exact h
        exact ih x hx' y hy' (by simpa using e)


/-- The DFA with every state name `q` replaced by `f q`. -/
def _root_.AV.DFA.rename (f : σ → τ) (d : DFA σ α) : DFA τ α :=
  { states := d.states.map f, syms := d.syms,
    trans := d.trans.map fun kv => (f kv.1, kv.2.map fun e => (e.1, f e.2)),
    init := f d.init, finals := d.finals.map f, allowPartial := d.allowPartial }

/-- `renumber` is the renaming by BFS discovery index. -/
theorem renumber_eq_rename (d : DFA σ α) :
    d.renumber = d.rename (fun s => indexOf s d.states) := rfl

variable (f : σ → τ) (d : DFA σ α)

@[simp] theorem rename_syms : (d.rename f).syms = d.syms := rfl
@[simp] theorem rename_allowPartial : (d.rename f).allowPartial = d.allowPartial := rfl

theorem rename_keys : akeys (d.rename f).trans = (akeys d.trans).map f := by
  simp only [rename]; exact akeys_map_key f _ d.trans

/-- Renaming preserves well-formedness (no injectivity needed). -/
theorem rename_wf {d : DFA σ α} (wf : d.WF) : (d.rename f).WF := by
  refine ⟨?_, ?_, ?_, ?_, ?_, ?_⟩
  · intro q' hq'
    obtain ⟨q, hq, rfl⟩ := List.mem_map.mp hq'
    rw [rename_keys]
    exact List.mem_map.mpr ⟨q, wf.rows q hq, rfl⟩
  · intro hp kv' hkv' a ha
    obtain ⟨kv, hkv, rfl⟩ := List.mem_map.mp hkv'
    simp only
    rw [akeys_map_val]
    exact wf.complete hp kv hkv a ha
  · intro kv' hkv' a ha
    obtain ⟨kv, hkv, rfl⟩ := List.mem_map.mp hkv'
    simp only at ha
    rw [akeys_map_val] at ha
    exact wf.symsOk kv hkv a ha
  · intro kv' hkv' q' hq'
    obtain ⟨kv, hkv, rfl⟩ := List.mem_map.mp hkv'
    simp only at hq'
    rw [avals_map_val] at hq'
    obtain ⟨q, hq, rfl⟩ := List.mem_map.mp hq'
    exact List.mem_map.mpr ⟨q, wf.tgtOk kv hkv q hq, rfl⟩
  · exact List.mem_map.mpr ⟨d.init, wf.initOk, rfl⟩
  · intro q' hq'
    obtain ⟨q, hq, rfl⟩ := List.mem_map.mp hq'
    exact List.mem_map.mpr ⟨q, wf.finalsOk q hq, rfl⟩

theorem rename_valid {d : DFA σ α} (h : d.validate = .ok ()) : (d.rename f).validate = .ok () :=
  (validate_eq_ok _).mpr (rename_wf f ((validate_eq_ok d).mp h))

/-- Renaming injectively on the occurring names keeps the value duplicate-free. -/
theorem rename_pyShape {d : DFA σ α} (wf : d.WF) (p : d.PyShape)
    (hinj : InjOn f (d.states ++ akeys d.trans)) : (d.rename f).PyShape := by
  refine ⟨?_, p.syms_nodup, ?_, ?_, ?_⟩
  · exact nodup_map_of_injOn (hinj.mono fun x hx => List.mem_append_left _ hx) p.states_nodup
  · exact nodup_map_of_injOn
      (hinj.mono fun x hx => List.mem_append_left _ (wf.finalsOk x hx)) p.finals_nodup
  · rw [rename_keys]
    exact nodup_map_of_injOn (hinj.mono fun x hx => List.mem_append_right _ hx) p.keys_nodup
  · intro kv' hkv'
    obtain ⟨kv, hkv, rfl⟩ := List.mem_map.mp hkv'
    simp only
    rw [akeys_map_val]
    exact p.rows_nodup kv hkv

theorem rename_row {d : DFA σ α} (hinj : InjOn f (d.states ++ akeys d.trans)) {q : σ}
    (hq : q ∈ d.states) : (d.rename f).row (f q) = (d.row q).map fun e => (e.1, f e.2) := by
  simp only [row, row?, rename]
  rw [alookup_map_key f (fun r : List (α × σ) => r.map fun e => (e.1, f e.2)) d.trans hinj
    (fun k hk => List.mem_append_right _ hk) (List.mem_append_left _ hq)]
  cases alookup q d.trans <;> rfl

theorem rename_step? {d : DFA σ α} (hinj : InjOn f (d.states ++ akeys d.trans)) {s : Option σ}
    (hs : d.Good s) (a : α) : (d.rename f).step? (s.map f) a = (d.step? s a).map f := by
  cases s with
  | none => rfl
  | some q =>
    simp only [Option.map_some, step?]
    rw [rename_row f hinj hs, alookup_map_val]

theorem rename_run {d : DFA σ α} (wf : d.WF) (hinj : InjOn f (d.states ++ akeys d.trans))
    (w : List α) : ∀ s, d.Good s → (d.rename f).run (s.map f) w = (d.run s w).map f := by
  induction w with
  | nil => intro s _; rfl
  | cons a w ih =>
    intro s hs
    rw [run_cons, run_cons, rename_step? f hinj hs, ih _ (good_step wf a hs)]

theorem good_run {d : DFA σ α} (wf : d.WF) {s : Option σ} (hs : d.Good s) (w : List α) :
    d.Good (d.run s w) := by
  induction w generalizing s with
  | nil => exact hs
  | cons a w ih => rw [run_cons]; exact ih (good_step wf a hs)

theorem rename_isFinal {d : DFA σ α} (wf : d.WF) (hinj : InjOn f (d.states ++ akeys d.trans))
    {s : Option σ} (hs : d.Good s) : (d.rename f).isFinal (s.map f) = d.isFinal s := by
  cases s with
  | none => rfl
  | some q =>
    simp only [Option.map_some, isFinal, rename]
    have := mem_map_of_injOn (f := f) (l := d.states ++ akeys d.trans) (m := d.finals) (x := q) hinj
      (fun y hy => List.mem_append_left _ (wf.finalsOk y hy)) (List.mem_append_left _ hs)
    exact decide_eq_decide.mpr this

/-- **Renaming preserves the verdict on every word.** -/
theorem rename_accepts {d : DFA σ α} (wf : d.WF) (hinj : InjOn f (d.states ++ akeys d.trans))
    (w : List α) : (d.rename f).accepts w = d.accepts w := by
  unfold accepts
  have hi : d.Good (some d.init) := wf.initOk
  have := rename_run f wf hinj w (some d.init) hi
  simp only [Option.map_some] at this
  change (d.rename f).isFinal ((d.rename f).run (some (f d.init)) w) = _
  rw [this]
  exact rename_isFinal f wf hinj (good_run wf hi w)

/-! ### `renumber` -/

theorem renumber_injOn {S : Type} [DecidableEq S] (d : DFA S α) (hk : ∀ k ∈ akeys d.trans, k ∈ d.states) :
    InjOn (fun s => indexOf s d.states) (d.states ++ akeys d.trans) :=
  (indexOf_inj d.states).mono fun x hx => by
    rcases List.mem_append.mp hx with h | h
    · exact h
    · exact hk x h

end C04
end AV
