/-
Proofs/Validate.lean — `validate = ok` ↔ declarative well-formedness, for DFA and NFA.
-/
import AutomataVerif.Proofs.Basic
import AutomataVerif.Model.DFA
import AutomataVerif.Model.NFA

namespace AV

set_option linter.unusedSectionVars false

variable {σ α : Type} [DecidableEq σ] [DecidableEq α]

@[simp] theorem Res.andThen_eq_ok {a b : Res Unit} :
    Res.andThen a b = .ok () ↔ a = .ok () ∧ b = .ok () := by
  cases a with
  | error e => simp [Res.andThen]
  | ok u => simp [Res.andThen]

@[simp] theorem guardE_eq_ok {c : Bool} {e : Exn} : guardE c e = .ok () ↔ c = true := by
  unfold guardE; cases c <;> simp

@[simp] theorem firstErr_eq_ok {β : Type} (l : List β) (f : β → Res Unit) :
    firstErr l f = .ok () ↔ ∀ x ∈ l, f x = .ok () := by
  unfold firstErr
  have key : ∀ (l : List β) (acc : Res Unit),
      l.foldl (fun acc x => Res.andThen acc (f x)) acc = .ok () ↔
        acc = .ok () ∧ ∀ x ∈ l, f x = .ok () := by
    intro l
    induction l with
    | nil => intro acc; simp
    | cons a t ih =>
      intro acc
      rw [List.foldl_cons, ih, Res.andThen_eq_ok]
      simp [and_assoc]
  rw [key]; simp

namespace DFA

/-- Declarative well-formedness of a DFA definition: what `validate` checks. -/
structure WF (d : DFA σ α) : Prop where
  rows : ∀ q ∈ d.states, q ∈ akeys d.trans
  complete : d.allowPartial = false → ∀ kv ∈ d.trans, ∀ a ∈ d.syms, a ∈ akeys kv.2
  symsOk : ∀ kv ∈ d.trans, ∀ a ∈ akeys kv.2, a ∈ d.syms
  tgtOk : ∀ kv ∈ d.trans, ∀ q ∈ avals kv.2, q ∈ d.states
  initOk : d.init ∈ d.states
  finalsOk : ∀ q ∈ d.finals, q ∈ d.states

theorem validateRow_eq_ok (d : DFA σ α) (paths : List (α × σ)) :
    d.validateRow paths = .ok () ↔
      (d.allowPartial = false → ∀ a ∈ d.syms, a ∈ akeys paths) ∧
      (∀ a ∈ akeys paths, a ∈ d.syms) ∧ (∀ q ∈ avals paths, q ∈ d.states) := by
  unfold validateRow
  cases hp : d.allowPartial <;> simp [ahas_iff]

/-- `validate` succeeds exactly on well-formed definitions. -/
theorem validate_eq_ok (d : DFA σ α) : d.validate = .ok () ↔ d.WF := by
  unfold validate validateStartStates
  simp only [Res.andThen_eq_ok, firstErr_eq_ok, validateRow_eq_ok, guardE_eq_ok, ahas_iff,
    decide_eq_true_eq, List.all_eq_true]
  constructor
  · rintro ⟨h1, h2, h3, h4⟩
    exact ⟨h1, fun hp kv hkv => (h2 kv hkv).1 hp, fun kv hkv => (h2 kv hkv).2.1,
      fun kv hkv => (h2 kv hkv).2.2, h3, h4⟩
  · intro wf
    exact ⟨wf.rows, fun kv hkv => ⟨fun hp => wf.complete hp kv hkv, wf.symsOk kv hkv, wf.tgtOk kv hkv⟩,
      wf.initOk, wf.finalsOk⟩

end DFA

namespace NFA

/-- Declarative well-formedness of an NFA definition: what `validate` checks. -/
structure WF (n : NFA σ α) : Prop where
  symsOk : ∀ kv ∈ n.trans, ∀ a, some a ∈ akeys kv.2 → a ∈ n.syms
  tgtOk : ∀ kv ∈ n.trans, ∀ ts ∈ avals kv.2, ∀ q ∈ ts, q ∈ n.states
  initOk : n.init ∈ n.states
  initRow : n.init ∈ akeys n.trans ∨ n.states.length ≤ 1
  finalsOk : ∀ q ∈ n.finals, q ∈ n.states

theorem validateRow_eq_ok (n : NFA σ α) (paths : List (Option α × List σ)) :
    n.validateRow paths = .ok () ↔
      (∀ a, some a ∈ akeys paths → a ∈ n.syms) ∧ (∀ ts ∈ avals paths, ∀ q ∈ ts, q ∈ n.states) := by
  unfold validateRow
  simp only [Res.andThen_eq_ok, firstErr_eq_ok, guardE_eq_ok, decide_eq_true_eq]
  constructor
  · rintro ⟨h1, h2⟩
    exact ⟨fun a ha => by simpa using h1 (some a) ha, h2⟩
  · rintro ⟨h1, h2⟩
    refine ⟨fun a ha => ?_, h2⟩
    cases a with
    | none => rfl
    | some a => simpa using h1 a ha

theorem validate_eq_ok (n : NFA σ α) : n.validate = .ok () ↔ n.WF := by
  unfold validate
  simp only [Res.andThen_eq_ok, firstErr_eq_ok, validateRow_eq_ok, guardE_eq_ok, ahas_iff,
    decide_eq_true_eq, List.all_eq_true, Bool.or_eq_true]
  constructor
  · rintro ⟨h1, h2, h3, h4⟩
    exact ⟨fun kv hkv => (h1 kv hkv).1, fun kv hkv => (h1 kv hkv).2, h2, h3, h4⟩
  · intro wf
    exact ⟨fun kv hkv => ⟨wf.symsOk kv hkv, wf.tgtOk kv hkv⟩, wf.initOk, wf.initRow, wf.finalsOk⟩

end NFA
end AV
