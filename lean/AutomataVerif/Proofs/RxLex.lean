/-
Proofs/RxLex.lean — the lexer on concrete syntax: a string that spells a list of documented
tokens, with blanks (space / tab) anywhere between them, lexes to exactly that list.

`TokText t txt`  : `txt` is a spelling of token `t` (symbols are single non-blank, non-reserved
                   characters; repetition bounds are non-empty ASCII digit strings, with blanks
                   before / after them inside the braces, or omitted);
`Renders ts s`   : `s` is the spellings of `ts` in order with arbitrary blanks in between.
Core only.
-/
import AutomataVerif.Model.RxCompile

namespace AV.Rx

set_option linter.unusedSimpArgs false
set_option linter.unusedVariables false

/-! ### the eleven patterns, evaluated -/

def litMatch (x : Char) (text : List Char) : Option Nat :=
  match text with
  | c :: _ => if c == x then some 1 else none
  | [] => none

theorem matchLen_lp (text : List Char) : matchLen "\\(" text = some (litMatch '(' text) := rfl
theorem matchLen_rp (text : List Char) : matchLen "\\)" text = some (litMatch ')' text) := rfl
theorem matchLen_un (text : List Char) : matchLen "\\|" text = some (litMatch '|' text) := rfl
theorem matchLen_in (text : List Char) : matchLen "\\&" text = some (litMatch '&' text) := rfl
theorem matchLen_sh (text : List Char) : matchLen "\\^" text = some (litMatch '^' text) := rfl
theorem matchLen_st (text : List Char) : matchLen "\\*" text = some (litMatch '*' text) := rfl
theorem matchLen_pl (text : List Char) : matchLen "\\+" text = some (litMatch '+' text) := rfl
theorem matchLen_op (text : List Char) : matchLen "\\?" text = some (litMatch '?' text) := rfl
theorem matchLen_wi (text : List Char) : matchLen "\\." text = some (litMatch '.' text) := rfl
theorem matchLen_S (text : List Char) :
    matchLen "\\S" text =
      some (match text with
            | c :: _ => if isPySpace c then none else some 1
            | [] => none) := rfl
theorem matchLen_q (text : List Char) :
    matchLen "\\{(.*?),(.*?)\\}" text =
      some ((quantGroups text).map fun g => g.1.length + g.2.length + 3) := rfl

/-! ### spellings -/

/-- A character that can be a symbol of a regular expression: not white space, not reserved. -/
def SymChar (c : Char) : Prop := isPySpace c = false ∧ isReserved c = false

/-- A non-empty string of ASCII digits. -/
def Digits (g : List Char) : Prop := g ≠ [] ∧ ∀ c ∈ g, c.isDigit = true

/-- Decimal value of a digit string. -/
def decValue (g : List Char) : Nat := g.foldl (fun acc c => acc * 10 + (c.toNat - '0'.toNat)) 0

/-- Blanks only (space / tab). -/
def Blanks (p : List Char) : Prop := ∀ c ∈ p, isBlank c = true

instance (p : List Char) : Decidable (Blanks p) := by unfold Blanks; infer_instance

/-- `g` is the digit string `d` with blanks before and after it: the text of a repetition bound
between the brace / comma delimiters, as in `a{ 1 , 2 }` (`int()` strips the blanks). -/
def PadDigits (g d : List Char) : Prop :=
  ∃ p q, g = p ++ d ++ q ∧ Blanks p ∧ Blanks q ∧ Digits d

theorem PadDigits.of_digits {d : List Char} (h : Digits d) : PadDigits d d :=
  ⟨[], [], by simp, fun c hc => (by cases hc), fun c hc => (by cases hc), h⟩

inductive TokText : Tok Char → List Char → Prop
  | lparen : TokText .lparen ['(']
  | rparen : TokText .rparen [')']
  | union : TokText .union ['|']
  | inter : TokText .inter ['&']
  | shuffle : TokText .shuffle ['^']
  | star : TokText .star ['*']
  | plus : TokText .plus ['+']
  | opt : TokText .opt ['?']
  | wildcard : TokText .wildcard ['.']
  | sym (c : Char) : SymChar c → TokText (.str [c]) [c]
  /-- `{g1,g2}`: each bound is omitted (empty text — not even a blank) or a digit string with
  blanks around it; an upper bound is at least the lower bound. -/
  | quant (g1 g2 : List Char) (lo : Nat) (hi : Option Nat) :
      ((g1 = [] ∧ lo = 0) ∨ (∃ d, PadDigits g1 d ∧ decValue d = lo)) →
      ((g2 = [] ∧ hi = none) ∨ (∃ d, PadDigits g2 d ∧ hi = some (decValue d) ∧ lo ≤ decValue d)) →
      TokText (.quant lo hi) ('{' :: (g1 ++ ',' :: (g2 ++ ['}'])))

/-- `s` spells the token list `ts`, with blanks anywhere between (before, after) the tokens. -/
inductive Renders : List (Tok Char) → List Char → Prop
  | nil : Renders [] []
  | blank (c : Char) {ts : List (Tok Char)} {s : List Char} :
      isBlank c = true → Renders ts s → Renders ts (c :: s)
  | tok {t : Tok Char} {txt : List Char} {ts : List (Tok Char)} {s : List Char} :
      TokText t txt → Renders ts s → Renders (t :: ts) (txt ++ s)

/-! ### digits -/

theorem isDigit_toNat {c : Char} (h : c.isDigit = true) : 48 ≤ c.toNat ∧ c.toNat ≤ 57 := by
  simp only [Char.isDigit, Bool.and_eq_true, decide_eq_true_eq, ge_iff_le] at h
  obtain ⟨h1, h2⟩ := h
  rw [UInt32.le_iff_toNat_le] at h1 h2
  exact ⟨h1, h2⟩

theorem digit_not_space {c : Char} (h : c.isDigit = true) : isPySpace c = false := by
  have := isDigit_toNat h
  unfold isPySpace
  simp only [Bool.or_eq_false_iff, Bool.and_eq_false_iff, decide_eq_false_iff_not,
    beq_eq_false_iff_ne]
  omega

theorem digit_not_strip {c : Char} (h : c.isDigit = true) : isIntStrip c = false := by
  unfold isIntStrip
  rw [digit_not_space h]; rfl

theorem digit_ne {c : Char} (h : c.isDigit = true) {x : Char} (hx : x.isDigit = false) : c ≠ x := by
  intro e; subst e; rw [h] at hx; cases hx

theorem pyDigits_digits : ∀ (g : List Char) (acc : Nat) (pd : Bool),
    (∀ c ∈ g, c.isDigit = true) → (g ≠ [] ∨ pd = true) →
    pyDigits g acc pd = some (g.foldl (fun acc c => acc * 10 + (c.toNat - '0'.toNat)) acc) := by
  intro g
  induction g with
  | nil =>
    intro acc pd _ h
    rcases h with h | h
    · exact absurd rfl h
    · simp [pyDigits, h]
  | cons c r ih =>
    intro acc pd hd _
    have hc := hd c (by simp)
    simp only [pyDigits, hc, if_true, List.foldl_cons]
    exact ih _ true (fun c' h' => hd c' (List.mem_cons_of_mem _ h')) (Or.inr rfl)

theorem dropWhile_head_false {p : Char → Bool} {c : Char} {r : List Char} (h : p c = false) :
    (c :: r).dropWhile p = c :: r := by
  simp [List.dropWhile, h]

theorem blank_strip {c : Char} (h : isBlank c = true) : isIntStrip c = true := by
  have hc : c = ' ' ∨ c = '\t' := by simpa [isBlank] using h
  rcases hc with rfl | rfl <;> decide

theorem dropWhile_blanks_append {p : List Char} (hp : Blanks p) (r : List Char) :
    (p ++ r).dropWhile isIntStrip = r.dropWhile isIntStrip := by
  induction p with
  | nil => rfl
  | cons c t ih =>
    have hc := blank_strip (hp c (by simp))
    simp only [List.cons_append, List.dropWhile_cons, hc, if_true]
    exact ih (fun c' h' => hp c' (List.mem_cons_of_mem _ h'))

/-- `str.strip()` as `int()` applies it removes the blanks around a digit string. -/
theorem strip_pad {g d : List Char} (h : PadDigits g d) : strip g = d := by
  obtain ⟨p, q, rfl, hp, hq, hne, hd⟩ := h
  unfold strip stripLeft
  have h1 : (p ++ d ++ q).dropWhile isIntStrip = d ++ q := by
    rw [List.append_assoc, dropWhile_blanks_append hp]
    cases d with
    | nil => exact absurd rfl hne
    | cons c r => exact dropWhile_head_false (digit_not_strip (hd c (by simp)))
  rw [h1]
  have hq' : Blanks q.reverse := fun c hc => hq c (List.mem_reverse.mp hc)
  have h2 : (d ++ q).reverse.dropWhile isIntStrip = d.reverse := by
    rw [List.reverse_append, dropWhile_blanks_append hq']
    cases hr : d.reverse with
    | nil => rfl
    | cons c r =>
      have : c ∈ d := by
        have : c ∈ d.reverse := by rw [hr]; simp
        exact List.mem_reverse.mp this
      exact dropWhile_head_false (digit_not_strip (hd c this))
  rw [h2, List.reverse_reverse]

theorem strip_digits {g : List Char} (h : Digits g) : strip g = g :=
  strip_pad (PadDigits.of_digits h)

theorem pyInt_pad {g d : List Char} (h : PadDigits g d) : pyInt g = some (Int.ofNat (decValue d)) := by
  unfold pyInt
  rw [strip_pad h]
  obtain ⟨_, _, _, _, _, hne, hd⟩ := h
  cases d with
  | nil => exact absurd rfl hne
  | cons c r =>
    have hc := hd c (by simp)
    have n1 : c ≠ '-' := digit_ne hc (by decide)
    have n2 : c ≠ '+' := digit_ne hc (by decide)
    split
    · rename_i heq; cases heq; exact absurd rfl n1
    · rename_i heq; cases heq; exact absurd rfl n2
    · rw [pyDigits_digits _ 0 false hd (Or.inl (by simp))]
      rfl

theorem pyInt_digits {g : List Char} (h : Digits g) : pyInt g = some (Int.ofNat (decValue g)) :=
  pyInt_pad (PadDigits.of_digits h)

theorem padDigits_ne_nil {g d : List Char} (h : PadDigits g d) : g ≠ [] := by
  obtain ⟨p, q, rfl, _, _, hne, _⟩ := h
  intro e
  simp at e
  exact hne e.2.1

/-! ### the quantifier pattern -/

theorem takeWhile_append_stop {p : Char → Bool} (g : List Char) (x : Char) (r : List Char)
    (hg : ∀ c ∈ g, p c = true) (hx : p x = false) : (g ++ x :: r).takeWhile p = g := by
  induction g with
  | nil => simp [List.takeWhile, hx]
  | cons c t ih =>
    simp only [List.cons_append, List.takeWhile, hg c (by simp)]
    rw [ih (fun c' h' => hg c' (List.mem_cons_of_mem _ h'))]

theorem drop_length_append (g r : List Char) : (g ++ r).drop g.length = r := by
  induction g with
  | nil => rfl
  | cons c t ih => simp [ih]

theorem take_length_append (g r : List Char) : (g ++ r).take g.length = g := by
  induction g with
  | nil => simp
  | cons c t ih => simp [ih]

/-- The text of a group of the quantifier pattern: `.*?` up to the stop character `x` (`,` for
the first group, `}` for the second) never contains `x` or a newline. -/
def NoStop (x : Char) (g : List Char) : Prop := ∀ c ∈ g, c ≠ x ∧ c ≠ '\n'

/-- Digit strings, blanks (or empty texts) contain no comma, brace or newline. -/
def BoundText (g : List Char) : Prop := ∀ c ∈ g, c.isDigit = true ∨ isBlank c = true

theorem BoundText.noStop {g : List Char} (h : BoundText g) {x : Char} (hx : x.isDigit = false)
    (hb : isBlank x = false) : NoStop x g := by
  intro c hc
  rcases h c hc with hd | hbl
  · exact ⟨digit_ne hd hx, digit_ne hd (by decide)⟩
  · have hc : c = ' ' ∨ c = '\t' := by simpa [isBlank] using hbl
    constructor
    · intro e; subst e; rw [hbl] at hb; cases hb
    · rcases hc with rfl | rfl <;> decide

theorem quantGroups_of_noStop {g1 g2 : List Char} (h1 : NoStop ',' g1) (h2 : NoStop '}' g2)
    (rest : List Char) :
    quantGroups ('{' :: (g1 ++ ',' :: (g2 ++ '}' :: rest))) = some (g1, g2) := by
  unfold quantGroups
  have t1 : (g1 ++ ',' :: (g2 ++ '}' :: rest)).takeWhile (fun c => c != ',' && c != '\n') = g1 := by
    apply takeWhile_append_stop
    · intro c hc
      obtain ⟨n1, n2⟩ := h1 c hc
      simp [n1, n2]
    · simp
  have t2 : (g2 ++ '}' :: rest).takeWhile (fun c => c != '}' && c != '\n') = g2 := by
    apply takeWhile_append_stop
    · intro c hc
      obtain ⟨n1, n2⟩ := h2 c hc
      simp [n1, n2]
    · simp
  simp only [t1, drop_length_append, t2]

theorem quantGroups_spelled {g1 g2 : List Char} (h1 : BoundText g1) (h2 : BoundText g2)
    (rest : List Char) :
    quantGroups ('{' :: (g1 ++ ',' :: (g2 ++ '}' :: rest))) = some (g1, g2) :=
  quantGroups_of_noStop (h1.noStop (by decide) (by decide)) (h2.noStop (by decide) (by decide)) rest

theorem boundText_of_pad {g d : List Char} (h : PadDigits g d) : BoundText g := by
  obtain ⟨p, q, rfl, hp, hq, _, hd⟩ := h
  intro c hc
  simp only [List.mem_append] at hc
  rcases hc with (hc | hc) | hc
  · exact Or.inr (hp c hc)
  · exact Or.inl (hd c hc)
  · exact Or.inr (hq c hc)

theorem boundText_of_lo {g1 : List Char} {lo : Nat}
    (h : (g1 = [] ∧ lo = 0) ∨ (∃ d, PadDigits g1 d ∧ decValue d = lo)) : BoundText g1 := by
  rcases h with ⟨rfl, _⟩ | ⟨d, hp, _⟩
  · intro c hc; simp at hc
  · exact boundText_of_pad hp

theorem boundText_of_hi {g2 : List Char} {lo : Nat} {hi : Option Nat}
    (h : (g2 = [] ∧ hi = none) ∨ (∃ d, PadDigits g2 d ∧ hi = some (decValue d) ∧ lo ≤ decValue d)) :
    BoundText g2 := by
  rcases h with ⟨rfl, _⟩ | ⟨d, hp, _⟩
  · intro c hc; simp at hc
  · exact boundText_of_pad hp

theorem quantFromMatch_spelled {g1 g2 : List Char} {lo : Nat} {hi : Option Nat}
    (h1 : (g1 = [] ∧ lo = 0) ∨ (∃ d, PadDigits g1 d ∧ decValue d = lo))
    (h2 : (g2 = [] ∧ hi = none) ∨ (∃ d, PadDigits g2 d ∧ hi = some (decValue d) ∧ lo ≤ decValue d)) :
    quantFromMatch ('{' :: (g1 ++ ',' :: (g2 ++ ['}']))) = .ok (.quant lo hi) := by
  unfold quantFromMatch
  have hq := quantGroups_spelled (boundText_of_lo h1) (boundText_of_hi h2) []
  rw [hq]
  simp only
  have e1 : (if g1.isEmpty then some (0 : Int) else pyInt g1) = some (Int.ofNat lo) := by
    rcases h1 with ⟨rfl, rfl⟩ | ⟨d, hd, rfl⟩
    · rfl
    · have : g1.isEmpty = false := by
        cases g1 with
        | nil => exact absurd rfl (padDigits_ne_nil hd)
        | cons _ _ => rfl
      simp only [this, pyInt_pad hd]
      rfl
  rw [e1]
  simp only
  rcases h2 with ⟨rfl, rfl⟩ | ⟨d, hd, rfl, hle⟩
  · simp
  · have : g2.isEmpty = false := by
      cases g2 with
      | nil => exact absurd rfl (padDigits_ne_nil hd)
      | cons _ _ => rfl
    simp only [this, pyInt_pad hd]
    have n1 : ¬ ((lo : Int) < 0) := by omega
    have n2 : ¬ (decValue d < lo) := by omega
    simp [n1, n2]

/-! ### one token -/

theorem quantGroups_ne {c : Char} (h : c ≠ '{') (rest : List Char) :
    quantGroups (c :: rest) = none := by
  unfold quantGroups
  split
  · rename_i heq; cases heq; exact absurd rfl h
  · rfl

/-- `get_token` on a text that starts with a symbol character. -/
theorem getToken_sym {c : Char} (h : SymChar c) (rest : List Char) :
    getToken (c :: rest) = .ok (some ("StringToken", 1)) := by
  obtain ⟨hs, hr⟩ := h
  simp only [isReserved, Gen.Regex.reservedCharacters, List.contains_cons, List.contains_nil,
    Bool.or_false, Bool.or_eq_false_iff, beq_eq_false_iff_ne, ne_eq] at hr
  obtain ⟨h1, h2, h3, h4, h5, h6, h7, h8, h9, h10, h11, h12, h13⟩ := hr
  have hq := quantGroups_ne h12 rest
  simp [getToken, getTokenAux, Gen.Regex.lexerRules, matchLen_lp, matchLen_rp, matchLen_un,
    matchLen_in, matchLen_sh, matchLen_st, matchLen_pl, matchLen_op, matchLen_wi, matchLen_S,
    matchLen_q, litMatch, hq, h1, h2, h3, h4, h5, h6, h7, h8, h9, h10, h11, h12, h13, hs]

theorem getToken_blank {c : Char} (h : isBlank c = true) (rest : List Char) :
    getToken (c :: rest) = .ok none := by
  have hc : c = ' ' ∨ c = '\t' := by simpa [isBlank] using h
  rcases hc with rfl | rfl
  · have : isPySpace ' ' = true := by decide
    simp [getToken, getTokenAux, Gen.Regex.lexerRules, matchLen_lp, matchLen_rp, matchLen_un,
      matchLen_in, matchLen_sh, matchLen_st, matchLen_pl, matchLen_op, matchLen_wi, matchLen_S,
      matchLen_q, litMatch, quantGroups, this]
  · have : isPySpace '\t' = true := by decide
    simp [getToken, getTokenAux, Gen.Regex.lexerRules, matchLen_lp, matchLen_rp, matchLen_un,
      matchLen_in, matchLen_sh, matchLen_st, matchLen_pl, matchLen_op, matchLen_wi, matchLen_S,
      matchLen_q, litMatch, quantGroups, this]

theorem getToken_quant {g1 g2 : List Char} (h1 : BoundText g1) (h2 : BoundText g2)
    (rest : List Char) :
    getToken ('{' :: (g1 ++ ',' :: (g2 ++ '}' :: rest))) =
      .ok (some ("QuantifierToken", g1.length + g2.length + 3)) := by
  have hq := quantGroups_spelled h1 h2 rest
  have hs : isPySpace '{' = false := by decide
  have hk : ¬ (g1.length + g2.length + 3 < 1) := by omega
  simp [getToken, getTokenAux, Gen.Regex.lexerRules, matchLen_lp, matchLen_rp, matchLen_un,
    matchLen_in, matchLen_sh, matchLen_st, matchLen_pl, matchLen_op, matchLen_wi, matchLen_S,
    matchLen_q, litMatch, hq, hs, hk]

/-- One iteration of the lexer loop consumes exactly the spelling of a token and appends it. -/
theorem lexAux_tok {t : Tok Char} {txt : List Char} (h : TokText t txt) (rest : List Char)
    (fuel : Nat) :
    lexAux (fuel + 1) (txt ++ rest) =
      match lexAux fuel rest with
      | .error e => .error e
      | .ok ts => .ok (t :: ts) := by
  have special : ∀ (x : Char) (cls : String) (t : Tok Char),
      getToken (x :: rest) = .ok (some (cls, 1)) → mkToken cls [x] = .ok t →
      lexAux (fuel + 1) ([x] ++ rest) =
        match lexAux fuel rest with
        | .error e => .error e
        | .ok ts => .ok (t :: ts) := by
    intro x cls t hg hm
    simp only [List.singleton_append, lexAux, hg, List.take_succ_cons, List.take_zero, hm,
      List.drop_succ_cons, List.drop_zero]
    cases lexAux fuel rest <;> rfl
  cases h with
  | lparen =>
    refine special '(' "LeftParen" _ ?_ rfl
    have : isPySpace '(' = false := by decide
    simp [getToken, getTokenAux, Gen.Regex.lexerRules, matchLen_lp, matchLen_rp, matchLen_un,
      matchLen_in, matchLen_sh, matchLen_st, matchLen_pl, matchLen_op, matchLen_wi, matchLen_S,
      matchLen_q, litMatch, quantGroups, this]
  | rparen =>
    refine special ')' "RightParen" _ ?_ rfl
    have : isPySpace ')' = false := by decide
    simp [getToken, getTokenAux, Gen.Regex.lexerRules, matchLen_lp, matchLen_rp, matchLen_un,
      matchLen_in, matchLen_sh, matchLen_st, matchLen_pl, matchLen_op, matchLen_wi, matchLen_S,
      matchLen_q, litMatch, quantGroups, this]
  | union =>
    refine special '|' "UnionToken" _ ?_ rfl
    have : isPySpace '|' = false := by decide
    simp [getToken, getTokenAux, Gen.Regex.lexerRules, matchLen_lp, matchLen_rp, matchLen_un,
      matchLen_in, matchLen_sh, matchLen_st, matchLen_pl, matchLen_op, matchLen_wi, matchLen_S,
      matchLen_q, litMatch, quantGroups, this]
  | inter =>
    refine special '&' "IntersectionToken" _ ?_ rfl
    have : isPySpace '&' = false := by decide
    simp [getToken, getTokenAux, Gen.Regex.lexerRules, matchLen_lp, matchLen_rp, matchLen_un,
      matchLen_in, matchLen_sh, matchLen_st, matchLen_pl, matchLen_op, matchLen_wi, matchLen_S,
      matchLen_q, litMatch, quantGroups, this]
  | shuffle =>
    refine special '^' "ShuffleToken" _ ?_ rfl
    have : isPySpace '^' = false := by decide
    simp [getToken, getTokenAux, Gen.Regex.lexerRules, matchLen_lp, matchLen_rp, matchLen_un,
      matchLen_in, matchLen_sh, matchLen_st, matchLen_pl, matchLen_op, matchLen_wi, matchLen_S,
      matchLen_q, litMatch, quantGroups, this]
  | star =>
    refine special '*' "KleeneStarToken" _ ?_ rfl
    have : isPySpace '*' = false := by decide
    simp [getToken, getTokenAux, Gen.Regex.lexerRules, matchLen_lp, matchLen_rp, matchLen_un,
      matchLen_in, matchLen_sh, matchLen_st, matchLen_pl, matchLen_op, matchLen_wi, matchLen_S,
      matchLen_q, litMatch, quantGroups, this]
  | plus =>
    refine special '+' "KleenePlusToken" _ ?_ rfl
    have : isPySpace '+' = false := by decide
    simp [getToken, getTokenAux, Gen.Regex.lexerRules, matchLen_lp, matchLen_rp, matchLen_un,
      matchLen_in, matchLen_sh, matchLen_st, matchLen_pl, matchLen_op, matchLen_wi, matchLen_S,
      matchLen_q, litMatch, quantGroups, this]
  | opt =>
    refine special '?' "OptionToken" _ ?_ rfl
    have : isPySpace '?' = false := by decide
    simp [getToken, getTokenAux, Gen.Regex.lexerRules, matchLen_lp, matchLen_rp, matchLen_un,
      matchLen_in, matchLen_sh, matchLen_st, matchLen_pl, matchLen_op, matchLen_wi, matchLen_S,
      matchLen_q, litMatch, quantGroups, this]
  | wildcard =>
    refine special '.' "WildcardToken" _ ?_ rfl
    have : isPySpace '.' = false := by decide
    simp [getToken, getTokenAux, Gen.Regex.lexerRules, matchLen_lp, matchLen_rp, matchLen_un,
      matchLen_in, matchLen_sh, matchLen_st, matchLen_pl, matchLen_op, matchLen_wi, matchLen_S,
      matchLen_q, litMatch, quantGroups, this]
  | sym c hc =>
    exact special c "StringToken" _ (getToken_sym hc rest) rfl
  | quant g1 g2 lo hi h1 h2 =>
    have b1 := boundText_of_lo h1
    have b2 := boundText_of_hi h2
    have etxt : ('{' :: (g1 ++ ',' :: (g2 ++ ['}']))) ++ rest =
        '{' :: (g1 ++ ',' :: (g2 ++ '}' :: rest)) := by simp
    have hlen : ('{' :: (g1 ++ ',' :: (g2 ++ ['}']))).length = g1.length + g2.length + 3 := by
      simp; omega
    have hm : mkToken "QuantifierToken" ('{' :: (g1 ++ ',' :: (g2 ++ ['}']))) =
        .ok (.quant lo hi) := by
      have : mkToken "QuantifierToken" ('{' :: (g1 ++ ',' :: (g2 ++ ['}']))) =
          quantFromMatch ('{' :: (g1 ++ ',' :: (g2 ++ ['}']))) := rfl
      rw [this, quantFromMatch_spelled h1 h2]
    have htake : ('{' :: (g1 ++ ',' :: (g2 ++ '}' :: rest))).take (g1.length + g2.length + 3) =
        '{' :: (g1 ++ ',' :: (g2 ++ ['}'])) := by
      rw [← etxt, ← hlen]; exact take_length_append _ _
    have hdrop : ('{' :: (g1 ++ ',' :: (g2 ++ '}' :: rest))).drop (g1.length + g2.length + 3) =
        rest := by
      rw [← etxt, ← hlen]; exact drop_length_append _ _
    rw [etxt]
    simp only [lexAux, getToken_quant b1 b2 rest, htake, hdrop, hm]
    cases lexAux fuel rest <;> rfl

theorem lexAux_blank {c : Char} (h : isBlank c = true) (rest : List Char) (fuel : Nat) :
    lexAux (fuel + 1) (c :: rest) = lexAux fuel rest := by
  simp only [lexAux, getToken_blank h, h, if_true]

theorem tokText_length_pos {t : Tok Char} {txt : List Char} (h : TokText t txt) :
    1 ≤ txt.length := by
  cases h <;> simp

/-- The lexer theorem: a spelling of a token list (with blanks anywhere) lexes to that list. -/
theorem lex_renders {ts : List (Tok Char)} {s : List Char} (h : Renders ts s) :
    lex s = .ok ts := by
  unfold lex
  have key : ∀ fuel, s.length ≤ fuel → lexAux fuel s = .ok ts := by
    induction h with
    | nil =>
      intro fuel _
      cases fuel <;> rfl
    | blank c hb _ ih =>
      intro fuel hf
      obtain ⟨f, rfl⟩ : ∃ f, fuel = f + 1 := ⟨fuel - 1, by simp at hf; omega⟩
      rw [lexAux_blank hb]
      exact ih f (by simp at hf; omega)
    | tok ht _ ih =>
      intro fuel hf
      have := tokText_length_pos ht
      obtain ⟨f, rfl⟩ : ∃ f, fuel = f + 1 := ⟨fuel - 1, by simp at hf; omega⟩
      rw [lexAux_tok ht, ih f (by simp at hf; omega)]
  exact key _ (Nat.le_refl _)

end AV.Rx
