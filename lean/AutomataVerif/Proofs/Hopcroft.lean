/-
Proofs/Hopcroft.lean — `hopcroft_nerode`: for every pop order, the partition computed by the
model of the `_minify` loop is a partition of the universe whose blocks are exactly the
Myhill–Nerode classes of the refinement system `(mdelta, mfin)`.
-/
import AutomataVerif.Proofs.HopcroftLoop

namespace AV
namespace DFA

set_option linter.unusedSectionVars false

variable {σ α : Type} [DecidableEq σ] [DecidableEq α]
variable {kept : List σ} {syms : List α} {trans : List (σ × List (α × σ))} {init : σ} {finals : List σ}

/-! ### the refinement system -/

theorem mdelta_none (a : α) : mdelta kept trans none a = none := rfl

theorem mdelta_some_mem {x : Option σ} {a : α} {t : σ} (h : mdelta kept trans x a = some t) :
    t ∈ kept := by
  cases x with
  | none => simp [mdelta] at h
  | some q =>
    simp only [mdelta] at h
    split at h
    · split at h
      · cases h; assumption
      · cases h
    · cases h

theorem mdelta_not_syms (h : MinHyp kept syms trans init finals) {a : α} (ha : a ∉ syms)
    (x : Option σ) : mdelta kept trans x a = none := by
  cases x with
  | none => rfl
  | some q =>
    have hnone : alookup a ((alookup q trans).getD []) = none := by
      rw [alookup_eq_none_iff]
      cases hr : alookup q trans with
      | none => simp [akeys]
      | some r =>
        intro hmem
        exact ha (h.keys q r hr a (by simpa using hmem))
    simp only [mdelta, hnone]

theorem mdelta_closed {x : Option σ} (hx : x ∈ muniverse kept syms trans) {a : α} (ha : a ∈ syms) :
    mdelta kept trans x a ∈ muniverse kept syms trans := by
  cases x with
  | none => exact hx
  | some q =>
    have hq : q ∈ kept := by
      unfold muniverse at hx
      rcases List.mem_append.mp hx with h | h
      · simpa using h
      · split at h <;> simp at h
    unfold muniverse
    cases hd : mdelta kept trans (some q) a with
    | none =>
      have : needTrap kept syms trans = true := by
        unfold needTrap
        rw [List.any_eq_true]
        refine ⟨q, hq, ?_⟩
        rw [List.any_eq_true]
        exact ⟨a, ha, by simp [hd]⟩
      simp [this]
    | some t =>
      have := mdelta_some_mem hd
      simp [this]

theorem mrun_cons (x : Option σ) (a : α) (w : List α) :
    mrun kept trans x (a :: w) = mrun kept trans (mdelta kept trans x a) w := rfl

theorem MEquiv.step {x y : Option σ} (a : α) (h : MEquiv kept trans finals x y) :
    MEquiv kept trans finals (mdelta kept trans x a) (mdelta kept trans y a) := by
  intro w
  have := h (a :: w)
  rwa [mrun_cons, mrun_cons] at this

theorem mem_finals_iff (x : Option σ) : x ∈ finals.map some ↔ mfin finals x = true := by
  cases x with
  | none => simp [mfin]
  | some q => simp [mfin]

/-! ### the initial partition -/

theorem init_wf {U : List (Option σ)} (hU : U ≠ []) : (Part.init U).WF U where
  ids_nodup := by simp [Part.init, Part.ids]
  ids_lt := by simp [Part.init, Part.ids]
  nonempty := by
    intro i hi
    have hi0 : i = 0 := by simpa [Part.init, Part.ids] using hi
    subst hi0
    obtain ⟨x, hx⟩ := List.exists_mem_of_ne_nil U hU
    have : x ∈ (Part.init U).get 0 := by
      simp [Part.init, Part.get, alookup_cons, hx]
    exact List.ne_nil_of_mem this
  block_nodup := by
    intro i hi
    have hi0 : i = 0 := by simpa [Part.init, Part.ids] using hi
    subst hi0
    simpa [Part.init, Part.get, alookup_cons] using nodup_dedup U
  cover := by
    intro x
    simp [Part.init, Part.ids, Part.get, alookup_cons]
  disjoint := by
    intro i hi j hj
    have hi0 : i = 0 := by simpa [Part.init, Part.ids] using hi
    have hj0 : j = 0 := by simpa [Part.init, Part.ids] using hj
    intros; omega

theorem init_get (U : List (Option σ)) (x : Option σ) : x ∈ (Part.init U).get 0 ↔ x ∈ U := by
  simp [Part.init, Part.get, alookup_cons]

theorem init_ids (U : List (Option σ)) : (Part.init U).ids = [0] := rfl

/-- `final_states_id`. -/
def firstId (out : List (Nat × Nat)) : Nat :=
  match out with
  | pr :: _ => pr.1
  | [] => 0

theorem hopcroft_eq (kept : List σ) (syms : List α) (trans : List (σ × List (α × σ)))
    (finals : List σ) (pick : List Nat → Nat) :
    hopcroft kept syms trans finals pick =
      hopLoop (muniverse kept syms trans) (mdelta kept trans) syms pick
        (2 * (muniverse kept syms trans).length + 2)
        ((Part.init (muniverse kept syms trans)).refine (finals.map some)).1
        [firstId ((Part.init (muniverse kept syms trans)).refine (finals.map some)).2] := rfl

/-- The invariant holds when the loop is entered. -/
theorem init_inv (h : MinHyp kept syms trans init finals) :
    Inv (muniverse kept syms trans) (mdelta kept trans) syms (MEquiv kept trans finals) (mfin finals)
      [] [] ((Part.init (muniverse kept syms trans)).refine (finals.map some)).1
      [firstId ((Part.init (muniverse kept syms trans)).refine (finals.map some)).2] := by
  have hU : muniverse kept syms trans ≠ [] := by
    apply List.ne_nil_of_mem (a := some init)
    unfold muniverse
    exact List.mem_append_left _ (List.mem_map.mpr ⟨init, h.init_mem, rfl⟩)
  have hclosed : ∀ x ∈ muniverse kept syms trans, ∀ a ∈ syms,
      mdelta kept trans x a ∈ muniverse kept syms trans := fun x hx a ha => mdelta_closed hx ha
  generalize muniverse kept syms trans = U at hU hclosed ⊢
  have hwf0 := init_wf hU
  have hs := Part.refine_spec hwf0 (finals.map some)
  generalize ((Part.init U).refine (finals.map some)).1 = r at hs ⊢
  generalize ((Part.init U).refine (finals.map some)).2 = out at hs ⊢
  have hwf : r.WF U := hs.wf hwf0
  have hsame0 : ∀ {x y}, x ∈ U → y ∈ U → (Part.init U).Same x y := by
    intro x y hx hy
    exact (Part.same_iff hwf0.ids_nodup).mpr ⟨0, by simp [init_ids], (init_get U x).mpr hx, (init_get U y).mpr hy⟩
  have hsame : ∀ {x y}, r.Same x y ↔ (Part.init U).Same x y ∧ (x ∈ finals.map some ↔ y ∈ finals.map some) :=
    hs.same_iff hwf0
  have hfin : ∀ {x y : Option σ}, (x ∈ finals.map some ↔ y ∈ finals.map some) ↔ mfin finals x = mfin finals y := by
    intro x y
    rw [mem_finals_iff, mem_finals_iff]
    cases mfin finals x <;> cases mfin finals y <;> simp
  constructor
  · exact hwf
  · simp
  · intro i hi
    simp only [List.mem_singleton] at hi
    subst hi
    cases out with
    | nil => exact hs.mem_ids.mpr (Or.inl (by simp [init_ids, firstId]))
    | cons pr rest => exact hs.mem_ids.mpr (Or.inr ⟨pr, by simp, rfl⟩)
  · intro x hx y hy hxy
    exact hsame.mpr ⟨hsame0 hx hy, hfin.mpr (hxy [])⟩
  · intro x y hxy
    exact hfin.mp (hsame.mp hxy).2
  · intro x y _; simp
  · intro x y hxy a ha hns
    left
    obtain ⟨hxU, hyU⟩ := hwf.same_mem hxy
    have huU := hclosed x hxU a ha
    have hvU := hclosed y hyU a ha
    have hnF : ¬ (mdelta kept trans x a ∈ finals.map some ↔ mdelta kept trans y a ∈ finals.map some) :=
      fun hF => hns (hsame.mpr ⟨hsame0 huU hvU, hF⟩)
    have hsp : (Part.init U).Split (finals.map some) 0 := by
      refine ⟨by simp [init_ids], ?_, ?_⟩
      · by_cases hu : mdelta kept trans x a ∈ finals.map some
        · exact ⟨_, (init_get U _).mpr huU, hu⟩
        · refine ⟨_, (init_get U _).mpr hvU, ?_⟩
          exact Classical.byContradiction fun hv => hnF ⟨fun h => absurd h hu, fun h => absurd h hv⟩
      · by_cases hu : mdelta kept trans x a ∈ finals.map some
        · exact ⟨_, (init_get U _).mpr hvU, fun hv => hnF ⟨fun _ => hv, fun _ => hu⟩⟩
        · exact ⟨_, (init_get U _).mpr huU, hu⟩
    obtain ⟨n, hn⟩ := hs.out_complete 0 hsp
    cases out with
    | nil => simp at hn
    | cons pr rest =>
      have hpr : pr ∈ pr :: rest := by simp
      have hpr2 : pr.2 = 0 := by
        have := (hs.out_spec pr hpr).2.1.1
        simpa [init_ids] using this
      refine ⟨pr.1, by simp [firstId], ?_⟩
      rw [hs.mem_get_new hpr, hs.mem_get_new hpr, hpr2, init_get, init_get]
      simp only [huU, hvU, true_and]
      exact hnF

/-! ### exit: an empty waiting set makes the partition stable -/

/-- With an empty waiting set, blocks are closed under every alphabet symbol. -/
theorem stable_of_witness {U : List (Option σ)} {delta : Option σ → α → Option σ} {syms : List α}
    {E : Option σ → Option σ → Prop} {fin : Option σ → Bool} {p : Part (Option σ)}
    (inv : Inv U delta syms E fin [] [] p []) {x y : Option σ} (hxy : p.Same x y) {a : α}
    (ha : a ∈ syms) : p.Same (delta x a) (delta y a) := by
  apply Classical.byContradiction
  intro hns
  rcases inv.witness x y hxy a ha hns with ⟨i, hi, _⟩ | ⟨hb, _⟩
  · simp at hi
  · simp at hb

theorem same_imp_mequiv (h : MinHyp kept syms trans init finals) {p : Part (Option σ)}
    (inv : Inv (muniverse kept syms trans) (mdelta kept trans) syms (MEquiv kept trans finals)
      (mfin finals) [] [] p []) :
    ∀ (w : List α) (x y : Option σ), p.Same x y →
      mfin finals (mrun kept trans x w) = mfin finals (mrun kept trans y w) := by
  intro w
  induction w with
  | nil => intro x y hxy; exact inv.fin_ok x y hxy
  | cons a w ih =>
    intro x y hxy
    rw [mrun_cons, mrun_cons]
    by_cases ha : a ∈ syms
    · exact ih _ _ (stable_of_witness inv hxy ha)
    · rw [mdelta_not_syms h ha x, mdelta_not_syms h ha y]

/-- C05, first half: for every pop order the loop of `_minify` ends (within the fuel of the
model) with the partition of the universe into Myhill–Nerode classes. -/
theorem hopcroft_nerode (h : MinHyp kept syms trans init finals) (pick : List Nat → Nat) :
    HopcroftCorrect kept syms trans finals pick := by
  unfold HopcroftCorrect
  rw [hopcroft_eq]
  have inv := hopLoop_inv (E := MEquiv kept trans finals) (fin := mfin finals)
    (fun x hx a ha => mdelta_closed hx ha) (fun x y a hxy => hxy.step a) pick
    (2 * (muniverse kept syms trans).length + 2) _ _ (init_inv h) (by simp; omega)
  refine ⟨inv.wf.isPartitionOf, ?_⟩
  intro x hx y hy
  constructor
  · intro hxy w
    exact same_imp_mequiv h inv w x y hxy
  · intro hxy
    exact inv.coarser x hx y hy hxy

/-- Non-vacuity: the hypotheses hold for a concrete partial DFA (the trap is needed), and the
theorem then speaks about a partition with more than one block. -/
example : MinHyp (σ := Nat) (α := Nat) [0, 1, 2] [0, 1]
    [(0, [(0, 1), (1, 2)]), (1, [(0, 1)]), (2, [(0, 1)])] 0 [1] where
  kept_nodup := by decide
  syms_nodup := by decide
  init_mem := by decide
  finals_sub := by decide
  rows := by decide
  keys := by
    intro q r hr a ha
    have hm := alookup_some_mem hr
    simp only [List.mem_cons, Prod.mk.injEq, List.not_mem_nil, or_false] at hm
    rcases hm with ⟨_, rfl⟩ | ⟨_, rfl⟩ | ⟨_, rfl⟩ <;> revert a <;> decide

example : (hopcroft (σ := Nat) (α := Nat) [0, 1, 2] [0, 1]
    [(0, [(0, 1), (1, 2)]), (1, [(0, 1)]), (2, [(0, 1)])] [1] (fun _ => 0)).blocks.length = 4 := by
  decide

end DFA
end AV
