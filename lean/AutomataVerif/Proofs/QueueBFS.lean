/-
Proofs/QueueBFS.lean — a FIFO work-queue loop without a visited set (MNTM.read_input_stepwise,
MNTM.read_input_as_ntm) visits the successor tree level by level.

`qres succ acc` is the generic `resume` of such a generator; `qobs` its observation from a
queue; `bfsSeq` the first `n` elements of the visit order; `lvl d q` the `d`-th level
(`lvl 0 q = q`, `lvl (d+1) q = (lvl d q).flatMap succ`), `concatLevels n q = lvl 0 q ++ … ++
lvl (n-1) q`.

Main results:
* `qobs_yields`, `qobs_end`     the observation = the visit order cut after the first accepting
                                 element, and how the generator stands;
* `bfsSeq_eq_levels`            visit order = concatenation of the levels (breadth first);
* `qobs_accept_iff`, `qobs_reject_iff`  some budget gives accept ⇔ an accepting element occurs in
                                 some level; some budget gives reject ⇔ some level is empty and no
                                 level contains an accepting element — both insensitive to the
                                 order of the successor lists.
Lean core only.
-/
import AutomataVerif.Model.TMDefs

namespace AV.TM.Q
variable {C : Type}

def rej : Exn := .lib .rejectionException

/-- `resume` of a queue generator: state = (element just yielded, rest of the queue). -/
def qres (succ : C → List C) (acc : C → Bool) (st : C × List C) : Resume (C × List C) C :=
  if acc st.1 then .ret else
  match st.2 ++ succ st.1 with
  | [] => .raise rej
  | c' :: r => .yield c' (c', r)

/-- Observation from the `while queue:` test. -/
def qobs (succ : C → List C) (acc : C → Bool) : Nat → List C → List C × GenEnd
  | 0, _ => ([], .running)
  | _ + 1, [] => ([], .raised rej)
  | n + 1, c :: r =>
    let x := genRun (qres succ acc) n (c, r)
    (c :: x.1, x.2)

theorem genStart_eq_qobs (succ : C → List C) (acc : C → Bool) (c0 : C) (n : Nat) :
    genStart (qres succ acc) c0 (c0, []) n = qobs succ acc n [c0] := by
  cases n <;> rfl

theorem genRun_qres (succ : C → List C) (acc : C → Bool) (n : Nat) (c : C) (r : List C) :
    genRun (qres succ acc) (n + 1) (c, r) =
      if acc c then ([], .returned) else qobs succ acc (n + 1) (r ++ succ c) := by
  simp only [genRun, qres]
  cases h : acc c
  · simp only [Bool.false_eq_true, if_false]
    cases h2 : r ++ succ c with
    | nil => simp [qobs]
    | cons c' r' => simp [qobs]
  · simp

/-- The first `n` elements of the visit order of the queue `q`. -/
def bfsSeq (succ : C → List C) : Nat → List C → List C
  | 0, _ => []
  | _ + 1, [] => []
  | n + 1, c :: r => c :: bfsSeq succ n (r ++ succ c)

/-- Keep a list up to and including its first element satisfying `p`. -/
def cutThrough (p : C → Bool) : List C → List C
  | [] => []
  | x :: xs => if p x then [x] else x :: cutThrough p xs

/-- Index of the first element satisfying `p`. -/
def firstIdx (p : C → Bool) : List C → Option Nat
  | [] => none
  | x :: xs => if p x then some 0 else (firstIdx p xs).map (· + 1)

/-- How a queue generator stands after `n` calls, from the visit order. -/
def endOf (acc : C → Bool) (n : Nat) (s : List C) : GenEnd :=
  match firstIdx acc s with
  | some j => if j + 2 ≤ n then .returned else .running
  | none => if s.length < n then .raised rej else .running

theorem bfsSeq_length_le (succ : C → List C) (n : Nat) (q : List C) :
    (bfsSeq succ n q).length ≤ n := by
  induction n generalizing q with
  | zero => simp [bfsSeq]
  | succ n ih =>
    cases q with
    | nil => simp [bfsSeq]
    | cons c r => simp only [bfsSeq, List.length_cons]; have := ih (r ++ succ c); omega

theorem qobs_eq (succ : C → List C) (acc : C → Bool) (n : Nat) (q : List C) :
    qobs succ acc n q = (cutThrough acc (bfsSeq succ n q), endOf acc n (bfsSeq succ n q)) := by
  induction n generalizing q with
  | zero => simp [qobs, bfsSeq, cutThrough, endOf, firstIdx]
  | succ n ih =>
    cases q with
    | nil => simp [qobs, bfsSeq, cutThrough, endOf, firstIdx]
    | cons c r =>
      cases n with
      | zero =>
        simp only [qobs, genRun, bfsSeq, cutThrough, endOf, firstIdx]
        cases acc c <;> simp
      | succ m =>
        have hq : qobs succ acc (m + 1 + 1) (c :: r) =
            (c :: (genRun (qres succ acc) (m + 1) (c, r)).1,
              (genRun (qres succ acc) (m + 1) (c, r)).2) := rfl
        rw [hq, genRun_qres]
        cases h : acc c
        · simp only [Bool.false_eq_true, if_false]
          rw [ih (r ++ succ c)]
          have hb : bfsSeq succ (m + 1 + 1) (c :: r) = c :: bfsSeq succ (m + 1) (r ++ succ c) := rfl
          rw [hb]
          simp only [cutThrough, h, Bool.false_eq_true, if_false, endOf, firstIdx]
          cases hf : firstIdx acc (bfsSeq succ (m + 1) (r ++ succ c)) with
          | none => simp only [Option.map_none, List.length_cons]; congr 1; simp only [Nat.add_lt_add_iff_right]
          | some j =>
            simp only [Option.map_some]
            congr 1
            by_cases hj : j + 2 ≤ m + 1
            · have : j + 1 + 2 ≤ m + 1 + 1 := by omega
              simp [hj, this]
            · have : ¬ (j + 1 + 2 ≤ m + 1 + 1) := by omega
              simp [hj, this]
        · have hb : bfsSeq succ (m + 1 + 1) (c :: r) = c :: bfsSeq succ (m + 1) (r ++ succ c) := rfl
          rw [hb]
          simp [cutThrough, h, endOf, firstIdx]

/-- The yields of a queue generator: the visit order cut after the first accepting element. -/
theorem qobs_yields (succ : C → List C) (acc : C → Bool) (n : Nat) (q : List C) :
    (qobs succ acc n q).1 = cutThrough acc (bfsSeq succ n q) := by rw [qobs_eq]

theorem qobs_end (succ : C → List C) (acc : C → Bool) (n : Nat) (q : List C) :
    (qobs succ acc n q).2 = endOf acc n (bfsSeq succ n q) := by rw [qobs_eq]

/-! ### visit order = levels -/

/-- The `d`-th level below the queue `q`. -/
def lvl (succ : C → List C) : Nat → List C → List C
  | 0, q => q
  | d + 1, q => lvl succ d (q.flatMap succ)

/-- `lvl 0 q ++ lvl 1 q ++ … ++ lvl (n-1) q`. -/
def concatLevels (succ : C → List C) : Nat → List C → List C
  | 0, _ => []
  | n + 1, q => q ++ concatLevels succ n (q.flatMap succ)

theorem lvl_succ' (succ : C → List C) (d : Nat) (q : List C) :
    lvl succ (d + 1) q = (lvl succ d q).flatMap succ := by
  induction d generalizing q with
  | zero => rfl
  | succ d ih => rw [lvl, ih]; rfl

theorem lvl_nil (succ : C → List C) (d : Nat) : lvl succ d [] = [] := by
  induction d with
  | zero => rfl
  | succ d ih => simpa [lvl] using ih

theorem concatLevels_nil (succ : C → List C) (n : Nat) : concatLevels succ n [] = [] := by
  induction n with
  | zero => rfl
  | succ n ih => simpa [concatLevels] using ih

theorem bfsSeq_nil (succ : C → List C) (n : Nat) : bfsSeq succ n [] = [] := by
  cases n <;> rfl

theorem take_of_length_le {l : List C} {n : Nat} (h : l.length ≤ n) : l.take n = l :=
  List.take_of_length_le h

/-- Queue invariant: visiting `a ++ b` yields `a`, then goes on with `b` followed by the
children of `a` in order. -/
theorem bfsSeq_append (succ : C → List C) (a : List C) :
    ∀ (n : Nat) (b : List C),
      bfsSeq succ n (a ++ b) = (a ++ bfsSeq succ (n - a.length) (b ++ a.flatMap succ)).take n := by
  induction a with
  | nil =>
    intro n b
    simp only [List.nil_append, List.length_nil, Nat.sub_zero, List.flatMap_nil, List.append_nil]
    exact (take_of_length_le (bfsSeq_length_le succ n b)).symm
  | cons x a ih =>
    intro n b
    cases n with
    | zero => simp [bfsSeq]
    | succ m =>
      simp only [List.cons_append, bfsSeq, List.length_cons, List.flatMap_cons, List.take_succ_cons]
      congr 1
      have := ih m (b ++ succ x)
      simp only [List.append_assoc] at this ⊢
      rw [this]
      congr 3
      omega

theorem bfsSeq_level (succ : C → List C) (n : Nat) (q : List C) :
    bfsSeq succ n q = (q ++ bfsSeq succ (n - q.length) (q.flatMap succ)).take n := by
  have := bfsSeq_append succ q n []
  simpa using this

/-- Levels beyond the `m`-th cannot contribute to the first `m` elements. -/
theorem concatLevels_take (succ : C → List C) :
    ∀ (m d : Nat) (q : List C), m ≤ d →
      (concatLevels succ d q).take m = (concatLevels succ m q).take m := by
  intro m
  induction m using Nat.strongRecOn with
  | _ m ih =>
    intro d q hmd
    cases m with
    | zero => simp
    | succ m =>
      cases d with
      | zero => omega
      | succ d =>
        cases q with
        | nil => simp [concatLevels_nil]
        | cons c r =>
          simp only [concatLevels, List.take_append]
          congr 1
          have hlt : m + 1 - (c :: r).length < m + 1 := by simp; omega
          have h1 := ih _ hlt d ((c :: r).flatMap succ) (by simp <;> omega)
          have h2 := ih _ hlt m ((c :: r).flatMap succ) (by simp <;> omega)
          rw [h1, h2]

/-- **Breadth-first order**: the first `n` visited elements are the first `n` elements of
level 0, then level 1, then level 2, … (each level = the children, in order, of the level
before). -/
theorem bfsSeq_eq_levels (succ : C → List C) :
    ∀ (n : Nat) (q : List C), bfsSeq succ n q = (concatLevels succ n q).take n := by
  intro n
  induction n using Nat.strongRecOn with
  | _ n ih =>
    intro q
    cases q with
    | nil => simp [bfsSeq_nil, concatLevels_nil]
    | cons c r =>
      cases n with
      | zero => simp [bfsSeq]
      | succ n =>
        rw [bfsSeq_level]
        have hlt : n + 1 - (c :: r).length < n + 1 := by simp; omega
        rw [ih _ hlt]
        simp only [concatLevels, List.take_append]
        congr 1
        rw [List.take_take]
        have : min (n + 1 - (c :: r).length) (n + 1 - (c :: r).length) = n + 1 - (c :: r).length := by
          simp
        rw [this]
        exact (concatLevels_take succ _ n _ (by simp <;> omega)).symm

theorem mem_concatLevels (succ : C → List C) (n : Nat) (q : List C) (c : C) :
    c ∈ concatLevels succ n q ↔ ∃ d, d < n ∧ c ∈ lvl succ d q := by
  induction n generalizing q with
  | zero => simp [concatLevels]
  | succ n ih =>
    simp only [concatLevels, List.mem_append, ih]
    constructor
    · rintro (h | ⟨d, hd, h⟩)
      · exact ⟨0, by omega, h⟩
      · exact ⟨d + 1, by omega, h⟩
    · rintro ⟨d, hd, h⟩
      cases d with
      | zero => exact Or.inl h
      | succ d => exact Or.inr ⟨d, by omega, h⟩

theorem concatLevels_length_ge (succ : C → List C) (n : Nat) (q : List C)
    (h : ∀ d, d < n → lvl succ d q ≠ []) : n ≤ (concatLevels succ n q).length := by
  induction n generalizing q with
  | zero => simp
  | succ n ih =>
    simp only [concatLevels, List.length_append]
    have h0 : q ≠ [] := h 0 (by omega)
    have : 1 ≤ q.length := by
      cases q with
      | nil => exact absurd rfl h0
      | cons _ _ => simp
    have := ih (q.flatMap succ) (fun d hd => h (d + 1) (by omega))
    omega

theorem lvl_eq_nil_of_le (succ : C → List C) {d e : Nat} {q : List C} (h : lvl succ d q = [])
    (hde : d ≤ e) : lvl succ e q = [] := by
  induction hde with
  | refl => exact h
  | step _ ih => rw [lvl_succ', ih]; rfl

/-- Splitting the concatenation at depth `d`. -/
theorem concatLevels_add (succ : C → List C) (d e : Nat) (q : List C) :
    concatLevels succ (d + e) q = concatLevels succ d q ++ concatLevels succ e (lvl succ d q) := by
  induction d generalizing q with
  | zero => simp [concatLevels, lvl]
  | succ d ih =>
    have : d + 1 + e = (d + e) + 1 := by omega
    rw [this]
    simp only [concatLevels, lvl, ih, List.append_assoc]

/-! ### verdicts -/

theorem firstIdx_some_iff (p : C → Bool) (s : List C) :
    (∃ j, firstIdx p s = some j) ↔ ∃ c ∈ s, p c = true := by
  induction s with
  | nil => simp [firstIdx]
  | cons x xs ih =>
    simp only [firstIdx, List.mem_cons, exists_eq_or_imp]
    cases h : p x
    · simp only [Bool.false_eq_true, if_false, Option.map_eq_some_iff, false_or]
      rw [← ih]
      constructor
      · rintro ⟨j, a, ha, _⟩; exact ⟨a, ha⟩
      · rintro ⟨j, hj⟩; exact ⟨j + 1, j, hj, rfl⟩
    · simp

theorem firstIdx_lt (p : C → Bool) (s : List C) {j : Nat} (h : firstIdx p s = some j) :
    j < s.length := by
  induction s generalizing j with
  | nil => simp [firstIdx] at h
  | cons x xs ih =>
    simp only [firstIdx] at h
    split at h
    · cases h; simp
    · simp only [Option.map_eq_some_iff] at h
      obtain ⟨a, ha, rfl⟩ := h
      have := ih ha
      simp; omega

theorem firstIdx_none_iff (p : C → Bool) (s : List C) :
    firstIdx p s = none ↔ ∀ c ∈ s, p c = false := by
  have := firstIdx_some_iff p s
  cases h : firstIdx p s with
  | none =>
    simp only [true_iff]
    intro c hc
    cases hp : p c
    · rfl
    · exact absurd (this.mpr ⟨c, hc, hp⟩) (by simp [h])
  | some j =>
    simp only [reduceCtorEq, false_iff]
    intro hall
    obtain ⟨c, hc, hp⟩ := this.mp ⟨j, h⟩
    rw [hall c hc] at hp
    cases hp

/-- Soundness and completeness of acceptance: some budget ends with `returned` exactly when
an accepting element occurs in some level. -/
theorem qobs_accept_iff (succ : C → List C) (acc : C → Bool) (q : List C) :
    (∃ n, (qobs succ acc n q).2 = .returned) ↔ ∃ d c, c ∈ lvl succ d q ∧ acc c = true := by
  constructor
  · rintro ⟨n, hn⟩
    rw [qobs_end] at hn
    unfold endOf at hn
    cases hf : firstIdx acc (bfsSeq succ n q) with
    | none =>
      rw [hf] at hn
      simp only at hn
      split at hn <;> cases hn
    | some j =>
      obtain ⟨c, hc, hp⟩ := (firstIdx_some_iff acc _).mp ⟨j, hf⟩
      rw [bfsSeq_eq_levels] at hc
      have hc' := List.mem_of_mem_take hc
      obtain ⟨d, _, hd⟩ := (mem_concatLevels succ n q c).mp hc'
      exact ⟨d, c, hd, hp⟩
  · rintro ⟨d, c, hc, hp⟩
    -- take the least such depth bound: all levels ≤ d are non-empty
    have hne : ∀ e, e ≤ d → lvl succ e q ≠ [] := by
      intro e he hnil
      have := lvl_eq_nil_of_le succ hnil he
      rw [this] at hc
      cases hc
    let N := (concatLevels succ (d + 1) q).length
    have hN : d + 1 ≤ N := concatLevels_length_ge succ (d + 1) q (fun e he => hne e (by omega))
    refine ⟨N + 2, ?_⟩
    rw [qobs_end]
    have hmem : c ∈ bfsSeq succ (N + 2) q := by
      rw [bfsSeq_eq_levels]
      have hsplit : N + 2 = (d + 1) + (N + 2 - (d + 1)) := by omega
      rw [hsplit, concatLevels_add, List.take_append]
      apply List.mem_append_left
      rw [List.take_of_length_le (by show N ≤ _; omega)]
      exact (mem_concatLevels succ (d + 1) q c).mpr ⟨d, by omega, hc⟩
    obtain ⟨j, hj⟩ := (firstIdx_some_iff acc _).mpr ⟨c, hmem, hp⟩
    unfold endOf
    rw [hj]
    -- the first accepting index is within the first N elements
    have hmem' : c ∈ (bfsSeq succ (N + 2) q).take N := by
      rw [bfsSeq_eq_levels, List.take_take]
      have : min N (N + 2) = N := by omega
      rw [this]
      have hsplit : N + 2 = (d + 1) + (N + 2 - (d + 1)) := by omega
      rw [hsplit, concatLevels_add, List.take_append]
      apply List.mem_append_left
      rw [List.take_of_length_le (Nat.le_refl _)]
      exact (mem_concatLevels succ (d + 1) q c).mpr ⟨d, by omega, hc⟩
    have hjN : j < N := by
      -- firstIdx of the whole list ≤ firstIdx of a prefix containing an accepting element
      have key : ∀ (s : List C) (k j : Nat), firstIdx acc s = some j →
          (∃ c ∈ s.take k, acc c = true) → j < k := by
        intro s
        induction s with
        | nil => intro k j h; simp [firstIdx] at h
        | cons x xs ih =>
          intro k j h hex
          cases k with
          | zero => simp at hex
          | succ k =>
            simp only [firstIdx] at h
            cases hx : acc x
            · simp only [hx, Bool.false_eq_true, if_false, Option.map_eq_some_iff] at h
              obtain ⟨a, ha, rfl⟩ := h
              simp only [List.take_succ_cons, List.mem_cons, exists_eq_or_imp, hx,
                Bool.false_eq_true, false_or] at hex
              have := ih k a ha hex
              omega
            · simp only [hx, if_true] at h
              cases h
              omega
      exact key _ N j hj ⟨c, hmem', hp⟩
    have : j + 2 ≤ N + 2 := by omega
    simp [this]

/-- Soundness and completeness of rejection: some budget ends with `RejectionException`
exactly when the tree is finite (some level is empty) and contains no accepting element;
and a queue generator never raises anything else. -/
theorem qobs_reject_iff (succ : C → List C) (acc : C → Bool) (q : List C) :
    (∃ n, (qobs succ acc n q).2 = .raised rej) ↔
      (∃ D, lvl succ D q = []) ∧ ∀ d c, c ∈ lvl succ d q → acc c = false := by
  constructor
  · rintro ⟨n, hn⟩
    rw [qobs_end] at hn
    unfold endOf at hn
    cases hf : firstIdx acc (bfsSeq succ n q) with
    | some j =>
      rw [hf] at hn
      simp only at hn
      split at hn <;> cases hn
    | none =>
      rw [hf] at hn
      simp only at hn
      split at hn
      · rename_i hlen
        -- the visit order is shorter than the budget: the whole tree was visited
        rw [bfsSeq_eq_levels] at hlen hf
        have hshort : (concatLevels succ n q).length < n := by
          rw [List.length_take] at hlen
          omega
        have hD : ∃ D, D < n ∧ lvl succ D q = [] := by
          apply Classical.byContradiction
          intro hno
          have := concatLevels_length_ge succ n q (fun d hd hnil => hno ⟨d, hd, hnil⟩)
          omega
        obtain ⟨D, hDn, hD⟩ := hD
        refine ⟨⟨D, hD⟩, ?_⟩
        intro d c hc
        have hall := (firstIdx_none_iff acc _).mp hf
        rw [List.take_of_length_le (by omega)] at hall
        by_cases hdn : d < n
        · exact hall c ((mem_concatLevels succ n q c).mpr ⟨d, hdn, hc⟩)
        · have := lvl_eq_nil_of_le succ hD (by omega : D ≤ d)
          rw [this] at hc
          cases hc
      · cases hn
  · rintro ⟨⟨D, hD⟩, hall⟩
    let N := (concatLevels succ D q).length
    refine ⟨N + 1 + D, ?_⟩
    rw [qobs_end]
    have hcl : concatLevels succ (N + 1 + D) q = concatLevels succ D q := by
      have : N + 1 + D = D + (N + 1) := by omega
      rw [this, concatLevels_add, hD, concatLevels_nil, List.append_nil]
    have hseq : bfsSeq succ (N + 1 + D) q = concatLevels succ D q := by
      rw [bfsSeq_eq_levels, hcl, List.take_of_length_le (by show N ≤ _; omega)]
    unfold endOf
    rw [hseq]
    have hnone : firstIdx acc (concatLevels succ D q) = none := by
      rw [firstIdx_none_iff]
      intro c hc
      obtain ⟨d, _, hd⟩ := (mem_concatLevels succ D q c).mp hc
      exact hall d c hd
    rw [hnone]
    have : (concatLevels succ D q).length < N + 1 + D := by show N < _; omega
    simp [this]

/-- A queue generator ends only by returning or with `RejectionException`. -/
theorem qobs_end_cases (succ : C → List C) (acc : C → Bool) (n : Nat) (q : List C) :
    (qobs succ acc n q).2 = .returned ∨ (qobs succ acc n q).2 = .raised rej ∨
      (qobs succ acc n q).2 = .running := by
  rw [qobs_end]
  unfold endOf
  split <;> split <;> simp

/-- Membership in a level only depends on the successor lists as sets. -/
theorem mem_lvl_congr {succ₁ succ₂ : C → List C} (h : ∀ c x, x ∈ succ₁ c ↔ x ∈ succ₂ c)
    (d : Nat) (q : List C) (c : C) : c ∈ lvl succ₁ d q ↔ c ∈ lvl succ₂ d q := by
  induction d generalizing c with
  | zero => rfl
  | succ d ih =>
    rw [lvl_succ', lvl_succ']
    simp only [List.mem_flatMap]
    constructor
    · rintro ⟨a, ha, hc⟩; exact ⟨a, (ih a).mp ha, (h a c).mp hc⟩
    · rintro ⟨a, ha, hc⟩; exact ⟨a, (ih a).mpr ha, (h a c).mpr hc⟩

/-! ### transport along a map (stored configurations ↦ views) -/

theorem bfsSeq_map {D : Type} {f : C → D} {succ : C → List C} {succ' : D → List D} (Inv : C → Prop)
    (hs : ∀ c, Inv c → (succ c).map f = succ' (f c)) (hinv : ∀ c, Inv c → ∀ x ∈ succ c, Inv x) :
    ∀ (n : Nat) (q : List C), (∀ c ∈ q, Inv c) → (bfsSeq succ n q).map f = bfsSeq succ' n (q.map f) := by
  intro n
  induction n with
  | zero => intro q _; simp [bfsSeq]
  | succ n ih =>
    intro q hq
    cases q with
    | nil => simp [bfsSeq]
    | cons c r =>
      simp only [bfsSeq, List.map_cons]
      congr 1
      rw [ih (r ++ succ c)]
      · rw [List.map_append, hs c (hq c (by simp))]
      · intro x hx
        rcases List.mem_append.mp hx with h | h
        · exact hq x (by simp [h])
        · exact hinv c (hq c (by simp)) x h

theorem cutThrough_map {D : Type} (f : C → D) (p : C → Bool) (p' : D → Bool) (l : List C)
    (h : ∀ c ∈ l, p c = p' (f c)) : (cutThrough p l).map f = cutThrough p' (l.map f) := by
  induction l with
  | nil => rfl
  | cons x xs ih =>
    simp only [cutThrough, List.map_cons]
    rw [← h x (by simp)]
    cases p x
    · simp only [Bool.false_eq_true, if_false, List.map_cons]
      rw [ih (fun c hc => h c (by simp [hc]))]
    · simp

theorem firstIdx_map {D : Type} (f : C → D) (p : C → Bool) (p' : D → Bool) (l : List C)
    (h : ∀ c ∈ l, p c = p' (f c)) : firstIdx p l = firstIdx p' (l.map f) := by
  induction l with
  | nil => rfl
  | cons x xs ih =>
    simp only [firstIdx, List.map_cons]
    rw [← h x (by simp), ih (fun c hc => h c (by simp [hc]))]

theorem endOf_map {D : Type} (f : C → D) (p : C → Bool) (p' : D → Bool) (n : Nat) (l : List C)
    (h : ∀ c ∈ l, p c = p' (f c)) : endOf p n l = endOf p' n (l.map f) := by
  unfold endOf
  rw [firstIdx_map f p p' l h, List.length_map]

theorem concatLevels_succ_last (succ : C → List C) (n : Nat) (q : List C) :
    concatLevels succ (n + 1) q = concatLevels succ n q ++ lvl succ n q := by
  rw [concatLevels_add succ n 1 q]
  simp [concatLevels]

/-- Monotonicity: once ended, the generator stays ended the same way. -/
theorem genRun_mono {S Y : Type} (resume : S → Resume S Y) (n : Nat) (s : S)
    (h : (genRun resume n s).2 ≠ .running) :
    genRun resume (n + 1) s = genRun resume n s := by
  induction n generalizing s with
  | zero => simp [genRun] at h
  | succ n ih =>
    simp only [genRun] at h ⊢
    cases hr : resume s with
    | ret => simp
    | raise e => simp
    | yield y s' =>
      simp only [hr] at h
      have := ih s' h
      simp only [genRun] at this
      simp [this]

end AV.TM.Q
