/-
Proofs/PdaValidate.lean — `PDA.validate` for NPDA and DPDA: `ok` ↔ declarative
well-formedness (∧ determinism), and where a `NondeterminismError` can come from.
-/
import AutomataVerif.Proofs.Pda
import AutomataVerif.Proofs.Validate

namespace AV.PDA

set_option linter.unusedSectionVars false

variable {σ α γ τ : Type} [DecidableEq σ] [DecidableEq α] [DecidableEq γ]

/-! ### where an error of a composite check comes from -/

theorem andThen_eq_error {a b : Res Unit} {e : Exn} (h : Res.andThen a b = .error e) :
    a = .error e ∨ (a = .ok () ∧ b = .error e) := by
  cases a with
  | error e' => simp [Res.andThen] at h; exact .inl (by rw [h])
  | ok u => exact .inr ⟨rfl, h⟩

theorem guardE_eq_error {c : Bool} {e e' : Exn} (h : guardE c e' = .error e) : c = false ∧ e = e' := by
  cases c <;> simp [guardE] at h
  exact ⟨rfl, h.symm⟩

theorem firstErr_eq_error {β : Type} {l : List β} {f : β → Res Unit} {e : Exn}
    (h : firstErr l f = .error e) : ∃ x ∈ l, f x = .error e := by
  unfold firstErr at h
  have key : ∀ (l : List β) (acc : Res Unit),
      l.foldl (fun acc x => Res.andThen acc (f x)) acc = .error e →
        acc = .error e ∨ ∃ x ∈ l, f x = .error e := by
    intro l
    induction l with
    | nil => intro acc h; exact .inl h
    | cons a t ih =>
      intro acc h
      rw [List.foldl_cons] at h
      rcases ih _ h with h | ⟨x, hx, hfx⟩
      · rcases andThen_eq_error h with h | ⟨_, h⟩
        · exact .inl h
        · exact .inr ⟨a, by simp, h⟩
      · exact .inr ⟨x, List.mem_cons_of_mem _ hx, hfx⟩
  rcases key l _ h with h | h
  · cases h
  · exact h

/-- A `Res Unit` is `ok` or an error. -/
theorem res_ok_or_error (r : Res Unit) : r = .ok () ∨ ∃ e, r = .error e := by
  cases r with
  | ok u => exact .inl rfl
  | error e => exact .inr ⟨e, rfl⟩

/-! ### association lists with unique keys -/

theorem alookup_of_mem_nodup {κ β : Type} [DecidableEq κ] {l : List (κ × β)} (hnd : (akeys l).Nodup)
    {k : κ} {v : β} (h : (k, v) ∈ l) : alookup k l = some v := by
  induction l with
  | nil => simp at h
  | cons kv t ih =>
    obtain ⟨k', v'⟩ := kv
    simp only [akeys, List.map_cons, List.nodup_cons] at hnd
    simp only [alookup]
    rcases List.mem_cons.mp h with h | h
    · cases h; simp
    · have hk : k ∈ akeys t := List.mem_map.mpr ⟨(k, v), h, rfl⟩
      have : k' ≠ k := fun hh => hnd.1 (hh ▸ hk)
      simp only [this, if_false]
      exact ih hnd.2 h

theorem alookup_some_mem' {κ β : Type} [DecidableEq κ] {k : κ} {v : β} {d : List (κ × β)}
    (h : alookup k d = some v) : (k, v) ∈ d := by
  induction d with
  | nil => simp [alookup] at h
  | cons kv t ih =>
    obtain ⟨k', v'⟩ := kv
    simp only [alookup] at h
    split at h
    · rename_i hk; cases h; subst hk; simp
    · exact List.mem_cons_of_mem _ (ih h)

theorem alookup_isSome_iff' {κ β : Type} [DecidableEq κ] {k : κ} {d : List (κ × β)} :
    (alookup k d).isSome = true ↔ k ∈ akeys d := by
  induction d with
  | nil => simp [akeys, alookup]
  | cons kv t ih =>
    obtain ⟨k', v'⟩ := kv
    simp only [alookup]
    by_cases hk : k' = k
    · simp [hk, akeys]
    · simp only [hk, if_false, akeys, List.map_cons, List.mem_cons]
      rw [ih]
      constructor
      · intro h; exact Or.inr h
      · rintro (h | h)
        · exact absurd h.symm hk
        · exact h

/-- With unique keys, `transitions[q][a][X]` exists iff the three nested dicts have the keys. -/
theorem Table.entry?_isSome_iff (M : Table σ α γ τ) (hk : M.KeysUnique) (q : σ) (a : Option α) (X : γ) :
    (M.entry? q a X).isSome = true ↔
      ∃ row sp, (q, row) ∈ M.trans ∧ (a, sp) ∈ row ∧ X ∈ akeys sp := by
  unfold Table.entry?
  constructor
  · intro h
    cases h1 : alookup q M.trans with
    | none => simp [h1] at h
    | some row =>
      cases h2 : alookup a row with
      | none => simp [h1, h2] at h
      | some sp =>
        simp only [h1, h2] at h
        exact ⟨row, sp, alookup_some_mem' h1, alookup_some_mem' h2, alookup_isSome_iff'.mp h⟩
  · rintro ⟨row, sp, h1, h2, h3⟩
    rw [alookup_of_mem_nodup hk.1 h1]
    simp only
    rw [alookup_of_mem_nodup (hk.2 _ h1) h2]
    exact alookup_isSome_iff'.mpr h3

end AV.PDA

namespace AV.PDA
set_option linter.unusedSectionVars false
variable {σ α γ τ : Type} [DecidableEq σ] [DecidableEq α] [DecidableEq γ]

/-! ### the common tail and the NPDA -/

theorem Table.mode_valid_iff (s : String) : s ∈ Gen.Pda.validModes ↔ ∃ m : AccMode, s = m.literal := by
  constructor
  · intro h
    simp only [Gen.Pda.validModes, List.mem_cons, List.not_mem_nil, or_false] at h
    rcases h with h | h | h
    · exact ⟨.finalState, h⟩
    · exact ⟨.emptyStack, h⟩
    · exact ⟨.both, h⟩
  · rintro ⟨m, rfl⟩; cases m <;> simp [Gen.Pda.validModes, AccMode.literal]

theorem Table.validateCommon_eq_ok (M : Table σ α γ τ) :
    M.validateCommon = .ok () ↔
      M.init ∈ M.states ∧ M.initStack ∈ M.stackSyms ∧ (∀ q ∈ M.finals, q ∈ M.states) ∧
      ∃ m : AccMode, M.mode = m.literal := by
  unfold Table.validateCommon
  simp only [Res.andThen_eq_ok, guardE_eq_ok, decide_eq_true_eq, List.all_eq_true,
    Table.mode_valid_iff]

theorem Table.validateInputSymbol_eq_ok (M : Table σ α γ τ) (a : Option α) :
    M.validateInputSymbol a = .ok () ↔ ∀ b, a = some b → b ∈ M.inputSyms := by
  cases a with
  | none => simp [Table.validateInputSymbol]
  | some b => simp [Table.validateInputSymbol]

theorem Table.validateStackSymbol_eq_ok (M : Table σ α γ τ) (X : γ) :
    M.validateStackSymbol X = .ok () ↔ X ∈ M.stackSyms := by
  simp [Table.validateStackSymbol]

/-- `NPDA.validate` succeeds exactly on well-formed definitions. -/
theorem NPDA.validate_eq_ok (M : NPDA σ α γ) : M.validate = .ok () ↔ M.WellFormed := by
  unfold NPDA.validate NPDA.validateRow
  simp only [Res.andThen_eq_ok, firstErr_eq_ok, Table.validateCommon_eq_ok,
    Table.validateInputSymbol_eq_ok, Table.validateStackSymbol_eq_ok]
  constructor
  · rintro ⟨h1, h2, h3, h4, h5⟩
    exact ⟨fun kv hkv e he => (h1 kv hkv e he).1, fun kv hkv e he => (h1 kv hkv e he).2, h2, h3, h4, h5⟩
  · intro wf
    exact ⟨fun kv hkv e he => ⟨wf.inputOk kv hkv e he, wf.stackOk kv hkv e he⟩,
      wf.initOk, wf.initStackOk, wf.finalsOk, wf.modeOk⟩

/-! ### the DPDA determinism check -/

/-- Determinism as the validator sees it: in no row does a symbol entry share a stack
symbol with the λ entry. -/
def DPDA.DetRows (M : DPDA σ α γ) : Prop :=
  ∀ kv ∈ M.trans, ∀ e ∈ kv.2, e.1 = none → ∀ sib ∈ kv.2, sib.1 ≠ none →
    ∀ Y ∈ akeys sib.2, Y ∉ akeys e.2

theorem DPDA.detRows_iff (M : DPDA σ α γ) (hk : M.KeysUnique) : M.DetRows ↔ ¬ M.TwoMoves := by
  constructor
  · rintro hdet ⟨q, a, X, h1, h2⟩
    obtain ⟨row, sp, hrow, hsp, hX⟩ := (M.entry?_isSome_iff hk q (some a) X).mp h1
    obtain ⟨row', sp', hrow', hsp', hX'⟩ := (M.entry?_isSome_iff hk q none X).mp h2
    have : row = row' := by
      have e1 := alookup_of_mem_nodup hk.1 hrow
      have e2 := alookup_of_mem_nodup hk.1 hrow'
      rw [e1] at e2; exact Option.some.inj e2
    subst this
    exact hdet (q, row) hrow (none, sp') hsp' rfl (some a, sp) hsp (by simp) X hX hX'
  · intro hno kv hkv e he hen sib hsib hsn Y hY hYe
    apply hno
    obtain ⟨q, row⟩ := kv
    obtain ⟨a, sp⟩ := sib
    obtain ⟨a', sp'⟩ := e
    simp only at hen hsn hY hYe he hsib
    subst hen
    cases a with
    | none => exact absurd rfl hsn
    | some a =>
      exact ⟨q, a, Y, (M.entry?_isSome_iff hk q (some a) Y).mpr ⟨row, sp, hkv, hsib, hY⟩,
        (M.entry?_isSome_iff hk q none Y).mpr ⟨row, sp', hkv, he, hYe⟩⟩

theorem DPDA.siblingCheck_eq (M : DPDA σ α γ) (hk : M.KeysUnique) {q : σ}
    {row : List (Option α × List (γ × (σ × List γ)))} (hrow : (q, row) ∈ M.trans)
    {epsRow : List (γ × (σ × List γ))} (heps : (none, epsRow) ∈ row)
    (sibPath : List (γ × (σ × List γ))) :
    M.siblingCheck q sibPath =
      firstErr (akeys sibPath) fun Y => guardE (!ahas Y epsRow) (.lib .nondeterminismError) := by
  unfold DPDA.siblingCheck
  rw [alookup_of_mem_nodup hk.1 hrow]
  simp only
  rw [alookup_of_mem_nodup (hk.2 _ hrow) heps]

theorem ahas_iff' {κ β : Type} [DecidableEq κ] {k : κ} {d : List (κ × β)} :
    ahas k d = true ↔ k ∈ akeys d := by
  unfold ahas; exact alookup_isSome_iff'

theorem DPDA.validateSibling_eq (M : DPDA σ α γ) (hk : M.KeysUnique) {q : σ}
    {row : List (Option α × List (γ × (σ × List γ)))} (hrow : (q, row) ∈ M.trans)
    {epsRow : List (γ × (σ × List γ))} (heps : (none, epsRow) ∈ row)
    (sib : Option α × List (γ × (σ × List γ))) :
    M.validateSibling q sib =
      if sib.1 = none then .ok () else
        firstErr (akeys sib.2) fun Y => guardE (!ahas Y epsRow) (.lib .nondeterminismError) := by
  unfold DPDA.validateSibling
  cases hs : sib.1 with
  | none => simp
  | some b => simp [M.siblingCheck_eq hk hrow heps]

theorem DPDA.validateIsolated_eq (M : DPDA σ α γ) (hk : M.KeysUnique) {q : σ}
    {row : List (Option α × List (γ × (σ × List γ)))} (hrow : (q, row) ∈ M.trans)
    {epsRow : List (γ × (σ × List γ))} (heps : (none, epsRow) ∈ row) :
    M.validateIsolated q none =
      firstErr row fun sib =>
        if sib.1 = none then .ok () else
          firstErr (akeys sib.2) fun Y => guardE (!ahas Y epsRow) (.lib .nondeterminismError) := by
  unfold DPDA.validateIsolated
  simp only
  rw [alookup_of_mem_nodup hk.1 hrow]
  simp only [M.validateSibling_eq hk hrow heps]

theorem DPDA.validateIsolated_eq_ok (M : DPDA σ α γ) (hk : M.KeysUnique) {q : σ}
    {row : List (Option α × List (γ × (σ × List γ)))} (hrow : (q, row) ∈ M.trans)
    {epsRow : List (γ × (σ × List γ))} (heps : (none, epsRow) ∈ row) :
    M.validateIsolated q none = .ok () ↔
      ∀ sib ∈ row, sib.1 ≠ none → ∀ Y ∈ akeys sib.2, Y ∉ akeys epsRow := by
  rw [M.validateIsolated_eq hk hrow heps, firstErr_eq_ok]
  constructor
  · intro h sib hsib hsn Y hY hYe
    have := h sib hsib
    simp only [hsn, if_false, firstErr_eq_ok, guardE_eq_ok, Bool.not_eq_true'] at this
    have := this Y hY
    rw [ahas_iff'.mpr hYe] at this; cases this
  · intro h sib hsib
    by_cases hs : sib.1 = none
    · simp [hs]
    · simp only [hs, if_false, firstErr_eq_ok, guardE_eq_ok, Bool.not_eq_true']
      intro Y hY
      have := h sib hsib hs Y hY
      cases hh : ahas Y epsRow with
      | false => rfl
      | true => exact absurd (ahas_iff'.mp hh) this

theorem DPDA.validateIsolated_error (M : DPDA σ α γ) (hk : M.KeysUnique) {q : σ}
    {row : List (Option α × List (γ × (σ × List γ)))} (hrow : (q, row) ∈ M.trans)
    {epsRow : List (γ × (σ × List γ))} (heps : (none, epsRow) ∈ row) {err : Exn}
    (h : M.validateIsolated q none = .error err) : err = .lib .nondeterminismError := by
  rw [M.validateIsolated_eq hk hrow heps] at h
  obtain ⟨sib, _, hs⟩ := firstErr_eq_error h
  by_cases hs1 : sib.1 = none
  · simp [hs1] at hs
  · simp only [hs1, if_false] at hs
    obtain ⟨Y, _, hY⟩ := firstErr_eq_error hs
    exact (guardE_eq_error hY).2

end AV.PDA

namespace AV.PDA
set_option linter.unusedSectionVars false
variable {σ α γ τ : Type} [DecidableEq σ] [DecidableEq α] [DecidableEq γ]

/-! ### `DPDA.validate` -/

theorem DPDA.validateRow_eq_ok (M : DPDA σ α γ) (q : σ)
    (paths : List (Option α × List (γ × (σ × List γ)))) :
    M.validateRow q paths = .ok () ↔
      ∀ e ∈ paths, (∀ b, e.1 = some b → b ∈ M.inputSyms) ∧
        ∀ X ∈ akeys e.2, M.validateIsolated q e.1 = .ok () ∧ X ∈ M.stackSyms := by
  unfold DPDA.validateRow
  simp only [firstErr_eq_ok, Res.andThen_eq_ok, Table.validateInputSymbol_eq_ok,
    Table.validateStackSymbol_eq_ok]

/-- `DPDA.validate` succeeds exactly on well-formed definitions in which no row has a symbol
entry sharing a stack symbol with its λ entry. -/
theorem DPDA.validate_eq_ok_rows (M : DPDA σ α γ) (hk : M.KeysUnique) :
    M.validate = .ok () ↔ M.WellFormed ∧ M.DetRows := by
  unfold DPDA.validate
  simp only [Res.andThen_eq_ok, firstErr_eq_ok, DPDA.validateRow_eq_ok, Table.validateCommon_eq_ok]
  constructor
  · rintro ⟨h1, h2, h3, h4, h5⟩
    refine ⟨⟨fun kv hkv e he => (h1 kv hkv e he).1, fun kv hkv e he X hX => ((h1 kv hkv e he).2 X hX).2,
      h2, h3, h4, h5⟩, ?_⟩
    intro kv hkv e he hen sib hsib hsn Y hY hYe
    have hiso := ((h1 kv hkv e he).2 Y hYe).1
    obtain ⟨q, row⟩ := kv
    obtain ⟨a, sp⟩ := e
    simp only at hen hiso he hYe
    subst hen
    exact (M.validateIsolated_eq_ok hk hkv he).mp hiso sib hsib hsn Y hY hYe
  · rintro ⟨wf, hdet⟩
    refine ⟨fun kv hkv e he => ⟨wf.inputOk kv hkv e he, fun X hX => ⟨?_, wf.stackOk kv hkv e he X hX⟩⟩,
      wf.initOk, wf.initStackOk, wf.finalsOk, wf.modeOk⟩
    obtain ⟨q, row⟩ := kv
    obtain ⟨a, sp⟩ := e
    cases a with
    | some b => rfl
    | none =>
      exact (M.validateIsolated_eq_ok hk hkv he).mpr
        (fun sib hsib hsn Y hY => hdet (q, row) hkv (none, sp) he rfl sib hsib hsn Y hY)

/-- Where an error of `DPDA.validate` comes from. -/
theorem DPDA.validate_error_cases (M : DPDA σ α γ) {E : Exn} (h : M.validate = .error E) :
    (∃ kv ∈ M.trans, ∃ e ∈ kv.2, M.validateInputSymbol e.1 = .error E) ∨
    (∃ kv ∈ M.trans, ∃ e ∈ kv.2, ∃ X ∈ akeys e.2, M.validateStackSymbol X = .error E) ∨
    (∃ kv ∈ M.trans, ∃ e ∈ kv.2, M.validateIsolated kv.1 e.1 = .error E) ∨
    M.validateCommon = .error E := by
  unfold DPDA.validate at h
  rcases andThen_eq_error h with h | ⟨_, h⟩
  · obtain ⟨kv, hkv, h⟩ := firstErr_eq_error h
    unfold DPDA.validateRow at h
    obtain ⟨e, he, h⟩ := firstErr_eq_error h
    rcases andThen_eq_error h with h | ⟨_, h⟩
    · exact .inl ⟨kv, hkv, e, he, h⟩
    · obtain ⟨X, hX, h⟩ := firstErr_eq_error h
      rcases andThen_eq_error h with h | ⟨_, h⟩
      · exact .inr (.inr (.inl ⟨kv, hkv, e, he, h⟩))
      · exact .inr (.inl ⟨kv, hkv, e, he, X, hX, h⟩)
  · exact .inr (.inr (.inr h))

theorem Table.validateInputSymbol_error (M : Table σ α γ τ) {a : Option α} {E : Exn}
    (h : M.validateInputSymbol a = .error E) : E = .lib .invalidSymbolError := by
  cases a with
  | none => simp [Table.validateInputSymbol] at h
  | some b => exact (guardE_eq_error h).2

theorem Table.validateStackSymbol_error (M : Table σ α γ τ) {X : γ} {E : Exn}
    (h : M.validateStackSymbol X = .error E) : E = .lib .invalidSymbolError :=
  (guardE_eq_error h).2

theorem Table.validateCommon_error (M : Table σ α γ τ) {E : Exn} (h : M.validateCommon = .error E) :
    E = .lib .invalidStateError ∨ E = .lib .invalidSymbolError ∨ E = .lib .invalidAcceptanceModeError := by
  unfold Table.validateCommon at h
  rcases andThen_eq_error h with h | ⟨_, h⟩
  · exact .inl (guardE_eq_error h).2
  rcases andThen_eq_error h with h | ⟨_, h⟩
  · exact .inr (.inl (guardE_eq_error h).2)
  rcases andThen_eq_error h with h | ⟨_, h⟩
  · exact .inl (guardE_eq_error h).2
  · exact .inr (.inr (guardE_eq_error h).2)

/-- `DPDA.validate` raises `NondeterminismError` only for tables that fail the row test. -/
theorem DPDA.validate_nondeterminism_rows (M : DPDA σ α γ) (hk : M.KeysUnique)
    (h : M.validate = .error (.lib .nondeterminismError)) : ¬ M.DetRows := by
  intro hdet
  rcases M.validate_error_cases h with ⟨_, _, _, _, h⟩ | ⟨_, _, _, _, _, _, h⟩ | ⟨kv, hkv, e, he, h⟩ | h
  · cases Table.validateInputSymbol_error M h
  · cases Table.validateStackSymbol_error M h
  · obtain ⟨q, row⟩ := kv
    obtain ⟨a, sp⟩ := e
    cases a with
    | some b => simp [DPDA.validateIsolated] at h
    | none =>
      have hok := (M.validateIsolated_eq_ok hk hkv he).mpr
        (fun sib hsib hsn Y hY => hdet (q, row) hkv (none, sp) he rfl sib hsib hsn Y hY)
      simp only at h
      rw [hok] at h; cases h
  · rcases Table.validateCommon_error M h with h | h | h <;> cases h

/-- On a definition that satisfies all other rules, a failing row test is reported as
`NondeterminismError` (and as nothing else). -/
theorem DPDA.validate_of_wf_not_det (M : DPDA σ α γ) (hk : M.KeysUnique) (wf : M.WellFormed)
    (hnd : ¬ M.DetRows) : M.validate = .error (.lib .nondeterminismError) := by
  rcases res_ok_or_error M.validate with h | ⟨E, h⟩
  · exact absurd ((M.validate_eq_ok_rows hk).mp h).2 hnd
  · rw [h]
    congr 1
    rcases M.validate_error_cases h with ⟨kv, hkv, e, he, h'⟩ | ⟨kv, hkv, e, he, X, hX, h'⟩ |
        ⟨kv, hkv, e, he, h'⟩ | h'
    · have := (Table.validateInputSymbol_eq_ok M e.1).mpr (wf.inputOk kv hkv e he)
      rw [this] at h'; cases h'
    · have := (Table.validateStackSymbol_eq_ok M X).mpr (wf.stackOk kv hkv e he X hX)
      rw [this] at h'; cases h'
    · obtain ⟨q, row⟩ := kv
      obtain ⟨a, sp⟩ := e
      cases a with
      | some b => simp [DPDA.validateIsolated] at h'
      | none => exact M.validateIsolated_error hk hkv he h'
    · have := (Table.validateCommon_eq_ok M).mpr ⟨wf.initOk, wf.initStackOk, wf.finalsOk, wf.modeOk⟩
      rw [this] at h'; cases h'

end AV.PDA
