/-
Proofs/GnfaReValidate.lean — one validator model instead of two.

`simpleRxValid` (Model/GNFAValidate.lean: a character-level lexer + its own `validate_tokens`) was
written for C12 before the C10/C11 model of `regex.validate` existed.  Here it is proved to be
the same function as `reValidate` (Model/GNFARe.lean: `re._validate` on top of C10's `lex` and
`validateTokens`) on every string that does not contain `{` — valid or not, with or without
white space — so that nothing about `re._validate` rests on `simpleRxValid` alone:

* `simpleRxValid_eq_reValidate` — the agreement;
* `strLabelCheck_congr`, `fromDFA_congr`, `fromNFA_congr` — for an alphabet without `{` the
  label check of `GNFA.validate` never calls the validator on a string with `{`, so the
  constructors instantiated with either validator are the same function.

Core only.
-/
import AutomataVerif.Model.GNFARe
import AutomataVerif.Proofs.RxLex
import AutomataVerif.Proofs.RxValidate
import AutomataVerif.Proofs.RxEval

namespace AV.GNFA.ReValidate
open AV AV.GNFA AV.Rx

set_option linter.unusedSectionVars false

/-! ### the lexer, one character at a time -/

/-- The token class `validate_tokens` sees (`isinstance` against the five base classes). -/
def clsB : Base → RxTok
  | .literal => .lit
  | .infixOp => .infix
  | .postfixOp => .postfix
  | .lparen => .lparen
  | .rparen => .rparen
  | .unknown => .lit

def cls (t : Tok Char) : RxTok := clsB t.base

/-- `get_token` on a text that starts with a white-space character: no rule matches. -/
theorem getToken_space {c : Char} (h : isPySpace c = true) (rest : List Char) :
    getToken (c :: rest) = .ok none := by
  have h1 : c ≠ '(' := by rintro rfl; revert h; decide
  have h2 : c ≠ ')' := by rintro rfl; revert h; decide
  have h3 : c ≠ '|' := by rintro rfl; revert h; decide
  have h4 : c ≠ '&' := by rintro rfl; revert h; decide
  have h5 : c ≠ '^' := by rintro rfl; revert h; decide
  have h6 : c ≠ '*' := by rintro rfl; revert h; decide
  have h7 : c ≠ '+' := by rintro rfl; revert h; decide
  have h8 : c ≠ '?' := by rintro rfl; revert h; decide
  have h9 : c ≠ '.' := by rintro rfl; revert h; decide
  have h10 : c ≠ '{' := by rintro rfl; revert h; decide
  have hq := quantGroups_ne h10 rest
  simp [getToken, getTokenAux, Gen.Regex.lexerRules, matchLen_lp, matchLen_rp, matchLen_un,
    matchLen_in, matchLen_sh, matchLen_st, matchLen_pl, matchLen_op, matchLen_wi, matchLen_S,
    matchLen_q, litMatch, hq, h1, h2, h3, h4, h5, h6, h7, h8, h9, h]

/-- `get_token` on a text that starts with any other character that is not `{` (this includes
`}`, which is reserved but lexes as a one-character string): the `\S` rule. -/
theorem getToken_other {c : Char} (hs : isPySpace c = false) (h1 : c ≠ '(') (h2 : c ≠ ')')
    (h3 : c ≠ '|') (h4 : c ≠ '&') (h5 : c ≠ '^') (h6 : c ≠ '*') (h7 : c ≠ '+') (h8 : c ≠ '?')
    (h9 : c ≠ '.') (h10 : c ≠ '{') (rest : List Char) :
    getToken (c :: rest) = .ok (some ("StringToken", 1)) := by
  have hq := quantGroups_ne h10 rest
  simp [getToken, getTokenAux, Gen.Regex.lexerRules, matchLen_lp, matchLen_rp, matchLen_un,
    matchLen_in, matchLen_sh, matchLen_st, matchLen_pl, matchLen_op, matchLen_wi, matchLen_S,
    matchLen_q, litMatch, hq, h1, h2, h3, h4, h5, h6, h7, h8, h9, hs]

/-- "append the token `t` to what the rest lexes to". -/
def push (t : Tok Char) (r : Res (List (Tok Char))) : Res (List (Tok Char)) :=
  match r with
  | .error e => .error e
  | .ok ts => .ok (t :: ts)

theorem lexAux_op {t : Tok Char} {x : Char} (h : TokText t [x]) (rest : List Char) (fuel : Nat) :
    lexAux (fuel + 1) (x :: rest) = push t (lexAux fuel rest) := by
  have := lexAux_tok h rest fuel
  rw [List.singleton_append] at this
  rw [this]
  cases lexAux fuel rest <;> rfl

/-- One iteration of the lexer loop on a character other than `{`, in the order of the tests
of `lexSimple`. -/
theorem lexAux_cons {c : Char} (hc : c ≠ '{') (rest : List Char) (fuel : Nat) :
    lexAux (fuel + 1) (c :: rest) =
      if c = '(' then push .lparen (lexAux fuel rest)
      else if c = ')' then push .rparen (lexAux fuel rest)
      else if c = '|' then push .union (lexAux fuel rest)
      else if c = '&' then push .inter (lexAux fuel rest)
      else if c = '^' then push .shuffle (lexAux fuel rest)
      else if c = '*' then push .star (lexAux fuel rest)
      else if c = '+' then push .plus (lexAux fuel rest)
      else if c = '?' then push .opt (lexAux fuel rest)
      else if c = ' ' ∨ c = '\t' then lexAux fuel rest
      else if isPySpace c = true then .error (.lib .lexerError)
      else if c = '.' then push .wildcard (lexAux fuel rest)
      else push (.str [c]) (lexAux fuel rest) := by
  by_cases h1 : c = '('
  · subst h1; rw [if_pos rfl]; exact lexAux_op TokText.lparen rest fuel
  rw [if_neg h1]
  by_cases h2 : c = ')'
  · subst h2; rw [if_pos rfl]; exact lexAux_op TokText.rparen rest fuel
  rw [if_neg h2]
  by_cases h3 : c = '|'
  · subst h3; rw [if_pos rfl]; exact lexAux_op TokText.union rest fuel
  rw [if_neg h3]
  by_cases h4 : c = '&'
  · subst h4; rw [if_pos rfl]; exact lexAux_op TokText.inter rest fuel
  rw [if_neg h4]
  by_cases h5 : c = '^'
  · subst h5; rw [if_pos rfl]; exact lexAux_op TokText.shuffle rest fuel
  rw [if_neg h5]
  by_cases h6 : c = '*'
  · subst h6; rw [if_pos rfl]; exact lexAux_op TokText.star rest fuel
  rw [if_neg h6]
  by_cases h7 : c = '+'
  · subst h7; rw [if_pos rfl]; exact lexAux_op TokText.plus rest fuel
  rw [if_neg h7]
  by_cases h8 : c = '?'
  · subst h8; rw [if_pos rfl]; exact lexAux_op TokText.opt rest fuel
  rw [if_neg h8]
  by_cases hb : c = ' ' ∨ c = '\t'
  · rw [if_pos hb]
    exact lexAux_blank (by rcases hb with rfl | rfl <;> decide) rest fuel
  rw [if_neg hb]
  by_cases hs : isPySpace c = true
  · rw [if_pos hs]
    have hnb : isBlank c = false := by
      simp only [isBlank, Bool.or_eq_false_iff, beq_eq_false_iff_ne, ne_eq]
      exact ⟨fun h => hb (Or.inl h), fun h => hb (Or.inr h)⟩
    simp only [lexAux, getToken_space hs, hnb, Bool.false_eq_true, if_false]
  rw [if_neg hs]
  by_cases h9 : c = '.'
  · subst h9; rw [if_pos rfl]; exact lexAux_op TokText.wildcard rest fuel
  rw [if_neg h9]
  have hs' : isPySpace c = false := by simpa using hs
  have hg := getToken_other hs' h1 h2 h3 h4 h5 h6 h7 h8 h9 hc rest
  have hm : mkToken "StringToken" [c] = .ok (.str [c]) := rfl
  simp only [lexAux, hg, List.take_succ_cons, List.take_zero, hm, List.drop_succ_cons,
    List.drop_zero, push]
  cases lexAux fuel rest <;> rfl

/-- **The two lexers agree** on every string without `{`: either both succeed and the
character-level token classes are the classes of the real tokens, or both raise `LexerError`. -/
theorem lex_agree (s : Str) (hs : '{' ∉ s) : ∀ fuel, s.length ≤ fuel →
    (∃ ts, lexAux fuel s = .ok ts ∧ lexSimple s = .ok (ts.map cls)) ∨
    (lexAux fuel s = .error (.lib .lexerError) ∧ lexSimple s = .error (.lib .lexerError)) := by
  induction s with
  | nil =>
    intro fuel _
    left
    exact ⟨[], by cases fuel <;> rfl, rfl⟩
  | cons c rest ih =>
    intro fuel hf
    obtain ⟨f, rfl⟩ : ∃ f, fuel = f + 1 := ⟨fuel - 1, by simp at hf; omega⟩
    have hc : c ≠ '{' := fun h => hs (by simp [h])
    have hrest : '{' ∉ rest := fun h => hs (List.mem_cons_of_mem _ h)
    have hstep := lexAux_cons hc rest f
    have hsp : pyIsSpace c = isPySpace c := rfl
    rcases ih hrest f (by simp at hf; omega) with ⟨ts, h1, h2⟩ | ⟨h1, h2⟩
    · rw [h1] at hstep
      simp only [lexSimple, h2]
      by_cases e1 : c = '('
      · left; exact ⟨.lparen :: ts, by rw [hstep, if_pos e1]; rfl, by rw [if_pos e1]; rfl⟩
      rw [if_neg e1] at hstep ⊢
      by_cases e2 : c = ')'
      · left; exact ⟨.rparen :: ts, by rw [hstep, if_pos e2]; rfl, by rw [if_pos e2]; rfl⟩
      rw [if_neg e2] at hstep ⊢
      by_cases e3 : c = '|'
      · left
        exact ⟨.union :: ts, by rw [hstep, if_pos e3]; rfl, by simp [e3, cls, clsB]⟩
      rw [if_neg e3] at hstep
      by_cases e4 : c = '&'
      · left
        exact ⟨.inter :: ts, by rw [hstep, if_pos e4]; rfl, by simp [e4, cls, clsB]⟩
      rw [if_neg e4] at hstep
      by_cases e5 : c = '^'
      · left
        exact ⟨.shuffle :: ts, by rw [hstep, if_pos e5]; rfl, by simp [e5, cls, clsB]⟩
      rw [if_neg e5] at hstep
      by_cases e6 : c = '*'
      · left
        exact ⟨.star :: ts, by rw [hstep, if_pos e6]; rfl, by simp [e6, cls, clsB]⟩
      rw [if_neg e6] at hstep
      by_cases e7 : c = '+'
      · left
        exact ⟨.plus :: ts, by rw [hstep, if_pos e7]; rfl, by simp [e7, cls, clsB]⟩
      rw [if_neg e7] at hstep
      by_cases e8 : c = '?'
      · left
        exact ⟨.opt :: ts, by rw [hstep, if_pos e8]; rfl, by simp [e8, cls, clsB]⟩
      rw [if_neg e8] at hstep
      have hinf : (c = '|' || c = '&' || c = '^') = false := by simp [e3, e4, e5]
      have hpost : (c = '*' || c = '+' || c = '?') = false := by simp [e6, e7, e8]
      simp only [hinf, hpost, Bool.false_eq_true, if_false]
      by_cases eb : c = ' ' ∨ c = '\t'
      · left
        refine ⟨ts, by rw [hstep, if_pos eb], ?_⟩
        have : (c = ' ' || c = '\t') = true := by simpa using eb
        rw [if_pos this]
      rw [if_neg eb] at hstep
      have hnb : (c = ' ' || c = '\t') = false := by simpa using eb
      simp only [hnb, Bool.false_eq_true, if_false]
      by_cases esp : isPySpace c = true
      · right
        exact ⟨by rw [hstep, if_pos esp], by rw [hsp, if_pos esp]⟩
      rw [if_neg esp] at hstep
      rw [hsp, if_neg esp]
      left
      by_cases e9 : c = '.'
      · exact ⟨.wildcard :: ts, by rw [hstep, if_pos e9]; rfl, by simp [cls, clsB]⟩
      · exact ⟨.str [c] :: ts, by rw [hstep, if_neg e9]; rfl, by simp [cls, clsB]⟩
    · right
      rw [h1] at hstep
      refine ⟨?_, by simp only [lexSimple, h2]⟩
      rw [hstep]
      have hp : ∀ t, push t (.error (.lib .lexerError) : Res (List (Tok Char))) =
          .error (.lib .lexerError) := fun _ => rfl
      simp only [hp, ite_self]

/-! ### `validate_tokens` -/

/-- `validateStep` on base classes is `validatePair` on token classes. -/
theorem stepB_eq (cnt : Int) (pb cb : Option Base) :
    stepB cnt pb cb =
      match validatePair (pb.map clsB) (cb.map clsB) cnt with
      | none => .error (.lib .invalidRegexError)
      | some p => .ok p := by
  cases pb with
  | none =>
    cases cb with
    | none => simp [stepB, validatePair]
    | some c => cases c <;> simp [stepB, validatePair, clsB]
  | some p =>
    cases cb with
    | none =>
      cases p <;> simp [stepB, validatePair, clsB] <;>
        (by_cases hlt : cnt - 1 < 0 <;> simp [hlt])
    | some c =>
      cases p <;> cases c <;> simp [stepB, validatePair, clsB] <;>
        (by_cases hlt : cnt - 1 < 0 <;> simp [hlt])

/-- The two validation loops agree. -/
theorem scan_eq (ts : List (Tok Char)) : ∀ (prev : Option (Tok Char)) (cnt : Int),
    (match scan prev cnt ts with
      | .error e => (.error e : Res Unit)
      | .ok c => if c != 0 then .error (.lib .invalidRegexError) else .ok ()) =
    if validateTokensAux (prev.map cls) (ts.map cls) cnt then .ok ()
    else .error (.lib .invalidRegexError) := by
  induction ts with
  | nil =>
    intro prev cnt
    simp only [scan, validateStep_eq, stepB_eq, List.map_nil, validateTokensAux, Option.map_none]
    have : prev.map cls = (prev.map Tok.base).map clsB := by cases prev <;> rfl
    rw [this]
    cases validatePair ((prev.map Tok.base).map clsB) none cnt with
    | none => simp
    | some p => by_cases hp : p = 0 <;> simp [hp]
  | cons t ts ih =>
    intro prev cnt
    simp only [scan, validateStep_eq, stepB_eq, List.map_cons, validateTokensAux, Option.map_some]
    have : prev.map cls = (prev.map Tok.base).map clsB := by cases prev <;> rfl
    rw [this]
    have ht : cls t = clsB t.base := rfl
    rw [ht]
    cases validatePair ((prev.map Tok.base).map clsB) (some (clsB t.base)) cnt with
    | none => simp
    | some p =>
      simp only
      exact ih (some t) p

theorem validateTokens_agree (ts : List (Tok Char)) :
    AV.Rx.validateTokens ts =
      if AV.validateTokens (ts.map cls) then .ok () else .error (.lib .invalidRegexError) := by
  rw [validateTokens_eq_scan]
  exact scan_eq ts none 0

/-! ### the two models of `re._validate` -/

/-- **One validator model**: on every string without `{` — well-formed or not, any white space —
the stand-alone model `simpleRxValid` is `re._validate` as built from the C10/C11 model of
`regex.validate` (same verdict, same escaping exception). -/
theorem simpleRxValid_eq_reValidate (s : Str) (hs : '{' ∉ s) :
    simpleRxValid s = reValidate s := by
  unfold simpleRxValid reValidate AV.Rx.validate lex
  rcases lex_agree s hs s.length (Nat.le_refl _) with ⟨ts, h1, h2⟩ | ⟨h1, h2⟩
  · rw [h1, h2]
    simp only [validateTokens_agree]
    cases AV.validateTokens (ts.map cls) <;> rfl
  · rw [h1, h2]

/-- The reviewer's form: `simpleRxValid` as a function of C10's `Rx.validate`. -/
theorem simpleRxValid_eq_of_validate (s : Str) (hs : '{' ∉ s) :
    simpleRxValid s =
      match AV.Rx.validate s with
      | .ok _ => .ok true
      | .error (.lib .invalidRegexError) => .ok false
      | .error e => .error e :=
  simpleRxValid_eq_reValidate s hs

/-! ### the constructors do not depend on which of the two is used -/

/-- When `{` is not an input symbol, `_validate_transition_invalid_symbols` rejects a label
containing `{` before it calls `re._validate`: the two instances of the label check are the same
function. -/
theorem strLabelCheck_congr {syms : List Char} (h : '{' ∉ syms) :
    strLabelCheck simpleRxValid syms = strLabelCheck reValidate syms := by
  funext regex
  unfold strLabelCheck
  split
  · rfl
  · rename_i hc
    have hno : '{' ∉ regex := by
      intro hmem
      apply hc
      simp only [Bool.and_eq_true, List.any_eq_true, decide_eq_true_eq, bne_iff_ne, ne_eq]
      refine ⟨⟨'{', hmem, ?_⟩, ?_⟩
      · intro hin
        rcases List.mem_append.mp hin with h' | h'
        · exact h h'
        · revert h'; decide
      · intro h0; subst h0; simp at hmem
    rw [simpleRxValid_eq_reValidate regex hno]

variable {σ : Type} [DecidableEq σ]

theorem validateStr_congr (g : GNFA σ Str) (h : '{' ∉ g.syms) :
    g.validateStr simpleRxValid = g.validateStr reValidate := by
  unfold validateStr
  rw [strLabelCheck_congr h]

theorem finishBuild_congr (natName : Nat → σ) (src : List σ) (syms : List Char)
    (rows : List (σ × List (σ × Option Str))) (init : σ) (finals : List σ) (h : '{' ∉ syms) :
    finishBuild simpleRxValid natName src syms rows init finals =
      finishBuild reValidate natName src syms rows init finals := by
  unfold finishBuild
  simp only
  split
  · rfl
  · split
    · rfl
    · rw [validateStr_congr _ h]

/-- `from_dfa` with either validator model is the same function when `{` is not a symbol. -/
theorem fromDFA_congr (natName : Nat → σ) (d : DFA σ Char) (h : '{' ∉ d.syms) :
    fromDFA simpleRxValid natName d = fromDFA reValidate natName d :=
  finishBuild_congr natName _ _ _ _ _ h

theorem fromNFA_congr (natName : Nat → σ) (n : NFA σ Char) (h : '{' ∉ n.syms) :
    fromNFA simpleRxValid natName n = fromNFA reValidate natName n :=
  finishBuild_congr natName _ _ _ _ _ h

end AV.GNFA.ReValidate
