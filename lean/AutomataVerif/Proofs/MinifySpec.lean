/-
Proofs/MinifySpec.lean — the interface between the two halves of the C05 proof:

* `hopcroft_nerode` (Proofs/Hopcroft.lean): the partition computed by the model of the
  `_minify` loop is a partition of the universe whose blocks are exactly the Nerode
  classes of the refinement system `(mdelta, mfin)`, for every pop order `pick`;
* the quotient construction (`minifyCore`), its language, validity, minimality
  (Proofs/MinQuotient.lean, Props/C05.lean) use that statement only.
-/
import AutomataVerif.Proofs.Basic
import AutomataVerif.Model.DFAOps

namespace AV
namespace DFA
variable {σ α : Type} [DecidableEq σ] [DecidableEq α]

/-- Run of the refinement system (kept states ∪ trap `none`). -/
def mrun (kept : List σ) (trans : List (σ × List (α × σ))) (s : Option σ) (w : List α) : Option σ :=
  w.foldl (mdelta kept trans) s

/-- Finality in the refinement system (`reachable_final_states`; the trap is never final). -/
def mfin (finals : List σ) : Option σ → Bool
  | none => false
  | some q => decide (q ∈ finals)

/-- Myhill–Nerode equivalence of two elements of the refinement system. -/
def MEquiv (kept : List σ) (trans : List (σ × List (α × σ))) (finals : List σ) (x y : Option σ) : Prop :=
  ∀ w : List α, mfin finals (mrun kept trans x w) = mfin finals (mrun kept trans y w)

/-- Preconditions under which the code calls `_minify`. -/
structure MinHyp (kept : List σ) (syms : List α) (trans : List (σ × List (α × σ))) (init : σ)
    (finals : List σ) : Prop where
  kept_nodup : kept.Nodup
  syms_nodup : syms.Nodup
  init_mem : init ∈ kept
  finals_sub : ∀ q ∈ finals, q ∈ kept
  /-- every kept state has a row -/
  rows : ∀ q ∈ kept, q ∈ akeys trans
  /-- rows only mention alphabet symbols -/
  keys : ∀ q r, alookup q trans = some r → ∀ a ∈ akeys r, a ∈ syms

namespace Part
variable {τ : Type} [DecidableEq τ]

/-- `p` is a partition of the list-as-set `U` into non-empty, duplicate-free blocks with
distinct ids below the fresh counter. -/
structure IsPartitionOf (p : Part τ) (U : List τ) : Prop where
  ids_nodup : (p.blocks.map Prod.fst).Nodup
  ids_lt : ∀ b ∈ p.blocks, b.1 < p.next
  nonempty : ∀ b ∈ p.blocks, b.2 ≠ []
  block_nodup : ∀ b ∈ p.blocks, b.2.Nodup
  cover : ∀ x, x ∈ U ↔ ∃ b ∈ p.blocks, x ∈ b.2
  disjoint : ∀ b ∈ p.blocks, ∀ c ∈ p.blocks, ∀ x, x ∈ b.2 → x ∈ c.2 → b = c

/-- `x` and `y` lie in the same block. -/
def Same (p : Part τ) (x y : τ) : Prop := ∃ b ∈ p.blocks, x ∈ b.2 ∧ y ∈ b.2

end Part

/-- The statement proved in Proofs/Hopcroft.lean. -/
def HopcroftCorrect (kept : List σ) (syms : List α) (trans : List (σ × List (α × σ)))
    (finals : List σ) (pick : List Nat → Nat) : Prop :=
  (hopcroft kept syms trans finals pick).IsPartitionOf (muniverse kept syms trans) ∧
  ∀ x ∈ muniverse kept syms trans, ∀ y ∈ muniverse kept syms trans,
    ((hopcroft kept syms trans finals pick).Same x y ↔ MEquiv kept trans finals x y)

end DFA
end AV
