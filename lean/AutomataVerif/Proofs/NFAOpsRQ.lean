/-
Proofs/NFAOpsRQ.lean — table-level specification of `NFA.right_quotient`
(Model/NFAOps.lean), given the specifications of the two `_eliminate_lambda` results.
Core only.
-/
import AutomataVerif.Model.NFAOps
import AutomataVerif.Proofs.NFAElimDefs
import AutomataVerif.Proofs.NFAOpsUnary

open AV.AL

namespace AV
namespace NFA
open AV.NFAElim

set_option linter.unusedSectionVars false

/-! ### helpers (own namespace: sibling files prove similar lemmas) -/

namespace RQ

/-- `itertools.product` as a set. -/
theorem mem_lprod {β γ : Type} {xs : List β} {ys : List γ} {p : β} {q : γ} :
    (p, q) ∈ lprod xs ys ↔ p ∈ xs ∧ q ∈ ys := by
  unfold lprod
  simp only [List.mem_flatMap, List.mem_map, Prod.mk.injEq]
  constructor
  · rintro ⟨x, hx, y, hy, rfl, rfl⟩
    exact ⟨hx, hy⟩
  · rintro ⟨hp, hq⟩
    exact ⟨p, hp, q, hq, rfl, rfl⟩

/-- A loop keeps an invariant its body keeps. -/
theorem foldl_inv {β γ : Type} (P : β → Prop) (Q : γ → Prop) (f : β → γ → β)
    (h : ∀ t c, Q c → P t → P (f t c)) :
    ∀ (l : List γ), (∀ c ∈ l, Q c) → ∀ t, P t → P (l.foldl f t) := by
  intro l
  induction l with
  | nil => intro _ t ht; exact ht
  | cons c l ih =>
    intro hl t ht
    rw [List.foldl_cons]
    exact ih (fun c' hc' => hl c' (List.mem_cons_of_mem _ hc')) _
      (h t c (hl c List.mem_cons_self) ht)

section Generic
variable {σ τ α : Type} [DecidableEq σ] [DecidableEq τ] [DecidableEq α]

/-- A loop whose body only adds targets adds the union of what the bodies add. -/
theorem mem_tgt_foldl {γ : Type} (f : Tbl σ α → γ → Tbl σ α)
    (E : γ → σ → Option α → σ → Prop)
    (h : ∀ t c x a p, p ∈ Tbl.tgt (f t c) x a ↔ p ∈ Tbl.tgt t x a ∨ E c x a p) :
    ∀ (l : List γ) (t : Tbl σ α) (x : σ) (a : Option α) (p : σ),
      p ∈ Tbl.tgt (l.foldl f t) x a ↔ p ∈ Tbl.tgt t x a ∨ ∃ c ∈ l, E c x a p := by
  intro l
  induction l with
  | nil => intro t x a p; simp
  | cons c l ih =>
    intro t x a p
    rw [List.foldl_cons, ih, h]
    constructor
    · rintro ((h1 | h1) | ⟨c', hc', h1⟩)
      · exact Or.inl h1
      · exact Or.inr ⟨c, List.mem_cons_self, h1⟩
      · exact Or.inr ⟨c', List.mem_cons_of_mem _ hc', h1⟩
    · rintro (h1 | ⟨c', hc', h1⟩)
      · exact Or.inl (Or.inl h1)
      · rcases List.mem_cons.mp hc' with rfl | hc'
        · exact Or.inl (Or.inr h1)
        · exact Or.inr ⟨c', hc', h1⟩

/-- `for symbol, ends in old.items(): t[ns][symbol] = {f e | e ∈ ends}`. -/
def setRow (ns : σ) (f : τ → σ) (old : Row τ α) (t : Tbl σ α) : Tbl σ α :=
  old.foldl (fun t e => Tbl.setTargets t ns e.1 (e.2.map f)) t

theorem setRow_cons (ns : σ) (f : τ → σ) (e : Option α × List τ) (old : Row τ α) (t : Tbl σ α) :
    setRow ns f (e :: old) t = setRow ns f old (Tbl.setTargets t ns e.1 (e.2.map f)) := rfl

theorem tgt_setRow_ne (ns : σ) (f : τ → σ) : ∀ (old : Row τ α) (t : Tbl σ α) (q : σ)
    (a : Option α), q ≠ ns → Tbl.tgt (setRow ns f old t) q a = Tbl.tgt t q a := by
  intro old
  induction old with
  | nil => intro t q a _; rfl
  | cons e old ih =>
    intro t q a h
    rw [setRow_cons, ih _ q a h, Tbl.tgt_setTargets]
    simp [h]

theorem tgt_setRow_self (ns : σ) (f : τ → σ) : ∀ (old : Row τ α), (akeys old).Nodup →
    ∀ (t : Tbl σ α) (a : Option α),
      Tbl.tgt (setRow ns f old t) ns a =
        ((alookup a old).map (List.map f)).getD (Tbl.tgt t ns a) := by
  intro old
  induction old with
  | nil => intro _ t a; rfl
  | cons e old ih =>
    obtain ⟨k, v⟩ := e
    intro hnd t a
    simp only [akeys, List.map_cons, List.nodup_cons] at hnd
    rw [setRow_cons, ih hnd.2, Tbl.tgt_setTargets, alookup_cons]
    by_cases hk : k = a
    · subst hk
      have : alookup k old = none := alookup_eq_none_iff.mpr hnd.1
      simp [this]
    · have hk' : ¬ a = k := fun e => hk e.symm
      simp [hk, hk']

theorem mem_akeys_setRow (ns : σ) (f : τ → σ) : ∀ (old : Row τ α) (t : Tbl σ α) (x : σ),
    x ∈ akeys t → x ∈ akeys (setRow ns f old t) := by
  intro old
  induction old with
  | nil => intro t x h; exact h
  | cons e old ih =>
    intro t x h
    rw [setRow_cons]
    exact ih _ x ((Tbl.mem_akeys_setTargets _ _ _ _ _).mpr (Or.inr h))

theorem dict_setRow (ns : σ) (f : τ → σ) : ∀ (old : Row τ α) (t : Tbl σ α), Tbl.Dict t →
    Tbl.Dict (setRow ns f old t) := by
  intro old
  induction old with
  | nil => intro t h; exact h
  | cons e old ih => intro t h; rw [setRow_cons]; exact ih _ (Tbl.dict_setTargets h _ _ _)

theorem ok_setRow {S : Option α → Prop} {T : σ → Prop} (ns : σ) (f : τ → σ) :
    ∀ (old : Row τ α) (t : Tbl σ α), (∀ e ∈ old, S e.1 ∧ ∀ x ∈ e.2, T (f x)) → Tbl.Ok S T t →
    Tbl.Ok S T (setRow ns f old t) := by
  intro old
  induction old with
  | nil => intro t _ h; exact h
  | cons e old ih =>
    intro t hr h
    rw [setRow_cons]
    refine ih _ (fun e' he' => hr e' (List.mem_cons_of_mem _ he')) ?_
    have he := hr e List.mem_cons_self
    refine Tbl.ok_setTargets h ns he.1 ?_
    intro p hp
    obtain ⟨x, hx, rfl⟩ := List.mem_map.mp hp
    exact he.2 x hx

end Generic

variable {σ₁ σ₂ α : Type} [DecidableEq σ₁] [DecidableEq σ₂] [DecidableEq α]

/-! ### loop 1: before reading the suffix -/

/-- Body of `for q in ra` (first loop of `right_quotient`). -/
def step1 (ta : Tbl σ₁ α) (bi : σ₂) (t : Tbl (σ₁ × σ₂ × Bool) α) (q : σ₁) :
    Tbl (σ₁ × σ₂ × Bool) α :=
  let ns := (q, bi, false)
  let t := Tbl.touch t ns
  let t := match alookup q ta with
    | some old => old.foldl (fun t e => Tbl.setTargets t ns e.1 (e.2.map fun p => (p, bi, false))) t
    | none => t
  Tbl.setTargets t ns none [(q, bi, true)]

theorem step1_eq (ta : Tbl σ₁ α) (bi : σ₂) (t : Tbl (σ₁ × σ₂ × Bool) α) (q : σ₁) :
    step1 ta bi t q =
      Tbl.setTargets (setRow (q, bi, false) (fun p => (p, bi, false)) ((alookup q ta).getD [])
        (Tbl.touch t (q, bi, false))) (q, bi, false) none [(q, bi, true)] := by
  unfold step1 setRow
  cases alookup q ta <;> rfl

theorem tgt_step1_ne (ta : Tbl σ₁ α) (bi : σ₂) (t : Tbl (σ₁ × σ₂ × Bool) α) (c : σ₁)
    (x : σ₁ × σ₂ × Bool) (a : Option α) (h : x ≠ (c, bi, false)) :
    Tbl.tgt (step1 ta bi t c) x a = Tbl.tgt t x a := by
  rw [step1_eq, Tbl.tgt_setTargets, tgt_setRow_ne _ _ _ _ _ _ h, Tbl.tgt_touch]
  simp [h]

theorem tgt_step1_none (ta : Tbl σ₁ α) (bi : σ₂) (t : Tbl (σ₁ × σ₂ × Bool) α) (c : σ₁) :
    Tbl.tgt (step1 ta bi t c) (c, bi, false) none = [(c, bi, true)] := by
  rw [step1_eq, Tbl.tgt_setTargets]
  simp

/-- The symbol reading of `ta`'s row of `q`, renamed, with default `d`. -/
def rd (ta : Tbl σ₁ α) (bi : σ₂) (q : σ₁) (a : α) (d : List (σ₁ × σ₂ × Bool)) :
    List (σ₁ × σ₂ × Bool) :=
  ((alookup (some a) ((alookup q ta).getD [])).map
    (List.map fun p => ((p, bi, false) : σ₁ × σ₂ × Bool))).getD d

theorem rd_rd (ta : Tbl σ₁ α) (bi : σ₂) (q : σ₁) (a : α) (d : List (σ₁ × σ₂ × Bool)) :
    rd ta bi q a (rd ta bi q a d) = rd ta bi q a d := by
  unfold rd
  cases alookup (some a) ((alookup q ta).getD []) <;> rfl

theorem mem_rd_nil (ta : Tbl σ₁ α) (bi : σ₂) (q : σ₁) (a : α) (t : σ₁ × σ₂ × Bool) :
    t ∈ rd ta bi q a [] ↔ ∃ p ∈ Tbl.tgt ta q (some a), t = (p, bi, false) := by
  unfold rd Tbl.tgt
  cases alookup (some a) ((alookup q ta).getD []) with
  | none => simp
  | some ts =>
    simp only [Option.map_some, Option.getD_some, List.mem_map]
    constructor
    · rintro ⟨p, hp, rfl⟩; exact ⟨p, hp, rfl⟩
    · rintro ⟨p, hp, rfl⟩; exact ⟨p, hp, rfl⟩

theorem tgt_step1_some (ta : Tbl σ₁ α) (hd : Tbl.Dict ta) (bi : σ₂)
    (t : Tbl (σ₁ × σ₂ × Bool) α) (c : σ₁) (a : α) :
    Tbl.tgt (step1 ta bi t c) (c, bi, false) (some a) =
      rd ta bi c a (Tbl.tgt t (c, bi, false) (some a)) := by
  rw [step1_eq, Tbl.tgt_setTargets, tgt_setRow_self _ _ _ (Tbl.row_nodup hd c), Tbl.tgt_touch]
  simp [rd]

theorem tgt_loop1_other (ta : Tbl σ₁ α) (bi : σ₂) (x : σ₁ × σ₂ × Bool) (a : Option α) :
    ∀ (l : List σ₁) (t : Tbl (σ₁ × σ₂ × Bool) α), (∀ c ∈ l, x ≠ (c, bi, false)) →
      Tbl.tgt (l.foldl (step1 ta bi) t) x a = Tbl.tgt t x a := by
  intro l
  induction l with
  | nil => intro t _; rfl
  | cons c l ih =>
    intro t h
    rw [List.foldl_cons, ih _ (fun c' hc' => h c' (List.mem_cons_of_mem _ hc')),
      tgt_step1_ne _ _ _ _ _ _ (h c List.mem_cons_self)]

theorem ne_of_not_mem {bi : σ₂} {q : σ₁} {l : List σ₁} (h : q ∉ l) :
    ∀ c ∈ l, ((q, bi, false) : σ₁ × σ₂ × Bool) ≠ (c, bi, false) := by
  intro c hc e
  have : q = c := congrArg Prod.fst e
  exact h (this ▸ hc)

theorem tgt_loop1_none (ta : Tbl σ₁ α) (bi : σ₂) (q : σ₁) :
    ∀ (l : List σ₁) (t : Tbl (σ₁ × σ₂ × Bool) α), q ∈ l →
      Tbl.tgt (l.foldl (step1 ta bi) t) (q, bi, false) none = [(q, bi, true)] := by
  intro l
  induction l with
  | nil => intro t h; simp at h
  | cons c l ih =>
    intro t h
    rw [List.foldl_cons]
    by_cases hq : q ∈ l
    · exact ih _ hq
    · have hc : q = c := by
        rcases List.mem_cons.mp h with e | e
        · exact e
        · exact absurd e hq
      subst hc
      rw [tgt_loop1_other _ _ _ _ _ _ (ne_of_not_mem hq), tgt_step1_none]

theorem tgt_loop1_some (ta : Tbl σ₁ α) (hd : Tbl.Dict ta) (bi : σ₂) (q : σ₁) (a : α) :
    ∀ (l : List σ₁) (t : Tbl (σ₁ × σ₂ × Bool) α), q ∈ l →
      Tbl.tgt (l.foldl (step1 ta bi) t) (q, bi, false) (some a) =
        rd ta bi q a (Tbl.tgt t (q, bi, false) (some a)) := by
  intro l
  induction l with
  | nil => intro t h; simp at h
  | cons c l ih =>
    intro t h
    rw [List.foldl_cons]
    by_cases hq : q ∈ l
    · rw [ih _ hq]
      by_cases hc : q = c
      · subst hc
        rw [tgt_step1_some _ hd, rd_rd]
      · rw [tgt_step1_ne]
        intro e
        exact hc (congrArg Prod.fst e)
    · have hc : q = c := by
        rcases List.mem_cons.mp h with e | e
        · exact e
        · exact absurd e hq
      subst hc
      rw [tgt_loop1_other _ _ _ _ _ _ (ne_of_not_mem hq), tgt_step1_some _ hd]

theorem mem_akeys_step1_self (ta : Tbl σ₁ α) (bi : σ₂) (t : Tbl (σ₁ × σ₂ × Bool) α) (c : σ₁) :
    (c, bi, false) ∈ akeys (step1 ta bi t c) := by
  rw [step1_eq]
  exact (Tbl.mem_akeys_setTargets _ _ _ _ _).mpr (Or.inl rfl)

theorem mem_akeys_step1_mono (ta : Tbl σ₁ α) (bi : σ₂) (t : Tbl (σ₁ × σ₂ × Bool) α) (c : σ₁)
    (x : σ₁ × σ₂ × Bool) (h : x ∈ akeys t) : x ∈ akeys (step1 ta bi t c) := by
  rw [step1_eq]
  exact (Tbl.mem_akeys_setTargets _ _ _ _ _).mpr (Or.inr (mem_akeys_setRow _ _ _ _ _
    ((Tbl.mem_akeys_touch _ _ _).mpr (Or.inr h))))

theorem mem_akeys_loop1 (ta : Tbl σ₁ α) (bi : σ₂) (q : σ₁) :
    ∀ (l : List σ₁) (t : Tbl (σ₁ × σ₂ × Bool) α), q ∈ l →
      (q, bi, false) ∈ akeys (l.foldl (step1 ta bi) t) := by
  intro l
  induction l with
  | nil => intro t h; simp at h
  | cons c l ih =>
    intro t h
    rw [List.foldl_cons]
    rcases List.mem_cons.mp h with rfl | h
    · exact foldl_inv (fun t => (q, bi, false) ∈ akeys t) (fun _ => True) (step1 ta bi)
        (fun t c _ ht => mem_akeys_step1_mono ta bi t c _ ht) l (fun _ _ => trivial) _
        (mem_akeys_step1_self ta bi t q)
    · exact ih _ h

theorem dict_step1 (ta : Tbl σ₁ α) (bi : σ₂) {t : Tbl (σ₁ × σ₂ × Bool) α} (h : Tbl.Dict t)
    (c : σ₁) : Tbl.Dict (step1 ta bi t c) := by
  rw [step1_eq]
  exact Tbl.dict_setTargets (dict_setRow _ _ _ _ (Tbl.dict_touch h _)) _ _ _

/-! ### loop 2: reading the suffix silently -/

/-- Body of the `for symbol in new_input_symbols` loop of `quotientSync`. -/
def syncStep (rowa : Row σ₁ α) (rowb : Row σ₂ α) (k : σ₁ × σ₂ × Bool) (flag : Bool)
    (t : Tbl (σ₁ × σ₂ × Bool) α) (a : α) : Tbl (σ₁ × σ₂ × Bool) α :=
  match alookup (some a) rowa, alookup (some a) rowb with
  | some ea, some eb =>
      Tbl.addTargets t k none ((lprod ea eb).map fun p => (p.1, p.2, flag))
  | _, _ => t

theorem quotientSync_eq (syms : List α) (ta : Tbl σ₁ α) (tb : Tbl σ₂ α) (flag : Bool)
    (t : Tbl (σ₁ × σ₂ × Bool) α) (qa : σ₁) (qb : σ₂) :
    quotientSync syms ta tb flag t qa qb =
      syms.foldl (syncStep ((alookup qa ta).getD []) ((alookup qb tb).getD []) (qa, qb, flag) flag)
        t := rfl

/-- What `syncStep` adds for the symbol `a`. -/
def SyncAt (rowa : Row σ₁ α) (rowb : Row σ₂ α) (k : σ₁ × σ₂ × Bool) (flag : Bool) (a : α)
    (x : σ₁ × σ₂ × Bool) (a' : Option α) (p : σ₁ × σ₂ × Bool) : Prop :=
  x = k ∧ a' = none ∧ ∃ ea eb, alookup (some a) rowa = some ea ∧ alookup (some a) rowb = some eb ∧
    ∃ pa ∈ ea, ∃ pb ∈ eb, p = (pa, pb, flag)

theorem mem_tgt_syncStep (rowa : Row σ₁ α) (rowb : Row σ₂ α) (k : σ₁ × σ₂ × Bool) (flag : Bool)
    (t : Tbl (σ₁ × σ₂ × Bool) α) (a : α) (x : σ₁ × σ₂ × Bool) (a' : Option α)
    (p : σ₁ × σ₂ × Bool) :
    p ∈ Tbl.tgt (syncStep rowa rowb k flag t a) x a' ↔
      p ∈ Tbl.tgt t x a' ∨ SyncAt rowa rowb k flag a x a' p := by
  unfold syncStep SyncAt
  split
  · rename_i ea eb ha hb
    rw [Tbl.mem_tgt_addTargets]
    constructor
    · rintro (h | ⟨hx, ha', hp⟩)
      · exact Or.inl h
      · obtain ⟨⟨pa, pb⟩, hpp, rfl⟩ := List.mem_map.mp hp
        obtain ⟨h1, h2⟩ := mem_lprod.mp hpp
        exact Or.inr ⟨hx, ha', ea, eb, ha, hb, pa, h1, pb, h2, rfl⟩
    · rintro (h | ⟨hx, ha', ea', eb', ha2, hb2, pa, h1, pb, h2, rfl⟩)
      · exact Or.inl h
      · rw [ha] at ha2; rw [hb] at hb2
        cases ha2; cases hb2
        exact Or.inr ⟨hx, ha', List.mem_map.mpr ⟨(pa, pb), mem_lprod.mpr ⟨h1, h2⟩, rfl⟩⟩
  · rename_i hne
    constructor
    · exact Or.inl
    · rintro (h | ⟨_, _, ea, eb, ha, hb, _⟩)
      · exact h
      · exact absurd hb (hne ea eb ha)

theorem dict_syncStep (rowa : Row σ₁ α) (rowb : Row σ₂ α) (k : σ₁ × σ₂ × Bool) (flag : Bool)
    {t : Tbl (σ₁ × σ₂ × Bool) α} (h : Tbl.Dict t) (a : α) :
    Tbl.Dict (syncStep rowa rowb k flag t a) := by
  unfold syncStep
  split
  · exact Tbl.dict_addTargets h _ _ _
  · exact h

theorem mem_akeys_syncStep (rowa : Row σ₁ α) (rowb : Row σ₂ α) (k : σ₁ × σ₂ × Bool) (flag : Bool)
    (t : Tbl (σ₁ × σ₂ × Bool) α) (a : α) (x : σ₁ × σ₂ × Bool) (h : x ∈ akeys t) :
    x ∈ akeys (syncStep rowa rowb k flag t a) := by
  unfold syncStep
  split
  · exact (Tbl.mem_akeys_addTargets _ _ _ _ _).mpr (Or.inr h)
  · exact h

theorem ok_syncStep {S : Option α → Prop} {T : σ₁ × σ₂ × Bool → Prop}
    (rowa : Row σ₁ α) (rowb : Row σ₂ α) (k : σ₁ × σ₂ × Bool) (flag : Bool)
    {t : Tbl (σ₁ × σ₂ × Bool) α} (h : Tbl.Ok S T t) (a : α) (hS : S none)
    (hT : ∀ ea eb, alookup (some a) rowa = some ea → alookup (some a) rowb = some eb →
      ∀ pa ∈ ea, ∀ pb ∈ eb, T (pa, pb, flag)) :
    Tbl.Ok S T (syncStep rowa rowb k flag t a) := by
  unfold syncStep
  split
  · rename_i ea eb ha hb
    refine Tbl.ok_addTargets h _ hS ?_
    intro p hp
    obtain ⟨⟨pa, pb⟩, hpp, rfl⟩ := List.mem_map.mp hp
    obtain ⟨h1, h2⟩ := mem_lprod.mp hpp
    exact hT ea eb ha hb pa h1 pb h2
  · exact h

/-- Reading of `quotientSync`. -/
theorem mem_tgt_quotientSync (syms : List α) (ta : Tbl σ₁ α) (tb : Tbl σ₂ α) (flag : Bool)
    (t : Tbl (σ₁ × σ₂ × Bool) α) (qa : σ₁) (qb : σ₂) (x : σ₁ × σ₂ × Bool) (a' : Option α)
    (p : σ₁ × σ₂ × Bool) :
    p ∈ Tbl.tgt (quotientSync syms ta tb flag t qa qb) x a' ↔
      p ∈ Tbl.tgt t x a' ∨ ∃ a ∈ syms,
        SyncAt ((alookup qa ta).getD []) ((alookup qb tb).getD []) (qa, qb, flag) flag a x a' p := by
  rw [quotientSync_eq]
  exact mem_tgt_foldl _ _ (fun t c x a p => mem_tgt_syncStep _ _ _ _ t c x a p) syms t x a' p

/-! ### the record passed to the constructor -/

def rqStates (ra : List σ₁) (rb : List σ₂) (bi : σ₂) : List (σ₁ × σ₂ × Bool) :=
  dedup ((ra.map fun q => (q, bi, false)) ++ (lprod ra rb).map fun p => (p.1, p.2, true))

theorem mem_rqStates {ra : List σ₁} {rb : List σ₂} {bi : σ₂} {s : σ₁ × σ₂ × Bool} :
    s ∈ rqStates ra rb bi ↔
      (∃ q ∈ ra, s = (q, bi, false)) ∨ (∃ qa ∈ ra, ∃ qb ∈ rb, s = (qa, qb, true)) := by
  unfold rqStates
  rw [mem_dedup, List.mem_append, List.mem_map, List.mem_map]
  constructor
  · rintro (⟨q, hq, rfl⟩ | ⟨⟨qa, qb⟩, hp, rfl⟩)
    · exact Or.inl ⟨q, hq, rfl⟩
    · obtain ⟨h1, h2⟩ := mem_lprod.mp hp
      exact Or.inr ⟨qa, h1, qb, h2, rfl⟩
  · rintro (⟨q, hq, rfl⟩ | ⟨qa, h1, qb, h2, rfl⟩)
    · exact Or.inl ⟨q, hq, rfl⟩
    · exact Or.inr ⟨(qa, qb), mem_lprod.mpr ⟨h1, h2⟩, rfl⟩

/-- `new_transitions` after the first loop. -/
def rqT1 (B : NFA σ₂ α) (ra : List σ₁) (ta : Tbl σ₁ α) : Tbl (σ₁ × σ₂ × Bool) α :=
  ra.foldl (step1 ta B.init) []

/-- `new_transitions` after the second loop. -/
def rqT2 (A : NFA σ₁ α) (B : NFA σ₂ α) (ra : List σ₁) (ta : Tbl σ₁ α) (rb : List σ₂)
    (tb : Tbl σ₂ α) : Tbl (σ₁ × σ₂ × Bool) α :=
  (lprod ra rb).foldl (fun t p => quotientSync (sunion A.syms B.syms) ta tb true t p.1 p.2)
    (rqT1 B ra ta)

/-- The record `right_quotient` passes to the constructor. -/
def rqRaw (A : NFA σ₁ α) (B : NFA σ₂ α) (ra : List σ₁) (ta : Tbl σ₁ α) (fa : List σ₁)
    (rb : List σ₂) (tb : Tbl σ₂ α) (fb : List σ₂) : NFA (σ₁ × σ₂ × Bool) α :=
  { states := rqStates ra rb B.init, syms := sunion A.syms B.syms,
    trans := rqT2 A B ra ta rb tb, init := (A.init, B.init, false),
    finals := (lprod fa fb).map fun p => (p.1, p.2, true) }

theorem rightQuotient_eq (A : NFA σ₁ α) (B : NFA σ₂ α)
    (ra : List σ₁) (ta : Tbl σ₁ α) (fa : List σ₁) (rb : List σ₂) (tb : Tbl σ₂ α) (fb : List σ₂)
    (hca : NFAElim.core A = .ok (ra, ta, fa)) (hcb : NFAElim.core B = .ok (rb, tb, fb)) :
    rightQuotient A B = create (rqRaw A B ra ta fa rb tb fb) := by
  unfold rightQuotient
  rw [hca, hcb]
  rfl

/-- Reading of the final table. -/
theorem mem_tgt_rqT2 (A : NFA σ₁ α) (B : NFA σ₂ α) (ra : List σ₁) (ta : Tbl σ₁ α) (rb : List σ₂)
    (tb : Tbl σ₂ α) (x : σ₁ × σ₂ × Bool) (a' : Option α) (p : σ₁ × σ₂ × Bool) :
    p ∈ Tbl.tgt (rqT2 A B ra ta rb tb) x a' ↔
      p ∈ Tbl.tgt (rqT1 B ra ta) x a' ∨ ∃ c ∈ lprod ra rb, ∃ a ∈ sunion A.syms B.syms,
        SyncAt ((alookup c.1 ta).getD []) ((alookup c.2 tb).getD []) (c.1, c.2, true) true a x a'
          p := by
  unfold rqT2
  exact mem_tgt_foldl _ _
    (fun t (c : σ₁ × σ₂) x a p => mem_tgt_quotientSync _ ta tb true t c.1 c.2 x a p) _ _ x a' p

theorem tgt_rqT1_true (B : NFA σ₂ α) (ra : List σ₁) (ta : Tbl σ₁ α) (qa : σ₁) (qb : σ₂)
    (a : Option α) : Tbl.tgt (rqT1 B ra ta) (qa, qb, true) a = [] := by
  unfold rqT1
  rw [tgt_loop1_other]
  · rfl
  · intro c _ e
    have := congrArg (fun s : σ₁ × σ₂ × Bool => s.2.2) e
    simp at this

/-- On the `false` copies the second loop changes nothing. -/
theorem tgt_rqT2_false (A : NFA σ₁ α) (B : NFA σ₂ α) (ra : List σ₁) (ta : Tbl σ₁ α)
    (rb : List σ₂) (tb : Tbl σ₂ α) (q : σ₁) (qb : σ₂) (a' : Option α) (p : σ₁ × σ₂ × Bool) :
    p ∈ Tbl.tgt (rqT2 A B ra ta rb tb) (q, qb, false) a' ↔
      p ∈ Tbl.tgt (rqT1 B ra ta) (q, qb, false) a' := by
  rw [mem_tgt_rqT2]
  constructor
  · rintro (h | ⟨c, _, a, _, e, _⟩)
    · exact h
    · have := congrArg (fun s : σ₁ × σ₂ × Bool => s.2.2) e
      simp at this
  · exact Or.inl

theorem mem_tgt_of_alookup {σ α : Type} [DecidableEq σ] [DecidableEq α] {t : Tbl σ α} {q : σ}
    {a : Option α} {ts : List σ} {p : σ} (h : alookup a ((alookup q t).getD []) = some ts)
    (hp : p ∈ ts) : p ∈ Tbl.tgt t q a := by
  unfold Tbl.tgt; rw [h]; exact hp

theorem exists_of_mem_tgt {σ α : Type} [DecidableEq σ] [DecidableEq α] {t : Tbl σ α} {q : σ}
    {a : Option α} {p : σ} (hp : p ∈ Tbl.tgt t q a) :
    ∃ ts, alookup a ((alookup q t).getD []) = some ts ∧ p ∈ ts := by
  unfold Tbl.tgt at hp
  cases hl : alookup a ((alookup q t).getD []) with
  | none => simp [hl] at hp
  | some ts => simp only [hl, Option.getD_some] at hp; exact ⟨ts, rfl, hp⟩

theorem symOk_none (syms : List α) : SymOk syms none := fun x hx => by cases hx

theorem ok_step1 (A : NFA σ₁ α) (B : NFA σ₂ α)
    (ra : List σ₁) (ta : Tbl σ₁ α) (fa : List σ₁) (rb : List σ₂) (tb : Tbl σ₂ α) (fb : List σ₂)
    (sa : ElimSpec A ra ta fa) (sb : ElimSpec B rb tb fb) {t : Tbl (σ₁ × σ₂ × Bool) α}
    (h : Tbl.Ok (SymOk (sunion A.syms B.syms)) (· ∈ rqStates ra rb B.init) t)
    (c : σ₁) (hc : c ∈ ra) :
    Tbl.Ok (SymOk (sunion A.syms B.syms)) (· ∈ rqStates ra rb B.init) (step1 ta B.init t c) := by
  rw [step1_eq]
  refine Tbl.ok_setTargets (ok_setRow _ _ _ _ ?_ (Tbl.ok_touch h _)) _ (symOk_none _) ?_
  · rintro ⟨k, v⟩ he
    have hl : alookup k ((alookup c ta).getD []) = some v :=
      (mem_iff_alookup (Tbl.row_nodup sa.dict c)).mp he
    refine ⟨?_, ?_⟩
    · intro x hx
      subst hx
      exact mem_sunion.mpr (Or.inl (sa.syms c hc x v hl))
    · intro x hx
      exact mem_rqStates.mpr (Or.inl ⟨x, sa.closed c hc k x (mem_tgt_of_alookup hl hx), rfl⟩)
  · intro p hp
    simp only [List.mem_singleton] at hp
    subst hp
    exact mem_rqStates.mpr (Or.inr ⟨c, hc, B.init, sb.init_mem, rfl⟩)

theorem ok_quotientSync (A : NFA σ₁ α) (B : NFA σ₂ α)
    (ra : List σ₁) (ta : Tbl σ₁ α) (fa : List σ₁) (rb : List σ₂) (tb : Tbl σ₂ α) (fb : List σ₂)
    (sa : ElimSpec A ra ta fa) (sb : ElimSpec B rb tb fb) (syms : List α)
    {t : Tbl (σ₁ × σ₂ × Bool) α}
    (h : Tbl.Ok (SymOk (sunion A.syms B.syms)) (· ∈ rqStates ra rb B.init) t)
    (qa : σ₁) (hqa : qa ∈ ra) (qb : σ₂) (hqb : qb ∈ rb) :
    Tbl.Ok (SymOk (sunion A.syms B.syms)) (· ∈ rqStates ra rb B.init)
      (quotientSync syms ta tb true t qa qb) := by
  rw [quotientSync_eq]
  refine foldl_inv (Tbl.Ok (SymOk (sunion A.syms B.syms)) (· ∈ rqStates ra rb B.init))
    (fun _ => True) _ ?_ syms (fun _ _ => trivial) t h
  intro t a _ ht
  refine ok_syncStep _ _ _ _ ht a (symOk_none _) ?_
  intro ea eb hea heb pa hpa pb hpb
  exact mem_rqStates.mpr (Or.inr ⟨pa, sa.closed qa hqa _ pa (mem_tgt_of_alookup hea hpa),
    pb, sb.closed qb hqb _ pb (mem_tgt_of_alookup heb hpb), rfl⟩)

theorem dict_quotientSync (syms : List α) (ta : Tbl σ₁ α) (tb : Tbl σ₂ α) (flag : Bool)
    {t : Tbl (σ₁ × σ₂ × Bool) α} (h : Tbl.Dict t) (qa : σ₁) (qb : σ₂) :
    Tbl.Dict (quotientSync syms ta tb flag t qa qb) := by
  rw [quotientSync_eq]
  exact foldl_inv Tbl.Dict (fun _ => True) _ (fun t a _ ht => dict_syncStep _ _ _ _ ht a) syms
    (fun _ _ => trivial) t h

theorem mem_akeys_quotientSync (syms : List α) (ta : Tbl σ₁ α) (tb : Tbl σ₂ α) (flag : Bool)
    (t : Tbl (σ₁ × σ₂ × Bool) α) (qa : σ₁) (qb : σ₂) (x : σ₁ × σ₂ × Bool) (h : x ∈ akeys t) :
    x ∈ akeys (quotientSync syms ta tb flag t qa qb) := by
  rw [quotientSync_eq]
  exact foldl_inv (fun t => x ∈ akeys t) (fun _ => True) _
    (fun t a _ ht => mem_akeys_syncStep _ _ _ _ t a x ht) syms (fun _ _ => trivial) t h

theorem rqRaw_valid (A : NFA σ₁ α) (B : NFA σ₂ α)
    (ra : List σ₁) (ta : Tbl σ₁ α) (fa : List σ₁) (rb : List σ₂) (tb : Tbl σ₂ α) (fb : List σ₂)
    (sa : ElimSpec A ra ta fa) (sb : ElimSpec B rb tb fb) :
    (rqRaw A B ra ta fa rb tb fb).Valid := by
  have hinit : ((A.init, B.init, false) : σ₁ × σ₂ × Bool) ∈ rqStates ra rb B.init :=
    mem_rqStates.mpr (Or.inl ⟨A.init, sa.init_mem, rfl⟩)
  refine ⟨?_, ?_⟩
  · rw [wf_iff_ok]
    refine ⟨?_, hinit, Or.inl ?_, ?_⟩
    · show Tbl.Ok _ _ (rqT2 A B ra ta rb tb)
      unfold rqT2
      refine foldl_inv (Tbl.Ok (SymOk (sunion A.syms B.syms)) (· ∈ rqStates ra rb B.init))
        (fun c : σ₁ × σ₂ => c ∈ lprod ra rb) _ ?_ _ (fun c hc => hc) _ ?_
      · rintro t ⟨qa, qb⟩ hc ht
        obtain ⟨h1, h2⟩ := mem_lprod.mp hc
        exact ok_quotientSync A B ra ta fa rb tb fb sa sb _ ht qa h1 qb h2
      · unfold rqT1
        exact foldl_inv (Tbl.Ok (SymOk (sunion A.syms B.syms)) (· ∈ rqStates ra rb B.init))
          (fun c => c ∈ ra) _ (fun t c hc ht => ok_step1 A B ra ta fa rb tb fb sa sb ht c hc)
          _ (fun c hc => hc) _ Tbl.ok_nil
    · show (A.init, B.init, false) ∈ akeys (rqT2 A B ra ta rb tb)
      unfold rqT2
      refine foldl_inv (fun t => ((A.init, B.init, false) : σ₁ × σ₂ × Bool) ∈ akeys t)
        (fun _ => True) _ (fun t c _ ht => mem_akeys_quotientSync _ _ _ _ t c.1 c.2 _ ht) _
        (fun _ _ => trivial) _ ?_
      exact mem_akeys_loop1 ta B.init A.init ra [] sa.init_mem
    · intro s hs
      obtain ⟨⟨qa, qb⟩, hp, rfl⟩ := List.mem_map.mp hs
      obtain ⟨h1, h2⟩ := mem_lprod.mp hp
      exact mem_rqStates.mpr (Or.inr ⟨qa, ((sa.fin qa).mp h1).1, qb, ((sb.fin qb).mp h2).1, rfl⟩)
  · show Tbl.Dict (rqT2 A B ra ta rb tb)
    unfold rqT2
    refine foldl_inv Tbl.Dict (fun _ => True) _
      (fun t c _ ht => dict_quotientSync _ _ _ _ ht c.1 c.2) _ (fun _ _ => trivial) _ ?_
    unfold rqT1
    exact foldl_inv Tbl.Dict (fun _ => True) _ (fun t c _ ht => dict_step1 ta B.init ht c) _
      (fun _ _ => trivial) _ Tbl.dict_nil

end RQ

variable {σ₁ σ₂ α : Type} [DecidableEq σ₁] [DecidableEq σ₂] [DecidableEq α]

-- `hA`, `hB` are kept in the statement for uniformity with the other operations; everything
-- needed about the operands is in the two `ElimSpec`s.
set_option linter.unusedVariables false in
theorem rightQuotient_spec (A : NFA σ₁ α) (B : NFA σ₂ α) (hA : A.Valid) (hB : B.Valid)
    (ra : List σ₁) (ta : Tbl σ₁ α) (fa : List σ₁) (rb : List σ₂) (tb : Tbl σ₂ α) (fb : List σ₂)
    (hca : NFAElim.core A = .ok (ra, ta, fa)) (hcb : NFAElim.core B = .ok (rb, tb, fb))
    (sa : ElimSpec A ra ta fa) (sb : ElimSpec B rb tb fb) :
    ∃ R : NFA (σ₁ × σ₂ × Bool) α, rightQuotient A B = .ok R ∧ R.Valid ∧
      R.init = (A.init, B.init, false) ∧
      (∀ q ∈ ra, ∀ a t, t ∈ R.targets (q, B.init, false) (some a) ↔
        ∃ p ∈ Tbl.tgt ta q (some a), t = (p, B.init, false)) ∧
      (∀ q ∈ ra, ∀ t, t ∈ R.targets (q, B.init, false) none ↔ t = (q, B.init, true)) ∧
      (∀ qa ∈ ra, ∀ qb ∈ rb, ∀ t, t ∈ R.targets (qa, qb, true) none ↔
        ∃ a, ∃ pa ∈ Tbl.tgt ta qa (some a), ∃ pb ∈ Tbl.tgt tb qb (some a), t = (pa, pb, true)) ∧
      (∀ qa ∈ ra, ∀ qb ∈ rb, ∀ a, R.targets (qa, qb, true) (some a) = []) ∧
      (∀ s, s ∈ R.finals ↔ ∃ qa ∈ fa, ∃ qb ∈ fb, s = (qa, qb, true)) := by
  have hv := RQ.rqRaw_valid A B ra ta fa rb tb fb sa sb
  refine ⟨RQ.rqRaw A B ra ta fa rb tb fb, ?_, hv, rfl, ?_, ?_, ?_, ?_, ?_⟩
  · rw [RQ.rightQuotient_eq A B ra ta fa rb tb fb hca hcb]
    exact create_eq_ok _ hv.wf
  · intro q hq a t
    rw [targets_eq_tgt]
    show t ∈ Tbl.tgt (RQ.rqT2 A B ra ta rb tb) _ _ ↔ _
    rw [RQ.tgt_rqT2_false]
    unfold RQ.rqT1
    rw [RQ.tgt_loop1_some ta sa.dict B.init q a ra [] hq]
    exact RQ.mem_rd_nil ta B.init q a t
  · intro q hq t
    rw [targets_eq_tgt]
    show t ∈ Tbl.tgt (RQ.rqT2 A B ra ta rb tb) _ _ ↔ _
    rw [RQ.tgt_rqT2_false]
    unfold RQ.rqT1
    rw [RQ.tgt_loop1_none ta B.init q ra [] hq]
    simp
  · intro qa hqa qb hqb t
    rw [targets_eq_tgt]
    show t ∈ Tbl.tgt (RQ.rqT2 A B ra ta rb tb) _ _ ↔ _
    rw [RQ.mem_tgt_rqT2, RQ.tgt_rqT1_true]
    constructor
    · rintro (h | ⟨⟨c1, c2⟩, _, a, _, e, _, ea, eb, hea, heb, pa, hpa, pb, hpb, rfl⟩)
      · simp at h
      · simp only [Prod.mk.injEq, and_true] at e
        obtain ⟨rfl, rfl⟩ := e
        exact ⟨a, pa, RQ.mem_tgt_of_alookup hea hpa, pb, RQ.mem_tgt_of_alookup heb hpb, rfl⟩
    · rintro ⟨a, pa, hpa, pb, hpb, rfl⟩
      obtain ⟨ea, hea, hpa'⟩ := RQ.exists_of_mem_tgt hpa
      obtain ⟨eb, heb, hpb'⟩ := RQ.exists_of_mem_tgt hpb
      exact Or.inr ⟨(qa, qb), RQ.mem_lprod.mpr ⟨hqa, hqb⟩, a,
        mem_sunion.mpr (Or.inl (sa.syms qa hqa a ea hea)), rfl, rfl, ea, eb, hea, heb,
        pa, hpa', pb, hpb', rfl⟩
  · intro qa hqa qb hqb a
    rw [targets_eq_tgt]
    show Tbl.tgt (RQ.rqT2 A B ra ta rb tb) _ _ = []
    apply List.eq_nil_iff_forall_not_mem.mpr
    intro p hp
    rw [RQ.mem_tgt_rqT2, RQ.tgt_rqT1_true] at hp
    rcases hp with h | ⟨c, _, a', _, _, hn, _⟩
    · simp at h
    · cases hn
  · intro s
    show s ∈ (lprod fa fb).map (fun p => (p.1, p.2, true)) ↔ _
    rw [List.mem_map]
    constructor
    · rintro ⟨⟨qa, qb⟩, hp, rfl⟩
      obtain ⟨h1, h2⟩ := RQ.mem_lprod.mp hp
      exact ⟨qa, h1, qb, h2, rfl⟩
    · rintro ⟨qa, h1, qb, h2, rfl⟩
      exact ⟨(qa, qb), RQ.mem_lprod.mpr ⟨h1, h2⟩, rfl⟩

end NFA
end AV
