/-
Proofs/SuccCfg.lean — the set-up part of `successors` (Model/DFASucc.lean): `sorted_symbols`,
`first_symbol`, `symbol_succ`, and the stack read from the start string.  Core only.
-/
import AutomataVerif.Proofs.WordOrder
import AutomataVerif.Proofs.MaxLen
import AutomataVerif.Model.DFASucc

namespace AV

set_option linter.unusedSectionVars false

open WordOrder

section sorted
variable {α : Type} [DecidableEq α]

/-- The writes that build `symbol_succ`, in order. -/
def succPairs : List α → List (α × Option α)
  | [] => []
  | [x] => [(x, none)]
  | x :: y :: t => (x, some y) :: succPairs (y :: t)

theorem zip_tail_eq_succPairs : ∀ (S : List α) (last : α), S.getLast? = some last →
    S.zip (S.tail.map some) ++ [(last, none)] = succPairs S := by
  intro S
  induction S with
  | nil => intro last h; simp at h
  | cons x t ih =>
    intro last h
    cases t with
    | nil => simp at h; subst h; simp [succPairs]
    | cons y t' =>
      rw [List.getLast?_cons_cons] at h
      have := ih last h
      simp only [List.tail_cons, List.map_cons, List.zip_cons_cons, List.cons_append, succPairs]
      simp only [List.tail_cons] at this
      rw [this]

theorem akeys_succPairs : ∀ S : List α, akeys (succPairs S) = S := by
  intro S
  induction S with
  | nil => rfl
  | cons x t ih =>
    cases t with
    | nil => rfl
    | cons y t' =>
      simp only [succPairs, akeys, List.map_cons] at ih ⊢
      rw [ih]

theorem mem_succPairs_next (a b : α) (r : List α) :
    ∀ l : List α, (a, some b) ∈ succPairs (l ++ a :: b :: r) := by
  intro l
  induction l with
  | nil => simp [succPairs]
  | cons x l' ih =>
    cases h : l' ++ a :: b :: r with
    | nil => simp at h
    | cons y t =>
      rw [h] at ih
      simp only [List.cons_append, h, succPairs]
      exact List.mem_cons_of_mem _ ih

theorem mem_succPairs_last (a : α) : ∀ l : List α, (a, none) ∈ succPairs (l ++ [a]) := by
  intro l
  induction l with
  | nil => simp [succPairs]
  | cons x l' ih =>
    cases h : l' ++ [a] with
    | nil => simp at h
    | cons y t =>
      rw [h] at ih
      simp only [List.cons_append, h, succPairs]
      exact List.mem_cons_of_mem _ ih

/-- `symbol_succ[a]` for a duplicate-free `sorted_symbols`: the next symbol, or `None` for the
last one. -/
theorem alookup_symbolSucc {S : List α} {last : α} (hnd : S.Nodup) (hlast : S.getLast? = some last) :
    (∀ l a b r, S = l ++ a :: b :: r → alookup a (DFA.symbolSucc S last) = some (some b)) ∧
    (∀ l a, S = l ++ [a] → alookup a (DFA.symbolSucc S last) = some none) := by
  unfold DFA.symbolSucc
  rw [zip_tail_eq_succPairs S last hlast]
  have hk : (akeys (succPairs S).reverse).Nodup := by
    unfold akeys
    rw [List.map_reverse, (List.reverse_perm _).nodup_iff]
    have := akeys_succPairs S
    unfold akeys at this
    rw [this]; exact hnd
  constructor
  · intro l a b r hS
    apply alookup_of_mem_nodup hk
    rw [List.mem_reverse, hS]
    exact mem_succPairs_next a b r l
  · intro l a hS
    apply alookup_of_mem_nodup hk
    rw [List.mem_reverse, hS]
    exact mem_succPairs_last a l

/-- Structure of a strictly sorted alphabet. -/
theorem sorted_isFirst {κ : α → Int} {S : List α} {f : α} (hs : S.Pairwise fun a b => κ a < κ b)
    (hf : S.head? = some f) : IsFirst κ S f := by
  obtain ⟨t, rfl⟩ := List.head?_eq_some_iff.mp hf
  rw [List.pairwise_cons] at hs
  refine ⟨List.mem_cons_self, ?_⟩
  intro c hc
  rcases List.mem_cons.mp hc with rfl | h
  · exact Int.le_refl _
  · exact Int.le_of_lt (hs.1 c h)

theorem sorted_isNext {κ : α → Int} {l r : List α} {a b : α}
    (hs : (l ++ a :: b :: r).Pairwise fun a b => κ a < κ b) : IsNext κ (l ++ a :: b :: r) a b := by
  rw [List.pairwise_append] at hs
  obtain ⟨_, h2, h3⟩ := hs
  rw [List.pairwise_cons] at h2
  obtain ⟨ha, h2⟩ := h2
  rw [List.pairwise_cons] at h2
  refine ⟨by simp, by simp, ha b List.mem_cons_self, ?_⟩
  intro c hc
  rcases List.mem_append.mp hc with h | h
  · exact Or.inl (Int.le_of_lt (h3 c h a List.mem_cons_self))
  · rcases List.mem_cons.mp h with rfl | h
    · exact Or.inl (Int.le_refl _)
    · rcases List.mem_cons.mp h with rfl | h
      · exact Or.inr (Int.le_refl _)
      · exact Or.inr (Int.le_of_lt (h2.1 c h))

theorem sorted_isLast {κ : α → Int} {l : List α} {a : α}
    (hs : (l ++ [a]).Pairwise fun a b => κ a < κ b) : IsLast κ (l ++ [a]) a := by
  rw [List.pairwise_append] at hs
  refine ⟨by simp, ?_⟩
  intro c hc
  rcases List.mem_append.mp hc with h | h
  · exact Int.le_of_lt (hs.2.2 c h a (by simp))
  · simp at h; subst h; exact Int.le_refl _

/-- Every element of a list has a successor in it or is its last element. -/
theorem next_or_last : ∀ (S : List α) (a : α), a ∈ S →
    (∃ l b r, S = l ++ a :: b :: r) ∨ (∃ l, S = l ++ [a]) := by
  intro S a ha
  obtain ⟨l, r, rfl⟩ := List.append_of_mem ha
  cases r with
  | nil => exact Or.inr ⟨l, rfl⟩
  | cons b r => exact Or.inl ⟨l, b, r, rfl⟩

end sorted

namespace DFA
variable {σ α : Type} [DecidableEq σ] [DecidableEq α]

/-- The key by which `sorted_symbols` is ascending: `key`, or `-key` for `reverse=True`. -/
def dirKey (key : α → Int) (reverse : Bool) : α → Int :=
  match reverse with
  | false => key
  | true => fun a => - key a

theorem sortedSymbols_eq (d : DFA σ α) (key : α → Int) (reverse : Bool) :
    d.sortedSymbols key reverse =
      sortBy (fun a b => decide (dirKey key reverse a < dirKey key reverse b)) d.syms := by
  cases reverse with
  | false => rfl
  | true =>
    unfold sortedSymbols dirKey
    simp only
    congr 1
    funext a b
    congr 1
    apply propext
    constructor <;> intro h <;> omega

theorem dirKey_inj {d : DFA σ α} {key : α → Int} (hk : d.KeyInj key) (reverse : Bool) :
    d.KeyInj (dirKey key reverse) := by
  cases reverse with
  | false => exact hk
  | true =>
    intro a ha b hb h
    apply hk a ha b hb
    simp only [dirKey] at h
    omega

theorem sortedSymbols_perm (d : DFA σ α) (key : α → Int) (reverse : Bool) :
    (d.sortedSymbols key reverse).Perm d.syms := by
  rw [sortedSymbols_eq]; exact sortBy_perm _ _

theorem sortedSymbols_sorted {d : DFA σ α} {key : α → Int} (hnd : d.syms.Nodup) (hk : d.KeyInj key)
    (reverse : Bool) :
    (d.sortedSymbols key reverse).Pairwise fun a b => dirKey key reverse a < dirKey key reverse b := by
  rw [sortedSymbols_eq]
  exact sortBy_strict _ _ hnd (dirKey_inj hk reverse)

/-! ### the state stack -/

/-- The state stack (top first) belongs to the character stack (top first): bottom = initial
state, every entry is `_get_next_current_state` of the one below (possibly `None`). -/
inductive StackOK (d : DFA σ α) : List (Option σ) → List α → Prop
  | base : StackOK d [some d.init] []
  | push {s : Option σ} {states : List (Option σ)} {ch : α} {chars : List α} :
      StackOK d (s :: states) chars → StackOK d (d.step? s ch :: s :: states) (ch :: chars)

theorem StackOK.top {d : DFA σ α} {s : Option σ} {rest : List (Option σ)} {chars : List α}
    (h : StackOK d (s :: rest) chars) : s = d.run (some d.init) chars.reverse := by
  generalize hst : s :: rest = st at h
  induction h generalizing s rest with
  | base => cases hst; rfl
  | push h' ih =>
    cases hst
    rw [List.reverse_cons, run_append, ← ih rfl]
    rfl

theorem StackOK.pop {d : DFA σ α} {s : Option σ} {rest : List (Option σ)} {ch : α} {chars : List α}
    (h : StackOK d (s :: rest) (ch :: chars)) : StackOK d rest chars := by
  cases h with
  | push h' => exact h'

theorem StackOK.ne_nil {d : DFA σ α} {states : List (Option σ)} {chars : List α}
    (h : StackOK d states chars) : states ≠ [] := by
  cases h <;> simp

theorem StackOK.bottom {d : DFA σ α} {states : List (Option σ)}
    (h : StackOK d states []) : states = [some d.init] := by
  cases h; rfl

/-- Reading `w` on top of a stack. -/
theorem StackOK.read {d : DFA σ α} : ∀ (w : List α) {s : Option σ} {st : List (Option σ)} {chars : List α},
    StackOK d (s :: st) chars →
    StackOK d ((List.scanl d.step? s w).reverse ++ st) (w.reverse ++ chars) := by
  intro w
  induction w with
  | nil => intro s st chars h; simpa using h
  | cons a w ih =>
    intro s st chars h
    have := ih (StackOK.push (ch := a) h)
    simp only [List.scanl_cons, List.reverse_cons, List.append_assoc, List.singleton_append]
    exact this

/-- The stack `deque(self.read_input_stepwise(input_str, ignore_rejection=True))`. -/
theorem stackOK_readStepwise {d : DFA σ α} (wf : d.WF) (w : List α) :
    (d.readStepwise w true).2 = none ∧
      StackOK d (d.readStepwise w true).1.reverse w.reverse := by
  unfold readStepwise
  rw [readAux_eq wf true w (some d.init) wf.initOk]
  refine ⟨by simp [rejectUnless], ?_⟩
  have h := StackOK.read (d := d) w StackOK.base
  simp only [List.append_nil] at h
  have : some d.init :: (List.scanl d.step? (some d.init) w).tail = List.scanl d.step? (some d.init) w := by
    cases w <;> simp [List.scanl]
  simp only [this]
  exact h

end DFA
end AV
