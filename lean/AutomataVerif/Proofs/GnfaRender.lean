/-
Proofs/GnfaRender.lean — the string rules of `GNFA.to_regex` are sound for the library's regex
syntax (`GnfaSpec.Renders`):

* `_isbracket_req s = false ↔ s` is a concatenation-level string (needs no brackets inside a
  concatenation), for every rendered `s` (`Renders.isBracketReq_iff`);
* a rendered string of length one is an atom (`Renders.single`);
* `ripLabel` maps labels denoting `L₁ L₂ L₃ L₄` to a label denoting `L₄ + L₁ L₂* L₃`
  (`ripLabel_sound`), `None` standing for the empty language.
-/
import AutomataVerif.Spec.GnfaRx
import AutomataVerif.Model.GNFA

namespace AV.GnfaSpec
open AV AV.GNFA Language

/-! ### literals -/

theorem IsLit.ne {c : Char} (h : IsLit c) :
    c ≠ '(' ∧ c ≠ ')' ∧ c ≠ '|' ∧ c ≠ '*' ∧ c ≠ '?' := by
  have h1 := h.1
  simp only [AV.Gen.Regex.reservedCharacters, List.mem_cons, List.not_mem_nil, or_false,
    not_or] at h1
  tauto

/-! ### `_isbracket_req` -/

theorem aux_nil (d : Int) : isBracketReqAux d [] = false := rfl

theorem aux_cons_lparen (d : Int) (s : Str) :
    isBracketReqAux d ('(' :: s) = isBracketReqAux (d + 1) s := by
  simp [isBracketReqAux]

theorem aux_cons_rparen (d : Int) (s : Str) :
    isBracketReqAux d (')' :: s) = isBracketReqAux (d - 1) s := by
  simp [isBracketReqAux]

theorem aux_cons_bar (d : Int) (s : Str) :
    isBracketReqAux d ('|' :: s) = (decide (d = 0) || isBracketReqAux d s) := by
  by_cases h : d = 0 <;> simp [isBracketReqAux, h]

theorem aux_cons_other {c : Char} (h1 : c ≠ '(') (h2 : c ≠ ')') (h3 : c ≠ '|') (d : Int) (s : Str) :
    isBracketReqAux d (c :: s) = isBracketReqAux d s := by
  simp [isBracketReqAux, h1, h2, h3]

/-- Net bracket depth of a string. -/
def net : Str → Int
  | [] => 0
  | c :: s => (if c = '(' then 1 else if c = ')' then -1 else 0) + net s

theorem net_append (s t : Str) : net (s ++ t) = net s + net t := by
  induction s with
  | nil => simp [net]
  | cons c s ih => simp only [List.cons_append, net, ih]; omega

theorem aux_append (s t : Str) (d : Int) :
    isBracketReqAux d (s ++ t) = (isBracketReqAux d s || isBracketReqAux (d + net s) t) := by
  induction s generalizing d with
  | nil => simp [net, isBracketReqAux]
  | cons c s ih =>
    simp only [List.cons_append, isBracketReqAux, net]
    by_cases h1 : c = '('
    · subst h1
      simp only [ih, ↓reduceIte]
      have : d + 1 + net s = d + (1 + net s) := by omega
      rw [this]; simp
    · by_cases h2 : c = ')'
      · subst h2
        simp only [ih]
        have : d - 1 + net s = d + (-1 + net s) := by omega
        simp [this]
      · simp only [h1, h2, ↓reduceIte, ih]
        by_cases h3 : d = 0 ∧ c = '|'
        · simp [h3]
        · simp [h3]

theorem Renders.ne_nil {l : Lvl} {e : Rx} {s : Str} (h : Renders l e s) : s ≠ [] := by
  induction h with
  | sym _ => simp
  | emp => simp
  | paren _ _ => simp
  | star _ _ => simp
  | opt _ _ => simp
  | ofP _ ih => exact ih
  | cat _ _ ih1 _ => simp [ih1]
  | ofC _ ih => exact ih
  | union _ _ _ _ => simp

theorem Renders.net_zero {l : Lvl} {e : Rx} {s : Str} (h : Renders l e s) : net s = 0 := by
  induction h with
  | sym hc =>
    obtain ⟨h1, h2, _⟩ := hc.ne
    simp [net, h1, h2]
  | emp => simp [net]
  | @paren e s _ ih =>
    have : net ('(' :: s ++ [')']) = 1 + net (s ++ [')']) := by simp [net]
    rw [this, net_append, ih]; simp [net]
  | star _ ih => rw [net_append, ih]; simp [net]
  | opt _ ih => rw [net_append, ih]; simp [net]
  | ofP _ ih => exact ih
  | cat _ _ ih1 ih2 => rw [net_append, ih1, ih2]; rfl
  | ofC _ ih => exact ih
  | union _ _ ih1 ih2 =>
    rw [net_append, ih1]
    simp [net, ih2]

/-- Inside brackets nothing counts: at positive depth the scan of a rendered string never fires. -/
theorem Renders.aux_pos {l : Lvl} {e : Rx} {s : Str} (h : Renders l e s) :
    ∀ d : Int, 0 < d → isBracketReqAux d s = false := by
  induction h with
  | sym hc =>
    intro d _
    obtain ⟨h1, h2, h3, _⟩ := hc.ne
    rw [aux_cons_other h1 h2 h3, aux_nil]
  | emp =>
    intro d _
    rw [aux_cons_lparen, aux_cons_rparen, aux_nil]
  | @paren e s h ih =>
    intro d hd
    rw [List.cons_append, aux_cons_lparen, aux_append, ih (d + 1) (by omega), h.net_zero,
      aux_cons_rparen, aux_nil]
    rfl
  | @star e s h ih =>
    intro d hd
    rw [aux_append, ih d hd, aux_cons_other (by decide) (by decide) (by decide), aux_nil]; rfl
  | @opt e s h ih =>
    intro d hd
    rw [aux_append, ih d hd, aux_cons_other (by decide) (by decide) (by decide), aux_nil]; rfl
  | ofP _ ih => exact ih
  | @cat e₁ e₂ s₁ s₂ h1 h2 ih1 ih2 =>
    intro d hd
    rw [aux_append, ih1 d hd, h1.net_zero, Int.add_zero, ih2 d hd]; rfl
  | ofC _ ih => exact ih
  | @union e₁ e₂ s₁ s₂ h1 h2 ih1 ih2 =>
    intro d hd
    rw [aux_append, ih1 d hd, h1.net_zero, Int.add_zero, aux_cons_bar, ih2 d hd]
    have : d ≠ 0 := by omega
    simp [this]

/-- A concatenation-level string has no `|` outside brackets. -/
theorem Renders.aux_zero {l : Lvl} {e : Rx} {s : Str} (h : Renders l e s) (hl : l ≠ .U) :
    isBracketReqAux 0 s = false := by
  induction h with
  | sym hc =>
    obtain ⟨h1, h2, h3, _⟩ := hc.ne
    rw [aux_cons_other h1 h2 h3, aux_nil]
  | emp => rw [aux_cons_lparen, aux_cons_rparen, aux_nil]
  | @paren e s h _ =>
    rw [List.cons_append, aux_cons_lparen, aux_append, h.aux_pos (0 + 1) (by omega), h.net_zero,
      aux_cons_rparen, aux_nil]
    rfl
  | @star e s h ih =>
    rw [aux_append, ih (by decide), aux_cons_other (by decide) (by decide) (by decide), aux_nil]
    rfl
  | @opt e s h ih =>
    rw [aux_append, ih (by decide), aux_cons_other (by decide) (by decide) (by decide), aux_nil]
    rfl
  | ofP _ ih => exact ih (by decide)
  | @cat e₁ e₂ s₁ s₂ h1 h2 ih1 ih2 =>
    rw [aux_append, ih1 (by decide), h1.net_zero, Int.add_zero, ih2 (by decide)]; rfl
  | ofC _ _ => exact absurd rfl hl
  | union _ _ _ _ => exact absurd rfl hl

theorem isBracketReq_union {e₁ : Rx} {s₁ : Str} (h1 : Renders .U e₁ s₁) (s₂ : Str) :
    isBracketReq (s₁ ++ '|' :: s₂) = true := by
  unfold isBracketReq
  rw [aux_append, h1.net_zero, Int.add_zero, aux_cons_bar]
  simp

/-- `_isbracket_req s = false` means `s` can stand inside a concatenation as it is. -/
theorem Renders.toC {e : Rx} {s : Str} (h : Renders .U e s) (hb : isBracketReq s = false) :
    Renders .C e s := by
  cases h with
  | ofC h => exact h
  | union h1 h2 => rw [isBracketReq_union h1] at hb; exact absurd hb (by simp)

/-- "needs brackets ↔ `_isbracket_req`": for a rendered string, `_isbracket_req` is false exactly
when the string is already of concatenation level. -/
theorem Renders.isBracketReq_iff {e : Rx} {s : Str} (h : Renders .U e s) :
    isBracketReq s = false ↔ Renders .C e s :=
  ⟨h.toC, fun hc => hc.aux_zero (by decide)⟩

/-- A rendered string of length one is an atom (so `r2*` needs no brackets when `len(r2) == 1`). -/
theorem Renders.single {l : Lvl} {e : Rx} {s : Str} (h : Renders l e s) (hlen : s.length = 1) :
    Renders .P e s := by
  induction h with
  | sym hc => exact Renders.sym hc
  | emp => exact Renders.emp
  | paren h _ => exact Renders.paren h
  | star h _ => exact Renders.star h
  | opt h _ => exact Renders.opt h
  | ofP _ ih => exact ih hlen
  | @cat e₁ e₂ s₁ s₂ h1 h2 _ _ =>
    have a := List.length_pos_iff.mpr h1.ne_nil
    have b := List.length_pos_iff.mpr h2.ne_nil
    rw [List.length_append] at hlen; omega
  | ofC _ ih => exact ih hlen
  | @union e₁ e₂ s₁ s₂ h1 h2 _ _ =>
    have a := List.length_pos_iff.mpr h1.ne_nil
    rw [List.length_append, List.length_cons] at hlen; omega

/-! ### concatenation of pieces -/

/-- A factor of a concatenation: nothing at all (ε) or a concatenation-level string. -/
def Piece (L : Language Char) (s : Str) : Prop :=
  (s = [] ∧ L = 1) ∨ ∃ e, Renders .C e s ∧ e.den = L

theorem Renders.catC {e₁ : Rx} {s₁ : Str} (h1 : Renders .C e₁ s₁) {l : Lvl} {e₂ : Rx} {s₂ : Str}
    (h2 : Renders l e₂ s₂) (hl : l = .C) :
    ∃ e, Renders .C e (s₁ ++ s₂) ∧ e.den = e₁.den * e₂.den := by
  induction h2 with
  | sym _ => cases hl
  | emp => cases hl
  | paren _ _ => cases hl
  | star _ _ => cases hl
  | opt _ _ => cases hl
  | @ofP e s h _ => exact ⟨.cat e₁ e, Renders.cat h1 h, rfl⟩
  | @cat ea eb sa sb ha hb iha _ =>
    obtain ⟨e', he', hd⟩ := iha rfl
    refine ⟨.cat e' eb, ?_, ?_⟩
    · rw [← List.append_assoc]; exact Renders.cat he' hb
    · simp only [Rx.den, hd, mul_assoc]
  | ofC _ _ => cases hl
  | union _ _ _ _ => cases hl

theorem Piece.mul {A B : Language Char} {s t : Str} (h1 : Piece A s) (h2 : Piece B t) :
    Piece (A * B) (s ++ t) := by
  rcases h1 with ⟨rfl, rfl⟩ | ⟨e1, hr1, rfl⟩
  · rcases h2 with ⟨rfl, rfl⟩ | ⟨e2, hr2, rfl⟩
    · exact Or.inl ⟨rfl, by simp⟩
    · exact Or.inr ⟨e2, by simpa using hr2, by simp⟩
  · rcases h2 with ⟨rfl, rfl⟩ | ⟨e2, hr2, rfl⟩
    · exact Or.inr ⟨e1, by simpa using hr1, by simp⟩
    · obtain ⟨e, he, hd⟩ := hr1.catC hr2 rfl
      exact Or.inr ⟨e, he, hd⟩

theorem Piece.toLab {L : Language Char} {s : Str} (h : Piece L s) : Lab L s := by
  rcases h with h | ⟨e, hr, hd⟩
  · exact Or.inl h
  · exact Or.inr ⟨e, Renders.ofC hr, hd⟩

theorem Lab.nil_iff {L : Language Char} : Lab L [] ↔ L = 1 := by
  constructor
  · rintro (⟨_, h⟩ | ⟨e, hr, _⟩)
    · exact h
    · exact absurd rfl hr.ne_nil
  · intro h; exact Or.inl ⟨rfl, h⟩

theorem Lab.renders {L : Language Char} {s : Str} (h : Lab L s) (hs : s ≠ []) :
    ∃ e, Renders .U e s ∧ e.den = L := by
  rcases h with ⟨h, _⟩ | h
  · exact absurd h hs
  · exact h

/-! ### the three factors and the alternative -/

theorem isBracketReq_nil : isBracketReq [] = false := rfl

theorem starPart_some (r : Str) :
    starPart (some r) = if r.length = 1 then r ++ ['*'] else '(' :: r ++ [')', '*'] := rfl

theorem altPart_some (r : Str) :
    altPart (some r) =
      if isBracketReq r then '|' :: '(' :: r ++ [')'] else if r = [] then ['?'] else '|' :: r := rfl

theorem bracketIfReq_piece {L : Language Char} {r : Str} (h : Lab L r) :
    Piece L (bracketIfReq r) := by
  unfold bracketIfReq
  by_cases hr : r = []
  · subst hr
    simp only [isBracketReq_nil]
    exact Or.inl ⟨rfl, Lab.nil_iff.mp h⟩
  · obtain ⟨e, he, hd⟩ := h.renders hr
    by_cases hb : isBracketReq r = true
    · rw [if_pos hb]
      exact Or.inr ⟨e, Renders.ofP (Renders.paren he), hd⟩
    · rw [if_neg hb]
      exact Or.inr ⟨e, he.toC (by simpa using hb), hd⟩

theorem starPart_piece {L : Language Char} {r2 : Option Str} (h : LabO L r2) :
    Piece (KStar.kstar L) (starPart r2) := by
  cases r2 with
  | none =>
    have : L = 0 := h
    subst this
    exact Or.inl ⟨rfl, kstar_zero⟩
  | some r =>
    have h : Lab L r := h
    rw [starPart_some]
    by_cases hlen : r.length = 1
    · rw [if_pos hlen]
      have hr : r ≠ [] := by intro h0; simp [h0] at hlen
      obtain ⟨e, he, hd⟩ := h.renders hr
      exact Or.inr ⟨.star e, Renders.ofP (Renders.star (he.single hlen)), by simp [Rx.den, hd]⟩
    · rw [if_neg hlen]
      by_cases hr : r = []
      · subst hr
        have hL : L = 1 := Lab.nil_iff.mp h
        subst hL
        refine Or.inr ⟨.star .eps, ?_, by simp [Rx.den]⟩
        exact Renders.ofP (Renders.star Renders.emp)
      · obtain ⟨e, he, hd⟩ := h.renders hr
        refine Or.inr ⟨.star e, ?_, by simp [Rx.den, hd]⟩
        have : '(' :: r ++ [')', '*'] = ('(' :: r ++ [')']) ++ ['*'] := by simp
        rw [this]
        exact Renders.ofP (Renders.star (Renders.paren he))

/-- The last two steps of `ripLabel` as a function of the body `r1 r2 r3` and the alternative. -/
def finish (body d : Str) : Str :=
  let body' : Str := if d ≠ [] ∧ body = [] then ['(', ')'] else body
  if d = ['?'] ∧ body'.length > 1 then '(' :: body' ++ ')' :: d else body' ++ d

theorem ripLabel_some (r1 r3 : Str) (r2 r4 : Option Str) :
    ripLabel (some r1) r2 (some r3) r4 =
      some (finish (bracketIfReq r1 ++ starPart r2 ++ bracketIfReq r3) (altPart r4)) := by
  simp only [ripLabel, finish]
  by_cases h : altPart r4 ≠ [] ∧ bracketIfReq r1 ++ starPart r2 ++ bracketIfReq r3 = []
  · obtain ⟨h1, h2⟩ := h
    have h3 := List.append_eq_nil_iff.mp h2
    have h4 := List.append_eq_nil_iff.mp h3.1
    simp only [h1, h3.2, h4.1, h4.2, ne_eq, not_false_eq_true, List.append_nil, and_self,
      ↓reduceIte, List.length_cons, List.length_nil, List.cons_append, List.nil_append]
    split <;> simp
  · rw [if_neg h, if_neg h]
    simp only [List.length_append, List.append_assoc, List.cons_append, Nat.add_assoc]
    split <;> rfl

theorem altPart_ne_nil (s : Str) : altPart (some s) ≠ [] := by
  rw [altPart_some]
  split_ifs <;> simp

theorem finish_sound {Lb L4 : Language Char} {body : Str} {r4 : Option Str}
    (hb : Piece Lb body) (h4 : LabO L4 r4) : Lab (L4 + Lb) (finish body (altPart r4)) := by
  cases r4 with
  | none =>
    have : L4 = 0 := h4
    subst this
    simp only [finish, altPart]
    simpa using hb.toLab
  | some s4 =>
    have h4 : Lab L4 s4 := h4
    have hd := altPart_ne_nil s4
    -- the body after the `()` repair
    have hb' : ∃ eb, Renders .C eb (if altPart (some s4) ≠ [] ∧ body = [] then ['(', ')'] else body) ∧
        eb.den = Lb := by
      rcases hb with ⟨rfl, rfl⟩ | ⟨e, he, hde⟩
      · rw [if_pos ⟨hd, rfl⟩]
        exact ⟨.eps, Renders.ofP Renders.emp, rfl⟩
      · rw [if_neg (fun h => he.ne_nil h.2)]
        exact ⟨e, he, hde⟩
    obtain ⟨eb, hrb, hdb⟩ := hb'
    unfold finish
    simp only []
    generalize (if altPart (some s4) ≠ [] ∧ body = [] then ['(', ')'] else body) = body' at hrb ⊢
    by_cases hbr : isBracketReq s4 = true
    · -- `|(r4)`
      have hs4 : s4 ≠ [] := by intro h0; rw [h0, isBracketReq_nil] at hbr; cases hbr
      obtain ⟨e4, he4, hd4⟩ := h4.renders hs4
      have hval : altPart (some s4) = '|' :: ('(' :: s4 ++ [')']) := by simp [altPart_some, hbr]
      rw [hval, if_neg (by simp)]
      refine Or.inr ⟨.union eb e4, Renders.union (Renders.ofC hrb) (Renders.ofP (Renders.paren he4)), ?_⟩
      simp [Rx.den, hdb, hd4, add_comm]
    · by_cases hs4 : s4 = []
      · -- `?`
        subst hs4
        have hL4 : L4 = 1 := Lab.nil_iff.mp h4
        subst hL4
        have hval : altPart (some ([] : Str)) = ['?'] := by simp [altPart_some, isBracketReq_nil]
        rw [hval]
        by_cases hlen : body'.length > 1
        · rw [if_pos ⟨rfl, hlen⟩]
          have : '(' :: body' ++ [')', '?'] = ('(' :: body' ++ [')']) ++ ['?'] := by simp
          rw [this]
          exact Or.inr ⟨.opt eb,
            Renders.ofC (Renders.ofP (Renders.opt (Renders.paren (Renders.ofC hrb)))),
            by simp [Rx.den, hdb]⟩
        · rw [if_neg (fun h => hlen h.2)]
          have h1 : body'.length = 1 := by
            have := List.length_pos_iff.mpr hrb.ne_nil
            omega
          exact Or.inr ⟨.opt eb, Renders.ofC (Renders.ofP (Renders.opt (hrb.single h1))),
            by simp [Rx.den, hdb]⟩
      · -- `|r4`
        obtain ⟨e4, he4, hd4⟩ := h4.renders hs4
        have hval : altPart (some s4) = '|' :: s4 := by simp [altPart_some, hbr, hs4]
        rw [hval, if_neg (by simp)]
        refine Or.inr ⟨.union eb e4,
          Renders.union (Renders.ofC hrb) (he4.toC (by simpa using hbr)), ?_⟩
        simp [Rx.den, hdb, hd4, add_comm]

/-- **Soundness of the string rule of `to_regex`**: from labels denoting `L₁ … L₄` (`None` = ∅)
it assembles a label denoting `L₄ + L₁ L₂* L₃`. -/
theorem ripLabel_sound {L1 L2 L3 L4 : Language Char} {r1 r2 r3 r4 : Option Str}
    (h1 : LabO L1 r1) (h2 : LabO L2 r2) (h3 : LabO L3 r3) (h4 : LabO L4 r4) :
    LabO (L4 + L1 * KStar.kstar L2 * L3) (ripLabel r1 r2 r3 r4) := by
  cases r1 with
  | none =>
    have : L1 = 0 := h1
    subst this
    have : ripLabel none r2 r3 r4 = r4 := by simp [ripLabel]
    rw [this]; simpa using h4
  | some s1 =>
    cases r3 with
    | none =>
      have : L3 = 0 := h3
      subst this
      have : ripLabel (some s1) r2 none r4 = r4 := by simp [ripLabel]
      rw [this]; simpa using h4
    | some s3 =>
      rw [ripLabel_some]
      exact finish_sound
        (((bracketIfReq_piece h1).mul (starPart_piece h2)).mul (bracketIfReq_piece h3)) h4

end AV.GnfaSpec
