/-
Proofs/NFATable.lean — lemmas about the dict-of-dict-of-set idioms of Model/NFATable.lean:
how `ainsert`, `touch`, `addTargets`, `setTargets` change the reading `Tbl.tgt`, the keys
and the entries of a table; "is a dict" (unique keys) and entry-wise invariants;
well-formedness of constructed NFAs.  Core only.
-/
import AutomataVerif.Model.NFATable
import AutomataVerif.Proofs.Read

namespace AV

set_option linter.unusedSectionVars false

variable {κ β σ α : Type} [DecidableEq κ] [DecidableEq β] [DecidableEq σ] [DecidableEq α]

namespace AL

/-! ### association lists -/

theorem alookup_ainsert (k x : κ) (v : β) (d : List (κ × β)) :
    alookup x (ainsert k v d) = if k = x then some v else alookup x d := by
  induction d with
  | nil => simp [ainsert, alookup_cons]
  | cons kv t ih =>
    obtain ⟨k', v'⟩ := kv
    unfold ainsert
    by_cases h : k' = k
    · subst h
      simp only [if_true, alookup_cons]
      by_cases hx : k' = x <;> simp [hx]
    · simp only [h, if_false, alookup_cons]
      rw [ih]
      by_cases hx : k' = x
      · subst hx
        have : ¬ k = k' := fun e => h e.symm
        simp [this]
      · simp [hx]

theorem mem_ainsert {k : κ} {v : β} {d : List (κ × β)} {e : κ × β} (h : e ∈ ainsert k v d) :
    e = (k, v) ∨ e ∈ d := by
  induction d with
  | nil => simp [ainsert] at h; exact Or.inl h
  | cons kv t ih =>
    obtain ⟨k', v'⟩ := kv
    unfold ainsert at h
    by_cases hk : k' = k
    · simp only [hk, if_true] at h
      rcases List.mem_cons.mp h with h | h
      · exact Or.inl h
      · exact Or.inr (List.mem_cons_of_mem _ h)
    · simp only [hk, if_false] at h
      rcases List.mem_cons.mp h with h | h
      · exact Or.inr (by rw [h]; simp)
      · rcases ih h with h | h
        · exact Or.inl h
        · exact Or.inr (List.mem_cons_of_mem _ h)

theorem akeys_ainsert_of_mem {k : κ} {v : β} {d : List (κ × β)} (h : k ∈ akeys d) :
    akeys (ainsert k v d) = akeys d := by
  induction d with
  | nil => simp [akeys] at h
  | cons kv t ih =>
    obtain ⟨k', v'⟩ := kv
    unfold ainsert
    by_cases hk : k' = k
    · simp [hk, akeys]
    · simp only [hk, if_false]
      have : k ∈ akeys t := by
        simp only [akeys, List.map_cons, List.mem_cons] at h
        rcases h with h | h
        · exact absurd h.symm hk
        · exact h
      simp only [akeys, List.map_cons] at ih ⊢
      rw [ih this]

theorem akeys_ainsert_of_not_mem {k : κ} {v : β} {d : List (κ × β)} (h : k ∉ akeys d) :
    akeys (ainsert k v d) = akeys d ++ [k] := by
  induction d with
  | nil => simp [akeys, ainsert]
  | cons kv t ih =>
    obtain ⟨k', v'⟩ := kv
    simp only [akeys, List.map_cons, List.mem_cons, not_or] at h
    unfold ainsert
    have hk : ¬ k' = k := fun e => h.1 e.symm
    simp only [hk, if_false]
    simp only [akeys, List.map_cons] at ih ⊢
    rw [ih h.2]; simp

theorem mem_akeys_ainsert {k x : κ} {v : β} {d : List (κ × β)} :
    x ∈ akeys (ainsert k v d) ↔ x = k ∨ x ∈ akeys d := by
  by_cases h : k ∈ akeys d
  · rw [akeys_ainsert_of_mem h]
    constructor
    · exact Or.inr
    · rintro (rfl | hx)
      · exact h
      · exact hx
  · rw [akeys_ainsert_of_not_mem h]
    simp [or_comm]

theorem nodup_akeys_ainsert {k : κ} {v : β} {d : List (κ × β)} (h : (akeys d).Nodup) :
    (akeys (ainsert k v d)).Nodup := by
  by_cases hk : k ∈ akeys d
  · rw [akeys_ainsert_of_mem hk]; exact h
  · rw [akeys_ainsert_of_not_mem hk]
    rw [List.nodup_append]
    refine ⟨h, by simp, ?_⟩
    intro a ha b hb hab
    simp at hb
    subst hb; subst hab
    exact hk ha

/-- In a dict (unique keys) an entry is exactly a successful lookup. -/
theorem mem_iff_alookup {k : κ} {v : β} {d : List (κ × β)} (h : (akeys d).Nodup) :
    (k, v) ∈ d ↔ alookup k d = some v := by
  constructor
  · intro hm
    induction d with
    | nil => simp at hm
    | cons kv t ih =>
      obtain ⟨k', v'⟩ := kv
      simp only [akeys, List.map_cons, List.nodup_cons] at h
      rw [alookup_cons]
      rcases List.mem_cons.mp hm with e | hm
      · have e1 : k = k' := congrArg Prod.fst e
        have e2 : v = v' := congrArg Prod.snd e
        simp [e1, e2]
      · have hne : ¬ k' = k := by
          intro e
          subst e
          exact h.1 (List.mem_map.mpr ⟨(k', v), hm, rfl⟩)
        simp only [hne, if_false]
        exact ih h.2 hm
  · exact alookup_some_mem

theorem alookup_aerase (k x : κ) (d : List (κ × β)) :
    alookup x (aerase k d) = if x = k then none else alookup x d := by
  induction d with
  | nil => simp [aerase]
  | cons kv t ih =>
    obtain ⟨k', v'⟩ := kv
    unfold aerase at ih ⊢
    simp only [List.filter_cons]
    by_cases hk : k' = k
    · subst hk
      simp only [decide_true, Bool.not_true, Bool.false_eq_true, if_false, ih, alookup_cons]
      by_cases hx : x = k'
      · simp [hx]
      · have : ¬ k' = x := fun e => hx e.symm
        simp [hx, this]
    · simp only [hk, decide_false, Bool.not_false, if_true, alookup_cons, ih]
      by_cases hx : k' = x
      · subst hx; simp [hk]
      · simp [hx]

/-! ### `lookupE`, `mapM` -/

theorem lookupE_of_alookup {k : κ} {v : β} {d : List (κ × β)} (h : alookup k d = some v) :
    lookupE k d = .ok v := by
  unfold lookupE; rw [h]

theorem mapM_ok {γ δ : Type} (f : γ → Res δ) (g : γ → δ) (l : List γ) (h : ∀ x ∈ l, f x = .ok (g x)) :
    l.mapM f = .ok (l.map g) := by
  induction l with
  | nil => rfl
  | cons x t ih =>
    rw [List.mapM_cons, h x (by simp), ih (fun y hy => h y (List.mem_cons_of_mem _ hy))]
    rfl

end AL

open AL

/-! ### reading a table after an update -/

namespace Tbl

theorem tgt_ainsert (t : Tbl σ α) (q q' : σ) (row : Row σ α) (a : Option α) :
    tgt (ainsert q row t) q' a = if q = q' then (alookup a row).getD [] else tgt t q' a := by
  unfold tgt
  rw [alookup_ainsert]
  by_cases h : q = q' <;> simp [h]

theorem mem_tgt_addTargets (t : Tbl σ α) (q q' : σ) (a a' : Option α) (xs : List σ) (p : σ) :
    p ∈ tgt (addTargets t q a xs) q' a' ↔ p ∈ tgt t q' a' ∨ (q' = q ∧ a' = a ∧ p ∈ xs) := by
  unfold addTargets
  rw [tgt_ainsert]
  by_cases hq : q = q'
  · subst hq
    simp only [if_true, true_and]
    rw [alookup_ainsert]
    by_cases ha : a = a'
    · subst ha
      simp only [if_true, Option.getD_some, mem_sunion, true_and]
      rfl
    · have : ¬ a' = a := fun e => ha e.symm
      simp only [ha, if_false, this, false_and, or_false]
      rfl
  · have : ¬ q' = q := fun e => hq e.symm
    simp [hq, this]

theorem tgt_setTargets (t : Tbl σ α) (q q' : σ) (a a' : Option α) (xs : List σ) :
    tgt (setTargets t q a xs) q' a' = if q' = q ∧ a' = a then xs else tgt t q' a' := by
  unfold setTargets
  rw [tgt_ainsert]
  by_cases hq : q = q'
  · subst hq
    simp only [if_true, true_and]
    rw [alookup_ainsert]
    by_cases ha : a = a'
    · subst ha; simp
    · have : ¬ a' = a := fun e => ha e.symm
      simp only [ha, if_false, this]
      rfl
  · have : ¬ q' = q := fun e => hq e.symm
    simp [hq, this]

theorem alookup_touch (t : Tbl σ α) (q q' : σ) :
    (alookup q' (touch t q)).getD [] = (alookup q' t).getD [] := by
  unfold touch
  cases h : alookup q t with
  | some r => rfl
  | none =>
    simp only
    have key : ∀ (d : Tbl σ α), alookup q d = none →
        (alookup q' (d ++ [(q, [])])).getD [] = (alookup q' d).getD [] := by
      intro d
      induction d with
      | nil =>
        intro _
        simp only [List.nil_append, alookup_cons, alookup_nil]
        by_cases e : q = q' <;> simp [e]
      | cons kv d ih =>
        obtain ⟨k', v'⟩ := kv
        intro hn
        rw [alookup_cons] at hn
        by_cases hk : k' = q
        · simp [hk] at hn
        · simp only [hk, if_false] at hn
          simp only [List.cons_append, alookup_cons]
          by_cases e : k' = q'
          · simp [e]
          · simp only [e, if_false]; exact ih hn
    exact key t h

theorem tgt_touch (t : Tbl σ α) (q q' : σ) (a : Option α) : tgt (touch t q) q' a = tgt t q' a := by
  unfold tgt; rw [alookup_touch]

/-! ### keys -/

theorem mem_akeys_touch (t : Tbl σ α) (q x : σ) : x ∈ akeys (touch t q) ↔ x = q ∨ x ∈ akeys t := by
  unfold touch
  cases h : alookup q t with
  | some r =>
    simp only
    constructor
    · exact Or.inr
    · rintro (rfl | hx)
      · exact alookup_some_key_mem h
      · exact hx
  | none => simp [akeys, or_comm]

theorem mem_akeys_addTargets (t : Tbl σ α) (q x : σ) (a : Option α) (xs : List σ) :
    x ∈ akeys (addTargets t q a xs) ↔ x = q ∨ x ∈ akeys t := by
  unfold addTargets; exact mem_akeys_ainsert

theorem mem_akeys_setTargets (t : Tbl σ α) (q x : σ) (a : Option α) (xs : List σ) :
    x ∈ akeys (setTargets t q a xs) ↔ x = q ∨ x ∈ akeys t := by
  unfold setTargets; exact mem_akeys_ainsert

/-! ### "is a dict of dicts": unique keys at both levels -/

/-- The association lists represent Python dicts: keys are unique (outer and inner). -/
structure Dict (t : Tbl σ α) : Prop where
  keys : (akeys t).Nodup
  rows : ∀ kv ∈ t, (akeys kv.2).Nodup

theorem dict_nil : Dict ([] : Tbl σ α) := ⟨by simp [akeys], by simp⟩

theorem dict_ainsert {t : Tbl σ α} (h : Dict t) (q : σ) {row : Row σ α} (hr : (akeys row).Nodup) :
    Dict (ainsert q row t) := by
  refine ⟨nodup_akeys_ainsert h.keys, ?_⟩
  intro kv hkv
  rcases mem_ainsert hkv with e | hm
  · rw [e]; exact hr
  · exact h.rows kv hm

theorem row_nodup {t : Tbl σ α} (h : Dict t) (q : σ) : (akeys ((alookup q t).getD [])).Nodup := by
  cases hl : alookup q t with
  | none => simp [akeys]
  | some r => exact h.rows (q, r) (alookup_some_mem hl)

theorem dict_addTargets {t : Tbl σ α} (h : Dict t) (q : σ) (a : Option α) (xs : List σ) :
    Dict (addTargets t q a xs) := by
  unfold addTargets
  exact dict_ainsert h q (nodup_akeys_ainsert (row_nodup h q))

theorem dict_setTargets {t : Tbl σ α} (h : Dict t) (q : σ) (a : Option α) (xs : List σ) :
    Dict (setTargets t q a xs) := by
  unfold setTargets
  exact dict_ainsert h q (nodup_akeys_ainsert (row_nodup h q))

theorem dict_touch {t : Tbl σ α} (h : Dict t) (q : σ) : Dict (touch t q) := by
  unfold touch
  cases hl : alookup q t with
  | some r => exact h
  | none =>
    simp only
    refine ⟨?_, ?_⟩
    · have hq : q ∉ akeys t := alookup_eq_none_iff.mp hl
      simp only [akeys, List.map_append, List.map_cons, List.map_nil]
      rw [List.nodup_append]
      refine ⟨h.keys, by simp, ?_⟩
      intro x hx y hy hxy
      simp at hy
      subst hy; subst hxy
      exact hq hx
    · intro kv hkv
      rcases List.mem_append.mp hkv with hm | hm
      · exact h.rows kv hm
      · simp at hm; rw [hm]; simp [akeys]

/-! ### entry-wise invariants (symbols and targets of every entry) -/

/-- Every entry of the table has a symbol satisfying `S` and targets satisfying `T`. -/
def Ok (S : Option α → Prop) (T : σ → Prop) (t : Tbl σ α) : Prop :=
  ∀ kv ∈ t, ∀ e ∈ kv.2, S e.1 ∧ ∀ p ∈ e.2, T p

/-- The same for one row. -/
def RowOk (S : Option α → Prop) (T : σ → Prop) (r : Row σ α) : Prop :=
  ∀ e ∈ r, S e.1 ∧ ∀ p ∈ e.2, T p

variable {S : Option α → Prop} {T : σ → Prop}

theorem ok_nil : Ok S T ([] : Tbl σ α) := by intro kv h; simp at h

theorem ok_ainsert {t : Tbl σ α} (h : Ok S T t) (q : σ) {row : Row σ α} (hr : RowOk S T row) :
    Ok S T (ainsert q row t) := by
  intro kv hkv
  rcases mem_ainsert hkv with e | hm
  · rw [e]; exact hr
  · exact h kv hm

theorem rowOk_lookup {t : Tbl σ α} (h : Ok S T t) (q : σ) : RowOk S T ((alookup q t).getD []) := by
  cases hl : alookup q t with
  | none => intro e he; simp at he
  | some r => exact h (q, r) (alookup_some_mem hl)

theorem rowOk_ainsert {r : Row σ α} (h : RowOk S T r) {a : Option α} {xs : List σ} (ha : S a)
    (hx : ∀ p ∈ xs, T p) : RowOk S T (ainsert a xs r) := by
  intro e he
  rcases mem_ainsert he with e' | hm
  · rw [e']; exact ⟨ha, hx⟩
  · exact h e hm

theorem ok_addTargets {t : Tbl σ α} (h : Ok S T t) (q : σ) {a : Option α} {xs : List σ} (ha : S a)
    (hx : ∀ p ∈ xs, T p) : Ok S T (addTargets t q a xs) := by
  unfold addTargets
  refine ok_ainsert h q (rowOk_ainsert (rowOk_lookup h q) ha ?_)
  intro p hp
  rcases mem_sunion.mp hp with hp | hp
  · cases hl : alookup a ((alookup q t).getD []) with
    | none => simp [hl] at hp
    | some ts =>
      simp only [hl, Option.getD_some] at hp
      exact ((rowOk_lookup h q) (a, ts) (alookup_some_mem hl)).2 p hp
  · exact hx p hp

theorem ok_setTargets {t : Tbl σ α} (h : Ok S T t) (q : σ) {a : Option α} {xs : List σ} (ha : S a)
    (hx : ∀ p ∈ xs, T p) : Ok S T (setTargets t q a xs) := by
  unfold setTargets
  exact ok_ainsert h q (rowOk_ainsert (rowOk_lookup h q) ha hx)

theorem ok_touch {t : Tbl σ α} (h : Ok S T t) (q : σ) : Ok S T (touch t q) := by
  unfold touch
  cases hl : alookup q t with
  | some r => exact h
  | none =>
    intro kv hkv
    rcases List.mem_append.mp hkv with hm | hm
    · exact h kv hm
    · simp at hm; rw [hm]; intro e he; simp at he

theorem ok_mono {S' : Option α → Prop} {T' : σ → Prop} {t : Tbl σ α} (h : Ok S T t)
    (hS : ∀ a, S a → S' a) (hT : ∀ p, T p → T' p) : Ok S' T' t :=
  fun kv hkv e he => ⟨hS _ ((h kv hkv e he).1), fun p hp => hT p ((h kv hkv e he).2 p hp)⟩

end Tbl

/-! ### NFAs -/

namespace NFA

theorem targets_eq_tgt (n : NFA σ α) (q : σ) (a : Option α) : n.targets q a = Tbl.tgt n.trans q a := rfl

/-- Symbols allowed as keys of a row: the empty string or a member of the alphabet. -/
def SymOk (syms : List α) (a : Option α) : Prop := ∀ x, a = some x → x ∈ syms

/-- What `validate` checks, phrased with the entry-wise invariant. -/
theorem wf_iff_ok (n : NFA σ α) :
    n.WF ↔ Tbl.Ok (SymOk n.syms) (· ∈ n.states) n.trans ∧ n.init ∈ n.states ∧
      (n.init ∈ akeys n.trans ∨ n.states.length ≤ 1) ∧ ∀ q ∈ n.finals, q ∈ n.states := by
  constructor
  · intro wf
    refine ⟨?_, wf.initOk, wf.initRow, wf.finalsOk⟩
    intro kv hkv e he
    refine ⟨?_, ?_⟩
    · intro x hx
      exact wf.symsOk kv hkv x (by rw [← hx]; exact List.mem_map.mpr ⟨e, he, rfl⟩)
    · exact wf.tgtOk kv hkv e.2 (List.mem_map.mpr ⟨e, he, rfl⟩)
  · rintro ⟨hok, hi, hr, hf⟩
    refine ⟨?_, ?_, hi, hr, hf⟩
    · intro kv hkv a ha
      obtain ⟨e, he, hea⟩ := List.mem_map.mp ha
      exact (hok kv hkv e he).1 a hea
    · intro kv hkv ts hts
      obtain ⟨e, he, hets⟩ := List.mem_map.mp hts
      rw [← hets]
      exact (hok kv hkv e he).2

theorem create_eq_ok (n : NFA σ α) (wf : n.WF) : create n = .ok n := by
  unfold create
  rw [(validate_eq_ok n).mpr wf]

theorem create_ok_wf {n m : NFA σ α} (h : create n = .ok m) : m = n ∧ n.WF := by
  unfold create at h
  cases hv : n.validate with
  | error e => simp [hv] at h
  | ok u =>
    simp only [hv] at h
    have e : n = m := by injection h
    subst e
    exact ⟨rfl, (validate_eq_ok n).mp hv⟩

end NFA
end AV
