/-
Proofs/RxAList.lean — association-list facts used by the regex-builder proofs: `ainsert`,
`aupdate` (dict.update), rows (`addTarget(s)`), adding ε-edges (`addEdgesE`), and the
`targets` function of a transition table.  Core only.
-/
import AutomataVerif.Proofs.Basic
import AutomataVerif.Model.RxBuilder

namespace AV.Rx

set_option linter.unusedSectionVars false

variable {κ β : Type} [DecidableEq κ] [DecidableEq β]

theorem alookup_ainsert (k k' : κ) (v : β) (d : List (κ × β)) :
    alookup k (ainsert k' v d) = if k' = k then some v else alookup k d := by
  induction d with
  | nil => simp [ainsert, alookup]
  | cons kv t ih =>
    obtain ⟨k0, v0⟩ := kv
    by_cases h0 : k0 = k'
    · subst h0
      simp only [ainsert, if_true, alookup_cons]
      by_cases h1 : k0 = k <;> simp [h1]
    · simp only [ainsert, h0, if_false, alookup_cons, ih]
      by_cases h1 : k0 = k
      · subst h1
        have : ¬ k' = k0 := fun h => h0 h.symm
        simp [this]
      · simp [h1]

theorem akeys_ainsert_of_mem {k : κ} {v : β} {d : List (κ × β)} (h : k ∈ akeys d) :
    akeys (ainsert k v d) = akeys d := by
  induction d with
  | nil => simp [akeys] at h
  | cons kv t ih =>
    obtain ⟨k0, v0⟩ := kv
    by_cases h0 : k0 = k
    · subst h0; simp [ainsert, akeys]
    · have ht : k ∈ akeys t := by
        simp only [akeys, List.map_cons, List.mem_cons] at h
        rcases h with h | h
        · exact absurd h.symm h0
        · exact h
      simp only [ainsert, h0, if_false, akeys, List.map_cons]
      have := ih ht
      simp only [akeys] at this
      rw [this]

theorem akeys_ainsert_of_not_mem {k : κ} {v : β} {d : List (κ × β)} (h : k ∉ akeys d) :
    akeys (ainsert k v d) = akeys d ++ [k] := by
  induction d with
  | nil => simp [ainsert, akeys]
  | cons kv t ih =>
    obtain ⟨k0, v0⟩ := kv
    have h0 : ¬ k0 = k := by
      intro e; apply h; simp [akeys, e]
    have ht : k ∉ akeys t := by
      intro e; apply h; simp only [akeys, List.map_cons, List.mem_cons]; exact Or.inr e
    simp only [ainsert, h0, if_false, akeys, List.map_cons, List.cons_append]
    have := ih ht
    simp only [akeys] at this
    rw [this]

theorem mem_akeys_ainsert {k k' : κ} {v : β} {d : List (κ × β)} :
    k ∈ akeys (ainsert k' v d) ↔ k = k' ∨ k ∈ akeys d := by
  by_cases h : k' ∈ akeys d
  · rw [akeys_ainsert_of_mem h]
    constructor
    · exact Or.inr
    · rintro (e | e)
      · subst e; exact h
      · exact e
  · rw [akeys_ainsert_of_not_mem h]
    simp [or_comm]

theorem nodup_akeys_ainsert {k : κ} {v : β} {d : List (κ × β)} (hd : (akeys d).Nodup) :
    (akeys (ainsert k v d)).Nodup := by
  by_cases h : k ∈ akeys d
  · rw [akeys_ainsert_of_mem h]; exact hd
  · rw [akeys_ainsert_of_not_mem h]
    rw [List.nodup_append]
    refine ⟨hd, by simp, ?_⟩
    intro a ha b hb
    simp at hb
    subst hb
    intro e; subst e; exact h ha

/-! ### dict.update -/

theorem aupdate_cons (d1 : List (κ × β)) (kv : κ × β) (d2 : List (κ × β)) :
    aupdate d1 (kv :: d2) = aupdate (ainsert kv.1 kv.2 d1) d2 := rfl

@[simp] theorem aupdate_nil (d1 : List (κ × β)) : aupdate d1 [] = d1 := rfl

theorem mem_akeys_aupdate {k : κ} {d1 d2 : List (κ × β)} :
    k ∈ akeys (aupdate d1 d2) ↔ k ∈ akeys d1 ∨ k ∈ akeys d2 := by
  induction d2 generalizing d1 with
  | nil => simp [akeys]
  | cons kv t ih =>
    rw [aupdate_cons, ih, mem_akeys_ainsert]
    simp only [akeys, List.map_cons, List.mem_cons]
    constructor
    · rintro ((h | h) | h)
      · exact Or.inr (Or.inl h)
      · exact Or.inl h
      · exact Or.inr (Or.inr h)
    · rintro (h | h | h)
      · exact Or.inl (Or.inr h)
      · exact Or.inl (Or.inl h)
      · exact Or.inr h

theorem nodup_akeys_aupdate {d1 d2 : List (κ × β)} (hd : (akeys d1).Nodup) :
    (akeys (aupdate d1 d2)).Nodup := by
  induction d2 generalizing d1 with
  | nil => simpa
  | cons kv t ih =>
    rw [aupdate_cons]
    exact ih (nodup_akeys_ainsert hd)

/-- Lookup after `d1.update(d2)` when `d2` has no repeated key. -/
theorem alookup_aupdate {k : κ} {d1 d2 : List (κ × β)} (hd : (akeys d2).Nodup) :
    alookup k (aupdate d1 d2) =
      match alookup k d2 with
      | some v => some v
      | none => alookup k d1 := by
  induction d2 generalizing d1 with
  | nil => simp
  | cons kv t ih =>
    obtain ⟨k0, v0⟩ := kv
    have hd' : (akeys t).Nodup := by
      simp only [akeys, List.map_cons, List.nodup_cons] at hd; exact hd.2
    have hk0 : k0 ∉ akeys t := by
      simp only [akeys, List.map_cons, List.nodup_cons] at hd; exact hd.1
    rw [aupdate_cons, ih hd', alookup_cons, alookup_ainsert]
    by_cases h : k0 = k
    · subst h
      have : alookup k0 t = none := alookup_eq_none_iff.mpr hk0
      simp [this]
    · simp [h]

end AV.Rx

namespace AV.Rx

set_option linter.unusedSectionVars false

variable {α : Type} [DecidableEq α]

/-- Targets of `q` on `a` in a transition table. -/
def tgts (T : Trans α) (q : Nat) (a : Option α) : List Nat :=
  (alookup a ((alookup q T).getD [])).getD []

theorem Builder.targets_eq (b : Builder α) (q : Nat) (a : Option α) :
    b.targets q a = tgts b.trans q a := rfl

theorem tgts_of_not_key {T : Trans α} {q : Nat} (h : q ∉ akeys T) (a : Option α) :
    tgts T q a = [] := by
  unfold tgts
  rw [alookup_eq_none_iff.mpr h]
  simp

theorem mem_tgts_key {T : Trans α} {q t : Nat} {a : Option α} (h : t ∈ tgts T q a) :
    q ∈ akeys T := by
  by_cases hq : q ∈ akeys T
  · exact hq
  · rw [tgts_of_not_key hq] at h
    simp at h

/-! ### rows -/

theorem alookup_addTarget (a a' : Option α) (t : Nat) (row : Row α) :
    alookup a' (addTarget a t row) =
      if a = a' then some (sinsert t ((alookup a row).getD [])) else alookup a' row := by
  unfold addTarget
  rw [alookup_ainsert]

theorem alookup_addTargets (a a' : Option α) (ts : List Nat) (row : Row α) :
    alookup a' (addTargets a ts row) =
      if a = a' then some (sunion ((alookup a row).getD []) ts) else alookup a' row := by
  unfold addTargets
  rw [alookup_ainsert]

/-- Membership in the targets of a row after `setdefault(a, set()).add(t)`. -/
theorem mem_row_addTarget (a a' : Option α) (t t' : Nat) (row : Row α) :
    t' ∈ (alookup a' (addTarget a t row)).getD [] ↔
      t' ∈ (alookup a' row).getD [] ∨ (a' = a ∧ t' = t) := by
  rw [alookup_addTarget]
  by_cases h : a = a'
  · subst h
    simp only [if_true, Option.getD_some, mem_sinsert, true_and]
    exact or_comm
  · simp only [h, if_false]
    constructor
    · exact Or.inl
    · rintro (h' | ⟨e, _⟩)
      · exact h'
      · exact absurd e.symm h

theorem mem_row_addTargets (a a' : Option α) (ts : List Nat) (t' : Nat) (row : Row α) :
    t' ∈ (alookup a' (addTargets a ts row)).getD [] ↔
      t' ∈ (alookup a' row).getD [] ∨ (a' = a ∧ t' ∈ ts) := by
  rw [alookup_addTargets]
  by_cases h : a = a'
  · subst h
    simp only [if_true, Option.getD_some, mem_sunion, true_and]
  · simp only [h, if_false]
    constructor
    · exact Or.inl
    · rintro (h' | ⟨e, _⟩)
      · exact h'
      · exact absurd e.symm h

/-! ### adding edges to a table -/

theorem addEdgeE_ok {T : Trans α} {s : Nat} (hs : s ∈ akeys T) (a : Option α) (t : Nat) :
    ∃ T', addEdgeE T s a t = .ok T' ∧ akeys T' = akeys T ∧
      ∀ q a' t', t' ∈ tgts T' q a' ↔ t' ∈ tgts T q a' ∨ (q = s ∧ a' = a ∧ t' = t) := by
  unfold addEdgeE
  cases hrow : alookup s T with
  | none => exact absurd hs (alookup_eq_none_iff.mp hrow)
  | some row =>
    refine ⟨_, rfl, akeys_ainsert_of_mem hs, ?_⟩
    intro q a' t'
    unfold tgts
    rw [alookup_ainsert]
    by_cases hq : s = q
    · subst hq
      simp only [if_true, Option.getD_some, hrow, mem_row_addTarget, true_and]
    · simp only [hq, if_false]
      constructor
      · exact Or.inl
      · rintro (h | ⟨e, _⟩)
        · exact h
        · exact absurd e.symm hq

theorem addEdgeE_error {T : Trans α} {s : Nat} (hs : s ∉ akeys T) (a : Option α) (t : Nat) :
    addEdgeE T s a t = .error (.py .keyError) := by
  unfold addEdgeE
  rw [alookup_eq_none_iff.mpr hs]

theorem addEdgesE_ok {T : Trans α} {srcs : List Nat} (hs : ∀ s ∈ srcs, s ∈ akeys T)
    (a : Option α) (t : Nat) :
    ∃ T', addEdgesE T srcs a t = .ok T' ∧ akeys T' = akeys T ∧
      ∀ q a' t', t' ∈ tgts T' q a' ↔ t' ∈ tgts T q a' ∨ (q ∈ srcs ∧ a' = a ∧ t' = t) := by
  unfold addEdgesE
  induction srcs generalizing T with
  | nil => exact ⟨T, rfl, rfl, by simp⟩
  | cons s rest ih =>
    obtain ⟨T1, h1, hk1, ht1⟩ := addEdgeE_ok (hs s (by simp)) a t
    have hs' : ∀ s' ∈ rest, s' ∈ akeys T1 := by
      intro s' h'; rw [hk1]; exact hs s' (List.mem_cons_of_mem _ h')
    obtain ⟨T2, h2, hk2, ht2⟩ := ih hs'
    refine ⟨T2, ?_, hk2.trans hk1, ?_⟩
    · rw [List.foldlM_cons, h1]; exact h2
    · intro q a' t'
      rw [ht2, ht1]
      simp only [List.mem_cons]
      constructor
      · rintro ((h | ⟨h1, h2, h3⟩) | ⟨h1, h2, h3⟩)
        · exact Or.inl h
        · exact Or.inr ⟨Or.inl h1, h2, h3⟩
        · exact Or.inr ⟨Or.inr h1, h2, h3⟩
      · rintro (h | ⟨h1 | h1, h2, h3⟩)
        · exact Or.inl (Or.inl h)
        · exact Or.inl (Or.inr ⟨h1, h2, h3⟩)
        · exact Or.inr ⟨h1, h2, h3⟩

/-- Targets in `d1.update(d2)` for tables with disjoint key sets. -/
theorem tgts_aupdate {T1 T2 : Trans α} (hd : (akeys T2).Nodup) (q : Nat) (a : Option α) :
    tgts (aupdate T1 T2) q a = if q ∈ akeys T2 then tgts T2 q a else tgts T1 q a := by
  unfold tgts
  rw [alookup_aupdate hd]
  by_cases h : q ∈ akeys T2
  · have := alookup_isSome_iff.mpr h
    cases hl : alookup q T2 with
    | none => simp [hl] at this
    | some r => simp [h]
  · rw [alookup_eq_none_iff.mpr h]; simp [h]

theorem tgts_ainsert (T : Trans α) (k : Nat) (row : Row α) (q : Nat) (a : Option α) :
    tgts (ainsert k row T) q a = if k = q then (alookup a row).getD [] else tgts T q a := by
  unfold tgts
  rw [alookup_ainsert]
  by_cases h : k = q <;> simp [h]

end AV.Rx
