/-
Proofs/CtorKMPSpec.lean — string combinatorics behind the KMP automaton (C15): borders of
prefixes of the pattern, "prefix of the pattern that is a suffix of the word", the longest
one, and how it moves when a symbol is appended.  Core only, no automaton here.
-/
import AutomataVerif.Proofs.CtorBasic

namespace AV.Ctor.KMP

set_option linter.unusedSectionVars false
set_option linter.unusedVariables false
set_option linter.unusedSimpArgs false

variable {α : Type} [DecidableEq α]

/-! ### suffixes and `++ [a]` -/

theorem suffix_snoc_snoc {l₁ l₂ : List α} {x y : α} :
    l₁ ++ [x] <:+ l₂ ++ [y] ↔ l₁ <:+ l₂ ∧ x = y := by
  rw [← List.reverse_prefix, List.reverse_append, List.reverse_append]
  simp only [List.reverse_cons, List.reverse_nil, List.nil_append, List.singleton_append]
  rw [List.cons_prefix_cons, List.reverse_prefix, and_comm]

theorem snoc_induction {P : List α → Prop} (h0 : P [])
    (hs : ∀ w a, P w → P (w ++ [a])) : ∀ w, P w := by
  intro w
  have : ∀ r : List α, P r.reverse := by
    intro r
    induction r with
    | nil => exact h0
    | cons a r ih => rw [List.reverse_cons]; exact hs _ _ ih
  rw [← List.reverse_reverse w]; exact this _

theorem take_succ_eq (p : List α) (k : Nat) (hk : k < p.length) :
    p.take (k + 1) = p.take k ++ [p[k]] := (List.take_append_getElem hk).symm

section spec
variable (p : List α)

/-- `p[:k]` is a suffix of `p[:j]` (a border of the prefix of length `j`; `k = j` allowed). -/
def Bd (j k : Nat) : Prop := k ≤ j ∧ j ≤ p.length ∧ p.take k <:+ p.take j

/-- `p[:k]` is a suffix of `w`. -/
def PS (w : List α) (k : Nat) : Prop := k ≤ p.length ∧ p.take k <:+ w

/-- `k` is the length of the longest prefix of `p` that is a suffix of `w`. -/
def IsLps (w : List α) (k : Nat) : Prop := PS p w k ∧ ∀ j, PS p w j → j ≤ k

theorem Bd.refl {j : Nat} (hj : j ≤ p.length) : Bd p j j := ⟨Nat.le_refl _, hj, List.suffix_refl _⟩

theorem Bd.zero {j : Nat} (hj : j ≤ p.length) : Bd p j 0 :=
  ⟨Nat.zero_le _, hj, by simp⟩

theorem Bd.trans {j k l : Nat} (h1 : Bd p j k) (h2 : Bd p k l) : Bd p j l :=
  ⟨Nat.le_trans h2.1 h1.1, h1.2.1, h2.2.2.trans h1.2.2⟩

theorem length_take_le' {k : Nat} (hk : k ≤ p.length) : (p.take k).length = k := by
  rw [List.length_take]; omega

/-- Borders of the same prefix are nested. -/
theorem Bd.nest {j k l : Nat} (h1 : Bd p j k) (h2 : Bd p j l) (hlk : l ≤ k) : Bd p k l := by
  refine ⟨hlk, Nat.le_trans h1.1 h1.2.1, ?_⟩
  apply List.suffix_of_suffix_length_le h2.2.2 h1.2.2
  rw [length_take_le' p (Nat.le_trans h2.1 h2.2.1), length_take_le' p (Nat.le_trans h1.1 h1.2.1)]
  exact hlk

/-- Extending a border by one character. -/
theorem Bd.succ_iff {j k : Nat} (hj : j < p.length) (hk : k ≤ j) :
    Bd p (j + 1) (k + 1) ↔ Bd p j k ∧ p[k]? = p[j]? := by
  have hk' : k < p.length := by omega
  unfold Bd
  rw [take_succ_eq p k hk', take_succ_eq p j hj, suffix_snoc_snoc,
    List.getElem?_eq_getElem hk', List.getElem?_eq_getElem hj]
  constructor
  · rintro ⟨_, _, h1, h2⟩; exact ⟨⟨hk, by omega, h1⟩, by rw [h2]⟩
  · rintro ⟨⟨_, _, h1⟩, h2⟩; exact ⟨by omega, hj, h1, Option.some.inj h2⟩

theorem PS.zero (w : List α) : PS p w 0 := ⟨Nat.zero_le _, by simp⟩

theorem PS.bd {w : List α} {j k : Nat} (h1 : PS p w j) (h2 : PS p w k) (hkj : k ≤ j) : Bd p j k := by
  refine ⟨hkj, h1.1, ?_⟩
  apply List.suffix_of_suffix_length_le h2.2 h1.2
  rw [length_take_le' p h2.1, length_take_le' p h1.1]
  exact hkj

theorem Bd.ps {w : List α} {j k : Nat} (h1 : Bd p j k) (h2 : PS p w j) : PS p w k :=
  ⟨Nat.le_trans h1.1 h1.2.1, h1.2.2.trans h2.2⟩

/-- Appending a symbol: the prefixes of `p` that are suffixes of `w ++ [a]`. -/
theorem PS.snoc_iff (w : List α) (a : α) (k : Nat) :
    PS p (w ++ [a]) (k + 1) ↔ PS p w k ∧ p[k]? = some a := by
  unfold PS
  by_cases hk : k < p.length
  · rw [take_succ_eq p k hk, suffix_snoc_snoc, List.getElem?_eq_getElem hk]
    constructor
    · rintro ⟨_, h1, h2⟩; exact ⟨⟨by omega, h1⟩, by rw [h2]⟩
    · rintro ⟨⟨_, h1⟩, h2⟩; exact ⟨by omega, h1, Option.some.inj h2⟩
  · rw [List.getElem?_eq_none (by omega)]
    constructor
    · rintro ⟨h, _⟩; omega
    · rintro ⟨_, h⟩; cases h

theorem IsLps.unique {w : List α} {i j : Nat} (h1 : IsLps p w i) (h2 : IsLps p w j) : i = j :=
  Nat.le_antisymm (h2.2 i h1.1) (h1.2 j h2.1)

theorem IsLps.nil : IsLps p [] 0 := by
  refine ⟨PS.zero p [], ?_⟩
  intro j hj
  have := hj.2.length_le
  rw [length_take_le' p hj.1] at this
  simpa using this

/-- `p` is a suffix of `w` iff the longest prefix-suffix is all of `p`. -/
theorem IsLps.full_iff {w : List α} {i : Nat} (h : IsLps p w i) : i = p.length ↔ p <:+ w := by
  constructor
  · intro e
    have := h.1.2
    rw [e, List.take_length] at this
    exact this
  · intro hs
    have : PS p w p.length := ⟨Nat.le_refl _, by rw [List.take_length]; exact hs⟩
    have := h.2 _ this
    have := h.1.1
    omega

/-- Outcome of the failure-link search from rung `j` for symbol `a`, as the code encodes it:
`-1` when no border of `p[:j]` (including `j` itself) is followed by `a`, the longest such
border otherwise. -/
def Best (j : Nat) (a : α) (r : Int) : Prop :=
  (r = -1 ∧ ∀ k, Bd p j k → p[k]? ≠ some a) ∨
  (∃ k, r = nat k ∧ Bd p j k ∧ p[k]? = some a ∧ ∀ k', Bd p j k' → p[k']? = some a → k' ≤ k)

/-- **Transition lemma.**  If the prefixes of `p` (shorter than `p`) that are suffixes of `w`
are exactly the borders of `p[:j]`, the longest prefix of `p` that is a suffix of `w ++ [a]`
has length `r + 1` where `r` is the outcome of the search from `j`. -/
theorem lps_snoc {w : List α} {a : α} {j : Nat} {r : Int}
    (hset : ∀ k, k < p.length → (PS p w k ↔ Bd p j k)) (hb : Best p j a r) :
    IsLps p (w ++ [a]) (r + 1).toNat := by
  have key : ∀ k, PS p (w ++ [a]) (k + 1) ↔ Bd p j k ∧ p[k]? = some a := by
    intro k
    rw [PS.snoc_iff]
    constructor
    · rintro ⟨h1, h2⟩
      have hk : k < p.length := by
        apply Classical.byContradiction; intro h3
        rw [List.getElem?_eq_none (by omega)] at h2; cases h2
      exact ⟨(hset k hk).mp h1, h2⟩
    · rintro ⟨h1, h2⟩
      have hk : k < p.length := by
        apply Classical.byContradiction; intro h3
        rw [List.getElem?_eq_none (by omega)] at h2; cases h2
      exact ⟨(hset k hk).mpr h1, h2⟩
  rcases hb with ⟨rfl, hnone⟩ | ⟨k0, rfl, h1, h2, hmax⟩
  · refine ⟨PS.zero p _, ?_⟩
    intro j' hj'
    cases j' with
    | zero => exact Nat.zero_le _
    | succ k =>
      obtain ⟨h1, h2⟩ := (key k).mp hj'
      exact absurd h2 (hnone k h1)
  · have e : (nat k0 + 1).toNat = k0 + 1 := by rw [nat_cast]; omega
    rw [e]
    refine ⟨(key k0).mpr ⟨h1, h2⟩, ?_⟩
    intro j' hj'
    cases j' with
    | zero => exact Nat.zero_le _
    | succ k =>
      obtain ⟨h3, h4⟩ := (key k).mp hj'
      have := hmax k h3 h4
      omega

/-- From a state `i < |p|` that is the longest prefix-suffix of `w`. -/
theorem lps_snoc_lt {w : List α} {a : α} {i : Nat} {r : Int} (hi : i < p.length)
    (h : IsLps p w i) (hb : Best p i a r) : IsLps p (w ++ [a]) (r + 1).toNat := by
  apply lps_snoc p _ hb
  intro k hk
  constructor
  · intro h1; exact h.1.bd p h1 (h.2 k h1)
  · intro h1; exact h1.ps p h.1

/-- The longest proper border of `p[:i]`. -/
def WeakB (i b : Nat) : Prop := b < i ∧ Bd p i b ∧ ∀ k, k < i → Bd p i k → k ≤ b

/-- From the accepting state of the suffix automaton (`i = |p|`): the search starts at the
longest proper border of `p`. -/
theorem lps_snoc_full {w : List α} {a : α} {b : Nat} {r : Int}
    (h : IsLps p w p.length) (hw : WeakB p p.length b) (hb : Best p b a r) :
    IsLps p (w ++ [a]) (r + 1).toNat := by
  apply lps_snoc p _ hb
  intro k hk
  constructor
  · intro h1
    have h2 : Bd p p.length k := h.1.bd p h1 (by omega)
    exact hw.2.1.nest p h2 (hw.2.2 k hk h2)
  · intro h1
    exact (hw.2.1.trans p h1).ps p h.1

/-- Strong failure link of rung `i < |p|`: the longest proper border of `p[:i]` that is *not*
followed by `p[i]`, `-1` if there is none. -/
def Strong (i : Nat) (t : Int) : Prop :=
  (t = -1 ∧ ∀ k, k < i → Bd p i k → p[k]? = p[i]?) ∨
  (∃ k, t = nat k ∧ k < i ∧ Bd p i k ∧ p[k]? ≠ p[i]? ∧
    ∀ k', k' < i → Bd p i k' → k < k' → p[k']? = p[i]?)

theorem Strong.ge {i : Nat} {t : Int} (h : Strong p i t) : -1 ≤ t := by
  rcases h with ⟨rfl, _⟩ | ⟨k, rfl, _⟩
  · omega
  · have := nat_nonneg k; omega

/-- One step of the search: at rung `j` with `p[j] ≠ a`, the answer is the answer from the
strong failure link of `j`. -/
theorem Best.of_strong {j : Nat} {a : α} {t : Int} (hj : j < p.length) (hne : p[j]? ≠ some a)
    (hs : Strong p j t) :
    (t = -1 → Best p j a (-1)) ∧
    (∀ k r, t = nat k → Best p k a r → Best p j a r) := by
  have hjj : p[j]? = some p[j] := List.getElem?_eq_getElem hj
  constructor
  · intro e
    rcases hs with ⟨_, hall⟩ | ⟨k, e2, _⟩
    · left
      refine ⟨rfl, ?_⟩
      intro k hk
      by_cases h : k = j
      · rw [h]; exact hne
      · have : k < j := by have := hk.1; omega
        rw [hall k this hk]; exact hne
    · rw [e] at e2; have := nat_nonneg k; omega
  · intro k r e hbest
    rcases hs with ⟨e2, _⟩ | ⟨k1, e2, hk1, hbd, hneq, hall⟩
    · rw [e] at e2; have := nat_nonneg k; omega
    · have : k1 = k := by rw [e] at e2; exact (nat_inj.mp e2).symm
      subst this
      -- every border of j followed by `a` is a border of k1
      have hdown : ∀ k', Bd p j k' → p[k']? = some a → Bd p k1 k' := by
        intro k' hk' ha
        have h1 : k' ≠ j := by intro e3; rw [e3] at ha; exact hne ha
        have h2 : k' < j := by have := hk'.1; omega
        have h3 : k' ≤ k1 := by
          apply Classical.byContradiction; intro h4
          have := hall k' h2 hk' (by omega)
          rw [this] at ha; exact hne ha
        exact hbd.nest p hk' h3
      rcases hbest with ⟨rfl, hnone⟩ | ⟨k0, rfl, h1, h2, hmax⟩
      · left
        refine ⟨rfl, ?_⟩
        intro k' hk' ha
        exact hnone k' (hdown k' hk' ha) ha
      · right
        exact ⟨k0, rfl, hbd.trans p h1, h2, fun k' hk' ha => hmax k' (hdown k' hk' ha) ha⟩

theorem Best.here {j : Nat} {a : α} (hj : j ≤ p.length) (h : p[j]? = some a) : Best p j a (nat j) := by
  right
  exact ⟨j, rfl, Bd.refl p hj, h, fun k' hk' _ => hk'.1⟩

end spec

end AV.Ctor.KMP
