/-
Proofs/NFAEditSpec.lean — table-level specification of `NFA.edit_distance`
(Model/NFAEdit.lean): refused arguments, totality and validity on admissible arguments, and
the reading of the constructed grid table.  Core only.
-/
import AutomataVerif.Model.NFAEdit
import AutomataVerif.Proofs.NFATable

open AV.AL

namespace AV
namespace NFA
namespace EditT

set_option linter.unusedSectionVars false

variable {α : Type} [DecidableEq α]

theorem mem_lprod {β γ : Type} (xs : List β) (ys : List γ) (x : β) (y : γ) :
    (x, y) ∈ lprod xs ys ↔ x ∈ xs ∧ y ∈ ys := by
  unfold lprod
  simp only [List.mem_flatMap, List.mem_map, Prod.mk.injEq]
  constructor
  · rintro ⟨a, ha, b, hb, rfl, rfl⟩; exact ⟨ha, hb⟩
  · rintro ⟨hx, hy⟩; exact ⟨x, hx, y, hy, rfl, rfl⟩

/-! ### `add_any_transition` -/

theorem mem_tgt_addAny (syms : List α) (q tg : Nat × Nat) : ∀ (t : Tbl (Nat × Nat) α) (q' : Nat × Nat)
    (a : Option α) (p : Nat × Nat),
    p ∈ Tbl.tgt (addAny syms t q tg) q' a ↔
      p ∈ Tbl.tgt t q' a ∨ (q' = q ∧ p = tg ∧ ∃ c ∈ syms, a = some c) := by
  unfold addAny
  induction syms with
  | nil => intro t q' a p; simp
  | cons s syms ih =>
    intro t q' a p
    rw [List.foldl_cons, ih, Tbl.mem_tgt_addTargets, List.mem_singleton]
    constructor
    · rintro ((h | ⟨h1, h2, h3⟩) | ⟨h1, h2, c, hc, h3⟩)
      · exact Or.inl h
      · exact Or.inr ⟨h1, h3, s, by simp, h2⟩
      · exact Or.inr ⟨h1, h2, c, List.mem_cons_of_mem _ hc, h3⟩
    · rintro (h | ⟨h1, h2, c, hc, h3⟩)
      · exact Or.inl (Or.inl h)
      · rcases List.mem_cons.mp hc with rfl | hc
        · exact Or.inl (Or.inr ⟨h1, h3, h2⟩)
        · exact Or.inr ⟨h1, h2, c, hc, h3⟩

theorem akeys_addAny_mono (syms : List α) (q tg : Nat × Nat) : ∀ (t : Tbl (Nat × Nat) α) (x : Nat × Nat),
    x ∈ akeys t → x ∈ akeys (addAny syms t q tg) := by
  unfold addAny
  induction syms with
  | nil => intro t x h; exact h
  | cons s syms ih =>
    intro t x h
    rw [List.foldl_cons]
    exact ih _ x ((Tbl.mem_akeys_addTargets _ _ _ _ _).mpr (Or.inr h))

theorem ok_addAny {S : Option α → Prop} {T : Nat × Nat → Prop} (syms : List α) (q tg : Nat × Nat)
    (hS : ∀ c ∈ syms, S (some c)) (hT : T tg) : ∀ (t : Tbl (Nat × Nat) α), Tbl.Ok S T t →
    Tbl.Ok S T (addAny syms t q tg) := by
  unfold addAny
  induction syms with
  | nil => intro t h; exact h
  | cons s syms ih =>
    intro t h
    rw [List.foldl_cons]
    exact ih (fun c hc => hS c (List.mem_cons_of_mem _ hc)) _
      (Tbl.ok_addTargets h q (hS s (by simp)) (by intro p hp; simp at hp; rw [hp]; exact hT))

/-! ### one cell of the first loop -/

/-- The edges the first loop adds for the cell `c = ((symbol, i), e)`. -/
def CellEdge (syms : List α) (K : Nat) (ins del sub : Bool) (c : (α × Nat) × Nat) (a : Option α)
    (p : Nat × Nat) : Prop :=
  (a = some c.1.1 ∧ p = (c.1.2 + 1, c.2)) ∨
  (c.2 < K ∧ ins = true ∧ (∃ x ∈ syms, a = some x) ∧ p = (c.1.2, c.2 + 1)) ∨
  (c.2 < K ∧ del = true ∧ a = none ∧ p = (c.1.2 + 1, c.2 + 1)) ∨
  (c.2 < K ∧ sub = true ∧ (∃ x ∈ syms, a = some x) ∧ p = (c.1.2 + 1, c.2 + 1))

theorem mem_tgt_editCell (syms : List α) (K : Nat) (ins del sub : Bool) (t : Tbl (Nat × Nat) α)
    (c : (α × Nat) × Nat) (q : Nat × Nat) (a : Option α) (p : Nat × Nat) :
    p ∈ Tbl.tgt (editCell syms K ins del sub t c) q a ↔
      p ∈ Tbl.tgt t q a ∨ (q = (c.1.2, c.2) ∧ CellEdge syms K ins del sub c a p) := by
  unfold editCell CellEdge
  simp only
  by_cases hK : c.2 < K
  · simp only [hK, if_true, true_and]
    cases ins <;> cases del <;> cases sub <;>
      simp only [Bool.false_eq_true, if_false, if_true, mem_tgt_addAny, Tbl.mem_tgt_addTargets,
        Tbl.tgt_touch, List.mem_singleton, false_and, or_false, false_or, true_and] <;>
      grind
  · simp only [hK, if_false, false_and, or_false, Tbl.mem_tgt_addTargets, Tbl.tgt_touch,
      List.mem_singleton]

theorem akeys_editCell_self (syms : List α) (K : Nat) (ins del sub : Bool) (t : Tbl (Nat × Nat) α)
    (c : (α × Nat) × Nat) : (c.1.2, c.2) ∈ akeys (editCell syms K ins del sub t c) := by
  unfold editCell
  simp only
  have h0 : (c.1.2, c.2) ∈ akeys (Tbl.addTargets (Tbl.touch t (c.1.2, c.2)) (c.1.2, c.2)
      (some c.1.1) [(c.1.2 + 1, c.2)]) := (Tbl.mem_akeys_addTargets _ _ _ _ _).mpr (Or.inl rfl)
  by_cases hK : c.2 < K
  · simp only [hK, if_true]
    cases ins <;> cases del <;> cases sub <;>
      simp only [Bool.false_eq_true, if_false, if_true] <;>
      first
        | exact h0
        | (apply akeys_addAny_mono; first
            | exact h0
            | (apply (Tbl.mem_akeys_addTargets _ _ _ _ _).mpr; right; first
                | exact h0
                | (apply akeys_addAny_mono; exact h0))
            | (apply akeys_addAny_mono; exact h0))
        | (apply (Tbl.mem_akeys_addTargets _ _ _ _ _).mpr; right; first
            | exact h0
            | (apply akeys_addAny_mono; exact h0))
  · simp only [hK, if_false]; exact h0

theorem akeys_editCell_mono (syms : List α) (K : Nat) (ins del sub : Bool) (t : Tbl (Nat × Nat) α)
    (c : (α × Nat) × Nat) (x : Nat × Nat) (hx : x ∈ akeys t) :
    x ∈ akeys (editCell syms K ins del sub t c) := by
  unfold editCell
  simp only
  have h0 : x ∈ akeys (Tbl.addTargets (Tbl.touch t (c.1.2, c.2)) (c.1.2, c.2)
      (some c.1.1) [(c.1.2 + 1, c.2)]) :=
    (Tbl.mem_akeys_addTargets _ _ _ _ _).mpr (Or.inr ((Tbl.mem_akeys_touch _ _ _).mpr (Or.inr hx)))
  by_cases hK : c.2 < K
  · simp only [hK, if_true]
    cases ins <;> cases del <;> cases sub <;>
      simp only [Bool.false_eq_true, if_false, if_true] <;>
      first
        | exact h0
        | (apply akeys_addAny_mono; first
            | exact h0
            | (apply (Tbl.mem_akeys_addTargets _ _ _ _ _).mpr; right; first
                | exact h0
                | (apply akeys_addAny_mono; exact h0))
            | (apply akeys_addAny_mono; exact h0))
        | (apply (Tbl.mem_akeys_addTargets _ _ _ _ _).mpr; right; first
            | exact h0
            | (apply akeys_addAny_mono; exact h0))
  · simp only [hK, if_false]; exact h0

theorem ok_editCell {S : Option α → Prop} {T : Nat × Nat → Prop} (syms : List α) (K : Nat)
    (ins del sub : Bool) (t : Tbl (Nat × Nat) α) (c : (α × Nat) × Nat) (h : Tbl.Ok S T t)
    (hS : ∀ x ∈ syms, S (some x)) (hSc : S (some c.1.1)) (hSn : S none)
    (hT1 : T (c.1.2 + 1, c.2)) (hT2 : c.2 < K → T (c.1.2, c.2 + 1))
    (hT3 : c.2 < K → T (c.1.2 + 1, c.2 + 1)) :
    Tbl.Ok S T (editCell syms K ins del sub t c) := by
  unfold editCell
  simp only
  have h0 : Tbl.Ok S T (Tbl.addTargets (Tbl.touch t (c.1.2, c.2)) (c.1.2, c.2)
      (some c.1.1) [(c.1.2 + 1, c.2)]) :=
    Tbl.ok_addTargets (Tbl.ok_touch h _) _ hSc (by intro p hp; simp at hp; rw [hp]; exact hT1)
  by_cases hK : c.2 < K
  · simp only [hK, if_true]
    have k1 : ∀ t', Tbl.Ok S T t' → Tbl.Ok S T (addAny syms t' (c.1.2, c.2) (c.1.2, c.2 + 1)) :=
      fun t' h' => ok_addAny syms _ _ hS (hT2 hK) t' h'
    have k2 : ∀ t', Tbl.Ok S T t' →
        Tbl.Ok S T (Tbl.addTargets t' (c.1.2, c.2) none [(c.1.2 + 1, c.2 + 1)]) :=
      fun t' h' => Tbl.ok_addTargets h' _ hSn (by intro p hp; simp at hp; rw [hp]; exact hT3 hK)
    have k3 : ∀ t', Tbl.Ok S T t' → Tbl.Ok S T (addAny syms t' (c.1.2, c.2) (c.1.2 + 1, c.2 + 1)) :=
      fun t' h' => ok_addAny syms _ _ hS (hT3 hK) t' h'
    cases ins <;> cases del <;> cases sub <;>
      simp only [Bool.false_eq_true, if_false, if_true] <;>
      first
        | exact h0
        | exact k1 _ h0 | exact k2 _ h0 | exact k3 _ h0
        | exact k2 _ (k1 _ h0) | exact k3 _ (k1 _ h0) | exact k3 _ (k2 _ h0)
        | exact k3 _ (k2 _ (k1 _ h0))
  · simp only [hK, if_false]; exact h0

/-! ### the first loop -/

theorem mem_tgt_foldl_editCell (syms : List α) (K : Nat) (ins del sub : Bool) :
    ∀ (l : List ((α × Nat) × Nat)) (t : Tbl (Nat × Nat) α) (q : Nat × Nat) (a : Option α) (p : Nat × Nat),
    p ∈ Tbl.tgt (l.foldl (editCell syms K ins del sub) t) q a ↔
      p ∈ Tbl.tgt t q a ∨ ∃ c ∈ l, q = (c.1.2, c.2) ∧ CellEdge syms K ins del sub c a p := by
  intro l
  induction l with
  | nil => intro t q a p; simp
  | cons c l ih =>
    intro t q a p
    rw [List.foldl_cons, ih, mem_tgt_editCell]
    constructor
    · rintro ((h | ⟨h1, h2⟩) | ⟨c', hc', h1, h2⟩)
      · exact Or.inl h
      · exact Or.inr ⟨c, by simp, h1, h2⟩
      · exact Or.inr ⟨c', List.mem_cons_of_mem _ hc', h1, h2⟩
    · rintro (h | ⟨c', hc', h1, h2⟩)
      · exact Or.inl (Or.inl h)
      · rcases List.mem_cons.mp hc' with rfl | hc'
        · exact Or.inl (Or.inr ⟨h1, h2⟩)
        · exact Or.inr ⟨c', hc', h1, h2⟩

theorem akeys_foldl_editCell_mono (syms : List α) (K : Nat) (ins del sub : Bool) :
    ∀ (l : List ((α × Nat) × Nat)) (t : Tbl (Nat × Nat) α) (x : Nat × Nat), x ∈ akeys t →
    x ∈ akeys (l.foldl (editCell syms K ins del sub) t) := by
  intro l
  induction l with
  | nil => intro t x h; exact h
  | cons c l ih => intro t x h; rw [List.foldl_cons]; exact ih _ x (akeys_editCell_mono _ _ _ _ _ _ _ x h)

theorem akeys_foldl_editCell_mem (syms : List α) (K : Nat) (ins del sub : Bool) :
    ∀ (l : List ((α × Nat) × Nat)) (t : Tbl (Nat × Nat) α) (c : (α × Nat) × Nat), c ∈ l →
    (c.1.2, c.2) ∈ akeys (l.foldl (editCell syms K ins del sub) t) := by
  intro l
  induction l with
  | nil => intro t c h; simp at h
  | cons c0 l ih =>
    intro t c h
    rw [List.foldl_cons]
    rcases List.mem_cons.mp h with rfl | h
    · exact akeys_foldl_editCell_mono _ _ _ _ _ _ _ _ (akeys_editCell_self _ _ _ _ _ _ _)
    · exact ih _ c h

theorem ok_foldl_editCell {S : Option α → Prop} {T : Nat × Nat → Prop} (syms : List α) (K : Nat)
    (ins del sub : Bool) (hS : ∀ x ∈ syms, S (some x)) (hSn : S none) :
    ∀ (l : List ((α × Nat) × Nat)) (t : Tbl (Nat × Nat) α), Tbl.Ok S T t →
    (∀ c ∈ l, S (some c.1.1) ∧ T (c.1.2 + 1, c.2) ∧ (c.2 < K → T (c.1.2, c.2 + 1)) ∧
      (c.2 < K → T (c.1.2 + 1, c.2 + 1))) →
    Tbl.Ok S T (l.foldl (editCell syms K ins del sub) t) := by
  intro l
  induction l with
  | nil => intro t h _; exact h
  | cons c l ih =>
    intro t h hl
    rw [List.foldl_cons]
    obtain ⟨h1, h2, h3, h4⟩ := hl c (by simp)
    exact ih _ (ok_editCell syms K ins del sub t c h hS h1 hSn h2 h3 h4)
      (fun c' hc' => hl c' (List.mem_cons_of_mem _ hc'))

/-! ### the second loop (last column) -/

theorem mem_tgt_editLast (syms : List α) (n K : Nat) (ins : Bool)
    (acc : Tbl (Nat × Nat) α × List (Nat × Nat)) (e : Nat) (q : Nat × Nat) (a : Option α) (p : Nat × Nat) :
    p ∈ Tbl.tgt (editLast syms n K ins acc e).1 q a ↔
      p ∈ Tbl.tgt acc.1 q a ∨
      (q = (n, e) ∧ ins = true ∧ e < K ∧ (∃ x ∈ syms, a = some x) ∧ p = (n, e + 1)) := by
  unfold editLast
  simp only
  by_cases h : (ins && decide (e < K)) = true
  · simp only [h, if_true, mem_tgt_addAny, Tbl.tgt_touch]
    simp only [Bool.and_eq_true, decide_eq_true_eq] at h
    constructor
    · rintro (h' | ⟨h1, h2, h3⟩)
      · exact Or.inl h'
      · exact Or.inr ⟨h1, h.1, h.2, h3, h2⟩
    · rintro (h' | ⟨h1, _, _, h3, h2⟩)
      · exact Or.inl h'
      · exact Or.inr ⟨h1, h2, h3⟩
  · rw [if_neg h, Tbl.tgt_touch]
    simp only [Bool.and_eq_true, decide_eq_true_eq, not_and] at h
    constructor
    · intro h'; exact Or.inl h'
    · rintro (h' | ⟨_, h2, h3, _⟩)
      · exact h'
      · exact absurd h3 (h h2)

theorem mem_tgt_foldl_editLast (syms : List α) (n K : Nat) (ins : Bool) :
    ∀ (l : List Nat) (acc : Tbl (Nat × Nat) α × List (Nat × Nat)) (q : Nat × Nat) (a : Option α)
      (p : Nat × Nat),
    p ∈ Tbl.tgt (l.foldl (editLast syms n K ins) acc).1 q a ↔
      p ∈ Tbl.tgt acc.1 q a ∨
      ∃ e ∈ l, q = (n, e) ∧ ins = true ∧ e < K ∧ (∃ x ∈ syms, a = some x) ∧ p = (n, e + 1) := by
  intro l
  induction l with
  | nil => intro acc q a p; simp
  | cons e l ih =>
    intro acc q a p
    rw [List.foldl_cons, ih, mem_tgt_editLast]
    constructor
    · rintro ((h | h) | ⟨e', he', h⟩)
      · exact Or.inl h
      · exact Or.inr ⟨e, by simp, h⟩
      · exact Or.inr ⟨e', List.mem_cons_of_mem _ he', h⟩
    · rintro (h | ⟨e', he', h⟩)
      · exact Or.inl (Or.inl h)
      · rcases List.mem_cons.mp he' with rfl | he'
        · exact Or.inl (Or.inr h)
        · exact Or.inr ⟨e', he', h⟩

theorem mem_fin_foldl_editLast (syms : List α) (n K : Nat) (ins : Bool) :
    ∀ (l : List Nat) (acc : Tbl (Nat × Nat) α × List (Nat × Nat)) (x : Nat × Nat),
    x ∈ (l.foldl (editLast syms n K ins) acc).2 ↔ x ∈ acc.2 ∨ ∃ e ∈ l, x = (n, e) := by
  intro l
  induction l with
  | nil => intro acc x; simp
  | cons e l ih =>
    intro acc x
    rw [List.foldl_cons, ih]
    simp only [editLast, mem_sinsert, List.mem_cons, exists_eq_or_imp]
    constructor
    · rintro ((h | h) | h)
      · exact Or.inr (Or.inl h)
      · exact Or.inl h
      · exact Or.inr (Or.inr h)
    · rintro (h | h | h)
      · exact Or.inl (Or.inr h)
      · exact Or.inl (Or.inl h)
      · exact Or.inr h

theorem akeys_editLast_mono (syms : List α) (n K : Nat) (ins : Bool)
    (acc : Tbl (Nat × Nat) α × List (Nat × Nat)) (e : Nat) (x : Nat × Nat) (hx : x ∈ akeys acc.1) :
    x ∈ akeys (editLast syms n K ins acc e).1 := by
  unfold editLast
  simp only
  have h0 : x ∈ akeys (Tbl.touch acc.1 (n, e)) := (Tbl.mem_akeys_touch _ _ _).mpr (Or.inr hx)
  split
  · exact akeys_addAny_mono _ _ _ _ _ h0
  · exact h0

theorem akeys_editLast_self (syms : List α) (n K : Nat) (ins : Bool)
    (acc : Tbl (Nat × Nat) α × List (Nat × Nat)) (e : Nat) :
    (n, e) ∈ akeys (editLast syms n K ins acc e).1 := by
  unfold editLast
  simp only
  have h0 : (n, e) ∈ akeys (Tbl.touch acc.1 (n, e)) := (Tbl.mem_akeys_touch _ _ _).mpr (Or.inl rfl)
  split
  · exact akeys_addAny_mono _ _ _ _ _ h0
  · exact h0

theorem akeys_foldl_editLast_mono (syms : List α) (n K : Nat) (ins : Bool) :
    ∀ (l : List Nat) (acc : Tbl (Nat × Nat) α × List (Nat × Nat)) (x : Nat × Nat), x ∈ akeys acc.1 →
    x ∈ akeys (l.foldl (editLast syms n K ins) acc).1 := by
  intro l
  induction l with
  | nil => intro acc x h; exact h
  | cons e l ih => intro acc x h; rw [List.foldl_cons]; exact ih _ x (akeys_editLast_mono _ _ _ _ _ _ x h)

theorem akeys_foldl_editLast_mem (syms : List α) (n K : Nat) (ins : Bool) :
    ∀ (l : List Nat) (acc : Tbl (Nat × Nat) α × List (Nat × Nat)) (e : Nat), e ∈ l →
    (n, e) ∈ akeys (l.foldl (editLast syms n K ins) acc).1 := by
  intro l
  induction l with
  | nil => intro acc e h; simp at h
  | cons e0 l ih =>
    intro acc e h
    rw [List.foldl_cons]
    rcases List.mem_cons.mp h with rfl | h
    · exact akeys_foldl_editLast_mono _ _ _ _ _ _ _ (akeys_editLast_self _ _ _ _ _ _)
    · exact ih _ e h

theorem ok_foldl_editLast {S : Option α → Prop} {T : Nat × Nat → Prop} (syms : List α) (n K : Nat)
    (ins : Bool) (hS : ∀ x ∈ syms, S (some x)) :
    ∀ (l : List Nat) (acc : Tbl (Nat × Nat) α × List (Nat × Nat)), Tbl.Ok S T acc.1 →
    (∀ e ∈ l, e < K → T (n, e + 1)) → Tbl.Ok S T (l.foldl (editLast syms n K ins) acc).1 := by
  intro l
  induction l with
  | nil => intro acc h _; exact h
  | cons e l ih =>
    intro acc h hl
    rw [List.foldl_cons]
    refine ih _ ?_ (fun e' he' => hl e' (List.mem_cons_of_mem _ he'))
    unfold editLast
    simp only
    split
    · rename_i hc
      simp only [Bool.and_eq_true, decide_eq_true_eq] at hc
      exact ok_addAny syms _ _ hS (hl e (by simp) hc.2) _ (Tbl.ok_touch h _)
    · exact Tbl.ok_touch h _

theorem symOk_none' (syms : List α) : SymOk syms none := by intro x h; cases h

end EditT

open EditT

set_option linter.unusedSectionVars false

/-- The record `edit_distance` passes to the constructor. -/
def editRaw {α : Type} [DecidableEq α] (syms ref : List α) (K : Nat) (ins del sub : Bool) :
    NFA (Nat × Nat) α :=
  { states := lprod (List.range (ref.length + 1)) (List.range (K + 1)), syms := syms, init := (0, 0),
    finals := ((List.range (K + 1)).foldl (editLast syms ref.length K ins)
      ((lprod ref.zipIdx (List.range (K + 1))).foldl (editCell syms K ins del sub) [], [])).2,
    trans := ((List.range (K + 1)).foldl (editLast syms ref.length K ins)
      ((lprod ref.zipIdx (List.range (K + 1))).foldl (editCell syms K ins del sub) [], [])).1 }

variable {α : Type} [DecidableEq α]

theorem editDistance_eq (syms ref : List α) (k : Int) (ins del sub : Bool) (hk : 0 ≤ k)
    (hflag : (ins || del || sub) = true) :
    editDistance syms ref k ins del sub = create (editRaw syms ref k.toNat ins del sub) := by
  unfold editDistance
  have hk' : ¬ k < 0 := by omega
  simp only [hk', if_false, hflag, Bool.not_true, Bool.false_eq_true]
  rfl

/-- `edit_distance` refuses a negative bound … -/
theorem editDistance_negative (syms ref : List α) (k : Int) (ins del sub : Bool) (hk : k < 0) :
    editDistance syms ref k ins del sub = .error (.py .valueError) := by
  unfold editDistance; simp [hk]

/-- … and a call with no enabled edit kind. -/
theorem editDistance_no_kind (syms ref : List α) (k : Int) :
    editDistance syms ref k false false false = .error (.py .valueError) := by
  unfold editDistance
  by_cases hk : k < 0 <;> simp [hk]

theorem mem_cells (ref : List α) (K : Nat) (c : (α × Nat) × Nat) :
    c ∈ lprod ref.zipIdx (List.range (K + 1)) ↔ ref[c.1.2]? = some c.1.1 ∧ c.2 ≤ K := by
  obtain ⟨⟨x, i⟩, e⟩ := c
  rw [EditT.mem_lprod, List.mem_zipIdx_iff_getElem?, List.mem_range]
  simp only
  constructor
  · rintro ⟨h1, h2⟩; exact ⟨h1, by omega⟩
  · rintro ⟨h1, h2⟩; exact ⟨h1, by omega⟩

/-- Reading of the constructed table on the grid. -/
theorem editRaw_tgt (syms ref : List α) (K : Nat) (ins del sub : Bool) (i e : Nat) (a : Option α)
    (t : Nat × Nat) :
    t ∈ (editRaw syms ref K ins del sub).targets (i, e) a ↔
      (∃ c, (ref[c.1.2]? = some c.1.1 ∧ c.2 ≤ K) ∧ (i, e) = (c.1.2, c.2) ∧
        CellEdge syms K ins del sub c a t) ∨
      (∃ e', e' ≤ K ∧ (i, e) = (ref.length, e') ∧ ins = true ∧ e' < K ∧ (∃ x ∈ syms, a = some x) ∧
        t = (ref.length, e' + 1)) := by
  rw [targets_eq_tgt]
  simp only [editRaw]
  rw [mem_tgt_foldl_editLast, mem_tgt_foldl_editCell]
  constructor
  · rintro ((h | ⟨c, hc, h⟩) | ⟨e', he', h⟩)
    · simp [Tbl.tgt] at h
    · exact Or.inl ⟨c, (mem_cells ref K c).mp hc, h⟩
    · exact Or.inr ⟨e', by have := List.mem_range.mp he'; omega, h⟩
  · rintro (⟨c, hc, h⟩ | ⟨e', he', h⟩)
    · exact Or.inl (Or.inr ⟨c, (mem_cells ref K c).mpr hc, h⟩)
    · exact Or.inr ⟨e', List.mem_range.mpr (by omega), h⟩

theorem editDistance_spec (syms ref : List α) (k : Int) (ins del sub : Bool) (hk : 0 ≤ k)
    (hflag : (ins || del || sub) = true) (href : ∀ c ∈ ref, c ∈ syms) :
    ∃ R : NFA (Nat × Nat) α, editDistance syms ref k ins del sub = .ok R ∧ R.validate = .ok () ∧
      R.init = (0, 0) ∧ R.syms = syms ∧
      (∀ i e c t, i ≤ ref.length → e ≤ k.toNat → (t ∈ R.targets (i, e) (some c) ↔
        (ref[i]? = some c ∧ t = (i + 1, e)) ∨
        (e < k.toNat ∧ ins = true ∧ c ∈ syms ∧ t = (i, e + 1)) ∨
        (i < ref.length ∧ e < k.toNat ∧ sub = true ∧ c ∈ syms ∧ t = (i + 1, e + 1)))) ∧
      (∀ i e t, i ≤ ref.length → e ≤ k.toNat → (t ∈ R.targets (i, e) none ↔
        i < ref.length ∧ e < k.toNat ∧ del = true ∧ t = (i + 1, e + 1))) ∧
      (∀ i e, i ≤ ref.length → e ≤ k.toNat → ((i, e) ∈ R.finals ↔ i = ref.length)) := by
  generalize hK : k.toNat = K
  have hmemref : ∀ i c, ref[i]? = some c → i < ref.length ∧ c ∈ syms := by
    intro i c h
    obtain ⟨hi, hc⟩ := List.getElem?_eq_some_iff.mp h
    exact ⟨hi, href c (hc ▸ List.getElem_mem hi)⟩
  have hwf : (editRaw syms ref K ins del sub).WF := by
    rw [wf_iff_ok]
    refine ⟨?_, ?_, Or.inl ?_, ?_⟩
    · simp only [editRaw]
      refine ok_foldl_editLast syms ref.length K ins (fun x hx y hy => by cases hy; exact hx) _ _
        (ok_foldl_editCell syms K ins del sub (fun x hx y hy => by cases hy; exact hx)
          (symOk_none' syms) _ _ Tbl.ok_nil ?_) ?_
      · intro c hc
        obtain ⟨h1, h2⟩ := (mem_cells ref K c).mp hc
        obtain ⟨hi, hs⟩ := hmemref _ _ h1
        refine ⟨fun y hy => by cases hy; exact hs, ?_, ?_, ?_⟩
        · exact (EditT.mem_lprod _ _ _ _).mpr ⟨List.mem_range.mpr (by omega), List.mem_range.mpr (by omega)⟩
        · intro h; exact (EditT.mem_lprod _ _ _ _).mpr ⟨List.mem_range.mpr (by omega), List.mem_range.mpr (by omega)⟩
        · intro h; exact (EditT.mem_lprod _ _ _ _).mpr ⟨List.mem_range.mpr (by omega), List.mem_range.mpr (by omega)⟩
      · intro e he h
        exact (EditT.mem_lprod _ _ _ _).mpr ⟨List.mem_range.mpr (by omega), List.mem_range.mpr (by omega)⟩
    · exact (EditT.mem_lprod _ _ _ _).mpr ⟨List.mem_range.mpr (by omega), List.mem_range.mpr (by omega)⟩
    · simp only [editRaw]
      by_cases hn : ref.length = 0
      · have : ((0 : Nat), (0 : Nat)) = (ref.length, 0) := by rw [hn]
        rw [this]
        exact akeys_foldl_editLast_mem syms ref.length K ins _ _ 0 (List.mem_range.mpr (by omega))
      · apply akeys_foldl_editLast_mono
        have hpos : 0 < ref.length := by omega
        have hc : ((ref[0]'hpos, 0), 0) ∈ lprod ref.zipIdx (List.range (K + 1)) :=
          (mem_cells ref K _).mpr ⟨by simp, by omega⟩
        exact akeys_foldl_editCell_mem syms K ins del sub _ _ _ hc
    · intro q hq
      simp only [editRaw] at hq ⊢
      rcases (mem_fin_foldl_editLast syms ref.length K ins _ _ q).mp hq with h | ⟨e, he, rfl⟩
      · simp at h
      · exact (EditT.mem_lprod _ _ _ _).mpr ⟨List.mem_range.mpr (by omega), he⟩
  refine ⟨editRaw syms ref K ins del sub, ?_, (validate_eq_ok _).mpr hwf, rfl, rfl, ?_, ?_, ?_⟩
  · rw [editDistance_eq syms ref k ins del sub hk hflag, hK, create_eq_ok _ hwf]
  · intro i e c t hi he
    rw [editRaw_tgt]
    constructor
    · rintro (⟨cell, ⟨h1, h2⟩, hq, hedge⟩ | ⟨e', he', hq, hins, hlt, ⟨x, hx, hax⟩, ht⟩)
      · obtain ⟨⟨sym, i'⟩, e''⟩ := cell
        simp only [Prod.mk.injEq] at hq
        obtain ⟨rfl, rfl⟩ := hq
        obtain ⟨hil, _⟩ := hmemref _ _ h1
        rcases hedge with ⟨ha, ht⟩ | ⟨hlt, hins, ⟨x, hx, hax⟩, ht⟩ | ⟨_, _, ha, _⟩ | ⟨hlt, hsub, ⟨x, hx, hax⟩, ht⟩
        · simp only at ha ht
          cases ha
          exact Or.inl ⟨h1, ht⟩
        · cases hax
          exact Or.inr (Or.inl ⟨hlt, hins, hx, ht⟩)
        · cases ha
        · cases hax
          exact Or.inr (Or.inr ⟨hil, hlt, hsub, hx, ht⟩)
      · simp only [Prod.mk.injEq] at hq
        obtain ⟨rfl, rfl⟩ := hq
        cases hax
        exact Or.inr (Or.inl ⟨hlt, hins, hx, ht⟩)
    · rintro (⟨h1, ht⟩ | ⟨hlt, hins, hc, ht⟩ | ⟨hil, hlt, hsub, hc, ht⟩)
      · exact Or.inl ⟨((c, i), e), ⟨h1, he⟩, rfl, Or.inl ⟨rfl, ht⟩⟩
      · by_cases hil : i < ref.length
        · exact Or.inl ⟨((ref[i], i), e), ⟨by simp [hil], he⟩, rfl,
            Or.inr (Or.inl ⟨hlt, hins, ⟨c, hc, rfl⟩, ht⟩)⟩
        · have : i = ref.length := by omega
          subst this
          exact Or.inr ⟨e, he, rfl, hins, hlt, ⟨c, hc, rfl⟩, ht⟩
      · exact Or.inl ⟨((ref[i], i), e), ⟨by simp [hil], he⟩, rfl,
          Or.inr (Or.inr (Or.inr ⟨hlt, hsub, ⟨c, hc, rfl⟩, ht⟩))⟩
  · intro i e t hi he
    rw [editRaw_tgt]
    constructor
    · rintro (⟨cell, ⟨h1, h2⟩, hq, hedge⟩ | ⟨e', he', hq, hins, hlt, ⟨x, hx, hax⟩, ht⟩)
      · obtain ⟨⟨sym, i'⟩, e''⟩ := cell
        simp only [Prod.mk.injEq] at hq
        obtain ⟨rfl, rfl⟩ := hq
        obtain ⟨hil, _⟩ := hmemref _ _ h1
        rcases hedge with ⟨ha, _⟩ | ⟨_, _, ⟨x, _, hax⟩, _⟩ | ⟨hlt, hdel, _, ht⟩ | ⟨_, _, ⟨x, _, hax⟩, _⟩
        · cases ha
        · cases hax
        · exact ⟨hil, hlt, hdel, ht⟩
        · cases hax
      · cases hax
    · rintro ⟨hil, hlt, hdel, ht⟩
      exact Or.inl ⟨((ref[i], i), e), ⟨by simp [hil], he⟩, rfl,
        Or.inr (Or.inr (Or.inl ⟨hlt, hdel, rfl, ht⟩))⟩
  · intro i e hi he
    simp only [editRaw]
    rw [mem_fin_foldl_editLast]
    constructor
    · rintro (h | ⟨e', _, h⟩)
      · simp at h
      · simp only [Prod.mk.injEq] at h; exact h.1
    · intro h
      exact Or.inr ⟨e, List.mem_range.mpr (by omega), by rw [h]⟩

end NFA
end AV
