/-
Proofs/Read.lean — the readers of DFA and NFA under well-formedness (core only).
-/
import AutomataVerif.Proofs.Validate

namespace AV

set_option linter.unusedSectionVars false

variable {σ α : Type} [DecidableEq σ] [DecidableEq α]

namespace DFA

theorem row?_some_of_mem {d : DFA σ α} (wf : d.WF) {q : σ} (hq : q ∈ d.states) :
    ∃ r, d.row? q = some r := by
  have := alookup_isSome_iff.mpr (wf.rows q hq)
  unfold row?
  cases h : alookup q d.trans with
  | none => simp [h] at this
  | some r => exact ⟨r, rfl⟩

/-- On a well-formed DFA `transitions[current_state]` never raises. -/
theorem stepE_eq {d : DFA σ α} (wf : d.WF) {q : σ} (hq : q ∈ d.states) (a : α) :
    d.stepE (some q) a = .ok (d.step? (some q) a) := by
  obtain ⟨r, hr⟩ := row?_some_of_mem wf hq
  simp [stepE, step?, row, hr]

theorem stepE_none (d : DFA σ α) (a : α) : d.stepE none a = .ok (d.step? none a) := rfl

theorem step?_mem {d : DFA σ α} (wf : d.WF) {q q' : σ} {a : α}
    (h : d.step? (some q) a = some q') : q' ∈ d.states := by
  simp only [step?, row] at h
  cases hr : d.row? q with
  | none => simp [hr] at h
  | some r =>
    simp only [hr, Option.getD_some] at h
    exact wf.tgtOk (q, r) (alookup_some_mem hr) q' (alookup_some_val_mem h)

/-- A symbol outside the alphabet has no transition anywhere. -/
theorem step?_foreign {d : DFA σ α} (wf : d.WF) (s : Option σ) {a : α} (ha : a ∉ d.syms) :
    d.step? s a = none := by
  cases s with
  | none => rfl
  | some q =>
    simp only [step?, row]
    cases hr : d.row? q with
    | none => simp
    | some r =>
      simp only [Option.getD_some]
      rw [alookup_eq_none_iff]
      exact fun hk => ha (wf.symsOk (q, r) (alookup_some_mem hr) a hk)

/-- In a complete well-formed DFA every alphabet symbol has a transition from every state. -/
theorem step?_complete {d : DFA σ α} (wf : d.WF) (hc : d.allowPartial = false) {q : σ}
    (hq : q ∈ d.states) {a : α} (ha : a ∈ d.syms) : ∃ q', d.step? (some q) a = some q' := by
  obtain ⟨r, hr⟩ := row?_some_of_mem wf hq
  have hk := wf.complete hc (q, r) (alookup_some_mem hr) a ha
  have := alookup_isSome_iff.mpr hk
  simp only [step?, row, hr, Option.getD_some]
  cases h : alookup a r with
  | none => simp [h] at this
  | some q' => exact ⟨q', rfl⟩

@[simp] theorem run_nil (d : DFA σ α) (s : Option σ) : d.run s [] = s := rfl
@[simp] theorem run_cons (d : DFA σ α) (s : Option σ) (a : α) (w : List α) :
    d.run s (a :: w) = d.run (d.step? s a) w := rfl

theorem run_append (d : DFA σ α) (s : Option σ) (u v : List α) :
    d.run s (u ++ v) = d.run (d.run s u) v := by
  simp [run, List.foldl_append]

@[simp] theorem run_none (d : DFA σ α) (w : List α) : d.run none w = none := by
  induction w with
  | nil => rfl
  | cons a w ih => simpa [run_cons, step?] using ih

/-- Good configurations: the sink or a declared state. -/
def Good (d : DFA σ α) : Option σ → Prop
  | none => True
  | some q => q ∈ d.states

theorem good_step {d : DFA σ α} (wf : d.WF) {s : Option σ} (a : α) (_ : d.Good s) :
    d.Good (d.step? s a) := by
  cases s with
  | none => trivial
  | some q =>
    cases h : d.step? (some q) a with
    | none => trivial
    | some q' => exact step?_mem wf h

theorem stepE_good {d : DFA σ α} (wf : d.WF) {s : Option σ} (hs : d.Good s) (a : α) :
    d.stepE s a = .ok (d.step? s a) := by
  cases s with
  | none => rfl
  | some q => exact stepE_eq wf hs a

theorem readAux_eq {d : DFA σ α} (wf : d.WF) (ign : Bool) :
    ∀ (w : List α) (s : Option σ), d.Good s →
      d.readAux ign s w =
        ((List.scanl d.step? s w).tail,
         rejectUnless (ign || d.isFinal (d.run s w))) := by
  intro w
  induction w with
  | nil => intro s _; simp [readAux]
  | cons a w ih =>
    intro s hs
    rw [readAux, stepE_good wf hs]
    simp only
    rw [ih _ (good_step wf a hs)]
    simp [List.scanl_cons, run_cons]
    cases w <;> simp [List.scanl]

theorem scanl_getLast (d : DFA σ α) (s : Option σ) (w : List α) :
    (List.scanl d.step? s w).getLast? = some (d.run s w) := by
  induction w generalizing s with
  | nil => simp
  | cons a w ih =>
    rw [List.scanl_cons, List.getLast?_cons, ih]
    simp [run_cons]

end DFA

namespace NFA

theorem epsSucc_mem_nodes (n : NFA σ α) {u v : σ} (h : v ∈ n.epsSucc u) : v ∈ n.nodes := by
  unfold epsSucc targets row at h
  cases hr : n.row? u with
  | none => simp [hr] at h
  | some r =>
    simp only [hr, Option.getD_some] at h
    cases ht : alookup none r with
    | none => simp [ht] at h
    | some ts =>
      simp only [ht, Option.getD_some] at h
      unfold nodes
      rw [mem_dedup]
      refine List.mem_append_right _ ?_
      exact List.mem_flatMap.mpr ⟨(u, r), alookup_some_mem hr,
        List.mem_flatMap.mpr ⟨(none, ts), alookup_some_mem ht, h⟩⟩

theorem states_sub_nodes (n : NFA σ α) {q : σ} (h : q ∈ n.states) : q ∈ n.nodes := by
  unfold nodes; rw [mem_dedup]; exact List.mem_append_left _ (List.mem_append_left _ h)

/-- The computed λ-closure is exactly reachability over λ-moves. -/
theorem mem_closure_iff (n : NFA σ α) {q p : σ} (hq : q ∈ n.nodes) :
    p ∈ n.closure q ↔ Reach n.epsSucc q p := by
  unfold closure
  rw [mem_bfs_iff n.epsSucc (univ := n.nodes) (srcs := [q])]
  · simp
  · intro s hs; simp at hs; subst hs; exact hq
  · intro u _ v hv; exact epsSucc_mem_nodes n hv

theorem targets_mem_states {n : NFA σ α} (wf : n.WF) {q t : σ} {a : Option α}
    (h : t ∈ n.targets q a) : t ∈ n.states := by
  unfold targets row at h
  cases hr : n.row? q with
  | none => simp [hr] at h
  | some r =>
    simp only [hr, Option.getD_some] at h
    cases ht : alookup a r with
    | none => simp [ht] at h
    | some ts =>
      simp only [ht, Option.getD_some] at h
      exact wf.tgtOk (q, r) (alookup_some_mem hr) ts (alookup_some_val_mem ht) t h

theorem closure_sub_states {n : NFA σ α} (wf : n.WF) {q p : σ} (hq : q ∈ n.states)
    (h : p ∈ n.closure q) : p ∈ n.states := by
  rw [mem_closure_iff n (states_sub_nodes n hq)] at h
  induction h with
  | refl => exact hq
  | tail _ hc _ => exact targets_mem_states wf hc

/-- Membership in the next set of current states. -/
theorem mem_nextStates (n : NFA σ α) (cur : List σ) (a : α) (p : σ) :
    p ∈ n.nextStates cur a ↔ ∃ q ∈ cur, ∃ t ∈ n.targets q (some a), p ∈ n.closure t := by
  unfold nextStates
  have inner : ∀ (ts : List σ) (acc : List σ),
      p ∈ ts.foldl (fun acc t => sunion acc (n.closure t)) acc ↔
        p ∈ acc ∨ ∃ t ∈ ts, p ∈ n.closure t := by
    intro ts
    induction ts with
    | nil => intro acc; simp
    | cons t ts ih =>
      intro acc
      rw [List.foldl_cons, ih, mem_sunion]
      simp only [List.mem_cons, exists_eq_or_imp]
      constructor
      · rintro ((h | h) | h)
        · exact Or.inl h
        · exact Or.inr (Or.inl h)
        · exact Or.inr (Or.inr h)
      · rintro (h | h | h)
        · exact Or.inl (Or.inl h)
        · exact Or.inl (Or.inr h)
        · exact Or.inr h
  have outer : ∀ (cur : List σ) (acc : List σ),
      p ∈ cur.foldl (fun acc q => (n.targets q (some a)).foldl
          (fun acc t => sunion acc (n.closure t)) acc) acc ↔
        p ∈ acc ∨ ∃ q ∈ cur, ∃ t ∈ n.targets q (some a), p ∈ n.closure t := by
    intro cur
    induction cur with
    | nil => intro acc; simp
    | cons q cur ih =>
      intro acc
      rw [List.foldl_cons, ih, inner]
      simp only [List.mem_cons, exists_eq_or_imp]
      constructor
      · rintro ((h | h) | h)
        · exact Or.inl h
        · exact Or.inr (Or.inl h)
        · exact Or.inr (Or.inr h)
      · rintro (h | h | h)
        · exact Or.inl (Or.inl h)
        · exact Or.inl (Or.inr h)
        · exact Or.inr h
  rw [outer]; simp

theorem nextStates_sub_states {n : NFA σ α} (wf : n.WF) (cur : List σ) (a : α) {p : σ}
    (h : p ∈ n.nextStates cur a) : p ∈ n.states := by
  obtain ⟨q, _, t, ht, hp⟩ := (mem_nextStates n cur a p).mp h
  exact closure_sub_states wf (targets_mem_states wf ht) hp

/-- On a well-formed NFA `lambda_closures[end_state]` never raises: the fallible
step function agrees with the total one. -/
theorem nextStatesE_eq {n : NFA σ α} (wf : n.WF) (cur : List σ) (a : α) :
    n.nextStatesE cur a = .ok (n.nextStates cur a) := by
  unfold nextStatesE nextStates
  have inner : ∀ (q : σ) (ts : List σ) (acc : List σ), (∀ t ∈ ts, t ∈ n.states) →
      ts.foldlM (init := acc) (fun acc t => do
        let c ← n.closureE t
        pure (sunion acc c)) = (.ok (ts.foldl (fun acc t => sunion acc (n.closure t)) acc) : Res (List σ)) := by
    intro q ts
    induction ts with
    | nil => intro acc _; rfl
    | cons t ts ih =>
      intro acc h
      rw [List.foldlM_cons, List.foldl_cons]
      have ht : t ∈ n.states := h t (by simp)
      simp only [closureE, ht, if_true]
      exact ih _ (fun t' ht' => h t' (List.mem_cons_of_mem _ ht'))
  have outer : ∀ (cur : List σ) (acc : List σ),
      cur.foldlM (init := acc) (fun acc q =>
        match n.row? q with
        | none => pure acc
        | some r =>
          ((alookup (some a) r).getD []).foldlM (init := acc) fun acc t => do
            let c ← n.closureE t
            pure (sunion acc c)) =
      (.ok (cur.foldl (fun acc q => (n.targets q (some a)).foldl
          (fun acc t => sunion acc (n.closure t)) acc) acc) : Res (List σ)) := by
    intro cur
    induction cur with
    | nil => intro acc; rfl
    | cons q cur ih =>
      intro acc
      rw [List.foldlM_cons, List.foldl_cons]
      cases hr : n.row? q with
      | none =>
        have : n.targets q (some a) = [] := by simp [targets, row, hr]
        simp only [this, List.foldl_nil]
        exact ih acc
      | some r =>
        have ht : n.targets q (some a) = (alookup (some a) r).getD [] := by simp [targets, row, hr]
        simp only
        rw [inner q _ acc (fun t h => targets_mem_states wf (q := q) (a := some a) (by rw [ht]; exact h))]
        simp only [ht]
        exact ih _
  exact outer cur []

theorem readAux_eq {n : NFA σ α} (wf : n.WF) :
    ∀ (w : List α) (cur : List σ),
      n.readAux cur w =
        ((List.scanl n.nextStates cur w).tail,
         rejectUnless (n.anyFinal (n.runFrom cur w))) := by
  intro w
  induction w with
  | nil => intro cur; simp [readAux, runFrom]
  | cons a w ih =>
    intro cur
    rw [readAux, nextStatesE_eq wf]
    simp only
    rw [ih]
    simp [List.scanl_cons, runFrom]
    cases w <;> simp [List.scanl]

theorem scanl_getLast (n : NFA σ α) (cur : List σ) (w : List α) :
    (List.scanl n.nextStates cur w).getLast? = some (n.runFrom cur w) := by
  induction w generalizing cur with
  | nil => simp [runFrom]
  | cons a w ih =>
    rw [List.scanl_cons, List.getLast?_cons, ih]
    simp [runFrom]

end NFA
end AV
