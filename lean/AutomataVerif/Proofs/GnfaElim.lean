/-
Proofs/GnfaElim.lean — the state-elimination lemma on language-labelled graphs:
ripping a state `q` (`GnfaSpec.rip`) preserves the labels of all paths between states other
than `q`.
-/
import AutomataVerif.Spec.GnfaRx

namespace AV.GnfaSpec
open Language

set_option linter.unusedSectionVars false

variable {σ α : Type} [DecidableEq σ]

theorem Walk.append {Lb : σ → σ → Language α} {p q r : σ} {u v : List α}
    (h₁ : Walk Lb p q u) (h₂ : Walk Lb q r v) : Walk Lb p r (u ++ v) := by
  induction h₁ with
  | nil => simpa using h₂
  | cons hu _ ih => rw [List.append_assoc]; exact Walk.cons hu (ih h₂)

theorem Walk.single {Lb : σ → σ → Language α} {p q : σ} {u : List α} (h : u ∈ Lb p q) :
    Walk Lb p q u := by
  have := Walk.cons h (Walk.nil q)
  simpa using this

/-- Going round the loop at `q` any number of times. -/
theorem Walk.loop {Lb : σ → σ → Language α} {q : σ} {b : List α} (hb : b ∈ KStar.kstar (Lb q q)) :
    Walk Lb q q b := by
  rw [Language.mem_kstar] at hb
  obtain ⟨L, rfl, hL⟩ := hb
  induction L with
  | nil => exact Walk.nil q
  | cons x L ih =>
    rw [List.flatten_cons]
    exact Walk.cons (hL x (by simp)) (ih fun y hy => hL y (by simp [hy]))

theorem kstar_cons_mem {l : Language α} {x y : List α} (hx : x ∈ l) (hy : y ∈ KStar.kstar l) :
    x ++ y ∈ KStar.kstar l := by
  rw [Language.mem_kstar] at hy ⊢
  obtain ⟨L, rfl, hL⟩ := hy
  refine ⟨x :: L, by simp, ?_⟩
  intro z hz
  rcases List.mem_cons.mp hz with rfl | hz
  · exact hx
  · exact hL z hz

/-- (⊇) every path of the ripped graph is a path of the original graph. -/
theorem walk_of_rip {Lb : σ → σ → Language α} {q : σ} {i j : σ} {w : List α}
    (h : Walk (rip Lb q) i j w) : Walk Lb i j w := by
  induction h with
  | nil p => exact Walk.nil p
  | @cons p m r u v hu _ ih =>
    unfold rip at hu
    split at hu
    · exact absurd hu (by simp)
    · rcases (Language.mem_add _ _ _).mp hu with hu | hu
      · exact Walk.cons hu ih
      · rw [Language.mem_mul] at hu
        obtain ⟨ab, hab, c, hc, rfl⟩ := hu
        rw [Language.mem_mul] at hab
        obtain ⟨a, ha, b, hb, rfl⟩ := hab
        have := ((Walk.single ha).append ((Walk.loop hb).append (Walk.single hc))).append ih
        simpa [List.append_assoc] using this

/-- (⊆) a path of the original graph that ends outside `q`: if it starts outside `q` it is a
path of the ripped graph; if it starts at `q` it leaves `q` after some loops to a state `k`
from which the rest is a path of the ripped graph. -/
theorem rip_of_walk_aux {Lb : σ → σ → Language α} {q : σ} {p j : σ} {w : List α}
    (h : Walk Lb p j w) (hj : j ≠ q) :
    (p ≠ q → Walk (rip Lb q) p j w) ∧
    (p = q → ∃ u v k, w = u ++ v ∧ k ≠ q ∧ u ∈ KStar.kstar (Lb q q) * Lb q k ∧
      Walk (rip Lb q) k j v) := by
  induction h with
  | nil p => exact ⟨fun _ => Walk.nil p, fun h => absurd h hj⟩
  | @cons p m r u v hu _ ih =>
    obtain ⟨ih1, ih2⟩ := ih hj
    constructor
    · intro hp
      by_cases hm : m = q
      · obtain ⟨u', v', k, rfl, hk, hu', hw⟩ := ih2 hm
        subst hm
        rw [← List.append_assoc]
        refine Walk.cons ?_ hw
        unfold rip
        rw [if_neg (by simp [hp, hk])]
        refine (Language.mem_add _ _ _).mpr (Or.inr ?_)
        rw [Language.mem_mul] at hu'
        obtain ⟨b, hb, c, hc, rfl⟩ := hu'
        rw [← List.append_assoc]
        exact Language.append_mem_mul (Language.append_mem_mul hu hb) hc
      · refine Walk.cons ?_ (ih1 hm)
        unfold rip
        rw [if_neg (by simp [hp, hm])]
        exact (Language.mem_add _ _ _).mpr (Or.inl hu)
    · intro hp
      subst hp
      by_cases hm : m = p
      · obtain ⟨u', v', k, rfl, hk, hu', hw⟩ := ih2 hm
        subst hm
        refine ⟨u ++ u', v', k, by simp, hk, ?_, hw⟩
        rw [Language.mem_mul] at hu' ⊢
        obtain ⟨b, hb, c, hc, rfl⟩ := hu'
        exact ⟨u ++ b, kstar_cons_mem hu hb, c, hc, by simp⟩
      · refine ⟨u, v, m, rfl, hm, ?_, ih1 hm⟩
        rw [Language.mem_mul]
        exact ⟨[], Language.nil_mem_kstar _, u, hu, by simp⟩

/-- **State elimination preserves path labels**: for `i, j ≠ q`, the ripped graph has exactly
the same labelled paths from `i` to `j`. -/
theorem walk_rip_iff (Lb : σ → σ → Language α) {q i j : σ} (hi : i ≠ q) (hj : j ≠ q)
    (w : List α) : Walk (rip Lb q) i j w ↔ Walk Lb i j w :=
  ⟨walk_of_rip, fun h => (rip_of_walk_aux h hj).1 hi⟩

theorem GLang_rip (Lb : σ → σ → Language α) {q init final : σ} (hi : init ≠ q) (hf : final ≠ q) :
    GLang (rip Lb q) init final = GLang Lb init final := by
  ext w
  exact walk_rip_iff Lb hi hf w

end AV.GnfaSpec
