/-
Proofs/GnfaFromNFA.lean — `GNFA.from_nfa` (model: `fromNFA`): the label merging with its `?`
cases and bracket rule produces well-formed labels, and the GNFA built has the language of the
source NFA (Mathlib's `εNFA.accepts` of the textbook ε-NFA, via C01).
-/
import AutomataVerif.Proofs.GnfaBuild
import AutomataVerif.Props.C01

namespace AV.GNFA
open AV AV.GnfaSpec

set_option linter.unusedSectionVars false

variable {σ : Type} [DecidableEq σ]

/-! ### unions of atoms -/

/-- `UP e s`: `s` is `p₁|p₂|…|pₖ` with every `pᵢ` a postfix-level string — the only shape
of label `from_nfa` produces. -/
inductive UP : Rx → Str → Prop
  | one {e : Rx} {s : Str} : Renders .P e s → UP e s
  | more {e₁ e₂ : Rx} {s₁ s₂ : Str} : UP e₁ s₁ → Renders .P e₂ s₂ → UP (.union e₁ e₂) (s₁ ++ '|' :: s₂)

theorem UP.toU {e : Rx} {s : Str} (h : UP e s) : Renders .U e s := by
  induction h with
  | one h => exact Renders.ofC (Renders.ofP h)
  | more _ h2 ih => exact Renders.union ih (Renders.ofP h2)

theorem UP.toP {e : Rx} {s : Str} (h : UP e s) (hb : isBracketReq s = false) : Renders .P e s := by
  cases h with
  | one h => exact h
  | more h1 h2 => rw [isBracketReq_union h1.toU] at hb; exact absurd hb (by simp)

/-! ### the merging loop -/

/-- The words (ε or one symbol) on the edges into `t` among the pairs `done`. -/
def EdgeTo (done : List (Option Char × σ)) (t : σ) : Language Char :=
  {w | ∃ sym, (sym, t) ∈ done ∧ w = symStr sym}

theorem mem_EdgeTo {done : List (Option Char × σ)} {t : σ} {w : List Char} :
    w ∈ EdgeTo done t ↔ ∃ sym, (sym, t) ∈ done ∧ w = symStr sym := Iff.rfl

theorem mem_single {u w : List Char} : w ∈ ({u} : Language Char) ↔ w = u := Iff.rfl

theorem EdgeTo_snoc (done : List (Option Char × σ)) (sym : Option Char) (t0 t : σ) :
    EdgeTo (done ++ [(sym, t0)]) t = EdgeTo done t + (if t = t0 then {symStr sym} else 0) := by
  ext w
  rw [Language.mem_add, mem_EdgeTo, mem_EdgeTo]
  constructor
  · rintro ⟨a', h, rfl⟩
    rcases List.mem_append.mp h with h | h
    · exact Or.inl ⟨a', h, rfl⟩
    · simp only [List.mem_singleton, Prod.mk.injEq] at h
      obtain ⟨rfl, rfl⟩ := h
      right; rw [if_pos rfl]; exact mem_single.mpr rfl
  · rintro (⟨a', h, rfl⟩ | h)
    · exact ⟨a', List.mem_append.mpr (Or.inl h), rfl⟩
    · by_cases ht : t = t0
      · rw [if_pos ht] at h
        exact ⟨sym, List.mem_append.mpr (Or.inr (by simp [ht])), mem_single.mp h⟩
      · rw [if_neg ht] at h; exact absurd h (Language.notMem_zero w)

/-- What a label of `from_nfa` is: the empty string when only ε leads to the target so far,
otherwise a union of atoms for the edge words. -/
def NLab (done : List (Option Char × σ)) (t : σ) (s : Str) : Prop :=
  (s = [] ∧ ∀ sym, (sym, t) ∈ done → sym = none) ∨ (s ≠ [] ∧ ∃ e, UP e s ∧ e.den = EdgeTo done t)

structure NInv (done : List (Option Char × σ)) (acc : List (σ × Str)) : Prop where
  none_ : ∀ t, alookup t acc = none → ∀ sym, (sym, t) ∉ done
  some_ : ∀ t s, alookup t acc = some s → NLab done t s ∧ ∃ sym, (sym, t) ∈ done

theorem EdgeTo_eq_one {done : List (Option Char × σ)} {t : σ}
    (h1 : ∀ sym, (sym, t) ∈ done → sym = none) (h2 : ∃ sym, (sym, t) ∈ done) :
    EdgeTo done t = 1 := by
  ext w
  rw [mem_EdgeTo, Language.mem_one]
  constructor
  · rintro ⟨sym, hmem, rfl⟩; rw [h1 sym hmem]; rfl
  · rintro rfl
    obtain ⟨sym, hmem⟩ := h2
    exact ⟨sym, hmem, by rw [h1 sym hmem]; rfl⟩

theorem EdgeTo_eq_zero {done : List (Option Char × σ)} {t : σ} (h : ∀ sym, (sym, t) ∉ done) :
    EdgeTo done t = 0 := by
  ext w
  rw [mem_EdgeTo]
  constructor
  · rintro ⟨sym, hmem, _⟩; exact absurd hmem (h sym)
  · intro hw; exact absurd hw (Language.notMem_zero w)

theorem symStr_ne_nil {sym : Option Char} : symStr sym ≠ [] ↔ sym ≠ none := by
  cases sym <;> simp [symStr]

theorem Renders.ne_nil' {l : Lvl} {e : Rx} {s : Str} (h : Renders l e s) : s ≠ [] := h.ne_nil

/-- One step of the merging loop keeps the invariant, provided the pair is new and the symbol
is a literal. -/
theorem mergeNfaStep_inv {done : List (Option Char × σ)} {acc : List (σ × Str)} (hinv : NInv done acc)
    (sym : Option Char) (t0 : σ) (hnew : (sym, t0) ∉ done) (hlit : ∀ a, sym = some a → IsLit a) :
    NInv (done ++ [(sym, t0)]) (mergeNfaStep sym acc t0) := by
  have hother_none : ∀ t, t ≠ t0 → (∀ sym', (sym', t) ∉ done) →
      ∀ sym', (sym', t) ∉ done ++ [(sym, t0)] := by
    intro t htt h sym' hmem
    rcases List.mem_append.mp hmem with h' | h'
    · exact h sym' h'
    · simp only [List.mem_singleton, Prod.mk.injEq] at h'; exact htt h'.2
  have hother_some : ∀ t s, t ≠ t0 → NLab done t s ∧ (∃ sym', (sym', t) ∈ done) →
      NLab (done ++ [(sym, t0)]) t s ∧ ∃ sym', (sym', t) ∈ done ++ [(sym, t0)] := by
    intro t s htt ⟨hl, sym', hs'⟩
    refine ⟨?_, sym', List.mem_append.mpr (Or.inl hs')⟩
    rcases hl with ⟨hs, hall⟩ | ⟨hs, e, hup, hd⟩
    · left
      refine ⟨hs, fun sym'' hmem => ?_⟩
      rcases List.mem_append.mp hmem with h' | h'
      · exact hall sym'' h'
      · simp only [List.mem_singleton, Prod.mk.injEq] at h'; exact absurd h'.2 htt
    · right
      refine ⟨hs, e, hup, ?_⟩
      rw [EdgeTo_snoc, if_neg htt, hd]; simp
  unfold mergeNfaStep
  cases hl : alookup t0 acc with
  | none =>
    simp only
    have hno := hinv.none_ t0 hl
    constructor
    · intro t ht
      rw [alookup_ainsert] at ht
      by_cases htt : t = t0
      · rw [if_pos htt] at ht; cases ht
      · rw [if_neg htt] at ht; exact hother_none t htt (hinv.none_ t ht)
    · intro t s hs
      rw [alookup_ainsert] at hs
      by_cases htt : t = t0
      · rw [if_pos htt] at hs
        cases hs
        subst htt
        refine ⟨?_, sym, by simp⟩
        cases sym with
        | none =>
          left
          refine ⟨rfl, fun sym' hmem => ?_⟩
          rcases List.mem_append.mp hmem with h' | h'
          · exact absurd h' (hno sym')
          · simp only [List.mem_singleton, Prod.mk.injEq] at h'; exact h'.1
        | some a =>
          right
          refine ⟨by simp [symStr], .sym a, UP.one (Renders.sym (hlit a rfl)), ?_⟩
          rw [EdgeTo_snoc, if_pos rfl, EdgeTo_eq_zero hno]; simp [Rx.den, symStr]
      · rw [if_neg htt] at hs; exact hother_some t s htt (hinv.some_ t s hs)
  | some old =>
    simp only
    obtain ⟨hlab, hex⟩ := hinv.some_ t0 old hl
    constructor
    · intro t ht
      rw [alookup_ainsert] at ht
      by_cases htt : t = t0
      · rw [if_pos htt] at ht; cases ht
      · rw [if_neg htt] at ht; exact hother_none t htt (hinv.none_ t ht)
    · intro t s hs
      rw [alookup_ainsert] at hs
      by_cases htt : t = t0
      · rw [if_pos htt] at hs
        cases hs
        subst htt
        refine ⟨?_, sym, by simp⟩
        right
        rcases hlab with ⟨hold, hall⟩ | ⟨hold, e, hup, hd⟩
        · -- only ε so far: the new symbol is a real one, the label becomes `a?`
          subst hold
          have hsym : sym ≠ none := by
            rintro rfl
            obtain ⟨sym', hs'⟩ := hex
            rw [hall sym' hs'] at hs'
            exact hnew hs'
          obtain ⟨a, rfl⟩ := Option.ne_none_iff_exists'.mp hsym
          have : mergeNfaLabel [] (some a) = [a, '?'] := by simp [mergeNfaLabel, symStr]
          rw [this]
          refine ⟨by simp, .opt (.sym a), ?_, ?_⟩
          · exact UP.one (Renders.opt (Renders.sym (hlit a rfl)))
          · rw [EdgeTo_snoc, if_pos rfl, EdgeTo_eq_one hall hex]; simp [Rx.den, symStr]
        · cases sym with
          | none =>
            have hval : mergeNfaLabel old none =
                if isBracketReq old then '(' :: old ++ [')', '?'] else old ++ ['?'] := by
              simp [mergeNfaLabel, symStr, hold]
            rw [hval]
            by_cases hb : isBracketReq old = true
            · rw [if_pos hb]
              refine ⟨by simp, .opt e, ?_, ?_⟩
              · have : '(' :: old ++ [')', '?'] = ('(' :: old ++ [')']) ++ ['?'] := by simp
                rw [this]
                exact UP.one (Renders.opt (Renders.paren hup.toU))
              · rw [EdgeTo_snoc, if_pos rfl, ← hd]; simp only [Rx.den, symStr, add_comm]; rfl
            · rw [if_neg hb]
              refine ⟨by simp, .opt e, ?_, ?_⟩
              · exact UP.one (Renders.opt (hup.toP (by simpa using hb)))
              · rw [EdgeTo_snoc, if_pos rfl, ← hd]; simp only [Rx.den, symStr, add_comm]; rfl
          | some a =>
            have hval : mergeNfaLabel old (some a) = old ++ '|' :: [a] := by
              simp [mergeNfaLabel, symStr, hold]
            rw [hval]
            refine ⟨by simp, .union e (.sym a), UP.more hup (Renders.sym (hlit a rfl)), ?_⟩
            rw [EdgeTo_snoc, if_pos rfl, ← hd]; simp [Rx.den, symStr]
      · rw [if_neg htt] at hs; exact hother_some t s htt (hinv.some_ t s hs)

/-- The pairs `(symbol, target)` of a row in iteration order. -/
def flatRow (row : List (Option Char × List σ)) : List (Option Char × σ) :=
  row.flatMap fun e => e.2.map fun t => (e.1, t)

theorem mergeNfaRow_eq (row : List (Option Char × List σ)) :
    mergeNfaRow row = (flatRow row).foldl (fun acc e => mergeNfaStep e.1 acc e.2) [] := by
  unfold mergeNfaRow flatRow
  rw [List.foldl_flatMap]
  congr 1
  funext acc e
  rw [List.foldl_map]

theorem mergeNfa_fold :
    ∀ (rest done : List (Option Char × σ)) (acc : List (σ × Str)),
      (done ++ rest).Nodup → (∀ e ∈ rest, ∀ a, e.1 = some a → IsLit a) → NInv done acc →
      NInv (done ++ rest) (rest.foldl (fun acc e => mergeNfaStep e.1 acc e.2) acc) := by
  intro rest
  induction rest with
  | nil => intro done acc _ _ h; simpa using h
  | cons e rest ih =>
    intro done acc hnd hlit hinv
    obtain ⟨sym, t0⟩ := e
    rw [List.foldl_cons]
    have hnew : (sym, t0) ∉ done := by
      intro hc
      have := (List.nodup_append.mp hnd).2.2 _ hc (sym, t0) (by simp)
      exact this rfl
    have hstep := mergeNfaStep_inv hinv sym t0 hnew (fun a ha => hlit (sym, t0) (by simp) a ha)
    have := ih (done ++ [(sym, t0)]) _ (by simpa [List.append_assoc] using hnd)
      (fun e he => hlit e (List.mem_cons_of_mem _ he)) hstep
    simpa [List.append_assoc] using this

theorem nodup_flatRow {row : List (Option Char × List σ)} (hk : (akeys row).Nodup)
    (ht : ∀ e ∈ row, e.2.Nodup) : (flatRow row).Nodup := by
  unfold flatRow
  rw [List.nodup_flatMap]
  constructor
  · intro e he
    exact (List.nodup_map_iff (fun _ _ h => (Prod.mk.inj h).2)).mpr (ht e he)
  · unfold akeys at hk
    rw [List.nodup_iff_pairwise_ne, List.pairwise_map] at hk
    refine hk.imp ?_
    intro a b hab
    show List.Disjoint _ _
    intro x hxa hxb
    obtain ⟨_, _, rfl⟩ := List.mem_map.mp hxa
    obtain ⟨_, _, h2⟩ := List.mem_map.mp hxb
    exact hab (Prod.mk.inj h2).1.symm

theorem mergeNfaRow_inv (row : List (Option Char × List σ)) (hk : (akeys row).Nodup)
    (ht : ∀ e ∈ row, e.2.Nodup) (hlit : ∀ e ∈ row, ∀ a, e.1 = some a → IsLit a) :
    NInv (flatRow row) (mergeNfaRow row) := by
  rw [mergeNfaRow_eq]
  have := mergeNfa_fold (flatRow row) [] [] (by simpa using nodup_flatRow hk ht)
    (by
      intro e he a ha
      unfold flatRow at he
      obtain ⟨e', he', hmem⟩ := List.mem_flatMap.mp he
      obtain ⟨t, _, rfl⟩ := List.mem_map.mp hmem
      exact hlit e' he' a ha)
    ⟨fun _ _ _ h => by simp at h, fun _ _ h => by simp at h⟩
  simpa using this

theorem NLab.toLab {done : List (Option Char × σ)} {t : σ} {s : Str} (h : NLab done t s)
    (hex : ∃ sym, (sym, t) ∈ done) : Lab (EdgeTo done t) s := by
  rcases h with ⟨hs, hall⟩ | ⟨_, e, hup, hd⟩
  · exact Or.inl ⟨hs, EdgeTo_eq_one hall hex⟩
  · exact Or.inr ⟨e, hup.toU, hd⟩

/-! ### `from_nfa` -/

theorem alookup_nfaRows (n : NFA σ Char) (p : σ) :
    alookup p (nfaRows n) = if p ∈ n.states then some (nfaRowFor n p) else none := by
  unfold nfaRows
  rw [fold_set_rows]
  simp

theorem mem_flatRow {row : List (Option Char × List σ)} {sym : Option Char} {t : σ} :
    (sym, t) ∈ flatRow row ↔ ∃ ts, (sym, ts) ∈ row ∧ t ∈ ts := by
  unfold flatRow
  simp only [List.mem_flatMap, List.mem_map, Prod.mk.injEq]
  constructor
  · rintro ⟨e, he, t', ht', h1, rfl⟩
    exact ⟨e.2, by rw [← h1]; exact he, ht'⟩
  · rintro ⟨ts, hmem, ht⟩
    exact ⟨(sym, ts), hmem, t, ht, rfl, rfl⟩

/-- **`from_nfa` preserves the language**: the GNFA built from a valid NFA over literal symbols
(rows and target sets without duplicates, as Python dicts / sets are) has the documented shape,
every label is a well-formed regex string (or `None`), and the labelled paths from its initial
to its final state are exactly the words the NFA accepts. -/
theorem fromNFA_spec (rxValid : Str → Res Bool) (natName : Nat → σ)
    (hinj : Function.Injective natName) (n : NFA σ Char) (hv : n.validate = .ok ())
    (hkeys : ∀ kv ∈ n.trans, (akeys kv.2).Nodup) (htgts : ∀ kv ∈ n.trans, ∀ e ∈ kv.2, e.2.Nodup)
    (hlit : ∀ a ∈ n.syms, IsLit a)
    (g : GNFA σ Str) (h : fromNFA rxValid natName n = .ok g) :
    Shape (dedup g.states) g.init g.final g.trans ∧
    ∃ Lb, Denotes Lab g.trans Lb ∧
      ∀ w, w ∈ GLang Lb g.init g.final ↔ n.accepts w = true := by
  have wf := (NFA.validate_eq_ok n).mp hv
  unfold fromNFA at h
  set E : σ → σ → Language Char := fun p r => EdgeTo (flatRow (n.row p)) r with hEdef
  have hrowAny : ∀ p, n.row p = [] ∨ ∃ trow, alookup p n.trans = some trow ∧ n.row p = trow ∧
      (p, trow) ∈ n.trans := by
    intro p
    cases htrow : alookup p n.trans with
    | none => left; simp [NFA.row, NFA.row?, htrow]
    | some trow =>
      right
      exact ⟨trow, rfl, by simp [NFA.row, NFA.row?, htrow], alookup_some_mem htrow⟩
  have hrows : ∀ p, (alookup p (nfaRows n)).isSome ↔ p ∈ n.states := by
    intro p; rw [alookup_nfaRows]; by_cases hp : p ∈ n.states <;> simp [hp]
  have hmemtgt : ∀ p sym r, (sym, r) ∈ flatRow (n.row p) → r ∈ n.states := by
    intro p sym r hmem
    obtain ⟨ts, hts, hr⟩ := mem_flatRow.mp hmem
    rcases hrowAny p with h0 | ⟨trow, _, hrow, hmem'⟩
    · rw [h0] at hts; simp at hts
    · rw [hrow] at hts
      exact wf.tgtOk (p, trow) hmem' ts (List.mem_map.mpr ⟨(sym, ts), hts, rfl⟩) r hr
  have hinvp : ∀ p, NInv (flatRow (n.row p)) (mergeNfaRow (n.row p)) := by
    intro p
    rcases hrowAny p with h0 | ⟨trow, _, hrow, hmem⟩
    · rw [h0]; exact ⟨fun _ _ _ h => by simp [flatRow] at h, fun _ _ h => by simp [mergeNfaRow] at h⟩
    · rw [hrow]
      apply mergeNfaRow_inv _ (hkeys _ hmem) (htgts _ hmem)
      intro e he a ha
      apply hlit
      apply wf.symsOk (p, trow) hmem a
      exact List.mem_map.mpr ⟨e, he, ha⟩
  have hrowFor : ∀ p, nfaRowFor n p = castRow (mergeNfaRow (n.row p)) := by
    intro p
    unfold nfaRowFor
    cases htrow : alookup p n.trans with
    | none => simp [NFA.row, NFA.row?, htrow, mergeNfaRow, castRow]
    | some trow => simp [NFA.row, NFA.row?, htrow]
  have hEtgt : ∀ p r w, w ∈ E p r → r ∈ n.states := by
    intro p r w hw
    obtain ⟨sym, hmem, _⟩ := mem_EdgeTo.mp hw
    exact hmemtgt p sym r hmem
  have hrowOf : ∀ p row, alookup p (nfaRows n) = some row →
      row = castRow (mergeNfaRow (n.row p)) := by
    intro p row hrow
    rw [alookup_nfaRows] at hrow
    by_cases hp : p ∈ n.states
    · rw [if_pos hp] at hrow
      rw [← hrowFor p]; exact (Option.some.inj hrow).symm
    · rw [if_neg hp] at hrow; cases hrow
  have htgt : ∀ p row, alookup p (nfaRows n) = some row → ∀ r, (alookup r row).isSome →
      r ∈ n.states := by
    intro p row hrow r hr
    rw [hrowOf p row hrow, alookup_castRow, Option.isSome_map] at hr
    obtain ⟨s, hs⟩ := Option.isSome_iff_exists.mp hr
    obtain ⟨_, sym, hsym⟩ := (hinvp p).some_ r s hs
    exact hmemtgt p sym r hsym
  have hE : ∀ p row, alookup p (nfaRows n) = some row → ∀ r, LabO (E p r) ((alookup r row).join) := by
    intro p row hrow r
    rw [hrowOf p row hrow, alookup_castRow]
    cases hs : alookup r (mergeNfaRow (n.row p)) with
    | none => exact EdgeTo_eq_zero ((hinvp p).none_ r hs)
    | some s =>
      obtain ⟨hl, hex⟩ := (hinvp p).some_ r s hs
      exact hl.toLab hex
  obtain ⟨hqi, hqf, hne, hShape, hDen⟩ := finishBuild_denotes rxValid natName hinj n.states n.syms
    (nfaRows n) n.init n.finals E hrows htgt hE wf.initOk wf.finalsOk g h
  refine ⟨hShape, _, hDen, ?_⟩
  intro w
  rw [GLang_srcLb n.states E n.init n.finals g.init g.final hqi hqf hne hEtgt wf.initOk,
    AV.Props.C01.C01_nfa_accepts_iff n hv w, εNFA.mem_accepts_iff_exists_path]
  -- edges of the graph = steps of the textbook ε-NFA
  have hedge : ∀ p sym r, (sym, r) ∈ flatRow (n.row p) ↔ r ∈ n.targets p sym := by
    intro p sym r
    rw [mem_flatRow]
    unfold NFA.targets
    rcases hrowAny p with h0 | ⟨trow, _, hrow, hmem'⟩
    · rw [h0]; simp
    · rw [hrow]
      constructor
      · rintro ⟨ts, hts, hr⟩
        rw [alookup_eq_some_of_mem (hkeys _ hmem') hts]; exact hr
      · intro hr
        cases hl : alookup sym trow with
        | none => rw [hl] at hr; simp at hr
        | some ts => rw [hl] at hr; exact ⟨ts, alookup_some_mem hl, hr⟩
  have fwd : ∀ p f w, Walk E p f w →
      ∃ x, x.reduceOption = w ∧ (AV.Props.C01.nfaTextbook n).IsPath p f x := by
    intro p f w hw
    induction hw with
    | nil p => exact ⟨[], rfl, εNFA.IsPath.nil p⟩
    | @cons p m r u v hu _ ih =>
      obtain ⟨x, hx, hpath⟩ := ih
      obtain ⟨sym, hmem, rfl⟩ := mem_EdgeTo.mp hu
      refine ⟨sym :: x, ?_, εNFA.IsPath.cons m p r sym x ((hedge p sym m).mp hmem) hpath⟩
      cases sym with
      | none => rw [List.reduceOption_cons_of_none, hx]; rfl
      | some a => rw [List.reduceOption_cons_of_some, hx]; rfl
  have bwd : ∀ p f x, (AV.Props.C01.nfaTextbook n).IsPath p f x → Walk E p f x.reduceOption := by
    intro p f x hx
    induction hx with
    | nil s => exact Walk.nil s
    | cons t s u a x ht _ ih =>
      have hu : symStr a ∈ E s t := mem_EdgeTo.mpr ⟨a, (hedge s a t).mpr ht, rfl⟩
      have := Walk.cons hu ih
      cases a with
      | none => rw [List.reduceOption_cons_of_none]; simpa [symStr] using this
      | some c => rw [List.reduceOption_cons_of_some]; simpa [symStr] using this
  constructor
  · rintro ⟨f, hf, hw⟩
    obtain ⟨x, hx, hpath⟩ := fwd _ _ _ hw
    exact ⟨n.init, f, x, rfl, hf, hx, hpath⟩
  · rintro ⟨s1, s2, x, hs1, hs2, hx, hpath⟩
    have hs1' : s1 = n.init := hs1
    subst hs1'
    exact ⟨s2, hs2, hx ▸ bwd _ _ _ hpath⟩

end AV.GNFA
