/-
Proofs/CtorFLDfa.lean — from_finite_language (C15), layer C: from the final invariant to the
returned DFA, in partial form and in complete form (`_to_complete` with trap `0`): validity and
language.  Core only.
-/
import AutomataVerif.Proofs.CtorFLMain
import AutomataVerif.Proofs.CtorPrefix

namespace AV.Ctor.FL

set_option linter.unusedSectionVars false
set_option linter.unusedVariables false
set_option linter.unusedSimpArgs false

variable {α : Type} [DecidableEq α]

/-! ### dict lemmas -/

theorem alookup_map_key {κ κ' β γ : Type} [DecidableEq κ] [DecidableEq κ'] (f : κ → κ') (g : β → γ)
    (hf : ∀ a b, f a = f b → a = b) (k : κ) (d : List (κ × β)) :
    alookup (f k) (d.map fun kv => (f kv.1, g kv.2)) = (alookup k d).map g := by
  induction d with
  | nil => rfl
  | cons e t ih =>
    obtain ⟨k0, v0⟩ := e
    simp only [List.map_cons, alookup_cons, ih]
    by_cases h : k0 = k
    · subst h; simp
    · have : ¬ f k0 = f k := fun e => h (hf _ _ e)
      simp [h, this]

theorem alookup_map_key_none {κ κ' β γ : Type} [DecidableEq κ'] (f : κ → κ') (g : β → γ) (z : κ')
    (hz : ∀ a, f a ≠ z) (d : List (κ × β)) :
    alookup z (d.map fun kv => (f kv.1, g kv.2)) = none := by
  induction d with
  | nil => rfl
  | cons e t ih =>
    obtain ⟨k0, v0⟩ := e
    simp only [List.map_cons, alookup_cons, ih, hz k0, if_false]

theorem akeys_map_key {κ κ' β γ : Type} (f : κ → κ') (g : β → γ) (d : List (κ × β)) :
    akeys (d.map fun kv => (f kv.1, g kv.2)) = (akeys d).map f := by
  simp [akeys, List.map_map, Function.comp_def]

theorem nodup_map_inj {β γ : Type} (f : β → γ) (hf : ∀ a b, f a = f b → a = b) {l : List β}
    (h : l.Nodup) : (l.map f).Nodup := by
  unfold List.Nodup
  rw [List.pairwise_map]
  exact List.Pairwise.imp (fun {a b} hne e => hne (hf a b e)) h

/-- `{**default, **row}` for a dict `row`: the row wins, the default fills the gaps. -/
theorem alookup_mergeRow {σ : Type} [DecidableEq σ] (a : α) :
    ∀ (row dflt : List (α × σ)), (akeys row).Nodup →
      alookup a (mergeRow dflt row) =
        match alookup a row with
        | some t => some t
        | none => alookup a dflt := by
  intro row
  induction row with
  | nil => intro dflt _; rfl
  | cons e rest ih =>
    intro dflt hnd
    obtain ⟨b, t⟩ := e
    have hnd' : b ∉ akeys rest ∧ (akeys rest).Nodup := by simpa [akeys] using hnd
    unfold mergeRow
    rw [List.foldl_cons]
    have := ih (ainsert b t dflt) hnd'.2
    unfold mergeRow at this
    rw [this, alookup_cons, alookup_ainsert]
    by_cases h : b = a
    · subst h
      rw [alookup_eq_none_iff.mpr hnd'.1]
      simp
    · simp only [h, if_false]

theorem mem_akeys_mergeRow {σ : Type} [DecidableEq σ] (a : α) :
    ∀ (row dflt : List (α × σ)), a ∈ akeys (mergeRow dflt row) ↔ a ∈ akeys dflt ∨ a ∈ akeys row := by
  intro row
  induction row with
  | nil => intro dflt; simp [mergeRow, akeys]
  | cons e rest ih =>
    intro dflt
    unfold mergeRow
    rw [List.foldl_cons]
    have := ih (ainsert e.1 e.2 dflt)
    unfold mergeRow at this
    rw [this, mem_akeys_ainsert]
    simp only [akeys, List.map_cons, List.mem_cons]
    constructor
    · rintro ((h | h) | h)
      · exact Or.inr (Or.inl h)
      · exact Or.inl h
      · exact Or.inr (Or.inr h)
    · rintro (h | h | h)
      · exact Or.inl (Or.inr h)
      · exact Or.inl (Or.inl h)
      · exact Or.inr h

theorem nodup_akeys_mergeRow {σ : Type} [DecidableEq σ] :
    ∀ (row dflt : List (α × σ)), (akeys dflt).Nodup → (akeys (mergeRow dflt row)).Nodup := by
  intro row
  induction row with
  | nil => intro dflt h; exact h
  | cons e rest ih =>
    intro dflt h
    unfold mergeRow
    rw [List.foldl_cons]
    exact ih _ (nodup_akeys_ainsert h)

/-! ### the final automaton -/

section final
variable {added : List (List α)} {last : List α} {s : FLState α} {φ : List α → List α}
variable (inv : FLInv added last 0 s φ) (hadd : added ≠ [])
include inv hadd

theorem φ_root : φ [] = [] := by simpa using inv.active 0 (Nat.le_refl _)

theorem inTrie_root : InTrie added [] := by
  obtain ⟨w, hw⟩ := List.exists_mem_of_ne_nil added hadd
  exact ⟨w, hw, List.nil_prefix⟩

open Classical in
/-- The run of the table from the state of a trie node follows the trie. -/
theorem runO_spec (w : List α) : ∀ p, InTrie added p →
    runO (look s) (some (φ p)) w = if InTrie added (p ++ w) then some (φ (p ++ w)) else none := by
  classical
  induction w with
  | nil => intro p hp; simp [hp]
  | cons a w ih =>
    intro p hp
    rw [runO_cons]
    simp only [Option.bind_some]
    rw [inv.step p a hp]
    by_cases h : InTrie added (p ++ [a])
    · simp only [h, if_true]
      rw [ih (p ++ [a]) h]
      simp
    · simp only [h, if_false, runO_none]
      have : ¬ InTrie added (p ++ a :: w) := by
        intro h2
        apply h
        apply h2.prefix
        have : p ++ a :: w = (p ++ [a]) ++ w := by simp
        rw [this]; exact List.prefix_append _ _
      simp [this]

open Classical in
theorem runO_root (w : List α) :
    runO (look s) (some []) w = if InTrie added w then some (φ w) else none := by
  have := runO_spec inv hadd w [] (inTrie_root inv hadd)
  rw [φ_root inv hadd] at this
  simpa using this

theorem runO_keys (w : List α) (q : List α) (h : runO (look s) (some []) w = some q) :
    q ∈ akeys s.trans := by
  classical
  rw [runO_root inv hadd] at h
  by_cases hw : InTrie added w
  · simp only [hw, if_true, Option.some.injEq] at h
    rw [← h]; exact inv.dom w hw
  · simp [hw] at h

/-- Acceptance in terms of the abstract run. -/
theorem final_iff (w : List α) :
    (∃ q, runO (look s) (some []) w = some q ∧ q ∈ s.finals) ↔ w ∈ added := by
  classical
  rw [runO_root inv hadd]
  constructor
  · rintro ⟨q, h, hq⟩
    by_cases hw : InTrie added w
    · simp only [hw, if_true, Option.some.injEq] at h
      rw [← h] at hq
      exact (inv.fin w hw).mp hq
    · simp [hw] at h
  · intro hw
    have hin : InTrie added w := ⟨w, hw, List.prefix_refl _⟩
    exact ⟨φ w, by simp [hin], (inv.fin w hin).mpr hw⟩

theorem look_target (q : List α) (a : α) (t : List α) (h : look s q a = some t) :
    q ∈ akeys s.trans ∧ t ∈ akeys s.trans ∧ ∃ w ∈ added, a ∈ w := by
  classical
  have hq : q ∈ akeys s.trans := by
    apply Classical.byContradiction; intro hn
    unfold look at h
    rw [alookup_eq_none_iff.mpr hn] at h; cases h
  obtain ⟨p, hp, rfl⟩ := inv.surj q hq
  rw [inv.step p a hp] at h
  by_cases h2 : InTrie added (p ++ [a])
  · simp only [h2, if_true, Option.some.injEq] at h
    refine ⟨hq, by rw [← h]; exact inv.dom _ h2, ?_⟩
    obtain ⟨w, hw, hpw⟩ := h2
    refine ⟨w, hw, ?_⟩
    obtain ⟨t', rfl⟩ := hpw
    simp
  · simp [h2] at h

end final

/-! ### partial form -/

theorem pref_inj (a b : List α) (h : FLName.pref a = FLName.pref b) : a = b := by
  cases h; rfl

/-- The table with Python's names. -/
def flTrans (s : FLState α) : List (FLName α × List (α × FLName α)) :=
  s.trans.map fun kv => (FLName.pref kv.1, kv.2.map fun e => (e.1, FLName.pref e.2))

def flPartialDFA (syms : List α) (s : FLState α) : DFA (FLName α) α :=
  { states := akeys (flTrans s), syms := syms, trans := flTrans s, init := FLName.pref [],
    finals := s.finals.map FLName.pref, allowPartial := true }

theorem flTrans_lookup (s : FLState α) (q : List α) :
    alookup (FLName.pref q) (flTrans s) =
      (alookup q s.trans).map fun row => row.map fun e => (e.1, FLName.pref e.2) := by
  unfold flTrans
  exact alookup_map_key FLName.pref _ pref_inj q s.trans

theorem flTrans_keys (s : FLState α) (x : FLName α) :
    x ∈ akeys (flTrans s) ↔ ∃ q, q ∈ akeys s.trans ∧ x = FLName.pref q := by
  unfold flTrans
  rw [akeys_map_key]
  simp only [List.mem_map]
  constructor
  · rintro ⟨q, hq, rfl⟩; exact ⟨q, hq, rfl⟩
  · rintro ⟨q, hq, rfl⟩; exact ⟨q, hq, rfl⟩

theorem flPartial_step (syms : List α) (s : FLState α) (q : List α) (a : α) :
    (flPartialDFA syms s).step? (some (FLName.pref q)) a = (look s q a).map FLName.pref := by
  simp only [DFA.step?, DFA.row, DFA.row?, flPartialDFA]
  rw [flTrans_lookup]
  unfold look
  cases h : alookup q s.trans with
  | none => simp
  | some row =>
    simp only [Option.map_some, Option.getD_some, Option.bind_some]
    exact alookup_map_val FLName.pref a row

theorem flPartial_run (syms : List α) (s : FLState α) (q : List α) (w : List α) :
    (flPartialDFA syms s).run (some (FLName.pref q)) w = (runO (look s) (some q) w).map FLName.pref :=
  run_simO (flPartialDFA syms s) FLName.pref (look s) (fun _ => True)
    (fun q a _ => ⟨flPartial_step syms s q a, fun _ _ => trivial⟩) w q trivial

section finalDfa
variable {added : List (List α)} {last : List α} {s : FLState α} {φ : List α → List α}
variable (syms : List α) (inv : FLInv added last 0 s φ) (hadd : added ≠ [])
variable (hover : ∀ w ∈ added, ∀ c ∈ w, c ∈ syms) (hsymsnd : syms.Nodup)
include inv hadd hover

theorem flPartial_wf : (flPartialDFA syms s).WF := by
  have hrows : ∀ kv ∈ flTrans s, ∃ q row, alookup q s.trans = some row ∧
      kv = (FLName.pref q, row.map fun e => (e.1, FLName.pref e.2)) := by
    intro kv hkv
    unfold flTrans at hkv
    obtain ⟨kv0, h0, rfl⟩ := List.mem_map.mp hkv
    exact ⟨kv0.1, kv0.2, alookup_of_mem_nodup inv.keysNodup h0, rfl⟩
  refine
    { rows := fun q hq => hq
      complete := fun h => by cases h
      symsOk := ?_
      tgtOk := ?_
      initOk := ?_
      finalsOk := ?_ }
  · intro kv hkv a ha
    obtain ⟨q, row, hr, rfl⟩ := hrows kv hkv
    simp only [akeys, List.map_map, List.mem_map, Function.comp] at ha
    obtain ⟨e, he, rfl⟩ := ha
    have hl : look s q e.1 = some e.2 := by
      unfold look; rw [hr]; simp only [Option.bind_some]
      exact alookup_of_mem_nodup (inv.rowsNodup q row hr) he
    obtain ⟨_, _, w, hw, haw⟩ := look_target inv hadd q e.1 e.2 hl
    exact hover w hw _ haw
  · intro kv hkv t ht
    obtain ⟨q, row, hr, rfl⟩ := hrows kv hkv
    simp only [avals, List.map_map, List.mem_map, Function.comp] at ht
    obtain ⟨e, he, rfl⟩ := ht
    have hl : look s q e.1 = some e.2 := by
      unfold look; rw [hr]; simp only [Option.bind_some]
      exact alookup_of_mem_nodup (inv.rowsNodup q row hr) he
    obtain ⟨_, htk, _⟩ := look_target inv hadd q e.1 e.2 hl
    exact (flTrans_keys s _).mpr ⟨e.2, htk, rfl⟩
  · apply (flTrans_keys s _).mpr
    refine ⟨[], ?_, rfl⟩
    have := inv.dom [] (inTrie_root inv hadd)
    rwa [φ_root inv hadd] at this
  · intro x hx
    simp only [flPartialDFA, List.mem_map] at hx
    obtain ⟨q, hq, rfl⟩ := hx
    exact (flTrans_keys s _).mpr ⟨q, inv.finKeys q hq, rfl⟩

theorem flPartial_accepts (w : List α) :
    (flPartialDFA syms s).accepts w = true ↔ Over syms w ∧ w ∈ added := by
  unfold DFA.accepts
  rw [show (flPartialDFA syms s).init = FLName.pref [] from rfl, flPartial_run]
  rw [← final_iff inv hadd w]
  constructor
  · intro h
    cases hr : runO (look s) (some []) w with
    | none => rw [hr] at h; simp [DFA.isFinal] at h
    | some q =>
      rw [hr] at h
      simp only [Option.map_some, DFA.isFinal, flPartialDFA, List.mem_map, decide_eq_true_eq] at h
      obtain ⟨q', hq', e⟩ := h
      rw [pref_inj _ _ e] at hq'
      have hw : w ∈ added := (final_iff inv hadd w).mp ⟨q, hr, hq'⟩
      exact ⟨fun c hc => hover w hw c hc, q, rfl, hq'⟩
  · rintro ⟨_, q, hr, hq⟩
    rw [hr]
    simp only [Option.map_some, DFA.isFinal, flPartialDFA, List.mem_map, decide_eq_true_eq]
    exact ⟨q, hq, rfl⟩

/-! ### complete form -/

/-- Names of the complete form: a state of the table or the trap `0`. -/
def cName : Option (List α) → FLName α
  | some q => FLName.pref q
  | none => FLName.zero

def flCompleteTable : List (FLName α × List (α × FLName α)) :=
  ainsert FLName.zero (rowOf syms fun _ => FLName.zero)
    ((flTrans s).map fun kv => (kv.1, mergeRow (rowOf syms fun _ => FLName.zero) kv.2))

def flCompleteDFA : DFA (FLName α) α :=
  { states := akeys (flCompleteTable syms (s := s)), syms := syms, trans := flCompleteTable syms (s := s),
    init := FLName.pref [], finals := s.finals.map FLName.pref, allowPartial := false }

theorem toComplete_eq :
    toComplete syms (flTrans s) (FLName.pref []) (s.finals.map FLName.pref) FLName.zero =
      build (flCompleteDFA syms (s := s)) := rfl

omit inv hadd hover in
theorem flComplete_keys (x : FLName α) :
    x ∈ akeys (flCompleteTable syms (s := s)) ↔ x = FLName.zero ∨ ∃ q, q ∈ akeys s.trans ∧ x = FLName.pref q := by
  unfold flCompleteTable
  rw [mem_akeys_ainsert, akeys_map_val, flTrans_keys]

omit hadd hover in
theorem flComplete_row (q : List α) (row : List (α × List α)) (hr : alookup q s.trans = some row) :
    alookup (FLName.pref q) (flCompleteTable syms (s := s)) =
      some (mergeRow (rowOf syms fun _ => FLName.zero) (row.map fun e => (e.1, FLName.pref e.2))) := by
  unfold flCompleteTable
  rw [alookup_ainsert]
  have : ¬ (FLName.zero : FLName α) = FLName.pref q := fun e => by cases e
  simp only [this, if_false]
  rw [alookup_map_val, flTrans_lookup, hr]
  rfl

omit hadd hover in
theorem flComplete_merged (q : List α) (row : List (α × List α)) (hr : alookup q s.trans = some row)
    (a : α) :
    alookup a (mergeRow (rowOf syms fun _ => FLName.zero) (row.map fun e => (e.1, FLName.pref e.2))) =
      match look s q a with
      | some t => some (FLName.pref t)
      | none => if a ∈ syms then some FLName.zero else none := by
  rw [alookup_mergeRow a _ _ (by rw [akeys_map_val]; exact inv.rowsNodup q row hr)]
  rw [alookup_map_val, alookup_rowOf]
  unfold look
  rw [hr]
  simp only [Option.bind_some]
  cases alookup a row <;> rfl

omit hadd hover in
theorem flComplete_step (x : Option (List α)) (hx : ∀ q, x = some q → q ∈ akeys s.trans) (a : α)
    (ha : a ∈ syms) :
    (flCompleteDFA syms (s := s)).step? (some (cName x)) a =
      some (cName (x.bind fun q => look s q a)) := by
  simp only [DFA.step?, DFA.row, DFA.row?, flCompleteDFA]
  cases x with
  | none =>
    have : alookup (cName (none : Option (List α))) (flCompleteTable syms (s := s)) =
        some (rowOf syms fun _ => FLName.zero) := by
      unfold flCompleteTable cName; rw [alookup_ainsert]; simp
    rw [this]
    simp [alookup_rowOf, ha, cName]
  | some q =>
    obtain ⟨row, hr⟩ : ∃ row, alookup q s.trans = some row := by
      have := alookup_isSome_iff.mpr (hx q rfl)
      cases h : alookup q s.trans with
      | none => rw [h] at this; cases this
      | some r => exact ⟨r, rfl⟩
    simp only [cName]
    rw [flComplete_row syms inv q row hr]
    simp only [Option.getD_some, Option.bind_some]
    rw [flComplete_merged syms inv q row hr a]
    cases look s q a <;> simp [ha, cName]

include hsymsnd in
theorem flComplete_wf : (flCompleteDFA syms (s := s)).WF := by
  apply wf_of_lookup
  · show (akeys (flCompleteTable syms (s := s))).Nodup
    unfold flCompleteTable
    apply nodup_akeys_ainsert
    rw [akeys_map_val]
    unfold flTrans
    rw [akeys_map_key]
    exact nodup_map_inj _ pref_inj inv.keysNodup
  · intro q; rfl
  · intro x hx
    rcases (flComplete_keys syms x).mp hx with rfl | ⟨q, hq, rfl⟩
    · refine ⟨rowOf syms fun _ => FLName.zero, ?_, ?_, ?_⟩
      · show alookup FLName.zero (flCompleteTable syms (s := s)) = _
        unfold flCompleteTable; rw [alookup_ainsert]; simp
      · intro a; simp [flCompleteDFA]
      · intro t ht
        simp only [avals_rowOf, List.mem_map] at ht
        obtain ⟨_, _, rfl⟩ := ht
        exact (flComplete_keys syms _).mpr (Or.inl rfl)
    · obtain ⟨row, hr⟩ : ∃ row, alookup q s.trans = some row := by
        have := alookup_isSome_iff.mpr hq
        cases h : alookup q s.trans with
        | none => rw [h] at this; cases this
        | some r => exact ⟨r, rfl⟩
      refine ⟨_, flComplete_row syms inv q row hr, ?_, ?_⟩
      · intro a
        rw [mem_akeys_mergeRow, akeys_rowOf, akeys_map_val]
        constructor
        · rintro (h | h)
          · exact h
          · obtain ⟨t, ht⟩ := mem_akeys_iff_lookup.mp h
            have hl : look s q a = some t := by unfold look; rw [hr]; exact ht
            obtain ⟨_, _, w, hw, haw⟩ := look_target inv hadd q a t hl
            exact hover w hw a haw
        · exact Or.inl
      · intro t ht
        obtain ⟨⟨a, t'⟩, hat, rfl⟩ := List.mem_map.mp ht
        have hnd : (akeys (mergeRow (rowOf syms fun _ => (FLName.zero : FLName α))
            (row.map fun e => (e.1, FLName.pref e.2)))).Nodup :=
          nodup_akeys_mergeRow _ _ (by rw [akeys_rowOf]; exact hsymsnd)
        have hl := alookup_of_mem_nodup hnd hat
        rw [flComplete_merged syms inv q row hr a] at hl
        cases h0 : look s q a with
        | some t0 =>
          rw [h0] at hl
          simp only [Option.some.injEq] at hl
          obtain ⟨_, htk, _⟩ := look_target inv hadd q a t0 h0
          exact (flComplete_keys syms _).mpr (Or.inr ⟨t0, htk, hl.symm⟩)
        | none =>
          rw [h0] at hl
          simp only at hl
          split at hl
          · simp only [Option.some.injEq] at hl
            exact (flComplete_keys syms _).mpr (Or.inl hl.symm)
          · cases hl
  · apply (flComplete_keys syms _).mpr
    right
    refine ⟨[], ?_, rfl⟩
    have := inv.dom [] (inTrie_root inv hadd)
    rwa [φ_root inv hadd] at this
  · intro x hx
    simp only [flCompleteDFA, List.mem_map] at hx
    obtain ⟨q, hq, rfl⟩ := hx
    exact (flComplete_keys syms _).mpr (Or.inr ⟨q, inv.finKeys q hq, rfl⟩)

theorem flComplete_run (w : List α) (hw : Over syms w) :
    (flCompleteDFA syms (s := s)).run (some (FLName.pref [])) w =
      some (cName (runO (look s) (some []) w)) := by
  have hroot : ([] : List α) ∈ akeys s.trans := by
    have := inv.dom [] (inTrie_root inv hadd)
    rwa [φ_root inv hadd] at this
  have hstep : ∀ (x : Option (List α)) (a : α), (∀ q, x = some q → q ∈ akeys s.trans) →
      a ∈ (flCompleteDFA syms (s := s)).syms →
      (flCompleteDFA syms (s := s)).step? (some (cName x)) a = some (cName (x.bind fun q => look s q a)) ∧
        ∀ q, (x.bind fun q => look s q a) = some q → q ∈ akeys s.trans := by
    intro x a hx ha
    refine ⟨flComplete_step syms inv x hx a ha, ?_⟩
    intro q hq
    cases x with
    | none => cases hq
    | some q0 => exact (look_target inv hadd q0 a q hq).2.1
  have := (run_sim (flCompleteDFA syms (s := s)) cName (fun x a => x.bind fun q => look s q a)
    (fun x => ∀ q, x = some q → q ∈ akeys s.trans) hstep w (some [])
    (fun q e => by cases e; exact hroot) hw).1
  exact this

include hsymsnd in
theorem flComplete_accepts (w : List α) :
    (flCompleteDFA syms (s := s)).accepts w = true ↔ Over syms w ∧ w ∈ added := by
  by_cases hw : Over syms w
  · unfold DFA.accepts
    rw [show (flCompleteDFA syms (s := s)).init = FLName.pref [] from rfl,
      flComplete_run syms inv hadd hover w hw, ← final_iff inv hadd w]
    cases hr : runO (look s) (some []) w with
    | none => simp [DFA.isFinal, cName, flCompleteDFA, hw]
    | some q =>
      simp only [DFA.isFinal, cName, flCompleteDFA, List.mem_map, decide_eq_true_eq, hw, true_and,
        Option.some.injEq, exists_eq_left']
      constructor
      · rintro ⟨q', hq', e⟩; rw [pref_inj _ _ e] at hq'; exact hq'
      · intro hq; exact ⟨q, hq, rfl⟩
  · rw [accepts_false_of_not_over (flComplete_wf syms inv hadd hover hsymsnd) hw]; simp [hw]

end finalDfa

/-! ### putting the layers together -/

theorem fromFiniteLanguage_eq {lt : α → α → Bool} (ho : StrictTotal lt) (syms : List α)
    (lang : List (List α)) (asPartial : Bool) (hne : lang ≠ []) (hnd : lang.Nodup) :
    ∃ (added : List (List α)) (last : List α) (s : FLState α) (φ : List α → List α),
      (∀ w, w ∈ added ↔ w ∈ lang) ∧ added ≠ [] ∧ FLInv added last 0 s φ ∧
      fromFiniteLanguage lt syms lang asPartial =
        if asPartial then build (flPartialDFA syms s) else build (flCompleteDFA syms (s := s)) := by
  have hinc := increasing_sortWords ho lang hnd
  have hmem := mem_sortWords ho lang
  cases hsort : sortWords lt lang with
  | nil =>
    exfalso
    obtain ⟨w, hw⟩ := List.exists_mem_of_ne_nil lang hne
    have := (hmem w).mpr hw
    rw [hsort] at this; cases this
  | cons first rest =>
    rw [hsort] at hinc hmem
    obtain ⟨s, φ, last, hmain, inv⟩ := construction_inv ho first rest hinc
    refine ⟨first :: rest, last, s, φ, hmem, by simp, inv, ?_⟩
    unfold fromFiniteLanguage
    have hemp : lang.isEmpty = false := by
      cases lang with
      | nil => exact absurd rfl hne
      | cons a t => rfl
    rw [hemp, hsort]
    simp only [Bool.false_eq_true, if_false]
    have : flMain rest first (flAddWord { trans := [], back := [([], [])], finals := [], sigs := [] } first) =
        .ok s := hmain
    rw [this]
    cases asPartial <;> rfl

end AV.Ctor.FL
