/-
Proofs/CtorErrors.lean — the error outcomes of the language constructors (C15): which
exception `cls(...)` (= `build`, the validating constructor) raises when the table a
constructor assembled is not a DFA.  Core only.
-/
import AutomataVerif.Proofs.CtorSimple

namespace AV.Ctor

set_option linter.unusedSectionVars false
set_option linter.unusedVariables false

variable {α : Type} [DecidableEq α] {σ : Type} [DecidableEq σ]

/-- Everything `validate` checks before the final states is in order, but some final state is
not a state: `_validate_final_states` raises `InvalidStateError`. -/
theorem validate_error_of_finals {d : DFA σ α} (hrows : ∀ q ∈ d.states, q ∈ akeys d.trans)
    (hcomplete : d.allowPartial = false → ∀ kv ∈ d.trans, ∀ a ∈ d.syms, a ∈ akeys kv.2)
    (hsyms : ∀ kv ∈ d.trans, ∀ a ∈ akeys kv.2, a ∈ d.syms)
    (htgt : ∀ kv ∈ d.trans, ∀ q ∈ avals kv.2, q ∈ d.states)
    (hinit : d.init ∈ d.states) (hfin : ∃ q ∈ d.finals, q ∉ d.states) :
    d.validate = .error (.lib .invalidStateError) := by
  have e1 : d.validateStartStates = .ok () := by
    unfold DFA.validateStartStates
    simp only [firstErr_eq_ok, guardE_eq_ok, ahas_iff]
    exact hrows
  have e2 : (firstErr d.trans fun kv => d.validateRow kv.2) = .ok () := by
    simp only [firstErr_eq_ok, DFA.validateRow_eq_ok]
    intro kv hkv
    exact ⟨fun hp => hcomplete hp kv hkv, hsyms kv hkv, htgt kv hkv⟩
  have e3 : guardE (decide (d.init ∈ d.states)) (.lib .invalidStateError) = .ok () := by
    simp [hinit]
  have e4 : (d.finals.all fun q => decide (q ∈ d.states)) = false := by
    obtain ⟨q, hq, hqs⟩ := hfin
    rw [← Bool.not_eq_true, List.all_eq_true]
    intro h
    exact hqs (of_decide_eq_true (h q hq))
  unfold DFA.validate
  rw [e1, e2, e3, e4]
  rfl

theorem build_error_of_validate {d : DFA σ α} {e : Exn} (h : d.validate = .error e) :
    build d = .error e := by
  rw [build_eq, h]

/-- `of_length` with a negative `min_length`, a non-negative `max_length` and a counted symbol:
`final_states = range(min_length, max_length + 1)` contains `min_length < 0`, which is not a
state. -/
theorem ofLengthDFA_negative_min (syms : List α) (cnt : List α) (minLen : Int) (hmin : minLen < 0)
    (mx : Int) (hmx : 0 ≤ mx) :
    build (ofLengthDFA syms (mx + 1).toNat cnt
      ((List.range (mx + 1 - minLen).toNat).map fun j => minLen + nat j)) =
      .error (.lib .invalidStateError) := by
  have wf := ofLengthDFA_wf syms (mx + 1).toNat cnt [] (by simp)
  apply build_error_of_validate
  refine validate_error_of_finals wf.rows wf.complete wf.symsOk wf.tgtOk wf.initOk ⟨minLen, ?_, ?_⟩
  · show minLen ∈ (List.range (mx + 1 - minLen).toNat).map fun j => minLen + nat j
    simp only [List.mem_map, List.mem_range]
    exact ⟨0, by omega, by simp⟩
  · show minLen ∉ akeys (ofLengthTable syms (mx + 1).toNat cnt)
    rw [mem_ofLength_states]
    rintro ⟨i, _, e⟩
    rw [nat_cast] at e
    omega

end AV.Ctor
