/-
Proofs/CtorErrors.lean — the error outcomes of the language constructors (C15): which
exception `cls(...)` (= `build`, the validating constructor) raises when the table a
constructor assembled is not a DFA.  Core only.
-/
import AutomataVerif.Proofs.CtorSimple
import AutomataVerif.Proofs.CtorPrefix
import AutomataVerif.Proofs.CtorSubseq
import AutomataVerif.Proofs.CtorFLDfa

namespace AV.Ctor

set_option linter.unusedSectionVars false
set_option linter.unusedVariables false

variable {α : Type} [DecidableEq α] {σ : Type} [DecidableEq σ]

/-- Everything `validate` checks before the final states is in order, but some final state is
not a state: `_validate_final_states` raises `InvalidStateError`. -/
theorem validate_error_of_finals {d : DFA σ α} (hrows : ∀ q ∈ d.states, q ∈ akeys d.trans)
    (hcomplete : d.allowPartial = false → ∀ kv ∈ d.trans, ∀ a ∈ d.syms, a ∈ akeys kv.2)
    (hsyms : ∀ kv ∈ d.trans, ∀ a ∈ akeys kv.2, a ∈ d.syms)
    (htgt : ∀ kv ∈ d.trans, ∀ q ∈ avals kv.2, q ∈ d.states)
    (hinit : d.init ∈ d.states) (hfin : ∃ q ∈ d.finals, q ∉ d.states) :
    d.validate = .error (.lib .invalidStateError) := by
  have e1 : d.validateStartStates = .ok () := by
    unfold DFA.validateStartStates
    simp only [firstErr_eq_ok, guardE_eq_ok, ahas_iff]
    exact hrows
  have e2 : (firstErr d.trans fun kv => d.validateRow kv.2) = .ok () := by
    simp only [firstErr_eq_ok, DFA.validateRow_eq_ok]
    intro kv hkv
    exact ⟨fun hp => hcomplete hp kv hkv, hsyms kv hkv, htgt kv hkv⟩
  have e3 : guardE (decide (d.init ∈ d.states)) (.lib .invalidStateError) = .ok () := by
    simp [hinit]
  have e4 : (d.finals.all fun q => decide (q ∈ d.states)) = false := by
    obtain ⟨q, hq, hqs⟩ := hfin
    rw [← Bool.not_eq_true, List.all_eq_true]
    intro h
    exact hqs (of_decide_eq_true (h q hq))
  unfold DFA.validate
  rw [e1, e2, e3, e4]
  rfl

theorem build_error_of_validate {d : DFA σ α} {e : Exn} (h : d.validate = .error e) :
    build d = .error e := by
  rw [build_eq, h]

/-- `of_length` with a negative `min_length`, a non-negative `max_length` and a counted symbol:
`final_states = range(min_length, max_length + 1)` contains `min_length < 0`, which is not a
state. -/
theorem ofLengthDFA_negative_min (syms : List α) (cnt : List α) (minLen : Int) (hmin : minLen < 0)
    (mx : Int) (hmx : 0 ≤ mx) :
    build (ofLengthDFA syms (mx + 1).toNat cnt
      ((List.range (mx + 1 - minLen).toNat).map fun j => minLen + nat j)) =
      .error (.lib .invalidStateError) := by
  have wf := ofLengthDFA_wf syms (mx + 1).toNat cnt [] (by simp)
  apply build_error_of_validate
  refine validate_error_of_finals wf.rows wf.complete wf.symsOk wf.tgtOk wf.initOk ⟨minLen, ?_, ?_⟩
  · show minLen ∈ (List.range (mx + 1 - minLen).toNat).map fun j => minLen + nat j
    simp only [List.mem_map, List.mem_range]
    exact ⟨0, by omega, by simp⟩
  · show minLen ∉ akeys (ofLengthTable syms (mx + 1).toNat cnt)
    rw [mem_ofLength_states]
    rintro ⟨i, _, e⟩
    rw [nat_cast] at e
    omega

/-! ### `validate` raises library exceptions only -/

/-- A check that passes or raises a library exception. -/
def LibOrOk (r : Res Unit) : Prop := r = .ok () ∨ ∃ e, r = .error (.lib e)

theorem libOrOk_guardE (c : Bool) (e : Gen.Err) : LibOrOk (guardE c (.lib e)) := by
  cases c
  · exact Or.inr ⟨e, rfl⟩
  · exact Or.inl rfl

theorem libOrOk_andThen {a b : Res Unit} (ha : LibOrOk a) (hb : LibOrOk b) :
    LibOrOk (Res.andThen a b) := by
  rcases ha with rfl | ⟨e, rfl⟩
  · exact hb
  · exact Or.inr ⟨e, rfl⟩

theorem libOrOk_firstErr {β : Type} (l : List β) (f : β → Res Unit) (h : ∀ x ∈ l, LibOrOk (f x)) :
    LibOrOk (firstErr l f) := by
  unfold firstErr
  have key : ∀ (l : List β) (acc : Res Unit), LibOrOk acc → (∀ x ∈ l, LibOrOk (f x)) →
      LibOrOk (l.foldl (fun acc x => Res.andThen acc (f x)) acc) := by
    intro l
    induction l with
    | nil => intro acc hacc _; exact hacc
    | cons a t ih =>
      intro acc hacc hl
      rw [List.foldl_cons]
      exact ih _ (libOrOk_andThen hacc (hl a (by simp))) (fun x hx => hl x (by simp [hx]))
  exact key l _ (Or.inl rfl) h

theorem libOrOk_validate (d : DFA σ α) : LibOrOk d.validate := by
  unfold DFA.validate DFA.validateStartStates
  refine libOrOk_andThen (libOrOk_firstErr _ _ fun _ _ => libOrOk_guardE _ _) ?_
  refine libOrOk_andThen (libOrOk_firstErr _ _ fun kv _ => ?_) ?_
  · unfold DFA.validateRow
    refine libOrOk_andThen ?_ (libOrOk_andThen (libOrOk_firstErr _ _ fun _ _ => libOrOk_guardE _ _)
      (libOrOk_firstErr _ _ fun _ _ => libOrOk_guardE _ _))
    cases d.allowPartial
    · exact libOrOk_firstErr _ _ fun _ _ => libOrOk_guardE _ _
    · exact Or.inl rfl
  · exact libOrOk_andThen (libOrOk_guardE _ _) (libOrOk_guardE _ _)

/-- A table that is not a DFA is refused by `cls(...)` with a library exception. -/
theorem build_error_of_not_wf {d : DFA σ α} (h : ¬ d.WF) : ∃ e, build d = .error (.lib e) := by
  rcases libOrOk_validate d with hv | ⟨e, hv⟩
  · exact absurd ((DFA.validate_eq_ok d).mp hv) h
  · exact ⟨e, build_error_of_validate hv⟩

/-- In a well-formed DFA only symbols of the alphabet label transitions. -/
theorem wf_step_sym {d : DFA σ α} (wf : d.WF) {q : σ} {a : α} {t : σ}
    (h : d.step? (some q) a = some t) : a ∈ d.syms := by
  simp only [DFA.step?, DFA.row, DFA.row?] at h
  cases hr : alookup q d.trans with
  | none => rw [hr] at h; simp at h
  | some row =>
    rw [hr] at h
    simp only [Option.getD_some] at h
    exact wf.symsOk (q, row) (alookup_some_mem hr) a (mem_akeys_iff_lookup.mpr ⟨t, h⟩)

/-- A row with a key outside the alphabet: not a DFA. -/
theorem not_wf_of_foreign_key {d : DFA σ α} {q : σ} {row : List (α × σ)} {c : α}
    (hr : alookup q d.trans = some row) (hc : c ∈ akeys row) (hcs : c ∉ d.syms) : ¬ d.WF :=
  fun wf => hcs (wf.symsOk (q, row) (alookup_some_mem hr) c hc)

/-! ### count_mod: a remainder outside `range(k)` -/

theorem countModDFA_bad_remainder (syms : List α) (kn : Nat) (cnt : List α) (hk : 0 < kn)
    (fin : List Int) (r : Int) (hr : r ∈ fin) (hbad : r < 0 ∨ (kn : Int) ≤ r) :
    build (countModDFA syms kn cnt fin) = .error (.lib .invalidStateError) := by
  have wf := countModDFA_wf syms kn cnt hk [] (by simp)
  apply build_error_of_validate
  refine validate_error_of_finals wf.rows wf.complete wf.symsOk wf.tgtOk wf.initOk ⟨r, hr, ?_⟩
  show r ∉ akeys (countModTable syms kn cnt)
  rw [mem_countMod_states]
  rintro ⟨i, hi, e⟩
  rw [nat_cast] at e
  omega

/-! ### from_prefix / from_subsequence: a pattern symbol outside the alphabet -/

theorem prefixDFA_not_wf (syms p : List α) (contains asPartial : Bool) (c : α) (hc : c ∈ p)
    (hcs : c ∉ syms) : ¬ (prefixDFA syms p contains asPartial).WF := by
  obtain ⟨i, hi, hpi⟩ := List.getElem_of_mem hc
  have hget : p[i]? = some c := by rw [List.getElem?_eq_getElem hi, hpi]
  have hrow : chainRow syms p i = [(c, nat i + 1)] := by unfold chainRow; rw [hget]
  cases hb : (!asPartial || !contains) with
  | false =>
    refine not_wf_of_foreign_key (q := nat i) (row := chainRow syms p i) (c := c) ?_ ?_ hcs
    · show alookup (nat i) (prefixTable syms p (!asPartial || !contains)) = _
      rw [hb, prefixTable_partial]
      exact chain_lookup syms p i (Nat.le_of_lt hi)
    · rw [hrow]; simp [akeys]
  | true =>
    refine not_wf_of_foreign_key (q := nat i) (row := fillRow syms (-1) (chainRow syms p i)) (c := c)
      ?_ ?_ hcs
    · show alookup (nat i) (prefixTable syms p (!asPartial || !contains)) = _
      rw [hb]
      exact prefComplete_lookup syms p (some i) (inv_some (Nat.le_of_lt hi))
    · rw [mem_akeys_fillRow, hrow]; simp [akeys]

theorem subseqDFA_not_wf (syms p : List α) (contains : Bool) (c : α) (hc : c ∈ p)
    (hcs : c ∉ syms) : ¬ (subseqDFA syms p contains).WF := by
  obtain ⟨i, hi, hpi⟩ := List.getElem_of_mem hc
  have hget : p[i]? = some c := by rw [List.getElem?_eq_getElem hi, hpi]
  refine not_wf_of_foreign_key (q := nat i) (row := subseqRow syms p i) (c := c)
    (subseq_lookup syms p i (Nat.le_of_lt hi)) ?_ hcs
  unfold subseqRow
  rw [hget]
  exact mem_akeys_ainsert.mpr (Or.inl rfl)

/-! ### from_finite_language: a word with a symbol outside the alphabet -/

namespace FL

section foreign
variable {added : List (List α)} {last : List α} {s : FLState α} {φ : List α → List α}
variable (syms : List α) (inv : FLInv added last 0 s φ) (hadd : added ≠ [])
include inv hadd

/-- The table built from words with a foreign symbol `c` has a transition on `c`. -/
theorem foreign_look (w : List α) (hw : w ∈ added) (c : α) (hc : c ∈ w) :
    ∃ q t, look s q c = some t := by
  obtain ⟨u, v, rfl⟩ := List.append_of_mem hc
  have h1 : InTrie added u := ⟨_, hw, List.prefix_append u (c :: v)⟩
  have h2 : InTrie added (u ++ [c]) := ⟨_, hw, by
    rw [show u ++ c :: v = (u ++ [c]) ++ v by simp]; exact List.prefix_append _ _⟩
  refine ⟨φ u, φ (u ++ [c]), ?_⟩
  rw [inv.step u c h1, if_pos h2]

theorem flPartial_not_wf (w : List α) (hw : w ∈ added) (c : α) (hc : c ∈ w) (hcs : c ∉ syms) :
    ¬ (flPartialDFA syms s).WF := by
  intro wf
  obtain ⟨q, t, hl⟩ := foreign_look inv hadd w hw c hc
  have hstep : (flPartialDFA syms s).step? (some (FLName.pref q)) c = some (FLName.pref t) := by
    rw [flPartial_step, hl]; rfl
  exact hcs (wf_step_sym wf hstep)

theorem flComplete_not_wf (w : List α) (hw : w ∈ added) (c : α) (hc : c ∈ w) (hcs : c ∉ syms) :
    ¬ (flCompleteDFA syms (s := s)).WF := by
  intro wf
  obtain ⟨q, t, hl⟩ := foreign_look inv hadd w hw c hc
  obtain ⟨row, hr⟩ : ∃ row, alookup q s.trans = some row := by
    unfold look at hl
    cases h : alookup q s.trans with
    | none => rw [h] at hl; cases hl
    | some r => exact ⟨r, rfl⟩
  have hstep : (flCompleteDFA syms (s := s)).step? (some (FLName.pref q)) c = some (FLName.pref t) := by
    simp only [DFA.step?, DFA.row, DFA.row?, flCompleteDFA]
    rw [flComplete_row syms inv q row hr]
    simp only [Option.getD_some]
    rw [flComplete_merged syms inv q row hr c, hl]
  exact hcs (wf_step_sym wf hstep)

end foreign

end FL

end AV.Ctor
