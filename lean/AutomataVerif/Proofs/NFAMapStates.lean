/-
Proofs/NFAMapStates.lean — renaming the states of an NFA through an injective function
keeps validity (`validate` passes, the tables are dicts) and the language (Mathlib
`εNFA.accepts` of the textbook ε-NFA).  Used to embed the typed results of the NFA
operations (`Nat`, pairs, triples) into the universal name type `PyName`
(Model/NFAOpsPy.lean), where further operations add ints next to names of any shape.
-/
import AutomataVerif.Model.NFAOpsPy
import AutomataVerif.Proofs.NFAOpsUnary
import AutomataVerif.Proofs.EpsOpsA
import AutomataVerif.Props.C01

open AV.AL

namespace AV
namespace NFA
namespace MapStates

open AV.Props.C01 AV.EpsOps

set_option linter.unusedSectionVars false

variable {σ τ α : Type} [DecidableEq σ] [DecidableEq τ] [DecidableEq α]

/-! ### association lists under renaming -/

theorem alookup_map_key {β γ : Type} (f : σ → τ) (hf : Function.Injective f) (g : β → γ) (q : σ)
    (l : List (σ × β)) :
    alookup (f q) (l.map fun kv => (f kv.1, g kv.2)) = (alookup q l).map g := by
  induction l with
  | nil => rfl
  | cons x t ih =>
    obtain ⟨k, v⟩ := x
    simp only [List.map_cons, alookup, ih]
    by_cases hk : k = q
    · subst hk; simp
    · have : ¬ f k = f q := fun e => hk (hf e)
      simp [hk, this]

theorem alookup_map_val {κ β γ : Type} [DecidableEq κ] (g : β → γ) (a : κ) (r : List (κ × β)) :
    alookup a (r.map fun e => (e.1, g e.2)) = (alookup a r).map g := by
  induction r with
  | nil => rfl
  | cons x t ih =>
    obtain ⟨k, v⟩ := x
    simp only [List.map_cons, alookup, ih]
    by_cases hk : k = a <;> simp [hk]

theorem akeys_map_val {κ β γ : Type} (g : β → γ) (r : List (κ × β)) :
    akeys (r.map fun e => (e.1, g e.2)) = akeys r := by
  simp [akeys, List.map_map, Function.comp_def]

theorem akeys_map_key {β γ : Type} (f : σ → τ) (g : β → γ) (l : List (σ × β)) :
    akeys (l.map fun kv => (f kv.1, g kv.2)) = (akeys l).map f := by
  simp [akeys, List.map_map, Function.comp_def]

/-! ### the renamed automaton -/

variable (f : σ → τ) (n : NFA σ α)

theorem mapStates_keys : akeys (n.mapStates f).trans = (akeys n.trans).map f :=
  akeys_map_key f _ n.trans

/-- Targets of the image of `q` are the images of the targets of `q`. -/
theorem mapStates_targets (hf : Function.Injective f) (q : σ) (a : Option α) :
    (n.mapStates f).targets (f q) a = (n.targets q a).map f := by
  unfold targets row row? mapStates
  simp only
  rw [alookup_map_key f hf (fun r : List (Option α × List σ) => r.map fun e => (e.1, e.2.map f))]
  cases alookup q n.trans with
  | none => rfl
  | some r =>
    simp only [Option.map_some, Option.getD_some]
    rw [alookup_map_val (List.map f)]
    cases alookup a r <;> rfl

/-- Renaming preserves what `validate` checks (no injectivity needed). -/
theorem mapStates_wf (wf : n.WF) : (n.mapStates f).WF := by
  refine ⟨?_, ?_, ?_, ?_, ?_⟩
  · intro kv' hkv' a ha
    obtain ⟨kv, hkv, rfl⟩ := List.mem_map.mp hkv'
    simp only at ha
    rw [akeys_map_val] at ha
    exact wf.symsOk kv hkv a ha
  · intro kv' hkv' ts' hts' q' hq'
    obtain ⟨kv, hkv, rfl⟩ := List.mem_map.mp hkv'
    simp only [avals, List.map_map] at hts'
    obtain ⟨e, he, rfl⟩ := List.mem_map.mp hts'
    simp only [Function.comp] at hq'
    obtain ⟨q, hq, rfl⟩ := List.mem_map.mp hq'
    exact List.mem_map.mpr ⟨q, wf.tgtOk kv hkv e.2 (List.mem_map.mpr ⟨e, he, rfl⟩) q hq, rfl⟩
  · exact List.mem_map.mpr ⟨n.init, wf.initOk, rfl⟩
  · rcases wf.initRow with h | h
    · left
      rw [mapStates_keys]
      exact List.mem_map.mpr ⟨n.init, h, rfl⟩
    · right
      simpa [mapStates] using h
  · intro q' hq'
    obtain ⟨q, hq, rfl⟩ := List.mem_map.mp hq'
    exact List.mem_map.mpr ⟨q, wf.finalsOk q hq, rfl⟩

theorem mapStates_dict (hf : Function.Injective f) (h : Tbl.Dict n.trans) :
    Tbl.Dict (n.mapStates f).trans := by
  refine ⟨?_, ?_⟩
  · rw [mapStates_keys]
    exact h.keys.map hf
  · intro kv' hkv'
    obtain ⟨kv, hkv, rfl⟩ := List.mem_map.mp hkv'
    simp only
    rw [akeys_map_val]
    exact h.rows kv hkv

/-- **Renaming keeps validity.** -/
theorem mapStates_valid (hf : Function.Injective f) (h : n.Valid) : (n.mapStates f).Valid :=
  ⟨mapStates_wf f n h.wf, mapStates_dict f n hf h.dict⟩

/-! ### the language -/

/-- An automaton `M` that copies `N` along an embedding `f` of a closed set of states
containing the initial state accepts the same language. -/
theorem accepts_map {M : εNFA α τ} {N : εNFA α σ} {Q : Set σ} {f : σ → τ} {i : σ}
    (hQ : Closed N Q) (hi : i ∈ Q) (hMs : M.start = {f i}) (hNs : N.start = {i})
    (hstep : ∀ q ∈ Q, ∀ a, M.step (f q) a = f '' N.step q a)
    (hacc : ∀ q ∈ Q, f q ∈ M.accept ↔ q ∈ N.accept) : M.accepts = N.accepts := by
  ext w
  rw [mem_accepts_single hMs, mem_accepts_single hNs]
  constructor
  · rintro ⟨t, x, ht, hx, hp⟩
    obtain ⟨q', hq', rfl, hp'⟩ := embed_path_mp hQ hstep hp i hi rfl
    exact ⟨q', x, (hacc q' hq').mp ht, hx, hp'⟩
  · rintro ⟨t, x, ht, hx, hp⟩
    have htQ : t ∈ Q := closed_path hQ hp hi
    exact ⟨f t, x, (hacc t htQ).mpr ht, hx,
      embed_path_mpr hQ (fun q hq a => by rw [hstep q hq a]) hp hi⟩

/-- **Renaming keeps the language.** -/
theorem mapStates_lang (hf : Function.Injective f) (wf : n.WF) :
    (nfaTextbook (n.mapStates f)).accepts = (nfaTextbook n).accepts := by
  refine accepts_map (Q := {q | q ∈ n.states}) (i := n.init)
    (fun _ _ _ _ hp => NFA.targets_mem_states wf hp) wf.initOk rfl rfl ?_ ?_
  · intro q _ a
    ext p
    simp only [nfaTextbook, Set.mem_ofPred_eq, Set.mem_image]
    rw [mapStates_targets f n hf q a, List.mem_map]
  · intro q _
    simp only [nfaTextbook, Set.mem_ofPred_eq, mapStates]
    rw [List.mem_map]
    constructor
    · rintro ⟨q', hq', e⟩
      rw [← hf e]; exact hq'
    · intro h; exact ⟨q, h, rfl⟩

/-! ### the embeddings into `PyName` -/

theorem nat_injective : Function.Injective PyName.nat := by
  intro i j h
  simp only [PyName.nat, PyName.int.injEq] at h
  exact Int.ofNat.inj h

theorem ofPair_injective : Function.Injective PyName.ofPair := by
  rintro ⟨a, b⟩ ⟨c, d⟩ h
  simp only [PyName.ofPair, PyName.pair.injEq] at h
  rw [h.1, h.2]

theorem ofTriple_injective : Function.Injective PyName.ofTriple := by
  rintro ⟨a, b, x⟩ ⟨c, d, y⟩ h
  simp only [PyName.ofTriple, PyName.triple.injEq] at h
  rw [h.1, h.2.1, h.2.2]

end MapStates
end NFA
end AV
