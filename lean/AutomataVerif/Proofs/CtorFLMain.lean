/-
Proofs/CtorFLMain.lean — from_finite_language (C15), layer B4: the `compress` loop and the main
loop over the sorted words.  Core only.
-/
import AutomataVerif.Proofs.CtorFLCompress

namespace AV.Ctor.FL

set_option linter.unusedSectionVars false
set_option linter.unusedVariables false
set_option linter.unusedSimpArgs false

variable {α : Type} [DecidableEq α]

theorem compressLoop_inv {added : List (List α)} {cur : List α} (hadd : added ≠ []) :
    ∀ (n i : Nat) (s : FLState α) (φ : List α → List α), n ≤ i → FLInv added cur i s φ →
      ∃ s' φ', flCompressLoop cur n i s = .ok s' ∧ FLInv added cur (i - n) s' φ' := by
  intro n
  induction n with
  | zero => intro i s φ _ inv; exact ⟨s, φ, rfl, by simpa using inv⟩
  | succ n ih =>
    intro i s φ hni inv
    obtain ⟨k, rfl⟩ : ∃ k, i = k + 1 := ⟨i - 1, by omega⟩
    obtain ⟨s1, φ1, h1, inv1, _⟩ := compressAt_inv inv hadd
    unfold flCompressLoop
    rw [h1]
    simp only [Nat.add_sub_cancel]
    obtain ⟨s2, φ2, h2, inv2⟩ := ih k s1 φ1 (by omega) inv1
    refine ⟨s2, φ2, h2, ?_⟩
    have : k + 1 - (n + 1) = k - n := by omega
    rw [this]; exact inv2

theorem compress_inv {added : List (List α)} {cur : List α} (hadd : added ≠ []) (s : FLState α)
    (φ : List α → List α) (inv : FLInv added cur cur.length s φ) (next : List α) :
    ∃ s' φ', flCompress s cur next = .ok s' ∧ FLInv added cur (lcpLen cur next) s' φ' := by
  unfold flCompress
  obtain ⟨s', φ', h1, inv'⟩ := compressLoop_inv hadd (cur.length - lcpLen cur next) cur.length s φ
    (by omega) inv
  refine ⟨s', φ', h1, ?_⟩
  have : cur.length - (cur.length - lcpLen cur next) = lcpLen cur next := by
    have := lcpLen_le_left cur next; omega
  rw [this] at inv'; exact inv'

theorem lcpLen_comm (u v : List α) : lcpLen u v = lcpLen v u := by
  induction u generalizing v with
  | nil => cases v <;> rfl
  | cons a u ih =>
    cases v with
    | nil => rfl
    | cons b v =>
      simp only [lcpLen]
      by_cases h : a = b
      · subst h; simp [ih v]
      · have : ¬ b = a := fun e => h e.symm
        simp [h, this]

section main
variable {lt : α → α → Bool} (ho : StrictTotal lt)
include ho

/-- Adding the next word of the sorted list after compressing against it. -/
theorem add_after_compress {added : List (List α)} {prev : List α} {s : FLState α}
    {φ : List α → List α} (hmax : ∀ w ∈ added, wordLe lt w prev) (next : List α)
    (hlt : wordLt lt prev next = true ∨ added = [])
    (inv : FLInv added prev (lcpLen prev next) s φ) :
    ∃ φ', FLInv (added ++ [next]) next next.length (flAddWord s next) φ' := by
  have hcommon : ∀ p, InTrie added p → p <+: next → p.length ≤ lcpLen prev next := by
    intro p hp hpn
    obtain ⟨w, hw, hpw⟩ := hp
    rcases hlt with hlt | he
    · have : p <+: prev := prefix_between ho (hmax w hw) (Or.inr hlt) hpw hpn
      exact common_prefix_le this hpn
    · rw [he] at hw; cases hw
  apply add_inv inv next
  · rw [take_lcpLen prev next]
  · rw [lcpLen_comm]; exact lcpLen_le_left next prev
  · intro q hq hk hin
    have := hcommon q hin hq; omega
  · exact hcommon
  · intro hin
    obtain ⟨w, hw, hnw⟩ := hin
    rcases hlt with hlt | he
    · -- next ≤ w ≤ prev < next
      have h1 : wordLe lt next w := prefix_wordLe ho hnw
      have h2 : wordLe lt next prev := wordLe_trans ho h1 (hmax w hw)
      rcases h2 with h2 | h2
      · rw [h2, wordLt_irrefl ho] at hlt; cases hlt
      · have := wordLt_trans ho hlt h2
        rw [wordLt_irrefl ho] at this; cases this
    · rw [he] at hw; cases hw

/-- The main loop: all remaining words, then the final `compress(prev_word, "")`. -/
theorem flMain_inv : ∀ (rest : List (List α)) (added : List (List α)) (prev : List α) (s : FLState α)
    (φ : List α → List α), added ≠ [] → FLInv added prev prev.length s φ →
    (∀ w ∈ added, wordLe lt w prev) → Increasing lt (prev :: rest) →
    ∃ s' φ' last, flMain rest prev s = .ok s' ∧ FLInv (added ++ rest) last 0 s' φ' := by
  intro rest
  induction rest with
  | nil =>
    intro added prev s φ hadd inv _ _
    obtain ⟨s', φ', h1, inv'⟩ := compress_inv hadd s φ inv []
    rw [lcpLen_nil_right] at inv'
    exact ⟨s', φ', prev, h1, by simpa using inv'⟩
  | cons cur rest ih =>
    intro added prev s φ hadd inv hmax hinc
    unfold Increasing at hinc
    rw [List.pairwise_cons] at hinc
    have hlt : wordLt lt prev cur = true := hinc.1 cur (by simp)
    obtain ⟨s1, φ1, h1, inv1⟩ := compress_inv hadd s φ inv cur
    obtain ⟨φ2, inv2⟩ := add_after_compress ho hmax cur (Or.inl hlt) inv1
    unfold flMain
    rw [h1]
    simp only
    obtain ⟨s3, φ3, last, h3, inv3⟩ := ih (added ++ [cur]) cur (flAddWord s1 cur) φ2 (by simp) inv2
      (by
        intro w hw
        rcases List.mem_append.mp hw with h | h
        · exact wordLe_trans ho (hmax w h) (Or.inr hlt)
        · simp only [List.mem_singleton] at h; exact Or.inl h)
      hinc.2
    exact ⟨s3, φ3, last, h3, by simpa using inv3⟩

/-- The whole construction on a non-empty sorted list. -/
theorem construction_inv (first : List α) (rest : List (List α)) (hinc : Increasing lt (first :: rest)) :
    ∃ s φ last, flMain rest first (flAddWord s0 first) = .ok s ∧ FLInv (first :: rest) last 0 s φ := by
  obtain ⟨φ1, inv1⟩ := add_after_compress ho (added := []) (prev := []) (s := s0) (φ := id)
    (fun w hw => by cases hw) first (Or.inr rfl) (by
      have : lcpLen ([] : List α) first = 0 := by cases first <;> rfl
      rw [this]; exact inv_init)
  simp only [List.nil_append] at inv1
  obtain ⟨s, φ, last, h, inv⟩ := flMain_inv ho rest [first] first (flAddWord s0 first) φ1 (by simp) inv1
    (by intro w hw; simp only [List.mem_singleton] at hw; exact Or.inl hw) hinc
  exact ⟨s, φ, last, h, by simpa using inv⟩

end main

end AV.Ctor.FL
