/-
Proofs/CtorFLCompress.lean — from_finite_language (C15), layer B3: one iteration of the
`compress` loop (register the state, or replace it by the registered state with the same
signature and redirect its parent) preserves the invariant.  Core only.
-/
import AutomataVerif.Proofs.CtorFLInv

namespace AV.Ctor.FL

set_option linter.unusedSectionVars false
set_option linter.unusedVariables false
set_option linter.unusedSimpArgs false

variable {α : Type} [DecidableEq α]

/-! ### dict lemmas -/

theorem alookup_filter_ne {κ β : Type} [DecidableEq κ] (k q : κ) (d : List (κ × β)) :
    alookup q (d.filter fun kv => decide (kv.1 ≠ k)) = if q = k then none else alookup q d := by
  induction d with
  | nil => simp
  | cons e t ih =>
    obtain ⟨k0, v0⟩ := e
    rw [List.filter_cons]
    by_cases h : k0 = k
    · subst h
      simp only [ne_eq, not_true_eq_false, decide_false, Bool.false_eq_true, if_false, ih, alookup_cons]
      by_cases h2 : q = k0
      · simp [h2]
      · have : ¬ k0 = q := fun e => h2 e.symm
        simp [h2, this]
    · simp only [ne_eq, h, not_false_eq_true, decide_true, if_true, alookup_cons, ih]
      by_cases h2 : k0 = q
      · subst h2; simp [h]
      · simp [h2]

theorem mem_akeys_filter_ne {κ β : Type} [DecidableEq κ] [DecidableEq β] (k q : κ) (d : List (κ × β)) :
    q ∈ akeys (d.filter fun kv => decide (kv.1 ≠ k)) ↔ q ∈ akeys d ∧ q ≠ k := by
  rw [← alookup_isSome_iff, ← alookup_isSome_iff, alookup_filter_ne]
  by_cases h : q = k <;> simp [h]

theorem nodup_akeys_filter {κ β : Type} (p : κ × β → Bool) (d : List (κ × β)) (h : (akeys d).Nodup) :
    (akeys (d.filter p)).Nodup := by
  unfold akeys at h ⊢
  exact List.Sublist.nodup (List.Sublist.map _ (List.filter_sublist)) h

theorem alookup_map_rename (pre ident : List α) (a : α) (path : List (α × List α)) :
    alookup a (path.map fun e => if e.2 = pre then (e.1, ident) else e) =
      (alookup a path).map fun t => if t = pre then ident else t := by
  induction path with
  | nil => rfl
  | cons e t ih =>
    obtain ⟨b, u⟩ := e
    simp only [List.map_cons, alookup_cons]
    by_cases hu : u = pre
    · simp only [hu, if_true, alookup_cons]
      by_cases hb : b = a <;> simp [hb, ih]
    · simp only [hu, if_false, alookup_cons]
      by_cases hb : b = a <;> simp [hb, hu, ih]

theorem akeys_map_rename (pre ident : List α) (path : List (α × List α)) :
    akeys (path.map fun e => if e.2 = pre then (e.1, ident) else e) = akeys path := by
  unfold akeys
  rw [List.map_map]
  apply List.map_congr_left
  intro e _
  simp only [Function.comp]
  split <;> rfl

theorem alookup_of_mem_nodup {κ β : Type} [DecidableEq κ] [DecidableEq β] {d : List (κ × β)}
    (h : (akeys d).Nodup) {k : κ} {v : β} (hm : (k, v) ∈ d) : alookup k d = some v := by
  cases hl : alookup k d with
  | none =>
    have := alookup_eq_none_iff.mp hl
    exact absurd (List.mem_map.mpr ⟨(k, v), hm, rfl⟩) this
  | some v' =>
    have := nodup_keys_unique h (alookup_some_mem hl) hm rfl
    rw [(Prod.mk.inj this).2]

/-- Signatures that are equal as `(bool, frozenset)` pairs give the same finality and the same
lookups (rows are dicts). -/
theorem sigEq_spec {a b : FLSig α} (h : sigEq a b = true) (ha : (akeys a.2).Nodup) (hb : (akeys b.2).Nodup) :
    a.1 = b.1 ∧ ∀ x, alookup x a.2 = alookup x b.2 := by
  unfold sigEq at h
  simp only [Bool.and_eq_true, beq_iff_eq, List.all_eq_true, decide_eq_true_eq] at h
  obtain ⟨⟨h1, h2⟩, h3⟩ := h
  refine ⟨h1, ?_⟩
  intro x
  cases hx : alookup x a.2 with
  | some t =>
    have := h2 (x, t) (alookup_some_mem hx)
    rw [alookup_of_mem_nodup hb this]
  | none =>
    cases hy : alookup x b.2 with
    | none => rfl
    | some t =>
      have := h3 (x, t) (alookup_some_mem hy)
      rw [alookup_of_mem_nodup ha this] at hx; cases hx

theorem sigGet_some {sig : FLSig α} {l : List (FLSig α × List α)} {v : List α}
    (h : sigGet sig l = some v) : ∃ e ∈ l, e.2 = v ∧ sigEq e.1 sig = true := by
  induction l with
  | nil => simp [sigGet] at h
  | cons e t ih =>
    obtain ⟨s, u⟩ := e
    unfold sigGet at h
    by_cases hs : sigEq s sig = true
    · simp only [hs, if_true, Option.some.injEq] at h
      exact ⟨(s, u), by simp, h, hs⟩
    · simp only [hs] at h
      obtain ⟨e, he, h1, h2⟩ := ih h
      exact ⟨e, List.mem_cons_of_mem _ he, h1, h2⟩

/-! ### one iteration of `compress` -/

theorem take_ne_take {l : List α} {i j : Nat} (hi : i ≤ l.length) (hj : j ≤ l.length) (h : i ≠ j) :
    l.take i ≠ l.take j := by
  intro e
  have := congrArg List.length e
  rw [List.length_take, List.length_take] at this
  omega

open Classical in
/-- Renaming of the ghost map when `pre` is replaced by `ident`. -/
noncomputable def renφ (pre ident : List α) (φ : List α → List α) (p : List α) : List α :=
  if φ p = pre then ident else φ p

theorem compressAt_inv {added : List (List α)} {cur : List α} {k : Nat} {s : FLState α}
    {φ : List α → List α} (inv : FLInv added cur (k + 1) s φ) (hadd : added ≠ []) :
    ∃ s' φ', flCompressAt s (cur.take (k + 1)) = .ok s' ∧ FLInv added cur k s' φ' ∧
      ((s'.trans = s.trans ∧ s'.finals = s.finals ∧ ∃ row, alookup (cur.take (k + 1)) s.trans = some row ∧
          sigGet (decide (cur.take (k + 1) ∈ s.finals), row) s.sigs = none ∧
          s'.sigs = s.sigs ++ [((decide (cur.take (k + 1) ∈ s.finals), row), cur.take (k + 1))]) ∨
       (s'.sigs = s.sigs ∧ ∀ q ∈ avals s.sigs,
          (∀ a, look s' q a = look s q a) ∧ (q ∈ s'.finals ↔ q ∈ s.finals))) := by
  have hk1 : k + 1 ≤ cur.length := inv.kle
  have hcur : cur ∈ added := inv.curTrie hadd
  have hin : ∀ i, InTrie added (cur.take i) := fun i => ⟨cur, hcur, List.take_prefix _ _⟩
  have hφpre : φ (cur.take (k + 1)) = cur.take (k + 1) := inv.active (k + 1) (Nat.le_refl _)
  have hprekey : cur.take (k + 1) ∈ akeys s.trans := by
    have := inv.dom _ (hin (k + 1)); rwa [hφpre] at this
  obtain ⟨row, hrow⟩ : ∃ row, alookup (cur.take (k + 1)) s.trans = some row := by
    have := alookup_isSome_iff.mpr hprekey
    cases h : alookup (cur.take (k + 1)) s.trans with
    | none => rw [h] at this; cases this
    | some r => exact ⟨r, rfl⟩
  have hpre_ne : ∀ i, i ≤ k → cur.take (k + 1) ≠ cur.take i := fun i hi =>
    take_ne_take hk1 (by omega) (by omega)
  have hpre_notreg : cur.take (k + 1) ∉ avals s.sigs := by
    intro h
    exact ((inv.regIff _).mp h).2 (k + 1) (Nat.le_refl _) rfl
  -- the children of pre are registered
  have hkids : ∀ a t, look s (cur.take (k + 1)) a = some t → t ∈ avals s.sigs := by
    intro a t ht
    rcases inv.activeKids (k + 1) (Nat.le_refl _) a t ht with ⟨h, _⟩ | h
    · omega
    · exact h
  unfold flCompressAt
  rw [hrow]
  simp only
  cases hsig : sigGet (decide (cur.take (k + 1) ∈ s.finals), row) s.sigs with
  | none =>
    -- register the state
    simp only
    refine ⟨_, φ, rfl, ?_, Or.inl ⟨rfl, rfl, row, rfl, hsig, rfl⟩⟩
    have hav : ∀ q, q ∈ avals (s.sigs ++ [((decide (cur.take (k + 1) ∈ s.finals), row), cur.take (k + 1))]) ↔
        q ∈ avals s.sigs ∨ q = cur.take (k + 1) := by
      intro q; simp [avals]
    refine
      { kle := by omega
        curTrie := inv.curTrie
        keysNodup := inv.keysNodup
        rowsNodup := inv.rowsNodup
        active := fun i hi => inv.active i (by omega)
        activeOnly := fun p hp i hi => inv.activeOnly p hp i (by omega)
        dom := inv.dom
        surj := inv.surj
        step := inv.step
        fin := inv.fin
        finKeys := inv.finKeys
        regIff := ?_
        sigOK := ?_
        regClosed := ?_
        activeKids := ?_
        backSup := inv.backSup
        backKeys := inv.backKeys
        backActive := fun i h1 hi => inv.backActive i h1 (by omega)
        namesT := inv.namesT
        namesB := inv.namesB
        rootBack := inv.rootBack }
    · intro q
      rw [hav, inv.regIff]
      constructor
      · rintro (⟨h1, h2⟩ | rfl)
        · exact ⟨h1, fun i hi => h2 i (by omega)⟩
        · exact ⟨hprekey, hpre_ne⟩
      · rintro ⟨h1, h2⟩
        by_cases hq : q = cur.take (k + 1)
        · exact Or.inr hq
        · left
          refine ⟨h1, ?_⟩
          intro i hi
          by_cases hik : i = k + 1
          · rw [hik]; exact hq
          · exact h2 i (by omega)
    · intro x hx
      rcases List.mem_append.mp hx with h | h
      · exact inv.sigOK x h
      · simp only [List.mem_singleton] at h
        subst h
        exact ⟨row, hrow, rfl⟩
    · intro q hq a t ht
      rw [hav] at hq ⊢
      rcases hq with hq | rfl
      · exact Or.inl (inv.regClosed q hq a t ht)
      · exact Or.inl (hkids a t ht)
    · intro i hi a t ht
      rw [hav]
      rcases inv.activeKids i (by omega) a t ht with ⟨h1, h2, h3⟩ | h
      · by_cases hik : i < k
        · exact Or.inl ⟨hik, h2, h3⟩
        · have : i = k := by omega
          subst this
          exact Or.inr (Or.inr h3)
      · exact Or.inr (Or.inl h)
  | some ident =>
    -- replace the state by the registered state with the same signature
    simp only
    obtain ⟨x, hx, hx2, hxeq⟩ := sigGet_some hsig
    obtain ⟨rowi, hrowi, hxsig⟩ := inv.sigOK x hx
    rw [hx2] at hrowi hxsig
    have hidreg : ident ∈ avals s.sigs := List.mem_map.mpr ⟨x, hx, hx2⟩
    obtain ⟨hidkey, hidne⟩ := (inv.regIff ident).mp hidreg
    have hid_pre : ident ≠ cur.take (k + 1) := hidne (k + 1) (Nat.le_refl _)
    have hid_par : ident ≠ cur.take k := hidne k (by omega)
    -- same finality, same lookups
    have hsame := sigEq_spec hxeq (by rw [hxsig]; exact inv.rowsNodup _ _ hrowi)
      (inv.rowsNodup _ _ hrow)
    rw [hxsig] at hsame
    simp only at hsame
    obtain ⟨hfinsame, hlooksame⟩ := hsame
    have hfin_iff : ident ∈ s.finals ↔ cur.take (k + 1) ∈ s.finals := by
      have := hfinsame
      simp only [decide_eq_decide] at this
      exact this
    -- the parent list
    have hback : alookup (cur.take (k + 1)) s.back = some [cur.take k] := by
      have := inv.backActive (k + 1) (by omega) (Nat.le_refl _)
      simpa using this
    rw [hback]
    simp only [flRedirectAll]
    -- the redirect
    have hpar_pre : cur.take k ≠ cur.take (k + 1) := take_ne_take (by omega) hk1 (by omega)
    have hφpar : φ (cur.take k) = cur.take k := inv.active k (by omega)
    have hparkey : cur.take k ∈ akeys s.trans := by
      have := inv.dom _ (hin k); rwa [hφpar] at this
    obtain ⟨path, hpath⟩ : ∃ path, alookup (cur.take k) s.trans = some path := by
      have := alookup_isSome_iff.mpr hparkey
      cases h : alookup (cur.take k) s.trans with
      | none => rw [h] at this; cases this
      | some r => exact ⟨r, rfl⟩
    obtain ⟨b, hb⟩ : ∃ b, alookup ident s.back = some b := by
      have := alookup_isSome_iff.mpr (inv.backKeys ident hidkey)
      cases h : alookup ident s.back with
      | none => rw [h] at this; cases this
      | some r => exact ⟨r, rfl⟩
    unfold flRedirect
    simp only
    rw [alookup_filter_ne, if_neg hpar_pre, hpath]
    simp only
    rw [hb]
    simp only
    refine ⟨_, renφ (cur.take (k + 1)) ident φ, rfl, ?_⟩
    -- lookups in the new state
    generalize hs' :
      ({ trans := ainsert (cur.take k)
                    (path.map fun e => if e.2 = cur.take (k + 1) then (e.1, ident) else e)
                    (s.trans.filter fun kv => decide (kv.1 ≠ cur.take (k + 1))),
         back := ainsert ident (sinsert (cur.take k) b) s.back,
         finals := s.finals.filter fun q => decide (q ≠ cur.take (k + 1)),
         sigs := s.sigs } : FLState α) = s'
    have htrans : ∀ q, alookup q s'.trans =
        if cur.take k = q then some (path.map fun e => if e.2 = cur.take (k + 1) then (e.1, ident) else e)
        else if q = cur.take (k + 1) then none else alookup q s.trans := by
      intro q; rw [← hs']; simp only; rw [alookup_ainsert, alookup_filter_ne]
    have hkeys : ∀ q, q ∈ akeys s'.trans ↔ q ∈ akeys s.trans ∧ q ≠ cur.take (k + 1) := by
      intro q
      rw [← hs']; simp only
      rw [mem_akeys_ainsert, mem_akeys_filter_ne]
      constructor
      · rintro (rfl | h)
        · exact ⟨hparkey, hpar_pre⟩
        · exact h
      · exact Or.inr
    let R : List α → List α := fun t => if t = cur.take (k + 1) then ident else t
    have hlook : ∀ q a, look s' q a =
        if q = cur.take k then (look s q a).map R
        else if q = cur.take (k + 1) then none else look s q a := by
      intro q a
      unfold look
      rw [htrans]
      by_cases h1 : cur.take k = q
      · subst h1
        simp only [if_true, Option.bind_some, alookup_map_rename, hpath]
        rfl
      · have h1' : ¬ q = cur.take k := fun e => h1 e.symm
        simp only [h1, if_false, h1']
        by_cases h2 : q = cur.take (k + 1) <;> simp [h2]
    have hfinals : ∀ q, q ∈ s'.finals ↔ q ∈ s.finals ∧ q ≠ cur.take (k + 1) := by
      intro q; rw [← hs']; simp
    have hsigs : s'.sigs = s.sigs := by rw [← hs']
    have hbackl : ∀ t, alookup t s'.back = if ident = t then some (sinsert (cur.take k) b) else alookup t s.back := by
      intro t; rw [← hs']; simp only; rw [alookup_ainsert]
    have hbackkeys : ∀ t, t ∈ akeys s'.back ↔ t ∈ akeys s.back := by
      intro t
      rw [← alookup_isSome_iff, ← alookup_isSome_iff, hbackl]
      by_cases h : ident = t
      · subst h; simp [hb]
      · simp [h]
    have hφ' : ∀ p, renφ (cur.take (k + 1)) ident φ p = R (φ p) := fun p => rfl
    have hR_ne : ∀ t, t ≠ cur.take (k + 1) → R t = t := by
      intro t ht; simp [R, ht]
    have hR_pre : R (cur.take (k + 1)) = ident := by simp [R]
    -- no state other than the parent points to pre
    have honly : ∀ q a, look s q a = some (cur.take (k + 1)) → q = cur.take k := by
      intro q a hq
      obtain ⟨b', hb', hqb⟩ := inv.backSup q a _ hq
      rw [hback] at hb'
      rw [← Option.some.inj hb'] at hqb
      simpa using hqb
    have hreg_ne : ∀ q, q ∈ avals s.sigs → q ≠ cur.take (k + 1) ∧ q ≠ cur.take k := by
      intro q hq
      have := ((inv.regIff q).mp hq).2
      exact ⟨this (k + 1) (Nat.le_refl _), this k (by omega)⟩
    have hfrozen : ∀ q ∈ avals s.sigs,
        (∀ a, look s' q a = look s q a) ∧ (q ∈ s'.finals ↔ q ∈ s.finals) := by
      intro q hq
      obtain ⟨hq1, hq2⟩ := hreg_ne q hq
      refine ⟨fun a => ?_, ?_⟩
      · rw [hlook]; simp only [hq2, if_false, hq1]
      · rw [hfinals]; simp [hq1]
    refine ⟨?_, Or.inr ⟨hsigs, hfrozen⟩⟩
    refine
      { kle := by omega
        curTrie := inv.curTrie
        keysNodup := ?_
        rowsNodup := ?_
        active := ?_
        activeOnly := ?_
        dom := ?_
        surj := ?_
        step := ?_
        fin := ?_
        finKeys := ?_
        regIff := ?_
        sigOK := ?_
        regClosed := ?_
        activeKids := ?_
        backSup := ?_
        backKeys := ?_
        backActive := ?_
        namesT := ?_
        namesB := ?_
        rootBack := (hbackkeys _).mpr inv.rootBack }
    · rw [← hs']; simp only
      exact nodup_akeys_ainsert (nodup_akeys_filter _ _ inv.keysNodup)
    · intro q r hq
      rw [htrans] at hq
      by_cases h1 : cur.take k = q
      · simp only [h1, if_true, Option.some.injEq] at hq
        rw [← hq, akeys_map_rename]
        exact inv.rowsNodup _ _ hpath
      · simp only [h1, if_false] at hq
        by_cases h2 : q = cur.take (k + 1)
        · simp [h2] at hq
        · simp only [h2, if_false] at hq
          exact inv.rowsNodup q r hq
    · intro i hi
      rw [hφ', inv.active i (by omega)]
      exact hR_ne _ (fun e => hpre_ne i hi e.symm)
    · intro p hp i hi h
      rw [hφ'] at h
      by_cases h1 : φ p = cur.take (k + 1)
      · rw [h1, hR_pre] at h
        exact absurd h (hidne i (by omega))
      · rw [hR_ne _ h1] at h
        exact inv.activeOnly p hp i (by omega) h
    · intro p hp
      rw [hφ', hkeys]
      by_cases h1 : φ p = cur.take (k + 1)
      · rw [h1, hR_pre]; exact ⟨hidkey, hid_pre⟩
      · rw [hR_ne _ h1]; exact ⟨inv.dom p hp, h1⟩
    · intro q hq
      obtain ⟨h1, h2⟩ := (hkeys q).mp hq
      obtain ⟨p, hp, hφ⟩ := inv.surj q h1
      refine ⟨p, hp, ?_⟩
      rw [hφ', hφ]; exact hR_ne _ h2
    · -- step
      intro p a hp
      rw [hφ', hφ', hlook]
      have hstep := inv.step p a hp
      by_cases h1 : φ p = cur.take (k + 1)
      · -- the merged state: read the row of ident, which equals the row of pre
        rw [h1, hR_pre]
        simp only [hid_par, if_false, hid_pre]
        have : look s ident a = look s (cur.take (k + 1)) a := by
          unfold look
          rw [hrowi, hrow]
          simp only [Option.bind_some]
          exact hlooksame a
        rw [this, ← h1, hstep]
        by_cases h2 : InTrie added (p ++ [a])
        · simp only [h2, if_true]
          have : φ (p ++ [a]) ≠ cur.take (k + 1) := by
            have hl : look s (cur.take (k + 1)) a = some (φ (p ++ [a])) := by
              rw [← h1, hstep]; simp [h2]
            exact (hreg_ne _ (hkids a _ hl)).1
          rw [hR_ne _ this]
        · simp [h2]
      · rw [hR_ne _ h1]
        by_cases h2 : φ p = cur.take k
        · simp only [h2, if_true]
          rw [← h2, hstep]
          by_cases h3 : InTrie added (p ++ [a]) <;> simp [h3]
        · simp only [h2, if_false, h1]
          rw [hstep]
          by_cases h3 : InTrie added (p ++ [a])
          · simp only [h3, if_true]
            have : φ (p ++ [a]) ≠ cur.take (k + 1) := by
              intro e
              have hl : look s (φ p) a = some (cur.take (k + 1)) := by
                rw [hstep]; simp [h3, e]
              exact h2 (honly _ _ hl)
            rw [hR_ne _ this]
          · simp [h3]
    · -- fin
      intro p hp
      rw [hφ', hfinals]
      by_cases h1 : φ p = cur.take (k + 1)
      · rw [h1, hR_pre]
        simp only [ne_eq, hid_pre, not_false_eq_true, and_true]
        rw [hfin_iff, ← h1]; exact inv.fin p hp
      · rw [hR_ne _ h1]
        simp only [ne_eq, h1, not_false_eq_true, and_true]
        exact inv.fin p hp
    · intro q hq
      obtain ⟨h1, h2⟩ := (hfinals q).mp hq
      exact (hkeys q).mpr ⟨inv.finKeys q h1, h2⟩
    · -- regIff
      intro q
      rw [hsigs, inv.regIff, hkeys]
      constructor
      · rintro ⟨h1, h2⟩
        exact ⟨⟨h1, h2 (k + 1) (Nat.le_refl _)⟩, fun i hi => h2 i (by omega)⟩
      · rintro ⟨⟨h1, h2⟩, h3⟩
        refine ⟨h1, ?_⟩
        intro i hi
        by_cases hik : i = k + 1
        · rw [hik]; exact h2
        · exact h3 i (by omega)
    · -- sigOK
      intro y hy
      rw [hsigs] at hy
      obtain ⟨r, hr, hs⟩ := inv.sigOK y hy
      have hyreg : y.2 ∈ avals s.sigs := List.mem_map.mpr ⟨y, hy, rfl⟩
      obtain ⟨hy1, hy2⟩ := hreg_ne _ hyreg
      refine ⟨r, ?_, ?_⟩
      · rw [htrans]
        have : ¬ cur.take k = y.2 := fun e => hy2 e.symm
        simp only [this, if_false, hy1]
        exact hr
      · rw [hs]
        have : (y.2 ∈ s'.finals) ↔ (y.2 ∈ s.finals) := by
          rw [hfinals]; simp [hy1]
        simp only [this]
    · -- regClosed
      intro q hq a t ht
      rw [hsigs] at hq ⊢
      obtain ⟨hq1, hq2⟩ := hreg_ne _ hq
      rw [hlook] at ht
      simp only [hq2, if_false, hq1] at ht
      exact inv.regClosed q hq a t ht
    · -- activeKids
      intro i hi a t ht
      rw [hsigs]
      rw [hlook] at ht
      by_cases hik : i = k
      · subst hik
        simp only [if_true] at ht
        cases h0 : look s (cur.take i) a with
        | none => rw [h0] at ht; cases ht
        | some t0 =>
          rw [h0] at ht
          simp only [Option.map_some, Option.some.injEq] at ht
          rcases inv.activeKids i (by omega) a t0 h0 with ⟨_, _, h3⟩ | h
          · right
            rw [← ht, h3, hR_pre]; exact hidreg
          · right
            rw [← ht, hR_ne _ (hreg_ne _ h).1]; exact h
      · have h1 : cur.take i ≠ cur.take k := take_ne_take (by omega) (by omega) hik
        have h2 : cur.take i ≠ cur.take (k + 1) := take_ne_take (by omega) hk1 (by omega)
        simp only [h1, if_false, h2] at ht
        rcases inv.activeKids i (by omega) a t ht with ⟨_, h4, h5⟩ | h
        · exact Or.inl ⟨by omega, h4, h5⟩
        · exact Or.inr h
    · -- backSup
      intro q a t ht
      rw [hlook] at ht
      have hgrow : ∀ t0 b0 x0, alookup t0 s.back = some b0 → x0 ∈ b0 →
          ∃ b', alookup t0 s'.back = some b' ∧ x0 ∈ b' := by
        intro t0 b0 x0 h1 h2
        rw [hbackl]
        by_cases h : ident = t0
        · subst h
          rw [hb] at h1
          rw [← Option.some.inj h1] at h2
          refine ⟨sinsert (cur.take k) b, by simp, ?_⟩
          rw [mem_sinsert]; exact Or.inr h2
        · simp only [h, if_false]; exact ⟨b0, h1, h2⟩
      by_cases hq : q = cur.take k
      · subst hq
        simp only [if_true] at ht
        cases h0 : look s (cur.take k) a with
        | none => rw [h0] at ht; cases ht
        | some t0 =>
          rw [h0] at ht
          simp only [Option.map_some, Option.some.injEq] at ht
          by_cases h1 : t0 = cur.take (k + 1)
          · rw [h1, hR_pre] at ht
            rw [← ht, hbackl]
            simp only [if_true]
            refine ⟨sinsert (cur.take k) b, rfl, ?_⟩
            rw [mem_sinsert]; exact Or.inl rfl
          · rw [hR_ne _ h1] at ht
            rw [← ht]
            obtain ⟨b0, hb0, hq0⟩ := inv.backSup _ a t0 h0
            exact hgrow t0 b0 _ hb0 hq0
      · simp only [hq, if_false] at ht
        by_cases hq2 : q = cur.take (k + 1)
        · simp [hq2] at ht
        · simp only [hq2, if_false] at ht
          obtain ⟨b0, hb0, hq0⟩ := inv.backSup q a t ht
          exact hgrow t b0 q hb0 hq0
    · intro q hq
      exact (hbackkeys q).mpr (inv.backKeys q ((hkeys q).mp hq).1)
    · intro i h1 hi
      rw [hbackl]
      have : ¬ ident = cur.take i := hidne i (by omega)
      simp only [this, if_false]
      exact inv.backActive i h1 (by omega)
    · intro q hq
      exact inv.namesT q ((hkeys q).mp hq).1
    · intro q hq
      exact inv.namesB q ((hbackkeys q).mp hq)

end AV.Ctor.FL
