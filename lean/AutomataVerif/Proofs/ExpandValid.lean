/-
Proofs/ExpandValid.lean — the DFA built by `_expand_dfa` passes `validate` and has the
shape of a value built from Python sets/dicts (core only).

The only delicate clause is completeness: `_expand_dfa` *infers* `allow_partial` as
"some row does not have `len(input_symbols)` entries".  When the flag comes out `False`
every row has as many (distinct) keys as the alphabet has symbols, all of them alphabet
symbols, so every symbol is a key (`subset_of_nodup_length_eq`).
-/
import AutomataVerif.Proofs.Product
import AutomataVerif.Proofs.PyShape

namespace AV
namespace C04
open DFA

set_option linter.unusedSectionVars false

variable {S α : Type} [DecidableEq S] [DecidableEq α]
variable {succ : S → List (α × S)} {univ : List S} {fuel : Nat} {init : S}

theorem akeys_map_self {β : Type} (f : S → β) (l : List S) :
    akeys (l.map fun s => (s, f s)) = l := by
  induction l with
  | nil => rfl
  | cons x t ih => simp only [akeys, List.map_cons, List.map_map] at ih ⊢; rw [ih]

theorem akeys_length {κ β : Type} (l : List (κ × β)) : (akeys l).length = l.length := by
  simp [akeys]

theorem mem_bfsStates_univ (h : ExpandHyp succ univ fuel init) {s : S}
    (hs : s ∈ bfsStates succ fuel init) : s ∈ univ :=
  reach_mem_univ h ((mem_bfsStates_iff h).mp hs)

/-- A row whose duplicate-free keys are alphabet symbols and which has as many entries as
the (duplicate-free) alphabet has a key for every symbol. -/
theorem row_full_of_length {r : List (α × S)} {syms : List α} (hnd : (akeys r).Nodup)
    (hsub : ∀ a ∈ akeys r, a ∈ syms) (hlen : r.length = syms.length) :
    ∀ a ∈ syms, a ∈ akeys r :=
  subset_of_nodup_length_eq hnd hsub (by rw [akeys_length]; exact hlen)

variable (isFin : S → Bool) (syms : List α)

/-- `_expand_dfa` returns a well-formed definition. -/
theorem expand_wf (h : ExpandHyp succ univ fuel init)
    (hk : ∀ u ∈ univ, ∀ a ∈ akeys (succ u), a ∈ syms) :
    (expand succ isFin syms fuel init).WF := by
  refine ⟨?_, ?_, ?_, ?_, ?_, ?_⟩
  · intro q hq
    simp only [expand] at hq ⊢
    rw [akeys_map_self]; exact hq
  · intro hp kv hkv
    simp only [expand] at hp hkv ⊢
    obtain ⟨s, hs, rfl⟩ := List.mem_map.mp hkv
    have hsu := mem_bfsStates_univ h hs
    have hlen : (succ s).length = syms.length := by
      rw [List.any_eq_false] at hp
      have := hp (s, succ s) hkv
      simpa using this
    exact row_full_of_length (h.keysNodup s hsu) (hk s hsu) hlen
  · intro kv hkv
    simp only [expand] at hkv ⊢
    obtain ⟨s, hs, rfl⟩ := List.mem_map.mp hkv
    exact hk s (mem_bfsStates_univ h hs)
  · intro kv hkv q hq
    simp only [expand] at hkv ⊢
    obtain ⟨s, hs, rfl⟩ := List.mem_map.mp hkv
    rw [mem_bfsStates_iff h] at hs ⊢
    exact Reach.tail hs hq
  · exact init_mem_bfsStates h
  · intro q hq
    simp only [expand] at hq ⊢
    exact (List.mem_filter.mp hq).1

/-- **`_expand_dfa` returns a valid DFA.** -/
theorem expand_valid (h : ExpandHyp succ univ fuel init)
    (hk : ∀ u ∈ univ, ∀ a ∈ akeys (succ u), a ∈ syms) :
    (expand succ isFin syms fuel init).validate = .ok () :=
  (validate_eq_ok _).mpr (expand_wf isFin syms h hk)

/-- The result of `_expand_dfa` is duplicate-free everywhere (as a Python value must be). -/
theorem expand_pyShape (h : ExpandHyp succ univ fuel init) (hs : syms.Nodup) :
    (expand succ isFin syms fuel init).PyShape := by
  refine ⟨?_, hs, ?_, ?_, ?_⟩
  · exact nodup_bfsStates h
  · simp only [expand]
    exact List.Nodup.sublist List.filter_sublist (nodup_bfsStates h)
  · simp only [expand]
    rw [akeys_map_self]; exact nodup_bfsStates h
  · intro kv hkv
    simp only [expand] at hkv
    obtain ⟨s, hs', rfl⟩ := List.mem_map.mp hkv
    exact h.keysNodup s (mem_bfsStates_univ h hs')

/-- In an expanded DFA the row keys are exactly the states. -/
theorem expand_keys_eq_states : akeys (expand succ isFin syms fuel init).trans =
    (expand succ isFin syms fuel init).states := by
  simp only [expand]; rw [akeys_map_self]

@[simp] theorem expand_syms : (expand succ isFin syms fuel init).syms = syms := rfl

/-! ### the product instance -/

section product
variable {σ : Type} [DecidableEq σ]

theorem row_keys_sub_syms {d : DFA σ α} (wf : d.WF) (q : σ) : ∀ a ∈ akeys (d.row q), a ∈ d.syms := by
  unfold row
  cases hr : d.row? q with
  | none => intro a ha; simp [akeys] at ha
  | some r => exact wf.symsOk (q, r) (alookup_some_mem hr)

theorem sideRow_keys_sub_syms {d : DFA σ α} (wf : d.WF) (x : Option σ) :
    ∀ a ∈ akeys (d.sideRow x), a ∈ d.syms := by
  cases x with
  | none => intro a ha; simp [sideRow, akeys] at ha
  | some q => exact row_keys_sub_syms wf q

theorem symsEq_iff (A B : DFA σ α) :
    A.symsEq B = true ↔ (∀ a, a ∈ A.syms ↔ a ∈ B.syms) := by
  unfold symsEq
  simp only [Bool.and_eq_true, List.all_eq_true, decide_eq_true_eq]
  constructor
  · rintro ⟨h1, h2⟩ a; exact ⟨h1 a, h2 a⟩
  · intro h; exact ⟨fun a => (h a).mp, fun a => (h a).mpr⟩

theorem crossSucc_keys_sub_syms {A B : DFA σ α} (wfA : A.WF) (wfB : B.WF)
    (hs : A.symsEq B = true) (l r : Bool) (s : PState σ) :
    ∀ a ∈ akeys (A.crossSucc B l r s), a ∈ A.syms := by
  intro a ha
  rcases crossSucc_keys_sub A B l r s ha with h | h
  · exact sideRow_keys_sub_syms wfA _ a h
  · exact ((symsEq_iff A B).mp hs a).mpr (sideRow_keys_sub_syms wfB _ a h)

end product

end C04
end AV
