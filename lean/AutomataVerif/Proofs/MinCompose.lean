/-
Proofs/MinCompose.lean — the `minify=True` paths of C04 call `_minify` (`minifyCore`):
`binopMin`, `complementMin`, `toPartialMin` (core only).

This file proves the *caller side* of each call:
* the arguments satisfy the preconditions of `_minify` (`MinHyp`, duplicate-free rows,
  every kept state reachable inside the refinement system) — `MinifyCall`;
* the language of the refinement system `(mdelta, mfin)` started at `init` — the thing
  `minifyCore_accepts` (Proofs/MinQuotient.lean, C05) says the result accepts — is the
  intended language (set operation / complement / unchanged).

The *callee side* (`minifyCore` is valid, duplicate-free and accepts the language of the
refinement system, for a correct Hopcroft partition) is `MinifyCoreOk`, proved for C05.
-/
import AutomataVerif.Proofs.MinifySpec
import AutomataVerif.Proofs.Partial

namespace AV
namespace C04
open DFA

set_option linter.unusedSectionVars false

variable {σ α : Type} [DecidableEq σ] [DecidableEq α]

/-- What the caller of `_minify` must guarantee. -/
structure MinifyCall (kept : List σ) (syms : List α) (trans : List (σ × List (α × σ))) (init : σ)
    (finals : List σ) : Prop where
  minHyp : MinHyp kept syms trans init finals
  rows_nodup : ∀ q r, alookup q trans = some r → (akeys r).Nodup
  reach : ∀ q ∈ kept, ∃ w, mrun kept trans (some init) w = some q

/-- What `_minify` guarantees in return (C05: `minifyCore_accepts`, `minifyCore_wf`,
`minifyCore_pyShape`). -/
structure MinifyCoreOk (kept : List σ) (syms : List α) (trans : List (σ × List (α × σ))) (init : σ)
    (finals : List σ) (pick : List Nat → Nat) : Prop where
  valid : (minifyCore kept syms trans init finals pick).validate = .ok ()
  pyShape : (minifyCore kept syms trans init finals pick).PyShape
  accepts : ∀ w, (minifyCore kept syms trans init finals pick).accepts w =
    mfin finals (mrun kept trans (some init) w)

/-- C05's guarantee for every admissible call of `_minify` (to be discharged by
`minifyCore_accepts` / `minifyCore_wf` / `minifyCore_pyShape` + `hopcroft_correct`). -/
def MinifyGuarantee : Prop :=
  ∀ (σ α : Type) [DecidableEq σ] [DecidableEq α] (kept : List σ) (syms : List α)
    (trans : List (σ × List (α × σ))) (init : σ) (finals : List σ) (pick : List Nat → Nat),
    MinifyCall kept syms trans init finals → MinifyCoreOk kept syms trans init finals pick

theorem minifyCore_syms (kept : List σ) (syms : List α) (trans : List (σ × List (α × σ))) (init : σ)
    (finals : List σ) (pick : List Nat → Nat) :
    (minifyCore kept syms trans init finals pick).syms = syms := by
  unfold minifyCore
  simp only []
  split <;> rfl

/-! ### the refinement system seen from the DFA -/

@[simp] theorem mrun_nil (kept : List σ) (trans : List (σ × List (α × σ))) (s : Option σ) :
    mrun kept trans s [] = s := rfl

@[simp] theorem mrun_cons (kept : List σ) (trans : List (σ × List (α × σ))) (s : Option σ) (a : α)
    (w : List α) : mrun kept trans s (a :: w) = mrun kept trans (mdelta kept trans s a) w := rfl

theorem mrun_append (kept : List σ) (trans : List (σ × List (α × σ))) (s : Option σ) (u v : List α) :
    mrun kept trans s (u ++ v) = mrun kept trans (mrun kept trans s u) v := by
  simp [mrun, List.foldl_append]

@[simp] theorem mrun_none (kept : List σ) (trans : List (σ × List (α × σ))) (w : List α) :
    mrun kept trans none w = none := by
  induction w with
  | nil => rfl
  | cons a w ih => simpa [mdelta] using ih

/-- One step of the refinement system = one step of the DFA, cut to the kept states. -/
theorem mdelta_eq (kept : List σ) (d : DFA σ α) (s : Option σ) (a : α) :
    mdelta kept d.trans s a = (d.step? s a).filter fun t => decide (t ∈ kept) := by
  cases s with
  | none => rfl
  | some q =>
    simp only [mdelta, step?, row, row?]
    cases alookup a ((alookup q d.trans).getD []) with
    | none => rfl
    | some t => by_cases h : t ∈ kept <;> simp [h, Option.filter]

/-- When the kept states are closed under the transitions, the refinement system runs like
the DFA. -/
theorem mrun_eq_run {kept : List σ} {d : DFA σ α}
    (hcl : ∀ q ∈ kept, ∀ a t, d.step? (some q) a = some t → t ∈ kept) (w : List α) :
    ∀ s : Option σ, (∀ q, s = some q → q ∈ kept) →
      mrun kept d.trans s w = d.run s w ∧ ∀ q, d.run s w = some q → q ∈ kept := by
  induction w with
  | nil => intro s hs; exact ⟨rfl, hs⟩
  | cons a w ih =>
    intro s hs
    rw [mrun_cons, run_cons, mdelta_eq]
    cases s with
    | none => simp [step?]
    | some q =>
      cases hst : d.step? (some q) a with
      | none => simp
      | some t =>
        have ht : t ∈ kept := hcl q (hs q rfl) a t hst
        simp only [Option.filter_some, ht, decide_true, if_true]
        exact ih (some t) (fun q' e => by cases e; exact ht)

theorem mfin_eq_isFinal (d : DFA σ α) (s : Option σ) : mfin d.finals s = d.isFinal s := by
  cases s <;> rfl

theorem rows_nodup_of_pyShape {d : DFA σ α} (p : d.PyShape) :
    ∀ q r, alookup q d.trans = some r → (akeys r).Nodup :=
  fun q r h => p.rows_nodup (q, r) (alookup_some_mem h)

theorem keys_of_wf {d : DFA σ α} (wf : d.WF) :
    ∀ q r, alookup q d.trans = some r → ∀ a ∈ akeys r, a ∈ d.syms :=
  fun q r h => wf.symsOk (q, r) (alookup_some_mem h)

/-! ### `_minify` on all states of a valid DFA whose states are reachable (`binopMin`) -/

/-- A valid duplicate-free DFA offers `_minify` admissible arguments (kept = all states). -/
theorem minHyp_of_valid {d : DFA σ α} (wf : d.WF) (p : d.PyShape) :
    MinHyp d.states d.syms d.trans d.init d.finals :=
  ⟨p.states_nodup, p.syms_nodup, wf.initOk, wf.finalsOk, wf.rows, keys_of_wf wf⟩

theorem states_closed {d : DFA σ α} (wf : d.WF) :
    ∀ q ∈ d.states, ∀ a t, d.step? (some q) a = some t → t ∈ d.states :=
  fun _ _ _ _ h => step?_mem wf h

/-- With kept = all states the refinement system accepts exactly the language of the DFA. -/
theorem msys_accepts_of_valid {d : DFA σ α} (wf : d.WF) (w : List α) :
    mfin d.finals (mrun d.states d.trans (some d.init) w) = d.accepts w := by
  rw [(mrun_eq_run (states_closed wf) w (some d.init) (fun q e => by cases e; exact wf.initOk)).1,
    mfin_eq_isFinal]
  rfl

theorem minifyCall_of_valid {d : DFA σ α} (wf : d.WF) (p : d.PyShape)
    (hreach : ∀ q ∈ d.states, ∃ w, d.run (some d.init) w = some q) :
    MinifyCall d.states d.syms d.trans d.init d.finals := by
  refine ⟨minHyp_of_valid wf p, rows_nodup_of_pyShape p, ?_⟩
  intro q hq
  obtain ⟨w, hw⟩ := hreach q hq
  refine ⟨w, ?_⟩
  rw [(mrun_eq_run (states_closed wf) w (some d.init) (fun q e => by cases e; exact wf.initOk)).1]
  exact hw

/-- Every state of an expanded DFA is reached by a word *in the expanded DFA*. -/
theorem expand_reach {S : Type} [DecidableEq S] {succ : S → List (α × S)} {univ : List S}
    {fuel : Nat} {init : S} (isFin : S → Bool) (syms : List α) (h : ExpandHyp succ univ fuel init) :
    ∀ q ∈ (expand succ isFin syms fuel init).states,
      ∃ w, (expand succ isFin syms fuel init).run (some (expand succ isFin syms fuel init).init) w =
        some q := by
  intro q hq
  obtain ⟨w, hw⟩ := expand_states_reachable isFin syms h hq
  exact ⟨w, ((expand_run isFin syms h w).1).trans hw⟩

/-! ### `complement(minify=True)` -/

section complementMin
variable {c : DFA σ α}

/-- `_bfs_states(initial_state, lambda state: transitions[state].items())`. -/
def _root_.AV.DFA.reachStates (c : DFA σ α) : List σ :=
  bfsStates (fun q => c.row q) (c.graphNodes.length + 1) c.init

theorem reach_expandHyp (wf : c.WF) (p : c.PyShape) :
    ExpandHyp (fun q => c.row q) c.graphNodes (c.graphNodes.length + 1) c.init :=
  ⟨mem_graphNodes.mpr (Or.inl wf.initOk),
    fun u hu e he => succStates_closed c u hu e.2 (List.mem_map.mpr ⟨e, he, rfl⟩),
    fun u _ => p.row_nodup u, Nat.lt_succ_self _⟩

theorem reachStates_closed (wf : c.WF) (p : c.PyShape) :
    ∀ q ∈ c.reachStates, ∀ a t, c.step? (some q) a = some t → t ∈ c.reachStates :=
  fun _ hq _ _ h => bfsStates_closed (reach_expandHyp wf p) hq h

theorem reachStates_sub_states (wf : c.WF) (p : c.PyShape) {q : σ} (hq : q ∈ c.reachStates) :
    q ∈ c.states := by
  have hr := (mem_bfsStates_iff (reach_expandHyp wf p)).mp hq
  exact accessible_sub_states wf ((mem_accessible_iff wf).mpr hr)

theorem implRun_row (s : Option σ) (w : List α) : implRun (fun q => c.row q) s w = c.run s w := by
  induction w generalizing s with
  | nil => rfl
  | cons a w ih =>
    rw [implRun_cons, run_cons]
    cases s with
    | none => exact ih none
    | some q => exact ih _

theorem complementMin_call (wf : c.WF) (p : c.PyShape) :
    MinifyCall c.reachStates c.syms c.trans c.init
      (c.reachStates.filter fun q => decide (q ∉ c.finals)) := by
  have hyp := reach_expandHyp wf p
  refine ⟨⟨nodup_bfsStates hyp, p.syms_nodup, init_mem_bfsStates hyp,
    fun q hq => (List.mem_filter.mp hq).1, fun q hq => wf.rows q (reachStates_sub_states wf p hq),
    keys_of_wf wf⟩, rows_nodup_of_pyShape p, ?_⟩
  intro q hq
  have hq' : q ∈ (expand (fun q => c.row q) (fun _ => false) c.syms (c.graphNodes.length + 1) c.init).states :=
    hq
  obtain ⟨w, hw⟩ := expand_states_reachable _ _ hyp hq'
  refine ⟨w, ?_⟩
  rw [(mrun_eq_run (reachStates_closed wf p) w (some c.init)
    (fun q e => by cases e; exact init_mem_bfsStates hyp)).1, ← implRun_row]
  exact hw

/-- The refinement system of `complement(minify=True)` accepts the complement relative to
the alphabet. -/
theorem complementMin_sys (wf : c.WF) (p : c.PyShape) (hc : c.IsComplete) (w : List α) :
    mfin (c.reachStates.filter fun q => decide (q ∉ c.finals))
        (mrun c.reachStates c.trans (some c.init) w) =
      ((w.all fun a => decide (a ∈ c.syms)) && !c.accepts w) := by
  have hyp := reach_expandHyp wf p
  obtain ⟨h1, h2⟩ := mrun_eq_run (reachStates_closed wf p) w (some c.init)
    (fun q e => by cases e; exact init_mem_bfsStates hyp)
  rw [h1]
  unfold accepts
  cases hw : (w.all fun a => decide (a ∈ c.syms)) with
  | false => rw [run_not_over wf w _ hw]; rfl
  | true =>
    obtain ⟨q', hr, _⟩ := run_over wf hc w c.init wf.initOk hw
    have hk : q' ∈ c.reachStates := h2 q' hr
    rw [hr]
    simp only [mfin, isFinal, List.mem_filter, hk, true_and, Bool.true_and]
    by_cases hf : q' ∈ c.finals <;> simp [hf]

theorem complementMin_eq (pick : List Nat → Nat) :
    c.complementMin pick = minifyCore c.reachStates c.syms c.trans c.init
      (c.reachStates.filter fun q => decide (q ∉ c.finals)) pick := rfl

end complementMin

-- `DFA.complementMinFull` (`complement(minify=True)` as the code composes it) is defined in
-- Model/DFAComplement.lean: the driver command DFA_COMPLEMENT executes that very definition.

/-! ### `to_partial(minify=True)` -/

section toPartialMin
variable {d : DFA σ α}

theorem toPartialMin_eq (pick : List Nat → Nat) :
    d.toPartialMin pick = minifyCore d.partialStates d.syms d.trans d.init
      (d.finals.filter fun q => decide (q ∈ d.partialStates)) pick := rfl

theorem mem_succStates_step? (p : d.PyShape) {q t : σ} (h : t ∈ d.succStates q) :
    ∃ a, d.step? (some q) a = some t := by
  obtain ⟨e, he, rfl⟩ := List.mem_map.mp h
  exact ⟨e.1, alookup_of_mem_nodup (p.row_nodup q) he⟩

/-- Every accessible co-accessible state is reached inside the refinement system (all
states on the way are co-accessible too, hence kept). -/
theorem partial_sys_reach (wf : d.WF) (p : d.PyShape) {q : σ} (hr : Reach d.succStates d.init q) :
    q ∈ d.coaccessible → ∃ w, mrun d.partialStates d.trans (some d.init) w = some q := by
  induction hr with
  | refl => intro _; exact ⟨[], rfl⟩
  | @tail b c hb hc ih =>
    intro hco
    obtain ⟨a, ha⟩ := mem_succStates_step? p hc
    have hbco : b ∈ d.coaccessible := coaccessible_step wf hco ha
    obtain ⟨w, hw⟩ := ih hbco
    have hck : c ∈ d.partialStates :=
      mem_partialStates.mpr (Or.inr ⟨(mem_accessible_iff wf).mpr (Reach.tail hb hc), hco⟩)
    refine ⟨w ++ [a], ?_⟩
    rw [mrun_append, hw, mrun_cons, mrun_nil, mdelta_eq, ha]
    simp [hck]

theorem toPartialMin_call (wf : d.WF) (p : d.PyShape) :
    MinifyCall d.partialStates d.syms d.trans d.init
      (d.finals.filter fun q => decide (q ∈ d.partialStates)) := by
  refine ⟨⟨nodup_partialStates wf, p.syms_nodup, mem_partialStates.mpr (Or.inl rfl),
    fun q hq => of_decide_eq_true (List.mem_filter.mp hq).2,
    fun q hq => wf.rows q (accessible_sub_states wf (partialStates_accessible wf hq)),
    keys_of_wf wf⟩, rows_nodup_of_pyShape p, ?_⟩
  intro q hq
  rcases mem_partialStates.mp hq with rfl | ⟨h1, h2⟩
  · exact ⟨[], rfl⟩
  · exact partial_sys_reach wf p ((mem_accessible_iff wf).mp h1) h2

/-- The refinement system of `to_partial(minify=True)` accepts the language of `d`. -/
theorem toPartialMin_sys_from (wf : d.WF) (w : List α) :
    ∀ q, q ∈ d.partialStates →
      mfin (d.finals.filter fun q => decide (q ∈ d.partialStates))
          (mrun d.partialStates d.trans (some q) w) = d.isFinal (d.run (some q) w) := by
  induction w with
  | nil =>
    intro q hq
    simp only [mrun_nil, run_nil, mfin, isFinal, List.mem_filter, hq, decide_true, and_true]
  | cons a w ih =>
    intro q hq
    rw [mrun_cons, run_cons, mdelta_eq]
    cases hs : d.step? (some q) a with
    | none => simp [isFinal, mfin]
    | some t =>
      by_cases ht : t ∈ d.partialStates
      · simp only [Option.filter_some, ht, decide_true, if_true]
        exact ih t ht
      · have hco : t ∉ d.coaccessible := fun h => ht (partialStates_step wf hq hs h)
        simp only [Option.filter_some, ht, decide_false, Bool.false_eq_true, if_false, mrun_none]
        rw [not_final_of_not_coaccessible wf hco]; rfl

theorem toPartialMin_sys (wf : d.WF) (w : List α) :
    mfin (d.finals.filter fun q => decide (q ∈ d.partialStates))
        (mrun d.partialStates d.trans (some d.init) w) = d.accepts w :=
  toPartialMin_sys_from wf w d.init (mem_partialStates.mpr (Or.inl rfl))

end toPartialMin

end C04
end AV
