/-
Proofs/Partial.lean — `to_partial(minify=False)` (core only).

`coaccessible` is co-reachability (a state from which some final state can be reached);
a run that enters a state outside it can never be accepted, and a run that stays among
the kept states is mirrored step by step by the pruned DFA.
-/
import AutomataVerif.Proofs.Complete

namespace AV
namespace C04
open DFA

set_option linter.unusedSectionVars false

variable {κ β σ α : Type} [DecidableEq κ] [DecidableEq β] [DecidableEq σ] [DecidableEq α]

/-- Filtering a dict by a predicate on keys. -/
theorem alookup_filter_key (p : κ → Bool) (l : List (κ × β)) (k : κ) :
    alookup k (l.filter fun kv => p kv.1) = if p k = true then alookup k l else none := by
  induction l with
  | nil => simp
  | cons kv t ih =>
    obtain ⟨k', v⟩ := kv
    simp only [List.filter_cons]
    by_cases hk : k' = k
    · subst hk
      cases hp : p k' <;> simp [alookup_cons, ih, hp]
    · cases hp : p k'
      · simp only [Bool.false_eq_true, if_false, ih, alookup_cons, hk]
      · simp only [if_true, alookup_cons, hk, if_false, ih]

/-- Filtering a dict with distinct keys by a predicate on values. -/
theorem alookup_filter_val (P : β → Bool) {r : List (κ × β)} (hnd : (akeys r).Nodup) (a : κ) :
    alookup a (r.filter fun e => P e.2) = (alookup a r).filter P := by
  induction r with
  | nil => rfl
  | cons e t ih =>
    obtain ⟨a', v⟩ := e
    simp only [akeys, List.map_cons, List.nodup_cons] at hnd
    simp only [List.filter_cons]
    by_cases ha : a' = a
    · subst ha
      cases hP : P v
      · simp only [Bool.false_eq_true, if_false, alookup_cons, if_true, Option.filter_some, hP]
        have hnot : a' ∉ akeys (t.filter fun e => P e.2) := by
          intro hm
          obtain ⟨e, he, rfl⟩ := List.mem_map.mp hm
          exact hnd.1 (List.mem_map.mpr ⟨e, (List.mem_filter.mp he).1, rfl⟩)
        cases hl : alookup a' (t.filter fun e => P e.2) with
        | none => rfl
        | some v' => exact absurd (alookup_some_key_mem hl) hnot
      · simp [alookup_cons, Option.filter, hP]
    · cases hP : P v
      · simp only [Bool.false_eq_true, if_false, alookup_cons, ha]; exact ih hnd.2
      · simp only [if_true, alookup_cons, ha, if_false]; exact ih hnd.2

theorem akeys_filter_sublist (p : κ × β → Bool) (l : List (κ × β)) :
    (akeys (l.filter p)).Sublist (akeys l) :=
  List.Sublist.map _ List.filter_sublist


/-! ### the digraph: reachability and co-reachability -/

theorem mem_graphNodes {d : DFA σ α} {q : σ} :
    q ∈ d.graphNodes ↔ q ∈ d.states ∨ q ∈ akeys d.trans ∨ ∃ kv ∈ d.trans, q ∈ avals kv.2 := by
  unfold graphNodes
  rw [mem_dedup, List.mem_append, List.mem_append, List.mem_flatMap, or_assoc]

theorem succStates_closed (d : DFA σ α) : ∀ u ∈ d.graphNodes, ∀ v ∈ d.succStates u, v ∈ d.graphNodes := by
  intro u _ v hv
  unfold succStates row at hv
  cases hr : d.row? u with
  | none => simp [hr, avals] at hv
  | some r =>
    simp only [hr, Option.getD_some] at hv
    exact mem_graphNodes.mpr (Or.inr (Or.inr ⟨(u, r), alookup_some_mem hr, hv⟩))

theorem predStates_closed (d : DFA σ α) : ∀ u ∈ d.graphNodes, ∀ v ∈ d.predStates u, v ∈ d.graphNodes := by
  intro u _ v hv
  unfold predStates at hv
  obtain ⟨kv, hkv, rfl⟩ := List.mem_map.mp hv
  exact mem_graphNodes.mpr (Or.inr (Or.inl (List.mem_map.mpr ⟨kv, (List.mem_filter.mp hkv).1, rfl⟩)))

theorem mem_accessible_iff {d : DFA σ α} (wf : d.WF) {q : σ} :
    q ∈ d.accessible ↔ Reach d.succStates d.init q := by
  unfold accessible
  rw [mem_bfs_iff d.succStates (univ := d.graphNodes) (srcs := [d.init])]
  · simp
  · intro s hs; simp at hs; subst hs; exact mem_graphNodes.mpr (Or.inl wf.initOk)
  · exact succStates_closed d

theorem nodup_accessible {d : DFA σ α} (wf : d.WF) : d.accessible.Nodup := by
  unfold accessible
  refine nodup_bfs d.succStates (univ := d.graphNodes) (srcs := [d.init]) ?_ (succStates_closed d)
  intro s hs; simp at hs; subst hs; exact mem_graphNodes.mpr (Or.inl wf.initOk)

theorem mem_coaccessible_iff {d : DFA σ α} (wf : d.WF) {q : σ} :
    q ∈ d.coaccessible ↔ ∃ f ∈ d.finals, Reach d.predStates f q := by
  unfold coaccessible
  rw [mem_bfs_iff d.predStates (univ := d.graphNodes) (srcs := d.finals)]
  · intro s hs; exact mem_graphNodes.mpr (Or.inl (wf.finalsOk s hs))
  · exact predStates_closed d

theorem init_mem_accessible {d : DFA σ α} (wf : d.WF) : d.init ∈ d.accessible :=
  (mem_accessible_iff wf).mpr (Reach.refl _)

theorem step?_mem_succStates {d : DFA σ α} {q t : σ} {a : α} (h : d.step? (some q) a = some t) :
    t ∈ d.succStates q := alookup_some_val_mem h

theorem step?_mem_predStates {d : DFA σ α} {q t : σ} {a : α} (h : d.step? (some q) a = some t) :
    q ∈ d.predStates t := by
  simp only [step?, row] at h
  cases hr : d.row? q with
  | none => simp [hr] at h
  | some r =>
    simp only [hr, Option.getD_some] at h
    unfold predStates
    refine List.mem_map.mpr ⟨(q, r), List.mem_filter.mpr ⟨alookup_some_mem hr, ?_⟩, rfl⟩
    simpa using alookup_some_val_mem h

theorem accessible_step {d : DFA σ α} (wf : d.WF) {q t : σ} {a : α} (hq : q ∈ d.accessible)
    (h : d.step? (some q) a = some t) : t ∈ d.accessible := by
  rw [mem_accessible_iff wf] at hq ⊢
  exact Reach.tail hq (step?_mem_succStates h)

theorem accessible_sub_states {d : DFA σ α} (wf : d.WF) {q : σ} (hq : q ∈ d.accessible) :
    q ∈ d.states := by
  rw [mem_accessible_iff wf] at hq
  induction hq with
  | refl => exact wf.initOk
  | @tail b c _ hc _ =>
    unfold succStates row at hc
    cases hr : d.row? b with
    | none => simp [hr, avals] at hc
    | some r =>
      simp only [hr, Option.getD_some] at hc
      exact wf.tgtOk (b, r) (alookup_some_mem hr) c hc

theorem coaccessible_step {d : DFA σ α} (wf : d.WF) {q t : σ} {a : α} (ht : t ∈ d.coaccessible)
    (h : d.step? (some q) a = some t) : q ∈ d.coaccessible := by
  rw [mem_coaccessible_iff wf] at ht ⊢
  obtain ⟨f, hf, hr⟩ := ht
  exact ⟨f, hf, Reach.tail hr (step?_mem_predStates h)⟩

/-- A state from which some word is accepted is co-accessible. -/
theorem coaccessible_of_final_run {d : DFA σ α} (wf : d.WF) (w : List α) :
    ∀ t, d.isFinal (d.run (some t) w) = true → t ∈ d.coaccessible := by
  induction w with
  | nil =>
    intro t h
    simp only [run_nil, isFinal, decide_eq_true_eq] at h
    exact (mem_coaccessible_iff wf).mpr ⟨t, h, Reach.refl _⟩
  | cons a w ih =>
    intro t h
    rw [run_cons] at h
    cases hs : d.step? (some t) a with
    | none => rw [hs, run_none] at h; simp [isFinal] at h
    | some t' =>
      rw [hs] at h
      exact coaccessible_step wf (ih t' h) hs

/-- A run that enters a state which is not co-accessible is never accepted. -/
theorem not_final_of_not_coaccessible {d : DFA σ α} (wf : d.WF) {t : σ} (ht : t ∉ d.coaccessible)
    (w : List α) : d.isFinal (d.run (some t) w) = false := by
  cases h : d.isFinal (d.run (some t) w) with
  | false => rfl
  | true => exact absurd (coaccessible_of_final_run wf w t h) ht

/-! ### the kept states of `to_partial` -/

/-- `new_states = (live_states & non_trap_states) | {initial_state}`. -/
def _root_.AV.DFA.partialStates (d : DFA σ α) : List σ :=
  sinsert d.init (d.accessible.filter fun q => decide (q ∈ d.coaccessible))

theorem toPartialPlain_states (d : DFA σ α) : d.toPartialPlain.states = d.partialStates := rfl

theorem mem_partialStates {d : DFA σ α} {q : σ} :
    q ∈ d.partialStates ↔ q = d.init ∨ (q ∈ d.accessible ∧ q ∈ d.coaccessible) := by
  unfold partialStates
  rw [mem_sinsert, List.mem_filter, decide_eq_true_eq]

theorem partialStates_accessible {d : DFA σ α} (wf : d.WF) {q : σ} (hq : q ∈ d.partialStates) :
    q ∈ d.accessible := by
  rcases mem_partialStates.mp hq with rfl | ⟨h, _⟩
  · exact init_mem_accessible wf
  · exact h

theorem nodup_partialStates {d : DFA σ α} (wf : d.WF) : d.partialStates.Nodup :=
  nodup_sinsert (List.Nodup.sublist List.filter_sublist (nodup_accessible wf))

/-- The successor of a kept state is kept as soon as it is co-accessible. -/
theorem partialStates_step {d : DFA σ α} (wf : d.WF) {q t : σ} {a : α} (hq : q ∈ d.partialStates)
    (h : d.step? (some q) a = some t) (ht : t ∈ d.coaccessible) : t ∈ d.partialStates :=
  mem_partialStates.mpr (Or.inr ⟨accessible_step wf (partialStates_accessible wf hq) h, ht⟩)

/-! ### `to_partial(minify=False)` -/

section toPartial
variable {d : DFA σ α}

theorem toPartialPlain_row {q : σ} (hq : q ∈ d.partialStates) :
    d.toPartialPlain.row q = (d.row q).filter fun e => decide (e.2 ∈ d.coaccessible) := by
  have h1 : d.toPartialPlain.row? q =
      (alookup q d.trans).map fun r => r.filter fun e => decide (e.2 ∈ d.coaccessible) := by
    simp only [row?, toPartialPlain]
    rw [alookup_map_val (fun r : List (α × σ) => r.filter fun e => decide (e.2 ∈ d.coaccessible))]
    rw [alookup_filter_key (fun k => decide (k ∈ sinsert d.init
      (d.accessible.filter fun q => decide (q ∈ d.coaccessible))))]
    have : q ∈ sinsert d.init (d.accessible.filter fun q => decide (q ∈ d.coaccessible)) := hq
    simp [this]
  unfold row
  rw [h1]
  unfold row?
  cases alookup q d.trans <;> rfl

theorem toPartialPlain_step? (p : d.PyShape) {q : σ} (hq : q ∈ d.partialStates) (a : α) :
    d.toPartialPlain.step? (some q) a =
      (d.step? (some q) a).filter fun t => decide (t ∈ d.coaccessible) := by
  simp only [step?]
  rw [toPartialPlain_row hq]
  exact alookup_filter_val (fun t => decide (t ∈ d.coaccessible)) (p.row_nodup q) a

theorem toPartialPlain_run (wf : d.WF) (p : d.PyShape) (w : List α) :
    ∀ q, q ∈ d.partialStates →
      d.toPartialPlain.isFinal (d.toPartialPlain.run (some q) w) = d.isFinal (d.run (some q) w) := by
  induction w with
  | nil =>
    intro q hq
    have hq' : q ∈ sinsert d.init (d.accessible.filter fun q => decide (q ∈ d.coaccessible)) := hq
    simp only [run_nil, isFinal, toPartialPlain, List.mem_filter, hq', decide_true, and_true]
  | cons a w ih =>
    intro q hq
    rw [run_cons, run_cons, toPartialPlain_step? p hq]
    cases hs : d.step? (some q) a with
    | none => simp [isFinal]
    | some t =>
      by_cases ht : t ∈ d.coaccessible
      · simp only [Option.filter_some, ht, decide_true, if_true]
        exact ih t (partialStates_step wf hq hs ht)
      · simp only [Option.filter_some, ht, decide_false, Bool.false_eq_true, if_false, run_none]
        rw [not_final_of_not_coaccessible wf ht]; rfl

/-- **`to_partial(minify=False)` keeps the verdict on every word.** -/
theorem toPartialPlain_accepts (wf : d.WF) (p : d.PyShape) (w : List α) :
    d.toPartialPlain.accepts w = d.accepts w :=
  toPartialPlain_run wf p w d.init (mem_partialStates.mpr (Or.inl rfl))

theorem mem_toPartialPlain_trans {kv : σ × List (α × σ)} (h : kv ∈ d.toPartialPlain.trans) :
    ∃ kv₀ ∈ d.trans, kv₀.1 ∈ d.partialStates ∧
      kv = (kv₀.1, kv₀.2.filter fun e => decide (e.2 ∈ d.coaccessible)) := by
  simp only [toPartialPlain] at h
  obtain ⟨kv₀, h₀, rfl⟩ := List.mem_map.mp h
  obtain ⟨hm, hp⟩ := List.mem_filter.mp h₀
  exact ⟨kv₀, hm, of_decide_eq_true hp, rfl⟩

theorem toPartialPlain_keys : akeys d.toPartialPlain.trans =
    akeys (d.trans.filter fun kv => decide (kv.1 ∈ d.partialStates)) := by
  simp only [toPartialPlain, akeys, List.map_map, Function.comp_def]
  rfl

/-- `to_partial(minify=False)` returns a well-formed (partial) definition. -/
theorem toPartialPlain_wf (wf : d.WF) (p : d.PyShape) : d.toPartialPlain.WF := by
  refine ⟨?_, ?_, ?_, ?_, ?_, ?_⟩
  · intro q hq
    rw [toPartialPlain_states] at hq
    have hs : q ∈ d.states := accessible_sub_states wf (partialStates_accessible wf hq)
    obtain ⟨r, hr⟩ := row?_some_of_mem wf hs
    rw [toPartialPlain_keys]
    exact List.mem_map.mpr ⟨(q, r), List.mem_filter.mpr ⟨alookup_some_mem hr, by simpa using hq⟩, rfl⟩
  · intro h; cases h
  · intro kv hkv a ha
    obtain ⟨kv₀, h₀, _, rfl⟩ := mem_toPartialPlain_trans hkv
    exact wf.symsOk kv₀ h₀ a ((akeys_filter_sublist _ _).subset ha)
  · intro kv hkv t ht
    obtain ⟨kv₀, h₀, hk, rfl⟩ := mem_toPartialPlain_trans hkv
    obtain ⟨e, he, rfl⟩ := List.mem_map.mp ht
    obtain ⟨hm, hc⟩ := List.mem_filter.mp he
    rw [toPartialPlain_states]
    have hrow : alookup kv₀.1 d.trans = some kv₀.2 := alookup_of_mem_nodup p.keys_nodup h₀
    have hstep : d.step? (some kv₀.1) e.1 = some e.2 := by
      simp only [step?, row, row?, hrow, Option.getD_some]
      exact alookup_of_mem_nodup (p.rows_nodup kv₀ h₀) hm
    exact partialStates_step wf hk hstep (by simpa using hc)
  · exact mem_partialStates.mpr (Or.inl rfl)
  · intro q hq
    simp only [toPartialPlain] at hq
    exact of_decide_eq_true (List.mem_filter.mp hq).2

theorem toPartialPlain_pyShape (wf : d.WF) (p : d.PyShape) : d.toPartialPlain.PyShape := by
  refine ⟨nodup_partialStates wf, p.syms_nodup, ?_, ?_, ?_⟩
  · exact List.Nodup.sublist List.filter_sublist p.finals_nodup
  · rw [toPartialPlain_keys]
    exact List.Nodup.sublist (akeys_filter_sublist _ _) p.keys_nodup
  · intro kv hkv
    obtain ⟨kv₀, h₀, _, rfl⟩ := mem_toPartialPlain_trans hkv
    exact List.Nodup.sublist (akeys_filter_sublist _ _) (p.rows_nodup kv₀ h₀)

end toPartial

end C04
end AV
