/-
Proofs/PyShape.lean — "this value came from Python sets and dicts": no duplicate elements
in the lists that model sets, no duplicate keys in the association lists that model dicts.
Theorems that depend on `len(...)` of a set/dict or on "the" row of a state carry these
hypotheses explicitly; the protocol driver only ever builds values of this shape.
-/
import AutomataVerif.Proofs.Validate

namespace AV

variable {σ α : Type} [DecidableEq σ] [DecidableEq α]

structure DFA.PyShape (d : DFA σ α) : Prop where
  states_nodup : d.states.Nodup
  syms_nodup : d.syms.Nodup
  finals_nodup : d.finals.Nodup
  keys_nodup : (akeys d.trans).Nodup
  rows_nodup : ∀ kv ∈ d.trans, (akeys kv.2).Nodup

structure NFA.PyShape (n : NFA σ α) : Prop where
  states_nodup : n.states.Nodup
  syms_nodup : n.syms.Nodup
  finals_nodup : n.finals.Nodup
  keys_nodup : (akeys n.trans).Nodup
  rows_nodup : ∀ kv ∈ n.trans, (akeys kv.2).Nodup
  targets_nodup : ∀ kv ∈ n.trans, ∀ e ∈ kv.2, e.2.Nodup

theorem DFA.PyShape.row_nodup {d : DFA σ α} (h : d.PyShape) (q : σ) : (akeys (d.row q)).Nodup := by
  unfold DFA.row DFA.row?
  cases hr : alookup q d.trans with
  | none => simp [akeys]
  | some r => exact h.rows_nodup (q, r) (alookup_some_mem hr)

/-- A duplicate-free list contained in a duplicate-free list of the same length contains it. -/
theorem subset_of_nodup_length_eq {β : Type} [DecidableEq β] {l m : List β} (hl : l.Nodup)
    (hsub : ∀ x ∈ l, x ∈ m) (hlen : l.length = m.length) : ∀ x ∈ m, x ∈ l := by
  intro x hx
  by_cases hxl : x ∈ l
  · exact hxl
  · exfalso
    have hsub' : ∀ y ∈ l, y ∈ m.erase x := by
      intro y hy
      have : y ≠ x := fun e => hxl (e ▸ hy)
      exact (List.mem_erase_of_ne this).mpr (hsub y hy)
    have h1 : l.length ≤ (m.erase x).length := List.Nodup.length_le_of_subset hl hsub'
    have h2 : (m.erase x).length = m.length - 1 := List.length_erase_of_mem hx
    have h3 : 0 < m.length := List.length_pos_of_mem hx
    omega

end AV
