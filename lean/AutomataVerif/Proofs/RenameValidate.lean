/-
Proofs/RenameValidate.lean — `DFA.validate` is invariant under every renaming of the states that
is injective on the names that occur in the definition: `(d.rename f).validate = d.validate`
(`ok`, or the same exception).  `Proofs/Rename.lean` has the direction "valid ⇒ renamed valid"
(`rename_valid`, any `f`); this file adds the equality, hence also "renamed valid ⇒ valid".
-/
import AutomataVerif.Proofs.Rename
import AutomataVerif.Proofs.GnfaBridge

namespace AV.RenameValidate
open AV AV.C04 AV.GnfaBridge

set_option linter.unusedSectionVars false

variable {σ τ α : Type} [DecidableEq σ] [DecidableEq τ] [DecidableEq α]

/-- Every state name that occurs in the definition: the states, the keys of the transition
dict, the targets of the transitions, the initial state, the final states. -/
def names (d : DFA σ α) : List σ :=
  d.states ++ akeys d.trans ++ d.trans.flatMap (fun kv => avals kv.2) ++ [d.init] ++ d.finals

theorem states_sub (d : DFA σ α) : ∀ q ∈ d.states, q ∈ names d := by
  intro q h; simp [names, h]
theorem keys_sub (d : DFA σ α) : ∀ q ∈ akeys d.trans, q ∈ names d := by
  intro q h; simp [names, h]
theorem targets_sub (d : DFA σ α) : ∀ kv ∈ d.trans, ∀ q ∈ avals kv.2, q ∈ names d := by
  intro kv hkv q h
  have : q ∈ d.trans.flatMap (fun kv => avals kv.2) := List.mem_flatMap.mpr ⟨kv, hkv, h⟩
  simp [names, this]
theorem init_sub (d : DFA σ α) : d.init ∈ names d := by simp [names]
theorem finals_sub (d : DFA σ α) : ∀ q ∈ d.finals, q ∈ names d := by
  intro q h; simp [names, h]

variable (f : σ → τ) (d : DFA σ α)

/-- `f q ∈ states'` iff `q ∈ states`, for an occurring name `q`. -/
theorem mem_states_rename (hinj : InjOn f (names d)) {q : σ} (hq : q ∈ names d) :
    decide (f q ∈ (d.rename f).states) = decide (q ∈ d.states) := by
  have := mem_map_of_injOn (f := f) (m := d.states) hinj (states_sub d) hq
  rw [Bool.eq_iff_iff]
  simpa [DFA.rename] using this

theorem ahas_rename (hinj : InjOn f (names d)) {q : σ} (hq : q ∈ names d) :
    ahas (f q) (d.rename f).trans = ahas q d.trans := by
  unfold ahas
  simp only [DFA.rename]
  rw [alookup_map_key f (fun (r : List (α × σ)) => r.map fun e => (e.1, f e.2)) d.trans hinj
    (keys_sub d) hq]
  cases alookup q d.trans <;> rfl

theorem validateRow_rename (hinj : InjOn f (names d)) (kv : σ × List (α × σ)) (hkv : kv ∈ d.trans) :
    (d.rename f).validateRow (kv.2.map fun e => (e.1, f e.2)) = d.validateRow kv.2 := by
  unfold DFA.validateRow
  have hk : akeys (kv.2.map fun e => (e.1, f e.2)) = akeys kv.2 :=
    akeys_mapVal (fun _ q => f q) kv.2
  have ha : ∀ a, ahas a (kv.2.map fun e => (e.1, f e.2)) = ahas a kv.2 := fun a =>
    ahas_mapVal (fun _ q => f q) a kv.2
  have hv : avals (kv.2.map fun e => (e.1, f e.2)) = (avals kv.2).map f :=
    avals_mapVal f kv.2
  simp only [rename_syms, rename_allowPartial, hk, ha, hv]
  rw [firstErr_map]
  congr 2
  apply firstErr_congr
  intro q hq
  rw [mem_states_rename f d hinj (targets_sub d kv hkv q hq)]

/-- **`validate` is invariant under a renaming that is injective on the occurring names.** -/
theorem validate_rename (hinj : InjOn f (names d)) : (d.rename f).validate = d.validate := by
  unfold DFA.validate DFA.validateStartStates
  have h1 : (firstErr (d.rename f).states fun q =>
        guardE (ahas q (d.rename f).trans) (.lib .missingStateError)) =
      firstErr d.states fun q => guardE (ahas q d.trans) (.lib .missingStateError) := by
    show firstErr (d.states.map f) _ = _
    rw [firstErr_map]
    apply firstErr_congr
    intro q hq
    rw [ahas_rename f d hinj (states_sub d q hq)]
  have h2 : (firstErr (d.rename f).trans fun kv => (d.rename f).validateRow kv.2) =
      firstErr d.trans fun kv => d.validateRow kv.2 := by
    show firstErr (d.trans.map fun kv => (f kv.1, kv.2.map fun e => (e.1, f e.2))) _ = _
    rw [firstErr_map]
    apply firstErr_congr
    intro kv hkv
    exact validateRow_rename f d hinj kv hkv
  have h3 : decide ((d.rename f).init ∈ (d.rename f).states) = decide (d.init ∈ d.states) :=
    mem_states_rename f d hinj (init_sub d)
  have h4 : ((d.rename f).finals.all fun q => decide (q ∈ (d.rename f).states)) =
      d.finals.all fun q => decide (q ∈ d.states) := by
    show (d.finals.map f).all _ = _
    rw [List.all_map, Bool.eq_iff_iff, List.all_eq_true, List.all_eq_true]
    constructor
    · intro h q hq
      rw [← mem_states_rename f d hinj (finals_sub d q hq)]
      exact h q hq
    · intro h q hq
      show decide (f q ∈ (d.rename f).states) = true
      rw [mem_states_rename f d hinj (finals_sub d q hq)]
      exact h q hq
  rw [h1, h2, h3, h4]

instance (l : List σ) : Decidable (InjOn f l) := by
  unfold InjOn; infer_instance

theorem injOn_of_injective (hf : Function.Injective f) (l : List σ) : InjOn f l :=
  fun _ _ _ _ e => hf e

end AV.RenameValidate
