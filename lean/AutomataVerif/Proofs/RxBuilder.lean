/-
Proofs/RxBuilder.lean — the builder invariant and the language of the basic operations
(`from_string_literal` for one symbol and for `""`, `wildcard`, `union`, `concatenate`).
Core only.
-/
import AutomataVerif.Proofs.RxPath

namespace AV.Rx

set_option linter.unusedSectionVars false
set_option linter.unusedSimpArgs false

variable {α : Type} [DecidableEq α]

namespace Builder

/-- The step relation of the automaton a builder holds. -/
def step (b : Builder α) : Nat → Option α → Nat → Prop := fun q a t => t ∈ b.targets q a

/-- Words accepted from state `q`. -/
def AccFrom (b : Builder α) (q : Nat) (w : List α) : Prop :=
  Acc b.step (fun f => f ∈ b.finals) q w

/-- The language of a builder: words accepted from its initial state. -/
def Lang (b : Builder α) (w : List α) : Prop := b.AccFrom b.init w

/-- The invariant every builder produced by the regex pipeline satisfies (DESIGN.md App. B):
the keys of the transition dict are pairwise distinct names in `[lo, hi)` (`hi` ≤ the counter),
every target, the initial state and the final states are keys, and **no transition enters the
initial state**. -/
structure Inv (b : Builder α) (lo hi : Nat) : Prop where
  keysNodup : b.keys.Nodup
  keysRange : ∀ q ∈ b.keys, lo ≤ q ∧ q < hi
  tgtKeys : ∀ q a t, t ∈ b.targets q a → t ∈ b.keys
  initKey : b.init ∈ b.keys
  finalsKeys : ∀ f ∈ b.finals, f ∈ b.keys
  noIntoInit : ∀ q a, b.init ∉ b.targets q a

theorem Inv.mono {b : Builder α} {lo hi lo' hi' : Nat} (i : b.Inv lo hi) (h1 : lo' ≤ lo)
    (h2 : hi ≤ hi') : b.Inv lo' hi' :=
  { i with keysRange := fun q hq => ⟨Nat.le_trans h1 (i.keysRange q hq).1,
      Nat.lt_of_lt_of_le (i.keysRange q hq).2 h2⟩ }

theorem Inv.lo_lt_hi {b : Builder α} {lo hi : Nat} (i : b.Inv lo hi) : lo < hi := by
  have := i.keysRange _ i.initKey; omega

theorem Inv.srcKey {b : Builder α} {lo hi : Nat} (_ : b.Inv lo hi) {q t : Nat} {a : Option α}
    (h : t ∈ b.targets q a) : q ∈ b.keys := mem_tgts_key h

theorem step_iff (b : Builder α) (q t : Nat) (a : Option α) : b.step q a t ↔ t ∈ tgts b.trans q a :=
  Iff.rfl

/-! ### `from_string_literal` on one symbol and on the empty string -/

theorem fromStringLiteral_single (a : α) (c : Nat) :
    fromStringLiteral [a] c =
      ({ trans := [(c, [(some a, [c + 1])]), (c + 1, [])], init := c, finals := [c + 1] }, c + 2) := by
  simp [fromStringLiteral, List.zipIdx]

theorem fromStringLiteral_nil (c : Nat) :
    fromStringLiteral ([] : List α) c =
      ({ trans := [(c, [])], init := c, finals := [c] }, c + 1) := by
  simp [fromStringLiteral]

theorem lit_targets (a : α) (c q t : Nat) (x : Option α) :
    t ∈ tgts ([(c, [(some a, [c + 1])]), (c + 1, [])] : Trans α) q x ↔
      q = c ∧ x = some a ∧ t = c + 1 := by
  unfold tgts
  by_cases h1 : c = q
  · subst h1
    by_cases h2 : some a = x
    · subst h2; simp [alookup_cons]
    · have h2' : ¬ x = some a := fun e => h2 e.symm
      simp [alookup_cons, h2, h2']
  · have h1' : ¬ q = c := fun e => h1 e.symm
    by_cases h2 : c + 1 = q
    · subst h2; simp [alookup_cons]
    · simp [alookup_cons, h1, h2, h1']

theorem lit_spec (a : α) (c : Nat) :
    (fromStringLiteral [a] c).1.Inv c (c + 2) ∧
    ∀ w, (fromStringLiteral [a] c).1.Lang w ↔ w = [a] := by
  rw [fromStringLiteral_single]
  refine ⟨⟨?_, ?_, ?_, ?_, ?_, ?_⟩, ?_⟩
  · simp [keys, akeys]
  · intro q hq; simp [keys, akeys] at hq; omega
  · intro q x t h
    rw [targets_eq, lit_targets] at h
    simp [keys, akeys, h.2.2]
  · simp [keys, akeys]
  · simp [keys, akeys]
  · intro q x h
    dsimp only at h
    rw [targets_eq, lit_targets] at h
    omega
  · intro w
    constructor
    · rintro ⟨f, hf, hp⟩
      have key := Path.sound (step := Builder.step _)
        (Fin := fun f => f ∈ [c + 1])
        (D := fun s w => (s = c → w = [a]) ∧ (s = c + 1 → w = []))
        (by intro s hs; simp at hs; subst hs; simp)
        (by intro s t w hs _
            rw [step_iff, lit_targets] at hs
            simp at hs)
        (by intro s x t w hs hD
            rw [step_iff, lit_targets] at hs
            obtain ⟨rfl, hx, rfl⟩ := hs
            cases hx
            refine ⟨fun _ => by rw [hD.2 rfl], fun h => by omega⟩)
        hp hf
      exact key.1 rfl
    · rintro rfl
      refine ⟨c + 1, by simp, ?_⟩
      apply Path.single_sym
      rw [step_iff, lit_targets]
      exact ⟨rfl, rfl, rfl⟩

theorem eps_targets (c q t : Nat) (x : Option α) : ¬ t ∈ tgts ([(c, [])] : Trans α) q x := by
  unfold tgts
  simp only [alookup_cons, alookup_nil]
  by_cases h1 : c = q <;> simp [h1]

theorem eps_spec (c : Nat) :
    (fromStringLiteral ([] : List α) c).1.Inv c (c + 1) ∧
    ∀ w, (fromStringLiteral ([] : List α) c).1.Lang w ↔ w = [] := by
  rw [fromStringLiteral_nil]
  refine ⟨⟨?_, ?_, ?_, ?_, ?_, ?_⟩, ?_⟩
  · simp [keys, akeys]
  · intro q hq; simp [keys, akeys] at hq; omega
  · intro q x t h; rw [targets_eq] at h; exact absurd h (eps_targets _ _ _ _)
  · simp [keys, akeys]
  · simp [keys, akeys]
  · intro q x h; rw [targets_eq] at h; exact absurd h (eps_targets _ _ _ _)
  · intro w
    constructor
    · rintro ⟨f, hf, hp⟩
      cases hp with
      | nil => rfl
      | eps hs _ => rw [step_iff] at hs; exact absurd hs (eps_targets _ _ _ _)
      | sym hs _ => rw [step_iff] at hs; exact absurd hs (eps_targets _ _ _ _)
    · rintro rfl
      exact ⟨c, by simp, Path.nil _⟩

/-! ### `wildcard` -/

theorem wildcard_row (syms : List α) (c : Nat) (x : Option α) (acc : Row α) :
    alookup x (syms.foldl (fun row a => ainsert (some a) [c + 1] row) acc) =
      if ∃ a ∈ syms, x = some a then some [c + 1] else alookup x acc := by
  induction syms generalizing acc with
  | nil => simp
  | cons s rest ih =>
    rw [List.foldl_cons, ih, alookup_ainsert]
    by_cases h1 : ∃ a ∈ rest, x = some a
    · have : ∃ a ∈ s :: rest, x = some a := by
        obtain ⟨a, ha, e⟩ := h1; exact ⟨a, List.mem_cons_of_mem _ ha, e⟩
      simp [h1, this]
    · by_cases h2 : some s = x
      · have : ∃ a ∈ s :: rest, x = some a := ⟨s, by simp, h2.symm⟩
        simp [h1, h2, this]
      · have h2' : ¬ x = some s := fun e => h2 e.symm
        have : ¬ ∃ a ∈ s :: rest, x = some a := by
          rintro ⟨a, ha, e⟩
          rcases List.mem_cons.mp ha with h | h
          · subst h; exact h2 e.symm
          · exact h1 ⟨a, h, e⟩
        rw [if_neg h1, if_neg h2, if_neg this]

theorem wildcard_targets (syms : List α) (c q t : Nat) (x : Option α) :
    t ∈ (wildcard syms c).1.targets q x ↔ q = c ∧ (∃ a ∈ syms, x = some a) ∧ t = c + 1 := by
  rw [targets_eq]
  unfold wildcard tgts
  simp only [alookup_cons, alookup_nil]
  by_cases h1 : c = q
  · subst h1
    simp only [if_true, Option.getD_some, wildcard_row, alookup_nil]
    by_cases h2 : ∃ a ∈ syms, x = some a
    · simp [h2]
    · simp [h2]
  · by_cases h2 : c + 1 = q
    · subst h2; simp
    · simp [h1, h2]; intro e; exact absurd e.symm h1

theorem wildcard_spec (syms : List α) (c : Nat) :
    (wildcard syms c).1.Inv c (c + 2) ∧
    ∀ w, (wildcard syms c).1.Lang w ↔ ∃ a ∈ syms, w = [a] := by
  have hk : (wildcard syms c).1.keys = [c, c + 1] := by simp [wildcard, keys, akeys]
  have hi : (wildcard syms c).1.init = c := rfl
  have hf : (wildcard syms c).1.finals = [c + 1] := rfl
  refine ⟨⟨?_, ?_, ?_, ?_, ?_, ?_⟩, ?_⟩
  · rw [hk]; simp
  · intro q hq; rw [hk] at hq; simp at hq; omega
  · intro q x t h
    rw [wildcard_targets] at h
    rw [hk, h.2.2]; simp
  · rw [hk, hi]; simp
  · rw [hk, hf]; simp
  · intro q x h
    rw [wildcard_targets, hi] at h
    omega
  · intro w
    constructor
    · rintro ⟨f, hf', hp⟩
      rw [hi] at hp
      have key := Path.sound (step := Builder.step _)
        (Fin := fun f => f ∈ (wildcard syms c).1.finals)
        (D := fun s w => (s = c → ∃ a ∈ syms, w = [a]) ∧ (s = c + 1 → w = []))
        (by intro s hs; rw [hf] at hs; simp at hs; subst hs; simp)
        (by intro s t w hs _
            have := (wildcard_targets syms c s t none).mp hs
            obtain ⟨_, ⟨a, _, e⟩, _⟩ := this
            cases e)
        (by intro s x t w hs hD
            have := (wildcard_targets syms c s t (some x)).mp hs
            obtain ⟨rfl, ⟨a, ha, e⟩, rfl⟩ := this
            cases e
            refine ⟨fun _ => ⟨x, ha, by rw [hD.2 rfl]⟩, fun h => by omega⟩)
        hp hf'
      exact key.1 rfl
    · rintro ⟨a, ha, rfl⟩
      refine ⟨c + 1, by rw [hf]; simp, ?_⟩
      rw [hi]
      apply Path.single_sym
      exact (wildcard_targets syms c c (c + 1) (some a)).mpr ⟨rfl, ⟨a, ha, rfl⟩, rfl⟩

/-! ### `union` -/

section union
variable {b1 b2 : Builder α} {l1 h1 l2 h2 c : Nat}

theorem union_targets (i1 : b1.Inv l1 h1) (i2 : b2.Inv l2 h2) (h12 : h1 ≤ l2) (hc : h2 ≤ c)
    (q t : Nat) (a : Option α) :
    t ∈ (b1.union b2 c).1.targets q a ↔
      (q = c ∧ a = none ∧ (t = b1.init ∨ t = b2.init)) ∨ t ∈ b1.targets q a ∨ t ∈ b2.targets q a := by
  have hlt2 := i2.lo_lt_hi
  rw [targets_eq]
  show t ∈ tgts (ainsert c _ (aupdate b1.trans b2.trans)) q a ↔ _
  rw [tgts_ainsert]
  by_cases hq : c = q
  · subst hq
    have n1 : c ∉ b1.keys := fun h => by have := i1.keysRange _ h; omega
    have n2 : c ∉ b2.keys := fun h => by have := i2.keysRange _ h; omega
    rw [targets_eq, targets_eq, tgts_of_not_key n1, tgts_of_not_key n2]
    simp only [if_true, alookup_cons, alookup_nil]
    by_cases ha : none = a
    · subst ha
      simp [sinsert]
      by_cases hb : b2.init = b1.init
      · simp [hb]
      · simp [hb]
    · simp [ha]; intro e; exact absurd e.symm ha
  · simp only [hq, if_false]
    rw [tgts_aupdate i2.keysNodup]
    by_cases hk : q ∈ akeys b2.trans
    · have n1 : q ∉ b1.keys := fun h => by
        have := i1.keysRange _ h; have := i2.keysRange _ hk; omega
      simp only [hk, if_true]
      rw [targets_eq b1, tgts_of_not_key n1, targets_eq]
      simp; intro e; exact absurd e.symm hq
    · simp only [hk, if_false]
      rw [targets_eq b2, tgts_of_not_key hk, targets_eq]
      simp; intro e; exact absurd e.symm hq

theorem union_keys (q : Nat) :
    q ∈ (b1.union b2 c).1.keys ↔ q = c ∨ q ∈ b1.keys ∨ q ∈ b2.keys := by
  show q ∈ akeys (ainsert c _ (aupdate b1.trans b2.trans)) ↔ _
  rw [mem_akeys_ainsert, mem_akeys_aupdate]; rfl

theorem union_spec (i1 : b1.Inv l1 h1) (i2 : b2.Inv l2 h2) (h12 : h1 ≤ l2) (hc : h2 ≤ c) :
    (b1.union b2 c).1.Inv l1 (c + 1) ∧
    ∀ w, (b1.union b2 c).1.Lang w ↔ b1.Lang w ∨ b2.Lang w := by
  have hlt1 := i1.lo_lt_hi
  have hlt2 := i2.lo_lt_hi
  have hinit : (b1.union b2 c).1.init = c := rfl
  have hfin : ∀ f, f ∈ (b1.union b2 c).1.finals ↔ f ∈ b1.finals ∨ f ∈ b2.finals := by
    intro f; show f ∈ sunion b1.finals b2.finals ↔ _; exact mem_sunion
  have tg := union_targets i1 i2 h12 hc
  refine ⟨⟨?_, ?_, ?_, ?_, ?_, ?_⟩, ?_⟩
  · exact nodup_akeys_ainsert (nodup_akeys_aupdate i1.keysNodup)
  · intro q hq
    rcases (union_keys q).mp hq with h | h | h
    · omega
    · have := i1.keysRange _ h; omega
    · have := i2.keysRange _ h; omega
  · intro q a t h
    rw [union_keys]
    rcases (tg q t a).mp h with ⟨_, _, h | h⟩ | h | h
    · rw [h]; exact Or.inr (Or.inl i1.initKey)
    · rw [h]; exact Or.inr (Or.inr i2.initKey)
    · exact Or.inr (Or.inl (i1.tgtKeys _ _ _ h))
    · exact Or.inr (Or.inr (i2.tgtKeys _ _ _ h))
  · rw [hinit, union_keys]; exact Or.inl rfl
  · intro f hf
    rw [union_keys]
    rcases (hfin f).mp hf with h | h
    · exact Or.inr (Or.inl (i1.finalsKeys _ h))
    · exact Or.inr (Or.inr (i2.finalsKeys _ h))
  · intro q a h
    rw [hinit] at h
    rcases (tg q c a).mp h with ⟨_, _, h | h⟩ | h | h
    · have := i1.keysRange _ i1.initKey; omega
    · have := i2.keysRange _ i2.initKey; omega
    · have := i1.keysRange _ (i1.tgtKeys _ _ _ h); omega
    · have := i2.keysRange _ (i2.tgtKeys _ _ _ h); omega
  · intro w
    constructor
    · rintro ⟨f, hf, hp⟩
      rw [hinit] at hp
      have key := Path.sound (step := Builder.step _)
        (Fin := fun f => f ∈ (b1.union b2 c).1.finals)
        (D := fun s w => (s = c → b1.Lang w ∨ b2.Lang w) ∧ (s ∈ b1.keys → b1.AccFrom s w) ∧
                         (s ∈ b2.keys → b2.AccFrom s w))
        (by intro s hs
            rcases (hfin s).mp hs with h | h
            · have hk := i1.finalsKeys _ h
              have := i1.keysRange _ hk
              refine ⟨fun e => by omega, fun _ => Acc.of_final h, fun h2 => ?_⟩
              have := i2.keysRange _ h2; omega
            · have hk := i2.finalsKeys _ h
              have := i2.keysRange _ hk
              refine ⟨fun e => by omega, fun h1 => ?_, fun _ => Acc.of_final h⟩
              have := i1.keysRange _ h1; omega)
        (by intro s t w hs hD
            rcases (tg s t none).mp hs with ⟨rfl, _, rfl | rfl⟩ | h | h
            · refine ⟨fun _ => Or.inl (hD.2.1 i1.initKey), fun h1 => ?_, fun h2 => ?_⟩
              · have := i1.keysRange _ h1; omega
              · have := i2.keysRange _ h2; omega
            · refine ⟨fun _ => Or.inr (hD.2.2 i2.initKey), fun h1 => ?_, fun h2 => ?_⟩
              · have := i1.keysRange _ h1; omega
              · have := i2.keysRange _ h2; omega
            · have hs1 := i1.srcKey h
              have ht1 := i1.tgtKeys _ _ _ h
              have := i1.keysRange _ hs1
              refine ⟨fun e => by omega, fun _ => Acc.eps h (hD.2.1 ht1), fun h2 => ?_⟩
              have := i2.keysRange _ h2; omega
            · have hs2 := i2.srcKey h
              have ht2 := i2.tgtKeys _ _ _ h
              have := i2.keysRange _ hs2
              refine ⟨fun e => by omega, fun h1 => ?_, fun _ => Acc.eps h (hD.2.2 ht2)⟩
              have := i1.keysRange _ h1; omega)
        (by intro s x t w hs hD
            rcases (tg s t (some x)).mp hs with ⟨_, e, _⟩ | h | h
            · cases e
            · have hs1 := i1.srcKey h
              have ht1 := i1.tgtKeys _ _ _ h
              have := i1.keysRange _ hs1
              refine ⟨fun e => by omega, fun _ => Acc.sym h (hD.2.1 ht1), fun h2 => ?_⟩
              have := i2.keysRange _ h2; omega
            · have hs2 := i2.srcKey h
              have ht2 := i2.tgtKeys _ _ _ h
              have := i2.keysRange _ hs2
              refine ⟨fun e => by omega, fun h1 => ?_, fun _ => Acc.sym h (hD.2.2 ht2)⟩
              have := i1.keysRange _ h1; omega)
        hp hf
      exact key.1 rfl
    · rintro (⟨f, hf, hp⟩ | ⟨f, hf, hp⟩)
      · refine ⟨f, (hfin f).mpr (Or.inl hf), ?_⟩
        rw [hinit]
        refine Path.eps ((tg c b1.init none).mpr (Or.inl ⟨rfl, rfl, Or.inl rfl⟩)) ?_
        exact hp.mono (fun q a t h => (tg q t a).mpr (Or.inr (Or.inl h)))
      · refine ⟨f, (hfin f).mpr (Or.inr hf), ?_⟩
        rw [hinit]
        refine Path.eps ((tg c b2.init none).mpr (Or.inl ⟨rfl, rfl, Or.inr rfl⟩)) ?_
        exact hp.mono (fun q a t h => (tg q t a).mpr (Or.inr (Or.inr h)))

end union

/-! ### `concatenate` -/

section concat
variable {b1 b2 : Builder α} {l1 h1 l2 h2 : Nat}

theorem concatenate_ok (i1 : b1.Inv l1 h1) (i2 : b2.Inv l2 h2) (h12 : h1 ≤ l2) :
    ∃ b, b1.concatenate b2 = .ok b ∧ b.init = b1.init ∧ b.finals = b2.finals ∧
      (∀ q, q ∈ b.keys ↔ q ∈ b1.keys ∨ q ∈ b2.keys) ∧ b.keys.Nodup ∧
      ∀ q a t, t ∈ b.targets q a ↔
        t ∈ b1.targets q a ∨ t ∈ b2.targets q a ∨ (q ∈ b1.finals ∧ a = none ∧ t = b2.init) := by
  have hsrc : ∀ s ∈ b1.finals, s ∈ akeys (aupdate b1.trans b2.trans) := by
    intro s hs; rw [mem_akeys_aupdate]; exact Or.inl (i1.finalsKeys _ hs)
  obtain ⟨T, hT, hkeys, htg⟩ := addEdgesE_ok hsrc none b2.init
  refine ⟨{ trans := T, init := b1.init, finals := b2.finals }, ?_, rfl, rfl, ?_, ?_, ?_⟩
  · unfold concatenate; rw [hT]
  · intro q
    show q ∈ akeys T ↔ _
    rw [hkeys, mem_akeys_aupdate]; rfl
  · show (akeys T).Nodup
    rw [hkeys]; exact nodup_akeys_aupdate i1.keysNodup
  · intro q a t
    rw [targets_eq]
    show t ∈ tgts T q a ↔ _
    rw [htg, tgts_aupdate i2.keysNodup]
    by_cases hk : q ∈ akeys b2.trans
    · have n1 : q ∉ b1.keys := fun h => by
        have := i1.keysRange _ h; have := i2.keysRange _ hk; omega
      simp only [hk, if_true]
      rw [targets_eq b1, tgts_of_not_key n1, targets_eq]
      simp
    · simp only [hk, if_false]
      rw [targets_eq b2, tgts_of_not_key hk, targets_eq]
      simp

theorem concatenate_spec (i1 : b1.Inv l1 h1) (i2 : b2.Inv l2 h2) (h12 : h1 ≤ l2) :
    ∃ b, b1.concatenate b2 = .ok b ∧ b.Inv l1 h2 ∧
      ∀ w, b.Lang w ↔ LCat b1.Lang b2.Lang w := by
  obtain ⟨b, hb, hinit, hfin, hkeys, hnd, tg⟩ := concatenate_ok i1 i2 h12
  have hlt1 := i1.lo_lt_hi
  have hlt2 := i2.lo_lt_hi
  refine ⟨b, hb, ⟨hnd, ?_, ?_, ?_, ?_, ?_⟩, ?_⟩
  · intro q hq
    rcases (hkeys q).mp hq with h | h
    · have := i1.keysRange _ h; omega
    · have := i2.keysRange _ h; omega
  · intro q a t h
    rw [hkeys]
    rcases (tg q a t).mp h with h | h | ⟨_, _, h⟩
    · exact Or.inl (i1.tgtKeys _ _ _ h)
    · exact Or.inr (i2.tgtKeys _ _ _ h)
    · rw [h]; exact Or.inr i2.initKey
  · rw [hinit, hkeys]; exact Or.inl i1.initKey
  · intro f hf
    rw [hfin] at hf
    rw [hkeys]; exact Or.inr (i2.finalsKeys _ hf)
  · intro q a h
    rw [hinit] at h
    rcases (tg q a b1.init).mp h with h | h | ⟨_, _, h⟩
    · exact i1.noIntoInit _ _ h
    · have := i2.keysRange _ (i2.tgtKeys _ _ _ h)
      have := i1.keysRange _ i1.initKey
      omega
    · have := i2.keysRange _ i2.initKey
      have := i1.keysRange _ i1.initKey
      omega
  · intro w
    constructor
    · rintro ⟨f, hf, hp⟩
      rw [hinit] at hp
      have key := Path.sound (step := b.step)
        (Fin := fun f => f ∈ b.finals)
        (D := fun s w => (s ∈ b1.keys → LCat (b1.AccFrom s) b2.Lang w) ∧
                         (s ∈ b2.keys → b2.AccFrom s w))
        (by intro s hs
            rw [hfin] at hs
            have hk := i2.finalsKeys _ hs
            refine ⟨fun h1 => ?_, fun _ => Acc.of_final hs⟩
            have := i1.keysRange _ h1; have := i2.keysRange _ hk; omega)
        (by intro s t w hs hD
            rcases (tg s none t).mp hs with h | h | ⟨h, _, rfl⟩
            · have hs1 := i1.srcKey h
              have ht1 := i1.tgtKeys _ _ _ h
              refine ⟨fun _ => ?_, fun h2 => ?_⟩
              · obtain ⟨u, v, hu, hv, rfl⟩ := hD.1 ht1
                exact ⟨u, v, Acc.eps h hu, hv, rfl⟩
              · have := i1.keysRange _ hs1; have := i2.keysRange _ h2; omega
            · have hs2 := i2.srcKey h
              have ht2 := i2.tgtKeys _ _ _ h
              refine ⟨fun h1 => ?_, fun _ => Acc.eps h (hD.2 ht2)⟩
              have := i1.keysRange _ h1; have := i2.keysRange _ hs2; omega
            · have hs1 := i1.finalsKeys _ h
              refine ⟨fun _ => ⟨[], w, Acc.of_final h, hD.2 i2.initKey, rfl⟩, fun h2 => ?_⟩
              have := i1.keysRange _ hs1; have := i2.keysRange _ h2; omega)
        (by intro s x t w hs hD
            rcases (tg s (some x) t).mp hs with h | h | ⟨_, e, _⟩
            · have hs1 := i1.srcKey h
              have ht1 := i1.tgtKeys _ _ _ h
              refine ⟨fun _ => ?_, fun h2 => ?_⟩
              · obtain ⟨u, v, hu, hv, rfl⟩ := hD.1 ht1
                exact ⟨x :: u, v, Acc.sym h hu, hv, rfl⟩
              · have := i1.keysRange _ hs1; have := i2.keysRange _ h2; omega
            · have hs2 := i2.srcKey h
              have ht2 := i2.tgtKeys _ _ _ h
              refine ⟨fun h1 => ?_, fun _ => Acc.sym h (hD.2 ht2)⟩
              have := i1.keysRange _ h1; have := i2.keysRange _ hs2; omega
            · cases e)
        hp hf
      exact key.1 i1.initKey
    · rintro ⟨u, v, ⟨f1, hf1, hp1⟩, ⟨f2, hf2, hp2⟩, rfl⟩
      refine ⟨f2, by rw [hfin]; exact hf2, ?_⟩
      rw [hinit]
      have p1 : Path b.step b1.init u f1 :=
        hp1.mono (fun q a t h => (tg q a t).mpr (Or.inl h))
      have p2 : Path b.step b2.init v f2 :=
        hp2.mono (fun q a t h => (tg q a t).mpr (Or.inr (Or.inl h)))
      have e : b.step f1 none b2.init := (tg f1 none b2.init).mpr (Or.inr (Or.inr ⟨hf1, rfl, rfl⟩))
      exact p1.trans (Path.eps e p2)

end concat

end Builder
end AV.Rx
