/-
Proofs/EpsOpsB.lean — product constructions on Mathlib's `εNFA`, stated for an arbitrary
result automaton `M` whose transition function is characterised on the relevant product
states: intersection (ε-moves of either side independently, symbols jointly) and shuffle
product (every move — ε or symbol — moves exactly one side).
-/
import Mathlib.Computability.EpsilonNFA
import Mathlib.Computability.Language

namespace AV.EpsOps

open Set

universe u
variable {α : Type u} {σ₁ σ₂ : Type u}

/-- `w` is an interleaving of `u` and `v`. -/
inductive Shuffle : List α → List α → List α → Prop
  | nil : Shuffle [] [] []
  | left {u v w : List α} (a : α) : Shuffle u v w → Shuffle (a :: u) v (a :: w)
  | right {u v w : List α} (a : α) : Shuffle u v w → Shuffle u (a :: v) (a :: w)

/-- The shuffle product of two languages. -/
def shuffleLang (L₁ L₂ : Language α) : Language α :=
  {w | ∃ u ∈ L₁, ∃ v ∈ L₂, Shuffle u v w}

/-- A set closed under the transitions of `N` is closed under paths of `N`. -/
theorem isPath_mem_closed {σ : Type u} (N : εNFA α σ) (Q : Set σ)
    (hQ : ∀ q ∈ Q, ∀ a, N.step q a ⊆ Q) {s t : σ} {x : List (Option α)}
    (h : N.IsPath s t x) (hs : s ∈ Q) : t ∈ Q := by
  induction h with
  | nil s => exact hs
  | cons t s u a x ht _ ih => exact ih (hQ s hs a ht)

section Inter

variable (M : εNFA α (σ₁ × σ₂)) (M₁ : εNFA α σ₁) (M₂ : εNFA α σ₂) (R : Set (σ₁ × σ₂))
  (hR_closed : ∀ s ∈ R, ∀ a, M.step s a ⊆ R)
  (hstep_none : ∀ s ∈ R, M.step s none =
    {t | (t.1 ∈ M₁.step s.1 none ∧ t.2 = s.2) ∨ (t.1 = s.1 ∧ t.2 ∈ M₂.step s.2 none)})
  (hstep_some : ∀ s ∈ R, ∀ a, M.step s (some a) =
    {t | t.1 ∈ M₁.step s.1 (some a) ∧ t.2 ∈ M₂.step s.2 (some a)})

include hR_closed hstep_none hstep_some

/-- Projection of a path of the product onto its components. -/
theorem inter_project {s t : σ₁ × σ₂} {x : List (Option α)} (h : M.IsPath s t x) (hs : s ∈ R) :
    ∃ x₁ x₂, x₁.reduceOption = x.reduceOption ∧ x₂.reduceOption = x.reduceOption ∧
      M₁.IsPath s.1 t.1 x₁ ∧ M₂.IsPath s.2 t.2 x₂ := by
  induction h with
  | nil s => exact ⟨[], [], rfl, rfl, .nil _, .nil _⟩
  | cons t s u a x ht _ ih =>
    obtain ⟨x₁, x₂, e₁, e₂, h₁, h₂⟩ := ih (hR_closed s hs a ht)
    cases a with
    | none =>
      rw [hstep_none s hs] at ht
      rcases ht with ⟨ht₁, ht₂⟩ | ⟨ht₁, ht₂⟩
      · refine ⟨none :: x₁, x₂, by simpa using e₁, by simpa using e₂, .cons _ _ _ _ _ ht₁ h₁, ?_⟩
        rw [← ht₂]; exact h₂
      · refine ⟨x₁, none :: x₂, by simpa using e₁, by simpa using e₂, ?_, .cons _ _ _ _ _ ht₂ h₂⟩
        rw [← ht₁]; exact h₁
    | some a =>
      rw [hstep_some s hs] at ht
      obtain ⟨ht₁, ht₂⟩ := ht
      exact ⟨some a :: x₁, some a :: x₂, by simpa using e₁, by simpa using e₂,
        .cons _ _ _ _ _ ht₁ h₁, .cons _ _ _ _ _ ht₂ h₂⟩

/-- Two component paths reading the same word combine into a path of the product. -/
theorem inter_build {p' : σ₁} {q' : σ₂} (n : ℕ) :
    ∀ (x₁ x₂ : List (Option α)) (p : σ₁) (q : σ₂), x₁.length + x₂.length ≤ n → (p, q) ∈ R →
      M₁.IsPath p p' x₁ → M₂.IsPath q q' x₂ → x₁.reduceOption = x₂.reduceOption →
      ∃ x, x.reduceOption = x₁.reduceOption ∧ M.IsPath (p, q) (p', q') x := by
  induction n with
  | zero =>
    intro x₁ x₂ p q hn _ h₁ h₂ _
    have e₁ : x₁ = [] := List.length_eq_zero_iff.mp (by omega)
    have e₂ : x₂ = [] := List.length_eq_zero_iff.mp (by omega)
    subst e₁ e₂
    rw [εNFA.isPath_nil] at h₁ h₂
    subst h₁ h₂
    exact ⟨[], rfl, .nil _⟩
  | succ n ih =>
    intro x₁ x₂ p q hn hR h₁ h₂ he
    -- a right ε-move
    have right_none : ∀ x₂', x₂ = none :: x₂' →
        ∃ x, x.reduceOption = x₁.reduceOption ∧ M.IsPath (p, q) (p', q') x := by
      rintro x₂' rfl
      cases h₂ with
      | cons t _ _ _ _ ht h₂' =>
        have hm : (p, t) ∈ M.step (p, q) none := by
          rw [hstep_none _ hR]; exact Or.inr ⟨rfl, ht⟩
        obtain ⟨x, ex, hx⟩ := ih x₁ x₂' p t (by simp at hn; omega) (hR_closed _ hR _ hm) h₁ h₂'
          (by simpa using he)
        exact ⟨none :: x, by simpa using ex, .cons _ _ _ _ _ hm hx⟩
    match x₁, h₁, he, hn, right_none with
    | none :: x₁', h₁, he, hn, _ =>
      cases h₁ with
      | cons t _ _ _ _ ht h₁' =>
        have hm : (t, q) ∈ M.step (p, q) none := by
          rw [hstep_none _ hR]; exact Or.inl ⟨ht, rfl⟩
        obtain ⟨x, ex, hx⟩ := ih x₁' x₂ t q (by simp at hn; omega) (hR_closed _ hR _ hm) h₁' h₂
          (by simpa using he)
        exact ⟨none :: x, by simpa using ex, .cons _ _ _ _ _ hm hx⟩
    | some a :: x₁', h₁, he, hn, right_none =>
      match x₂, h₂, he, hn, right_none with
      | none :: x₂', _, _, _, right_none => exact right_none _ rfl
      | [], _, he, _, _ => simp at he
      | some b :: x₂', h₂, he, hn, _ =>
        simp only [List.reduceOption_cons_of_some, List.cons.injEq] at he
        obtain ⟨rfl, he⟩ := he
        cases h₁ with
        | cons t₁ _ _ _ _ ht₁ h₁' =>
        cases h₂ with
        | cons t₂ _ _ _ _ ht₂ h₂' =>
          have hm : (t₁, t₂) ∈ M.step (p, q) (some a) := by
            rw [hstep_some _ hR]; exact ⟨ht₁, ht₂⟩
          obtain ⟨x, ex, hx⟩ := ih x₁' x₂' t₁ t₂ (by simp at hn; omega) (hR_closed _ hR _ hm)
            h₁' h₂' he
          exact ⟨some a :: x, by simpa using ex, .cons _ _ _ _ _ hm hx⟩
    | [], h₁, he, hn, right_none =>
      match x₂, h₂, he, hn, right_none with
      | none :: x₂', _, _, _, right_none => exact right_none _ rfl
      | some b :: x₂', _, he, _, _ => simp at he
      | [], h₂, _, _, _ =>
        rw [εNFA.isPath_nil] at h₁ h₂
        subst h₁ h₂
        exact ⟨[], rfl, .nil _⟩

end Inter

/-- Intersection on the product states in `R` (a set containing the initial pair and closed
under the transitions of `M`, e.g. the pairs a work-list search has expanded). -/
theorem accepts_inter
    (M : εNFA α (σ₁ × σ₂)) (M₁ : εNFA α σ₁) (M₂ : εNFA α σ₂) (R : Set (σ₁ × σ₂))
    (i₁ : σ₁) (i₂ : σ₂)
    (hs₁ : M₁.start = {i₁}) (hs₂ : M₂.start = {i₂}) (hs : M.start = {(i₁, i₂)})
    (hR_init : (i₁, i₂) ∈ R) (hR_closed : ∀ s ∈ R, ∀ a, M.step s a ⊆ R)
    (hstep_none : ∀ s ∈ R, M.step s none =
      {t | (t.1 ∈ M₁.step s.1 none ∧ t.2 = s.2) ∨ (t.1 = s.1 ∧ t.2 ∈ M₂.step s.2 none)})
    (hstep_some : ∀ s ∈ R, ∀ a, M.step s (some a) =
      {t | t.1 ∈ M₁.step s.1 (some a) ∧ t.2 ∈ M₂.step s.2 (some a)})
    (hacc : ∀ s ∈ R, s ∈ M.accept ↔ s.1 ∈ M₁.accept ∧ s.2 ∈ M₂.accept) :
    M.accepts = M₁.accepts ⊓ M₂.accepts := by
  ext w
  rw [Language.mem_inf]
  simp only [εNFA.mem_accepts_iff_exists_path, hs, hs₁, hs₂, mem_singleton_iff]
  constructor
  · rintro ⟨s, t, x, rfl, ht, rfl, hx⟩
    have htR : t ∈ R := isPath_mem_closed M R hR_closed hx hR_init
    obtain ⟨x₁, x₂, e₁, e₂, h₁, h₂⟩ :=
      inter_project M M₁ M₂ R hR_closed hstep_none hstep_some hx hR_init
    obtain ⟨ha₁, ha₂⟩ := (hacc t htR).mp ht
    exact ⟨⟨_, _, x₁, rfl, ha₁, e₁, h₁⟩, ⟨_, _, x₂, rfl, ha₂, e₂, h₂⟩⟩
  · rintro ⟨⟨_, p', x₁, rfl, ha₁, rfl, h₁⟩, ⟨_, q', x₂, rfl, ha₂, e₂, h₂⟩⟩
    obtain ⟨x, ex, hx⟩ := inter_build M M₁ M₂ R hR_closed hstep_none hstep_some _ x₁ x₂ _ _
      le_rfl hR_init h₁ h₂ e₂.symm
    have htR : (p', q') ∈ R := isPath_mem_closed M R hR_closed hx hR_init
    exact ⟨_, _, x, rfl, (hacc _ htR).mpr ⟨ha₁, ha₂⟩, ex, hx⟩

section ShuffleProd

variable (M : εNFA α (σ₁ × σ₂)) (M₁ : εNFA α σ₁) (M₂ : εNFA α σ₂) (Q₁ : Set σ₁) (Q₂ : Set σ₂)
  (hQ₁ : ∀ q ∈ Q₁, ∀ a, M₁.step q a ⊆ Q₁) (hQ₂ : ∀ q ∈ Q₂, ∀ a, M₂.step q a ⊆ Q₂)
  (hstep : ∀ p ∈ Q₁, ∀ q ∈ Q₂, ∀ a, M.step (p, q) a =
    {t | (t.1 ∈ M₁.step p a ∧ t.2 = q) ∨ (t.1 = p ∧ t.2 ∈ M₂.step q a)})

theorem shuffle_cons_left (a : Option α) {x₁ : List (Option α)} {v w : List α}
    (h : Shuffle x₁.reduceOption v w) :
    Shuffle (a :: x₁).reduceOption v ((a :: List.nil).reduceOption ++ w) := by
  cases a with
  | none => simpa using h
  | some a => simpa using Shuffle.left a h

theorem shuffle_cons_right (a : Option α) {x₂ : List (Option α)} {u w : List α}
    (h : Shuffle u x₂.reduceOption w) :
    Shuffle u (a :: x₂).reduceOption ((a :: List.nil).reduceOption ++ w) := by
  cases a with
  | none => simpa using h
  | some a => simpa using Shuffle.right a h

include hQ₁ hQ₂ hstep

/-- Projection of a path of the shuffle product onto its components. -/
theorem shuffle_project {s t : σ₁ × σ₂} {x : List (Option α)} (h : M.IsPath s t x)
    (hs₁ : s.1 ∈ Q₁) (hs₂ : s.2 ∈ Q₂) :
    ∃ x₁ x₂, M₁.IsPath s.1 t.1 x₁ ∧ M₂.IsPath s.2 t.2 x₂ ∧
      Shuffle x₁.reduceOption x₂.reduceOption x.reduceOption := by
  induction h with
  | nil s => exact ⟨[], [], .nil _, .nil _, .nil⟩
  | cons t s u a x ht _ ih =>
    obtain ⟨p, q⟩ := s
    rw [hstep p hs₁ q hs₂] at ht
    have hx : (a :: x).reduceOption = (a :: List.nil).reduceOption ++ x.reduceOption := by
      rw [← List.reduceOption_append]; rfl
    rw [hx]
    rcases ht with ⟨ht₁, ht₂⟩ | ⟨ht₁, ht₂⟩
    · obtain ⟨x₁, x₂, h₁, h₂, hsh⟩ := ih (hQ₁ p hs₁ a ht₁) (by rw [ht₂]; exact hs₂)
      refine ⟨a :: x₁, x₂, .cons _ _ _ _ _ ht₁ h₁, ?_, shuffle_cons_left a hsh⟩
      rw [← ht₂]; exact h₂
    · obtain ⟨x₁, x₂, h₁, h₂, hsh⟩ := ih (by rw [ht₁]; exact hs₁) (hQ₂ q hs₂ a ht₂)
      refine ⟨x₁, a :: x₂, ?_, .cons _ _ _ _ _ ht₂ h₂, shuffle_cons_right a hsh⟩
      rw [← ht₁]; exact h₁

/-- Component paths and an interleaving of the words they read give a path of the shuffle
product reading that interleaving. -/
theorem shuffle_build {p' : σ₁} {q' : σ₂} (n : ℕ) :
    ∀ (x₁ x₂ : List (Option α)) (u v w : List α) (p : σ₁) (q : σ₂),
      x₁.length + x₂.length ≤ n → p ∈ Q₁ → q ∈ Q₂ →
      M₁.IsPath p p' x₁ → M₂.IsPath q q' x₂ → x₁.reduceOption = u → x₂.reduceOption = v →
      Shuffle u v w → ∃ x, x.reduceOption = w ∧ M.IsPath (p, q) (p', q') x := by
  induction n with
  | zero =>
    intro x₁ x₂ u v w p q hn _ _ h₁ h₂ eu ev hsh
    have e₁ : x₁ = [] := List.length_eq_zero_iff.mp (by omega)
    have e₂ : x₂ = [] := List.length_eq_zero_iff.mp (by omega)
    subst e₁ e₂
    rw [εNFA.isPath_nil] at h₁ h₂
    subst h₁ h₂
    simp only [List.reduceOption_nil] at eu ev
    subst eu ev
    cases hsh
    exact ⟨[], rfl, .nil _⟩
  | succ n ih =>
    intro x₁ x₂ u v w p q hn hp hq h₁ h₂ eu ev hsh
    -- a move of the left component along the first edge of `x₁`
    have left_move : ∀ a x₁' w', x₁ = a :: x₁' → Shuffle x₁'.reduceOption v w' →
        (a :: List.nil).reduceOption ++ w' = w →
        ∃ x, x.reduceOption = w ∧ M.IsPath (p, q) (p', q') x := by
      rintro a x₁' w' rfl hsh' rfl
      cases h₁ with
      | cons t _ _ _ _ ht h₁' =>
        have hm : (t, q) ∈ M.step (p, q) a := by
          rw [hstep p hp q hq]; exact Or.inl ⟨ht, rfl⟩
        obtain ⟨x, ex, hx⟩ := ih x₁' x₂ _ v w' t q (by simp at hn; omega) (hQ₁ p hp a ht) hq
          h₁' h₂ rfl ev hsh'
        refine ⟨a :: x, ?_, .cons _ _ _ _ _ hm hx⟩
        rw [← ex, ← List.reduceOption_append]; rfl
    have right_move : ∀ a x₂' w', x₂ = a :: x₂' → Shuffle u x₂'.reduceOption w' →
        (a :: List.nil).reduceOption ++ w' = w →
        ∃ x, x.reduceOption = w ∧ M.IsPath (p, q) (p', q') x := by
      rintro a x₂' w' rfl hsh' rfl
      cases h₂ with
      | cons t _ _ _ _ ht h₂' =>
        have hm : (p, t) ∈ M.step (p, q) a := by
          rw [hstep p hp q hq]; exact Or.inr ⟨rfl, ht⟩
        obtain ⟨x, ex, hx⟩ := ih x₁ x₂' u _ w' p t (by simp at hn; omega) hp (hQ₂ q hq a ht)
          h₁ h₂' eu rfl hsh'
        refine ⟨a :: x, ?_, .cons _ _ _ _ _ hm hx⟩
        rw [← ex, ← List.reduceOption_append]; rfl
    match x₁, eu, left_move with
    | none :: x₁', eu, left_move =>
      exact left_move none x₁' w rfl (by rw [← eu] at hsh; simpa using hsh) (by simp)
    | [], eu, _ =>
      match x₂, ev, right_move with
      | none :: x₂', ev, right_move =>
        exact right_move none x₂' w rfl (by rw [← ev] at hsh; simpa using hsh) (by simp)
      | [], ev, _ =>
        simp only [List.reduceOption_nil] at eu ev
        subst eu ev
        cases hsh
        rw [εNFA.isPath_nil] at h₁ h₂
        subst h₁ h₂
        exact ⟨[], rfl, .nil _⟩
      | some b :: x₂', ev, right_move =>
        simp only [List.reduceOption_nil, List.reduceOption_cons_of_some] at eu ev
        subst eu ev
        cases hsh with
        | right _ hsh' => exact right_move (some b) x₂' _ rfl hsh' (by simp)
    | some a :: x₁', eu, left_move =>
      match x₂, ev, right_move with
      | none :: x₂', ev, right_move =>
        exact right_move none x₂' w rfl (by rw [← ev] at hsh; simpa using hsh) (by simp)
      | [], ev, _ =>
        simp only [List.reduceOption_nil, List.reduceOption_cons_of_some] at eu ev
        subst eu ev
        cases hsh with
        | left _ hsh' => exact left_move (some a) x₁' _ rfl hsh' (by simp)
      | some b :: x₂', ev, right_move =>
        simp only [List.reduceOption_cons_of_some] at eu ev
        subst eu ev
        cases hsh with
        | left _ hsh' =>
          exact left_move (some a) x₁' _ rfl (by simpa using hsh') (by simp)
        | right _ hsh' =>
          exact right_move (some b) x₂' _ rfl (by simpa using hsh') (by simp)

end ShuffleProd

/-- Shuffle product on `Q₁ × Q₂` (closed sets of states of the operands). -/
theorem accepts_shuffle
    (M : εNFA α (σ₁ × σ₂)) (M₁ : εNFA α σ₁) (M₂ : εNFA α σ₂) (Q₁ : Set σ₁) (Q₂ : Set σ₂)
    (i₁ : σ₁) (i₂ : σ₂)
    (hQ₁ : ∀ q ∈ Q₁, ∀ a, M₁.step q a ⊆ Q₁) (hQ₂ : ∀ q ∈ Q₂, ∀ a, M₂.step q a ⊆ Q₂)
    (hi₁ : i₁ ∈ Q₁) (hi₂ : i₂ ∈ Q₂)
    (hs₁ : M₁.start = {i₁}) (hs₂ : M₂.start = {i₂}) (hs : M.start = {(i₁, i₂)})
    (hstep : ∀ p ∈ Q₁, ∀ q ∈ Q₂, ∀ a, M.step (p, q) a =
      {t | (t.1 ∈ M₁.step p a ∧ t.2 = q) ∨ (t.1 = p ∧ t.2 ∈ M₂.step q a)})
    (hacc : ∀ p ∈ Q₁, ∀ q ∈ Q₂, (p, q) ∈ M.accept ↔ p ∈ M₁.accept ∧ q ∈ M₂.accept) :
    M.accepts = shuffleLang M₁.accepts M₂.accepts := by
  ext w
  simp only [shuffleLang, εNFA.mem_accepts_iff_exists_path, hs, hs₁, hs₂, mem_singleton_iff]
  constructor
  · rintro ⟨s, ⟨p', q'⟩, x, rfl, ht, rfl, hx⟩
    obtain ⟨x₁, x₂, h₁, h₂, hsh⟩ :=
      shuffle_project M M₁ M₂ Q₁ Q₂ hQ₁ hQ₂ hstep hx hi₁ hi₂
    have hp' : p' ∈ Q₁ := isPath_mem_closed M₁ Q₁ hQ₁ h₁ hi₁
    have hq' : q' ∈ Q₂ := isPath_mem_closed M₂ Q₂ hQ₂ h₂ hi₂
    obtain ⟨ha₁, ha₂⟩ := (hacc p' hp' q' hq').mp ht
    exact ⟨_, ⟨_, _, x₁, rfl, ha₁, rfl, h₁⟩, _, ⟨_, _, x₂, rfl, ha₂, rfl, h₂⟩, hsh⟩
  · rintro ⟨u, ⟨_, p', x₁, rfl, ha₁, eu, h₁⟩, v, ⟨_, q', x₂, rfl, ha₂, ev, h₂⟩, hsh⟩
    obtain ⟨x, ex, hx⟩ := shuffle_build M M₁ M₂ Q₁ Q₂ hQ₁ hQ₂ hstep _ x₁ x₂ u v w _ _
      le_rfl hi₁ hi₂ h₁ h₂ eu ev hsh
    have hp' : p' ∈ Q₁ := isPath_mem_closed M₁ Q₁ hQ₁ h₁ hi₁
    have hq' : q' ∈ Q₂ := isPath_mem_closed M₂ Q₂ hQ₂ h₂ hi₂
    exact ⟨_, _, x, rfl, (hacc p' hp' q' hq').mpr ⟨ha₁, ha₂⟩, ex, hx⟩

end AV.EpsOps
