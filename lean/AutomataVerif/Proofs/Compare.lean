/-
Proofs/Compare.lean — `_find_state` over an implicit deterministic graph, and its three
clients `isempty`, `issubset`, `isdisjoint` (core only).

`findState` answers "is a target state reachable by some word of the implicit graph";
for the lazy product `cross_run` (Proofs/Product.lean) translates product runs into the
pair of runs of the operands.
-/
import AutomataVerif.Proofs.Product
import AutomataVerif.Proofs.PyShape
import AutomataVerif.Model.DFACompare

namespace AV
namespace DFA

set_option linter.unusedSectionVars false

variable {σ α : Type} [DecidableEq σ] [DecidableEq α]

/-! ### `_find_state` -/

section findState
variable {S : Type} [DecidableEq S] {succ : S → List (α × S)} {univ : List S} {fuel : Nat} {init : S}

/-- Word extraction: every BFS-discovered state is the end of the implicit run of a word. -/
theorem bfsStates_word (h : ExpandHyp succ univ fuel init) {s : S}
    (hs : s ∈ bfsStates succ fuel init) : ∃ w, implRun succ (some init) w = some s :=
  expand_states_reachable (fun _ => false) ([] : List α) h hs

/-- Conversely the end of every implicit run is discovered. -/
theorem implRun_mem_bfsStates (h : ExpandHyp succ univ fuel init) {w : List α} {s : S}
    (hw : implRun succ (some init) w = some s) : s ∈ bfsStates succ fuel init :=
  (expand_run (fun _ => false) ([] : List α) h w).2 s hw

/-- `_find_state` is exact: it answers `True` iff some word leads the implicit
deterministic graph from the initial state to a target state. -/
theorem findState_iff (h : ExpandHyp succ univ fuel init) (target : S → Bool) :
    findState succ target fuel init = true ↔
      ∃ w s, implRun succ (some init) w = some s ∧ target s = true := by
  unfold findState
  rw [List.any_eq_true]
  constructor
  · rintro ⟨s, hs, ht⟩
    obtain ⟨w, hw⟩ := bfsStates_word h hs
    exact ⟨w, s, hw, ht⟩
  · rintro ⟨w, s, hw, ht⟩
    exact ⟨s, implRun_mem_bfsStates h hw, ht⟩

end findState

/-! ### facts about valid DFAs -/

theorem states_sub_graphNodes (d : DFA σ α) {q : σ} (hq : q ∈ d.states) : q ∈ d.graphNodes := by
  unfold graphNodes; rw [mem_dedup]; exact List.mem_append_left _ (List.mem_append_left _ hq)

theorem keys_sub_graphNodes (d : DFA σ α) {q : σ} (hq : q ∈ akeys d.trans) : q ∈ d.graphNodes := by
  unfold graphNodes; rw [mem_dedup]; exact List.mem_append_left _ (List.mem_append_right _ hq)

theorem row_target_mem_graphNodes (d : DFA σ α) {q : σ} {e : α × σ} (he : e ∈ d.row q) :
    e.2 ∈ d.graphNodes := by
  simp only [row, row?] at he
  cases hr : alookup q d.trans with
  | none => simp [hr] at he
  | some r =>
    simp only [hr, Option.getD_some] at he
    unfold graphNodes
    rw [mem_dedup]
    refine List.mem_append_right _ (List.mem_flatMap.mpr ⟨(q, r), alookup_some_mem hr, ?_⟩)
    exact List.mem_map.mpr ⟨e, he, rfl⟩

/-- The BFS of `isempty` (over `transitions[state].items()`) is exhaustive. -/
theorem row_expandHyp (d : DFA σ α) (hv : d.validate = .ok ()) (pd : d.PyShape) :
    ExpandHyp (fun q => d.row q) d.graphNodes (d.graphNodes.length + 1) d.init := by
  have wf := (DFA.validate_eq_ok d).mp hv
  refine ⟨states_sub_graphNodes d wf.initOk, ?_, ?_, Nat.lt_succ_self _⟩
  · intro u _ e he; exact row_target_mem_graphNodes d he
  · intro u _; exact pd.row_nodup u

/-- The implicit graph of the rows is the DFA itself. -/
theorem implRun_row (d : DFA σ α) (s : Option σ) (w : List α) :
    implRun (fun q => d.row q) s w = d.run s w := by
  induction w generalizing s with
  | nil => rfl
  | cons a w ih =>
    rw [implRun_cons, run_cons, ih]
    cases s <;> rfl

/-- A word with a symbol outside the alphabet is rejected by a valid DFA. -/
theorem accepts_foreign {d : DFA σ α} (wf : d.WF) {w : List α} (hw : ∃ a ∈ w, a ∉ d.syms) :
    d.accepts w = false := by
  obtain ⟨a, ha, hna⟩ := hw
  obtain ⟨u, v, rfl⟩ := List.append_of_mem ha
  unfold accepts
  rw [run_append, run_cons, step?_foreign wf _ hna, run_none]
  rfl

theorem symsEq_iff (A B : DFA σ α) : A.symsEq B = true ↔ ∀ a, a ∈ A.syms ↔ a ∈ B.syms := by
  unfold symsEq
  simp only [Bool.and_eq_true, List.all_eq_true, decide_eq_true_eq]
  constructor
  · rintro ⟨h1, h2⟩ a; exact ⟨h1 a, h2 a⟩
  · intro h; exact ⟨fun a ha => (h a).mp ha, fun a ha => (h a).mpr ha⟩

theorem symsEq_symm {A B : DFA σ α} (h : A.symsEq B = true) : B.symsEq A = true := by
  rw [symsEq_iff] at h ⊢
  exact fun a => (h a).symm

/-! ### `isempty` -/

/-- `isempty` is exact: it answers `True` iff no word is accepted. -/
theorem isempty_iff (d : DFA σ α) (hv : d.validate = .ok ()) (pd : d.PyShape) :
    d.isempty = true ↔ ∀ w, d.accepts w = false := by
  unfold isempty
  rw [Bool.not_eq_true', ← Bool.not_eq_true, findState_iff (row_expandHyp d hv pd)]
  constructor
  · intro h w
    cases hacc : d.accepts w with
    | false => rfl
    | true =>
      exfalso
      apply h
      unfold accepts at hacc
      cases hr : d.run (some d.init) w with
      | none => rw [hr] at hacc; simp [isFinal] at hacc
      | some f =>
        rw [hr] at hacc
        refine ⟨w, f, ?_, ?_⟩
        · rw [implRun_row]; exact hr
        · simpa [isFinal] using hacc
  · rintro h ⟨w, s, hw, ht⟩
    have := h w
    rw [implRun_row] at hw
    unfold accepts at this
    rw [hw] at this
    simp only [isFinal] at this
    rw [ht] at this
    cases this

/-! ### the lazy product under `_find_state` -/

/-- The BFS over the lazy product is exhaustive (same statement as `C04.product_expandHyp`,
repeated here so that the comparison proofs do not depend on a `Props` file). -/
theorem cmp_cross_expandHyp (A B : DFA σ α) (l r : Bool) (hA : A.validate = .ok ())
    (hB : B.validate = .ok ()) (pA : A.PyShape) :
    ExpandHyp (A.crossSucc B l r) (A.prodUniv B) (A.prodFuel B) (some A.init, some B.init) := by
  have wfA := (DFA.validate_eq_ok A).mp hA
  have wfB := (DFA.validate_eq_ok B).mp hB
  refine ⟨?_, ?_, ?_, ?_⟩
  · rw [mem_prodUniv]
    exact ⟨Or.inr ⟨A.init, states_sub_graphNodes A wfA.initOk, rfl⟩,
      Or.inr ⟨B.init, states_sub_graphNodes B wfB.initOk, rfl⟩⟩
  · intro u _ e he
    exact crossSucc_closed A B l r u e he
  · rintro ⟨x, y⟩ _
    refine crossSucc_keys_nodup A B l r (x, y) ?_
    cases x with
    | none => simp [sideRow, akeys]
    | some q => exact pA.row_nodup q
  · rw [length_prodUniv]; unfold prodFuel; omega

/-- Searching the lazy product for a pair satisfying `tgt (final in A) (final in B)` is
exact whenever `tgt` is false on every pair the product stops exploring (`Dead`). -/
theorem findState_cross_iff (A B : DFA σ α) (l r : Bool) (hA : A.validate = .ok ())
    (hB : B.validate = .ok ()) (pA : A.PyShape) (tgt : Bool → Bool → Bool)
    (hdead : ∀ x y, Dead l r x y → tgt (A.isFinal x) (B.isFinal y) = false) :
    findState (A.crossSucc B l r) (fun s => tgt (A.isFinalO s.1) (B.isFinalO s.2)) (A.prodFuel B)
        (some A.init, some B.init) = true ↔
      ∃ w, tgt (A.accepts w) (B.accepts w) = true := by
  rw [findState_iff (cmp_cross_expandHyp A B l r hA hB pA)]
  constructor
  · rintro ⟨w, s, hw, ht⟩
    refine ⟨w, ?_⟩
    rcases cross_run A B l r w (some A.init) (some B.init) with h | ⟨h, _⟩
    · rw [h] at hw; cases hw; exact ht
    · rw [h] at hw; cases hw
  · rintro ⟨w, ht⟩
    rcases cross_run A B l r w (some A.init) (some B.init) with h | ⟨_, hd⟩
    · exact ⟨w, _, h, ht⟩
    · have := hdead _ _ hd
      unfold accepts at ht
      rw [this] at ht; cases ht

/-- `issubset` is exact: it succeeds and answers `True` iff every word accepted by the
left operand is accepted by the right one. -/
theorem issubset_spec (A B : DFA σ α) (hA : A.validate = .ok ()) (hB : B.validate = .ok ())
    (pA : A.PyShape) (hs : A.symsEq B = true) :
    ∃ b, A.issubset B = .ok b ∧ (b = true ↔ ∀ w, A.accepts w = true → B.accepts w = true) := by
  unfold issubset
  simp only [hs, Bool.not_true, Bool.false_eq_true, if_false]
  refine ⟨_, rfl, ?_⟩
  rw [Bool.not_eq_true', ← Bool.not_eq_true,
    findState_cross_iff A B false true hA hB pA (fun a b => a && !b)]
  · constructor
    · intro h w hw
      cases hb : B.accepts w with
      | true => rfl
      | false => exact absurd ⟨w, by simp [hw, hb]⟩ h
    · rintro h ⟨w, hw⟩
      simp only [Bool.and_eq_true, Bool.not_eq_true'] at hw
      rw [h w hw.1] at hw
      cases hw.2
  · rintro x y (⟨_, hx⟩ | ⟨hr, _⟩ | ⟨hx, _⟩)
    · subst hx; simp [isFinal]
    · cases hr
    · subst hx; simp [isFinal]

/-- `isdisjoint` is exact: it succeeds and answers `True` iff no word is accepted by both. -/
theorem isdisjoint_spec (A B : DFA σ α) (hA : A.validate = .ok ()) (hB : B.validate = .ok ())
    (pA : A.PyShape) (hs : A.symsEq B = true) :
    ∃ b, A.isdisjoint B = .ok b ∧ (b = true ↔ ∀ w, ¬ (A.accepts w = true ∧ B.accepts w = true)) := by
  unfold isdisjoint
  simp only [hs, Bool.not_true, Bool.false_eq_true, if_false]
  refine ⟨_, rfl, ?_⟩
  rw [Bool.not_eq_true', ← Bool.not_eq_true,
    findState_cross_iff A B false false hA hB pA (fun a b => a && b)]
  · constructor
    · intro h w hw
      exact h ⟨w, by simp [hw.1, hw.2]⟩
    · rintro h ⟨w, hw⟩
      simp only [Bool.and_eq_true] at hw
      exact h w hw
  · rintro x y (⟨_, hx⟩ | ⟨_, hy⟩ | ⟨hx, _⟩)
    · subst hx; simp [isFinal]
    · subst hy; simp [isFinal]
    · subst hx; simp [isFinal]

/-- Different alphabets: the two product-based comparisons raise `SymbolMismatchError`. -/
theorem issubset_mismatch (A B : DFA σ α) (hs : A.symsEq B = false) :
    A.issubset B = .error (.lib .symbolMismatchError) ∧
    A.isdisjoint B = .error (.lib .symbolMismatchError) := by
  unfold issubset isdisjoint
  simp [hs]

end DFA
end AV
