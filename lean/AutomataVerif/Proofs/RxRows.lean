/-
Proofs/RxRows.lean — every row of a builder's transition dict has pairwise distinct symbols
(it is a Python dict).  Needed where the code iterates `row.items()` (`shuffle_product`).
Core only.
-/
import AutomataVerif.Proofs.RxRepeat

namespace AV.Rx

set_option linter.unusedSectionVars false

variable {κ β : Type} [DecidableEq κ] [DecidableEq β]

theorem mem_ainsert {k : κ} {v : β} {d : List (κ × β)} {x : κ × β} (h : x ∈ ainsert k v d) :
    x = (k, v) ∨ x ∈ d := by
  induction d with
  | nil => simp [ainsert] at h; exact Or.inl h
  | cons kv t ih =>
    obtain ⟨k0, v0⟩ := kv
    by_cases h0 : k0 = k
    · simp only [ainsert, h0, if_true, List.mem_cons] at h
      rcases h with h | h
      · exact Or.inl h
      · exact Or.inr (List.mem_cons_of_mem _ h)
    · simp only [ainsert, h0, if_false, List.mem_cons] at h
      rcases h with h | h
      · exact Or.inr (by rw [h]; simp)
      · rcases ih h with h | h
        · exact Or.inl h
        · exact Or.inr (List.mem_cons_of_mem _ h)

end AV.Rx

namespace AV.Rx

set_option linter.unusedSectionVars false

variable {α : Type} [DecidableEq α]

/-- Every row has pairwise distinct symbols. -/
def RowsNodup (T : Trans α) : Prop := ∀ kv ∈ T, (akeys kv.2).Nodup

theorem RowsNodup.ainsert {T : Trans α} (h : RowsNodup T) {k : Nat} {row : Row α}
    (hr : (akeys row).Nodup) : RowsNodup (ainsert k row T) := by
  intro kv hkv
  rcases mem_ainsert hkv with e | e
  · rw [e]; exact hr
  · exact h kv e

theorem RowsNodup.aupdate {T1 T2 : Trans α} (h1 : RowsNodup T1) (h2 : RowsNodup T2) :
    RowsNodup (aupdate T1 T2) := by
  induction T2 generalizing T1 with
  | nil => exact h1
  | cons kv t ih =>
    rw [aupdate_cons]
    exact ih (h1.ainsert (h2 kv (by simp))) (fun x hx => h2 x (List.mem_cons_of_mem _ hx))

theorem nodup_akeys_addTarget {row : Row α} (h : (akeys row).Nodup) (a : Option α) (t : Nat) :
    (akeys (addTarget a t row)).Nodup := nodup_akeys_ainsert h

theorem nodup_akeys_addTargets {row : Row α} (h : (akeys row).Nodup) (a : Option α)
    (ts : List Nat) : (akeys (addTargets a ts row)).Nodup := nodup_akeys_ainsert h

theorem RowsNodup.addEdgeE {T T' : Trans α} (h : RowsNodup T) {s t : Nat} {a : Option α}
    (e : addEdgeE T s a t = .ok T') : RowsNodup T' := by
  unfold Rx.addEdgeE at e
  cases hrow : alookup s T with
  | none => simp [hrow] at e
  | some row =>
    simp only [hrow] at e
    cases e
    exact h.ainsert (nodup_akeys_addTarget (h _ (alookup_some_mem hrow)) a t)

theorem RowsNodup.addEdgesE {T T' : Trans α} (h : RowsNodup T) {srcs : List Nat} {t : Nat}
    {a : Option α} (e : addEdgesE T srcs a t = .ok T') : RowsNodup T' := by
  unfold Rx.addEdgesE at e
  induction srcs generalizing T with
  | nil => simp [List.foldlM] at e; cases e; exact h
  | cons s rest ih =>
    rw [List.foldlM_cons] at e
    cases h1 : Rx.addEdgeE T s a t with
    | error x => rw [h1] at e; simp [bind, Except.bind] at e
    | ok T1 =>
      rw [h1] at e
      exact ih (h.addEdgeE h1) e

theorem RowsNodup.copyTrans {T : Trans α} (h : RowsNodup T) (f : Nat → Nat) :
    RowsNodup (Builder.copyTrans f T) := by
  intro kv hkv
  unfold Builder.copyTrans at hkv
  obtain ⟨kv0, hkv0, rfl⟩ := List.mem_map.mp hkv
  have : akeys (kv0.2.map fun e => (e.1, dedup (e.2.map f))) = akeys kv0.2 := by
    simp [akeys, List.map_map, Function.comp_def]
  show (akeys (kv0.2.map fun e => (e.1, dedup (e.2.map f)))).Nodup
  rw [this]; exact h kv0 hkv0

namespace Builder

theorem rows_lit (a : α) (c : Nat) : RowsNodup (fromStringLiteral [a] c).1.trans := by
  rw [fromStringLiteral_single]
  intro kv hkv
  simp at hkv
  rcases hkv with rfl | rfl <;> simp [akeys]

theorem rows_eps (c : Nat) : RowsNodup (fromStringLiteral ([] : List α) c).1.trans := by
  rw [fromStringLiteral_nil]
  intro kv hkv
  simp at hkv
  subst hkv; simp [akeys]

theorem rows_wildcard (syms : List α) (c : Nat) : RowsNodup (wildcard syms c).1.trans := by
  intro kv hkv
  simp only [wildcard, List.mem_cons, List.not_mem_nil, or_false] at hkv
  have key : ∀ (l : List α) (acc : Row α), (akeys acc).Nodup →
      (akeys (l.foldl (fun row a => ainsert (some a) [c + 1] row) acc)).Nodup := by
    intro l
    induction l with
    | nil => intro acc h; exact h
    | cons x t ih => intro acc h; exact ih _ (nodup_akeys_ainsert h)
  rcases hkv with rfl | rfl
  · exact key syms [] (by simp [akeys])
  · simp [akeys]

theorem rows_union {b1 b2 : Builder α} (h1 : RowsNodup b1.trans) (h2 : RowsNodup b2.trans)
    (c : Nat) : RowsNodup (b1.union b2 c).1.trans :=
  (h1.aupdate h2).ainsert (by simp [akeys])

theorem rows_concatenate {b1 b2 b : Builder α} (h1 : RowsNodup b1.trans)
    (h2 : RowsNodup b2.trans) (e : b1.concatenate b2 = .ok b) : RowsNodup b.trans := by
  unfold concatenate at e
  cases hT : addEdgesE (aupdate b1.trans b2.trans) b1.finals none b2.init with
  | error x => simp [hT] at e
  | ok T =>
    simp only [hT] at e
    cases e
    exact (h1.aupdate h2).addEdgesE hT

theorem rows_repeatStep {b : Builder α} (hb : RowsNodup b.trans) {lo i : Nat}
    {st st' : RepState α} (h : RowsNodup st.T) (e : repeatStep b lo st i = .ok st') :
    RowsNodup st'.T := by
  unfold repeatStep at e
  simp only at e
  cases hT : addEdgesE (aupdate st.T (copyTrans (b.copyName st.ctr) b.trans)) st.prevFinals none
      (b.copyName st.ctr b.init) with
  | error x => simp [hT] at e
  | ok T =>
    simp only [hT] at e
    cases e
    exact (h.aupdate (hb.copyTrans _)).addEdgesE hT

theorem rows_repeatLoop {b : Builder α} (hb : RowsNodup b.trans) {lo : Nat} (l : List Nat) :
    ∀ (st st' : RepState α), RowsNodup st.T → l.foldlM (repeatStep b lo) st = .ok st' →
      RowsNodup st'.T := by
  induction l with
  | nil => intro st st' h e; simp [List.foldlM] at e; cases e; exact h
  | cons i rest ih =>
    intro st st' h e
    rw [List.foldlM_cons] at e
    cases h1 : repeatStep b lo st i with
    | error x => rw [h1] at e; simp [bind, Except.bind] at e
    | ok st1 =>
      rw [h1] at e
      exact ih st1 st' (rows_repeatStep hb h h1) e

theorem rows_repeat {b r : Builder α} (hb : RowsNodup b.trans) {lo c c' : Nat} {hi : Option Nat}
    (e : b.repeat_ lo hi c = .ok (r, c')) : RowsNodup r.trans := by
  unfold repeat_ at e
  simp only at e
  split at e
  · cases e
  · rename_i st hst
    have hst' := rows_repeatLoop hb _ _ st (hb.ainsert (by simp [akeys])) hst
    cases hi with
    | none =>
      simp only at e
      cases hT : addEdgesE st.T st.prevFinals none st.prevInit with
      | error x => simp [hT] at e
      | ok T =>
        simp only [hT] at e
        cases e
        exact hst'.addEdgesE hT
    | some h0 =>
      simp only at e
      cases e
      exact hst'

end Builder
end AV.Rx
