/-
Proofs/TMTape.lean — how `write_symbol` / `move` act on the head-relative view of a `TMTape`
(both tape ends, all directions).  The trusted definitions `Tape.view` and `shift` live in
`Spec/TMTape.lean`.
-/
import AutomataVerif.Spec.TMTape
import Mathlib.Logic.Function.Basic

namespace AV.TM
variable {Γ : Type}

namespace Tape

theorem view_def (t : Tape Γ) (i : Int) :
    t.view i = if 0 ≤ (t.pos : Int) + i then t.cells.getD ((t.pos : Int) + i).toNat t.blank
      else t.blank := rfl

@[simp] theorem init_blank (c : List Γ) (b : Γ) (p : Nat) : (init c b p).blank = b := rfl
@[simp] theorem init_pos (c : List Γ) (b : Γ) (p : Nat) : (init c b p).pos = p := rfl

theorem init_wf (c : List Γ) (b : Γ) (p : Nat) : (init c b p).WF := by
  unfold WF init
  simp only [List.length_append, List.length_replicate]
  omega

/-- The constructor does not pad when there already is a cell under the cursor. -/
theorem init_cells_of_lt {c : List Γ} {b : Γ} {p : Nat} (h : p < c.length) :
    (init c b p).cells = c := by
  unfold init
  have : p + 1 - c.length = 0 := by omega
  simp [this]

/-- Padding appends blanks only: reading any index with default blank is unchanged. -/
theorem init_getD (c : List Γ) (b : Γ) (p j : Nat) : (init c b p).cells.getD j b = c.getD j b := by
  unfold init
  simp only [List.getD_eq_getElem?_getD, List.getElem?_append, List.getElem?_replicate]
  by_cases h : j < c.length
  · simp [h]
  · simp only [h, if_false]
    have : c[j]? = none := by simp; omega
    rw [this]
    split <;> rfl

/-- `TMTape(w, blank)`: the input from the head rightwards, blank elsewhere. -/
theorem init_view (w : List Γ) (b : Γ) (i : Int) :
    (init w b).view i = if 0 ≤ i then w.getD i.toNat b else b := by
  simp only [view_def, init_blank, init_pos, init_getD]
  simp

theorem read_eq_view (t : Tape Γ) : t.read = t.view 0 := by
  simp [view_def, read]

theorem wf_read {t : Tape Γ} (h : t.WF) : t.cells[t.pos]? = some t.read := by
  unfold read WF at *
  simp [List.getD_eq_getElem?_getD, List.getElem?_eq_getElem h]

@[simp] theorem write_blank (t : Tape Γ) (s : Γ) : (t.write s).blank = t.blank := rfl
@[simp] theorem write_pos (t : Tape Γ) (s : Γ) : (t.write s).pos = t.pos := rfl
theorem write_wf (t : Tape Γ) (s : Γ) : (t.write s).WF := init_wf _ _ _

theorem write_cells {t : Tape Γ} (h : t.WF) (s : Γ) : (t.write s).cells = t.cells.set t.pos s := by
  unfold write
  apply init_cells_of_lt
  unfold WF at h
  simpa using h

theorem write_view {t : Tape Γ} (h : t.WF) (s : Γ) :
    (t.write s).view = Function.update t.view 0 s := by
  funext i
  simp only [view_def, write_blank, write_pos, write_cells h, Function.update_apply]
  unfold WF at h
  by_cases hi : i = 0
  · subst hi
    simp [List.getD_eq_getElem?_getD, h]
  · simp only [hi, if_false]
    split
    · rename_i h0
      have : t.pos ≠ ((t.pos : Int) + i).toNat := by omega
      simp [List.getD_eq_getElem?_getD, this]
    · rfl

@[simp] theorem move_blank (t : Tape Γ) (d : Dir) : (t.move d).blank = t.blank := rfl
theorem move_wf (t : Tape Γ) (d : Dir) : (t.move d).WF := init_wf _ _ _

/-- `move` in closed form (no padding by the constructor is ever needed). -/
theorem move_R {t : Tape Γ} (h : t.WF) :
    t.move .R = { cells := if t.pos + 1 = t.cells.length then t.cells ++ [t.blank] else t.cells,
                  blank := t.blank, pos := t.pos + 1 } := by
  unfold WF at h
  unfold move init
  have e1 : ((t.pos : Int) + 1 = -1) = False := by simp; omega
  simp only [e1, if_false]
  have e2 : ((t.pos : Int) + 1).toNat = t.pos + 1 := by omega
  rw [e2]
  by_cases hl : t.pos + 1 = t.cells.length
  · have : ((t.pos : Int) + 1 = (t.cells.length : Int)) := by omega
    simp [this, hl]
  · have : ¬ ((t.pos : Int) + 1 = (t.cells.length : Int)) := by omega
    have h3 : t.pos + 1 + 1 - t.cells.length = 0 := by omega
    simp [this, hl, h3]

theorem move_L_zero {t : Tape Γ} (_h : t.WF) (h0 : t.pos = 0) :
    t.move .L = { cells := t.blank :: t.cells, blank := t.blank, pos := 0 } := by
  unfold move init
  simp only [h0]
  have hne : ¬ ((0 : Int) = (t.cells.length : Int) + 1) := by omega
  simp [hne]

theorem move_L_succ {t : Tape Γ} (h : t.WF) (h0 : t.pos ≠ 0) :
    t.move .L = { cells := t.cells, blank := t.blank, pos := t.pos - 1 } := by
  unfold WF at h
  unfold move init
  have e1 : ¬ ((t.pos : Int) - 1 = -1) := by omega
  simp only [e1, if_false]
  have e2 : ¬ ((t.pos : Int) - 1 = (t.cells.length : Int)) := by omega
  simp only [e2, if_false]
  have e3 : ((t.pos : Int) - 1).toNat = t.pos - 1 := by omega
  have e4 : t.pos - 1 + 1 - t.cells.length = 0 := by omega
  simp [e3, e4]

theorem move_stay {t : Tape Γ} (h : t.WF) {d : Dir} (hd : d = .N ∨ d = .bad) : t.move d = t := by
  unfold WF at h
  have e2 : ¬ ((t.pos : Int) = (t.cells.length : Int)) := by omega
  have e4 : t.pos + 1 - t.cells.length = 0 := by omega
  rcases hd with rfl | rfl <;>
  · unfold move init
    simp [e2, e4]

theorem getD_append_blank (c : List Γ) (b : Γ) (j : Nat) : (c ++ [b]).getD j b = c.getD j b := by
  simp only [List.getD_eq_getElem?_getD, List.getElem?_append]
  split
  · rfl
  · rename_i hge
    have : c[j]? = none := by simp; omega
    rw [this]
    cases hj : j - c.length with
    | zero => simp
    | succ k => simp

theorem move_view {t : Tape Γ} (h : t.WF) (d : Dir) : (t.move d).view = shift d t.view := by
  have hw := h
  unfold WF at h
  cases d with
  | N => rw [move_stay hw (Or.inl rfl)]; rfl
  | bad => rw [move_stay hw (Or.inr rfl)]; rfl
  | R =>
    rw [move_R hw]
    funext i
    simp only [shift, view_def]
    have e : ((t.pos + 1 : Nat) : Int) + i = (t.pos : Int) + (i + 1) := by omega
    rw [e]
    split
    · split
      · exact getD_append_blank _ _ _
      · rfl
    · rfl
  | L =>
    by_cases h0 : t.pos = 0
    · rw [move_L_zero hw h0]
      funext i
      simp only [shift, view_def, h0]
      by_cases hi : 0 ≤ i - 1
      · have e1 : 0 ≤ ((0 : Nat) : Int) + i := by omega
        have e2 : 0 ≤ ((0 : Nat) : Int) + (i - 1) := by omega
        simp only [e1, e2, if_true]
        have e3 : (((0 : Nat) : Int) + i).toNat = (((0 : Nat) : Int) + (i - 1)).toNat + 1 := by omega
        rw [e3]
        simp [List.getD_eq_getElem?_getD]
      · have e2 : ¬ 0 ≤ ((0 : Nat) : Int) + (i - 1) := by omega
        simp only [e2, if_false]
        split
        · have e3 : (((0 : Nat) : Int) + i).toNat = 0 := by omega
          rw [e3]
          simp
        · rfl
    · rw [move_L_succ hw h0]
      funext i
      simp only [shift, view_def]
      have e : ((t.pos - 1 : Nat) : Int) + i = (t.pos : Int) + (i - 1) := by omega
      rw [e]

/-- **write + move on the view**: the scanned cell is overwritten, then the head-relative
content shifts; holds at both tape ends, for all directions and for writing blanks. -/
theorem write_move_view {t : Tape Γ} (h : t.WF) (s : Γ) (d : Dir) :
    ((t.write s).move d).view = shift d (Function.update t.view 0 s) := by
  rw [move_view (write_wf t s), write_view h]

end Tape
end AV.TM
