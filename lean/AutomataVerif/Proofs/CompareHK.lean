/-
Proofs/CompareHK.lean — the Hopcroft–Karp equivalence loop (`hkLoop`, `hkSymbol`, `ufFind`
of Model/DFACompare.lean) decides language equivalence of two states of ANY deterministic
system `(X, step, fin)` over the symbols `syms` (core only, self-contained).

Union–find.  `uf` is the list of merges, newest first; an entry `(c, p)` says "root `c`
was attached below root `p`".  `rep uf x` is the specification of `find`:
`rep ((c,p) :: uf) x = if rep uf x = c then p else rep uf x`.  Under `UFok` (each entry
attaches a root to a different root) `ufFind uf fuel x = rep uf x` for every
`fuel ≥ uf.length`, and `rep uf x` is a root.  The equivalence the structure represents
is `rep uf x = rep uf y`; it is the least equivalence containing the merged pairs
(`rep_least`).

Loop invariant (`Inv`): every merged pair is either still on the stack or *done*: equal
finality and, for every symbol, images with equal representatives.  The representative
equivalence only grows, so *done* is stable.
* completeness (`hkLoop_complete`): if only language-equivalent pairs were merged or
  pushed, this stays so; such pairs never clash — for every fuel.
* soundness (`hkLoop_sound`): when the stack is empty every merged pair is done, so the
  representative equivalence is a bisimulation; it contains the start pair.
* fuel: `stack.length + (|U| − uf.length)` drops by one per iteration, where `U` is a
  finite universe closed under `step` (keys of `uf` are distinct elements of `U`).
-/
import AutomataVerif.Proofs.Basic
import AutomataVerif.Model.DFACompare

namespace AV
namespace HK

set_option linter.unusedSectionVars false

variable {X α : Type} [DecidableEq X]

/-! ### union–find -/

/-- Specification of `find`: replay the merges from the oldest to the newest. -/
def rep : List (X × X) → X → X
  | [], x => x
  | (c, p) :: uf, x => if rep uf x = c then p else rep uf x

/-- Well-formed merge history: each entry attaches a root `c` to a different root `p`. -/
inductive UFok : List (X × X) → Prop
  | nil : UFok []
  | cons {c p : X} {uf : List (X × X)} : UFok uf → alookup c uf = none → alookup p uf = none →
      c ≠ p → UFok ((c, p) :: uf)

theorem UFok.no_self {uf : List (X × X)} (h : UFok uf) :
    ∀ x q, alookup x uf = some q → q ≠ x := by
  induction h with
  | nil => intro x q hq; simp at hq
  | @cons c p uf _ _ _ hcp ih =>
    intro x q hq
    rw [alookup_cons] at hq
    split at hq
    · rename_i hcx; cases hq; subst hcx; exact fun e => hcp e.symm
    · exact ih x q hq

/-- One more merge on top of a history in which `find` already terminates. -/
theorem ufFind_cons {uf : List (X × X)} {c p : X} (hc : alookup c uf = none)
    (hp : alookup p uf = none) (hcp : c ≠ p) (hns : ∀ x q, alookup x uf = some q → q ≠ x) :
    ∀ (f : Nat) (x : X), alookup (ufFind uf f x) uf = none →
      ufFind ((c, p) :: uf) (f + 1) x = if ufFind uf f x = c then p else ufFind uf f x := by
  have hpc : p ≠ c := fun e => hcp e.symm
  have rootp : ∀ g, ufFind ((c, p) :: uf) g p = p := by
    intro g
    cases g with
    | zero => rfl
    | succ g => simp [ufFind, alookup_cons, hcp, hp]
  intro f
  induction f with
  | zero =>
    intro x hx
    simp only [ufFind] at hx ⊢
    by_cases hcx : c = x
    · subst hcx; simp [alookup_cons, hpc]
    · have hxc : ¬ x = c := fun e => hcx e.symm
      simp [alookup_cons, hcx, hx, hxc]
  | succ f ih =>
    intro x hx
    cases hl : alookup x uf with
    | none =>
      have e1 : ufFind uf (f + 1) x = x := by simp [ufFind, hl]
      rw [e1]
      by_cases hcx : c = x
      · subst hcx
        have : ufFind ((c, p) :: uf) (f + 1 + 1) c = ufFind ((c, p) :: uf) (f + 1) p := by
          simp [ufFind, alookup_cons, hpc]
        rw [this, rootp]; simp
      · have hxc : ¬ x = c := fun e => hcx e.symm
        simp [ufFind, alookup_cons, hcx, hl, hxc]
    | some q =>
      have hqx : q ≠ x := hns x q hl
      have hcx : ¬ c = x := by
        intro e; subst e; rw [hc] at hl; cases hl
      have e1 : ufFind uf (f + 1) x = ufFind uf f q := by simp [ufFind, hl, hqx]
      rw [e1] at hx ⊢
      have : ufFind ((c, p) :: uf) (f + 1 + 1) x = ufFind ((c, p) :: uf) (f + 1) q := by
        simp [ufFind, alookup_cons, hcx, hl, hqx]
      rw [this]
      exact ih q hx

/-- `find` computes `rep` (with the fuel the code's loop gets) and returns a root. -/
theorem ufFind_eq_rep {uf : List (X × X)} (h : UFok uf) :
    ∀ (f : Nat) (x : X), uf.length ≤ f →
      ufFind uf f x = rep uf x ∧ alookup (rep uf x) uf = none := by
  induction h with
  | nil =>
    intro f x _
    refine ⟨?_, rfl⟩
    cases f <;> simp [ufFind, rep]
  | @cons c p uf hok hc hp hcp ih =>
    intro f x hf
    cases f with
    | zero => simp at hf
    | succ f =>
      have hf' : uf.length ≤ f := by simpa using hf
      obtain ⟨e, hroot⟩ := ih f x hf'
      have := ufFind_cons hc hp hcp hok.no_self f x (by rw [e]; exact hroot)
      rw [this, e]
      refine ⟨rfl, ?_⟩
      simp only [rep]
      by_cases hr : rep uf x = c
      · simp [hr, alookup_cons, hcp, hp]
      · have : ¬ c = rep uf x := fun e => hr e.symm
        simp [hr, alookup_cons, this, hroot]

theorem rep_root {uf : List (X × X)} (h : UFok uf) (x : X) : alookup (rep uf x) uf = none :=
  (ufFind_eq_rep h uf.length x (Nat.le_refl _)).2

/-- Roots are fixed by `rep`. -/
theorem rep_of_root {uf : List (X × X)} {r : X} (hr : alookup r uf = none) : rep uf r = r := by
  induction uf with
  | nil => rfl
  | cons e uf ih =>
    obtain ⟨c, p⟩ := e
    rw [alookup_cons] at hr
    split at hr
    · cases hr
    · rename_i hcr
      have hrc : ¬ r = c := fun e => hcr e.symm
      simp [rep, ih hr, hrc]

/-- The represented equivalence is the least equivalence containing the merged pairs. -/
theorem rep_least {uf : List (X × X)} (R : X → X → Prop) (hrefl : ∀ x, R x x)
    (htrans : ∀ x y z, R x y → R y z → R x z) (hgen : ∀ e ∈ uf, R e.1 e.2) (x : X) :
    R x (rep uf x) := by
  induction uf with
  | nil => exact hrefl x
  | cons e uf ih =>
    obtain ⟨c, p⟩ := e
    have h1 : R x (rep uf x) := ih (fun e he => hgen e (List.mem_cons_of_mem _ he))
    simp only [rep]
    split
    · rename_i hr
      have : R c p := hgen (c, p) (by simp)
      exact htrans _ _ _ h1 (hr ▸ this)
    · exact h1

/-- The represented equivalence only grows. -/
theorem rep_mono {uf : List (X × X)} {x y : X} (c p : X) (h : rep uf x = rep uf y) :
    rep ((c, p) :: uf) x = rep ((c, p) :: uf) y := by
  simp only [rep, h]

/-- Elements stay inside a universe that contains all parents. -/
theorem rep_mem {uf : List (X × X)} {U : X → Prop} (hpar : ∀ e ∈ uf, U e.2) {x : X} (hx : U x) :
    U (rep uf x) := by
  induction uf with
  | nil => exact hx
  | cons e uf ih =>
    obtain ⟨c, p⟩ := e
    simp only [rep]
    split
    · exact hpar (c, p) (by simp)
    · exact ih (fun e he => hpar e (List.mem_cons_of_mem _ he))

theorem UFok.keys_nodup {uf : List (X × X)} (h : UFok uf) : (akeys uf).Nodup := by
  induction h with
  | nil => simp [akeys]
  | @cons c p uf _ hc _ _ ih =>
    simp only [akeys, List.map_cons, List.nodup_cons]
    exact ⟨alookup_eq_none_iff.mp hc, ih⟩

/-! ### the deterministic system -/

variable {step : X → α → X} {fin : X → Bool} {syms : List α}

/-- Language equivalence of two states, over words of `syms`. -/
def LEq (step : X → α → X) (fin : X → Bool) (syms : List α) (x y : X) : Prop :=
  ∀ w : List α, (∀ a ∈ w, a ∈ syms) → fin (w.foldl step x) = fin (w.foldl step y)

theorem LEq.refl (x : X) : LEq step fin syms x x := fun _ _ => rfl
theorem LEq.symm {x y : X} (h : LEq step fin syms x y) : LEq step fin syms y x :=
  fun w hw => (h w hw).symm
theorem LEq.trans {x y z : X} (h₁ : LEq step fin syms x y) (h₂ : LEq step fin syms y z) :
    LEq step fin syms x z := fun w hw => (h₁ w hw).trans (h₂ w hw)
theorem LEq.fin_eq {x y : X} (h : LEq step fin syms x y) : fin x = fin y := h [] (by simp)
theorem LEq.next {x y : X} (h : LEq step fin syms x y) {a : α} (ha : a ∈ syms) :
    LEq step fin syms (step x a) (step y a) := by
  intro w hw
  exact h (a :: w) (by
    intro b hb
    rcases List.mem_cons.mp hb with rfl | hb
    · exact ha
    · exact hw b hb)

/-- A relation respecting finality and closed under the symbols of `syms` is inside
language equivalence. -/
theorem LEq.of_bisim (R : X → X → Prop) (hfin : ∀ x y, R x y → fin x = fin y)
    (hstep : ∀ x y, R x y → ∀ a ∈ syms, R (step x a) (step y a)) {x y : X} (h : R x y) :
    LEq step fin syms x y := by
  intro w
  induction w generalizing x y with
  | nil => intro _; exact hfin x y h
  | cons a w ih =>
    intro hw
    exact ih (hstep x y h a (hw a (by simp))) (fun b hb => hw b (List.mem_cons_of_mem _ hb))

/-- A merged pair has been processed: equal finality, images with equal representatives. -/
def Done (step : X → α → X) (fin : X → Bool) (syms : List α) (uf : List (X × X)) (x y : X) : Prop :=
  fin x = fin y ∧ ∀ a ∈ syms, rep uf (step x a) = rep uf (step y a)

theorem Done.mono {uf : List (X × X)} {x y : X} (c p : X) (h : Done step fin syms uf x y) :
    Done step fin syms ((c, p) :: uf) x y :=
  ⟨h.1, fun a ha => rep_mono c p (h.2 a ha)⟩

/-- If every merged pair is done, the represented equivalence is inside language equivalence. -/
theorem leq_of_all_done {uf : List (X × X)} (hdone : ∀ e ∈ uf, Done step fin syms uf e.2 e.1)
    {x y : X} (h : rep uf x = rep uf y) : LEq step fin syms x y := by
  -- R := "done" as a relation on arbitrary pairs; it is an equivalence containing the generators
  have key : ∀ x, Done step fin syms uf x (rep uf x) := by
    intro x
    refine rep_least (uf := uf) (fun x y => Done step fin syms uf x y) ?_ ?_ ?_ x
    · intro x; exact ⟨rfl, fun _ _ => rfl⟩
    · intro x y z h₁ h₂
      exact ⟨h₁.1.trans h₂.1, fun a ha => (h₁.2 a ha).trans (h₂.2 a ha)⟩
    · intro e he
      have := hdone e he
      exact ⟨this.1.symm, fun a ha => (this.2 a ha).symm⟩
  refine LEq.of_bisim (fun x y => rep uf x = rep uf y) ?_ ?_ h
  · intro x y hxy
    have h1 := (key x).1
    have h2 := (key y).1
    rw [h1, h2, hxy]
  · intro x y hxy a ha
    have h1 := (key x).2 a ha
    have h2 := (key y).2 a ha
    rw [h1, h2, hxy]

/-! ### completeness: language-equivalent start pairs are never refuted -/

/-- Everything merged so far is language-equivalent. -/
def AllLEq (step : X → α → X) (fin : X → Bool) (syms : List α) (uf : List (X × X)) : Prop := ∀ x, LEq step fin syms x (rep uf x)

theorem hkSymbol_complete {qa qb : X} (hq : LEq step fin syms qa qb)
    (acc : List (X × X) × List (X × X)) (a : α) (ha : a ∈ syms) (hok : UFok acc.1)
    (huf : AllLEq step fin syms acc.1) (hst : ∀ e ∈ acc.2, LEq step fin syms e.1 e.2) :
    UFok (hkSymbol step qa qb acc a).1 ∧ AllLEq step fin syms (hkSymbol step qa qb acc a).1 ∧
    ∀ e ∈ (hkSymbol step qa qb acc a).2, LEq step fin syms e.1 e.2 := by
  unfold hkSymbol
  obtain ⟨e1, hr1⟩ := ufFind_eq_rep hok (acc.1.length + 1) (step qa a) (Nat.le_succ _)
  obtain ⟨e2, hr2⟩ := ufFind_eq_rep hok (acc.1.length + 1) (step qb a) (Nat.le_succ _)
  simp only [e1, e2]
  split
  · exact ⟨hok, huf, hst⟩
  · rename_i hne
    have h12 : LEq step fin syms (rep acc.1 (step qa a)) (rep acc.1 (step qb a)) :=
      ((huf _).symm.trans (hq.next ha)).trans (huf _)
    refine ⟨UFok.cons hok hr2 hr1 (fun e => hne e.symm), ?_, ?_⟩
    · intro x
      simp only [rep]
      split
      · rename_i hx
        exact (huf x).trans (hx ▸ h12.symm)
      · exact huf x
    · intro e he
      rcases List.mem_cons.mp he with rfl | he
      · exact h12
      · exact hst e he

theorem hkFold_complete {qa qb : X} (hq : LEq step fin syms qa qb) (l : List α)
    (hl : ∀ a ∈ l, a ∈ syms) :
    ∀ (acc : List (X × X) × List (X × X)), UFok acc.1 → AllLEq step fin syms acc.1 →
      (∀ e ∈ acc.2, LEq step fin syms e.1 e.2) →
      UFok (l.foldl (hkSymbol step qa qb) acc).1 ∧
      AllLEq step fin syms (l.foldl (hkSymbol step qa qb) acc).1 ∧
      ∀ e ∈ (l.foldl (hkSymbol step qa qb) acc).2, LEq step fin syms e.1 e.2 := by
  induction l with
  | nil => intro acc h1 h2 h3; exact ⟨h1, h2, h3⟩
  | cons a l ih =>
    intro acc h1 h2 h3
    rw [List.foldl_cons]
    obtain ⟨g1, g2, g3⟩ := hkSymbol_complete hq acc a (hl a (by simp)) h1 h2 h3
    exact ih (fun b hb => hl b (List.mem_cons_of_mem _ hb)) _ g1 g2 g3

theorem hkLoop_complete_aux :
    ∀ (f : Nat) (uf stack : List (X × X)), UFok uf → AllLEq step fin syms uf →
      (∀ e ∈ stack, LEq step fin syms e.1 e.2) → hkLoop step fin syms f uf stack = true := by
  intro f
  induction f with
  | zero => intro uf stack _ _ _; rfl
  | succ f ih =>
    intro uf stack hok huf hst
    cases stack with
    | nil => rfl
    | cons e stack =>
      obtain ⟨qa, qb⟩ := e
      have hq : LEq step fin syms qa qb := hst (qa, qb) (by simp)
      have hfin : (fin qa != fin qb) = false := by
        rw [hq.fin_eq]; simp
      simp only [hkLoop, hfin, Bool.false_eq_true, if_false]
      obtain ⟨g1, g2, g3⟩ := hkFold_complete hq syms (fun _ h => h) (uf, stack) hok huf
        (fun e he => hst e (List.mem_cons_of_mem _ he))
      exact ih _ _ g1 g2 g3

/-- **Completeness of Hopcroft–Karp**, for every fuel: a language-equivalent start pair is
answered `True`. -/
theorem hkLoop_complete {x y : X} (hxy : x ≠ y) (h : LEq step fin syms x y) (f : Nat) :
    hkLoop step fin syms f [(y, x)] [(x, y)] = true := by
  refine hkLoop_complete_aux f _ _ (UFok.cons UFok.nil rfl rfl (fun e => hxy e.symm)) ?_ ?_
  · intro z
    have e : rep [(y, x)] z = if z = y then x else z := rfl
    rw [e]
    by_cases hz : z = y
    · rw [if_pos hz, hz]; exact h.symm
    · rw [if_neg hz]; exact LEq.refl z
  · intro e he
    simp only [List.mem_singleton] at he
    subst he
    exact h

/-! ### soundness: `True` with enough fuel implies language equivalence -/

/-- Loop invariant: merges are well-formed and inside the universe; every merged pair is on
the stack, is the pair being processed (`cur`), or is done. -/
structure Inv (step : X → α → X) (fin : X → Bool) (syms : List α) (U : List X) (uf stack : List (X × X)) (cur : Option (X × X)) : Prop where
  ok : UFok uf
  ufU : ∀ e ∈ uf, e.1 ∈ U ∧ e.2 ∈ U
  stU : ∀ e ∈ stack, e.1 ∈ U ∧ e.2 ∈ U
  pend : ∀ e ∈ uf, (e.2, e.1) ∈ stack ∨ cur = some (e.2, e.1) ∨ Done step fin syms uf e.2 e.1

theorem Inv.length_le {U : List X} {uf stack : List (X × X)} {cur : Option (X × X)}
    (h : Inv step fin syms U uf stack cur) : uf.length ≤ U.length := by
  have h1 : (akeys uf).length ≤ U.length :=
    List.Nodup.length_le_of_subset h.ok.keys_nodup (fun k hk => by
      obtain ⟨e, he, rfl⟩ := List.mem_map.mp hk
      exact (h.ufU e he).1)
  simpa [akeys] using h1

theorem hkSymbol_sound {U : List X} (hU : ∀ x ∈ U, ∀ a ∈ syms, step x a ∈ U) {qa qb : X}
    (hqa : qa ∈ U) (hqb : qb ∈ U) (acc : List (X × X) × List (X × X)) (a : α) (ha : a ∈ syms)
    (hinv : Inv step fin syms U acc.1 acc.2 (some (qa, qb))) :
    Inv step fin syms U (hkSymbol step qa qb acc a).1 (hkSymbol step qa qb acc a).2 (some (qa, qb)) ∧
    (∀ x y, rep acc.1 x = rep acc.1 y →
      rep (hkSymbol step qa qb acc a).1 x = rep (hkSymbol step qa qb acc a).1 y) ∧
    rep (hkSymbol step qa qb acc a).1 (step qa a) = rep (hkSymbol step qa qb acc a).1 (step qb a) ∧
    (hkSymbol step qa qb acc a).2.length + (U.length - (hkSymbol step qa qb acc a).1.length) =
      acc.2.length + (U.length - acc.1.length) := by
  unfold hkSymbol
  obtain ⟨e1, hr1⟩ := ufFind_eq_rep hinv.ok (acc.1.length + 1) (step qa a) (Nat.le_succ _)
  obtain ⟨e2, hr2⟩ := ufFind_eq_rep hinv.ok (acc.1.length + 1) (step qb a) (Nat.le_succ _)
  simp only [e1, e2]
  split
  · rename_i heq
    exact ⟨hinv, fun _ _ h => h, heq, rfl⟩
  · rename_i hne
    have hm1 : rep acc.1 (step qa a) ∈ U :=
      rep_mem (U := fun x => x ∈ U) (fun e he => (hinv.ufU e he).2) (hU qa hqa a ha)
    have hm2 : rep acc.1 (step qb a) ∈ U :=
      rep_mem (U := fun x => x ∈ U) (fun e he => (hinv.ufU e he).2) (hU qb hqb a ha)
    have hinv' : Inv step fin syms U ((rep acc.1 (step qb a), rep acc.1 (step qa a)) :: acc.1)
        ((rep acc.1 (step qa a), rep acc.1 (step qb a)) :: acc.2) (some (qa, qb)) := by
      refine ⟨UFok.cons hinv.ok hr2 hr1 (fun e => hne e.symm), ?_, ?_, ?_⟩
      · intro e he
        rcases List.mem_cons.mp he with rfl | he
        · exact ⟨hm2, hm1⟩
        · exact hinv.ufU e he
      · intro e he
        rcases List.mem_cons.mp he with rfl | he
        · exact ⟨hm1, hm2⟩
        · exact hinv.stU e he
      · intro e he
        rcases List.mem_cons.mp he with rfl | he
        · exact Or.inl (by simp)
        · rcases hinv.pend e he with h | h | h
          · exact Or.inl (List.mem_cons_of_mem _ h)
          · exact Or.inr (Or.inl h)
          · exact Or.inr (Or.inr (h.mono _ _))
    refine ⟨hinv', fun x y h => rep_mono _ _ h, ?_, ?_⟩
    · have h2 : rep acc.1 (rep acc.1 (step qb a)) = rep acc.1 (step qb a) := rep_of_root hr2
      simp only [rep]
      simp [hne]
    · have := hinv'.length_le
      simp only [List.length_cons] at this ⊢
      omega

theorem hkFold_sound {U : List X} (hU : ∀ x ∈ U, ∀ a ∈ syms, step x a ∈ U) {qa qb : X}
    (hqa : qa ∈ U) (hqb : qb ∈ U) (l : List α) (hl : ∀ a ∈ l, a ∈ syms) :
    ∀ (acc : List (X × X) × List (X × X)), Inv step fin syms U acc.1 acc.2 (some (qa, qb)) →
      Inv step fin syms U (l.foldl (hkSymbol step qa qb) acc).1 (l.foldl (hkSymbol step qa qb) acc).2
        (some (qa, qb)) ∧
      (∀ x y, rep acc.1 x = rep acc.1 y →
        rep (l.foldl (hkSymbol step qa qb) acc).1 x = rep (l.foldl (hkSymbol step qa qb) acc).1 y) ∧
      (∀ a ∈ l, rep (l.foldl (hkSymbol step qa qb) acc).1 (step qa a) =
        rep (l.foldl (hkSymbol step qa qb) acc).1 (step qb a)) ∧
      (l.foldl (hkSymbol step qa qb) acc).2.length +
          (U.length - (l.foldl (hkSymbol step qa qb) acc).1.length) =
        acc.2.length + (U.length - acc.1.length) := by
  induction l with
  | nil => intro acc h; exact ⟨h, fun _ _ h => h, fun _ h => by simp at h, rfl⟩
  | cons a l ih =>
    intro acc h
    rw [List.foldl_cons]
    obtain ⟨g1, g2, g3, g4⟩ := hkSymbol_sound hU hqa hqb acc a (hl a (by simp)) h
    obtain ⟨k1, k2, k3, k4⟩ := ih (fun b hb => hl b (List.mem_cons_of_mem _ hb)) _ g1
    refine ⟨k1, fun x y hxy => k2 x y (g2 x y hxy), ?_, k4.trans g4⟩
    intro b hb
    rcases List.mem_cons.mp hb with rfl | hb
    · exact k2 _ _ g3
    · exact k3 b hb

theorem hkLoop_sound_aux {U : List X} (hU : ∀ x ∈ U, ∀ a ∈ syms, step x a ∈ U) :
    ∀ (f : Nat) (uf stack : List (X × X)), Inv step fin syms U uf stack none →
      stack.length + (U.length - uf.length) < f →
      hkLoop step fin syms f uf stack = true →
      ∀ x y, rep uf x = rep uf y → LEq step fin syms x y := by
  intro f
  induction f with
  | zero => intro uf stack _ hf; omega
  | succ f ih =>
    intro uf stack hinv hf hres x y hxy
    cases stack with
    | nil =>
      refine leq_of_all_done ?_ hxy
      intro e he
      rcases hinv.pend e he with h | h | h
      · cases h
      · cases h
      · exact h
    | cons e stack =>
      obtain ⟨qa, qb⟩ := e
      simp only [hkLoop] at hres
      split at hres
      · cases hres
      · rename_i hfin
        have hfin' : fin qa = fin qb := by
          cases h1 : fin qa <;> cases h2 : fin qb <;> simp [h1, h2] at hfin ⊢
        have hq := hinv.stU (qa, qb) (by simp)
        have hinv0 : Inv step fin syms U uf stack (some (qa, qb)) := by
          refine ⟨hinv.ok, hinv.ufU, fun e he => hinv.stU e (List.mem_cons_of_mem _ he), ?_⟩
          intro e he
          rcases hinv.pend e he with h | h | h
          · rcases List.mem_cons.mp h with h | h
            · exact Or.inr (Or.inl (congrArg some h.symm))
            · exact Or.inl h
          · cases h
          · exact Or.inr (Or.inr h)
        obtain ⟨k1, k2, k3, k4⟩ :=
          hkFold_sound hU hq.1 hq.2 syms (fun _ h => h) (uf, stack) hinv0
        have hinv1 : Inv step fin syms U (syms.foldl (hkSymbol step qa qb) (uf, stack)).1
            (syms.foldl (hkSymbol step qa qb) (uf, stack)).2 none := by
          refine ⟨k1.ok, k1.ufU, k1.stU, ?_⟩
          intro e he
          rcases k1.pend e he with h | h | h
          · exact Or.inl h
          · refine Or.inr (Or.inr ?_)
            cases h
            exact ⟨hfin', k3⟩
          · exact Or.inr (Or.inr h)
        refine ih _ _ hinv1 ?_ hres x y (k2 x y hxy)
        simp only [List.length_cons] at hf
        simp only at k4
        omega

/-- **Soundness of Hopcroft–Karp.**  In a finite universe `U` closed under the symbols,
with fuel at least `|U| + 2`, the answer `True` implies language equivalence. -/
theorem hkLoop_sound {U : List X} (hU : ∀ x ∈ U, ∀ a ∈ syms, step x a ∈ U) {x y : X}
    (hx : x ∈ U) (hy : y ∈ U) (hxy : x ≠ y) {f : Nat} (hf : U.length + 2 ≤ f)
    (h : hkLoop step fin syms f [(y, x)] [(x, y)] = true) : LEq step fin syms x y := by
  refine hkLoop_sound_aux hU f [(y, x)] [(x, y)] ?_ ?_ h x y ?_
  · refine ⟨UFok.cons UFok.nil rfl rfl (fun e => hxy e.symm), ?_, ?_, ?_⟩
    · intro e he; simp only [List.mem_singleton] at he; subst he; exact ⟨hy, hx⟩
    · intro e he; simp only [List.mem_singleton] at he; subst he; exact ⟨hx, hy⟩
    · intro e he; simp only [List.mem_singleton] at he; subst he; exact Or.inl (by simp)
  · simp only [List.length_singleton]; omega
  · simp [rep, hxy]

/-- **Hopcroft–Karp decides language equivalence** of two distinct states of a finite
deterministic system, for every stack discipline the model's loop uses. -/
theorem hkLoop_iff {U : List X} (hU : ∀ x ∈ U, ∀ a ∈ syms, step x a ∈ U) {x y : X}
    (hx : x ∈ U) (hy : y ∈ U) (hxy : x ≠ y) {f : Nat} (hf : U.length + 2 ≤ f) :
    hkLoop step fin syms f [(y, x)] [(x, y)] = true ↔ LEq step fin syms x y :=
  ⟨hkLoop_sound hU hx hy hxy hf, fun h => hkLoop_complete hxy h f⟩

end HK
end AV
