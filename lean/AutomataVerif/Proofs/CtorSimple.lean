/-
Proofs/CtorSimple.lean — universal / empty language, count_mod, of_length (C15). Core only.
-/
import AutomataVerif.Proofs.CtorBasic

namespace AV.Ctor

set_option linter.unusedSectionVars false
set_option linter.unusedVariables false

variable {α : Type} [DecidableEq α] {σ : Type} [DecidableEq σ]

/-- Number of symbols of `w` that belong to `cnt` (`symbols_to_count`). -/
def countIn (cnt : List α) (w : List α) : Nat := w.countP fun a => decide (a ∈ cnt)

@[simp] theorem countIn_nil (cnt : List α) : countIn cnt [] = 0 := rfl

theorem countIn_cons (cnt : List α) (a : α) (w : List α) :
    countIn cnt (a :: w) = countIn cnt w + if a ∈ cnt then 1 else 0 := by
  unfold countIn; rw [List.countP_cons]; simp

theorem countIn_append (cnt : List α) (u v : List α) :
    countIn cnt (u ++ v) = countIn cnt u + countIn cnt v := by
  unfold countIn; exact List.countP_append

theorem countIn_replicate_mem {cnt : List α} {a : α} (ha : a ∈ cnt) (n : Nat) :
    countIn cnt (List.replicate n a) = n := by
  induction n with
  | zero => rfl
  | succ n ih => rw [List.replicate_succ, countIn_cons, ih]; simp [ha]

theorem countIn_all {syms w : List α} (h : Over syms w) : countIn syms w = w.length := by
  induction w with
  | nil => rfl
  | cons a w ih =>
    rw [over_cons] at h
    rw [countIn_cons, ih h.2]; simp [h.1]

/-! ### universal_language / empty_language -/

theorem loopDFA_wf (z : σ) (syms : List α) (b : Bool) : (loopDFA z syms b).WF := by
  apply wf_of_table
  · intro q; simp [loopDFA, akeys]
  · intro kv hkv a; simp only [loopDFA, List.mem_singleton] at hkv; subst hkv; simp [loopDFA]
  · intro kv hkv q hq
    simp only [loopDFA, List.mem_singleton] at hkv; subst hkv
    simp only [avals_rowOf, List.mem_map] at hq
    obtain ⟨_, _, rfl⟩ := hq
    simp [loopDFA]
  · simp [loopDFA]
  · intro q hq; cases b <;> simp [loopDFA] at hq ⊢; exact hq

theorem loopDFA_accepts (z : σ) (syms : List α) (b : Bool) (w : List α) :
    (loopDFA z syms b).accepts w = true ↔ Over syms w ∧ b = true := by
  have h := accepts_iff_sim (loopDFA_wf z syms b) (fun _ : Unit => z) (fun _ _ => ()) (fun _ => True)
    (by
      intro q a _ ha
      refine ⟨?_, trivial⟩
      simp only [DFA.step?, DFA.row, DFA.row?, loopDFA, alookup_cons, if_true, Option.getD_some,
        alookup_rowOf]
      simp only [loopDFA] at ha
      simp [ha]) () rfl trivial w
  rw [h]
  cases b <;> simp [loopDFA]

theorem loopDFA_minimal (z : σ) (syms : List α) (b : Bool) : MinimalShape (loopDFA z syms b) where
  nodup := by simp [loopDFA]
  reach := by
    intro q hq
    simp only [loopDFA, List.mem_singleton] at hq; subst hq
    exact ⟨[], by simp, rfl⟩
  dist := by
    intro p hp q hq hne
    simp only [loopDFA, List.mem_singleton] at hp hq
    exact absurd (hp.trans hq.symm) hne

/-! ### count_mod -/

section countMod
variable (syms : List α) (kn : Nat) (cnt : List α)

/-- The table of `count_mod`. -/
def countModTable : List (Int × List (α × Int)) :=
  (List.range kn).map fun i =>
    (nat i, rowOf syms fun a => if a ∈ cnt then nat ((i + 1) % kn) else nat i)

def countModDFA (fin : List Int) : DFA Int α :=
  { states := akeys (countModTable syms kn cnt), syms := syms, trans := countModTable syms kn cnt,
    init := 0, finals := fin, allowPartial := false }

theorem countMod_eq (k : Int) (hk : 0 < k) (rem : Option (List Int)) (count : Option (List α)) :
    countMod syms k rem count = build (countModDFA syms k.toNat (count.getD syms) (rem.getD [0])) := by
  unfold countMod
  have : ¬ k ≤ 0 := by omega
  simp only [this, if_false]
  rfl

theorem mem_countMod_states (q : Int) :
    q ∈ akeys (countModTable syms kn cnt) ↔ ∃ i, i < kn ∧ q = nat i := by
  unfold countModTable
  rw [akeys_rangeMap]
  simp only [List.mem_map, List.mem_range]
  constructor
  · rintro ⟨i, hi, rfl⟩; exact ⟨i, hi, rfl⟩
  · rintro ⟨i, hi, rfl⟩; exact ⟨i, hi, rfl⟩

theorem countModDFA_wf (hk : 0 < kn) (fin : List Int) (hfin : ∀ r ∈ fin, 0 ≤ r ∧ r < kn) :
    (countModDFA syms kn cnt fin).WF := by
  apply wf_of_table
  · intro q; rfl
  · intro kv hkv a
    simp only [countModDFA, countModTable, List.mem_map, List.mem_range] at hkv
    obtain ⟨i, _, rfl⟩ := hkv
    simp [countModDFA]
  · intro kv hkv q hq
    simp only [countModDFA, countModTable, List.mem_map, List.mem_range] at hkv
    obtain ⟨i, hi, rfl⟩ := hkv
    simp only [avals_rowOf, List.mem_map] at hq
    obtain ⟨a, _, rfl⟩ := hq
    show _ ∈ akeys (countModTable syms kn cnt)
    rw [mem_countMod_states]
    by_cases h : a ∈ cnt
    · exact ⟨(i + 1) % kn, Nat.mod_lt _ hk, by simp [h]⟩
    · exact ⟨i, hi, by simp [h]⟩
  · show (0 : Int) ∈ akeys (countModTable syms kn cnt)
    rw [mem_countMod_states]; exact ⟨0, hk, rfl⟩
  · intro q hq
    show q ∈ akeys (countModTable syms kn cnt)
    rw [mem_countMod_states]
    obtain ⟨h1, h2⟩ := hfin q hq
    exact ⟨q.toNat, by omega, by show q = ((q.toNat : Nat) : Int); omega⟩

theorem countModDFA_step (i : Nat) (hi : i < kn) (a : α) (ha : a ∈ syms) (fin : List Int) :
    (countModDFA syms kn cnt fin).step? (some (nat i)) a =
      some (nat (if a ∈ cnt then (i + 1) % kn else i)) := by
  simp only [DFA.step?, DFA.row, DFA.row?, countModDFA, countModTable]
  rw [alookup_rangeMap]
  simp only [hi, if_true, Option.getD_some, alookup_rowOf, ha]
  by_cases h : a ∈ cnt <;> simp [h]

theorem countMod_fold (w : List α) (i : Nat) (hk : 0 < kn) :
    w.foldl (fun (i : Nat) a => if a ∈ cnt then (i + 1) % kn else i) (i % kn) =
      (i + countIn cnt w) % kn := by
  induction w generalizing i with
  | nil => simp
  | cons a w ih =>
    rw [List.foldl_cons, countIn_cons]
    by_cases h : a ∈ cnt
    · simp only [h, if_true]
      have : (i % kn + 1) % kn = (i + 1) % kn := by rw [Nat.add_mod, Nat.mod_mod, ← Nat.add_mod]
      rw [this, ih]
      congr 1; omega
    · simp only [h, if_false]
      rw [ih]; simp

theorem countModDFA_accepts (hk : 0 < kn) (fin : List Int) (hfin : ∀ r ∈ fin, 0 ≤ r ∧ r < kn)
    (w : List α) :
    (countModDFA syms kn cnt fin).accepts w = true ↔
      Over syms w ∧ nat (countIn cnt w % kn) ∈ fin := by
  have h := accepts_iff_sim (countModDFA_wf syms kn cnt hk fin hfin) nat
    (fun (i : Nat) a => if a ∈ cnt then (i + 1) % kn else i) (fun i => i < kn)
    (by
      intro i a hi ha
      refine ⟨countModDFA_step syms kn cnt i hi a ha fin, ?_⟩
      by_cases h : a ∈ cnt
      · simp only [h, if_true]; exact Nat.mod_lt _ hk
      · simpa [h] using hi) 0 rfl hk w
  rw [h]
  have := countMod_fold kn cnt w 0 hk
  rw [Nat.zero_mod, Nat.zero_add] at this
  rw [this]
  rfl

end countMod

/-! ### of_length -/

section ofLength
variable (syms : List α) (n : Nat) (cnt : List α)

def ofLengthTable : List (Int × List (α × Int)) :=
  ainsert (nat n) (rowOf syms fun _ => nat n)
    ((List.range n).map fun i => (nat i, rowOf syms fun a => if a ∈ cnt then nat i + 1 else nat i))

def ofLengthDFA (fin : List Int) : DFA Int α :=
  { states := akeys (ofLengthTable syms n cnt), syms := syms, trans := ofLengthTable syms n cnt,
    init := 0, finals := fin, allowPartial := false }

theorem ofLengthCore_eq (minLen : Int) (maxLen : Option Int) :
    ofLengthCore syms minLen maxLen cnt =
      build (ofLengthDFA syms
        (match maxLen with | none => minLen.toNat | some mx => (mx + 1).toNat) cnt
        (match maxLen with
          | none => [nat minLen.toNat]
          | some mx => (List.range (mx + 1 - minLen).toNat).map fun j => minLen + nat j)) := by
  unfold ofLengthCore ofLengthDFA ofLengthTable
  cases maxLen <;> rfl

/-! The three branches of `of_length` (fix bcfb456: two early returns before the ladder). -/

theorem isDisjoint_iff : isDisjoint syms cnt = true ↔ ∀ a ∈ syms, a ∉ cnt := by
  simp [isDisjoint]

theorem isDisjoint_eq_false_iff : isDisjoint syms cnt = false ↔ ∃ a, a ∈ syms ∧ a ∈ cnt := by
  rw [← Bool.not_eq_true, isDisjoint_iff]
  simp

theorem zeroInRange_iff (minLen : Int) (maxLen : Option Int) :
    zeroInRange minLen maxLen = true ↔ minLen ≤ 0 ∧ ∀ mx, maxLen = some mx → 0 ≤ mx := by
  cases maxLen <;> simp [zeroInRange]

theorem emptyRange_iff (minLen : Int) (maxLen : Option Int) :
    emptyRange minLen maxLen = true ↔ ∃ mx, maxLen = some mx ∧ (mx < minLen ∨ mx < 0) := by
  cases maxLen with
  | none => simp [emptyRange]
  | some mx => simp only [emptyRange, decide_eq_true_eq, Option.some.injEq, exists_eq_left']; omega

/-- No symbol of the alphabet is counted: `universal_language` / `empty_language`. -/
theorem ofLength_eq_disjoint (minLen : Int) (maxLen : Option Int) (count : Option (List α))
    (h : isDisjoint syms (count.getD syms) = true) :
    ofLength syms minLen maxLen count =
      build (loopDFA 0 syms (zeroInRange minLen maxLen)) := by
  unfold ofLength
  simp only [h]
  cases zeroInRange minLen maxLen <;> rfl

/-- Empty range of lengths: `empty_language`. -/
theorem ofLength_eq_emptyRange (minLen : Int) (maxLen : Option Int) (count : Option (List α))
    (h : isDisjoint syms (count.getD syms) = false) (h2 : emptyRange minLen maxLen = true) :
    ofLength syms minLen maxLen count = build (loopDFA 0 syms false) := by
  unfold ofLength
  simp only [h, h2]
  rfl

/-- Otherwise: the ladder. -/
theorem ofLength_eq (minLen : Int) (maxLen : Option Int) (count : Option (List α))
    (h : isDisjoint syms (count.getD syms) = false) (h2 : emptyRange minLen maxLen = false) :
    ofLength syms minLen maxLen count =
      build (ofLengthDFA syms
        (match (generalizing := false) maxLen with
          | none => minLen.toNat | some mx => (mx + 1).toNat) (count.getD syms)
        (match (generalizing := false) maxLen with
          | none => [nat minLen.toNat]
          | some mx => (List.range (mx + 1 - minLen).toNat).map fun j => minLen + nat j)) := by
  rw [← ofLengthCore_eq]
  unfold ofLength
  simp only [h, h2]

/-- The call made by `nth_from_start` / `nth_from_end` over a one-symbol alphabet (everything is
counted, no maximum): always the ladder. -/
theorem ofLength_eq_all (minLen : Int) (hne : syms ≠ []) :
    ofLength syms minLen none none =
      build (ofLengthDFA syms minLen.toNat syms [nat minLen.toNat]) := by
  refine ofLength_eq syms minLen none none ?_ rfl
  rw [isDisjoint_eq_false_iff]
  cases syms with
  | nil => exact absurd rfl hne
  | cons a t => exact ⟨a, by simp, by simp⟩

/-- Nothing counted: the counted length of every word over the alphabet is `0`. -/
theorem countIn_eq_zero_of_disjoint {syms cnt : List α} (h : ∀ a ∈ syms, a ∉ cnt) {w : List α}
    (hw : Over syms w) : countIn cnt w = 0 := by
  induction w with
  | nil => rfl
  | cons a w ih =>
    rw [over_cons] at hw
    rw [countIn_cons, ih hw.2]
    simp [h a hw.1]

theorem ofLength_lookup (i : Nat) :
    alookup (nat i) (ofLengthTable syms n cnt) =
      if i < n then some (rowOf syms fun a => if a ∈ cnt then nat i + 1 else nat i)
      else if i = n then some (rowOf syms fun _ => nat n) else none := by
  unfold ofLengthTable
  rw [alookup_ainsert, alookup_rangeMap]
  by_cases h : i = n
  · subst h; simp
  · have : ¬ nat n = nat i := fun e => h (nat_inj.mp e).symm
    simp only [this, if_false, h]

theorem mem_ofLength_states (q : Int) :
    q ∈ akeys (ofLengthTable syms n cnt) ↔ ∃ i, i ≤ n ∧ q = nat i := by
  unfold ofLengthTable
  rw [mem_akeys_ainsert, akeys_rangeMap]
  simp only [List.mem_map, List.mem_range]
  constructor
  · rintro (h | ⟨i, hi, rfl⟩)
    · exact ⟨n, Nat.le_refl _, h⟩
    · exact ⟨i, Nat.le_of_lt hi, rfl⟩
  · rintro ⟨i, hi, rfl⟩
    by_cases h : i = n
    · subst h; exact Or.inl rfl
    · exact Or.inr ⟨i, by omega, rfl⟩

theorem ofLengthDFA_wf (fin : List Int) (hfin : ∀ r ∈ fin, 0 ≤ r ∧ r ≤ n) :
    (ofLengthDFA syms n cnt fin).WF := by
  apply wf_of_table
  · intro q; rfl
  · intro kv hkv a
    simp only [ofLengthDFA, ofLengthTable] at hkv
    rcases mem_ainsert hkv with h | h
    · subst h; simp [ofLengthDFA]
    · simp only [List.mem_map, List.mem_range] at h
      obtain ⟨i, _, rfl⟩ := h
      simp [ofLengthDFA]
  · intro kv hkv q hq
    show q ∈ akeys (ofLengthTable syms n cnt)
    rw [mem_ofLength_states]
    simp only [ofLengthDFA, ofLengthTable] at hkv
    rcases mem_ainsert hkv with h | h
    · subst h
      simp only [avals_rowOf, List.mem_map] at hq
      obtain ⟨a, _, rfl⟩ := hq
      exact ⟨n, Nat.le_refl _, rfl⟩
    · simp only [List.mem_map, List.mem_range] at h
      obtain ⟨i, hi, rfl⟩ := h
      simp only [avals_rowOf, List.mem_map] at hq
      obtain ⟨a, _, rfl⟩ := hq
      by_cases h : a ∈ cnt
      · exact ⟨i + 1, hi, by simp only [h, if_true]; exact nat_succ i⟩
      · exact ⟨i, Nat.le_of_lt hi, by simp [h]⟩
  · show (0 : Int) ∈ akeys (ofLengthTable syms n cnt)
    rw [mem_ofLength_states]; exact ⟨0, Nat.zero_le _, rfl⟩
  · intro q hq
    show q ∈ akeys (ofLengthTable syms n cnt)
    rw [mem_ofLength_states]
    obtain ⟨h1, h2⟩ := hfin q hq
    exact ⟨q.toNat, by omega, by show q = ((q.toNat : Nat) : Int); omega⟩

/-- Abstract transition of `of_length`: count up to `n`, then stay. -/
def ofLengthStep (i : Nat) (a : α) : Nat := if i < n ∧ a ∈ cnt then i + 1 else i

theorem ofLengthDFA_step (i : Nat) (hi : i ≤ n) (a : α) (ha : a ∈ syms) (fin : List Int) :
    (ofLengthDFA syms n cnt fin).step? (some (nat i)) a = some (nat (ofLengthStep n cnt i a)) := by
  simp only [DFA.step?, DFA.row, DFA.row?, ofLengthDFA]
  rw [ofLength_lookup]
  unfold ofLengthStep
  by_cases h : i < n
  · simp only [h, if_true, Option.getD_some, alookup_rowOf, ha, true_and]
    by_cases h2 : a ∈ cnt
    · simp only [h2, if_true]; rw [nat_succ]
    · simp [h2]
  · have : i = n := by omega
    subst this
    simp [alookup_rowOf, ha]

theorem ofLength_fold (w : List α) (i : Nat) (hi : i ≤ n) :
    w.foldl (ofLengthStep n cnt) i = min n (i + countIn cnt w) := by
  induction w generalizing i with
  | nil => simp; omega
  | cons a w ih =>
    rw [List.foldl_cons, countIn_cons]
    have hs : ofLengthStep n cnt i a = if i < n ∧ a ∈ cnt then i + 1 else i := rfl
    rw [hs]
    by_cases h : i < n ∧ a ∈ cnt
    · simp only [h, and_self, if_true]
      rw [ih (i + 1) (by omega)]
      congr 1; omega
    · simp only [h, if_false]
      rw [ih i hi]
      by_cases h2 : a ∈ cnt
      · have : i = n := by
          have : ¬ i < n := fun h3 => h ⟨h3, h2⟩
          omega
        subst this
        simp only [h2, if_true]; omega
      · simp [h2]

theorem ofLengthDFA_accepts (fin : List Int) (hfin : ∀ r ∈ fin, 0 ≤ r ∧ r ≤ n) (w : List α) :
    (ofLengthDFA syms n cnt fin).accepts w = true ↔
      Over syms w ∧ nat (min n (countIn cnt w)) ∈ fin := by
  have h := accepts_iff_sim (ofLengthDFA_wf syms n cnt fin hfin) nat (ofLengthStep n cnt)
    (fun i => i ≤ n)
    (by
      intro i a hi ha
      refine ⟨ofLengthDFA_step syms n cnt i hi a ha fin, ?_⟩
      unfold ofLengthStep
      by_cases h : i < n ∧ a ∈ cnt
      · simp only [h, and_self, if_true]; omega
      · simpa [h] using hi) 0 rfl (Nat.zero_le _) w
  rw [h, ofLength_fold n cnt w 0 (Nat.zero_le _), Nat.zero_add]
  rfl

theorem ofLengthDFA_run (fin : List Int) (i : Nat) (hi : i ≤ n) (w : List α) (hw : Over syms w) :
    (ofLengthDFA syms n cnt fin).run (some (nat i)) w = some (nat (min n (i + countIn cnt w))) := by
  have h := run_sim (ofLengthDFA syms n cnt fin) nat (ofLengthStep n cnt) (fun i => i ≤ n)
    (by
      intro i a hi ha
      refine ⟨ofLengthDFA_step syms n cnt i hi a ha fin, ?_⟩
      unfold ofLengthStep
      by_cases h : i < n ∧ a ∈ cnt
      · simp only [h, and_self, if_true]; omega
      · simpa [h] using hi) w i hi hw
  rw [h.1, ofLength_fold n cnt w i hi]

theorem nodup_ofLength_states : (akeys (ofLengthTable syms n cnt)).Nodup := by
  unfold ofLengthTable
  apply nodup_akeys_ainsert
  rw [akeys_rangeMap]
  exact nodup_map_nat List.nodup_range

/-- Minimal shape of the `of_length` table, given a counted symbol `c` of the alphabet and, for
any two counters `i < j ≤ n`, a number `t` of further counted symbols after which exactly one
of them is in the final set. -/
theorem ofLengthDFA_minimal (fin : List Int) (c : α) (hc : c ∈ syms) (hcc : c ∈ cnt)
    (hd : ∀ i j, i < j → j ≤ n → ∃ t,
      decide (nat (min n (i + t)) ∈ fin) ≠ decide (nat (min n (j + t)) ∈ fin)) :
    MinimalShape (ofLengthDFA syms n cnt fin) where
  nodup := nodup_ofLength_states syms n cnt
  reach := by
    intro q hq
    obtain ⟨i, hi, rfl⟩ := (mem_ofLength_states syms n cnt q).mp hq
    refine ⟨List.replicate i c, over_replicate hc i, ?_⟩
    have := ofLengthDFA_run syms n cnt fin 0 (Nat.zero_le _) (List.replicate i c) (over_replicate hc i)
    rw [countIn_replicate_mem hcc, Nat.zero_add, Nat.min_eq_right hi] at this
    exact this
  dist := by
    have key : ∀ i j, i < j → j ≤ n →
        Distinguishable (ofLengthDFA syms n cnt fin) (nat i) (nat j) := by
      intro i j hij hj
      obtain ⟨t, ht⟩ := hd i j hij hj
      refine ⟨List.replicate t c, over_replicate hc t, ?_⟩
      rw [ofLengthDFA_run syms n cnt fin i (by omega) _ (over_replicate hc t),
        ofLengthDFA_run syms n cnt fin j hj _ (over_replicate hc t), countIn_replicate_mem hcc]
      exact ht
    intro p hp q hq hne
    obtain ⟨i, hi, rfl⟩ := (mem_ofLength_states syms n cnt p).mp hp
    obtain ⟨j, hj, rfl⟩ := (mem_ofLength_states syms n cnt q).mp hq
    have hij : i ≠ j := fun e => hne (by rw [e])
    rcases Nat.lt_or_gt_of_ne hij with h | h
    · exact key i j h hj
    · obtain ⟨w, hw, hd⟩ := key j i h hi
      exact ⟨w, hw, fun e => hd e.symm⟩

end ofLength

end AV.Ctor
