/-
Proofs/RxShunt.lean — parser correctness:

1. `add_concat_and_empty_string_tokens` turns a phrase of the grammar `G` into the same phrase
   of `G'` (explicit concatenation tokens, `()` spelled `( "" )`) — the pair table is the
   regenerated one;
2. `tokens_to_postfix` (shunting-yard) maps a phrase of `G'` with tree `e` to the postfix
   linearisation of `e` (invariant of DESIGN.md Appendix B: while a level-`n` phrase is processed
   the operators it leaves pending on the stack have precedence ≥ `n`, and nothing below them is
   touched) — the precedences are the regenerated ones.
Core only.
-/
import AutomataVerif.Proofs.RxGrammar

namespace AV.Rx

set_option linter.unusedSectionVars false
set_option linter.unusedSimpArgs false
set_option linter.unusedVariables false

variable {α : Type}

/-! ### part 2: shunting-yard -/

/-- Prefix the output of the rest of the run. -/
def mapOut (pre : List (Tok α)) : Res (List (Tok α)) → Res (List (Tok α))
  | .error e => .error e
  | .ok out => .ok (pre ++ out)

@[simp] theorem mapOut_nil (r : Res (List (Tok α))) : mapOut [] r = r := by
  cases r <;> rfl

theorem mapOut_mapOut (a b : List (Tok α)) (r : Res (List (Tok α))) :
    mapOut a (mapOut b r) = mapOut (a ++ b) r := by
  cases r <;> simp [mapOut]

def lvlNum : Lvl → Nat
  | .E => 1
  | .T => 2
  | .F => 3
  | .A => 4

/-- The top of the stack is a `(` or an operator of precedence `< n` (or the stack is empty):
a phrase of level `n` will never pop it. -/
def OpenLt (n : Nat) : List (Tok α) → Prop
  | [] => True
  | t :: _ => t.base = .lparen ∨ ∃ p, t.prec = some p ∧ p < n

/-- Pending operators of a phrase of level `n`: no parenthesis, precedences ≥ `n`. -/
def PendGe (n : Nat) (P : List (Tok α)) : Prop :=
  ∀ t ∈ P, t.base ≠ .lparen ∧ ∃ p, t.prec = some p ∧ n ≤ p

theorem OpenLt.mono {n m : Nat} (h : n ≤ m) {S : List (Tok α)} (hS : OpenLt n S) : OpenLt m S := by
  cases S with
  | nil => trivial
  | cons t st =>
    rcases hS with h1 | ⟨p, h1, h2⟩
    · exact Or.inl h1
    · exact Or.inr ⟨p, h1, by omega⟩

theorem PendGe.mono {n m : Nat} (h : n ≤ m) {P : List (Tok α)} (hP : PendGe m P) : PendGe n P := by
  intro t ht
  obtain ⟨h1, p, h2, h3⟩ := hP t ht
  exact ⟨h1, p, h2, by omega⟩

theorem literal_step {t : Tok α} (h : t.base = .literal) (ts S : List (Tok α)) :
    toPostfixAux (t :: ts) S = mapOut [t] (toPostfixAux ts S) := by
  rw [toPostfixAux]
  simp only [h, beq_self_eq_true, if_true]
  cases toPostfixAux ts S <;> rfl

theorem lparen_step {t : Tok α} (h : t.base = .lparen) (ts S : List (Tok α)) :
    toPostfixAux (t :: ts) S = toPostfixAux ts (t :: S) := by
  rw [toPostfixAux]
  simp [h]

theorem popToLParen_pend {P : List (Tok α)} (hP : ∀ t ∈ P, t.base ≠ .lparen) {l : Tok α}
    (hl : l.base = .lparen) (S : List (Tok α)) : popToLParen (P ++ l :: S) = .ok (P, S) := by
  induction P with
  | nil => simp [popToLParen, hl]
  | cons t P ih =>
    have ht := hP t (by simp)
    simp only [List.cons_append, popToLParen]
    have : (t.base == Base.lparen) = false := by simpa using ht
    simp only [this]
    rw [ih (fun t' h' => hP t' (List.mem_cons_of_mem _ h'))]
    simp

theorem rparen_step {r : Tok α} (hr : r.base = .rparen) {P : List (Tok α)}
    (hP : ∀ t ∈ P, t.base ≠ .lparen) {l : Tok α} (hl : l.base = .lparen) (ts S : List (Tok α)) :
    toPostfixAux (r :: ts) (P ++ l :: S) = mapOut P (toPostfixAux ts S) := by
  rw [toPostfixAux]
  simp only [hr, popToLParen_pend hP hl]
  cases toPostfixAux ts S <;> simp [mapOut]

theorem popWhilePrec_pend {c : Tok α} {m : Nat} (hc : c.prec = some m) {P : List (Tok α)}
    (hP : PendGe m P) {S : List (Tok α)} (hS : OpenLt m S) :
    popWhilePrec c (P ++ S) = .ok (P, S) := by
  induction P with
  | nil =>
    cases S with
    | nil => rfl
    | cons t st =>
      simp only [List.nil_append, popWhilePrec]
      rcases hS with h1 | ⟨p, h1, h2⟩
      · simp [h1]
      · by_cases hl : t.base = .lparen
        · simp [hl]
        · have : (t.base == Base.lparen) = false := by simpa using hl
          simp only [this, compPrec, hc, h1]
          have : ¬ m ≤ p := by omega
          simp [this]
  | cons t P ih =>
    obtain ⟨h1, p, h2, h3⟩ := hP t (by simp)
    have : (t.base == Base.lparen) = false := by simpa using h1
    simp only [List.cons_append, popWhilePrec, this, compPrec, hc, h2]
    simp only [h3, decide_true]
    rw [ih (fun t' h' => hP t' (List.mem_cons_of_mem _ h'))]
    simp

/-- An operator of precedence `m` arrives: everything pending with precedence ≥ `m` is emitted,
the operator is pushed. -/
theorem op_step {c : Tok α} (hb : c.base = .infixOp ∨ c.base = .postfixOp) {m : Nat}
    (hc : c.prec = some m) {P : List (Tok α)} (hP : PendGe m P) {S : List (Tok α)}
    (hS : OpenLt m S) (ts : List (Tok α)) :
    toPostfixAux (c :: ts) (P ++ S) = mapOut P (toPostfixAux ts (c :: S)) := by
  have hb1 : (c.base == Base.literal) = false := by rcases hb with h | h <;> simp [h]
  have hb2 : (c.base == Base.rparen) = false := by rcases hb with h | h <;> simp [h]
  have hb3 : (c.base == Base.lparen) = false := by rcases hb with h | h <;> simp [h]
  rw [toPostfixAux]
  simp only [hb1, hb2, hb3]
  cases P with
  | nil =>
    simp only [List.nil_append, mapOut_nil]
    cases S with
    | nil => simp [pushDirectly]
    | cons t st =>
      rcases hS with h1 | ⟨p, h1, h2⟩
      · simp [pushDirectly, h1]
      · by_cases hl : t.base = .lparen
        · simp [pushDirectly, hl]
        · have : (t.base == Base.lparen) = false := by simpa using hl
          have hmp : ¬ m ≤ p := by omega
          simp [pushDirectly, this, compPrec, hc, h1, hmp]
  | cons t P' =>
    obtain ⟨h1, p, h2, h3⟩ := hP t (by simp)
    have : (t.base == Base.lparen) = false := by simpa using h1
    have hpd : pushDirectly c ((t :: P') ++ S) = .ok false := by
      simp [pushDirectly, this, compPrec, hc, h2, h3]
    simp only [hpd, popWhilePrec_pend hc hP hS]
    cases toPostfixAux ts (c :: S) <;> simp [mapOut]

/-- Appendix-B invariant: processing a level-`n` phrase from a stack whose top will not be popped
emits `Out` and leaves `Pend` on top of the untouched stack, with `Out ++ Pend` the postfix form
of the phrase's tree. -/
theorem shunt_spec {l : Lvl} {e : Rx α} {P : List (Tok α)} (h : G' l e P) :
    ∀ (S rest : List (Tok α)), OpenLt (lvlNum l) S →
      ∃ Out Pend, PendGe (lvlNum l) Pend ∧ Out ++ Pend = e.toPostfix ∧
        toPostfixAux (P ++ rest) S = mapOut Out (toPostfixAux rest (Pend ++ S)) := by
  induction h with
  | lit a =>
    intro S rest _
    exact ⟨[.str [a]], [], by intro t ht; simp at ht, rfl, literal_step (by simp) _ _⟩
  | wild =>
    intro S rest _
    exact ⟨[.wildcard], [], by intro t ht; simp at ht, rfl, literal_step (by simp) _ _⟩
  | eps =>
    intro S rest _
    refine ⟨[.str []], [], by intro t ht; simp at ht, rfl, ?_⟩
    show toPostfixAux (.lparen :: .str [] :: .rparen :: rest) S = _
    rw [lparen_step (by simp), literal_step (by simp)]
    have := rparen_step (r := (.rparen : Tok α)) (by simp) (P := []) (by intro t ht; simp at ht)
      (l := (.lparen : Tok α)) (by simp) rest S
    simp only [List.nil_append, mapOut_nil] at this
    rw [this]
    rfl
  | @paren e ts _ ih =>
    intro S rest _
    obtain ⟨Out, Pend, hP, hOut, hrun⟩ := ih (.lparen :: S) (.rparen :: rest) (Or.inl (by simp))
    refine ⟨e.toPostfix, [], by intro t ht; simp at ht, by simp, ?_⟩
    have e1 : (Tok.lparen :: ts ++ [Tok.rparen]) ++ rest = Tok.lparen :: (ts ++ Tok.rparen :: rest) := by
      simp
    rw [e1, lparen_step (by simp), hrun,
      rparen_step (by simp) (fun t ht => (hP t ht).1) (by simp), mapOut_mapOut, hOut]
    rfl
  | atom _ ih =>
    intro S rest hS
    obtain ⟨Out, Pend, hP, hOut, hrun⟩ := ih S rest (hS.mono (by decide))
    exact ⟨Out, Pend, hP.mono (by decide), hOut, hrun⟩
  | @star e ts _ ih =>
    intro S rest hS
    obtain ⟨Out, Pend, hP, hOut, hrun⟩ := ih S (.star :: rest) hS
    refine ⟨Out ++ Pend, [.star], ?_, by rw [hOut]; rfl, ?_⟩
    · intro t ht; simp at ht; subst ht; exact ⟨by simp, 3, by simp, Nat.le_refl _⟩
    · rw [List.append_assoc, List.singleton_append, hrun,
        op_step (Or.inr (by simp)) (by simp [lvlNum]) hP hS, mapOut_mapOut]
      rfl
  | @plus e ts _ ih =>
    intro S rest hS
    obtain ⟨Out, Pend, hP, hOut, hrun⟩ := ih S (.plus :: rest) hS
    refine ⟨Out ++ Pend, [.plus], ?_, by rw [hOut]; rfl, ?_⟩
    · intro t ht; simp at ht; subst ht; exact ⟨by simp, 3, by simp, Nat.le_refl _⟩
    · rw [List.append_assoc, List.singleton_append, hrun,
        op_step (Or.inr (by simp)) (by simp [lvlNum]) hP hS, mapOut_mapOut]
      rfl
  | @opt e ts _ ih =>
    intro S rest hS
    obtain ⟨Out, Pend, hP, hOut, hrun⟩ := ih S (.opt :: rest) hS
    refine ⟨Out ++ Pend, [.opt], ?_, by rw [hOut]; rfl, ?_⟩
    · intro t ht; simp at ht; subst ht; exact ⟨by simp, 3, by simp, Nat.le_refl _⟩
    · rw [List.append_assoc, List.singleton_append, hrun,
        op_step (Or.inr (by simp)) (by simp [lvlNum]) hP hS, mapOut_mapOut]
      rfl
  | @quant e ts lo hi _ ih =>
    intro S rest hS
    obtain ⟨Out, Pend, hP, hOut, hrun⟩ := ih S (.quant lo hi :: rest) hS
    refine ⟨Out ++ Pend, [.quant lo hi], ?_, by rw [hOut]; rfl, ?_⟩
    · intro t ht; simp at ht; subst ht; exact ⟨by simp, 3, by simp, Nat.le_refl _⟩
    · rw [List.append_assoc, List.singleton_append, hrun,
        op_step (Or.inr (by simp)) (by simp [lvlNum]) hP hS, mapOut_mapOut]
      rfl
  | factor _ ih =>
    intro S rest hS
    obtain ⟨Out, Pend, hP, hOut, hrun⟩ := ih S rest (hS.mono (by decide))
    exact ⟨Out, Pend, hP.mono (by decide), hOut, hrun⟩
  | @cat e f ts us _ _ ih1 ih2 =>
    intro S rest hS
    obtain ⟨Out1, Pend1, hP1, hOut1, hrun1⟩ := ih1 S (.concat :: (us ++ rest)) hS
    obtain ⟨Out2, Pend2, hP2, hOut2, hrun2⟩ := ih2 (.concat :: S) rest
      (Or.inr ⟨2, by simp, by decide⟩)
    refine ⟨Out1 ++ Pend1 ++ Out2, Pend2 ++ [.concat], ?_, ?_, ?_⟩
    · intro t ht
      rcases List.mem_append.mp ht with h' | h'
      · exact (hP2.mono (by decide)) t h'
      · simp at h'; subst h'; exact ⟨by simp, 2, by simp, Nat.le_refl _⟩
    · show _ = e.toPostfix ++ f.toPostfix ++ [Tok.concat]
      rw [← hOut1, ← hOut2]; simp
    · have e1 : (ts ++ [Tok.concat] ++ us) ++ rest = ts ++ (Tok.concat :: (us ++ rest)) := by simp
      rw [e1, hrun1, op_step (Or.inl (by simp)) (by simp [lvlNum]) hP1 hS, hrun2, mapOut_mapOut,
        mapOut_mapOut]
      simp
  | term _ ih =>
    intro S rest hS
    obtain ⟨Out, Pend, hP, hOut, hrun⟩ := ih S rest (hS.mono (by decide))
    exact ⟨Out, Pend, hP.mono (by decide), hOut, hrun⟩
  | @union e f ts us _ _ ih1 ih2 =>
    intro S rest hS
    obtain ⟨Out1, Pend1, hP1, hOut1, hrun1⟩ := ih1 S (.union :: (us ++ rest)) hS
    obtain ⟨Out2, Pend2, hP2, hOut2, hrun2⟩ := ih2 (.union :: S) rest
      (Or.inr ⟨1, by simp, by decide⟩)
    refine ⟨Out1 ++ Pend1 ++ Out2, Pend2 ++ [.union], ?_, ?_, ?_⟩
    · intro t ht
      rcases List.mem_append.mp ht with h' | h'
      · exact (hP2.mono (by decide)) t h'
      · simp at h'; subst h'; exact ⟨by simp, 1, by simp, Nat.le_refl _⟩
    · show _ = e.toPostfix ++ f.toPostfix ++ [Tok.union]
      rw [← hOut1, ← hOut2]; simp
    · have e1 : (ts ++ [Tok.union] ++ us) ++ rest = ts ++ (Tok.union :: (us ++ rest)) := by simp
      rw [e1, hrun1, op_step (Or.inl (by simp)) (by simp [lvlNum]) hP1 hS, hrun2, mapOut_mapOut,
        mapOut_mapOut]
      simp
  | @inter e f ts us _ _ ih1 ih2 =>
    intro S rest hS
    obtain ⟨Out1, Pend1, hP1, hOut1, hrun1⟩ := ih1 S (.inter :: (us ++ rest)) hS
    obtain ⟨Out2, Pend2, hP2, hOut2, hrun2⟩ := ih2 (.inter :: S) rest
      (Or.inr ⟨1, by simp, by decide⟩)
    refine ⟨Out1 ++ Pend1 ++ Out2, Pend2 ++ [.inter], ?_, ?_, ?_⟩
    · intro t ht
      rcases List.mem_append.mp ht with h' | h'
      · exact (hP2.mono (by decide)) t h'
      · simp at h'; subst h'; exact ⟨by simp, 1, by simp, Nat.le_refl _⟩
    · show _ = e.toPostfix ++ f.toPostfix ++ [Tok.inter]
      rw [← hOut1, ← hOut2]; simp
    · have e1 : (ts ++ [Tok.inter] ++ us) ++ rest = ts ++ (Tok.inter :: (us ++ rest)) := by simp
      rw [e1, hrun1, op_step (Or.inl (by simp)) (by simp [lvlNum]) hP1 hS, hrun2, mapOut_mapOut,
        mapOut_mapOut]
      simp
  | @shuffle e f ts us _ _ ih1 ih2 =>
    intro S rest hS
    obtain ⟨Out1, Pend1, hP1, hOut1, hrun1⟩ := ih1 S (.shuffle :: (us ++ rest)) hS
    obtain ⟨Out2, Pend2, hP2, hOut2, hrun2⟩ := ih2 (.shuffle :: S) rest
      (Or.inr ⟨1, by simp, by decide⟩)
    refine ⟨Out1 ++ Pend1 ++ Out2, Pend2 ++ [.shuffle], ?_, ?_, ?_⟩
    · intro t ht
      rcases List.mem_append.mp ht with h' | h'
      · exact (hP2.mono (by decide)) t h'
      · simp at h'; subst h'; exact ⟨by simp, 1, by simp, Nat.le_refl _⟩
    · show _ = e.toPostfix ++ f.toPostfix ++ [Tok.shuffle]
      rw [← hOut1, ← hOut2]; simp
    · have e1 : (ts ++ [Tok.shuffle] ++ us) ++ rest = ts ++ (Tok.shuffle :: (us ++ rest)) := by simp
      rw [e1, hrun1, op_step (Or.inl (by simp)) (by simp [lvlNum]) hP1 hS, hrun2, mapOut_mapOut,
        mapOut_mapOut]
      simp

/-- Shunting-yard on a whole expression (explicit-concatenation form) yields the postfix
linearisation of its tree. -/
theorem tokensToPostfix_of_grammar {e : Rx α} {P : List (Tok α)} (h : G' .E e P) :
    tokensToPostfix P = .ok e.toPostfix := by
  obtain ⟨Out, Pend, _, hOut, hrun⟩ := shunt_spec h [] [] trivial
  unfold tokensToPostfix
  rw [List.append_nil] at hrun
  rw [hrun, List.append_nil]
  simp [toPostfixAux, mapOut, hOut]

/-! ### part 1: implicit concatenation and `()` -/

/-- `inserted` only looks at the base classes; this is its table, computed from the regenerated
`concat_pairs` / `empty_string_pairs`. -/
def insTab (b1 b2 : Base) : List (Tok α) :=
  ((Gen.Regex.concatInsertPairs.filter fun p => b1.name == p.1 && b2.name == p.2).map
      fun _ => Tok.concat) ++
  ((Gen.Regex.emptyStringPairs.filter fun p => b1.name == p.1 && b2.name == p.2).map
      fun _ => Tok.str [])

theorem inserted_eq (t u : Tok α) : inserted t u = insTab t.base u.base := rfl

/-- A factor can start here. -/
def FS (b : Base) : Prop := b = .literal ∨ b = .lparen
/-- A factor can end here. -/
def FE (b : Base) : Prop := b = .literal ∨ b = .rparen ∨ b = .postfixOp

theorem insTab_FE_FS {b1 b2 : Base} (h1 : FE b1) (h2 : FS b2) :
    (insTab b1 b2 : List (Tok α)) = [.concat] := by
  rcases h1 with rfl | rfl | rfl <;> rcases h2 with rfl | rfl <;> rfl

theorem insTab_FE_post {b1 : Base} (h1 : FE b1) :
    (insTab b1 .postfixOp : List (Tok α)) = [] := by
  rcases h1 with rfl | rfl | rfl <;> rfl

theorem insTab_FE_infix {b1 : Base} (h1 : FE b1) :
    (insTab b1 .infixOp : List (Tok α)) = [] := by
  rcases h1 with rfl | rfl | rfl <;> rfl

theorem insTab_FE_rparen {b1 : Base} (h1 : FE b1) :
    (insTab b1 .rparen : List (Tok α)) = [] := by
  rcases h1 with rfl | rfl | rfl <;> rfl

theorem insTab_infix_FS {b2 : Base} (h2 : FS b2) :
    (insTab .infixOp b2 : List (Tok α)) = [] := by
  rcases h2 with rfl | rfl <;> rfl

theorem insTab_lparen_FS {b2 : Base} (h2 : FS b2) :
    (insTab .lparen b2 : List (Tok α)) = [] := by
  rcases h2 with rfl | rfl <;> rfl

theorem insTab_lparen_rparen : (insTab .lparen .rparen : List (Tok α)) = [.str []] := rfl

theorem addConcat_cons_cons (t u : Tok α) (r : List (Tok α)) :
    addConcat (t :: u :: r) = t :: (inserted t u ++ addConcat (u :: r)) := rfl

/-- `addConcat` distributes over a split point, inserting what the pair at the seam requires. -/
theorem addConcat_split (i : List (Tok α)) (t u : Tok α) (r : List (Tok α)) :
    addConcat (i ++ [t] ++ u :: r) = addConcat (i ++ [t]) ++ inserted t u ++ addConcat (u :: r) := by
  induction i with
  | nil => simp [addConcat]
  | cons x i ih =>
    cases i with
    | nil =>
      simp only [List.cons_append, List.nil_append, addConcat_cons_cons]
      simp [addConcat]
    | cons y i' =>
      simp only [List.cons_append, addConcat_cons_cons] at ih ⊢
      rw [ih]
      simp

theorem G_start {l : Lvl} {e : Rx α} {ts : List (Tok α)} (h : G l e ts) :
    ∃ t r, ts = t :: r ∧ FS t.base := by
  induction h with
  | lit a => exact ⟨_, _, rfl, Or.inl (by simp)⟩
  | wild => exact ⟨_, _, rfl, Or.inl (by simp)⟩
  | eps => exact ⟨_, _, rfl, Or.inr (by simp)⟩
  | paren _ _ => exact ⟨_, _, rfl, Or.inr (by simp)⟩
  | atom _ ih => exact ih
  | star _ ih => obtain ⟨t, r, rfl, h⟩ := ih; exact ⟨t, _, rfl, h⟩
  | plus _ ih => obtain ⟨t, r, rfl, h⟩ := ih; exact ⟨t, _, rfl, h⟩
  | opt _ ih => obtain ⟨t, r, rfl, h⟩ := ih; exact ⟨t, _, rfl, h⟩
  | quant _ _ _ ih => obtain ⟨t, r, rfl, h⟩ := ih; exact ⟨t, _, rfl, h⟩
  | factor _ ih => exact ih
  | cat _ _ ih _ => obtain ⟨t, r, rfl, h⟩ := ih; exact ⟨t, _, rfl, h⟩
  | term _ ih => exact ih
  | union _ _ ih _ => obtain ⟨t, r, rfl, h⟩ := ih; exact ⟨t, _, rfl, h⟩
  | inter _ _ ih _ => obtain ⟨t, r, rfl, h⟩ := ih; exact ⟨t, _, rfl, h⟩
  | shuffle _ _ ih _ => obtain ⟨t, r, rfl, h⟩ := ih; exact ⟨t, _, rfl, h⟩

theorem G_end {l : Lvl} {e : Rx α} {ts : List (Tok α)} (h : G l e ts) :
    ∃ i t, ts = i ++ [t] ∧ FE t.base := by
  induction h with
  | lit a => exact ⟨[], _, rfl, Or.inl (by simp)⟩
  | wild => exact ⟨[], _, rfl, Or.inl (by simp)⟩
  | eps => exact ⟨[.lparen], _, rfl, Or.inr (Or.inl (by simp))⟩
  | @paren e ts _ _ => exact ⟨.lparen :: ts, _, rfl, Or.inr (Or.inl (by simp))⟩
  | atom _ ih => exact ih
  | @star e ts _ _ => exact ⟨ts, _, rfl, Or.inr (Or.inr (by simp))⟩
  | @plus e ts _ _ => exact ⟨ts, _, rfl, Or.inr (Or.inr (by simp))⟩
  | @opt e ts _ _ => exact ⟨ts, _, rfl, Or.inr (Or.inr (by simp))⟩
  | @quant e ts lo hi _ _ => exact ⟨ts, _, rfl, Or.inr (Or.inr (by simp))⟩
  | factor _ ih => exact ih
  | @cat e f ts us _ _ _ ih => obtain ⟨i, t, rfl, h⟩ := ih; exact ⟨ts ++ i, t, by simp, h⟩
  | term _ ih => exact ih
  | @union e f ts us _ _ _ ih =>
    obtain ⟨i, t, rfl, h⟩ := ih; exact ⟨ts ++ [.union] ++ i, t, by simp, h⟩
  | @inter e f ts us _ _ _ ih =>
    obtain ⟨i, t, rfl, h⟩ := ih; exact ⟨ts ++ [.inter] ++ i, t, by simp, h⟩
  | @shuffle e f ts us _ _ _ ih =>
    obtain ⟨i, t, rfl, h⟩ := ih; exact ⟨ts ++ [.shuffle] ++ i, t, by simp, h⟩

/-- Appending a postfix operator inserts nothing. -/
theorem addConcat_snoc_post {l : Lvl} {e : Rx α} {ts : List (Tok α)} (h : G l e ts) {c : Tok α}
    (hc : c.base = .postfixOp) : addConcat (ts ++ [c]) = addConcat ts ++ [c] := by
  obtain ⟨i, t, rfl, ht⟩ := G_end h
  rw [addConcat_split, inserted_eq, hc, insTab_FE_post ht]
  simp [addConcat]

/-- A binary operator between two phrases inserts nothing. -/
theorem addConcat_infix {l1 l2 : Lvl} {e f : Rx α} {ts us : List (Tok α)} (h1 : G l1 e ts)
    (h2 : G l2 f us) {c : Tok α} (hc : c.base = .infixOp) :
    addConcat (ts ++ [c] ++ us) = addConcat ts ++ [c] ++ addConcat us := by
  obtain ⟨i, t, rfl, ht⟩ := G_end h1
  obtain ⟨u, r, rfl, hu⟩ := G_start h2
  have e1 : i ++ [t] ++ [c] ++ u :: r = (i ++ [t]) ++ [c] ++ u :: r := by simp
  rw [e1, addConcat_split (i ++ [t]) c u r, inserted_eq c u, hc, insTab_infix_FS hu]
  have e2 : i ++ [t] ++ [c] = i ++ [t] ++ c :: [] := by simp
  rw [e2, addConcat_split i t c [], inserted_eq t c, hc, insTab_FE_infix ht]
  simp [addConcat]

/-- `add_concat_and_empty_string_tokens` maps a phrase to the same phrase with the implicit
tokens written out. -/
theorem addConcat_grammar {l : Lvl} {e : Rx α} {ts : List (Tok α)} (h : G l e ts) :
    G' l e (addConcat ts) := by
  induction h with
  | lit a => exact .lit a
  | wild => exact .wild
  | eps =>
    have : addConcat ([.lparen, .rparen] : List (Tok α)) = [.lparen, .str [], .rparen] := by
      rw [addConcat_cons_cons, inserted_eq, base_lparen, base_rparen, insTab_lparen_rparen]
      rfl
    rw [this]; exact .eps
  | @paren e ts h ih =>
    obtain ⟨u, r, hu0, hu⟩ := G_start h
    obtain ⟨i, t, ht0, ht⟩ := G_end h
    have : addConcat (.lparen :: ts ++ [.rparen]) = .lparen :: addConcat ts ++ [.rparen] := by
      have e1 : Tok.lparen :: ts ++ [Tok.rparen] = Tok.lparen :: u :: (r ++ [Tok.rparen]) := by
        rw [hu0]; simp
      rw [e1, addConcat_cons_cons, inserted_eq, base_lparen, insTab_lparen_FS hu]
      have e2 : u :: (r ++ [Tok.rparen]) = i ++ [t] ++ Tok.rparen :: [] := by
        rw [← List.cons_append, ← hu0, ht0]
      rw [e2, addConcat_split, inserted_eq, base_rparen, insTab_FE_rparen ht, ← ht0]
      simp [addConcat]
    rw [this]; exact .paren ih
  | atom _ ih => exact .atom ih
  | star h ih => rw [addConcat_snoc_post h (by simp)]; exact .star ih
  | plus h ih => rw [addConcat_snoc_post h (by simp)]; exact .plus ih
  | opt h ih => rw [addConcat_snoc_post h (by simp)]; exact .opt ih
  | quant lo hi h ih => rw [addConcat_snoc_post h (by simp)]; exact .quant lo hi ih
  | factor _ ih => exact .factor ih
  | @cat e f ts us h1 h2 ih1 ih2 =>
    obtain ⟨i, t, ht0, ht⟩ := G_end h1
    obtain ⟨u, r, hu0, hu⟩ := G_start h2
    have : addConcat (ts ++ us) = addConcat ts ++ [.concat] ++ addConcat us := by
      rw [ht0, hu0, addConcat_split, inserted_eq, insTab_FE_FS ht hu]
    rw [this]; exact .cat ih1 ih2
  | term _ ih => exact .term ih
  | union h1 h2 ih1 ih2 => rw [addConcat_infix h1 h2 (by simp)]; exact .union ih1 ih2
  | inter h1 h2 ih1 ih2 => rw [addConcat_infix h1 h2 (by simp)]; exact .inter ih1 ih2
  | shuffle h1 h2 ih1 ih2 => rw [addConcat_infix h1 h2 (by simp)]; exact .shuffle ih1 ih2

/-- Parser correctness: for a token list of the grammar with tree `e`, concatenation insertion
followed by shunting-yard yields the postfix linearisation of `e`. -/
theorem parse_postfix {e : Rx α} {ts : List (Tok α)} (h : G .E e ts) :
    tokensToPostfix (addConcat ts) = .ok e.toPostfix :=
  tokensToPostfix_of_grammar (addConcat_grammar h)

end AV.Rx
