/-
Proofs/RxSem.lean — link between the core-only notions used in the builder proofs and the
reference semantics: `NFA.accepts` of a valid NFA (tied to Mathlib's `εNFA.accepts` by C01) is
acceptance along a `Path`; the predicate-level language operations are Mathlib's `Language`
operations.
-/
import AutomataVerif.Proofs.RxBuild
import AutomataVerif.Props.C01
import Mathlib.Computability.EpsilonNFA
import Mathlib.Computability.Language

namespace AV.Rx

set_option linter.unusedSectionVars false

variable {α : Type} [DecidableEq α]

/-! ### acceptance of a valid NFA = existence of an accepting path -/

theorem isPath_to_path {σ : Type} (M : εNFA α σ) {s t : σ} {x : List (Option α)}
    (h : M.IsPath s t x) : Path (fun q a r => r ∈ M.step q a) s x.reduceOption t := by
  induction h with
  | nil => exact Path.nil _
  | cons t' s' u a x hstep _ ih =>
    cases a with
    | none =>
      rw [List.reduceOption_cons_of_none]
      exact Path.eps hstep ih
    | some a =>
      rw [List.reduceOption_cons_of_some]
      exact Path.sym hstep ih

theorem path_to_isPath {σ : Type} (M : εNFA α σ) {s t : σ} {w : List α}
    (h : Path (fun q a r => r ∈ M.step q a) s w t) :
    ∃ x : List (Option α), x.reduceOption = w ∧ M.IsPath s t x := by
  induction h with
  | nil q => exact ⟨[], rfl, εNFA.IsPath.nil q⟩
  | eps hs _ ih =>
    obtain ⟨x, hx, hp⟩ := ih
    exact ⟨none :: x, by rw [List.reduceOption_cons_of_none, hx], εNFA.IsPath.cons _ _ _ _ _ hs hp⟩
  | sym hs _ ih =>
    obtain ⟨x, hx, hp⟩ := ih
    exact ⟨some _ :: x, by rw [List.reduceOption_cons_of_some, hx],
      εNFA.IsPath.cons _ _ _ _ _ hs hp⟩

/-- For a valid NFA definition, the model's verdict is the existence of a path from the initial
state to a final state that reads the word (via C01 and Mathlib's
`εNFA.mem_accepts_iff_exists_path`). -/
theorem nfa_accepts_iff_path {σ : Type} [DecidableEq σ] (n : NFA σ α) (hv : n.validate = .ok ())
    (w : List α) :
    n.accepts w = true ↔
      ∃ f, f ∈ n.finals ∧ Path (fun q a t => t ∈ n.targets q a) n.init w f := by
  rw [AV.Props.C01.C01_nfa_accepts_iff n hv w, εNFA.mem_accepts_iff_exists_path]
  constructor
  · rintro ⟨s1, s2, x, hs1, hs2, hx, hp⟩
    have : s1 = n.init := hs1
    subst this
    refine ⟨s2, hs2, ?_⟩
    rw [← hx]
    exact isPath_to_path (AV.Props.C01.nfaTextbook n) hp
  · rintro ⟨f, hf, hp⟩
    obtain ⟨x, hx, hpx⟩ := path_to_isPath (AV.Props.C01.nfaTextbook n) hp
    exact ⟨n.init, f, x, rfl, hf, hx, hpx⟩

/-- The NFA built from a builder accepts exactly the builder's language (when it is valid). -/
theorem toNFA_accepts_iff (b : Builder α) (syms : List α)
    (hv : (b.toNFA syms).validate = .ok ()) (w : List α) :
    (b.toNFA syms).accepts w = true ↔ b.Lang w := by
  rw [nfa_accepts_iff_path _ hv]
  rfl

/-! ### predicate-level language operations vs. Mathlib's `Language` -/

/-- Shuffle (interleaving) product of two languages. -/
def shuffleLang (L M : Language α) : Language α :=
  {w | ∃ u ∈ L, ∃ v ∈ M, Interleave u v w}

theorem LCat_iff (L M : Language α) (w : List α) :
    LCat (fun x => x ∈ L) (fun x => x ∈ M) w ↔ w ∈ L * M := by
  rw [Language.mem_mul]
  constructor
  · rintro ⟨u, v, hu, hv, rfl⟩; exact ⟨u, hu, v, hv, rfl⟩
  · rintro ⟨u, hu, v, hv, rfl⟩; exact ⟨u, v, hu, hv, rfl⟩

theorem LPow_iff (L : Language α) (k : Nat) (w : List α) :
    LPow (fun x => x ∈ L) k w ↔ w ∈ L ^ k := by
  induction k generalizing w with
  | zero => simp [LPow, Language.mem_one]
  | succ k ih =>
    rw [pow_succ', Language.mem_mul]
    constructor
    · rintro ⟨u, v, hu, hv, rfl⟩; exact ⟨u, hu, v, (ih v).mp hv, rfl⟩
    · rintro ⟨u, hu, v, hv, rfl⟩; exact ⟨u, v, hu, (ih v).mpr hv, rfl⟩

theorem mem_kstar_iff_pow (L : Language α) (w : List α) : w ∈ KStar.kstar L ↔ ∃ k, w ∈ L ^ k := by
  rw [Language.kstar_eq_iSup_pow]
  simp [Language.mem_iSup]

theorem RepDen_iff (L : Language α) (lo : Nat) (hi : Option Nat) (w : List α) :
    Builder.RepDen (fun x => x ∈ L) lo hi w ↔ ∃ k, lo ≤ k ∧ (∀ h, hi = some h → k ≤ h) ∧ w ∈ L ^ k := by
  unfold Builder.RepDen
  constructor
  · rintro ⟨k, h1, h2, h3⟩; exact ⟨k, h1, h2, (LPow_iff L k w).mp h3⟩
  · rintro ⟨k, h1, h2, h3⟩; exact ⟨k, h1, h2, (LPow_iff L k w).mpr h3⟩

end AV.Rx
