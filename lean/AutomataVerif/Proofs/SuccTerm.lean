/-
Proofs/SuccTerm.lean — termination of the traversal loop of `successors`
(Model/DFASucc.lean) when the depth of the traversal is bounded (a `max_length` is given, or
the language is finite): a potential that decreases with every loop iteration.  Core only.

The potential charges every candidate still to be tried at height `h` (levels available
below it) the cost `cCost h` of trying it, descending and coming back:
  `cCost 0 = 1`, `cCost (h+1) = 2 + |Σ| · cCost h`;
a descent, a move to the next sibling and a pop each lower the potential by at least 1.
-/
import AutomataVerif.Proofs.Succ

namespace AV
namespace DFA

set_option linter.unusedSectionVars false
set_option linter.unusedSimpArgs false

variable {σ α : Type} [DecidableEq σ] [DecidableEq α]

/-- Cost of one candidate at height `h` over an alphabet of `n` symbols. -/
def cCost (n : Nat) : Nat → Nat
  | 0 => 1
  | h + 1 => 2 + n * cCost n h

theorem cCost_pos (n h : Nat) : 0 < cCost n h := by
  cases h <;> simp [cCost] <;> omega

/-- Number of candidates still to be tried, the current one included. -/
def remCand (S : List α) : Option α → Nat
  | none => 0
  | some a => S.length - S.idxOf a

/-- Number of siblings after `ch`. -/
def remAfter (S : List α) (ch : α) : Nat := S.length - S.idxOf ch - 1

/-- Potential of the levels below the top (`chars` top first; the entry `ch` with `rest` below
it sits at depth `rest.length`). -/
def below (S : List α) (D : Nat) : List α → Nat
  | [] => 0
  | ch :: rest => remAfter S ch * cCost S.length (D - rest.length) + 1 + below S D rest

/-- The potential of the loop variables. -/
def potential (S : List α) (D : Nat) (s : SuccState σ α) : Nat :=
  remCand S s.cand * cCost S.length (D - s.chars.length) + 1 + below S D s.chars

/-- Positions in `sorted_symbols`. -/
structure CfgPos (S : List α) (c : SuccCfg σ α) : Prop where
  firstMem : c.first ∈ S
  first : S.idxOf c.first = 0
  next : ∀ a ∈ S, (∃ b, alookup a c.symSucc = some (some b) ∧ b ∈ S ∧ S.idxOf b = S.idxOf a + 1) ∨
      (alookup a c.symSucc = some none ∧ S.idxOf a + 1 = S.length)

theorem idxOf_mid {l r : List α} {a : α} (h : a ∉ l) : (l ++ a :: r).idxOf a = l.length := by
  induction l with
  | nil => simp [List.idxOf_cons]
  | cons x l ih =>
    have hx : x ≠ a := fun e => h (e ▸ List.mem_cons_self)
    have : a ∉ l := fun e => h (List.mem_cons_of_mem _ e)
    simp only [List.cons_append, List.idxOf_cons, List.length_cons]
    have hb : (x == a) = false := by simpa using hx
    simp only [hb, cond_false, ih this]

theorem cfgPos_of {S : List α} {first last : α} (hnd : S.Nodup) (hf : S.head? = some first)
    (hl : S.getLast? = some last) {coacc : List σ} :
    CfgPos S ({ coacc := coacc, first := first, symSucc := symbolSucc S last } : SuccCfg σ α) := by
  have hlk := alookup_symbolSucc hnd hl
  obtain ⟨t, hS⟩ := List.head?_eq_some_iff.mp hf
  refine ⟨by rw [hS]; exact List.mem_cons_self, by rw [hS]; simp [List.idxOf_cons], ?_⟩
  intro a ha
  rcases next_or_last S a ha with ⟨l, b, r, hS'⟩ | ⟨l, hS'⟩
  · left
    refine ⟨b, hlk.1 l a b r hS', by rw [hS']; simp, ?_⟩
    have hnd' := hnd
    rw [hS'] at hnd'
    have h1 : a ∉ l := by
      intro h
      exact (List.nodup_append.mp hnd').2.2 a h a List.mem_cons_self rfl
    have h2 : b ∉ l ++ [a] := by
      intro h
      have hnd'' : ((l ++ [a]) ++ b :: r).Nodup := by simpa using hnd'
      exact (List.nodup_append.mp hnd'').2.2 b h b List.mem_cons_self rfl
    have e1 : S.idxOf a = l.length := by rw [hS']; exact idxOf_mid h1
    have e2 : S.idxOf b = (l ++ [a]).length := by
      have : S = (l ++ [a]) ++ b :: r := by rw [hS']; simp
      rw [this]; exact idxOf_mid h2
    rw [e1, e2]; simp
  · right
    refine ⟨hlk.2 l a hS', ?_⟩
    have hnd' := hnd
    rw [hS'] at hnd'
    have h1 : a ∉ l := by
      intro h
      exact (List.nodup_append.mp hnd').2.2 a h a (by simp) rfl
    have e1 : S.idxOf a = l.length := by rw [hS']; exact idxOf_mid h1
    rw [e1, hS']; simp

/-- **Every loop iteration lowers the potential**, provided descents happen only above depth
`D`. -/
theorem step_decreases {d : DFA σ α} {S : List α} {c : SuccCfg σ α} {o : SuccOpts} {D : Nat}
    (cpos : CfgPos S c)
    (hD : ∀ (top : Option σ) (rest : List (Option σ)) (chars : List α) (a : α),
      StackOK d (top :: rest) chars →
      (viable c (d.step? top a) && belowMax o chars.length) = true → chars.length < D)
    {s : SuccState σ α} (inv : SInv d S s) (hloop : ¬ (s.chars = [] ∧ s.cand = none)) :
    ∃ s', (succStep d o c s).2 = .ok s' ∧ SInv d S s' ∧ potential S D s' < potential S D s := by
  obtain ⟨states, chars, cand, sy⟩ := s
  obtain ⟨hstack, hcharsS, hcandS⟩ := inv
  simp only at hstack hcharsS hcandS hloop
  cases states with
  | nil => exact absurd rfl hstack.ne_nil
  | cons top rest =>
  cases cand with
  | some a =>
    have haS : a ∈ S := hcandS a rfl
    have hidx : S.idxOf a < S.length := List.idxOf_lt_length_iff.mpr haS
    cases hb : (viable c (d.step? top a) && belowMax o chars.length) with
    | true =>
      have hdepth := hD top rest chars a hstack hb
      refine ⟨⟨d.step? top a :: top :: rest, a :: chars, some c.first, true⟩, ?_, ?_, ?_⟩
      · simp only [succStep, hb]
      · exact ⟨StackOK.push hstack, fun ch hch => by
          rcases List.mem_cons.mp hch with rfl | h
          · exact haS
          · exact hcharsS ch h, fun x hx => by cases hx; exact cpos.firstMem⟩
      · simp only [potential, below, remCand, remAfter, cpos.first, List.length_cons, Nat.sub_zero]
        obtain ⟨h', hh⟩ : ∃ h', D - chars.length = h' + 1 := ⟨D - chars.length - 1, by omega⟩
        have hh' : D - (chars.length + 1) = h' := by omega
        rw [hh, hh']
        simp only [cCost]
        obtain ⟨r, hr⟩ : ∃ r, S.length - S.idxOf a = r + 1 := ⟨S.length - S.idxOf a - 1, by omega⟩
        rw [hr, Nat.add_sub_cancel, Nat.succ_mul]
        generalize r * (2 + S.length * cCost S.length h') = x
        generalize S.length * cCost S.length h' = y
        omega
    | false =>
      rcases cpos.next a haS with ⟨b, hlk, hbS, hbi⟩ | ⟨hlk, hlast⟩
      · refine ⟨⟨top :: rest, chars, some b, true⟩, ?_, ?_, ?_⟩
        · simp only [succStep, hb, hlk]
        · exact ⟨hstack, hcharsS, fun x hx => by cases hx; exact hbS⟩
        · simp only [potential, remCand, hbi]
          obtain ⟨r, hr⟩ : ∃ r, S.length - S.idxOf a = r + 1 := ⟨S.length - S.idxOf a - 1, by omega⟩
          have hr' : S.length - (S.idxOf a + 1) = r := by omega
          rw [hr, hr', Nat.succ_mul]
          have := cCost_pos S.length (D - chars.length)
          omega
      · refine ⟨⟨top :: rest, chars, none, true⟩, ?_, ?_, ?_⟩
        · simp only [succStep, hb, hlk]
        · exact ⟨hstack, hcharsS, fun x hx => by cases hx⟩
        · simp only [potential, remCand, Nat.zero_mul]
          have : S.length - S.idxOf a = 1 := by omega
          rw [this, Nat.one_mul]
          have := cCost_pos S.length (D - chars.length)
          omega
  | none =>
    cases chars with
    | nil => exact absurd ⟨rfl, rfl⟩ hloop
    | cons ch chars' =>
      have hchS : ch ∈ S := hcharsS ch List.mem_cons_self
      have hidx : S.idxOf ch < S.length := List.idxOf_lt_length_iff.mpr hchS
      have hpop := hstack.pop
      have hcs : ∀ x ∈ chars', x ∈ S := fun x hx => hcharsS x (List.mem_cons_of_mem _ hx)
      rcases cpos.next ch hchS with ⟨b, hlk, hbS, hbi⟩ | ⟨hlk, hlast⟩
      · refine ⟨⟨rest, chars', some b, true⟩, ?_, ?_, ?_⟩
        · simp only [succStep, hlk]
        · exact ⟨hpop, hcs, fun x hx => by cases hx; exact hbS⟩
        · simp only [potential, remCand, below, remAfter, hbi, Nat.zero_mul]
          have : S.length - (S.idxOf ch + 1) = S.length - S.idxOf ch - 1 := by omega
          rw [this]
          omega
      · refine ⟨⟨rest, chars', none, true⟩, ?_, ?_, ?_⟩
        · simp only [succStep, hlk]
        · exact ⟨hpop, hcs, fun x hx => by cases hx⟩
        · simp only [potential, remCand, below, remAfter, Nat.zero_mul]
          have : S.length - S.idxOf ch - 1 = 0 := by omega
          rw [this, Nat.zero_mul]
          omega

/-- With more fuel than the potential, the loop runs to its end. -/
theorem loop_finishes {d : DFA σ α} {S : List α} {c : SuccCfg σ α} {o : SuccOpts} {D : Nat}
    (cpos : CfgPos S c)
    (hD : ∀ (top : Option σ) (rest : List (Option σ)) (chars : List α) (a : α),
      StackOK d (top :: rest) chars →
      (viable c (d.step? top a) && belowMax o chars.length) = true → chars.length < D) :
    ∀ (fuel : Nat) (s : SuccState σ α), SInv d S s → potential S D s < fuel →
      (succLoop d o c fuel s).2 = .finished := by
  intro fuel
  induction fuel with
  | zero => intro s _ h; omega
  | succ fuel ih =>
    intro s inv hpot
    by_cases hexit : s.chars = [] ∧ s.cand = none
    · have hcond : (s.chars.isEmpty && s.cand.isNone) = true := by simp [hexit.1, hexit.2]
      have hs := inv.stack
      simp only [succLoop, hcond, succFinal]
      cases hst : s.states with
      | nil => exact absurd hst hs.ne_nil
      | cons b r => rfl
    · have hcond : (s.chars.isEmpty && s.cand.isNone) = false := by
        cases hc : s.chars with
        | nil =>
          cases hk : s.cand with
          | none => exact absurd ⟨hc, hk⟩ hexit
          | some a => simp
        | cons x t => simp
      obtain ⟨s', hstep, inv', hlt⟩ := step_decreases cpos hD inv hexit
      cases hst : succStep d o c s with
      | mk y r =>
        rw [hst] at hstep
        simp only at hstep
        subst hstep
        simp only [succLoop, hcond, hst]
        exact ih s' inv' (by omega)

end DFA
end AV
