/-
Proofs/CtorFLOrder.lean — from_finite_language (C15), layer A: the lexicographic order used by
`sorted(language)`, insertion sort, longest common prefixes, and the fact the construction
rests on: in a sorted list the words sharing a prefix are contiguous.  Core only.
-/
import AutomataVerif.Proofs.CtorBasic

namespace AV.Ctor.FL

set_option linter.unusedSectionVars false
set_option linter.unusedVariables false
set_option linter.unusedSimpArgs false

variable {α : Type} [DecidableEq α]

/-- A strict total order on symbols, as a Boolean `<` (code points). -/
structure StrictTotal (lt : α → α → Bool) : Prop where
  irrefl : ∀ a, lt a a = false
  trans : ∀ a b c, lt a b = true → lt b c = true → lt a c = true
  total : ∀ a b, lt a b = true ∨ a = b ∨ lt b a = true

/-- The order of the driver (symbols are integers, the rank of the character). -/
theorem strictTotal_int : StrictTotal (fun a b : Int => decide (a < b)) :=
  ⟨by intro a; simp, by intro a b c; simp; omega, by intro a b; simp; omega⟩

theorem strictTotal_nat : StrictTotal (fun a b : Nat => decide (a < b)) :=
  ⟨by intro a; simp, by intro a b c; simp; omega, by intro a b; simp; omega⟩

section order
variable {lt : α → α → Bool} (ho : StrictTotal lt)
include ho

theorem StrictTotal.asymm {a b : α} (h : lt a b = true) : lt b a = false := by
  cases h2 : lt b a with
  | false => rfl
  | true => have := ho.trans a b a h h2; rw [ho.irrefl] at this; cases this

theorem wordLt_irrefl (u : List α) : wordLt lt u u = false := by
  induction u with
  | nil => rfl
  | cons a u ih => simp [wordLt, ho.irrefl, ih]

/-- `u < v` lexicographically: `u` is a proper prefix of `v`, or they differ first at a
position where `u` has the smaller symbol. -/
theorem wordLt_iff (u v : List α) :
    wordLt lt u v = true ↔
      (u <+: v ∧ u ≠ v) ∨ ∃ p a b s t, u = p ++ a :: s ∧ v = p ++ b :: t ∧ lt a b = true := by
  induction u generalizing v with
  | nil =>
    cases v with
    | nil => simp [wordLt]
    | cons b v =>
      simp only [wordLt, true_iff]
      exact Or.inl ⟨List.nil_prefix, by simp⟩
  | cons a u ih =>
    cases v with
    | nil =>
      simp only [wordLt, Bool.false_eq_true, false_iff, not_or, not_and, not_exists]
      refine ⟨fun h => by simp at h, ?_⟩
      intro p a' b s t _ h2
      cases p <;> simp at h2
    | cons b v =>
      simp only [wordLt]
      by_cases h1 : lt a b = true
      · simp only [h1, if_true, true_iff]
        exact Or.inr ⟨[], a, b, u, v, rfl, rfl, h1⟩
      · have h1' : lt a b = false := by simpa using h1
        simp only [h1', Bool.false_eq_true, if_false]
        by_cases h2 : lt b a = true
        · simp only [h2, if_true, Bool.false_eq_true, false_iff, not_or, not_and, not_exists]
          constructor
          · intro hp
            have := (List.cons_prefix_cons.mp hp).1
            subst this
            rw [ho.irrefl] at h2; cases h2
          · intro p a' b' s t e1 e2 hlt
            cases p with
            | nil =>
              simp only [List.nil_append, List.cons.injEq] at e1 e2
              rw [← e1.1, ← e2.1] at hlt
              rw [hlt] at h1'; cases h1'
            | cons c p =>
              simp only [List.cons_append, List.cons.injEq] at e1 e2
              have : a = b := e1.1.trans e2.1.symm
              subst this
              rw [ho.irrefl] at h2; cases h2
        · have h2' : lt b a = false := by simpa using h2
          have hab : a = b := by
            rcases ho.total a b with h | h | h
            · rw [h] at h1'; cases h1'
            · exact h
            · rw [h] at h2'; cases h2'
          subst hab
          simp only [h2', Bool.false_eq_true, if_false]
          rw [ih v]
          constructor
          · rintro (⟨hp, hne⟩ | ⟨p, a', b', s, t, e1, e2, hlt⟩)
            · exact Or.inl ⟨List.cons_prefix_cons.mpr ⟨rfl, hp⟩, by simpa using hne⟩
            · exact Or.inr ⟨a :: p, a', b', s, t, by simp [e1], by simp [e2], hlt⟩
          · rintro (⟨hp, hne⟩ | ⟨p, a', b', s, t, e1, e2, hlt⟩)
            · exact Or.inl ⟨(List.cons_prefix_cons.mp hp).2, by simpa using hne⟩
            · cases p with
              | nil =>
                simp only [List.nil_append, List.cons.injEq] at e1 e2
                rw [← e1.1, ← e2.1, ho.irrefl] at hlt; cases hlt
              | cons c p =>
                simp only [List.cons_append, List.cons.injEq] at e1 e2
                exact Or.inr ⟨p, a', b', s, t, e1.2, e2.2, hlt⟩

theorem wordLt_total (u v : List α) : wordLt lt u v = true ∨ u = v ∨ wordLt lt v u = true := by
  induction u generalizing v with
  | nil =>
    cases v with
    | nil => exact Or.inr (Or.inl rfl)
    | cons b v => exact Or.inl rfl
  | cons a u ih =>
    cases v with
    | nil => exact Or.inr (Or.inr rfl)
    | cons b v =>
      simp only [wordLt]
      rcases ho.total a b with h | h | h
      · simp [h]
      · subst h
        simp only [ho.irrefl, Bool.false_eq_true, if_false, List.cons.injEq, true_and]
        exact ih v
      · have := ho.asymm h
        simp [h, this]

theorem wordLt_asymm {u v : List α} (h : wordLt lt u v = true) : wordLt lt v u = false := by
  induction u generalizing v with
  | nil =>
    cases v with
    | nil => simp [wordLt] at h
    | cons b v => rfl
  | cons a u ih =>
    cases v with
    | nil => simp [wordLt] at h
    | cons b v =>
      simp only [wordLt] at h ⊢
      by_cases h1 : lt a b = true
      · simp [h1, ho.asymm h1]
      · have h1' : lt a b = false := by simpa using h1
        simp only [h1', Bool.false_eq_true, if_false] at h
        by_cases h2 : lt b a = true
        · simp [h2] at h
        · have h2' : lt b a = false := by simpa using h2
          simp only [h2', Bool.false_eq_true, if_false] at h
          simp only [h2', h1', Bool.false_eq_true, if_false]
          exact ih h

theorem wordLt_trans {u v w : List α} (h1 : wordLt lt u v = true) (h2 : wordLt lt v w = true) :
    wordLt lt u w = true := by
  induction u generalizing v w with
  | nil =>
    cases w with
    | nil => cases v <;> simp [wordLt] at h1 h2
    | cons c w => rfl
  | cons a u ih =>
    cases v with
    | nil => simp [wordLt] at h1
    | cons b v =>
      cases w with
      | nil => simp [wordLt] at h2
      | cons c w =>
        simp only [wordLt] at h1 h2 ⊢
        by_cases hab : lt a b = true
        · by_cases hbc : lt b c = true
          · simp [ho.trans a b c hab hbc]
          · have hbc' : lt b c = false := by simpa using hbc
            simp only [hbc', Bool.false_eq_true, if_false] at h2
            by_cases hcb : lt c b = true
            · simp [hcb] at h2
            · have : b = c := by
                rcases ho.total b c with h | h | h
                · rw [h] at hbc'; cases hbc'
                · exact h
                · exact absurd h hcb
              subst this
              simp [hab]
        · have hab' : lt a b = false := by simpa using hab
          simp only [hab', Bool.false_eq_true, if_false] at h1
          by_cases hba : lt b a = true
          · simp [hba] at h1
          · have hba' : lt b a = false := by simpa using hba
            have : a = b := by
              rcases ho.total a b with h | h | h
              · rw [h] at hab'; cases hab'
              · exact h
              · rw [h] at hba'; cases hba'
            subst this
            simp only [hba', Bool.false_eq_true, if_false] at h1
            by_cases hac : lt a c = true
            · simp [hac]
            · have hac' : lt a c = false := by simpa using hac
              simp only [hac', Bool.false_eq_true, if_false] at h2 ⊢
              by_cases hca : lt c a = true
              · simp [hca] at h2
              · have hca' : lt c a = false := by simpa using hca
                simp only [hca', Bool.false_eq_true, if_false] at h2 ⊢
                exact ih h1 h2

/-- `u ≤ v` in the lexicographic order. -/
def wordLe (lt : α → α → Bool) (u v : List α) : Prop := u = v ∨ wordLt lt u v = true

theorem wordLe_trans {u v w : List α} (h1 : wordLe lt u v) (h2 : wordLe lt v w) : wordLe lt u w := by
  rcases h1 with rfl | h1
  · exact h2
  · rcases h2 with rfl | h2
    · exact Or.inr h1
    · exact Or.inr (wordLt_trans ho h1 h2)

theorem wordLe_of_not_lt {u v : List α} (h : wordLt lt v u = false) : wordLe lt u v := by
  rcases wordLt_total ho u v with h1 | h1 | h1
  · exact Or.inr h1
  · exact Or.inl h1
  · rw [h1] at h; cases h

theorem prefix_wordLe {u v : List α} (h : u <+: v) : wordLe lt u v := by
  by_cases e : u = v
  · exact Or.inl e
  · exact Or.inr ((wordLt_iff ho u v).mpr (Or.inl ⟨h, e⟩))

/-- **Contiguity.** If `u ≤ v ≤ w` and `q` is a prefix of both `u` and `w`, it is a prefix
of `v`. -/
theorem prefix_between {q u v w : List α} (h1 : wordLe lt u v) (h2 : wordLe lt v w)
    (hu : q <+: u) (hw : q <+: w) : q <+: v := by
  induction q generalizing u v w with
  | nil => exact List.nil_prefix
  | cons a q ih =>
    obtain ⟨u', rfl⟩ : ∃ u', u = a :: u' := by
      obtain ⟨t, rfl⟩ := hu; exact ⟨q ++ t, rfl⟩
    obtain ⟨w', rfl⟩ : ∃ w', w = a :: w' := by
      obtain ⟨t, rfl⟩ := hw; exact ⟨q ++ t, rfl⟩
    have hu' := (List.cons_prefix_cons.mp hu).2
    have hw' := (List.cons_prefix_cons.mp hw).2
    cases v with
    | nil =>
      rcases h1 with h | h
      · cases h
      · simp [wordLt] at h
    | cons b v =>
      -- the first symbol of v is squeezed between a and a
      have hab : ¬ lt b a = true := by
        intro hba
        rcases h1 with h | h
        · have := (List.cons.inj h).1; subst this; rw [ho.irrefl] at hba; cases hba
        · simp only [wordLt, ho.asymm hba, hba, Bool.false_eq_true, if_false, if_true] at h
      have hba : ¬ lt a b = true := by
        intro hab'
        rcases h2 with h | h
        · have := (List.cons.inj h).1; subst this; rw [ho.irrefl] at hab'; cases hab'
        · simp only [wordLt, ho.asymm hab', hab', Bool.false_eq_true, if_false, if_true] at h
      have e : a = b := by
        rcases ho.total a b with h | h | h
        · exact absurd h hba
        · exact h
        · exact absurd h hab
      subst e
      apply List.cons_prefix_cons.mpr ⟨rfl, ?_⟩
      have h1' : wordLe lt u' v := by
        rcases h1 with h | h
        · exact Or.inl (List.cons.inj h).2
        · simp only [wordLt, ho.irrefl, Bool.false_eq_true, if_false] at h; exact Or.inr h
      have h2' : wordLe lt v w' := by
        rcases h2 with h | h
        · exact Or.inl (List.cons.inj h).2
        · simp only [wordLt, ho.irrefl, Bool.false_eq_true, if_false] at h; exact Or.inr h
      exact ih h1' h2' hu' hw'

/-! ### insertion sort -/

theorem mem_insertWord (w : List α) (l : List (List α)) (x : List α) :
    x ∈ insertWord lt w l ↔ x = w ∨ x ∈ l := by
  induction l with
  | nil => simp [insertWord]
  | cons v t ih =>
    unfold insertWord
    split
    · simp only [List.mem_cons, ih]
      constructor
      · rintro (h | h | h)
        · exact Or.inr (Or.inl h)
        · exact Or.inl h
        · exact Or.inr (Or.inr h)
      · rintro (h | h | h)
        · exact Or.inr (Or.inl h)
        · exact Or.inl h
        · exact Or.inr (Or.inr h)
    · simp

theorem mem_sortWords (l : List (List α)) (x : List α) : x ∈ sortWords lt l ↔ x ∈ l := by
  unfold sortWords
  induction l with
  | nil => simp
  | cons w t ih => rw [List.foldr_cons, mem_insertWord ho, ih]; simp

/-- Strictly increasing. -/
def Increasing (lt : α → α → Bool) (l : List (List α)) : Prop :=
  l.Pairwise fun u v => wordLt lt u v = true

theorem increasing_insertWord (w : List α) (l : List (List α)) (hl : Increasing lt l) (hw : w ∉ l) :
    Increasing lt (insertWord lt w l) := by
  induction l with
  | nil => simp [insertWord, Increasing]
  | cons v t ih =>
    unfold Increasing at hl
    rw [List.pairwise_cons] at hl
    simp only [List.mem_cons, not_or] at hw
    unfold insertWord
    by_cases h : wordLt lt v w = true
    · simp only [h, if_true]
      unfold Increasing
      rw [List.pairwise_cons]
      refine ⟨?_, ih hl.2 hw.2⟩
      intro x hx
      rcases (mem_insertWord ho w t x).mp hx with rfl | hx'
      · exact h
      · exact hl.1 x hx'
    · have h' : wordLt lt v w = false := by simpa using h
      simp only [h', Bool.false_eq_true, if_false]
      have hwv : wordLt lt w v = true := by
        rcases wordLt_total ho w v with h1 | h1 | h1
        · exact h1
        · exact absurd h1 hw.1
        · exact absurd h1 h
      unfold Increasing
      rw [List.pairwise_cons, List.pairwise_cons]
      refine ⟨?_, hl⟩
      intro x hx
      rcases List.mem_cons.mp hx with rfl | hx'
      · exact hwv
      · exact wordLt_trans ho hwv (hl.1 x hx')

theorem increasing_sortWords (l : List (List α)) (hnd : l.Nodup) : Increasing lt (sortWords lt l) := by
  unfold sortWords
  induction l with
  | nil => simp [Increasing]
  | cons w t ih =>
    rw [List.nodup_cons] at hnd
    rw [List.foldr_cons]
    apply increasing_insertWord ho w _ (ih hnd.2)
    intro hm
    exact hnd.1 ((mem_sortWords ho t w).mp hm)

end order

/-! ### longest common prefix -/

theorem lcpLen_le_left (u v : List α) : lcpLen u v ≤ u.length := by
  induction u generalizing v with
  | nil => simp [lcpLen]
  | cons a u ih =>
    cases v with
    | nil => simp [lcpLen]
    | cons b v =>
      simp only [lcpLen]
      split
      · simp only [List.length_cons]; exact Nat.succ_le_succ (ih v)
      · omega

theorem take_lcpLen (u v : List α) : u.take (lcpLen u v) = v.take (lcpLen u v) := by
  induction u generalizing v with
  | nil => simp [lcpLen]
  | cons a u ih =>
    cases v with
    | nil => simp [lcpLen]
    | cons b v =>
      simp only [lcpLen]
      by_cases h : a = b
      · subst h; simp [ih v]
      · simp [h]

/-- A common prefix of `u` and `v` is not longer than `lcpLen u v`. -/
theorem common_prefix_le {q u v : List α} (hu : q <+: u) (hv : q <+: v) : q.length ≤ lcpLen u v := by
  induction q generalizing u v with
  | nil => simp
  | cons a q ih =>
    obtain ⟨u', rfl⟩ : ∃ u', u = a :: u' := by obtain ⟨t, rfl⟩ := hu; exact ⟨q ++ t, rfl⟩
    obtain ⟨v', rfl⟩ : ∃ v', v = a :: v' := by obtain ⟨t, rfl⟩ := hv; exact ⟨q ++ t, rfl⟩
    simp only [lcpLen, if_true, List.length_cons]
    exact Nat.succ_le_succ (ih (List.cons_prefix_cons.mp hu).2 (List.cons_prefix_cons.mp hv).2)

theorem lcpLen_nil_right (u : List α) : lcpLen u [] = 0 := by cases u <;> rfl

end AV.Ctor.FL
