/-
Proofs/NFAOpsShuffle.lean — table-level specification of `NFA.shuffle_product`
(Model/NFAOps.lean): totality, validity of the result and the reading of its transition
table (every move — ε or symbol — moves exactly one component).  Core only.
-/
import AutomataVerif.Model.NFAOps
import AutomataVerif.Proofs.NFATable
import AutomataVerif.Proofs.NFAOpsUnary

open AV.AL

namespace AV

set_option linter.unusedSectionVars false

namespace AL

/-- `itertools.product` as a set. -/
theorem mem_lprod {β γ : Type} {xs : List β} {ys : List γ} {p : β} {q : γ} :
    (p, q) ∈ lprod xs ys ↔ p ∈ xs ∧ q ∈ ys := by
  unfold lprod
  simp only [List.mem_flatMap, List.mem_map, Prod.mk.injEq]
  constructor
  · rintro ⟨x, hx, y, hy, rfl, rfl⟩
    exact ⟨hx, hy⟩
  · rintro ⟨hp, hq⟩
    exact ⟨p, hp, q, hq, rfl, rfl⟩

end AL

open AL

namespace NFA

/-! ### one inner loop: `for symbol, targets in row.items(): new[cur][symbol] ∪= map f targets` -/

section RowFold
variable {σ τ α : Type} [DecidableEq σ] [DecidableEq α]

theorem mem_tgt_foldl_row (cur : σ) (f : τ → σ) : ∀ (r : Row τ α) (t : Tbl σ α) (q : σ)
    (a : Option α) (p : σ),
    p ∈ Tbl.tgt (r.foldl (fun t e => Tbl.addTargets t cur e.1 (e.2.map f)) t) q a ↔
      p ∈ Tbl.tgt t q a ∨ (q = cur ∧ ∃ ts, (a, ts) ∈ r ∧ ∃ x ∈ ts, p = f x) := by
  intro r
  induction r with
  | nil => intro t q a p; simp
  | cons e r ih =>
    intro t q a p
    rw [List.foldl_cons, ih, Tbl.mem_tgt_addTargets]
    constructor
    · rintro ((h | ⟨hq, ha, hp⟩) | ⟨hq, ts, hts, hx⟩)
      · exact Or.inl h
      · obtain ⟨x, hx, rfl⟩ := List.mem_map.mp hp
        refine Or.inr ⟨hq, e.2, ?_, x, hx, rfl⟩
        rw [ha]; exact List.mem_cons_self
      · exact Or.inr ⟨hq, ts, List.mem_cons_of_mem _ hts, hx⟩
    · rintro (h | ⟨hq, ts, hts, x, hx, hp⟩)
      · exact Or.inl (Or.inl h)
      · rcases List.mem_cons.mp hts with he | hts
        · refine Or.inl (Or.inr ⟨hq, ?_, ?_⟩)
          · rw [← he]
          · rw [← he, hp]; exact List.mem_map.mpr ⟨x, hx, rfl⟩
        · exact Or.inr ⟨hq, ts, hts, x, hx, hp⟩

theorem mem_akeys_foldl_row (cur : σ) (f : τ → σ) : ∀ (r : Row τ α) (t : Tbl σ α) (x : σ),
    x ∈ akeys t → x ∈ akeys (r.foldl (fun t e => Tbl.addTargets t cur e.1 (e.2.map f)) t) := by
  intro r
  induction r with
  | nil => intro t x h; exact h
  | cons e r ih =>
    intro t x h
    rw [List.foldl_cons]
    exact ih _ x ((Tbl.mem_akeys_addTargets _ _ _ _ _).mpr (Or.inr h))

theorem dict_foldl_row (cur : σ) (f : τ → σ) : ∀ (r : Row τ α) (t : Tbl σ α), Tbl.Dict t →
    Tbl.Dict (r.foldl (fun t e => Tbl.addTargets t cur e.1 (e.2.map f)) t) := by
  intro r
  induction r with
  | nil => intro t h; exact h
  | cons e r ih => intro t h; rw [List.foldl_cons]; exact ih _ (Tbl.dict_addTargets h _ _ _)

theorem ok_foldl_row {S : Option α → Prop} {T : σ → Prop} (cur : σ) (f : τ → σ) :
    ∀ (r : Row τ α) (t : Tbl σ α), (∀ e ∈ r, S e.1 ∧ ∀ x ∈ e.2, T (f x)) → Tbl.Ok S T t →
    Tbl.Ok S T (r.foldl (fun t e => Tbl.addTargets t cur e.1 (e.2.map f)) t) := by
  intro r
  induction r with
  | nil => intro t _ h; exact h
  | cons e r ih =>
    intro t hr h
    rw [List.foldl_cons]
    refine ih _ (fun e' he' => hr e' (List.mem_cons_of_mem _ he')) ?_
    have he := hr e List.mem_cons_self
    refine Tbl.ok_addTargets h cur he.1 ?_
    intro p hp
    obtain ⟨x, hx, rfl⟩ := List.mem_map.mp hp
    exact he.2 x hx

/-- In a dict row, "some entry of `a` contains `x`" is the reading `getD`. -/
theorem exists_entry_iff [DecidableEq τ] {r : Row τ α} (hr : (akeys r).Nodup) (a : Option α) (x : τ) :
    (∃ ts, (a, ts) ∈ r ∧ x ∈ ts) ↔ x ∈ (alookup a r).getD [] := by
  constructor
  · rintro ⟨ts, hts, hx⟩
    rw [(mem_iff_alookup hr).mp hts]; exact hx
  · intro hx
    cases hl : alookup a r with
    | none => simp [hl] at hx
    | some ts =>
      simp only [hl, Option.getD_some] at hx
      exact ⟨ts, alookup_some_mem hl, hx⟩

end RowFold

variable {σ₁ σ₂ α : Type} [DecidableEq σ₁] [DecidableEq σ₂] [DecidableEq α]

/-! ### the body of the loop over product states -/

/-- Body of `for cur in product(states_a, states_b)`. -/
def shufStep (A : NFA σ₁ α) (B : NFA σ₂ α) (t : Tbl (σ₁ × σ₂) α) (cur : σ₁ × σ₂) :
    Tbl (σ₁ × σ₂) α :=
  (B.row cur.2).foldl (fun t e => Tbl.addTargets t cur e.1 (e.2.map fun p => (cur.1, p)))
    ((A.row cur.1).foldl (fun t e => Tbl.addTargets t cur e.1 (e.2.map fun p => (p, cur.2)))
      (Tbl.touch t cur))

/-- The record `shuffle_product` passes to the constructor. -/
def shufRaw (A : NFA σ₁ α) (B : NFA σ₂ α) : NFA (σ₁ × σ₂) α :=
  { states := lprod A.states B.states, syms := sunion A.syms B.syms,
    init := (A.init, B.init), finals := lprod A.finals B.finals,
    trans := (lprod A.states B.states).foldl (shufStep A B) [] }

theorem shuffleProduct_eq (A : NFA σ₁ α) (B : NFA σ₂ α) :
    shuffleProduct A B = create (shufRaw A B) := rfl

/-- The moves the loop body adds for the product state `cur` (entry-level reading). -/
def ShufEdge (A : NFA σ₁ α) (B : NFA σ₂ α) (cur : σ₁ × σ₂) (a : Option α) (p : σ₁ × σ₂) : Prop :=
  (∃ ts, (a, ts) ∈ A.row cur.1 ∧ ∃ x ∈ ts, p = (x, cur.2)) ∨
  (∃ ts, (a, ts) ∈ B.row cur.2 ∧ ∃ y ∈ ts, p = (cur.1, y))

theorem mem_tgt_shufStep (A : NFA σ₁ α) (B : NFA σ₂ α) (t : Tbl (σ₁ × σ₂) α) (cur q : σ₁ × σ₂)
    (a : Option α) (p : σ₁ × σ₂) :
    p ∈ Tbl.tgt (shufStep A B t cur) q a ↔ p ∈ Tbl.tgt t q a ∨ (q = cur ∧ ShufEdge A B cur a p) := by
  unfold shufStep ShufEdge
  rw [mem_tgt_foldl_row, mem_tgt_foldl_row, Tbl.tgt_touch]
  constructor
  · rintro ((h | ⟨hq, h⟩) | ⟨hq, h⟩)
    · exact Or.inl h
    · exact Or.inr ⟨hq, Or.inl h⟩
    · exact Or.inr ⟨hq, Or.inr h⟩
  · rintro (h | ⟨hq, h | h⟩)
    · exact Or.inl (Or.inl h)
    · exact Or.inl (Or.inr ⟨hq, h⟩)
    · exact Or.inr ⟨hq, h⟩

theorem mem_akeys_shufStep_self (A : NFA σ₁ α) (B : NFA σ₂ α) (t : Tbl (σ₁ × σ₂) α)
    (cur : σ₁ × σ₂) : cur ∈ akeys (shufStep A B t cur) := by
  unfold shufStep
  exact mem_akeys_foldl_row _ _ _ _ _ (mem_akeys_foldl_row _ _ _ _ _
    ((Tbl.mem_akeys_touch _ _ _).mpr (Or.inl rfl)))

theorem mem_akeys_shufStep_mono (A : NFA σ₁ α) (B : NFA σ₂ α) (t : Tbl (σ₁ × σ₂) α)
    (cur x : σ₁ × σ₂) (h : x ∈ akeys t) : x ∈ akeys (shufStep A B t cur) := by
  unfold shufStep
  exact mem_akeys_foldl_row _ _ _ _ _ (mem_akeys_foldl_row _ _ _ _ _
    ((Tbl.mem_akeys_touch _ _ _).mpr (Or.inr h)))

theorem dict_shufStep (A : NFA σ₁ α) (B : NFA σ₂ α) {t : Tbl (σ₁ × σ₂) α} (h : Tbl.Dict t)
    (cur : σ₁ × σ₂) : Tbl.Dict (shufStep A B t cur) := by
  unfold shufStep
  exact dict_foldl_row _ _ _ _ (dict_foldl_row _ _ _ _ (Tbl.dict_touch h cur))

/-! ### the loop -/

theorem mem_tgt_foldl_shufStep (A : NFA σ₁ α) (B : NFA σ₂ α) : ∀ (l : List (σ₁ × σ₂))
    (t : Tbl (σ₁ × σ₂) α) (q : σ₁ × σ₂) (a : Option α) (p : σ₁ × σ₂),
    p ∈ Tbl.tgt (l.foldl (shufStep A B) t) q a ↔
      p ∈ Tbl.tgt t q a ∨ (q ∈ l ∧ ShufEdge A B q a p) := by
  intro l
  induction l with
  | nil => intro t q a p; simp
  | cons c l ih =>
    intro t q a p
    rw [List.foldl_cons, ih, mem_tgt_shufStep]
    constructor
    · rintro ((h | ⟨rfl, h⟩) | ⟨hq, h⟩)
      · exact Or.inl h
      · exact Or.inr ⟨List.mem_cons_self, h⟩
      · exact Or.inr ⟨List.mem_cons_of_mem _ hq, h⟩
    · rintro (h | ⟨hq, h⟩)
      · exact Or.inl (Or.inl h)
      · rcases List.mem_cons.mp hq with rfl | hq
        · exact Or.inl (Or.inr ⟨rfl, h⟩)
        · exact Or.inr ⟨hq, h⟩

theorem mem_akeys_foldl_shufStep (A : NFA σ₁ α) (B : NFA σ₂ α) : ∀ (l : List (σ₁ × σ₂))
    (t : Tbl (σ₁ × σ₂) α) (x : σ₁ × σ₂), x ∈ l ∨ x ∈ akeys t →
    x ∈ akeys (l.foldl (shufStep A B) t) := by
  intro l
  induction l with
  | nil => intro t x h; rcases h with h | h; · simp at h
           · exact h
  | cons c l ih =>
    intro t x h
    rw [List.foldl_cons]
    rcases h with h | h
    · rcases List.mem_cons.mp h with rfl | h
      · exact ih _ _ (Or.inr (mem_akeys_shufStep_self A B t _))
      · exact ih _ _ (Or.inl h)
    · exact ih _ _ (Or.inr (mem_akeys_shufStep_mono A B t c x h))

theorem dict_foldl_shufStep (A : NFA σ₁ α) (B : NFA σ₂ α) : ∀ (l : List (σ₁ × σ₂))
    (t : Tbl (σ₁ × σ₂) α), Tbl.Dict t → Tbl.Dict (l.foldl (shufStep A B) t) := by
  intro l
  induction l with
  | nil => intro t h; exact h
  | cons c l ih => intro t h; rw [List.foldl_cons]; exact ih _ (dict_shufStep A B h c)

/-! ### well-formedness of the constructed record -/

theorem ok_shufStep (A : NFA σ₁ α) (B : NFA σ₂ α) (wfA : A.WF) (wfB : B.WF)
    {t : Tbl (σ₁ × σ₂) α}
    (h : Tbl.Ok (SymOk (sunion A.syms B.syms)) (· ∈ lprod A.states B.states) t)
    (cur : σ₁ × σ₂) (hc : cur ∈ lprod A.states B.states) :
    Tbl.Ok (SymOk (sunion A.syms B.syms)) (· ∈ lprod A.states B.states) (shufStep A B t cur) := by
  obtain ⟨c1, c2⟩ := cur
  obtain ⟨h1, h2⟩ := mem_lprod.mp hc
  unfold shufStep
  refine ok_foldl_row _ _ _ _ ?_ (ok_foldl_row _ _ _ _ ?_ (Tbl.ok_touch h _))
  · intro e he
    have hb := Tbl.rowOk_lookup ((wf_iff_ok B).mp wfB).1 c2 e he
    exact ⟨fun x hx => mem_sunion.mpr (Or.inr (hb.1 x hx)),
      fun x hx => mem_lprod.mpr ⟨h1, hb.2 x hx⟩⟩
  · intro e he
    have ha := Tbl.rowOk_lookup ((wf_iff_ok A).mp wfA).1 c1 e he
    exact ⟨fun x hx => mem_sunion.mpr (Or.inl (ha.1 x hx)),
      fun x hx => mem_lprod.mpr ⟨ha.2 x hx, h2⟩⟩

theorem ok_foldl_shufStep (A : NFA σ₁ α) (B : NFA σ₂ α) (wfA : A.WF) (wfB : B.WF) :
    ∀ (l : List (σ₁ × σ₂)) (t : Tbl (σ₁ × σ₂) α), (∀ c ∈ l, c ∈ lprod A.states B.states) →
    Tbl.Ok (SymOk (sunion A.syms B.syms)) (· ∈ lprod A.states B.states) t →
    Tbl.Ok (SymOk (sunion A.syms B.syms)) (· ∈ lprod A.states B.states)
      (l.foldl (shufStep A B) t) := by
  intro l
  induction l with
  | nil => intro t _ h; exact h
  | cons c l ih =>
    intro t hl h
    rw [List.foldl_cons]
    exact ih _ (fun c' hc' => hl c' (List.mem_cons_of_mem _ hc'))
      (ok_shufStep A B wfA wfB h c (hl c List.mem_cons_self))

theorem shufRaw_valid (A : NFA σ₁ α) (B : NFA σ₂ α) (hA : A.Valid) (hB : B.Valid) :
    (shufRaw A B).Valid := by
  refine ⟨?_, dict_foldl_shufStep A B _ _ Tbl.dict_nil⟩
  rw [wf_iff_ok]
  refine ⟨ok_foldl_shufStep A B hA.wf hB.wf _ _ (fun c hc => hc) Tbl.ok_nil, ?_, Or.inl ?_, ?_⟩
  · exact mem_lprod.mpr ⟨hA.wf.initOk, hB.wf.initOk⟩
  · exact mem_akeys_foldl_shufStep A B _ _ _
      (Or.inl (mem_lprod.mpr ⟨hA.wf.initOk, hB.wf.initOk⟩))
  · rintro ⟨p, q⟩ hq
    obtain ⟨h1, h2⟩ := mem_lprod.mp hq
    exact mem_lprod.mpr ⟨hA.wf.finalsOk p h1, hB.wf.finalsOk q h2⟩

/-- With dict operands the entry-level reading is the `targets` reading. -/
theorem shufEdge_iff (A : NFA σ₁ α) (B : NFA σ₂ α) (hA : Tbl.Dict A.trans) (hB : Tbl.Dict B.trans)
    (p : σ₁) (q : σ₂) (a : Option α) (t : σ₁ × σ₂) :
    ShufEdge A B (p, q) a t ↔
      (t.1 ∈ A.targets p a ∧ t.2 = q) ∨ (t.1 = p ∧ t.2 ∈ B.targets q a) := by
  have hra : (akeys (A.row p)).Nodup := Tbl.row_nodup hA p
  have hrb : (akeys (B.row q)).Nodup := Tbl.row_nodup hB q
  obtain ⟨t1, t2⟩ := t
  unfold ShufEdge
  constructor
  · rintro (⟨ts, hts, x, hx, e⟩ | ⟨ts, hts, y, hy, e⟩)
    · obtain ⟨rfl, rfl⟩ := Prod.mk.inj e
      exact Or.inl ⟨(exists_entry_iff hra a t1).mp ⟨ts, hts, hx⟩, rfl⟩
    · obtain ⟨rfl, rfl⟩ := Prod.mk.inj e
      exact Or.inr ⟨rfl, (exists_entry_iff hrb a t2).mp ⟨ts, hts, hy⟩⟩
  · rintro (⟨h, e⟩ | ⟨e, h⟩)
    · obtain ⟨ts, hts, hx⟩ := (exists_entry_iff hra a t1).mpr h
      exact Or.inl ⟨ts, hts, t1, hx, by simp at e; rw [e]⟩
    · obtain ⟨ts, hts, hy⟩ := (exists_entry_iff hrb a t2).mpr h
      exact Or.inr ⟨ts, hts, t2, hy, by simp at e; rw [e]⟩

theorem shuffleProduct_spec (A : NFA σ₁ α) (B : NFA σ₂ α) (hA : A.Valid) (hB : B.Valid) :
    ∃ R : NFA (σ₁ × σ₂) α, shuffleProduct A B = .ok R ∧ R.Valid ∧
      R.syms = sunion A.syms B.syms ∧ R.init = (A.init, B.init) ∧
      (∀ p q, (p, q) ∈ R.states ↔ (p ∈ A.states ∧ q ∈ B.states)) ∧
      (∀ p ∈ A.states, ∀ q ∈ B.states, ∀ a t, t ∈ R.targets (p, q) a ↔
        (t.1 ∈ A.targets p a ∧ t.2 = q) ∨ (t.1 = p ∧ t.2 ∈ B.targets q a)) ∧
      (∀ p q, (p, q) ∈ R.finals ↔ (p ∈ A.finals ∧ q ∈ B.finals)) := by
  have hv := shufRaw_valid A B hA hB
  refine ⟨shufRaw A B, ?_, hv, rfl, rfl, fun p q => mem_lprod, ?_, fun p q => mem_lprod⟩
  · rw [shuffleProduct_eq]; exact create_eq_ok _ hv.wf
  · intro p hp q hq a t
    rw [targets_eq_tgt]
    simp only [shufRaw]
    rw [mem_tgt_foldl_shufStep, shufEdge_iff A B hA.dict hB.dict]
    have hpq : (p, q) ∈ lprod A.states B.states := mem_lprod.mpr ⟨hp, hq⟩
    constructor
    · rintro (h | ⟨_, h⟩)
      · simp [Tbl.tgt] at h
      · exact h
    · intro h
      exact Or.inr ⟨hpq, h⟩

end NFA
end AV
