/-
Proofs/Succ.lean — the traversal loop of `successors` (Model/DFASucc.lean).

For each direction a set `Pend s` of words "still to come" is attached to the loop variables
`s = (state_stack, char_stack, candidate, should_yield)`.  One execution of the loop body
removes from `Pend ∩ Target` exactly the word it yields (`step_fwd`, `step_rev`), and that word
precedes everything that remains.  Induction over the number of iterations then gives: the
words yielded so far are strictly increasing in the traversal order, all belong to the target
set, and every target word not yet yielded comes after all of them (`loop_fwd`, `loop_rev`).
Core only.
-/
import AutomataVerif.Proofs.SuccCfg

namespace AV
namespace DFA

set_option linter.unusedSectionVars false
set_option linter.unusedSimpArgs false

open WordOrder

variable {σ α : Type} [DecidableEq σ] [DecidableEq α]

/-- What the set-up part of `successors` guarantees about `sorted_symbols` (= `S`, ascending
for the direction key `κ`), `first_symbol`, `symbol_succ` and `coaccessible_nodes`. -/
structure CfgOK (d : DFA σ α) (κ : α → Int) (S : List α) (c : SuccCfg σ α) : Prop where
  inj : Inj κ S
  first : IsFirst κ S c.first
  next : ∀ a ∈ S, (∃ b, alookup a c.symSucc = some (some b) ∧ IsNext κ S a b) ∨
      (alookup a c.symSucc = some none ∧ IsLast κ S a)
  coacc : ∀ q, q ∈ c.coacc ↔ ∃ f ∈ d.finals, ∃ n, PathLen d q n f
  syms : ∀ a, a ∈ S ↔ a ∈ d.syms

/-- The window set: accepted words with `min_length ≤ |w| ≤ max_length`. -/
def Target (d : DFA σ α) (o : SuccOpts) (w : List α) : Prop :=
  d.accepts w = true ∧ inWindow o w.length = true

/-- Invariant of the loop variables. -/
structure SInv (d : DFA σ α) (S : List α) (s : SuccState σ α) : Prop where
  stack : StackOK d s.states s.chars
  charsS : ∀ ch ∈ s.chars, ch ∈ S
  candS : ∀ a, s.cand = some a → a ∈ S

theorem accepts_over {d : DFA σ α} (wf : d.WF) {w : List α} (h : d.accepts w = true) :
    ∀ c ∈ w, c ∈ d.syms := by
  intro c hc
  refine Classical.byContradiction fun hn => ?_
  obtain ⟨u, v, rfl⟩ := List.append_of_mem hc
  unfold accepts at h
  rw [run_append, run_cons, step?_foreign wf _ hn, run_none] at h
  cases h

theorem Target.over {d : DFA σ α} {κ : α → Int} {S : List α} {c : SuccCfg σ α} {o : SuccOpts}
    (wf : d.WF) (cok : CfgOK d κ S c) {w : List α} (h : Target d o w) : Over S w :=
  fun x hx => (cok.syms x).mpr (accepts_over wf h.1 x hx)

theorem yieldIf_eq_some {b : Bool} {chars w : List α} :
    yieldIf b chars = some w ↔ b = true ∧ w = chars.reverse := by
  cases b <;> simp [yieldIf, eq_comm]

theorem yieldIf_false (chars : List α) : yieldIf false chars = none := rfl

/-- **Pruning is sound**: when the traversal does not descend below `p·a` (the child is `None`
or not coaccessible, or `len(char_stack) ≥ max_length`), no word of the window set has the
prefix `p·a`. -/
theorem no_target_in_subtree {d : DFA σ α} {κ : α → Int} {S : List α} {c : SuccCfg σ α} {o : SuccOpts}
    (hd : d.IsDict) (cok : CfgOK d κ S c) {top : Option σ} {rest : List (Option σ)}
    {chars : List α} (hst : StackOK d (top :: rest) chars) (a : α)
    (h : (viable c (d.step? top a) && belowMax o chars.length) = false) :
    ∀ w, Target d o w → ¬ (chars.reverse ++ [a]) <+: w := by
  intro w ⟨hacc, hwin⟩ hp
  obtain ⟨x, rfl⟩ := hp
  have htop := hst.top
  unfold accepts at hacc
  rw [run_append, run_append, run_cons, run_nil, ← htop] at hacc
  have hv : viable c (d.step? top a) = true := by
    cases hs : d.step? top a with
    | none => rw [hs, run_none] at hacc; cases hacc
    | some t =>
      rw [hs] at hacc
      cases hr : d.run (some t) x with
      | none => rw [hr] at hacc; cases hacc
      | some f =>
        rw [hr] at hacc
        have hf : f ∈ d.finals := by simpa [isFinal] using hacc
        simp only [viable, decide_eq_true_eq]
        exact (cok.coacc t).mpr ⟨f, hf, x.length, (pathLen_iff_run hd).mpr ⟨x, rfl, hr⟩⟩
  have hb : belowMax o chars.length = true := by
    unfold inWindow at hwin
    unfold belowMax
    cases hm : o.maxLen with
    | none => rfl
    | some m =>
      simp only [hm, Bool.and_eq_true, decide_eq_true_eq, List.length_append, List.length_reverse,
        List.length_cons, List.length_nil] at hwin ⊢
      omega
  rw [hv, hb] at h
  cases h

/-! ## forward direction (pre-order) -/

/-- Words still to come at the head of the loop, forward direction. -/
def PendF (κ : α → Int) (f : α) (s : SuccState σ α) (w : List α) : Prop :=
  match s.cand with
  | some a => (w = s.chars.reverse ∧ a = f ∧ s.shouldYield = true) ∨
      w = s.chars.reverse ++ [a] ∨ preLt κ (s.chars.reverse ++ [a]) w
  | none => AfterF κ s.chars.reverse w

theorem next_ne_first {κ : α → Int} {S : List α} {a b f : α} (hf : IsFirst κ S f)
    (hn : IsNext κ S a b) : b ≠ f := by
  intro h; subst h
  have := hf.le a hn.ha
  have := hn.lt
  omega

theorem step_fwd {d : DFA σ α} {κ : α → Int} {S : List α} {c : SuccCfg σ α} {o : SuccOpts}
    (wf : d.WF) (hd : d.IsDict) (cok : CfgOK d κ S c) (ho : o.reverse = false)
    {s : SuccState σ α} (inv : SInv d S s) (hloop : ¬ (s.chars = [] ∧ s.cand = none)) :
    ∃ y s', succStep d o c s = (y, .ok s') ∧ SInv d S s' ∧
      (∀ w, Over S w → Target d o w →
        (PendF κ c.first s w ↔ (y = some w ∨ PendF κ c.first s' w))) ∧
      (∀ w0, y = some w0 → Target d o w0 ∧ PendF κ c.first s w0 ∧
        ∀ w, Over S w → PendF κ c.first s' w → preLt κ w0 w) := by
  obtain ⟨states, chars, cand, sy⟩ := s
  obtain ⟨hstack, hcharsS, hcandS⟩ := inv
  simp only at hstack hcharsS hcandS hloop
  cases states with
  | nil => exact absurd rfl hstack.ne_nil
  | cons top rest =>
  have htop := hstack.top
  cases cand with
  | some a =>
    have haS : a ∈ S := hcandS a rfl
    -- the yield at the top of the body
    obtain ⟨yv, hyv⟩ : ∃ yv, yv = yieldIf (!o.reverse && sy && inWindow o chars.length &&
        decide (a = c.first) && d.isFinal top) chars := ⟨_, rfl⟩
    have hy : ∀ w, Target d o w →
        ((w = chars.reverse ∧ a = c.first ∧ sy = true) ↔ yv = some w) := by
      intro w ⟨hacc, hwin⟩
      rw [hyv, yieldIf_eq_some]
      simp only [ho, Bool.not_false, Bool.true_and, Bool.and_eq_true, decide_eq_true_eq]
      constructor
      · rintro ⟨rfl, ha, hs⟩
        refine ⟨⟨⟨⟨hs, by simpa using hwin⟩, ha⟩, ?_⟩, rfl⟩
        rw [htop]; exact hacc
      · rintro ⟨⟨⟨⟨hs, _⟩, ha⟩, _⟩, rfl⟩
        exact ⟨rfl, ha, hs⟩
    have hy3 : ∀ w0, yv = some w0 →
        w0 = chars.reverse ∧ Target d o w0 ∧ a = c.first ∧ sy = true := by
      intro w0 h
      rw [hyv, yieldIf_eq_some] at h
      simp only [ho, Bool.not_false, Bool.true_and, Bool.and_eq_true, decide_eq_true_eq] at h
      obtain ⟨⟨⟨⟨hs, hw⟩, ha⟩, hf⟩, rfl⟩ := h
      refine ⟨rfl, ⟨?_, by simpa using hw⟩, ha, hs⟩
      unfold accepts; rw [← htop]; exact hf
    cases hb : (viable c (d.step? top a) && belowMax o chars.length) with
    | true =>
      refine ⟨yv, ⟨d.step? top a :: top :: rest, a :: chars, some c.first, true⟩, ?_, ?_, ?_, ?_⟩
      · simp only [succStep, hb, hyv]
      · exact ⟨StackOK.push hstack, fun ch hch => by
          rcases List.mem_cons.mp hch with rfl | h
          · exact haS
          · exact hcharsS ch h, fun x hx => by cases hx; exact cok.first.mem⟩
      · intro w hw ht
        have hpf := preLt_first cok.inj cok.first (chars.reverse ++ [a]) w hw
        simp only [PendF, List.reverse_cons]
        rw [← hy w ht]
        constructor
        · rintro (h | h | h)
          · exact Or.inl h
          · exact Or.inr (Or.inl ⟨h, trivial, trivial⟩)
          · exact Or.inr (Or.inr (hpf.mp h))
        · rintro (h | ⟨h, _, _⟩ | h)
          · exact Or.inl h
          · exact Or.inr (Or.inl h)
          · exact Or.inr (Or.inr (hpf.mpr h))
      · intro w0 h0
        obtain ⟨rfl, ht, ha, hs⟩ := hy3 w0 h0
        refine ⟨ht, Or.inl ⟨rfl, ha, hs⟩, ?_⟩
        intro w hw hp
        have hpf := preLt_first cok.inj cok.first (chars.reverse ++ [a]) w hw
        simp only [PendF, List.reverse_cons] at hp
        have hlt : preLt κ chars.reverse (chars.reverse ++ [a]) :=
          preLt_of_prefix κ (List.prefix_append _ _) (by simp)
        rcases hp with ⟨h, _, _⟩ | h
        · rw [h]; exact hlt
        · exact preLt_trans κ hlt (hpf.mpr h)
    | false =>
      have hprune := no_target_in_subtree hd cok hstack a hb
      have hdecomp : ∀ w, Target d o w →
          ((w = chars.reverse ++ [a] ∨ preLt κ (chars.reverse ++ [a]) w) ↔
            AfterF κ (chars.reverse ++ [a]) w) := by
        intro w ht
        rw [preLe_iff]
        constructor
        · rintro (h | h)
          · exact absurd h (hprune w ht)
          · exact h
        · exact Or.inr
      rcases cok.next a haS with ⟨b, hlk, hn⟩ | ⟨hlk, hl⟩
      · refine ⟨yv, ⟨top :: rest, chars, some b, true⟩, ?_, ?_, ?_, ?_⟩
        · simp only [succStep, hb, hlk, hyv]
        · exact ⟨hstack, hcharsS, fun x hx => by cases hx; exact hn.hb⟩
        · intro w hw ht
          have hbf := next_ne_first cok.first hn
          simp only [PendF]
          rw [← hy w ht, hdecomp w ht, afterF_next cok.inj hn chars.reverse w hw]
          constructor
          · rintro (h | h)
            · exact Or.inl h
            · exact Or.inr (Or.inr h)
          · rintro (h | ⟨_, h, _⟩ | h)
            · exact Or.inl h
            · exact absurd h hbf
            · exact Or.inr h
        · intro w0 h0
          obtain ⟨rfl, ht, ha, hs⟩ := hy3 w0 h0
          refine ⟨ht, Or.inl ⟨rfl, ha, hs⟩, ?_⟩
          intro w hw hp
          simp only [PendF] at hp
          have hlt : preLt κ chars.reverse (chars.reverse ++ [b]) :=
            preLt_of_prefix κ (List.prefix_append _ _) (by simp)
          rcases hp with ⟨_, h, _⟩ | h | h
          · exact absurd h (next_ne_first cok.first hn)
          · rw [h]; exact hlt
          · exact preLt_trans κ hlt h
      · refine ⟨yv, ⟨top :: rest, chars, none, true⟩, ?_, ?_, ?_, ?_⟩
        · simp only [succStep, hb, hlk, hyv]
        · exact ⟨hstack, hcharsS, fun x hx => by cases hx⟩
        · intro w hw ht
          simp only [PendF]
          rw [← hy w ht, hdecomp w ht, afterF_last hl chars.reverse w hw]
        · intro w0 h0
          obtain ⟨rfl, ht, ha, hs⟩ := hy3 w0 h0
          refine ⟨ht, Or.inl ⟨rfl, ha, hs⟩, ?_⟩
          intro w _ hp
          exact hp.1
  | none =>
    cases chars with
    | nil => exact absurd ⟨rfl, rfl⟩ hloop
    | cons ch chars' =>
      have hchS : ch ∈ S := hcharsS ch List.mem_cons_self
      have hpop := hstack.pop
      have hcs : ∀ x ∈ chars', x ∈ S := fun x hx => hcharsS x (List.mem_cons_of_mem _ hx)
      rcases cok.next ch hchS with ⟨b, hlk, hn⟩ | ⟨hlk, hl⟩
      · refine ⟨none, ⟨rest, chars', some b, true⟩, ?_, ?_, ?_, ?_⟩
        · simp only [succStep, ho, hlk, Bool.false_and, yieldIf_false]
        · exact ⟨hpop, hcs, fun x hx => by cases hx; exact hn.hb⟩
        · intro w hw _
          have hbf := next_ne_first cok.first hn
          simp only [PendF, List.reverse_cons, reduceCtorEq, false_or]
          rw [afterF_next cok.inj hn chars'.reverse w hw]
          constructor
          · intro h; exact Or.inr h
          · rintro (⟨_, h, _⟩ | h)
            · exact absurd h hbf
            · exact h
        · intro w0 h0; cases h0
      · refine ⟨none, ⟨rest, chars', none, true⟩, ?_, ?_, ?_, ?_⟩
        · simp only [succStep, ho, hlk, Bool.false_and, yieldIf_false]
        · exact ⟨hpop, hcs, fun x hx => by cases hx⟩
        · intro w hw _
          simp only [PendF, List.reverse_cons, reduceCtorEq, false_or]
          rw [afterF_last hl chars'.reverse w hw]
        · intro w0 h0; cases h0

/-- The loop, for either direction: given the one-step property and the property of the code
after the loop, after any number of iterations the words yielded so far are strictly
increasing in the traversal order, belong to `Target ∩ Pend`, and every word of
`Target ∩ Pend` is among them or (if the run was cut by the fuel) comes after all of them; the
loop never raises. -/
theorem loop_generic {d : DFA σ α} {S : List α} {c : SuccCfg σ α} {o : SuccOpts}
    (lt : List α → List α → Prop) (Pend : SuccState σ α → List α → Prop)
    (hstep : ∀ s : SuccState σ α, SInv d S s → ¬ (s.chars = [] ∧ s.cand = none) →
      ∃ y s', succStep d o c s = (y, .ok s') ∧ SInv d S s' ∧
        (∀ w, Target d o w → (Pend s w ↔ (y = some w ∨ Pend s' w))) ∧
        (∀ w0, y = some w0 → Target d o w0 ∧ Pend s w0 ∧ ∀ w, Target d o w → Pend s' w → lt w0 w))
    (hfinal : ∀ s : SuccState σ α, SInv d S s → (s.chars = [] ∧ s.cand = none) →
      ∃ ys, succFinal d o s = (ys, .finished) ∧ ys.Pairwise lt ∧
        (∀ w ∈ ys, Target d o w ∧ Pend s w) ∧ (∀ w, Target d o w → Pend s w → w ∈ ys)) :
    ∀ (fuel : Nat) (s : SuccState σ α), SInv d S s →
      ((succLoop d o c fuel s).2 = .finished ∨ (succLoop d o c fuel s).2 = .outOfFuel) ∧
      (succLoop d o c fuel s).1.Pairwise lt ∧
      (∀ w ∈ (succLoop d o c fuel s).1, Target d o w ∧ Pend s w) ∧
      (∀ w, Target d o w → Pend s w →
        w ∈ (succLoop d o c fuel s).1 ∨
          ((succLoop d o c fuel s).2 = .outOfFuel ∧ ∀ y ∈ (succLoop d o c fuel s).1, lt y w)) := by
  intro fuel
  induction fuel with
  | zero =>
    intro s _
    refine ⟨Or.inr rfl, List.Pairwise.nil, ?_, ?_⟩
    · intro w hw; exact absurd hw (by simp [succLoop])
    · intro w _ _; exact Or.inr ⟨rfl, fun y hy => absurd hy (by simp [succLoop])⟩
  | succ fuel ih =>
    intro s inv
    by_cases hexit : s.chars = [] ∧ s.cand = none
    · have hcond : (s.chars.isEmpty && s.cand.isNone) = true := by simp [hexit.1, hexit.2]
      obtain ⟨ys, hf, h1, h2, h3⟩ := hfinal s inv hexit
      have hr : succLoop d o c (fuel + 1) s = (ys, .finished) := by
        simp only [succLoop, hcond, hf]
      rw [hr]
      exact ⟨Or.inl rfl, h1, h2, fun w ht hp => Or.inl (h3 w ht hp)⟩
    · have hcond : (s.chars.isEmpty && s.cand.isNone) = false := by
        cases hc : s.chars with
        | nil =>
          cases hk : s.cand with
          | none => exact absurd ⟨hc, hk⟩ hexit
          | some a => simp
        | cons x t => simp
      obtain ⟨y, s', hstep', inv', hiff, hyl⟩ := hstep s inv hexit
      obtain ⟨ih1, ih2, ih3, ih4⟩ := ih s' inv'
      have hr : succLoop d o c (fuel + 1) s =
          (y.toList ++ (succLoop d o c fuel s').1, (succLoop d o c fuel s').2) := by
        simp only [succLoop, hcond, hstep']
      rw [hr]
      refine ⟨ih1, ?_, ?_, ?_⟩
      · rw [List.pairwise_append]
        refine ⟨by cases y <;> simp, ih2, ?_⟩
        intro a ha b hb
        cases y with
        | none => simp at ha
        | some w0 =>
          simp at ha; subst ha
          obtain ⟨hb1, hb2⟩ := ih3 b hb
          exact (hyl a rfl).2.2 b hb1 hb2
      · intro w hw
        rcases List.mem_append.mp hw with h | h
        · cases y with
          | none => simp at h
          | some w0 =>
            simp at h; subst h
            exact ⟨(hyl w rfl).1, (hyl w rfl).2.1⟩
        · obtain ⟨h1, h2⟩ := ih3 w h
          exact ⟨h1, (hiff w h1).mpr (Or.inr h2)⟩
      · intro w ht hp
        rcases (hiff w ht).mp hp with h | h
        · exact Or.inl (List.mem_append_left _ (by rw [h]; simp))
        · rcases ih4 w ht h with h' | ⟨h1, h2⟩
          · exact Or.inl (List.mem_append_right _ h')
          · refine Or.inr ⟨h1, ?_⟩
            intro y' hy'
            rcases List.mem_append.mp hy' with hy'' | hy''
            · cases y with
              | none => simp at hy''
              | some w0 =>
                simp at hy''; subst hy''
                exact (hyl y' rfl).2.2 w ht h
            · exact h2 y' hy''

/-- **Forward loop.** -/
theorem loop_fwd {d : DFA σ α} {κ : α → Int} {S : List α} {c : SuccCfg σ α} {o : SuccOpts}
    (wf : d.WF) (hd : d.IsDict) (cok : CfgOK d κ S c) (ho : o.reverse = false) :
    ∀ (fuel : Nat) (s : SuccState σ α), SInv d S s →
      ((succLoop d o c fuel s).2 = .finished ∨ (succLoop d o c fuel s).2 = .outOfFuel) ∧
      (succLoop d o c fuel s).1.Pairwise (preLt κ) ∧
      (∀ w ∈ (succLoop d o c fuel s).1, Target d o w ∧ PendF κ c.first s w) ∧
      (∀ w, Target d o w → PendF κ c.first s w →
        w ∈ (succLoop d o c fuel s).1 ∨
          ((succLoop d o c fuel s).2 = .outOfFuel ∧ ∀ y ∈ (succLoop d o c fuel s).1, preLt κ y w)) := by
  apply loop_generic (preLt κ) (PendF κ c.first)
  · intro s inv hloop
    obtain ⟨y, s', h1, h2, h3, h4⟩ := step_fwd wf hd cok ho inv hloop
    refine ⟨y, s', h1, h2, fun w ht => h3 w (ht.over wf cok) ht, ?_⟩
    intro w0 h0
    obtain ⟨a1, a2, a3⟩ := h4 w0 h0
    exact ⟨a1, a2, fun w ht hp => a3 w (ht.over wf cok) hp⟩
  · intro s inv hexit
    have hs := inv.stack
    obtain ⟨states, chars, cand, sy⟩ := s
    simp only at hexit hs
    obtain ⟨rfl, rfl⟩ := hexit
    have := hs.bottom
    subst this
    refine ⟨[], by simp [succFinal, ho, yieldIf], List.Pairwise.nil, by simp, ?_⟩
    intro w _ hp
    simp only [PendF, List.reverse_nil] at hp
    exact absurd hp (afterF_nil κ w)

/-! ## reverse direction (post-order) -/

/-- Words still to come at the head of the loop, reverse direction. -/
def PendR (κ : α → Int) (s : SuccState σ α) (w : List α) : Prop :=
  match s.cand with
  | some a => (s.chars.reverse ++ [a]) <+: w ∨ postLt κ (s.chars.reverse ++ [a]) w
  | none => (w = s.chars.reverse ∧ s.shouldYield = true) ∨ postLt κ s.chars.reverse w

theorem step_rev {d : DFA σ α} {κ : α → Int} {S : List α} {c : SuccCfg σ α} {o : SuccOpts}
    (hd : d.IsDict) (cok : CfgOK d κ S c) (ho : o.reverse = true)
    {s : SuccState σ α} (inv : SInv d S s) (hloop : ¬ (s.chars = [] ∧ s.cand = none)) :
    ∃ y s', succStep d o c s = (y, .ok s') ∧ SInv d S s' ∧
      (∀ w, Over S w → Target d o w → (PendR κ s w ↔ (y = some w ∨ PendR κ s' w))) ∧
      (∀ w0, y = some w0 → Target d o w0 ∧ PendR κ s w0 ∧
        ∀ w, Over S w → PendR κ s' w → postLt κ w0 w) := by
  obtain ⟨states, chars, cand, sy⟩ := s
  obtain ⟨hstack, hcharsS, hcandS⟩ := inv
  simp only at hstack hcharsS hcandS hloop
  cases states with
  | nil => exact absurd rfl hstack.ne_nil
  | cons top rest =>
  have htop := hstack.top
  cases cand with
  | some a =>
    have haS : a ∈ S := hcandS a rfl
    cases hb : (viable c (d.step? top a) && belowMax o chars.length) with
    | true =>
      refine ⟨none, ⟨d.step? top a :: top :: rest, a :: chars, some c.first, true⟩, ?_, ?_, ?_, ?_⟩
      · simp only [succStep, hb, ho, Bool.not_true, Bool.false_and, yieldIf_false]
      · exact ⟨StackOK.push hstack, fun ch hch => by
          rcases List.mem_cons.mp hch with rfl | h
          · exact haS
          · exact hcharsS ch h, fun x hx => by cases hx; exact cok.first.mem⟩
      · intro w hw _
        simp only [PendR, List.reverse_cons, reduceCtorEq, false_or]
        exact post_first cok.inj cok.first (chars.reverse ++ [a]) w hw
      · intro w0 h0; cases h0
    | false =>
      have hprune := no_target_in_subtree hd cok hstack a hb
      rcases cok.next a haS with ⟨b, hlk, hn⟩ | ⟨hlk, hl⟩
      · refine ⟨none, ⟨top :: rest, chars, some b, true⟩, ?_, ?_, ?_, ?_⟩
        · simp only [succStep, hb, hlk, ho, Bool.not_true, Bool.false_and, yieldIf_false]
        · exact ⟨hstack, hcharsS, fun x hx => by cases hx; exact hn.hb⟩
        · intro w hw ht
          simp only [PendR, reduceCtorEq, false_or]
          rw [← post_next cok.inj hn chars.reverse w hw]
          constructor
          · rintro (h | h)
            · exact absurd h (hprune w ht)
            · exact h
          · exact Or.inr
        · intro w0 h0; cases h0
      · refine ⟨none, ⟨top :: rest, chars, none, true⟩, ?_, ?_, ?_, ?_⟩
        · simp only [succStep, hb, hlk, ho, Bool.not_true, Bool.false_and, yieldIf_false]
        · exact ⟨hstack, hcharsS, fun x hx => by cases hx⟩
        · intro w hw ht
          simp only [PendR, reduceCtorEq, false_or, and_true]
          rw [← post_last hl chars.reverse w hw]
          constructor
          · rintro (h | h)
            · exact absurd h (hprune w ht)
            · exact h
          · exact Or.inr
        · intro w0 h0; cases h0
  | none =>
    cases chars with
    | nil => exact absurd ⟨rfl, rfl⟩ hloop
    | cons ch chars' =>
      have hchS : ch ∈ S := hcharsS ch List.mem_cons_self
      have hpop := hstack.pop
      have hcs : ∀ x ∈ chars', x ∈ S := fun x hx => hcharsS x (List.mem_cons_of_mem _ hx)
      obtain ⟨yv, hyv⟩ : ∃ yv, yv = yieldIf (o.reverse && sy && inWindow o (ch :: chars').length &&
          d.isFinal top) (ch :: chars') := ⟨_, rfl⟩
      have hy : ∀ w, Target d o w →
          ((w = (ch :: chars').reverse ∧ sy = true) ↔ yv = some w) := by
        intro w ⟨hacc, hwin⟩
        rw [hyv, yieldIf_eq_some]
        simp only [ho, Bool.true_and, Bool.and_eq_true]
        constructor
        · rintro ⟨rfl, hs⟩
          refine ⟨⟨⟨hs, by simpa using hwin⟩, ?_⟩, rfl⟩
          rw [htop]; exact hacc
        · rintro ⟨⟨⟨hs, _⟩, _⟩, rfl⟩
          exact ⟨rfl, hs⟩
      have hy3 : ∀ w0, yv = some w0 → w0 = (ch :: chars').reverse ∧ Target d o w0 ∧ sy = true := by
        intro w0 h
        rw [hyv, yieldIf_eq_some] at h
        simp only [ho, Bool.true_and, Bool.and_eq_true] at h
        obtain ⟨⟨⟨hs, hw⟩, hf⟩, rfl⟩ := h
        refine ⟨rfl, ⟨?_, by simpa using hw⟩, hs⟩
        unfold accepts; rw [← htop]; exact hf
      rcases cok.next ch hchS with ⟨b, hlk, hn⟩ | ⟨hlk, hl⟩
      · have hkey : ∀ w, Over S w →
            (postLt κ (ch :: chars').reverse w ↔ PendR κ ⟨rest, chars', some b, true⟩ w) := by
          intro w hw
          simp only [PendR, List.reverse_cons]
          exact post_next cok.inj hn chars'.reverse w hw
        refine ⟨yv, ⟨rest, chars', some b, true⟩, ?_, ?_, ?_, ?_⟩
        · simp only [succStep, hlk, hyv]
        · exact ⟨hpop, hcs, fun x hx => by cases hx; exact hn.hb⟩
        · intro w hw ht
          rw [← hkey w hw, ← hy w ht]
          simp only [PendR]
        · intro w0 h0
          obtain ⟨rfl, ht, hs⟩ := hy3 w0 h0
          exact ⟨ht, Or.inl ⟨rfl, hs⟩, fun w hw hp => (hkey w hw).mpr hp⟩
      · have hkey : ∀ w, Over S w →
            (postLt κ (ch :: chars').reverse w ↔ PendR κ ⟨rest, chars', none, true⟩ w) := by
          intro w hw
          simp only [PendR, List.reverse_cons, and_true]
          exact post_last hl chars'.reverse w hw
        refine ⟨yv, ⟨rest, chars', none, true⟩, ?_, ?_, ?_, ?_⟩
        · simp only [succStep, hlk, hyv]
        · exact ⟨hpop, hcs, fun x hx => by cases hx⟩
        · intro w hw ht
          rw [← hkey w hw, ← hy w ht]
          simp only [PendR]
        · intro w0 h0
          obtain ⟨rfl, ht, hs⟩ := hy3 w0 h0
          exact ⟨ht, Or.inl ⟨rfl, hs⟩, fun w hw hp => (hkey w hw).mpr hp⟩

/-- **Reverse loop**, including the yield for the empty word after the loop. -/
theorem loop_rev {d : DFA σ α} {κ : α → Int} {S : List α} {c : SuccCfg σ α} {o : SuccOpts}
    (wf : d.WF) (hd : d.IsDict) (cok : CfgOK d κ S c) (ho : o.reverse = true) :
    ∀ (fuel : Nat) (s : SuccState σ α), SInv d S s →
      ((succLoop d o c fuel s).2 = .finished ∨ (succLoop d o c fuel s).2 = .outOfFuel) ∧
      (succLoop d o c fuel s).1.Pairwise (postLt κ) ∧
      (∀ w ∈ (succLoop d o c fuel s).1, Target d o w ∧ PendR κ s w) ∧
      (∀ w, Target d o w → PendR κ s w →
        w ∈ (succLoop d o c fuel s).1 ∨
          ((succLoop d o c fuel s).2 = .outOfFuel ∧ ∀ y ∈ (succLoop d o c fuel s).1, postLt κ y w)) := by
  apply loop_generic (postLt κ) (PendR κ)
  · intro s inv hloop
    obtain ⟨y, s', h1, h2, h3, h4⟩ := step_rev hd cok ho inv hloop
    refine ⟨y, s', h1, h2, fun w ht => h3 w (ht.over wf cok) ht, ?_⟩
    intro w0 h0
    obtain ⟨a1, a2, a3⟩ := h4 w0 h0
    exact ⟨a1, a2, fun w ht hp => a3 w (ht.over wf cok) hp⟩
  · intro s inv hexit
    have hs := inv.stack
    obtain ⟨states, chars, cand, sy⟩ := s
    simp only at hexit hs
    obtain ⟨rfl, rfl⟩ := hexit
    have := hs.bottom
    subst this
    by_cases hc : (sy && inWindow o 0 && d.isFinal (some d.init)) = true
    · refine ⟨[[]], by simp [succFinal, ho, yieldIf, hc], by simp, ?_, ?_⟩
      · intro w hw
        simp at hw; subst hw
        simp only [Bool.and_eq_true] at hc
        exact ⟨⟨hc.2, hc.1.2⟩, Or.inl ⟨rfl, hc.1.1⟩⟩
      · intro w _ hp
        simp only [PendR, List.reverse_nil, postLt_nil_left, or_false] at hp
        simp [hp.1]
    · have hc' : (sy && inWindow o 0 && d.isFinal (some d.init)) = false := by
        cases h : (sy && inWindow o 0 && d.isFinal (some d.init)) with
        | true => exact absurd h hc
        | false => rfl
      refine ⟨[], by simp [succFinal, ho, yieldIf, hc'], List.Pairwise.nil, by simp, ?_⟩
      intro w ht hp
      simp only [PendR, List.reverse_nil, postLt_nil_left, or_false] at hp
      exfalso
      apply hc
      obtain ⟨rfl, hs⟩ := hp
      simp only [Bool.and_eq_true]
      exact ⟨⟨hs, ht.2⟩, ht.1⟩

/-! ## the set-up part -/

theorem cfgOK_of {d : DFA σ α} (hd : d.IsDict) (hnd : d.syms.Nodup) {key : α → Int} (hk : d.KeyInj key)
    (reverse : Bool) {first last : α} (hf : (d.sortedSymbols key reverse).head? = some first)
    (hl : (d.sortedSymbols key reverse).getLast? = some last) :
    CfgOK d (dirKey key reverse) (d.sortedSymbols key reverse)
      { coacc := d.digraph.reachable d.finals true, first := first,
        symSucc := symbolSucc (d.sortedSymbols key reverse) last } := by
  have hperm := sortedSymbols_perm d key reverse
  have hsorted := sortedSymbols_sorted hnd hk reverse
  have hSnd : (d.sortedSymbols key reverse).Nodup := hperm.nodup_iff.mpr hnd
  have hlk := alookup_symbolSucc hSnd hl
  refine ⟨?_, sorted_isFirst hsorted hf, ?_, fun q => mem_reachable_bwd hd, fun a => hperm.mem_iff⟩
  · intro a ha b hb h
    exact dirKey_inj hk reverse a (hperm.mem_iff.mp ha) b (hperm.mem_iff.mp hb) h
  · intro a ha
    rcases next_or_last _ a ha with ⟨l, b, r, hS⟩ | ⟨l, hS⟩
    · left
      refine ⟨b, hlk.1 l a b r hS, ?_⟩
      have := hsorted
      rw [hS] at this ⊢
      exact sorted_isNext this
    · right
      refine ⟨hlk.2 l a hS, ?_⟩
      have := hsorted
      rw [hS] at this ⊢
      exact sorted_isLast this

/-- The configuration computed by the set-up part of `successors`. -/
def setupCfg (d : DFA σ α) (key : α → Int) (o : SuccOpts) (first last : α) : SuccCfg σ α :=
  { coacc := d.digraph.reachable d.finals true, first := first,
    symSucc := symbolSucc (d.sortedSymbols key o.reverse) last }

/-- Shape of the loop variables before the first iteration. -/
theorem successorsCore_setup {d : DFA σ α} (wf : d.WF) (hd : d.IsDict) (hnd : d.syms.Nodup)
    (hne : d.syms ≠ []) {key : α → Int} (hk : d.KeyInj key) (input : Option (List α))
    (hin : ∀ w0, input = some w0 → ∀ x ∈ w0, x ∈ d.syms) (o : SuccOpts) :
    ∃ (first last : α) (s0 : SuccState σ α),
      (d.sortedSymbols key o.reverse).head? = some first ∧
      (d.sortedSymbols key o.reverse).getLast? = some last ∧
      CfgOK d (dirKey key o.reverse) (d.sortedSymbols key o.reverse) (setupCfg d key o first last) ∧
      SInv d (d.sortedSymbols key o.reverse) s0 ∧
      (∀ fuel, d.successorsCore (.ok true) d.digraph key input o fuel =
        succLoop d o (setupCfg d key o first last) fuel s0) ∧
      s0.chars.reverse = input.getD [] ∧
      s0.cand = (match input, o.reverse with
        | some _, true => none
        | _, _ => some first) ∧
      s0.shouldYield = (match input with
        | none => true
        | some _ => !o.strict) := by
  have hperm := sortedSymbols_perm d key o.reverse
  have hSne : d.sortedSymbols key o.reverse ≠ [] := by
    intro h
    rw [h] at hperm
    exact hne hperm.symm.eq_nil
  obtain ⟨first, hf⟩ : ∃ f, (d.sortedSymbols key o.reverse).head? = some f := by
    cases h : d.sortedSymbols key o.reverse with
    | nil => exact absurd h hSne
    | cons x t => exact ⟨x, rfl⟩
  obtain ⟨last, hl⟩ : ∃ l, (d.sortedSymbols key o.reverse).getLast? = some l := by
    cases h : (d.sortedSymbols key o.reverse).getLast? with
    | none => exact absurd (List.getLast?_eq_none_iff.mp h) hSne
    | some l => exact ⟨l, rfl⟩
  have cok : CfgOK d (dirKey key o.reverse) (d.sortedSymbols key o.reverse)
      (setupCfg d key o first last) := cfgOK_of hd hnd hk o.reverse hf hl
  cases input with
  | none =>
    refine ⟨first, last, ⟨[some d.init], [], some first, true⟩, hf, hl, cok, ?_, ?_, rfl, ?_, rfl⟩
    · exact ⟨StackOK.base, by simp, fun a ha => by cases ha; exact cok.first.mem⟩
    · intro fuel; simp only [successorsCore, hl, hf, setupCfg]
    · cases o.reverse <;> rfl
  | some w0 =>
    obtain ⟨hex, hst⟩ := stackOK_readStepwise wf w0
    refine ⟨first, last, ⟨(d.readStepwise w0 true).1.reverse, w0.reverse,
      (match o.reverse with | true => none | false => some first), !o.strict⟩, hf, hl, cok,
      ?_, ?_, ?_, ?_, rfl⟩
    · refine ⟨hst, ?_, ?_⟩
      · intro ch hch
        exact hperm.mem_iff.mpr (hin w0 rfl ch (List.mem_reverse.mp hch))
      · intro a ha
        have hmem : first ∈ d.sortedSymbols key o.reverse := cok.first.mem
        revert ha hmem
        cases o.reverse <;> intro ha hmem
        · cases ha; exact hmem
        · cases ha
    · intro fuel
      simp only [successorsCore, hl, hf, setupCfg]
      cases hrs : d.readStepwise w0 true with
      | mk tr ex =>
        rw [hrs] at hex
        simp only at hex
        subst hex
        rfl
    · simp
    · cases o.reverse <;> rfl

end DFA
end AV
