/-
Proofs/ValidateRules.lean — the documented validation rules of the eight classes as rule
systems: documented exception class (`kind`), position of the check in `validate` (`stage`),
and what it means for a definition to break the rule (`Violates`).  For every class:
`validate d = ok ↔ no rule is violated`, and an error raised by `validate` is the documented
class of a violated rule, no rule of an earlier stage being violated (core only).
-/
import AutomataVerif.Proofs.ValidateAll

namespace AV.VA
open AV

set_option linter.unusedSectionVars false
set_option linter.unusedSimpArgs false

variable {σ α γ : Type} [DecidableEq σ] [DecidableEq α] [DecidableEq γ]

/-- A rule system: documented exception class and position of the check in `validate`. -/
structure RuleSys (δ ρ : Type) where
  kind : ρ → Gen.Err
  stage : ρ → Nat
  Violates : δ → ρ → Prop

/-- `validate` is sound and complete for the rule system and raises, in the order of its
stages, the documented class of a violated rule. -/
structure RuleSys.Correct {δ ρ : Type} (S : RuleSys δ ρ) (validate : δ → Res Unit) : Prop where
  ok_iff : ∀ d, validate d = .ok () ↔ ∀ r, ¬ S.Violates d r
  error_kind : ∀ d e, validate d = .error e →
    ∃ r, S.Violates d r ∧ e = .lib (S.kind r) ∧ ∀ r', S.stage r' < S.stage r → ¬ S.Violates d r'

theorem RuleSys.Correct.corrupt_raises {δ ρ : Type} {S : RuleSys δ ρ} {validate : δ → Res Unit}
    (hc : S.Correct validate) (d : δ) (r : ρ) (hv : S.Violates d r)
    (hother : ∀ r', S.Violates d r' → S.kind r' = S.kind r ∨ S.stage r < S.stage r') :
    validate d = .error (.lib (S.kind r)) := by
  have hne : validate d ≠ .ok () := fun h => (hc.ok_iff d).mp h r hv
  obtain ⟨e, he⟩ := Res.ne_ok_iff.mp hne
  obtain ⟨r0, hv0, rfl, hmin⟩ := hc.error_kind d e he
  rw [he]
  rcases hother r0 hv0 with h | hlt
  · rw [h]
  · exact absurd hv (hmin r hlt)

namespace DFA
open AV.DFA
inductive Rule | missingRow | missingSymbol | unknownSymbol | unknownEndState | badInitial | badFinal
  deriving DecidableEq, Repr

def Rule.kind : Rule → Gen.Err
  | .missingRow => .missingStateError
  | .missingSymbol => .missingSymbolError
  | .unknownSymbol => .invalidSymbolError
  | .unknownEndState => .invalidStateError
  | .badInitial => .invalidStateError
  | .badFinal => .invalidStateError

def Rule.stage : Rule → Nat
  | .missingRow => 0
  | .missingSymbol => 1
  | .unknownSymbol => 1
  | .unknownEndState => 1
  | .badInitial => 2
  | .badFinal => 3

def rules : RuleSys (DFA σ α) Rule where
  kind := Rule.kind
  stage := Rule.stage
  Violates d
    | .missingRow => ∃ q ∈ d.states, q ∉ akeys d.trans
    | .missingSymbol => d.allowPartial = false ∧ ∃ kv ∈ d.trans, ∃ a ∈ d.syms, a ∉ akeys kv.2
    | .unknownSymbol => ∃ kv ∈ d.trans, ∃ a ∈ akeys kv.2, a ∉ d.syms
    | .unknownEndState => ∃ kv ∈ d.trans, ∃ q ∈ avals kv.2, q ∉ d.states
    | .badInitial => d.init ∉ d.states
    | .badFinal => ∃ q ∈ d.finals, q ∉ d.states

theorem rules_stage : (rules : RuleSys (DFA σ α) Rule).stage = Rule.stage := rfl
theorem rules_kind : (rules : RuleSys (DFA σ α) Rule).kind = Rule.kind := rfl

theorem wf_iff (d : DFA σ α) : d.WF ↔ ∀ r, ¬ rules.Violates d r := by
  constructor
  · intro wf r
    cases r <;> simp only [rules, not_exists, not_and, Classical.not_not]
    · exact wf.rows
    · intro hp kv hkv a ha; exact wf.complete hp kv hkv a ha
    · exact wf.symsOk
    · exact wf.tgtOk
    · exact wf.initOk
    · exact wf.finalsOk
  · intro h
    refine ⟨?_, ?_, ?_, ?_, ?_, ?_⟩
    · simpa [rules] using h .missingRow
    · have := h .missingSymbol
      simp only [rules, not_and, not_exists, Classical.not_not] at this
      exact this
    · simpa [rules] using h .unknownSymbol
    · simpa [rules] using h .unknownEndState
    · simpa [rules] using h .badInitial
    · simpa [rules] using h .badFinal

theorem validateRow_error (d : DFA σ α) (paths : List (α × σ)) (e : Exn)
    (h : d.validateRow paths = .error e) :
    (d.allowPartial = false ∧ (∃ a ∈ d.syms, a ∉ akeys paths) ∧ e = .lib .missingSymbolError) ∨
    ((∃ a ∈ akeys paths, a ∉ d.syms) ∧ e = .lib .invalidSymbolError) ∨
    ((∃ q ∈ avals paths, q ∉ d.states) ∧ e = .lib .invalidStateError) := by
  unfold validateRow at h
  rcases Res.andThen_eq_error.mp h with h0 | ⟨_, h⟩
  · left
    cases hp : d.allowPartial with
    | true => simp [hp] at h0
    | false =>
      simp only [hp] at h0
      obtain ⟨a, ha, hg⟩ := firstErr_eq_error h0
      obtain ⟨hc, rfl⟩ := guardE_eq_error.mp hg
      exact ⟨rfl, ⟨a, ha, by simpa [← ahas_iff, Bool.not_eq_true] using hc⟩, rfl⟩
  rcases Res.andThen_eq_error.mp h with h1 | ⟨_, h⟩
  · right; left
    obtain ⟨a, ha, hg⟩ := firstErr_eq_error h1
    obtain ⟨hc, rfl⟩ := guardE_eq_error.mp hg
    exact ⟨⟨a, ha, by simpa using hc⟩, rfl⟩
  · right; right
    obtain ⟨q, hq, hg⟩ := firstErr_eq_error h
    obtain ⟨hc, rfl⟩ := guardE_eq_error.mp hg
    exact ⟨⟨q, hq, by simpa using hc⟩, rfl⟩

theorem rules_correct : (rules : RuleSys (DFA σ α) Rule).Correct validate where
  ok_iff d := (validate_eq_ok d).trans (wf_iff d)
  error_kind d e h := by
    unfold validate at h
    rcases Res.andThen_eq_error.mp h with h0 | ⟨ok0, h⟩
    · unfold validateStartStates at h0
      obtain ⟨q, hq, hg⟩ := firstErr_eq_error h0
      obtain ⟨hc, rfl⟩ := guardE_eq_error.mp hg
      refine ⟨.missingRow, ⟨q, hq, by simpa [← ahas_iff, Bool.not_eq_true] using hc⟩, rfl, ?_⟩
      intro r' hr'; cases r' <;> simp [rules, Rule.stage] at hr'
    have n0 : ¬ rules.Violates d .missingRow := by
      unfold validateStartStates at ok0
      simp only [firstErr_eq_ok, guardE_eq_ok, ahas_iff] at ok0
      simpa [rules] using ok0
    rcases Res.andThen_eq_error.mp h with h1 | ⟨ok1, h⟩
    · obtain ⟨kv, hkv, hrow⟩ := firstErr_eq_error h1
      rcases validateRow_error d kv.2 e hrow with ⟨hp, ⟨a, ha, hna⟩, rfl⟩ | ⟨⟨a, ha, hna⟩, rfl⟩ | ⟨⟨q, hq, hnq⟩, rfl⟩
      · refine ⟨.missingSymbol, ⟨hp, kv, hkv, a, ha, hna⟩, rfl, ?_⟩
        intro r' hr'; cases r' <;> simp [rules, Rule.stage] at hr' <;> exact n0
      · refine ⟨.unknownSymbol, ⟨kv, hkv, a, ha, hna⟩, rfl, ?_⟩
        intro r' hr'; cases r' <;> simp [rules, Rule.stage] at hr' <;> exact n0
      · refine ⟨.unknownEndState, ⟨kv, hkv, q, hq, hnq⟩, rfl, ?_⟩
        intro r' hr'; cases r' <;> simp [rules, Rule.stage] at hr' <;> exact n0
    have n1 : ¬ rules.Violates d .missingSymbol ∧ ¬ rules.Violates d .unknownSymbol ∧
        ¬ rules.Violates d .unknownEndState := by
      simp only [firstErr_eq_ok, validateRow_eq_ok] at ok1
      refine ⟨?_, ?_, ?_⟩ <;> simp only [rules, not_and, not_exists, Classical.not_not]
      · intro hp kv hkv a ha; exact (ok1 kv hkv).1 hp a ha
      · intro kv hkv a ha; exact (ok1 kv hkv).2.1 a ha
      · intro kv hkv q hq; exact (ok1 kv hkv).2.2 q hq
    rcases Res.andThen_eq_error.mp h with h2 | ⟨ok2, h⟩
    · obtain ⟨hc, rfl⟩ := guardE_eq_error.mp h2
      refine ⟨.badInitial, by simpa [rules] using hc, rfl, ?_⟩
      intro r' hr'; cases r' <;> simp [rules, Rule.stage] at hr'
      · exact n0
      · exact n1.1
      · exact n1.2.1
      · exact n1.2.2
    · obtain ⟨hc, rfl⟩ := guardE_eq_error.mp h
      have hv : rules.Violates d .badFinal := by
        have : ¬ ∀ q ∈ d.finals, q ∈ d.states := by
          intro hall
          have : (d.finals.all fun q => decide (q ∈ d.states)) = true := by simpa using hall
          rw [this] at hc; cases hc
        simpa [rules] using this
      refine ⟨.badFinal, hv, rfl, ?_⟩
      intro r' hr'; cases r' <;> simp [rules, Rule.stage] at hr'
      · exact n0
      · exact n1.1
      · exact n1.2.1
      · exact n1.2.2
      · have := guardE_eq_ok.mp ok2
        simpa [rules] using this

end DFA
namespace NFA
open AV.NFA
inductive Rule | unknownSymbol | unknownEndState | badInitial | initialNoRow | badFinal
  deriving DecidableEq, Repr

def Rule.kind : Rule → Gen.Err
  | .unknownSymbol => .invalidSymbolError
  | .unknownEndState => .invalidStateError
  | .badInitial => .invalidStateError
  | .initialNoRow => .missingStateError
  | .badFinal => .invalidStateError

def Rule.stage : Rule → Nat
  | .unknownSymbol => 0
  | .unknownEndState => 0
  | .badInitial => 1
  | .initialNoRow => 2
  | .badFinal => 3

def rules : RuleSys (NFA σ α) Rule where
  kind := Rule.kind
  stage := Rule.stage
  Violates n
    | .unknownSymbol => ∃ kv ∈ n.trans, ∃ a, some a ∈ akeys kv.2 ∧ a ∉ n.syms
    | .unknownEndState => ∃ kv ∈ n.trans, ∃ ts ∈ avals kv.2, ∃ q ∈ ts, q ∉ n.states
    | .badInitial => n.init ∉ n.states
    | .initialNoRow => n.init ∉ akeys n.trans ∧ 1 < n.states.length
    | .badFinal => ∃ q ∈ n.finals, q ∉ n.states

theorem rules_stage : (rules : RuleSys (NFA σ α) Rule).stage = Rule.stage := rfl
theorem rules_kind : (rules : RuleSys (NFA σ α) Rule).kind = Rule.kind := rfl

theorem wf_iff (n : NFA σ α) : n.WF ↔ ∀ r, ¬ rules.Violates n r := by
  constructor
  · intro wf r
    cases r <;> simp only [rules, not_exists, not_and, Classical.not_not]
    · exact wf.symsOk
    · exact wf.tgtOk
    · exact wf.initOk
    · intro h; rcases wf.initRow with h' | h'
      · exact absurd h' h
      · omega
    · exact wf.finalsOk
  · intro h
    refine ⟨?_, ?_, ?_, ?_, ?_⟩
    · simpa [rules] using h .unknownSymbol
    · simpa [rules] using h .unknownEndState
    · simpa [rules] using h .badInitial
    · have := h .initialNoRow
      simp only [rules, not_and, Nat.not_lt] at this
      by_cases hk : n.init ∈ akeys n.trans
      · exact Or.inl hk
      · exact Or.inr (this hk)
    · simpa [rules] using h .badFinal

theorem validateRow_error (n : NFA σ α) (paths : List (Option α × List σ)) (e : Exn)
    (h : n.validateRow paths = .error e) :
    ((∃ a, some a ∈ akeys paths ∧ a ∉ n.syms) ∧ e = .lib .invalidSymbolError) ∨
    ((∃ ts ∈ avals paths, ∃ q ∈ ts, q ∉ n.states) ∧ e = .lib .invalidStateError) := by
  unfold validateRow at h
  rcases Res.andThen_eq_error.mp h with h0 | ⟨_, h⟩
  · left
    obtain ⟨a, ha, hg⟩ := firstErr_eq_error h0
    cases a with
    | none => simp at hg
    | some a =>
      obtain ⟨hc, rfl⟩ := guardE_eq_error.mp hg
      exact ⟨⟨a, ha, by simpa using hc⟩, rfl⟩
  · right
    obtain ⟨ts, hts, hg⟩ := firstErr_eq_error h
    obtain ⟨q, hq, hg⟩ := firstErr_eq_error hg
    obtain ⟨hc, rfl⟩ := guardE_eq_error.mp hg
    exact ⟨⟨ts, hts, q, hq, by simpa using hc⟩, rfl⟩

theorem rules_correct : (rules : RuleSys (NFA σ α) Rule).Correct validate where
  ok_iff n := (validate_eq_ok n).trans (wf_iff n)
  error_kind n e h := by
    unfold validate at h
    rcases Res.andThen_eq_error.mp h with h0 | ⟨ok0, h⟩
    · obtain ⟨kv, hkv, hrow⟩ := firstErr_eq_error h0
      rcases validateRow_error n kv.2 e hrow with ⟨⟨a, ha, hna⟩, rfl⟩ | ⟨⟨ts, hts, q, hq, hnq⟩, rfl⟩
      · refine ⟨.unknownSymbol, ⟨kv, hkv, a, ha, hna⟩, rfl, ?_⟩
        intro r' hr'; cases r' <;> simp [rules, Rule.stage] at hr'
      · refine ⟨.unknownEndState, ⟨kv, hkv, ts, hts, q, hq, hnq⟩, rfl, ?_⟩
        intro r' hr'; cases r' <;> simp [rules, Rule.stage] at hr'
    have n0a : ¬ rules.Violates n .unknownSymbol := by
      simp only [firstErr_eq_ok, validateRow_eq_ok] at ok0
      simp only [rules, not_exists, not_and, Classical.not_not]
      intro kv hkv a ha; exact (ok0 kv hkv).1 a ha
    have n0b : ¬ rules.Violates n .unknownEndState := by
      simp only [firstErr_eq_ok, validateRow_eq_ok] at ok0
      simp only [rules, not_exists, not_and, Classical.not_not]
      intro kv hkv ts hts q hq; exact (ok0 kv hkv).2 ts hts q hq
    rcases Res.andThen_eq_error.mp h with h1 | ⟨ok1, h⟩
    · obtain ⟨hc, rfl⟩ := guardE_eq_error.mp h1
      refine ⟨.badInitial, by simpa [rules] using hc, rfl, ?_⟩
      intro r' hr'; cases r' <;> simp [rules, Rule.stage] at hr' <;> assumption
    have n1 : ¬ rules.Violates n .badInitial := by
      have := guardE_eq_ok.mp ok1
      simpa [rules] using this
    rcases Res.andThen_eq_error.mp h with h2 | ⟨ok2, h⟩
    · obtain ⟨hc, rfl⟩ := guardE_eq_error.mp h2
      have hv : rules.Violates n .initialNoRow := by
        rw [Bool.or_eq_false_iff] at hc
        refine ⟨?_, ?_⟩
        · intro hk; rw [ahas_iff.mpr hk] at hc; exact absurd hc.1 (by simp)
        · have := hc.2; simp only [decide_eq_false_iff_not, Nat.not_le] at this; exact this
      refine ⟨.initialNoRow, hv, rfl, ?_⟩
      intro r' hr'; cases r' <;> simp [rules, Rule.stage] at hr' <;> assumption
    have n2 : ¬ rules.Violates n .initialNoRow := by
      have := guardE_eq_ok.mp ok2
      simp only [Bool.or_eq_true, decide_eq_true_eq, ahas_iff] at this
      simp only [rules, not_and, Nat.not_lt]
      intro hk; rcases this with h' | h'
      · exact absurd h' hk
      · exact h'
    obtain ⟨hc, rfl⟩ := guardE_eq_error.mp h
    have hv : rules.Violates n .badFinal := by
      have : ¬ ∀ q ∈ n.finals, q ∈ n.states := by
        intro hall
        have : (n.finals.all fun q => decide (q ∈ n.states)) = true := by simpa using hall
        rw [this] at hc; cases hc
      simpa [rules] using this
    refine ⟨.badFinal, hv, rfl, ?_⟩
    intro r' hr'; cases r' <;> simp [rules, Rule.stage] at hr' <;> assumption

end NFA

namespace GNFA
inductive Rule
  | badInitial | badFinal | initialEqualsFinal | missingRow
  | malformedLabel | labelLexerError | finalHasTransitions | missingEntry | unknownEndState
  | transitionIntoInitial | initialNoRow
  deriving DecidableEq, Repr

/-- A label the constructor rejects as malformed: it uses a character outside the input
symbols and `* | ( ) ?` (and is not empty), or the regex validator says it is invalid. -/
def Malformed (g : GNFA σ α) (l : GLabel α) : Prop :=
  ((∃ c ∈ l.chars, g.charOk c = false) ∧ l.chars ≠ []) ∨ l.verdict = .invalid

def Rule.kind : Rule → Gen.Err
  | .badInitial => .invalidStateError
  | .badFinal => .invalidStateError
  | .initialEqualsFinal => .invalidStateError
  | .missingRow => .missingStateError
  | .malformedLabel => .invalidRegexError
  | .labelLexerError => .lexerError
  | .finalHasTransitions => .invalidStateError
  | .missingEntry => .missingStateError
  | .unknownEndState => .invalidStateError
  | .transitionIntoInitial => .invalidStateError
  | .initialNoRow => .missingStateError

def Rule.stage : Rule → Nat
  | .badInitial => 0
  | .badFinal => 1
  | .initialEqualsFinal => 2
  | .missingRow => 3
  | .malformedLabel => 4
  | .labelLexerError => 4
  | .finalHasTransitions => 4
  | .missingEntry => 4
  | .unknownEndState => 4
  | .transitionIntoInitial => 4
  | .initialNoRow => 5

def rules : RuleSys (GNFA σ α) Rule where
  kind := Rule.kind
  stage := Rule.stage
  Violates g
    | .badInitial => g.init ∉ g.states
    | .badFinal => g.final ∉ g.states
    | .initialEqualsFinal => g.init = g.final
    | .missingRow => ∃ q ∈ g.states, q ≠ g.final ∧ q ∉ akeys g.trans
    | .malformedLabel => ∃ kv ∈ g.trans, ∃ l, some l ∈ avals kv.2 ∧ g.Malformed l
    | .labelLexerError => ∃ kv ∈ g.trans, ∃ l, some l ∈ avals kv.2 ∧ l.verdict = .lexerError
    | .finalHasTransitions => ∃ kv ∈ g.trans, kv.1 = g.final ∧ kv.2 ≠ []
    | .missingEntry => ∃ kv ∈ g.trans, kv.1 ≠ g.final ∧ ∃ q ∈ g.states, q ∉ akeys kv.2 ∧ q ≠ g.init
    | .unknownEndState => ∃ kv ∈ g.trans, ∃ q ∈ akeys kv.2, q ∉ g.states
    | .transitionIntoInitial => ∃ kv ∈ g.trans, g.entersInit kv.2 = true
    | .initialNoRow => g.init ∉ akeys g.trans ∧ 1 < g.states.length

theorem rules_stage : (rules : RuleSys (GNFA σ α) Rule).stage = Rule.stage := rfl
theorem rules_kind : (rules : RuleSys (GNFA σ α) Rule).kind = Rule.kind := rfl

theorem labelOk_iff (g : GNFA σ α) (l : GLabel α) :
    g.LabelOk (some l) ↔ ¬ g.Malformed l ∧ l.verdict ≠ .lexerError := by
  unfold LabelOk Malformed
  constructor
  · rintro ⟨h1, h2⟩
    refine ⟨?_, by simp [h2]⟩
    rintro (⟨⟨c, hc, hbad⟩, hne⟩ | h)
    · rcases h1 with h1 | h1
      · rw [h1 c hc] at hbad; cases hbad
      · exact hne h1
    · rw [h2] at h; cases h
  · rintro ⟨h1, h2⟩
    refine ⟨?_, ?_⟩
    · by_cases he : l.chars = []
      · exact Or.inr he
      · left
        intro c hc
        cases hcc : g.charOk c with
        | true => rfl
        | false => exact absurd (Or.inl ⟨⟨c, hc, hcc⟩, he⟩) h1
    · cases hv : l.verdict with
      | valid => rfl
      | invalid => exact absurd (Or.inr hv) h1
      | lexerError => exact absurd hv h2

theorem wf_iff (g : GNFA σ α) : g.WF ↔ ∀ r, ¬ rules.Violates g r := by
  constructor
  · intro wf r
    cases r <;> simp only [rules, not_exists, not_and, Classical.not_not]
    · exact wf.initOk
    · exact wf.finalOk
    · exact wf.distinct
    · intro q hq hne; rcases wf.rows q hq with h | h
      · exact absurd h hne
      · exact h
    · intro kv hkv l hl; exact ((labelOk_iff g l).mp (wf.labelsOk kv hkv _ hl)).1
    · intro kv hkv l hl; exact ((labelOk_iff g l).mp (wf.labelsOk kv hkv _ hl)).2
    · exact wf.finalRowEmpty
    · intro kv hkv hne q hq hnk; rcases wf.complete kv hkv hne q hq with h | h
      · exact absurd h hnk
      · exact h
    · exact wf.tgtOk
    · intro kv hkv; simpa using wf.noEnter kv hkv
    · intro h; rcases wf.initRow with h' | h'
      · exact absurd h' h
      · omega
  · intro h
    refine ⟨?_, ?_, ?_, ?_, ?_, ?_, ?_, ?_, ?_, ?_⟩
    · simpa [rules] using h .badInitial
    · simpa [rules] using h .badFinal
    · simpa [rules] using h .initialEqualsFinal
    · have := h .missingRow
      simp only [rules, not_exists, not_and, Classical.not_not] at this
      intro q hq
      by_cases hf : q = g.final
      · exact Or.inl hf
      · exact Or.inr (this q hq hf)
    · intro kv hkv l hl
      cases l with
      | none => trivial
      | some l =>
        have h1 := h .malformedLabel
        have h2 := h .labelLexerError
        simp only [rules, not_exists, not_and] at h1 h2
        exact (labelOk_iff g l).mpr ⟨h1 kv hkv l hl, h2 kv hkv l hl⟩
    · have := h .finalHasTransitions
      simp only [rules, not_exists, not_and, Classical.not_not] at this
      exact this
    · have := h .missingEntry
      simp only [rules, not_exists, not_and, Classical.not_not] at this
      intro kv hkv hne q hq
      by_cases hk : q ∈ akeys kv.2
      · exact Or.inl hk
      · exact Or.inr (this kv hkv hne q hq hk)
    · simpa [rules] using h .unknownEndState
    · have := h .transitionIntoInitial
      simp only [rules, not_exists, not_and, Bool.not_eq_true] at this
      exact this
    · have := h .initialNoRow
      simp only [rules, not_and, Nat.not_lt] at this
      by_cases hk : g.init ∈ akeys g.trans
      · exact Or.inl hk
      · exact Or.inr (this hk)

theorem validateLabel_error (g : GNFA σ α) (l : Option (GLabel α)) (e : Exn)
    (h : g.validateLabel l = .error e) :
    ∃ l', l = some l' ∧ ((g.Malformed l' ∧ e = .lib .invalidRegexError) ∨
      (l'.verdict = .lexerError ∧ e = .lib .lexerError)) := by
  cases l with
  | none => simp [validateLabel] at h
  | some l =>
    refine ⟨l, rfl, ?_⟩
    simp only [validateLabel] at h
    by_cases hbad : ((!(l.chars.all g.charOk)) && !l.chars.isEmpty) = true
    · left
      rw [if_pos hbad] at h
      cases h
      simp only [Bool.and_eq_true, Bool.not_eq_true', List.all_eq_false, Bool.not_eq_true,
        List.isEmpty_eq_false_iff] at hbad
      exact ⟨Or.inl ⟨by simpa using hbad.1, hbad.2⟩, rfl⟩
    · rw [if_neg hbad] at h
      cases hv : l.verdict with
      | valid => rw [hv] at h; cases h
      | invalid => rw [hv] at h; cases h; exact Or.inl ⟨Or.inr hv, rfl⟩
      | lexerError => rw [hv] at h; cases h; exact Or.inr ⟨rfl, rfl⟩

theorem validateEndStates_error (g : GNFA σ α) (start : σ) (paths : List (σ × Option (GLabel α)))
    (e : Exn) (h : g.validateEndStates start paths = .error e) :
    (start = g.final ∧ paths ≠ [] ∧ e = .lib .invalidStateError) ∨
    (start ≠ g.final ∧ (∃ q ∈ g.states, q ∉ akeys paths ∧ q ≠ g.init) ∧ e = .lib .missingStateError) ∨
    ((∃ q ∈ akeys paths, q ∉ g.states) ∧ e = .lib .invalidStateError) := by
  unfold validateEndStates at h
  rcases Res.andThen_eq_error.mp h with h0 | ⟨_, h⟩
  · by_cases hs : start = g.final
    · left
      simp only [hs, if_true] at h0
      obtain ⟨hc, rfl⟩ := guardE_eq_error.mp h0
      exact ⟨hs, by simpa [List.isEmpty_iff] using hc, rfl⟩
    · right; left
      simp only [hs, if_false] at h0
      obtain ⟨hc, rfl⟩ := guardE_eq_error.mp h0
      refine ⟨hs, ?_, rfl⟩
      unfold rowComplete at hc
      simp only [List.all_eq_false, Bool.or_eq_true, decide_eq_true_eq, not_or, ahas_iff'] at hc
      exact hc
  · right; right
    obtain ⟨q, hq, hg⟩ := firstErr_eq_error h
    obtain ⟨hc, rfl⟩ := guardE_eq_error.mp hg
    exact ⟨⟨q, hq, by simpa using hc⟩, rfl⟩

theorem rules_correct : (rules : RuleSys (GNFA σ α) Rule).Correct validate where
  ok_iff g := (validate_eq_ok g).trans (wf_iff g)
  error_kind g e h := by
    unfold validate at h
    rcases Res.andThen_eq_error.mp h with h0 | ⟨ok0, h⟩
    · obtain ⟨hc, rfl⟩ := guardE_eq_error.mp h0
      refine ⟨.badInitial, by simpa [rules] using hc, rfl, ?_⟩
      intro r' hr'; cases r' <;> simp [rules, Rule.stage] at hr'
    have n0 : ¬ rules.Violates g .badInitial := by
      have := guardE_eq_ok.mp ok0; simpa [rules] using this
    rcases Res.andThen_eq_error.mp h with h1 | ⟨ok1, h⟩
    · obtain ⟨hc, rfl⟩ := guardE_eq_error.mp h1
      refine ⟨.badFinal, by simpa [rules] using hc, rfl, ?_⟩
      intro r' hr'; cases r' <;> simp [rules, Rule.stage] at hr' <;> assumption
    have n1 : ¬ rules.Violates g .badFinal := by
      have := guardE_eq_ok.mp ok1; simpa [rules] using this
    rcases Res.andThen_eq_error.mp h with h2 | ⟨ok2, h⟩
    · obtain ⟨hc, rfl⟩ := guardE_eq_error.mp h2
      refine ⟨.initialEqualsFinal, by simpa [rules] using hc, rfl, ?_⟩
      intro r' hr'; cases r' <;> simp [rules, Rule.stage] at hr' <;> assumption
    have n2 : ¬ rules.Violates g .initialEqualsFinal := by
      have := guardE_eq_ok.mp ok2; simpa [rules] using this
    rcases Res.andThen_eq_error.mp h with h3 | ⟨ok3, h⟩
    · obtain ⟨q, hq, hg⟩ := firstErr_eq_error h3
      obtain ⟨hc, rfl⟩ := guardE_eq_error.mp hg
      have hv : rules.Violates g .missingRow := by
        simp only [Bool.or_eq_false_iff, decide_eq_false_iff_not, ahas_eq_false'] at hc
        exact ⟨q, hq, hc.1, hc.2⟩
      refine ⟨.missingRow, hv, rfl, ?_⟩
      intro r' hr'; cases r' <;> simp [rules, Rule.stage] at hr' <;> assumption
    have n3 : ¬ rules.Violates g .missingRow := by
      simp only [firstErr_eq_ok, guardE_eq_ok, Bool.or_eq_true, decide_eq_true_eq, ahas_iff'] at ok3
      simp only [rules, not_exists, not_and, Classical.not_not]
      intro q hq hne; rcases ok3 q hq with h' | h'
      · exact absurd h' hne
      · exact h'
    rcases Res.andThen_eq_error.mp h with h4 | ⟨ok4, h⟩
    · obtain ⟨kv, hkv, hrow⟩ := firstErr_eq_error h4
      have early : ∀ r' : Rule, (rules : RuleSys (GNFA σ α) Rule).stage r' < 4 → ¬ rules.Violates g r' := by
        intro r' hr'; cases r' <;> simp [rules, Rule.stage] at hr' <;> assumption
      rcases Res.andThen_eq_error.mp hrow with hl | ⟨_, hrow⟩
      · obtain ⟨l, hl', hlab⟩ := firstErr_eq_error hl
        obtain ⟨l', rfl, (⟨hm, rfl⟩ | ⟨hm, rfl⟩)⟩ := validateLabel_error g l e hlab
        · exact ⟨.malformedLabel, ⟨kv, hkv, l', hl', hm⟩, rfl, early⟩
        · exact ⟨.labelLexerError, ⟨kv, hkv, l', hl', hm⟩, rfl, early⟩
      rcases Res.andThen_eq_error.mp hrow with he | ⟨_, hrow⟩
      · rcases validateEndStates_error g kv.1 kv.2 e he with ⟨a, b, rfl⟩ | ⟨a, b, rfl⟩ | ⟨b, rfl⟩
        · exact ⟨.finalHasTransitions, ⟨kv, hkv, a, b⟩, rfl, early⟩
        · exact ⟨.missingEntry, ⟨kv, hkv, a, b⟩, rfl, early⟩
        · exact ⟨.unknownEndState, ⟨kv, hkv, b⟩, rfl, early⟩
      · obtain ⟨hc, rfl⟩ := guardE_eq_error.mp hrow
        refine ⟨.transitionIntoInitial, ⟨kv, hkv, ?_⟩, rfl, early⟩
        simpa using hc
    · obtain ⟨hc, rfl⟩ := guardE_eq_error.mp h
      have hv : rules.Violates g .initialNoRow := by
        rw [Bool.or_eq_false_iff] at hc
        refine ⟨?_, ?_⟩
        · intro hk; rw [ahas_iff'.mpr hk] at hc; exact absurd hc.1 (by simp)
        · have := hc.2; simp only [decide_eq_false_iff_not, Nat.not_le] at this; exact this
      refine ⟨.initialNoRow, hv, rfl, ?_⟩
      have wfrows := ok4
      simp only [firstErr_eq_ok, Res.andThen_eq_ok, validateLabel_eq_ok, validateEndStates_eq_ok,
        guardE_eq_ok, Bool.not_eq_true'] at wfrows
      intro r' hr'
      cases r' <;> simp [rules, Rule.stage] at hr' <;> try assumption
      all_goals simp only [rules, not_exists, not_and, Classical.not_not]
      · intro kv hkv l hl; exact ((labelOk_iff g l).mp ((wfrows kv hkv).1 _ hl)).1
      · intro kv hkv l hl; exact ((labelOk_iff g l).mp ((wfrows kv hkv).1 _ hl)).2
      · intro kv hkv; exact (wfrows kv hkv).2.1.1
      · intro kv hkv hne q hq hnk; rcases (wfrows kv hkv).2.1.2.1 hne q hq with h' | h'
        · exact absurd h' hnk
        · exact h'
      · intro kv hkv; exact (wfrows kv hkv).2.1.2.2
      · intro kv hkv; simpa using (wfrows kv hkv).2.2

end GNFA

/-! ## PDA -/

inductive PdaRule
  | unknownInputSymbol | nondeterministic | unknownStackSymbol
  | badInitial | badInitialStackSymbol | badFinal | badAcceptanceMode
  deriving DecidableEq, Repr

def PdaRule.kind : PdaRule → Gen.Err
  | .unknownInputSymbol => .invalidSymbolError
  | .nondeterministic => .nondeterminismError
  | .unknownStackSymbol => .invalidSymbolError
  | .badInitial => .invalidStateError
  | .badInitialStackSymbol => .invalidSymbolError
  | .badFinal => .invalidStateError
  | .badAcceptanceMode => .invalidAcceptanceModeError

def PdaRule.stage : PdaRule → Nat
  | .unknownInputSymbol => 0
  | .nondeterministic => 0
  | .unknownStackSymbol => 0
  | .badInitial => 1
  | .badInitialStackSymbol => 2
  | .badFinal => 3
  | .badAcceptanceMode => 4

/-- Which tail check fails first, together with the fact that the earlier ones passed. -/
theorem pdaValidateTail_error (states : List σ) (stackSyms : List γ) (init : σ) (initStack : γ)
    (finals : List σ) (mode : String) (e : Exn)
    (h : pdaValidateTail states stackSyms init initStack finals mode = .error e) :
    (init ∉ states ∧ e = .lib .invalidStateError) ∨
    (init ∈ states ∧ initStack ∉ stackSyms ∧ e = .lib .invalidSymbolError) ∨
    (init ∈ states ∧ initStack ∈ stackSyms ∧ (∃ q ∈ finals, q ∉ states) ∧ e = .lib .invalidStateError) ∨
    (init ∈ states ∧ initStack ∈ stackSyms ∧ (∀ q ∈ finals, q ∈ states) ∧
      mode ∉ Gen.Validate.pdaAcceptanceModes ∧ e = .lib .invalidAcceptanceModeError) := by
  unfold pdaValidateTail at h
  rcases Res.andThen_eq_error.mp h with h0 | ⟨ok0, h⟩
  · obtain ⟨hc, rfl⟩ := guardE_eq_error.mp h0
    exact Or.inl ⟨by simpa using hc, rfl⟩
  have p0 : init ∈ states := by simpa using guardE_eq_ok.mp ok0
  rcases Res.andThen_eq_error.mp h with h1 | ⟨ok1, h⟩
  · obtain ⟨hc, rfl⟩ := guardE_eq_error.mp h1
    exact Or.inr (Or.inl ⟨p0, by simpa using hc, rfl⟩)
  have p1 : initStack ∈ stackSyms := by simpa using guardE_eq_ok.mp ok1
  rcases Res.andThen_eq_error.mp h with h2 | ⟨ok2, h⟩
  · obtain ⟨hc, rfl⟩ := guardE_eq_error.mp h2
    exact Or.inr (Or.inr (Or.inl ⟨p0, p1, subsetB_eq_false.mp hc, rfl⟩))
  have p2 : ∀ q ∈ finals, q ∈ states := subsetB_eq_true.mp (guardE_eq_ok.mp ok2)
  obtain ⟨hc, rfl⟩ := guardE_eq_error.mp h
  exact Or.inr (Or.inr (Or.inr ⟨p0, p1, p2, by simpa using hc, rfl⟩))

namespace DPDA

def rules : RuleSys (DPDA σ α γ) PdaRule where
  kind := PdaRule.kind
  stage := PdaRule.stage
  Violates d
    | .unknownInputSymbol => ∃ kv ∈ d.trans, ∃ e ∈ kv.2, ∃ a, e.1 = some a ∧ a ∉ d.syms
    | .nondeterministic => ∃ kv ∈ d.trans, ¬ RowDet kv.2
    | .unknownStackSymbol => ∃ kv ∈ d.trans, ∃ e ∈ kv.2, ∃ g ∈ akeys e.2, g ∉ d.stackSyms
    | .badInitial => d.init ∉ d.states
    | .badInitialStackSymbol => d.initStack ∉ d.stackSyms
    | .badFinal => ∃ q ∈ d.finals, q ∉ d.states
    | .badAcceptanceMode => d.mode ∉ Gen.Validate.pdaAcceptanceModes

theorem rules_stage : (rules : RuleSys (DPDA σ α γ) PdaRule).stage = PdaRule.stage := rfl
theorem rules_kind : (rules : RuleSys (DPDA σ α γ) PdaRule).kind = PdaRule.kind := rfl

theorem wf_iff (d : DPDA σ α γ) : d.WF ↔ ∀ r, ¬ rules.Violates d r := by
  constructor
  · intro wf r
    cases r <;> simp only [rules, not_exists, not_and, Classical.not_not]
    · intro kv hkv e he a ha; exact wf.symsOk kv hkv e he a ha
    · exact wf.det
    · exact wf.stackOk
    · exact wf.tail.initOk
    · exact wf.tail.initStackOk
    · exact wf.tail.finalsOk
    · exact wf.tail.modeOk
  · intro h
    refine ⟨?_, ?_, ?_, ⟨?_, ?_, ?_, ?_⟩⟩
    · have := h .unknownInputSymbol
      simp only [rules, not_exists, not_and, Classical.not_not] at this
      exact this
    · simpa [rules] using h .unknownStackSymbol
    · have := h .nondeterministic
      simp only [rules, not_exists, not_and, Classical.not_not] at this
      exact this
    · simpa [rules] using h .badInitial
    · simpa [rules] using h .badInitialStackSymbol
    · simpa [rules] using h .badFinal
    · simpa [rules] using h .badAcceptanceMode

theorem lambdaSiblingsOk_error (paths : List (Option α × List (γ × (σ × List γ)))) (e : Exn)
    (h : lambdaSiblingsOk paths = .error e) : ¬ RowDet paths ∧ e = .lib .nondeterminismError := by
  unfold lambdaSiblingsOk at h
  obtain ⟨en, hen, hg⟩ := firstErr_eq_error h
  cases ha : en.1 with
  | none => rw [ha] at hg; cases hg
  | some a =>
    rw [ha] at hg
    obtain ⟨g, hgk, hg'⟩ := firstErr_eq_error hg
    obtain ⟨hc, rfl⟩ := guardE_eq_error.mp hg'
    refine ⟨fun hdet => ?_, rfl⟩
    have := hdet en hen a ha g hgk
    rw [← ahas_iff'] at this
    simp only [Bool.not_eq_false'] at hc
    exact this hc

theorem validateRow_error (d : DPDA σ α γ) (paths : List (Option α × List (γ × (σ × List γ))))
    (e : Exn) (h : d.validateRow paths = .error e) :
    ((∃ en ∈ paths, ∃ a, en.1 = some a ∧ a ∉ d.syms) ∧ e = .lib .invalidSymbolError) ∨
    (¬ RowDet paths ∧ e = .lib .nondeterminismError) ∨
    ((∃ en ∈ paths, ∃ g ∈ akeys en.2, g ∉ d.stackSyms) ∧ e = .lib .invalidSymbolError) := by
  unfold validateRow at h
  obtain ⟨en, hen, hg⟩ := firstErr_eq_error h
  rcases Res.andThen_eq_error.mp hg with h0 | ⟨_, hg⟩
  · left
    cases ha : en.1 with
    | none => rw [ha] at h0; cases h0
    | some a =>
      rw [ha] at h0
      obtain ⟨hc, rfl⟩ := guardE_eq_error.mp h0
      exact ⟨⟨en, hen, a, ha, by simpa using hc⟩, rfl⟩
  · obtain ⟨g, hgk, hg'⟩ := firstErr_eq_error hg
    rcases Res.andThen_eq_error.mp hg' with h1 | ⟨_, h2⟩
    · right; left
      cases ha : en.1 with
      | some a => rw [ha] at h1; cases h1
      | none =>
        rw [ha] at h1
        exact lambdaSiblingsOk_error paths e h1
    · right; right
      obtain ⟨hc, rfl⟩ := guardE_eq_error.mp h2
      exact ⟨⟨en, hen, g, hgk, by simpa using hc⟩, rfl⟩

theorem rules_correct : (rules : RuleSys (DPDA σ α γ) PdaRule).Correct validate where
  ok_iff d := (validate_eq_ok d).trans (wf_iff d)
  error_kind d e h := by
    unfold validate at h
    rcases Res.andThen_eq_error.mp h with h0 | ⟨ok0, h⟩
    · obtain ⟨kv, hkv, hrow⟩ := firstErr_eq_error h0
      have early : ∀ r' : PdaRule, (rules : RuleSys (DPDA σ α γ) PdaRule).stage r' < 0 →
          ¬ rules.Violates d r' := by
        intro r' hr'; simp [rules, PdaRule.stage] at hr'
      rcases validateRow_error d kv.2 e hrow with ⟨⟨en, hen, a, ha, hna⟩, rfl⟩ | ⟨hnd, rfl⟩ | ⟨⟨en, hen, g, hg, hng⟩, rfl⟩
      · exact ⟨.unknownInputSymbol, ⟨kv, hkv, en, hen, a, ha, hna⟩, rfl, early⟩
      · exact ⟨.nondeterministic, ⟨kv, hkv, hnd⟩, rfl, early⟩
      · exact ⟨.unknownStackSymbol, ⟨kv, hkv, en, hen, g, hg, hng⟩, rfl, early⟩
    simp only [firstErr_eq_ok, validateRow_eq_ok] at ok0
    have n0a : ¬ rules.Violates d .unknownInputSymbol := by
      simp only [rules, not_exists, not_and, Classical.not_not]
      intro kv hkv en hen a ha; exact (ok0 kv hkv).1 en hen a ha
    have n0b : ¬ rules.Violates d .nondeterministic := by
      simp only [rules, not_exists, not_and, Classical.not_not]
      intro kv hkv; exact (ok0 kv hkv).2.2
    have n0c : ¬ rules.Violates d .unknownStackSymbol := by
      simp only [rules, not_exists, not_and, Classical.not_not]
      intro kv hkv en hen g hg; exact (ok0 kv hkv).2.1 en hen g hg
    rcases pdaValidateTail_error _ _ _ _ _ _ e h with ⟨a, rfl⟩ | ⟨p0, a, rfl⟩ | ⟨p0, p1, a, rfl⟩ | ⟨p0, p1, p2, a, rfl⟩
    · refine ⟨.badInitial, a, rfl, ?_⟩
      intro r' hr'; cases r' <;> simp [rules, PdaRule.stage] at hr' <;> assumption
    · have nI : ¬ rules.Violates d .badInitial := fun h => h p0
      refine ⟨.badInitialStackSymbol, a, rfl, ?_⟩
      intro r' hr'; cases r' <;> simp [rules, PdaRule.stage] at hr' <;> assumption
    · have nI : ¬ rules.Violates d .badInitial := fun h => h p0
      have nS : ¬ rules.Violates d .badInitialStackSymbol := fun h => h p1
      refine ⟨.badFinal, a, rfl, ?_⟩
      intro r' hr'; cases r' <;> simp [rules, PdaRule.stage] at hr' <;> assumption
    · have nI : ¬ rules.Violates d .badInitial := fun h => h p0
      have nS : ¬ rules.Violates d .badInitialStackSymbol := fun h => h p1
      have nF : ¬ rules.Violates d .badFinal := by
        simp only [rules, not_exists, not_and, Classical.not_not]; exact p2
      refine ⟨.badAcceptanceMode, a, rfl, ?_⟩
      intro r' hr'; cases r' <;> simp [rules, PdaRule.stage] at hr' <;> assumption

end DPDA

namespace NPDA

def rules : RuleSys (NPDA σ α γ) PdaRule where
  kind := PdaRule.kind
  stage := PdaRule.stage
  Violates d
    | .unknownInputSymbol => ∃ kv ∈ d.trans, ∃ e ∈ kv.2, ∃ a, e.1 = some a ∧ a ∉ d.syms
    | .nondeterministic => False
    | .unknownStackSymbol => ∃ kv ∈ d.trans, ∃ e ∈ kv.2, ∃ g ∈ akeys e.2, g ∉ d.stackSyms
    | .badInitial => d.init ∉ d.states
    | .badInitialStackSymbol => d.initStack ∉ d.stackSyms
    | .badFinal => ∃ q ∈ d.finals, q ∉ d.states
    | .badAcceptanceMode => d.mode ∉ Gen.Validate.pdaAcceptanceModes

theorem rules_stage : (rules : RuleSys (NPDA σ α γ) PdaRule).stage = PdaRule.stage := rfl
theorem rules_kind : (rules : RuleSys (NPDA σ α γ) PdaRule).kind = PdaRule.kind := rfl

theorem wf_iff (d : NPDA σ α γ) : d.WF ↔ ∀ r, ¬ rules.Violates d r := by
  constructor
  · intro wf r
    cases r <;> simp only [rules, not_exists, not_and, Classical.not_not, not_false_eq_true]
    · intro kv hkv e he a ha; exact wf.symsOk kv hkv e he a ha
    · exact wf.stackOk
    · exact wf.tail.initOk
    · exact wf.tail.initStackOk
    · exact wf.tail.finalsOk
    · exact wf.tail.modeOk
  · intro h
    refine ⟨?_, ?_, ⟨?_, ?_, ?_, ?_⟩⟩
    · have := h .unknownInputSymbol
      simp only [rules, not_exists, not_and, Classical.not_not] at this
      exact this
    · simpa [rules] using h .unknownStackSymbol
    · simpa [rules] using h .badInitial
    · simpa [rules] using h .badInitialStackSymbol
    · simpa [rules] using h .badFinal
    · simpa [rules] using h .badAcceptanceMode

theorem validateRow_error (d : NPDA σ α γ) (paths : List (Option α × List (γ × List (σ × List γ))))
    (e : Exn) (h : d.validateRow paths = .error e) :
    ((∃ en ∈ paths, ∃ a, en.1 = some a ∧ a ∉ d.syms) ∧ e = .lib .invalidSymbolError) ∨
    ((∃ en ∈ paths, ∃ g ∈ akeys en.2, g ∉ d.stackSyms) ∧ e = .lib .invalidSymbolError) := by
  unfold validateRow at h
  obtain ⟨en, hen, hg⟩ := firstErr_eq_error h
  rcases Res.andThen_eq_error.mp hg with h0 | ⟨_, hg⟩
  · left
    cases ha : en.1 with
    | none => rw [ha] at h0; cases h0
    | some a =>
      rw [ha] at h0
      obtain ⟨hc, rfl⟩ := guardE_eq_error.mp h0
      exact ⟨⟨en, hen, a, ha, by simpa using hc⟩, rfl⟩
  · right
    obtain ⟨g, hgk, hg'⟩ := firstErr_eq_error hg
    obtain ⟨hc, rfl⟩ := guardE_eq_error.mp hg'
    exact ⟨⟨en, hen, g, hgk, by simpa using hc⟩, rfl⟩

theorem rules_correct : (rules : RuleSys (NPDA σ α γ) PdaRule).Correct validate where
  ok_iff d := (validate_eq_ok d).trans (wf_iff d)
  error_kind d e h := by
    unfold validate at h
    rcases Res.andThen_eq_error.mp h with h0 | ⟨ok0, h⟩
    · obtain ⟨kv, hkv, hrow⟩ := firstErr_eq_error h0
      have early : ∀ r' : PdaRule, (rules : RuleSys (NPDA σ α γ) PdaRule).stage r' < 0 →
          ¬ rules.Violates d r' := by
        intro r' hr'; simp [rules, PdaRule.stage] at hr'
      rcases validateRow_error d kv.2 e hrow with ⟨⟨en, hen, a, ha, hna⟩, rfl⟩ | ⟨⟨en, hen, g, hg, hng⟩, rfl⟩
      · exact ⟨.unknownInputSymbol, ⟨kv, hkv, en, hen, a, ha, hna⟩, rfl, early⟩
      · exact ⟨.unknownStackSymbol, ⟨kv, hkv, en, hen, g, hg, hng⟩, rfl, early⟩
    simp only [firstErr_eq_ok, validateRow_eq_ok] at ok0
    have n0a : ¬ rules.Violates d .unknownInputSymbol := by
      simp only [rules, not_exists, not_and, Classical.not_not]
      intro kv hkv en hen a ha; exact (ok0 kv hkv).1 en hen a ha
    have n0b : ¬ rules.Violates d .nondeterministic := by simp [rules]
    have n0c : ¬ rules.Violates d .unknownStackSymbol := by
      simp only [rules, not_exists, not_and, Classical.not_not]
      intro kv hkv en hen g hg; exact (ok0 kv hkv).2 en hen g hg
    rcases pdaValidateTail_error _ _ _ _ _ _ e h with ⟨a, rfl⟩ | ⟨p0, a, rfl⟩ | ⟨p0, p1, a, rfl⟩ | ⟨p0, p1, p2, a, rfl⟩
    · refine ⟨.badInitial, a, rfl, ?_⟩
      intro r' hr'; cases r' <;> simp [rules, PdaRule.stage] at hr' <;> assumption
    · have nI : ¬ rules.Violates d .badInitial := fun h => h p0
      refine ⟨.badInitialStackSymbol, a, rfl, ?_⟩
      intro r' hr'; cases r' <;> simp [rules, PdaRule.stage] at hr' <;> assumption
    · have nI : ¬ rules.Violates d .badInitial := fun h => h p0
      have nS : ¬ rules.Violates d .badInitialStackSymbol := fun h => h p1
      refine ⟨.badFinal, a, rfl, ?_⟩
      intro r' hr'; cases r' <;> simp [rules, PdaRule.stage] at hr' <;> assumption
    · have nI : ¬ rules.Violates d .badInitial := fun h => h p0
      have nS : ¬ rules.Violates d .badInitialStackSymbol := fun h => h p1
      have nF : ¬ rules.Violates d .badFinal := by
        simp only [rules, not_exists, not_and, Classical.not_not]; exact p2
      refine ⟨.badAcceptanceMode, a, rfl, ?_⟩
      intro r' hr'; cases r' <;> simp [rules, PdaRule.stage] at hr' <;> assumption

end NPDA

/-! ## Turing machines -/

inductive TmRule
  | inputNotProperSubset | badBlank
  | unknownTransitionState | badReadSymbol | unknownResultState | badWriteSymbol | badDirection
  | badInitial | initialNoRow | initialIsFinal | badFinal | finalHasTransitions | badTapeCount
  deriving DecidableEq, Repr

def TmRule.kind : TmRule → Gen.Err
  | .inputNotProperSubset => .missingSymbolError
  | .badBlank => .invalidSymbolError
  | .unknownTransitionState => .invalidStateError
  | .badReadSymbol => .invalidSymbolError
  | .unknownResultState => .invalidStateError
  | .badWriteSymbol => .invalidSymbolError
  | .badDirection => .invalidDirectionError
  | .badInitial => .invalidStateError
  | .initialNoRow => .missingStateError
  | .initialIsFinal => .initialStateError
  | .badFinal => .invalidStateError
  | .finalHasTransitions => .finalStateError
  | .badTapeCount => .inconsistentTapesException

def TmRule.stage : TmRule → Nat
  | .inputNotProperSubset => 0
  | .badBlank => 1
  | .unknownTransitionState => 2
  | .badReadSymbol => 2
  | .unknownResultState => 2
  | .badWriteSymbol => 2
  | .badDirection => 2
  | .badInitial => 3
  | .initialNoRow => 4
  | .initialIsFinal => 5
  | .badFinal => 6
  | .finalHasTransitions => 7
  | .badTapeCount => 8

/-- `Σ ⊊ Γ`. -/
def ProperSubset (syms tapeSyms : List γ) : Prop :=
  (∀ a ∈ syms, a ∈ tapeSyms) ∧ ∃ s ∈ tapeSyms, s ∉ syms

theorem tmValidateHead_error (syms tapeSyms : List γ) (blank : γ) (e : Exn)
    (h : tmValidateHead syms tapeSyms blank = .error e) :
    (¬ ProperSubset syms tapeSyms ∧ e = .lib .missingSymbolError) ∨
    (ProperSubset syms tapeSyms ∧ blank ∉ tapeSyms ∧ e = .lib .invalidSymbolError) := by
  unfold tmValidateHead at h
  rcases Res.andThen_eq_error.mp h with h0 | ⟨ok0, h⟩
  · obtain ⟨hc, rfl⟩ := guardE_eq_error.mp h0
    left
    refine ⟨?_, rfl⟩
    rintro ⟨h1, h2⟩
    have : (subsetB syms tapeSyms && !subsetB tapeSyms syms) = true := by
      simp only [Bool.and_eq_true, subsetB_eq_true, Bool.not_eq_true', subsetB_eq_false]
      exact ⟨h1, h2⟩
    rw [this] at hc; cases hc
  · obtain ⟨hc, rfl⟩ := guardE_eq_error.mp h
    right
    have := guardE_eq_ok.mp ok0
    simp only [Bool.and_eq_true, subsetB_eq_true, Bool.not_eq_true', subsetB_eq_false] at this
    exact ⟨this, by simpa using hc, rfl⟩

theorem tmValidateResult_error (states : List σ) (tapeSyms : List γ) (dirs : List String)
    (r : TMResult σ γ) (e : Exn) (h : tmValidateResult states tapeSyms dirs r = .error e) :
    (r.1 ∉ states ∧ e = .lib .invalidStateError) ∨
    (r.2.1 ∉ tapeSyms ∧ e = .lib .invalidSymbolError) ∨
    (r.2.2 ∉ dirs ∧ e = .lib .invalidDirectionError) := by
  unfold tmValidateResult at h
  rcases Res.andThen_eq_error.mp h with h0 | ⟨_, h⟩
  · obtain ⟨hc, rfl⟩ := guardE_eq_error.mp h0
    exact Or.inl ⟨by simpa using hc, rfl⟩
  rcases Res.andThen_eq_error.mp h with h1 | ⟨_, h⟩
  · obtain ⟨hc, rfl⟩ := guardE_eq_error.mp h1
    exact Or.inr (Or.inl ⟨by simpa using hc, rfl⟩)
  · obtain ⟨hc, rfl⟩ := guardE_eq_error.mp h
    exact Or.inr (Or.inr ⟨by simpa using hc, rfl⟩)

theorem tmValidateTail_error (states keys : List σ) (init : σ) (finals : List σ) (e : Exn)
    (h : tmValidateTail states keys init finals = .error e) :
    (init ∉ states ∧ e = .lib .invalidStateError) ∨
    (init ∈ states ∧ (init ∉ keys ∧ 1 < states.length) ∧ e = .lib .missingStateError) ∨
    (init ∈ states ∧ (init ∈ keys ∨ states.length ≤ 1) ∧ init ∈ finals ∧ e = .lib .initialStateError) ∨
    (init ∈ states ∧ (init ∈ keys ∨ states.length ≤ 1) ∧ init ∉ finals ∧ (∃ q ∈ finals, q ∉ states) ∧
      e = .lib .invalidStateError) ∨
    (init ∈ states ∧ (init ∈ keys ∨ states.length ≤ 1) ∧ init ∉ finals ∧ (∀ q ∈ finals, q ∈ states) ∧
      (∃ f ∈ finals, f ∈ keys) ∧ e = .lib .finalStateError) := by
  unfold tmValidateTail at h
  rcases Res.andThen_eq_error.mp h with h0 | ⟨ok0, h⟩
  · obtain ⟨hc, rfl⟩ := guardE_eq_error.mp h0
    exact Or.inl ⟨by simpa using hc, rfl⟩
  have p0 : init ∈ states := by simpa using guardE_eq_ok.mp ok0
  rcases Res.andThen_eq_error.mp h with h1 | ⟨ok1, h⟩
  · obtain ⟨hc, rfl⟩ := guardE_eq_error.mp h1
    simp only [Bool.or_eq_false_iff, decide_eq_false_iff_not, Nat.not_le] at hc
    exact Or.inr (Or.inl ⟨p0, hc, rfl⟩)
  have p1 : init ∈ keys ∨ states.length ≤ 1 := by simpa using guardE_eq_ok.mp ok1
  rcases Res.andThen_eq_error.mp h with h2 | ⟨ok2, h⟩
  · obtain ⟨hc, rfl⟩ := guardE_eq_error.mp h2
    exact Or.inr (Or.inr (Or.inl ⟨p0, p1, by simpa using hc, rfl⟩))
  have p2 : init ∉ finals := by simpa using guardE_eq_ok.mp ok2
  rcases Res.andThen_eq_error.mp h with h3 | ⟨ok3, h⟩
  · obtain ⟨hc, rfl⟩ := guardE_eq_error.mp h3
    exact Or.inr (Or.inr (Or.inr (Or.inl ⟨p0, p1, p2, subsetB_eq_false.mp hc, rfl⟩)))
  have p3 : ∀ q ∈ finals, q ∈ states := subsetB_eq_true.mp (guardE_eq_ok.mp ok3)
  obtain ⟨f, hf, hg⟩ := firstErr_eq_error h
  obtain ⟨hc, rfl⟩ := guardE_eq_error.mp hg
  exact Or.inr (Or.inr (Or.inr (Or.inr ⟨p0, p1, p2, p3, ⟨f, hf, by simpa using hc⟩, rfl⟩)))

theorem not_initialNoRow {keys states : List σ} {init : σ} (p : init ∈ keys ∨ states.length ≤ 1) :
    ¬ (init ∉ keys ∧ 1 < states.length) := by
  rintro ⟨h1, h2⟩
  rcases p with p | p
  · exact h1 p
  · omega


namespace DTM

/-- The symbols a row reads and the results it lists. -/
def rowReads (kv : σ × List (γ × TMResult σ γ)) : List γ := akeys kv.2
def rowResults (kv : σ × List (γ × TMResult σ γ)) : List (TMResult σ γ) := avals kv.2

def rules : RuleSys (DTM σ γ) TmRule where
  kind := TmRule.kind
  stage := TmRule.stage
  Violates d
    | .inputNotProperSubset => ¬ ProperSubset d.syms d.tapeSyms
    | .badBlank => d.blank ∉ d.tapeSyms
    | .unknownTransitionState => ∃ kv ∈ d.trans, kv.1 ∉ d.states
    | .badReadSymbol => ∃ kv ∈ d.trans, ∃ s ∈ rowReads kv, s ∉ d.tapeSyms
    | .unknownResultState => ∃ kv ∈ d.trans, ∃ r ∈ rowResults kv, r.1 ∉ d.states
    | .badWriteSymbol => ∃ kv ∈ d.trans, ∃ r ∈ rowResults kv, r.2.1 ∉ d.tapeSyms
    | .badDirection => ∃ kv ∈ d.trans, ∃ r ∈ rowResults kv, r.2.2 ∉ Gen.Validate.dtmDirections
    | .badInitial => d.init ∉ d.states
    | .initialNoRow => d.init ∉ akeys d.trans ∧ 1 < d.states.length
    | .initialIsFinal => d.init ∈ d.finals
    | .badFinal => ∃ q ∈ d.finals, q ∉ d.states
    | .finalHasTransitions => ∃ f ∈ d.finals, f ∈ akeys d.trans
    | .badTapeCount => False

theorem rules_stage : (rules : RuleSys (DTM σ γ) TmRule).stage = TmRule.stage := rfl
theorem rules_kind : (rules : RuleSys (DTM σ γ) TmRule).kind = TmRule.kind := rfl

theorem validateRow_error (d : DTM σ γ) (kv : σ × List (γ × TMResult σ γ)) (e : Exn)
    (h : d.validateRow kv = .error e) :
    (kv.1 ∉ d.states ∧ e = .lib .invalidStateError) ∨
    ((∃ s ∈ rowReads kv, s ∉ d.tapeSyms) ∧ e = .lib .invalidSymbolError) ∨
    ((∃ r ∈ rowResults kv, r.1 ∉ d.states) ∧ e = .lib .invalidStateError) ∨
    ((∃ r ∈ rowResults kv, r.2.1 ∉ d.tapeSyms) ∧ e = .lib .invalidSymbolError) ∨
    ((∃ r ∈ rowResults kv, r.2.2 ∉ Gen.Validate.dtmDirections) ∧ e = .lib .invalidDirectionError) := by
  unfold validateRow at h
  rcases Res.andThen_eq_error.mp h with h0 | ⟨_, h⟩
  · obtain ⟨hc, rfl⟩ := guardE_eq_error.mp h0
    exact Or.inl ⟨by simpa using hc, rfl⟩
  rcases Res.andThen_eq_error.mp h with h1 | ⟨_, h⟩
  · obtain ⟨s, hs, hg⟩ := firstErr_eq_error h1
    obtain ⟨hc, rfl⟩ := guardE_eq_error.mp hg
    exact Or.inr (Or.inl ⟨⟨s, hs, by simpa using hc⟩, rfl⟩)
  · right; right
    obtain ⟨r, hr, hg⟩ := firstErr_eq_error h
    rcases tmValidateResult_error _ _ _ r e hg with ⟨a, rfl⟩ | ⟨a, rfl⟩ | ⟨a, rfl⟩
    · exact Or.inl ⟨⟨r, hr, a⟩, rfl⟩
    · exact Or.inr (Or.inl ⟨⟨r, hr, a⟩, rfl⟩)
    · exact Or.inr (Or.inr ⟨⟨r, hr, a⟩, rfl⟩)

theorem row_ok (d : DTM σ γ) (kv : σ × List (γ × TMResult σ γ)) (h : d.validateRow kv = .ok ()) :
    kv.1 ∈ d.states ∧ (∀ s ∈ rowReads kv, s ∈ d.tapeSyms) ∧
      ∀ r ∈ rowResults kv, TmResultOk d.states d.tapeSyms Gen.Validate.dtmDirections r := by
  unfold validateRow at h
  simp only [Res.andThen_eq_ok, firstErr_eq_ok, guardE_eq_ok, decide_eq_true_eq,
    tmValidateResult_eq_ok] at h
  exact h

theorem wf_iff (d : DTM σ γ) : d.WF ↔ ∀ r, ¬ rules.Violates d r := by
  constructor
  · intro wf r
    cases r <;> simp only [rules, not_exists, not_and, Classical.not_not, not_false_eq_true]
    · exact ⟨wf.head.subset, wf.head.proper⟩
    · exact wf.head.blankOk
    · exact wf.keysOk
    · exact wf.readOk
    · intro kv hkv r hr; exact (wf.resultsOk kv hkv r hr).1
    · intro kv hkv r hr; exact (wf.resultsOk kv hkv r hr).2.1
    · intro kv hkv r hr; exact (wf.resultsOk kv hkv r hr).2.2
    · exact wf.tail.initOk
    · exact fun h1 => by
        rcases wf.tail.initRow with h' | h'
        · exact absurd h' h1
        · omega
    · exact wf.tail.initNotFinal
    · exact wf.tail.finalsOk
    · exact wf.tail.finalsNoRow

  · intro h
    have hps : ProperSubset d.syms d.tapeSyms := by simpa [rules] using h .inputNotProperSubset
    have hst : ∀ kv ∈ d.trans, ∀ r ∈ rowResults kv, r.1 ∈ d.states := by
      simpa [rules] using h .unknownResultState
    have hwr : ∀ kv ∈ d.trans, ∀ r ∈ rowResults kv, r.2.1 ∈ d.tapeSyms := by
      simpa [rules] using h .badWriteSymbol
    have hdr : ∀ kv ∈ d.trans, ∀ r ∈ rowResults kv, r.2.2 ∈ Gen.Validate.dtmDirections := by
      simpa [rules] using h .badDirection
    have hrd : ∀ kv ∈ d.trans, ∀ s ∈ rowReads kv, s ∈ d.tapeSyms := by
      simpa [rules] using h .badReadSymbol
    have hnr := h .initialNoRow
    simp only [rules, not_and, Nat.not_lt] at hnr
    refine ⟨?_, ?_, ?_, ?_, ?_⟩
    · exact ⟨hps.1, hps.2, by simpa [rules] using h .badBlank⟩
    · simpa [rules] using h .unknownTransitionState
    · exact hrd
    · intro kv hkv r hr; exact ⟨hst kv hkv r hr, hwr kv hkv r hr, hdr kv hkv r hr⟩
    · refine ⟨by simpa [rules] using h .badInitial, ?_, by simpa [rules] using h .initialIsFinal,
        by simpa [rules] using h .badFinal, by simpa [rules] using h .finalHasTransitions⟩
      by_cases hk : d.init ∈ akeys d.trans
      · exact Or.inl hk
      · exact Or.inr (hnr hk)


theorem rules_correct : (rules : RuleSys (DTM σ γ) TmRule).Correct validate where
  ok_iff d := (validate_eq_ok d).trans (wf_iff d)
  error_kind d e h := by
    unfold validate at h
    rcases Res.andThen_eq_error.mp h with h0 | ⟨ok0, h⟩
    · rcases tmValidateHead_error _ _ _ e h0 with ⟨a, rfl⟩ | ⟨p, a, rfl⟩
      · refine ⟨.inputNotProperSubset, a, rfl, ?_⟩
        intro r' hr'; rw [rules_stage] at hr'; cases r' <;> exact absurd hr' (by decide)
      · have nP : ¬ rules.Violates d .inputNotProperSubset := fun h => h p
        refine ⟨.badBlank, a, rfl, ?_⟩
        intro r' hr'; rw [rules_stage] at hr'; cases r' <;> first | assumption | exact absurd hr' (by decide)
    have hh := (tmValidateHead_eq_ok _ _ _).mp ok0
    have nP : ¬ rules.Violates d .inputNotProperSubset := fun h => h ⟨hh.subset, hh.proper⟩
    have nB : ¬ rules.Violates d .badBlank := fun h => h hh.blankOk
    rcases Res.andThen_eq_error.mp h with h1 | ⟨ok1, h⟩
    · obtain ⟨kv, hkv, hrow⟩ := firstErr_eq_error h1
      have early : ∀ r' : TmRule, (rules : RuleSys (DTM σ γ) TmRule).stage r' < 2 →
          ¬ rules.Violates d r' := by
        intro r' hr'; rw [rules_stage] at hr'; cases r' <;> first | assumption | exact absurd hr' (by decide)
      rcases validateRow_error d kv e hrow with ⟨a, rfl⟩ | ⟨a, rfl⟩ | ⟨a, rfl⟩ | ⟨a, rfl⟩ | ⟨a, rfl⟩
      · exact ⟨.unknownTransitionState, ⟨kv, hkv, a⟩, rfl, early⟩
      · exact ⟨.badReadSymbol, ⟨kv, hkv, a⟩, rfl, early⟩
      · exact ⟨.unknownResultState, ⟨kv, hkv, a⟩, rfl, early⟩
      · exact ⟨.badWriteSymbol, ⟨kv, hkv, a⟩, rfl, early⟩
      · exact ⟨.badDirection, ⟨kv, hkv, a⟩, rfl, early⟩
    have rows := fun kv hkv => row_ok d kv ((firstErr_eq_ok _ _).mp ok1 kv hkv)
    have nR1 : ¬ rules.Violates d .unknownTransitionState := by
      simp only [rules, not_exists, not_and, Classical.not_not]
      intro kv hkv; exact (rows kv hkv).1
    have nR2 : ¬ rules.Violates d .badReadSymbol := by
      simp only [rules, not_exists, not_and, Classical.not_not]
      intro kv hkv s hs; exact (rows kv hkv).2.1 s hs
    have nR3 : ¬ rules.Violates d .unknownResultState := by
      simp only [rules, not_exists, not_and, Classical.not_not]
      intro kv hkv r hr; exact ((rows kv hkv).2.2 r hr).1
    have nR4 : ¬ rules.Violates d .badWriteSymbol := by
      simp only [rules, not_exists, not_and, Classical.not_not]
      intro kv hkv r hr; exact ((rows kv hkv).2.2 r hr).2.1
    have nR5 : ¬ rules.Violates d .badDirection := by
      simp only [rules, not_exists, not_and, Classical.not_not]
      intro kv hkv r hr; exact ((rows kv hkv).2.2 r hr).2.2
    rcases tmValidateTail_error _ _ _ _ e h with ⟨a, rfl⟩ | ⟨p0, a, rfl⟩ | ⟨p0, p1, a, rfl⟩ | ⟨p0, p1, p2, a, rfl⟩ | ⟨p0, p1, p2, p3, a, rfl⟩
    · refine ⟨.badInitial, a, rfl, ?_⟩
      intro r' hr'; rw [rules_stage] at hr'; cases r' <;> first | assumption | exact absurd hr' (by decide)
    · have nI : ¬ rules.Violates d .badInitial := fun h => h p0
      refine ⟨.initialNoRow, a, rfl, ?_⟩
      intro r' hr'; rw [rules_stage] at hr'; cases r' <;> first | assumption | exact absurd hr' (by decide)
    · have nI : ¬ rules.Violates d .badInitial := fun h => h p0
      have nN : ¬ rules.Violates d .initialNoRow := not_initialNoRow p1
      refine ⟨.initialIsFinal, a, rfl, ?_⟩
      intro r' hr'; rw [rules_stage] at hr'; cases r' <;> first | assumption | exact absurd hr' (by decide)
    · have nI : ¬ rules.Violates d .badInitial := fun h => h p0
      have nN : ¬ rules.Violates d .initialNoRow := not_initialNoRow p1
      have nF : ¬ rules.Violates d .initialIsFinal := fun h => p2 h
      refine ⟨.badFinal, a, rfl, ?_⟩
      intro r' hr'; rw [rules_stage] at hr'; cases r' <;> first | assumption | exact absurd hr' (by decide)
    · have nI : ¬ rules.Violates d .badInitial := fun h => h p0
      have nN : ¬ rules.Violates d .initialNoRow := not_initialNoRow p1
      have nF : ¬ rules.Violates d .initialIsFinal := fun h => p2 h
      have nG : ¬ rules.Violates d .badFinal := by
        simp only [rules, not_exists, not_and, Classical.not_not]; exact p3
      refine ⟨.finalHasTransitions, a, rfl, ?_⟩
      intro r' hr'; rw [rules_stage] at hr'; cases r' <;> first | assumption | exact absurd hr' (by decide)


end DTM

namespace NTM

/-- The symbols a row reads and the results it lists. -/
def rowReads (kv : σ × List (γ × List (TMResult σ γ))) : List γ := akeys kv.2
def rowResults (kv : σ × List (γ × List (TMResult σ γ))) : List (TMResult σ γ) :=
  (avals kv.2).flatMap id

def rules : RuleSys (NTM σ γ) TmRule where
  kind := TmRule.kind
  stage := TmRule.stage
  Violates d
    | .inputNotProperSubset => ¬ ProperSubset d.syms d.tapeSyms
    | .badBlank => d.blank ∉ d.tapeSyms
    | .unknownTransitionState => ∃ kv ∈ d.trans, kv.1 ∉ d.states
    | .badReadSymbol => ∃ kv ∈ d.trans, ∃ s ∈ rowReads kv, s ∉ d.tapeSyms
    | .unknownResultState => ∃ kv ∈ d.trans, ∃ r ∈ rowResults kv, r.1 ∉ d.states
    | .badWriteSymbol => ∃ kv ∈ d.trans, ∃ r ∈ rowResults kv, r.2.1 ∉ d.tapeSyms
    | .badDirection => ∃ kv ∈ d.trans, ∃ r ∈ rowResults kv, r.2.2 ∉ Gen.Validate.ntmDirections
    | .badInitial => d.init ∉ d.states
    | .initialNoRow => d.init ∉ akeys d.trans ∧ 1 < d.states.length
    | .initialIsFinal => d.init ∈ d.finals
    | .badFinal => ∃ q ∈ d.finals, q ∉ d.states
    | .finalHasTransitions => ∃ f ∈ d.finals, f ∈ akeys d.trans
    | .badTapeCount => False

theorem rules_stage : (rules : RuleSys (NTM σ γ) TmRule).stage = TmRule.stage := rfl
theorem rules_kind : (rules : RuleSys (NTM σ γ) TmRule).kind = TmRule.kind := rfl

theorem validateRow_error (d : NTM σ γ) (kv : σ × List (γ × List (TMResult σ γ))) (e : Exn)
    (h : d.validateRow kv = .error e) :
    (kv.1 ∉ d.states ∧ e = .lib .invalidStateError) ∨
    ((∃ s ∈ rowReads kv, s ∉ d.tapeSyms) ∧ e = .lib .invalidSymbolError) ∨
    ((∃ r ∈ rowResults kv, r.1 ∉ d.states) ∧ e = .lib .invalidStateError) ∨
    ((∃ r ∈ rowResults kv, r.2.1 ∉ d.tapeSyms) ∧ e = .lib .invalidSymbolError) ∨
    ((∃ r ∈ rowResults kv, r.2.2 ∉ Gen.Validate.ntmDirections) ∧ e = .lib .invalidDirectionError) := by
  unfold validateRow at h
  rcases Res.andThen_eq_error.mp h with h0 | ⟨_, h⟩
  · obtain ⟨hc, rfl⟩ := guardE_eq_error.mp h0
    exact Or.inl ⟨by simpa using hc, rfl⟩
  rcases Res.andThen_eq_error.mp h with h1 | ⟨_, h⟩
  · obtain ⟨s, hs, hg⟩ := firstErr_eq_error h1
    obtain ⟨hc, rfl⟩ := guardE_eq_error.mp hg
    exact Or.inr (Or.inl ⟨⟨s, hs, by simpa using hc⟩, rfl⟩)
  · right; right
    obtain ⟨rs, hrs, hg⟩ := firstErr_eq_error h
    obtain ⟨r, hr, hg⟩ := firstErr_eq_error hg
    have hmem : r ∈ rowResults kv := List.mem_flatMap.mpr ⟨rs, hrs, hr⟩
    rcases tmValidateResult_error _ _ _ r e hg with ⟨a, rfl⟩ | ⟨a, rfl⟩ | ⟨a, rfl⟩
    · exact Or.inl ⟨⟨r, hmem, a⟩, rfl⟩
    · exact Or.inr (Or.inl ⟨⟨r, hmem, a⟩, rfl⟩)
    · exact Or.inr (Or.inr ⟨⟨r, hmem, a⟩, rfl⟩)

theorem row_ok (d : NTM σ γ) (kv : σ × List (γ × List (TMResult σ γ))) (h : d.validateRow kv = .ok ()) :
    kv.1 ∈ d.states ∧ (∀ s ∈ rowReads kv, s ∈ d.tapeSyms) ∧
      ∀ r ∈ rowResults kv, TmResultOk d.states d.tapeSyms Gen.Validate.ntmDirections r := by
  unfold validateRow at h
  simp only [Res.andThen_eq_ok, firstErr_eq_ok, guardE_eq_ok, decide_eq_true_eq,
    tmValidateResult_eq_ok] at h
  refine ⟨h.1, h.2.1, ?_⟩
  intro r hr
  obtain ⟨rs, hrs, hr'⟩ := List.mem_flatMap.mp hr
  exact h.2.2 rs hrs r hr'

theorem wf_iff (d : NTM σ γ) : d.WF ↔ ∀ r, ¬ rules.Violates d r := by
  constructor
  · intro wf r
    cases r <;> simp only [rules, not_exists, not_and, Classical.not_not, not_false_eq_true]
    · exact ⟨wf.head.subset, wf.head.proper⟩
    · exact wf.head.blankOk
    · exact wf.keysOk
    · exact wf.readOk
    · intro kv hkv r hr; exact ((by obtain ⟨rs, hrs, hr'⟩ := List.mem_flatMap.mp hr; exact wf.resultsOk kv hkv rs hrs r hr' : TmResultOk d.states d.tapeSyms Gen.Validate.ntmDirections r)).1
    · intro kv hkv r hr; exact ((by obtain ⟨rs, hrs, hr'⟩ := List.mem_flatMap.mp hr; exact wf.resultsOk kv hkv rs hrs r hr' : TmResultOk d.states d.tapeSyms Gen.Validate.ntmDirections r)).2.1
    · intro kv hkv r hr; exact ((by obtain ⟨rs, hrs, hr'⟩ := List.mem_flatMap.mp hr; exact wf.resultsOk kv hkv rs hrs r hr' : TmResultOk d.states d.tapeSyms Gen.Validate.ntmDirections r)).2.2
    · exact wf.tail.initOk
    · exact fun h1 => by
        rcases wf.tail.initRow with h' | h'
        · exact absurd h' h1
        · omega
    · exact wf.tail.initNotFinal
    · exact wf.tail.finalsOk
    · exact wf.tail.finalsNoRow

  · intro h
    have hps : ProperSubset d.syms d.tapeSyms := by simpa [rules] using h .inputNotProperSubset
    have hst : ∀ kv ∈ d.trans, ∀ r ∈ rowResults kv, r.1 ∈ d.states := by
      simpa [rules] using h .unknownResultState
    have hwr : ∀ kv ∈ d.trans, ∀ r ∈ rowResults kv, r.2.1 ∈ d.tapeSyms := by
      simpa [rules] using h .badWriteSymbol
    have hdr : ∀ kv ∈ d.trans, ∀ r ∈ rowResults kv, r.2.2 ∈ Gen.Validate.ntmDirections := by
      simpa [rules] using h .badDirection
    have hrd : ∀ kv ∈ d.trans, ∀ s ∈ rowReads kv, s ∈ d.tapeSyms := by
      simpa [rules] using h .badReadSymbol
    have hnr := h .initialNoRow
    simp only [rules, not_and, Nat.not_lt] at hnr
    refine ⟨?_, ?_, ?_, ?_, ?_⟩
    · exact ⟨hps.1, hps.2, by simpa [rules] using h .badBlank⟩
    · simpa [rules] using h .unknownTransitionState
    · exact hrd
    · intro kv hkv rs hrs r hr
      have hmem : r ∈ rowResults kv := List.mem_flatMap.mpr ⟨rs, hrs, hr⟩
      exact ⟨hst kv hkv r hmem, hwr kv hkv r hmem, hdr kv hkv r hmem⟩
    · refine ⟨by simpa [rules] using h .badInitial, ?_, by simpa [rules] using h .initialIsFinal,
        by simpa [rules] using h .badFinal, by simpa [rules] using h .finalHasTransitions⟩
      by_cases hk : d.init ∈ akeys d.trans
      · exact Or.inl hk
      · exact Or.inr (hnr hk)


theorem rules_correct : (rules : RuleSys (NTM σ γ) TmRule).Correct validate where
  ok_iff d := (validate_eq_ok d).trans (wf_iff d)
  error_kind d e h := by
    unfold validate at h
    rcases Res.andThen_eq_error.mp h with h0 | ⟨ok0, h⟩
    · rcases tmValidateHead_error _ _ _ e h0 with ⟨a, rfl⟩ | ⟨p, a, rfl⟩
      · refine ⟨.inputNotProperSubset, a, rfl, ?_⟩
        intro r' hr'; rw [rules_stage] at hr'; cases r' <;> exact absurd hr' (by decide)
      · have nP : ¬ rules.Violates d .inputNotProperSubset := fun h => h p
        refine ⟨.badBlank, a, rfl, ?_⟩
        intro r' hr'; rw [rules_stage] at hr'; cases r' <;> first | assumption | exact absurd hr' (by decide)
    have hh := (tmValidateHead_eq_ok _ _ _).mp ok0
    have nP : ¬ rules.Violates d .inputNotProperSubset := fun h => h ⟨hh.subset, hh.proper⟩
    have nB : ¬ rules.Violates d .badBlank := fun h => h hh.blankOk
    rcases Res.andThen_eq_error.mp h with h1 | ⟨ok1, h⟩
    · obtain ⟨kv, hkv, hrow⟩ := firstErr_eq_error h1
      have early : ∀ r' : TmRule, (rules : RuleSys (NTM σ γ) TmRule).stage r' < 2 →
          ¬ rules.Violates d r' := by
        intro r' hr'; rw [rules_stage] at hr'; cases r' <;> first | assumption | exact absurd hr' (by decide)
      rcases validateRow_error d kv e hrow with ⟨a, rfl⟩ | ⟨a, rfl⟩ | ⟨a, rfl⟩ | ⟨a, rfl⟩ | ⟨a, rfl⟩
      · exact ⟨.unknownTransitionState, ⟨kv, hkv, a⟩, rfl, early⟩
      · exact ⟨.badReadSymbol, ⟨kv, hkv, a⟩, rfl, early⟩
      · exact ⟨.unknownResultState, ⟨kv, hkv, a⟩, rfl, early⟩
      · exact ⟨.badWriteSymbol, ⟨kv, hkv, a⟩, rfl, early⟩
      · exact ⟨.badDirection, ⟨kv, hkv, a⟩, rfl, early⟩
    have rows := fun kv hkv => row_ok d kv ((firstErr_eq_ok _ _).mp ok1 kv hkv)
    have nR1 : ¬ rules.Violates d .unknownTransitionState := by
      simp only [rules, not_exists, not_and, Classical.not_not]
      intro kv hkv; exact (rows kv hkv).1
    have nR2 : ¬ rules.Violates d .badReadSymbol := by
      simp only [rules, not_exists, not_and, Classical.not_not]
      intro kv hkv s hs; exact (rows kv hkv).2.1 s hs
    have nR3 : ¬ rules.Violates d .unknownResultState := by
      simp only [rules, not_exists, not_and, Classical.not_not]
      intro kv hkv r hr; exact ((rows kv hkv).2.2 r hr).1
    have nR4 : ¬ rules.Violates d .badWriteSymbol := by
      simp only [rules, not_exists, not_and, Classical.not_not]
      intro kv hkv r hr; exact ((rows kv hkv).2.2 r hr).2.1
    have nR5 : ¬ rules.Violates d .badDirection := by
      simp only [rules, not_exists, not_and, Classical.not_not]
      intro kv hkv r hr; exact ((rows kv hkv).2.2 r hr).2.2
    rcases tmValidateTail_error _ _ _ _ e h with ⟨a, rfl⟩ | ⟨p0, a, rfl⟩ | ⟨p0, p1, a, rfl⟩ | ⟨p0, p1, p2, a, rfl⟩ | ⟨p0, p1, p2, p3, a, rfl⟩
    · refine ⟨.badInitial, a, rfl, ?_⟩
      intro r' hr'; rw [rules_stage] at hr'; cases r' <;> first | assumption | exact absurd hr' (by decide)
    · have nI : ¬ rules.Violates d .badInitial := fun h => h p0
      refine ⟨.initialNoRow, a, rfl, ?_⟩
      intro r' hr'; rw [rules_stage] at hr'; cases r' <;> first | assumption | exact absurd hr' (by decide)
    · have nI : ¬ rules.Violates d .badInitial := fun h => h p0
      have nN : ¬ rules.Violates d .initialNoRow := not_initialNoRow p1
      refine ⟨.initialIsFinal, a, rfl, ?_⟩
      intro r' hr'; rw [rules_stage] at hr'; cases r' <;> first | assumption | exact absurd hr' (by decide)
    · have nI : ¬ rules.Violates d .badInitial := fun h => h p0
      have nN : ¬ rules.Violates d .initialNoRow := not_initialNoRow p1
      have nF : ¬ rules.Violates d .initialIsFinal := fun h => p2 h
      refine ⟨.badFinal, a, rfl, ?_⟩
      intro r' hr'; rw [rules_stage] at hr'; cases r' <;> first | assumption | exact absurd hr' (by decide)
    · have nI : ¬ rules.Violates d .badInitial := fun h => h p0
      have nN : ¬ rules.Violates d .initialNoRow := not_initialNoRow p1
      have nF : ¬ rules.Violates d .initialIsFinal := fun h => p2 h
      have nG : ¬ rules.Violates d .badFinal := by
        simp only [rules, not_exists, not_and, Classical.not_not]; exact p3
      refine ⟨.finalHasTransitions, a, rfl, ?_⟩
      intro r' hr'; rw [rules_stage] at hr'; cases r' <;> first | assumption | exact absurd hr' (by decide)


end NTM

namespace MNTM

/-- The symbols a row reads (every component of every read tuple) and the results it
lists: one `(state, symbol, direction)` per move of every transition, as the code checks them. -/
def rowReads (kv : σ × List (List γ × List (σ × List (γ × String)))) : List γ :=
  (akeys kv.2).flatMap id
def rowResults (kv : σ × List (List γ × List (σ × List (γ × String)))) : List (TMResult σ γ) :=
  (avals kv.2).flatMap fun rs => rs.flatMap fun r => r.2.map fun mv => (r.1, mv.1, mv.2)

theorem mem_rowResults {kv : σ × List (List γ × List (σ × List (γ × String)))} {x : TMResult σ γ} :
    x ∈ rowResults kv ↔ ∃ rs ∈ avals kv.2, ∃ r ∈ rs, ∃ mv ∈ r.2, x = (r.1, mv.1, mv.2) := by
  unfold rowResults
  simp only [List.mem_flatMap, List.mem_map]
  constructor
  · rintro ⟨rs, hrs, r, hr, mv, hmv, rfl⟩; exact ⟨rs, hrs, r, hr, mv, hmv, rfl⟩
  · rintro ⟨rs, hrs, r, hr, mv, hmv, rfl⟩; exact ⟨rs, hrs, r, hr, mv, hmv, rfl⟩

def rules : RuleSys (MNTM σ γ) TmRule where
  kind := TmRule.kind
  stage := TmRule.stage
  Violates d
    | .inputNotProperSubset => ¬ ProperSubset d.syms d.tapeSyms
    | .badBlank => d.blank ∉ d.tapeSyms
    | .unknownTransitionState => ∃ kv ∈ d.trans, kv.1 ∉ d.states
    | .badReadSymbol => ∃ kv ∈ d.trans, ∃ s ∈ rowReads kv, s ∉ d.tapeSyms
    | .unknownResultState => ∃ kv ∈ d.trans, ∃ r ∈ rowResults kv, r.1 ∉ d.states
    | .badWriteSymbol => ∃ kv ∈ d.trans, ∃ r ∈ rowResults kv, r.2.1 ∉ d.tapeSyms
    | .badDirection => ∃ kv ∈ d.trans, ∃ r ∈ rowResults kv, r.2.2 ∉ Gen.Validate.ntmDirections
    | .badInitial => d.init ∉ d.states
    | .initialNoRow => d.init ∉ akeys d.trans ∧ 1 < d.states.length
    | .initialIsFinal => d.init ∈ d.finals
    | .badFinal => ∃ q ∈ d.finals, q ∉ d.states
    | .finalHasTransitions => ∃ f ∈ d.finals, f ∈ akeys d.trans
    | .badTapeCount => (∃ kv ∈ d.trans, ∃ e ∈ kv.2, (e.1.length : Int) ≠ d.nTapes) ∨
        (∃ kv ∈ d.trans, ∃ e ∈ kv.2, ∃ r ∈ e.2, (r.2.length : Int) ≠ d.nTapes)

theorem rules_stage : (rules : RuleSys (MNTM σ γ) TmRule).stage = TmRule.stage := rfl
theorem rules_kind : (rules : RuleSys (MNTM σ γ) TmRule).kind = TmRule.kind := rfl

theorem validateRow_error (d : MNTM σ γ) (kv : σ × List (List γ × List (σ × List (γ × String)))) (e : Exn)
    (h : d.validateRow kv = .error e) :
    (kv.1 ∉ d.states ∧ e = .lib .invalidStateError) ∨
    ((∃ s ∈ rowReads kv, s ∉ d.tapeSyms) ∧ e = .lib .invalidSymbolError) ∨
    ((∃ r ∈ rowResults kv, r.1 ∉ d.states) ∧ e = .lib .invalidStateError) ∨
    ((∃ r ∈ rowResults kv, r.2.1 ∉ d.tapeSyms) ∧ e = .lib .invalidSymbolError) ∨
    ((∃ r ∈ rowResults kv, r.2.2 ∉ Gen.Validate.ntmDirections) ∧ e = .lib .invalidDirectionError) := by
  unfold validateRow at h
  rcases Res.andThen_eq_error.mp h with h0 | ⟨_, h⟩
  · obtain ⟨hc, rfl⟩ := guardE_eq_error.mp h0
    exact Or.inl ⟨by simpa using hc, rfl⟩
  rcases Res.andThen_eq_error.mp h with h1 | ⟨_, h⟩
  · obtain ⟨s, hs, hg⟩ := firstErr_eq_error h1
    obtain ⟨hc, rfl⟩ := guardE_eq_error.mp hg
    exact Or.inr (Or.inl ⟨⟨s, hs, by simpa using hc⟩, rfl⟩)
  · right; right
    obtain ⟨rs, hrs, hg⟩ := firstErr_eq_error h
    obtain ⟨r, hr, hg⟩ := firstErr_eq_error hg
    obtain ⟨mv, hmv, hg⟩ := firstErr_eq_error hg
    have hmem : (r.1, mv.1, mv.2) ∈ rowResults kv := mem_rowResults.mpr ⟨rs, hrs, r, hr, mv, hmv, rfl⟩
    rcases tmValidateResult_error _ _ _ _ e hg with ⟨a, rfl⟩ | ⟨a, rfl⟩ | ⟨a, rfl⟩
    · exact Or.inl ⟨⟨_, hmem, a⟩, rfl⟩
    · exact Or.inr (Or.inl ⟨⟨_, hmem, a⟩, rfl⟩)
    · exact Or.inr (Or.inr ⟨⟨_, hmem, a⟩, rfl⟩)

theorem row_ok (d : MNTM σ γ) (kv : σ × List (List γ × List (σ × List (γ × String)))) (h : d.validateRow kv = .ok ()) :
    kv.1 ∈ d.states ∧ (∀ s ∈ rowReads kv, s ∈ d.tapeSyms) ∧
      ∀ r ∈ rowResults kv, TmResultOk d.states d.tapeSyms Gen.Validate.ntmDirections r := by
  unfold validateRow at h
  simp only [Res.andThen_eq_ok, firstErr_eq_ok, guardE_eq_ok, decide_eq_true_eq,
    tmValidateResult_eq_ok] at h
  refine ⟨h.1, ?_, ?_⟩
  · intro s hs
    exact h.2.1 s hs
  · intro x hx
    obtain ⟨rs, hrs, r, hr, mv, hmv, rfl⟩ := mem_rowResults.mp hx
    exact h.2.2 rs hrs r hr mv hmv

theorem wf_iff (d : MNTM σ γ) : d.WF ↔ ∀ r, ¬ rules.Violates d r := by
  constructor
  · intro wf r
    cases r <;> simp only [rules, not_exists, not_and, Classical.not_not, not_false_eq_true]
    · exact ⟨wf.head.subset, wf.head.proper⟩
    · exact wf.head.blankOk
    · exact wf.keysOk
    · intro kv hkv s hs
      obtain ⟨rd, hrd, hs'⟩ := List.mem_flatMap.mp hs
      exact wf.readOk kv hkv rd hrd s hs'
    · intro kv hkv r hr; exact ((by obtain ⟨rs, hrs, r0, hr0, mv, hmv, rfl⟩ := mem_rowResults.mp hr; exact wf.resultsOk kv hkv rs hrs r0 hr0 mv hmv : TmResultOk d.states d.tapeSyms Gen.Validate.ntmDirections r)).1
    · intro kv hkv r hr; exact ((by obtain ⟨rs, hrs, r0, hr0, mv, hmv, rfl⟩ := mem_rowResults.mp hr; exact wf.resultsOk kv hkv rs hrs r0 hr0 mv hmv : TmResultOk d.states d.tapeSyms Gen.Validate.ntmDirections r)).2.1
    · intro kv hkv r hr; exact ((by obtain ⟨rs, hrs, r0, hr0, mv, hmv, rfl⟩ := mem_rowResults.mp hr; exact wf.resultsOk kv hkv rs hrs r0 hr0 mv hmv : TmResultOk d.states d.tapeSyms Gen.Validate.ntmDirections r)).2.2
    · exact wf.tail.initOk
    · exact fun h1 => by
        rcases wf.tail.initRow with h' | h'
        · exact absurd h' h1
        · omega
    · exact wf.tail.initNotFinal
    · exact wf.tail.finalsOk
    · exact wf.tail.finalsNoRow
    · rintro (⟨kv, hkv, en, hen, hne⟩ | ⟨kv, hkv, en, hen, r, hr, hne⟩)
      · exact hne (wf.readCount kv hkv en hen)
      · exact hne (wf.moveCount kv hkv en hen r hr)
  · intro h
    have hps : ProperSubset d.syms d.tapeSyms := by simpa [rules] using h .inputNotProperSubset
    have hst : ∀ kv ∈ d.trans, ∀ r ∈ rowResults kv, r.1 ∈ d.states := by
      simpa [rules] using h .unknownResultState
    have hwr : ∀ kv ∈ d.trans, ∀ r ∈ rowResults kv, r.2.1 ∈ d.tapeSyms := by
      simpa [rules] using h .badWriteSymbol
    have hdr : ∀ kv ∈ d.trans, ∀ r ∈ rowResults kv, r.2.2 ∈ Gen.Validate.ntmDirections := by
      simpa [rules] using h .badDirection
    have hrd : ∀ kv ∈ d.trans, ∀ s ∈ rowReads kv, s ∈ d.tapeSyms := by
      simpa [rules] using h .badReadSymbol
    have hnr := h .initialNoRow
    simp only [rules, not_and, Nat.not_lt] at hnr
    refine ⟨?_, ?_, ?_, ?_, ?_, ?_, ?_⟩
    · exact ⟨hps.1, hps.2, by simpa [rules] using h .badBlank⟩
    · simpa [rules] using h .unknownTransitionState
    · intro kv hkv rd hrd' s hs
      exact hrd kv hkv s (List.mem_flatMap.mpr ⟨rd, hrd', hs⟩)
    · intro kv hkv rs hrs r hr mv hmv
      have hmem : (r.1, mv.1, mv.2) ∈ rowResults kv := mem_rowResults.mpr ⟨rs, hrs, r, hr, mv, hmv, rfl⟩
      exact ⟨hst kv hkv _ hmem, hwr kv hkv _ hmem, hdr kv hkv _ hmem⟩
    · refine ⟨by simpa [rules] using h .badInitial, ?_, by simpa [rules] using h .initialIsFinal,
        by simpa [rules] using h .badFinal, by simpa [rules] using h .finalHasTransitions⟩
      by_cases hk : d.init ∈ akeys d.trans
      · exact Or.inl hk
      · exact Or.inr (hnr hk)
    · have := h .badTapeCount
      simp only [rules, not_or, not_exists, not_and, Classical.not_not] at this
      exact this.1
    · have := h .badTapeCount
      simp only [rules, not_or, not_exists, not_and, Classical.not_not] at this
      exact this.2

theorem rules_correct : (rules : RuleSys (MNTM σ γ) TmRule).Correct validate where
  ok_iff d := (validate_eq_ok d).trans (wf_iff d)
  error_kind d e h := by
    unfold validate at h
    rcases Res.andThen_eq_error.mp h with h0 | ⟨ok0, h⟩
    · rcases tmValidateHead_error _ _ _ e h0 with ⟨a, rfl⟩ | ⟨p, a, rfl⟩
      · refine ⟨.inputNotProperSubset, a, rfl, ?_⟩
        intro r' hr'; rw [rules_stage] at hr'; cases r' <;> exact absurd hr' (by decide)
      · have nP : ¬ rules.Violates d .inputNotProperSubset := fun h => h p
        refine ⟨.badBlank, a, rfl, ?_⟩
        intro r' hr'; rw [rules_stage] at hr'; cases r' <;> first | assumption | exact absurd hr' (by decide)
    have hh := (tmValidateHead_eq_ok _ _ _).mp ok0
    have nP : ¬ rules.Violates d .inputNotProperSubset := fun h => h ⟨hh.subset, hh.proper⟩
    have nB : ¬ rules.Violates d .badBlank := fun h => h hh.blankOk
    rcases Res.andThen_eq_error.mp h with h1 | ⟨ok1, h⟩
    · obtain ⟨kv, hkv, hrow⟩ := firstErr_eq_error h1
      have early : ∀ r' : TmRule, (rules : RuleSys (MNTM σ γ) TmRule).stage r' < 2 →
          ¬ rules.Violates d r' := by
        intro r' hr'; rw [rules_stage] at hr'; cases r' <;> first | assumption | exact absurd hr' (by decide)
      rcases validateRow_error d kv e hrow with ⟨a, rfl⟩ | ⟨a, rfl⟩ | ⟨a, rfl⟩ | ⟨a, rfl⟩ | ⟨a, rfl⟩
      · exact ⟨.unknownTransitionState, ⟨kv, hkv, a⟩, rfl, early⟩
      · exact ⟨.badReadSymbol, ⟨kv, hkv, a⟩, rfl, early⟩
      · exact ⟨.unknownResultState, ⟨kv, hkv, a⟩, rfl, early⟩
      · exact ⟨.badWriteSymbol, ⟨kv, hkv, a⟩, rfl, early⟩
      · exact ⟨.badDirection, ⟨kv, hkv, a⟩, rfl, early⟩
    have rows := fun kv hkv => row_ok d kv ((firstErr_eq_ok _ _).mp ok1 kv hkv)
    have nR1 : ¬ rules.Violates d .unknownTransitionState := by
      simp only [rules, not_exists, not_and, Classical.not_not]
      intro kv hkv; exact (rows kv hkv).1
    have nR2 : ¬ rules.Violates d .badReadSymbol := by
      simp only [rules, not_exists, not_and, Classical.not_not]
      intro kv hkv s hs; exact (rows kv hkv).2.1 s hs
    have nR3 : ¬ rules.Violates d .unknownResultState := by
      simp only [rules, not_exists, not_and, Classical.not_not]
      intro kv hkv r hr; exact ((rows kv hkv).2.2 r hr).1
    have nR4 : ¬ rules.Violates d .badWriteSymbol := by
      simp only [rules, not_exists, not_and, Classical.not_not]
      intro kv hkv r hr; exact ((rows kv hkv).2.2 r hr).2.1
    have nR5 : ¬ rules.Violates d .badDirection := by
      simp only [rules, not_exists, not_and, Classical.not_not]
      intro kv hkv r hr; exact ((rows kv hkv).2.2 r hr).2.2
    rcases Res.andThen_eq_error.mp h with h2 | ⟨ok2, h⟩
    · have h := h2
      rcases tmValidateTail_error _ _ _ _ e h with ⟨a, rfl⟩ | ⟨p0, a, rfl⟩ | ⟨p0, p1, a, rfl⟩ | ⟨p0, p1, p2, a, rfl⟩ | ⟨p0, p1, p2, p3, a, rfl⟩
      · refine ⟨.badInitial, a, rfl, ?_⟩
        intro r' hr'; rw [rules_stage] at hr'; cases r' <;> first | assumption | exact absurd hr' (by decide)
      · have nI : ¬ rules.Violates d .badInitial := fun h => h p0
        refine ⟨.initialNoRow, a, rfl, ?_⟩
        intro r' hr'; rw [rules_stage] at hr'; cases r' <;> first | assumption | exact absurd hr' (by decide)
      · have nI : ¬ rules.Violates d .badInitial := fun h => h p0
        have nN : ¬ rules.Violates d .initialNoRow := not_initialNoRow p1
        refine ⟨.initialIsFinal, a, rfl, ?_⟩
        intro r' hr'; rw [rules_stage] at hr'; cases r' <;> first | assumption | exact absurd hr' (by decide)
      · have nI : ¬ rules.Violates d .badInitial := fun h => h p0
        have nN : ¬ rules.Violates d .initialNoRow := not_initialNoRow p1
        have nF : ¬ rules.Violates d .initialIsFinal := fun h => p2 h
        refine ⟨.badFinal, a, rfl, ?_⟩
        intro r' hr'; rw [rules_stage] at hr'; cases r' <;> first | assumption | exact absurd hr' (by decide)
      · have nI : ¬ rules.Violates d .badInitial := fun h => h p0
        have nN : ¬ rules.Violates d .initialNoRow := not_initialNoRow p1
        have nF : ¬ rules.Violates d .initialIsFinal := fun h => p2 h
        have nG : ¬ rules.Violates d .badFinal := by
          simp only [rules, not_exists, not_and, Classical.not_not]; exact p3
        refine ⟨.finalHasTransitions, a, rfl, ?_⟩
        intro r' hr'; rw [rules_stage] at hr'; cases r' <;> first | assumption | exact absurd hr' (by decide)
    have ht := (tmValidateTail_eq_ok _ _ _ _).mp ok2
    have nI : ¬ rules.Violates d .badInitial := fun h => h ht.initOk
    have nN : ¬ rules.Violates d .initialNoRow := not_initialNoRow ht.initRow
    have nF : ¬ rules.Violates d .initialIsFinal := fun h => ht.initNotFinal h
    have nG : ¬ rules.Violates d .badFinal := by
      simp only [rules, not_exists, not_and, Classical.not_not]; exact ht.finalsOk
    have nH : ¬ rules.Violates d .finalHasTransitions := by
      simp only [rules, not_exists, not_and]; exact ht.finalsNoRow
    have hv : rules.Violates d .badTapeCount := by
      unfold validateTapes at h
      obtain ⟨kv, hkv, hg⟩ := firstErr_eq_error h
      obtain ⟨en, hen, hg⟩ := firstErr_eq_error hg
      rcases Res.andThen_eq_error.mp hg with h3 | ⟨_, hg⟩
      · obtain ⟨hc, _⟩ := guardE_eq_error.mp h3
        exact Or.inl ⟨kv, hkv, en, hen, by simpa using hc⟩
      · obtain ⟨r, hr, hg⟩ := firstErr_eq_error hg
        obtain ⟨hc, _⟩ := guardE_eq_error.mp hg
        exact Or.inr ⟨kv, hkv, en, hen, r, hr, by simpa using hc⟩
    have he : e = .lib .inconsistentTapesException := by
      unfold validateTapes at h
      obtain ⟨kv, hkv, hg⟩ := firstErr_eq_error h
      obtain ⟨en, hen, hg⟩ := firstErr_eq_error hg
      rcases Res.andThen_eq_error.mp hg with h3 | ⟨_, hg⟩
      · exact (guardE_eq_error.mp h3).2
      · obtain ⟨r, hr, hg⟩ := firstErr_eq_error hg
        exact (guardE_eq_error.mp hg).2
    refine ⟨.badTapeCount, hv, he, ?_⟩
    intro r' hr'; rw [rules_stage] at hr'; cases r' <;> first | assumption | exact absurd hr' (by decide)


end MNTM

end AV.VA
