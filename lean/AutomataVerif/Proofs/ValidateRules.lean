/-
Proofs/ValidateRules.lean — the documented validation rules of the eight classes as rule
systems: documented exception class (`kind`), position of the check in `validate` (`stage`),
and what it means for a definition to break the rule (`Violates`).  For every class:
`validate d = ok ↔ no rule is violated`, and an error raised by `validate` is the documented
class of a violated rule, no rule of an earlier stage being violated (core only).
-/
import AutomataVerif.Proofs.ValidateAll

namespace AV

set_option linter.unusedSectionVars false

variable {σ α γ : Type} [DecidableEq σ] [DecidableEq α] [DecidableEq γ]

/-- A rule system: documented exception class and position of the check in `validate`. -/
structure RuleSys (δ ρ : Type) where
  kind : ρ → Gen.Err
  stage : ρ → Nat
  Violates : δ → ρ → Prop

/-- `validate` is sound and complete for the rule system and raises, in the order of its
stages, the documented class of a violated rule. -/
structure RuleSys.Correct {δ ρ : Type} (S : RuleSys δ ρ) (validate : δ → Res Unit) : Prop where
  ok_iff : ∀ d, validate d = .ok () ↔ ∀ r, ¬ S.Violates d r
  error_kind : ∀ d e, validate d = .error e →
    ∃ r, S.Violates d r ∧ e = .lib (S.kind r) ∧ ∀ r', S.stage r' < S.stage r → ¬ S.Violates d r'

theorem RuleSys.Correct.corrupt_raises {δ ρ : Type} {S : RuleSys δ ρ} {validate : δ → Res Unit}
    (hc : S.Correct validate) (d : δ) (r : ρ) (hv : S.Violates d r)
    (hother : ∀ r', S.Violates d r' → S.kind r' = S.kind r ∨ S.stage r < S.stage r') :
    validate d = .error (.lib (S.kind r)) := by
  have hne : validate d ≠ .ok () := fun h => (hc.ok_iff d).mp h r hv
  obtain ⟨e, he⟩ := Res.ne_ok_iff.mp hne
  obtain ⟨r0, hv0, rfl, hmin⟩ := hc.error_kind d e he
  rw [he]
  rcases hother r0 hv0 with h | hlt
  · rw [h]
  · exact absurd hv (hmin r hlt)

namespace DFA
inductive Rule | missingRow | missingSymbol | unknownSymbol | unknownEndState | badInitial | badFinal
  deriving DecidableEq, Repr

def rules : RuleSys (DFA σ α) Rule where
  kind
    | .missingRow => .missingStateError
    | .missingSymbol => .missingSymbolError
    | .unknownSymbol => .invalidSymbolError
    | .unknownEndState => .invalidStateError
    | .badInitial => .invalidStateError
    | .badFinal => .invalidStateError
  stage
    | .missingRow => 0
    | .missingSymbol => 1
    | .unknownSymbol => 1
    | .unknownEndState => 1
    | .badInitial => 2
    | .badFinal => 3
  Violates d
    | .missingRow => ∃ q ∈ d.states, q ∉ akeys d.trans
    | .missingSymbol => d.allowPartial = false ∧ ∃ kv ∈ d.trans, ∃ a ∈ d.syms, a ∉ akeys kv.2
    | .unknownSymbol => ∃ kv ∈ d.trans, ∃ a ∈ akeys kv.2, a ∉ d.syms
    | .unknownEndState => ∃ kv ∈ d.trans, ∃ q ∈ avals kv.2, q ∉ d.states
    | .badInitial => d.init ∉ d.states
    | .badFinal => ∃ q ∈ d.finals, q ∉ d.states

theorem wf_iff (d : DFA σ α) : d.WF ↔ ∀ r, ¬ rules.Violates d r := by
  constructor
  · intro wf r
    cases r <;> simp only [rules, not_exists, not_and, Classical.not_not]
    · exact wf.rows
    · intro hp kv hkv a ha; exact wf.complete hp kv hkv a ha
    · exact wf.symsOk
    · exact wf.tgtOk
    · exact wf.initOk
    · exact wf.finalsOk
  · intro h
    refine ⟨?_, ?_, ?_, ?_, ?_, ?_⟩
    · simpa [rules] using h .missingRow
    · have := h .missingSymbol
      simp only [rules, not_and, not_exists, Classical.not_not] at this
      exact this
    · simpa [rules] using h .unknownSymbol
    · simpa [rules] using h .unknownEndState
    · simpa [rules] using h .badInitial
    · simpa [rules] using h .badFinal

theorem validateRow_error (d : DFA σ α) (paths : List (α × σ)) (e : Exn)
    (h : d.validateRow paths = .error e) :
    (d.allowPartial = false ∧ (∃ a ∈ d.syms, a ∉ akeys paths) ∧ e = .lib .missingSymbolError) ∨
    ((∃ a ∈ akeys paths, a ∉ d.syms) ∧ e = .lib .invalidSymbolError) ∨
    ((∃ q ∈ avals paths, q ∉ d.states) ∧ e = .lib .invalidStateError) := by
  unfold validateRow at h
  rcases Res.andThen_eq_error.mp h with h0 | ⟨_, h⟩
  · left
    cases hp : d.allowPartial with
    | true => simp [hp] at h0
    | false =>
      simp only [hp] at h0
      obtain ⟨a, ha, hg⟩ := firstErr_eq_error h0
      obtain ⟨hc, rfl⟩ := guardE_eq_error.mp hg
      exact ⟨rfl, ⟨a, ha, by simpa [← ahas_iff, Bool.not_eq_true] using hc⟩, rfl⟩
  rcases Res.andThen_eq_error.mp h with h1 | ⟨_, h⟩
  · right; left
    obtain ⟨a, ha, hg⟩ := firstErr_eq_error h1
    obtain ⟨hc, rfl⟩ := guardE_eq_error.mp hg
    exact ⟨⟨a, ha, by simpa using hc⟩, rfl⟩
  · right; right
    obtain ⟨q, hq, hg⟩ := firstErr_eq_error h
    obtain ⟨hc, rfl⟩ := guardE_eq_error.mp hg
    exact ⟨⟨q, hq, by simpa using hc⟩, rfl⟩

theorem rules_correct : (rules : RuleSys (DFA σ α) Rule).Correct validate where
  ok_iff d := (validate_eq_ok d).trans (wf_iff d)
  error_kind d e h := by
    unfold validate at h
    rcases Res.andThen_eq_error.mp h with h0 | ⟨ok0, h⟩
    · unfold validateStartStates at h0
      obtain ⟨q, hq, hg⟩ := firstErr_eq_error h0
      obtain ⟨hc, rfl⟩ := guardE_eq_error.mp hg
      refine ⟨.missingRow, ⟨q, hq, by simpa [← ahas_iff, Bool.not_eq_true] using hc⟩, rfl, ?_⟩
      intro r' hr'; cases r' <;> simp [rules] at hr'
    have n0 : ¬ rules.Violates d .missingRow := by
      unfold validateStartStates at ok0
      simp only [firstErr_eq_ok, guardE_eq_ok, ahas_iff] at ok0
      simpa [rules] using ok0
    rcases Res.andThen_eq_error.mp h with h1 | ⟨ok1, h⟩
    · obtain ⟨kv, hkv, hrow⟩ := firstErr_eq_error h1
      rcases validateRow_error d kv.2 e hrow with ⟨hp, ⟨a, ha, hna⟩, rfl⟩ | ⟨⟨a, ha, hna⟩, rfl⟩ | ⟨⟨q, hq, hnq⟩, rfl⟩
      · refine ⟨.missingSymbol, ⟨hp, kv, hkv, a, ha, hna⟩, rfl, ?_⟩
        intro r' hr'; cases r' <;> simp [rules] at hr' <;> exact n0
      · refine ⟨.unknownSymbol, ⟨kv, hkv, a, ha, hna⟩, rfl, ?_⟩
        intro r' hr'; cases r' <;> simp [rules] at hr' <;> exact n0
      · refine ⟨.unknownEndState, ⟨kv, hkv, q, hq, hnq⟩, rfl, ?_⟩
        intro r' hr'; cases r' <;> simp [rules] at hr' <;> exact n0
    have n1 : ¬ rules.Violates d .missingSymbol ∧ ¬ rules.Violates d .unknownSymbol ∧
        ¬ rules.Violates d .unknownEndState := by
      simp only [firstErr_eq_ok, validateRow_eq_ok] at ok1
      refine ⟨?_, ?_, ?_⟩ <;> simp only [rules, not_and, not_exists, Classical.not_not]
      · intro hp kv hkv a ha; exact (ok1 kv hkv).1 hp a ha
      · intro kv hkv a ha; exact (ok1 kv hkv).2.1 a ha
      · intro kv hkv q hq; exact (ok1 kv hkv).2.2 q hq
    rcases Res.andThen_eq_error.mp h with h2 | ⟨ok2, h⟩
    · obtain ⟨hc, rfl⟩ := guardE_eq_error.mp h2
      refine ⟨.badInitial, by simpa [rules] using hc, rfl, ?_⟩
      intro r' hr'; cases r' <;> simp [rules] at hr'
      · exact n0
      · exact n1.1
      · exact n1.2.1
      · exact n1.2.2
    · obtain ⟨hc, rfl⟩ := guardE_eq_error.mp h
      have hv : rules.Violates d .badFinal := by
        have : ¬ ∀ q ∈ d.finals, q ∈ d.states := by
          intro hall
          have : (d.finals.all fun q => decide (q ∈ d.states)) = true := by simpa using hall
          rw [this] at hc; cases hc
        simpa [rules] using this
      refine ⟨.badFinal, hv, rfl, ?_⟩
      intro r' hr'; cases r' <;> simp [rules] at hr'
      · exact n0
      · exact n1.1
      · exact n1.2.1
      · exact n1.2.2
      · have := guardE_eq_ok.mp ok2
        simpa [rules] using this

end DFA
namespace NFA
inductive Rule | unknownSymbol | unknownEndState | badInitial | initialNoRow | badFinal
  deriving DecidableEq, Repr

def rules : RuleSys (NFA σ α) Rule where
  kind
    | .unknownSymbol => .invalidSymbolError
    | .unknownEndState => .invalidStateError
    | .badInitial => .invalidStateError
    | .initialNoRow => .missingStateError
    | .badFinal => .invalidStateError
  stage
    | .unknownSymbol => 0
    | .unknownEndState => 0
    | .badInitial => 1
    | .initialNoRow => 2
    | .badFinal => 3
  Violates n
    | .unknownSymbol => ∃ kv ∈ n.trans, ∃ a, some a ∈ akeys kv.2 ∧ a ∉ n.syms
    | .unknownEndState => ∃ kv ∈ n.trans, ∃ ts ∈ avals kv.2, ∃ q ∈ ts, q ∉ n.states
    | .badInitial => n.init ∉ n.states
    | .initialNoRow => n.init ∉ akeys n.trans ∧ 1 < n.states.length
    | .badFinal => ∃ q ∈ n.finals, q ∉ n.states

theorem wf_iff (n : NFA σ α) : n.WF ↔ ∀ r, ¬ rules.Violates n r := by
  constructor
  · intro wf r
    cases r <;> simp only [rules, not_exists, not_and, Classical.not_not]
    · exact wf.symsOk
    · exact wf.tgtOk
    · exact wf.initOk
    · intro h; rcases wf.initRow with h' | h'
      · exact absurd h' h
      · omega
    · exact wf.finalsOk
  · intro h
    refine ⟨?_, ?_, ?_, ?_, ?_⟩
    · simpa [rules] using h .unknownSymbol
    · simpa [rules] using h .unknownEndState
    · simpa [rules] using h .badInitial
    · have := h .initialNoRow
      simp only [rules, not_and, Nat.not_lt] at this
      by_cases hk : n.init ∈ akeys n.trans
      · exact Or.inl hk
      · exact Or.inr (this hk)
    · simpa [rules] using h .badFinal

theorem validateRow_error (n : NFA σ α) (paths : List (Option α × List σ)) (e : Exn)
    (h : n.validateRow paths = .error e) :
    ((∃ a, some a ∈ akeys paths ∧ a ∉ n.syms) ∧ e = .lib .invalidSymbolError) ∨
    ((∃ ts ∈ avals paths, ∃ q ∈ ts, q ∉ n.states) ∧ e = .lib .invalidStateError) := by
  unfold validateRow at h
  rcases Res.andThen_eq_error.mp h with h0 | ⟨_, h⟩
  · left
    obtain ⟨a, ha, hg⟩ := firstErr_eq_error h0
    cases a with
    | none => simp at hg
    | some a =>
      obtain ⟨hc, rfl⟩ := guardE_eq_error.mp hg
      exact ⟨⟨a, ha, by simpa using hc⟩, rfl⟩
  · right
    obtain ⟨ts, hts, hg⟩ := firstErr_eq_error h
    obtain ⟨q, hq, hg⟩ := firstErr_eq_error hg
    obtain ⟨hc, rfl⟩ := guardE_eq_error.mp hg
    exact ⟨⟨ts, hts, q, hq, by simpa using hc⟩, rfl⟩

theorem rules_correct : (rules : RuleSys (NFA σ α) Rule).Correct validate where
  ok_iff n := (validate_eq_ok n).trans (wf_iff n)
  error_kind n e h := by
    unfold validate at h
    rcases Res.andThen_eq_error.mp h with h0 | ⟨ok0, h⟩
    · obtain ⟨kv, hkv, hrow⟩ := firstErr_eq_error h0
      rcases validateRow_error n kv.2 e hrow with ⟨⟨a, ha, hna⟩, rfl⟩ | ⟨⟨ts, hts, q, hq, hnq⟩, rfl⟩
      · refine ⟨.unknownSymbol, ⟨kv, hkv, a, ha, hna⟩, rfl, ?_⟩
        intro r' hr'; cases r' <;> simp [rules] at hr'
      · refine ⟨.unknownEndState, ⟨kv, hkv, ts, hts, q, hq, hnq⟩, rfl, ?_⟩
        intro r' hr'; cases r' <;> simp [rules] at hr'
    have n0a : ¬ rules.Violates n .unknownSymbol := by
      simp only [firstErr_eq_ok, validateRow_eq_ok] at ok0
      simp only [rules, not_exists, not_and, Classical.not_not]
      intro kv hkv a ha; exact (ok0 kv hkv).1 a ha
    have n0b : ¬ rules.Violates n .unknownEndState := by
      simp only [firstErr_eq_ok, validateRow_eq_ok] at ok0
      simp only [rules, not_exists, not_and, Classical.not_not]
      intro kv hkv ts hts q hq; exact (ok0 kv hkv).2 ts hts q hq
    rcases Res.andThen_eq_error.mp h with h1 | ⟨ok1, h⟩
    · obtain ⟨hc, rfl⟩ := guardE_eq_error.mp h1
      refine ⟨.badInitial, by simpa [rules] using hc, rfl, ?_⟩
      intro r' hr'; cases r' <;> simp [rules] at hr' <;> assumption
    have n1 : ¬ rules.Violates n .badInitial := by
      have := guardE_eq_ok.mp ok1
      simpa [rules] using this
    rcases Res.andThen_eq_error.mp h with h2 | ⟨ok2, h⟩
    · obtain ⟨hc, rfl⟩ := guardE_eq_error.mp h2
      have hv : rules.Violates n .initialNoRow := by
        rw [Bool.or_eq_false_iff] at hc
        refine ⟨?_, ?_⟩
        · intro hk; rw [ahas_iff.mpr hk] at hc; exact absurd hc.1 (by simp)
        · have := hc.2; simp only [decide_eq_false_iff_not, Nat.not_le] at this; exact this
      refine ⟨.initialNoRow, hv, rfl, ?_⟩
      intro r' hr'; cases r' <;> simp [rules] at hr' <;> assumption
    have n2 : ¬ rules.Violates n .initialNoRow := by
      have := guardE_eq_ok.mp ok2
      simp only [Bool.or_eq_true, decide_eq_true_eq, ahas_iff] at this
      simp only [rules, not_and, Nat.not_lt]
      intro hk; rcases this with h' | h'
      · exact absurd h' hk
      · exact h'
    obtain ⟨hc, rfl⟩ := guardE_eq_error.mp h
    have hv : rules.Violates n .badFinal := by
      have : ¬ ∀ q ∈ n.finals, q ∈ n.states := by
        intro hall
        have : (n.finals.all fun q => decide (q ∈ n.states)) = true := by simpa using hall
        rw [this] at hc; cases hc
      simpa [rules] using this
    refine ⟨.badFinal, hv, rfl, ?_⟩
    intro r' hr'; cases r' <;> simp [rules] at hr' <;> assumption

end NFA

namespace GNFA
inductive Rule
  | badInitial | badFinal | initialEqualsFinal | missingRow
  | malformedLabel | labelLexerError | finalHasTransitions | missingEntry | unknownEndState
  | transitionIntoInitial | initialNoRow
  deriving DecidableEq, Repr

/-- A label the constructor rejects as malformed: it uses a character outside the input
symbols and `* | ( ) ?` (and is not empty), or the regex validator says it is invalid. -/
def Malformed (g : GNFA σ α) (l : GLabel α) : Prop :=
  ((∃ c ∈ l.chars, g.charOk c = false) ∧ l.chars ≠ []) ∨ l.verdict = .invalid

def rules : RuleSys (GNFA σ α) Rule where
  kind
    | .badInitial => .invalidStateError
    | .badFinal => .invalidStateError
    | .initialEqualsFinal => .invalidStateError
    | .missingRow => .missingStateError
    | .malformedLabel => .invalidRegexError
    | .labelLexerError => .lexerError
    | .finalHasTransitions => .invalidStateError
    | .missingEntry => .missingStateError
    | .unknownEndState => .invalidStateError
    | .transitionIntoInitial => .invalidStateError
    | .initialNoRow => .missingStateError
  stage
    | .badInitial => 0
    | .badFinal => 1
    | .initialEqualsFinal => 2
    | .missingRow => 3
    | .malformedLabel => 4
    | .labelLexerError => 4
    | .finalHasTransitions => 4
    | .missingEntry => 4
    | .unknownEndState => 4
    | .transitionIntoInitial => 4
    | .initialNoRow => 5
  Violates g
    | .badInitial => g.init ∉ g.states
    | .badFinal => g.final ∉ g.states
    | .initialEqualsFinal => g.init = g.final
    | .missingRow => ∃ q ∈ g.states, q ≠ g.final ∧ q ∉ akeys g.trans
    | .malformedLabel => ∃ kv ∈ g.trans, ∃ l, some l ∈ avals kv.2 ∧ g.Malformed l
    | .labelLexerError => ∃ kv ∈ g.trans, ∃ l, some l ∈ avals kv.2 ∧ l.verdict = .lexerError
    | .finalHasTransitions => ∃ kv ∈ g.trans, kv.1 = g.final ∧ kv.2 ≠ []
    | .missingEntry => ∃ kv ∈ g.trans, kv.1 ≠ g.final ∧ ∃ q ∈ g.states, q ∉ akeys kv.2 ∧ q ≠ g.init
    | .unknownEndState => ∃ kv ∈ g.trans, ∃ q ∈ akeys kv.2, q ∉ g.states
    | .transitionIntoInitial => ∃ kv ∈ g.trans, g.entersInit kv.2 = true
    | .initialNoRow => g.init ∉ akeys g.trans ∧ 1 < g.states.length

theorem labelOk_iff (g : GNFA σ α) (l : GLabel α) :
    g.LabelOk (some l) ↔ ¬ g.Malformed l ∧ l.verdict ≠ .lexerError := by
  unfold LabelOk Malformed
  constructor
  · rintro ⟨h1, h2⟩
    refine ⟨?_, by simp [h2]⟩
    rintro (⟨⟨c, hc, hbad⟩, hne⟩ | h)
    · rcases h1 with h1 | h1
      · rw [h1 c hc] at hbad; cases hbad
      · exact hne h1
    · rw [h2] at h; cases h
  · rintro ⟨h1, h2⟩
    refine ⟨?_, ?_⟩
    · by_cases he : l.chars = []
      · exact Or.inr he
      · left
        intro c hc
        cases hcc : g.charOk c with
        | true => rfl
        | false => exact absurd (Or.inl ⟨⟨c, hc, hcc⟩, he⟩) h1
    · cases hv : l.verdict with
      | valid => rfl
      | invalid => exact absurd (Or.inr hv) h1
      | lexerError => exact absurd hv h2

theorem wf_iff (g : GNFA σ α) : g.WF ↔ ∀ r, ¬ rules.Violates g r := by
  constructor
  · intro wf r
    cases r <;> simp only [rules, not_exists, not_and, Classical.not_not]
    · exact wf.initOk
    · exact wf.finalOk
    · exact wf.distinct
    · intro q hq hne; rcases wf.rows q hq with h | h
      · exact absurd h hne
      · exact h
    · intro kv hkv l hl; exact ((labelOk_iff g l).mp (wf.labelsOk kv hkv _ hl)).1
    · intro kv hkv l hl; exact ((labelOk_iff g l).mp (wf.labelsOk kv hkv _ hl)).2
    · exact wf.finalRowEmpty
    · intro kv hkv hne q hq hnk; rcases wf.complete kv hkv hne q hq with h | h
      · exact absurd h hnk
      · exact h
    · exact wf.tgtOk
    · intro kv hkv; simpa using wf.noEnter kv hkv
    · intro h; rcases wf.initRow with h' | h'
      · exact absurd h' h
      · omega
  · intro h
    refine ⟨?_, ?_, ?_, ?_, ?_, ?_, ?_, ?_, ?_, ?_⟩
    · simpa [rules] using h .badInitial
    · simpa [rules] using h .badFinal
    · simpa [rules] using h .initialEqualsFinal
    · have := h .missingRow
      simp only [rules, not_exists, not_and, Classical.not_not] at this
      intro q hq
      by_cases hf : q = g.final
      · exact Or.inl hf
      · exact Or.inr (this q hq hf)
    · intro kv hkv l hl
      cases l with
      | none => trivial
      | some l =>
        have h1 := h .malformedLabel
        have h2 := h .labelLexerError
        simp only [rules, not_exists, not_and] at h1 h2
        exact (labelOk_iff g l).mpr ⟨h1 kv hkv l hl, h2 kv hkv l hl⟩
    · have := h .finalHasTransitions
      simp only [rules, not_exists, not_and, Classical.not_not] at this
      exact this
    · have := h .missingEntry
      simp only [rules, not_exists, not_and, Classical.not_not] at this
      intro kv hkv hne q hq
      by_cases hk : q ∈ akeys kv.2
      · exact Or.inl hk
      · exact Or.inr (this kv hkv hne q hq hk)
    · simpa [rules] using h .unknownEndState
    · have := h .transitionIntoInitial
      simp only [rules, not_exists, not_and, Bool.not_eq_true] at this
      exact this
    · have := h .initialNoRow
      simp only [rules, not_and, Nat.not_lt] at this
      by_cases hk : g.init ∈ akeys g.trans
      · exact Or.inl hk
      · exact Or.inr (this hk)

theorem validateLabel_error (g : GNFA σ α) (l : Option (GLabel α)) (e : Exn)
    (h : g.validateLabel l = .error e) :
    ∃ l', l = some l' ∧ ((g.Malformed l' ∧ e = .lib .invalidRegexError) ∨
      (l'.verdict = .lexerError ∧ e = .lib .lexerError)) := by
  cases l with
  | none => simp [validateLabel] at h
  | some l =>
    refine ⟨l, rfl, ?_⟩
    simp only [validateLabel] at h
    by_cases hbad : ((!(l.chars.all g.charOk)) && !l.chars.isEmpty) = true
    · left
      rw [if_pos hbad] at h
      cases h
      simp only [Bool.and_eq_true, Bool.not_eq_true', List.all_eq_false, Bool.not_eq_true,
        List.isEmpty_eq_false_iff] at hbad
      exact ⟨Or.inl ⟨by simpa using hbad.1, hbad.2⟩, rfl⟩
    · rw [if_neg hbad] at h
      cases hv : l.verdict with
      | valid => rw [hv] at h; cases h
      | invalid => rw [hv] at h; cases h; exact Or.inl ⟨Or.inr hv, rfl⟩
      | lexerError => rw [hv] at h; cases h; exact Or.inr ⟨rfl, rfl⟩

theorem validateEndStates_error (g : GNFA σ α) (start : σ) (paths : List (σ × Option (GLabel α)))
    (e : Exn) (h : g.validateEndStates start paths = .error e) :
    (start = g.final ∧ paths ≠ [] ∧ e = .lib .invalidStateError) ∨
    (start ≠ g.final ∧ (∃ q ∈ g.states, q ∉ akeys paths ∧ q ≠ g.init) ∧ e = .lib .missingStateError) ∨
    ((∃ q ∈ akeys paths, q ∉ g.states) ∧ e = .lib .invalidStateError) := by
  unfold validateEndStates at h
  rcases Res.andThen_eq_error.mp h with h0 | ⟨_, h⟩
  · by_cases hs : start = g.final
    · left
      simp only [hs, if_true] at h0
      obtain ⟨hc, rfl⟩ := guardE_eq_error.mp h0
      exact ⟨hs, by simpa [List.isEmpty_iff] using hc, rfl⟩
    · right; left
      simp only [hs, if_false] at h0
      obtain ⟨hc, rfl⟩ := guardE_eq_error.mp h0
      refine ⟨hs, ?_, rfl⟩
      unfold rowComplete at hc
      simp only [List.all_eq_false, Bool.or_eq_true, decide_eq_true_eq, not_or, ahas_iff'] at hc
      exact hc
  · right; right
    obtain ⟨q, hq, hg⟩ := firstErr_eq_error h
    obtain ⟨hc, rfl⟩ := guardE_eq_error.mp hg
    exact ⟨⟨q, hq, by simpa using hc⟩, rfl⟩

theorem rules_correct : (rules : RuleSys (GNFA σ α) Rule).Correct validate where
  ok_iff g := (validate_eq_ok g).trans (wf_iff g)
  error_kind g e h := by
    unfold validate at h
    rcases Res.andThen_eq_error.mp h with h0 | ⟨ok0, h⟩
    · obtain ⟨hc, rfl⟩ := guardE_eq_error.mp h0
      refine ⟨.badInitial, by simpa [rules] using hc, rfl, ?_⟩
      intro r' hr'; cases r' <;> simp [rules] at hr'
    have n0 : ¬ rules.Violates g .badInitial := by
      have := guardE_eq_ok.mp ok0; simpa [rules] using this
    rcases Res.andThen_eq_error.mp h with h1 | ⟨ok1, h⟩
    · obtain ⟨hc, rfl⟩ := guardE_eq_error.mp h1
      refine ⟨.badFinal, by simpa [rules] using hc, rfl, ?_⟩
      intro r' hr'; cases r' <;> simp [rules] at hr' <;> assumption
    have n1 : ¬ rules.Violates g .badFinal := by
      have := guardE_eq_ok.mp ok1; simpa [rules] using this
    rcases Res.andThen_eq_error.mp h with h2 | ⟨ok2, h⟩
    · obtain ⟨hc, rfl⟩ := guardE_eq_error.mp h2
      refine ⟨.initialEqualsFinal, by simpa [rules] using hc, rfl, ?_⟩
      intro r' hr'; cases r' <;> simp [rules] at hr' <;> assumption
    have n2 : ¬ rules.Violates g .initialEqualsFinal := by
      have := guardE_eq_ok.mp ok2; simpa [rules] using this
    rcases Res.andThen_eq_error.mp h with h3 | ⟨ok3, h⟩
    · obtain ⟨q, hq, hg⟩ := firstErr_eq_error h3
      obtain ⟨hc, rfl⟩ := guardE_eq_error.mp hg
      have hv : rules.Violates g .missingRow := by
        simp only [Bool.or_eq_false_iff, decide_eq_false_iff_not, ahas_eq_false'] at hc
        exact ⟨q, hq, hc.1, hc.2⟩
      refine ⟨.missingRow, hv, rfl, ?_⟩
      intro r' hr'; cases r' <;> simp [rules] at hr' <;> assumption
    have n3 : ¬ rules.Violates g .missingRow := by
      simp only [firstErr_eq_ok, guardE_eq_ok, Bool.or_eq_true, decide_eq_true_eq, ahas_iff'] at ok3
      simp only [rules, not_exists, not_and, Classical.not_not]
      intro q hq hne; rcases ok3 q hq with h' | h'
      · exact absurd h' hne
      · exact h'
    rcases Res.andThen_eq_error.mp h with h4 | ⟨ok4, h⟩
    · obtain ⟨kv, hkv, hrow⟩ := firstErr_eq_error h4
      have early : ∀ r' : Rule, (rules : RuleSys (GNFA σ α) Rule).stage r' < 4 → ¬ rules.Violates g r' := by
        intro r' hr'; cases r' <;> simp [rules] at hr' <;> assumption
      rcases Res.andThen_eq_error.mp hrow with hl | ⟨_, hrow⟩
      · obtain ⟨l, hl', hlab⟩ := firstErr_eq_error hl
        obtain ⟨l', rfl, (⟨hm, rfl⟩ | ⟨hm, rfl⟩)⟩ := validateLabel_error g l e hlab
        · exact ⟨.malformedLabel, ⟨kv, hkv, l', hl', hm⟩, rfl, early⟩
        · exact ⟨.labelLexerError, ⟨kv, hkv, l', hl', hm⟩, rfl, early⟩
      rcases Res.andThen_eq_error.mp hrow with he | ⟨_, hrow⟩
      · rcases validateEndStates_error g kv.1 kv.2 e he with ⟨a, b, rfl⟩ | ⟨a, b, rfl⟩ | ⟨b, rfl⟩
        · exact ⟨.finalHasTransitions, ⟨kv, hkv, a, b⟩, rfl, early⟩
        · exact ⟨.missingEntry, ⟨kv, hkv, a, b⟩, rfl, early⟩
        · exact ⟨.unknownEndState, ⟨kv, hkv, b⟩, rfl, early⟩
      · obtain ⟨hc, rfl⟩ := guardE_eq_error.mp hrow
        refine ⟨.transitionIntoInitial, ⟨kv, hkv, ?_⟩, rfl, early⟩
        simpa using hc
    · obtain ⟨hc, rfl⟩ := guardE_eq_error.mp h
      have hv : rules.Violates g .initialNoRow := by
        rw [Bool.or_eq_false_iff] at hc
        refine ⟨?_, ?_⟩
        · intro hk; rw [ahas_iff'.mpr hk] at hc; exact absurd hc.1 (by simp)
        · have := hc.2; simp only [decide_eq_false_iff_not, Nat.not_le] at this; exact this
      refine ⟨.initialNoRow, hv, rfl, ?_⟩
      have wfrows := ok4
      simp only [firstErr_eq_ok, Res.andThen_eq_ok, validateLabel_eq_ok, validateEndStates_eq_ok,
        guardE_eq_ok, Bool.not_eq_true'] at wfrows
      intro r' hr'
      cases r' <;> simp [rules] at hr' <;> try assumption
      all_goals simp only [rules, not_exists, not_and, Classical.not_not]
      · intro kv hkv l hl; exact ((labelOk_iff g l).mp ((wfrows kv hkv).1 _ hl)).1
      · intro kv hkv l hl; exact ((labelOk_iff g l).mp ((wfrows kv hkv).1 _ hl)).2
      · intro kv hkv; exact (wfrows kv hkv).2.1.1
      · intro kv hkv hne q hq hnk; rcases (wfrows kv hkv).2.1.2.1 hne q hq with h' | h'
        · exact absurd h' hnk
        · exact h'
      · intro kv hkv; exact (wfrows kv hkv).2.1.2.2
      · intro kv hkv; simpa using (wfrows kv hkv).2.2

end GNFA

/-! ## PDA -/

inductive PdaRule
  | unknownInputSymbol | nondeterministic | unknownStackSymbol
  | badInitial | badInitialStackSymbol | badFinal | badAcceptanceMode
  deriving DecidableEq, Repr

def PdaRule.kind : PdaRule → Gen.Err
  | .unknownInputSymbol => .invalidSymbolError
  | .nondeterministic => .nondeterminismError
  | .unknownStackSymbol => .invalidSymbolError
  | .badInitial => .invalidStateError
  | .badInitialStackSymbol => .invalidSymbolError
  | .badFinal => .invalidStateError
  | .badAcceptanceMode => .invalidAcceptanceModeError

def PdaRule.stage : PdaRule → Nat
  | .unknownInputSymbol => 0
  | .nondeterministic => 0
  | .unknownStackSymbol => 0
  | .badInitial => 1
  | .badInitialStackSymbol => 2
  | .badFinal => 3
  | .badAcceptanceMode => 4

/-- Which tail check fails first, together with the fact that the earlier ones passed. -/
theorem pdaValidateTail_error (states : List σ) (stackSyms : List γ) (init : σ) (initStack : γ)
    (finals : List σ) (mode : String) (e : Exn)
    (h : pdaValidateTail states stackSyms init initStack finals mode = .error e) :
    (init ∉ states ∧ e = .lib .invalidStateError) ∨
    (init ∈ states ∧ initStack ∉ stackSyms ∧ e = .lib .invalidSymbolError) ∨
    (init ∈ states ∧ initStack ∈ stackSyms ∧ (∃ q ∈ finals, q ∉ states) ∧ e = .lib .invalidStateError) ∨
    (init ∈ states ∧ initStack ∈ stackSyms ∧ (∀ q ∈ finals, q ∈ states) ∧
      mode ∉ Gen.Validate.pdaAcceptanceModes ∧ e = .lib .invalidAcceptanceModeError) := by
  unfold pdaValidateTail at h
  rcases Res.andThen_eq_error.mp h with h0 | ⟨ok0, h⟩
  · obtain ⟨hc, rfl⟩ := guardE_eq_error.mp h0
    exact Or.inl ⟨by simpa using hc, rfl⟩
  have p0 : init ∈ states := by simpa using guardE_eq_ok.mp ok0
  rcases Res.andThen_eq_error.mp h with h1 | ⟨ok1, h⟩
  · obtain ⟨hc, rfl⟩ := guardE_eq_error.mp h1
    exact Or.inr (Or.inl ⟨p0, by simpa using hc, rfl⟩)
  have p1 : initStack ∈ stackSyms := by simpa using guardE_eq_ok.mp ok1
  rcases Res.andThen_eq_error.mp h with h2 | ⟨ok2, h⟩
  · obtain ⟨hc, rfl⟩ := guardE_eq_error.mp h2
    exact Or.inr (Or.inr (Or.inl ⟨p0, p1, subsetB_eq_false.mp hc, rfl⟩))
  have p2 : ∀ q ∈ finals, q ∈ states := subsetB_eq_true.mp (guardE_eq_ok.mp ok2)
  obtain ⟨hc, rfl⟩ := guardE_eq_error.mp h
  exact Or.inr (Or.inr (Or.inr ⟨p0, p1, p2, by simpa using hc, rfl⟩))

namespace DPDA

def rules : RuleSys (DPDA σ α γ) PdaRule where
  kind := PdaRule.kind
  stage := PdaRule.stage
  Violates d
    | .unknownInputSymbol => ∃ kv ∈ d.trans, ∃ e ∈ kv.2, ∃ a, e.1 = some a ∧ a ∉ d.syms
    | .nondeterministic => ∃ kv ∈ d.trans, ¬ RowDet kv.2
    | .unknownStackSymbol => ∃ kv ∈ d.trans, ∃ e ∈ kv.2, ∃ g ∈ akeys e.2, g ∉ d.stackSyms
    | .badInitial => d.init ∉ d.states
    | .badInitialStackSymbol => d.initStack ∉ d.stackSyms
    | .badFinal => ∃ q ∈ d.finals, q ∉ d.states
    | .badAcceptanceMode => d.mode ∉ Gen.Validate.pdaAcceptanceModes

theorem wf_iff (d : DPDA σ α γ) : d.WF ↔ ∀ r, ¬ rules.Violates d r := by
  constructor
  · intro wf r
    cases r <;> simp only [rules, not_exists, not_and, Classical.not_not]
    · intro kv hkv e he a ha; exact wf.symsOk kv hkv e he a ha
    · exact wf.det
    · exact wf.stackOk
    · exact wf.tail.initOk
    · exact wf.tail.initStackOk
    · exact wf.tail.finalsOk
    · exact wf.tail.modeOk
  · intro h
    refine ⟨?_, ?_, ?_, ⟨?_, ?_, ?_, ?_⟩⟩
    · have := h .unknownInputSymbol
      simp only [rules, not_exists, not_and, Classical.not_not] at this
      exact this
    · simpa [rules] using h .unknownStackSymbol
    · have := h .nondeterministic
      simp only [rules, not_exists, not_and, Classical.not_not] at this
      exact this
    · simpa [rules] using h .badInitial
    · simpa [rules] using h .badInitialStackSymbol
    · simpa [rules] using h .badFinal
    · simpa [rules] using h .badAcceptanceMode

theorem lambdaSiblingsOk_error (paths : List (Option α × List (γ × (σ × List γ)))) (e : Exn)
    (h : lambdaSiblingsOk paths = .error e) : ¬ RowDet paths ∧ e = .lib .nondeterminismError := by
  unfold lambdaSiblingsOk at h
  obtain ⟨en, hen, hg⟩ := firstErr_eq_error h
  cases ha : en.1 with
  | none => rw [ha] at hg; cases hg
  | some a =>
    rw [ha] at hg
    obtain ⟨g, hgk, hg'⟩ := firstErr_eq_error hg
    obtain ⟨hc, rfl⟩ := guardE_eq_error.mp hg'
    refine ⟨fun hdet => ?_, rfl⟩
    have := hdet en hen a ha g hgk
    rw [← ahas_iff'] at this
    simp only [Bool.not_eq_false'] at hc
    exact this hc

theorem validateRow_error (d : DPDA σ α γ) (paths : List (Option α × List (γ × (σ × List γ))))
    (e : Exn) (h : d.validateRow paths = .error e) :
    ((∃ en ∈ paths, ∃ a, en.1 = some a ∧ a ∉ d.syms) ∧ e = .lib .invalidSymbolError) ∨
    (¬ RowDet paths ∧ e = .lib .nondeterminismError) ∨
    ((∃ en ∈ paths, ∃ g ∈ akeys en.2, g ∉ d.stackSyms) ∧ e = .lib .invalidSymbolError) := by
  unfold validateRow at h
  obtain ⟨en, hen, hg⟩ := firstErr_eq_error h
  rcases Res.andThen_eq_error.mp hg with h0 | ⟨_, hg⟩
  · left
    cases ha : en.1 with
    | none => rw [ha] at h0; cases h0
    | some a =>
      rw [ha] at h0
      obtain ⟨hc, rfl⟩ := guardE_eq_error.mp h0
      exact ⟨⟨en, hen, a, ha, by simpa using hc⟩, rfl⟩
  · obtain ⟨g, hgk, hg'⟩ := firstErr_eq_error hg
    rcases Res.andThen_eq_error.mp hg' with h1 | ⟨_, h2⟩
    · right; left
      cases ha : en.1 with
      | some a => rw [ha] at h1; cases h1
      | none =>
        rw [ha] at h1
        exact lambdaSiblingsOk_error paths e h1
    · right; right
      obtain ⟨hc, rfl⟩ := guardE_eq_error.mp h2
      exact ⟨⟨en, hen, g, hgk, by simpa using hc⟩, rfl⟩

theorem rules_correct : (rules : RuleSys (DPDA σ α γ) PdaRule).Correct validate where
  ok_iff d := (validate_eq_ok d).trans (wf_iff d)
  error_kind d e h := by
    unfold validate at h
    rcases Res.andThen_eq_error.mp h with h0 | ⟨ok0, h⟩
    · obtain ⟨kv, hkv, hrow⟩ := firstErr_eq_error h0
      have early : ∀ r' : PdaRule, (rules : RuleSys (DPDA σ α γ) PdaRule).stage r' < 0 →
          ¬ rules.Violates d r' := by
        intro r' hr'; simp [rules] at hr'
      rcases validateRow_error d kv.2 e hrow with ⟨⟨en, hen, a, ha, hna⟩, rfl⟩ | ⟨hnd, rfl⟩ | ⟨⟨en, hen, g, hg, hng⟩, rfl⟩
      · exact ⟨.unknownInputSymbol, ⟨kv, hkv, en, hen, a, ha, hna⟩, rfl, early⟩
      · exact ⟨.nondeterministic, ⟨kv, hkv, hnd⟩, rfl, early⟩
      · exact ⟨.unknownStackSymbol, ⟨kv, hkv, en, hen, g, hg, hng⟩, rfl, early⟩
    simp only [firstErr_eq_ok, validateRow_eq_ok] at ok0
    have n0a : ¬ rules.Violates d .unknownInputSymbol := by
      simp only [rules, not_exists, not_and, Classical.not_not]
      intro kv hkv en hen a ha; exact (ok0 kv hkv).1 en hen a ha
    have n0b : ¬ rules.Violates d .nondeterministic := by
      simp only [rules, not_exists, not_and, Classical.not_not]
      intro kv hkv; exact (ok0 kv hkv).2.2
    have n0c : ¬ rules.Violates d .unknownStackSymbol := by
      simp only [rules, not_exists, not_and, Classical.not_not]
      intro kv hkv en hen g hg; exact (ok0 kv hkv).2.1 en hen g hg
    rcases pdaValidateTail_error _ _ _ _ _ _ e h with ⟨a, rfl⟩ | ⟨p0, a, rfl⟩ | ⟨p0, p1, a, rfl⟩ | ⟨p0, p1, p2, a, rfl⟩
    · refine ⟨.badInitial, a, rfl, ?_⟩
      intro r' hr'; cases r' <;> simp [rules, PdaRule.stage] at hr' <;> assumption
    · have nI : ¬ rules.Violates d .badInitial := fun h => h p0
      refine ⟨.badInitialStackSymbol, a, rfl, ?_⟩
      intro r' hr'; cases r' <;> simp [rules, PdaRule.stage] at hr' <;> assumption
    · have nI : ¬ rules.Violates d .badInitial := fun h => h p0
      have nS : ¬ rules.Violates d .badInitialStackSymbol := fun h => h p1
      refine ⟨.badFinal, a, rfl, ?_⟩
      intro r' hr'; cases r' <;> simp [rules, PdaRule.stage] at hr' <;> assumption
    · have nI : ¬ rules.Violates d .badInitial := fun h => h p0
      have nS : ¬ rules.Violates d .badInitialStackSymbol := fun h => h p1
      have nF : ¬ rules.Violates d .badFinal := by
        simp only [rules, not_exists, not_and, Classical.not_not]; exact p2
      refine ⟨.badAcceptanceMode, a, rfl, ?_⟩
      intro r' hr'; cases r' <;> simp [rules, PdaRule.stage] at hr' <;> assumption

end DPDA

namespace NPDA

def rules : RuleSys (NPDA σ α γ) PdaRule where
  kind := PdaRule.kind
  stage := PdaRule.stage
  Violates d
    | .unknownInputSymbol => ∃ kv ∈ d.trans, ∃ e ∈ kv.2, ∃ a, e.1 = some a ∧ a ∉ d.syms
    | .nondeterministic => False
    | .unknownStackSymbol => ∃ kv ∈ d.trans, ∃ e ∈ kv.2, ∃ g ∈ akeys e.2, g ∉ d.stackSyms
    | .badInitial => d.init ∉ d.states
    | .badInitialStackSymbol => d.initStack ∉ d.stackSyms
    | .badFinal => ∃ q ∈ d.finals, q ∉ d.states
    | .badAcceptanceMode => d.mode ∉ Gen.Validate.pdaAcceptanceModes

theorem wf_iff (d : NPDA σ α γ) : d.WF ↔ ∀ r, ¬ rules.Violates d r := by
  constructor
  · intro wf r
    cases r <;> simp only [rules, not_exists, not_and, Classical.not_not, not_false_eq_true]
    · intro kv hkv e he a ha; exact wf.symsOk kv hkv e he a ha
    · exact wf.stackOk
    · exact wf.tail.initOk
    · exact wf.tail.initStackOk
    · exact wf.tail.finalsOk
    · exact wf.tail.modeOk
  · intro h
    refine ⟨?_, ?_, ⟨?_, ?_, ?_, ?_⟩⟩
    · have := h .unknownInputSymbol
      simp only [rules, not_exists, not_and, Classical.not_not] at this
      exact this
    · simpa [rules] using h .unknownStackSymbol
    · simpa [rules] using h .badInitial
    · simpa [rules] using h .badInitialStackSymbol
    · simpa [rules] using h .badFinal
    · simpa [rules] using h .badAcceptanceMode

theorem validateRow_error (d : NPDA σ α γ) (paths : List (Option α × List (γ × List (σ × List γ))))
    (e : Exn) (h : d.validateRow paths = .error e) :
    ((∃ en ∈ paths, ∃ a, en.1 = some a ∧ a ∉ d.syms) ∧ e = .lib .invalidSymbolError) ∨
    ((∃ en ∈ paths, ∃ g ∈ akeys en.2, g ∉ d.stackSyms) ∧ e = .lib .invalidSymbolError) := by
  unfold validateRow at h
  obtain ⟨en, hen, hg⟩ := firstErr_eq_error h
  rcases Res.andThen_eq_error.mp hg with h0 | ⟨_, hg⟩
  · left
    cases ha : en.1 with
    | none => rw [ha] at h0; cases h0
    | some a =>
      rw [ha] at h0
      obtain ⟨hc, rfl⟩ := guardE_eq_error.mp h0
      exact ⟨⟨en, hen, a, ha, by simpa using hc⟩, rfl⟩
  · right
    obtain ⟨g, hgk, hg'⟩ := firstErr_eq_error hg
    obtain ⟨hc, rfl⟩ := guardE_eq_error.mp hg'
    exact ⟨⟨en, hen, g, hgk, by simpa using hc⟩, rfl⟩

theorem rules_correct : (rules : RuleSys (NPDA σ α γ) PdaRule).Correct validate where
  ok_iff d := (validate_eq_ok d).trans (wf_iff d)
  error_kind d e h := by
    unfold validate at h
    rcases Res.andThen_eq_error.mp h with h0 | ⟨ok0, h⟩
    · obtain ⟨kv, hkv, hrow⟩ := firstErr_eq_error h0
      have early : ∀ r' : PdaRule, (rules : RuleSys (NPDA σ α γ) PdaRule).stage r' < 0 →
          ¬ rules.Violates d r' := by
        intro r' hr'; simp [rules] at hr'
      rcases validateRow_error d kv.2 e hrow with ⟨⟨en, hen, a, ha, hna⟩, rfl⟩ | ⟨⟨en, hen, g, hg, hng⟩, rfl⟩
      · exact ⟨.unknownInputSymbol, ⟨kv, hkv, en, hen, a, ha, hna⟩, rfl, early⟩
      · exact ⟨.unknownStackSymbol, ⟨kv, hkv, en, hen, g, hg, hng⟩, rfl, early⟩
    simp only [firstErr_eq_ok, validateRow_eq_ok] at ok0
    have n0a : ¬ rules.Violates d .unknownInputSymbol := by
      simp only [rules, not_exists, not_and, Classical.not_not]
      intro kv hkv en hen a ha; exact (ok0 kv hkv).1 en hen a ha
    have n0b : ¬ rules.Violates d .nondeterministic := by simp [rules]
    have n0c : ¬ rules.Violates d .unknownStackSymbol := by
      simp only [rules, not_exists, not_and, Classical.not_not]
      intro kv hkv en hen g hg; exact (ok0 kv hkv).2 en hen g hg
    rcases pdaValidateTail_error _ _ _ _ _ _ e h with ⟨a, rfl⟩ | ⟨p0, a, rfl⟩ | ⟨p0, p1, a, rfl⟩ | ⟨p0, p1, p2, a, rfl⟩
    · refine ⟨.badInitial, a, rfl, ?_⟩
      intro r' hr'; cases r' <;> simp [rules, PdaRule.stage] at hr' <;> assumption
    · have nI : ¬ rules.Violates d .badInitial := fun h => h p0
      refine ⟨.badInitialStackSymbol, a, rfl, ?_⟩
      intro r' hr'; cases r' <;> simp [rules, PdaRule.stage] at hr' <;> assumption
    · have nI : ¬ rules.Violates d .badInitial := fun h => h p0
      have nS : ¬ rules.Violates d .badInitialStackSymbol := fun h => h p1
      refine ⟨.badFinal, a, rfl, ?_⟩
      intro r' hr'; cases r' <;> simp [rules, PdaRule.stage] at hr' <;> assumption
    · have nI : ¬ rules.Violates d .badInitial := fun h => h p0
      have nS : ¬ rules.Violates d .badInitialStackSymbol := fun h => h p1
      have nF : ¬ rules.Violates d .badFinal := by
        simp only [rules, not_exists, not_and, Classical.not_not]; exact p2
      refine ⟨.badAcceptanceMode, a, rfl, ?_⟩
      intro r' hr'; cases r' <;> simp [rules, PdaRule.stage] at hr' <;> assumption

end NPDA

end AV
