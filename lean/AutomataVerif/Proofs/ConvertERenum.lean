/-
Proofs/ConvertERenum.lean — the `retain_names=False` loop of `_expand_dfa`
(Model/ConvertERenum.lean) simulates the `retain_names=True` loop (Model/ConvertE.lean) through
the renaming "discovery index", hence never fails where that one does not, and builds the
`renumber` of its result.
-/
import AutomataVerif.Model.ConvertERenum
import AutomataVerif.Proofs.ConvertE

namespace AV

set_option linter.unusedSectionVars false
open AV.C07

namespace DFA
variable {S α : Type} [DecidableEq S] [DecidableEq α]

/-! ### renaming commutes with the dict / set stores -/

def renRow (f : S → Nat) (row : List (α × S)) : List (α × Nat) := row.map fun e => (e.1, f e.2)
def renT (f : S → Nat) (tr : List (S × List (α × S))) : List (Nat × List (α × Nat)) :=
  tr.map fun kv => (f kv.1, renRow f kv.2)

theorem renRow_ainsert (f : S → Nat) (a : α) (t : S) (row : List (α × S)) :
    renRow f (ainsert a t row) = ainsert a (f t) (renRow f row) := by
  induction row with
  | nil => rfl
  | cons x r ih =>
    rcases x with ⟨b, u⟩
    by_cases hb : b = a
    · simp [renRow, ainsert, hb]
    · simp only [renRow, ainsert, hb, if_false, List.map_cons] at ih ⊢
      rw [ih]

theorem renT_ainsert (f : S → Nat) {k : S} (hinj : ∀ k', f k' = f k → k' = k)
    (v : List (α × S)) (tr : List (S × List (α × S))) :
    renT f (ainsert k v tr) = ainsert (f k) (renRow f v) (renT f tr) := by
  induction tr with
  | nil => rfl
  | cons x r ih =>
    rcases x with ⟨k', v'⟩
    by_cases hk : k' = k
    · subst hk; simp [renT, ainsert]
    · have : ¬ f k' = f k := fun e => hk (hinj k' e)
      simp only [renT, ainsert, hk, this, if_false, List.map_cons] at ih ⊢
      rw [ih]

theorem map_sinsert (f : S → Nat) {t : S} (hinj : ∀ k', f k' = f t → k' = t) (F : List S) :
    (sinsert t F).map f = sinsert (f t) (F.map f) := by
  have hiff : f t ∈ F.map f ↔ t ∈ F := by
    constructor
    · intro h
      obtain ⟨s, hs, he⟩ := List.mem_map.mp h
      rw [← hinj s he]; exact hs
    · intro h; exact List.mem_map.mpr ⟨t, h, rfl⟩
  by_cases ht : t ∈ F
  · simp [sinsert, ht, hiff.mpr ht]
  · have : f t ∉ F.map f := fun h => ht (hiff.mp h)
    simp only [sinsert, ht, this, if_false, List.map_append, List.map_cons, List.map_nil]

theorem indexOf_append_of_mem {s : S} : ∀ {X : List S} (Y : List S), s ∈ X →
    indexOf s (X ++ Y) = indexOf s X
  | z :: X, Y, h => by
    by_cases hz : z = s
    · simp [indexOf, hz]
    · have h' : s ∈ X := by
        rcases List.mem_cons.mp h with e | e
        · exact absurd e.symm hz
        · exact e
      simp only [List.cons_append, indexOf, hz, if_false]
      rw [indexOf_append_of_mem Y h']

theorem indexOf_sinsert_of_mem {s : S} {X : List S} (t : S) (h : s ∈ X) :
    indexOf s (sinsert t X) = indexOf s X := by
  unfold sinsert
  split
  · rfl
  · exact indexOf_append_of_mem _ h

/-! ### the simulation -/

/-- The state of the `retain_names=False` loop that corresponds to a state of the
`retain_names=True` loop under a renaming `f`. -/
def toRf (f : S → Nat) (st : ExpSt S α) : ExpStR S α :=
  { trans := renT f st.trans, states := st.states.map f, finals := st.finals.map f,
    queue := st.queue, visited := st.states, names := st.states }

/-- … under the renaming "index in the list of states named so far". -/
def toR (st : ExpSt S α) : ExpStR S α := toRf (fun s => indexOf s st.states) st

/-- Every name stored in the tables is a discovered state; queued states are discovered. -/
structure ExpInv (st : ExpSt S α) : Prop where
  keys : ∀ kv ∈ st.trans, kv.1 ∈ st.states
  tgts : ∀ kv ∈ st.trans, ∀ x ∈ kv.2, x.2 ∈ st.states
  fins : ∀ x ∈ st.finals, x ∈ st.states
  queue : ∀ x ∈ st.queue, x ∈ st.states

theorem toRf_congr {f g : S → Nat} {st : ExpSt S α} (inv : ExpInv st)
    (h : ∀ s ∈ st.states, f s = g s) : toRf f st = toRf g st := by
  unfold toRf
  have h1 : renT f st.trans = renT g st.trans := by
    unfold renT
    apply List.map_congr_left
    intro kv hkv
    rw [h kv.1 (inv.keys kv hkv)]
    congr 1
    unfold renRow
    apply List.map_congr_left
    intro x hx
    rw [h x.2 (inv.tgts kv hkv x hx)]
  have h2 : st.states.map f = st.states.map g := List.map_congr_left h
  have h3 : st.finals.map f = st.finals.map g :=
    List.map_congr_left fun x hx => h x (inv.fins x hx)
  rw [h1, h2, h3]

theorem mem_ainsert_cases {κ β : Type} [DecidableEq κ] {k : κ} {v : β} {d : List (κ × β)}
    {x : κ × β} (h : x ∈ ainsert k v d) : x = (k, v) ∨ x ∈ d := by
  induction d with
  | nil => simp [ainsert] at h; exact Or.inl h
  | cons y t ih =>
    rcases y with ⟨k', v'⟩
    by_cases hk : k' = k
    · simp only [ainsert, hk, if_true, List.mem_cons] at h
      rcases h with h | h
      · exact Or.inl h
      · exact Or.inr (List.mem_cons_of_mem _ h)
    · simp only [ainsert, hk, if_false, List.mem_cons] at h
      rcases h with h | h
      · exact Or.inr (by simp [h])
      · rcases ih h with h' | h'
        · exact Or.inl h'
        · exact Or.inr (List.mem_cons_of_mem _ h')

theorem expEdge_sim (isFin : S → Bool) {cur : S} {st st' : ExpSt S α} {e : α × S}
    (inv : ExpInv st) (hcur : cur ∈ st.states) (h : expEdgeE isFin cur st e = .ok st') :
    expEdgeRE isFin cur (toR st) e = .ok (toR st') ∧ ExpInv st' ∧ cur ∈ st'.states := by
  rcases e with ⟨a, t⟩
  -- what the named loop did
  unfold expEdgeE at h
  simp only at h
  cases hrow : alookup cur (if t ∈ st.states then st.trans else ainsert t [] st.trans) with
  | none => rw [hrow] at h; cases h
  | some row =>
    rw [hrow] at h
    simp only [Except.ok.injEq] at h
    -- invariants of the intermediate table
    have hX' : ∀ s ∈ st.states, s ∈ sinsert t st.states := fun s hs => mem_sinsert.mpr (Or.inr hs)
    have ht' : t ∈ sinsert t st.states := mem_sinsert.mpr (Or.inl rfl)
    have inv1k : ∀ kv ∈ (if t ∈ st.states then st.trans else ainsert t [] st.trans),
        kv.1 ∈ sinsert t st.states ∧ ∀ x ∈ kv.2, x.2 ∈ sinsert t st.states := by
      intro kv hkv
      by_cases htX : t ∈ st.states
      · simp only [htX, if_true] at hkv
        exact ⟨hX' _ (inv.keys kv hkv), fun x hx => hX' _ (inv.tgts kv hkv x hx)⟩
      · simp only [htX, if_false] at hkv
        rcases mem_ainsert_cases hkv with rfl | hkv
        · exact ⟨ht', fun x hx => by simp at hx⟩
        · exact ⟨hX' _ (inv.keys kv hkv), fun x hx => hX' _ (inv.tgts kv hkv x hx)⟩
    have hrowmem := alookup_some_mem hrow
    have inv' : ExpInv st' := by
      subst h
      refine ⟨?_, ?_, ?_, ?_⟩
      · intro kv hkv
        rcases mem_ainsert_cases hkv with rfl | hkv
        · exact hX' _ hcur
        · exact (inv1k kv hkv).1
      · intro kv hkv x hx
        rcases mem_ainsert_cases hkv with rfl | hkv
        · rcases mem_ainsert_cases hx with rfl | hx
          · exact ht'
          · exact (inv1k _ hrowmem).2 x hx
        · exact (inv1k kv hkv).2 x hx
      · intro x hx
        simp only at hx ⊢
        by_cases hf : isFin t = true
        · simp only [hf, if_true] at hx
          rcases mem_sinsert.mp hx with rfl | hx
          · exact ht'
          · exact hX' _ (inv.fins x hx)
        · simp only [hf] at hx
          exact hX' _ (inv.fins x (by simpa using hx))
      · intro x hx
        simp only at hx ⊢
        by_cases htX : t ∈ st.states
        · simp only [htX, if_true] at hx; exact hX' _ (inv.queue x hx)
        · simp only [htX, if_false] at hx
          rcases List.mem_append.mp hx with hx | hx
          · exact hX' _ (inv.queue x hx)
          · simp at hx; subst hx; exact ht'
    have hst' : st'.states = sinsert t st.states := by subst h; rfl
    refine ⟨?_, inv', by rw [hst']; exact hX' _ hcur⟩
    -- rename everything with the index in the NEW list of names
    have hagree : ∀ s ∈ st.states, indexOf s st.states = indexOf s (sinsert t st.states) :=
      fun s hs => (indexOf_sinsert_of_mem t hs).symm
    have hinj : ∀ q ∈ sinsert t st.states, ∀ k',
        indexOf k' (sinsert t st.states) = indexOf q (sinsert t st.states) → k' = q :=
      fun q hq k' he => (indexOf_inj hq he.symm).symm
    have e1 : toR st = toRf (fun s => indexOf s (sinsert t st.states)) st := toRf_congr inv hagree
    have e2 : toR st' = toRf (fun s => indexOf s (sinsert t st.states)) st' := by
      unfold toR; rw [hst']
    rw [e1, e2]
    generalize hf' : (fun s => indexOf s (sinsert t st.states)) = f at *
    have hfapp : ∀ s, indexOf s (sinsert t st.states) = f s := fun s => by rw [← hf']
    have hinjf : ∀ q ∈ sinsert t st.states, ∀ k', f k' = f q → k' = q := by
      intro q hq k' he; rw [← hf'] at he; exact hinj q hq k' he
    have hcurN : sinsert cur st.states = st.states := by simp [sinsert, hcur]
    have hmem : f t ∈ st.states.map f ↔ t ∈ st.states := by
      constructor
      · intro hm
        obtain ⟨s, hs, he⟩ := List.mem_map.mp hm
        rw [← hinjf t ht' s he]; exact hs
      · intro hm; exact List.mem_map.mpr ⟨t, hm, rfl⟩
    have htr1 : (if f t ∈ st.states.map f then renT f st.trans else ainsert (f t) [] (renT f st.trans))
        = renT f (if t ∈ st.states then st.trans else ainsert t [] st.trans) := by
      by_cases htX : t ∈ st.states
      · simp [htX, hmem.mpr htX]
      · have : f t ∉ st.states.map f := fun hm => htX (hmem.mp hm)
        simp only [htX, this, if_false]
        rw [renT_ainsert f (hinjf t ht')]; rfl
    have hlook : alookup (f cur) (renT f (if t ∈ st.states then st.trans else ainsert t [] st.trans))
        = some (renRow f row) := by
      unfold renT
      rw [alookup_rename_key f (renRow f) cur (hinjf cur (hX' _ hcur)), hrow]; rfl
    have hidx : indexOf cur st.states = f cur := by rw [hagree cur hcur, hfapp]
    subst h
    simp only [expEdgeRE, toRf, hcurN, hidx, hfapp, htr1, hlook]
    congr 1
    simp only [ExpStR.mk.injEq]
    refine ⟨?_, ?_, ?_, rfl, trivial, trivial⟩
    · rw [renT_ainsert f (hinjf cur (hX' _ hcur)), renRow_ainsert]
    · exact (map_sinsert f (hinjf t ht') _).symm
    · by_cases hfin : isFin t = true
      · simp only [hfin, if_true]
        exact (map_sinsert f (hinjf t ht') _).symm
      · simp [hfin]

theorem foldlE_sim (isFin : S → Bool) {cur : S} : ∀ (es : List (α × S)) {st st' : ExpSt S α},
    ExpInv st → cur ∈ st.states → foldlE (expEdgeE isFin cur) st es = .ok st' →
    foldlE (expEdgeRE isFin cur) (toR st) es = .ok (toR st') ∧ ExpInv st'
  | [], st, st', inv, _, h => by
    simp only [foldlE, Except.ok.injEq] at h
    subst h
    exact ⟨rfl, inv⟩
  | e :: es, st, st', inv, hcur, h => by
    simp only [foldlE] at h ⊢
    cases h1 : expEdgeE isFin cur st e with
    | error x => rw [h1] at h; cases h
    | ok st1 =>
      rw [h1] at h
      obtain ⟨hs, inv1, hcur1⟩ := expEdge_sim isFin inv hcur h1
      rw [hs]
      exact foldlE_sim isFin es inv1 hcur1 h

theorem expLoop_sim (succE : S → Res (List (α × S))) (isFin : S → Bool) :
    ∀ (fuel : Nat) {st st' : ExpSt S α}, ExpInv st → expLoopE succE isFin fuel st = .ok st' →
      expLoopRE succE isFin fuel (toR st) = .ok (toR st')
  | 0, st, st', _, h => by
    simp only [expLoopE, Except.ok.injEq] at h
    subst h; rfl
  | fuel + 1, st, st', inv, h => by
    unfold expLoopE at h
    unfold expLoopRE
    have hq : (toR st).queue = st.queue := rfl
    rw [hq]
    cases hqueue : st.queue with
    | nil =>
      rw [hqueue] at h
      simp only [Except.ok.injEq] at h
      subst h; rfl
    | cons q work =>
      rw [hqueue] at h
      simp only at h ⊢
      cases hs : succE q with
      | error x => rw [hs] at h; cases h
      | ok es =>
        rw [hs] at h
        simp only at h ⊢
        cases hf : foldlE (expEdgeE isFin q) { st with queue := work } es with
        | error x => rw [hf] at h; cases h
        | ok st1 =>
          rw [hf] at h
          simp only at h
          have hqs : q ∈ st.states := inv.queue q (by rw [hqueue]; simp)
          have inv0 : ExpInv ({ st with queue := work } : ExpSt S α) :=
            ⟨inv.keys, inv.tgts, inv.fins,
              fun x hx => inv.queue x (by rw [hqueue]; exact List.mem_cons_of_mem _ hx)⟩
          obtain ⟨hsim, inv1⟩ := foldlE_sim isFin es inv0 hqs hf
          have hr : ({ toR st with queue := work } : ExpStR S α) =
              toR ({ st with queue := work } : ExpSt S α) := rfl
          rw [hr, hsim]
          exact expLoop_sim succE isFin fuel inv1 h

theorem bfsAux_prefix (succ : S → List S) : ∀ (fuel : Nat) (work vis : List S),
    ∃ s, bfsAux succ fuel work vis = vis ++ s
  | 0, _, vis => ⟨[], by simp [bfsAux]⟩
  | _ + 1, [], vis => ⟨[], by simp [bfsAux]⟩
  | fuel + 1, q :: work, vis => by
    simp only [bfsAux]
    obtain ⟨s, hs⟩ := bfsAux_prefix succ fuel
      (work ++ dedup ((succ q).filter fun t => decide (t ∉ vis)))
      (vis ++ dedup ((succ q).filter fun t => decide (t ∉ vis)))
    exact ⟨_, by rw [hs, List.append_assoc]⟩

theorem indexOf_init_bfsStates (succ : S → List (α × S)) (fuel : Nat) (init : S) :
    indexOf init (bfsStates succ fuel init) = 0 := by
  have hd : dedup [init] = [init] := by simp [dedup, sunion, sinsert]
  obtain ⟨s, hs⟩ := bfsAux_prefix (fun s => avals (succ s)) fuel [init] [init]
  simp only [bfsStates, bfsN, hd, hs]
  simp [indexOf]

/-- **`_expand_dfa(retain_names=False, minify=False)`**: under the hypotheses of `expandE_eq` the
loop on names never fails at `transitions[cur_state_name]` and builds the `renumber` of the
total model. -/
theorem expandRenumE_eq {succE : S → Res (List (α × S))} {succ : S → List (α × S)} {univ : List S}
    {fuel : Nat} {init : S} (isFin : S → Bool) (syms : List α)
    (h : ExpandHyp succ univ fuel init) (hsE : ∀ u ∈ univ, succE u = .ok (succ u)) :
    expandRenumE succE isFin syms fuel init = .ok (expand succ isFin syms fuel init).renumber := by
  have h0 : (expInitR isFin init : ExpStR S α) = toR (expInit isFin init) := by
    by_cases hf : isFin init = true <;> simp [expInitR, expInit, toR, toRf, renT, renRow, indexOf, hf]
  have inv0 : ExpInv (expInit isFin init : ExpSt S α) := by
    refine ⟨?_, ?_, ?_, ?_⟩
    · intro kv hkv; simp [expInit] at hkv ⊢; rw [hkv]
    · intro kv hkv x hx; simp [expInit] at hkv; rw [hkv] at hx; simp at hx
    · intro x hx
      by_cases hf : isFin init = true <;> simp [expInit, hf] at hx ⊢
      exact hx
    · intro x hx; simpa [expInit] using hx
  unfold expandRenumE
  rw [h0, expLoop_sim succE isFin fuel inv0 (expLoopE_init_eq isFin h hsE)]
  have hi := indexOf_init_bfsStates succ fuel init
  simp only [toR, toRf, mkSt, renumber, expand, List.append_nil, List.map_nil, renT, renRow,
    List.map_map, List.any_map, hi]
  simp [Function.comp_def]

end DFA
end AV
