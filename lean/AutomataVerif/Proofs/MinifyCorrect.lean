/-
Proofs/MinifyCorrect.lean — `_minify` applied to a source that describes a DFA `d`:
language, validity, minimality, names (core only).  Combines the quotient lemmas
(Proofs/MinQuotient.lean) with `hopcroft_nerode` (Proofs/Hopcroft.lean), so nothing here
assumes the partition to be correct any more.

`MinSource d kept finals` says that the arguments `(kept, d.syms, d.trans, d.init, finals)`
handed to `_minify` satisfy the callers' guarantees and that the refinement system has, from
every kept state, the right language of that state in `d`.  It holds for
* `d.minify` (`minify_source`),
* every valid Python-shaped DFA all of whose states are reachable, with `kept = states`
  (`minSource_of_trim`; this is the shape of the `_expand_dfa(..., minify=True)` callers),
* the arguments of `complement(minify=True)` (`complementMin_source`).
-/
import AutomataVerif.Proofs.MinPrepass
import AutomataVerif.Proofs.Hopcroft

namespace AV
namespace DFA

set_option linter.unusedSectionVars false

variable {σ τ α : Type} [DecidableEq σ] [DecidableEq τ] [DecidableEq α]

/-- The arguments `(kept, d.syms, d.trans, d.init, finals)` of `_minify` describe `d`. -/
structure MinSource (d : DFA σ α) (kept finals : List σ) : Prop where
  hyp : MinHyp kept d.syms d.trans d.init finals
  rows_nodup : ∀ q r, alookup q d.trans = some r → (akeys r).Nodup
  reach : ∀ q ∈ kept, ∃ w, mrun kept d.trans (some d.init) w = some q
  lang : ∀ q ∈ kept, ∀ w,
    mfin finals (mrun kept d.trans (some q) w) = d.isFinal (d.run (some q) w)

section source
variable {d : DFA σ α} {kept finals : List σ} (S : MinSource d kept finals)
  (pick : List Nat → Nat)
include S

theorem MinSource.quotHyp :
    QuotHyp kept d.syms d.trans d.init finals (hopcroft kept d.syms d.trans finals pick) :=
  QuotHyp.of_hopcroft S.hyp S.rows_nodup (hopcroft_nerode S.hyp pick)

theorem MinSource.equiv_iff {q q' : σ} (hq : q ∈ kept) (hq' : q' ∈ kept) :
    MEquiv kept d.trans finals (some q) (some q') ↔
      ∀ w, d.isFinal (d.run (some q) w) = d.isFinal (d.run (some q') w) := by
  unfold MEquiv
  constructor
  · intro h w; rw [← S.lang q hq, ← S.lang q' hq']; exact h w
  · intro h w; rw [S.lang q hq, S.lang q' hq']; exact h w

theorem MinSource.equiv_trap_iff {q : σ} (hq : q ∈ kept) :
    MEquiv kept d.trans finals (some q) none ↔ ¬ d.Live q := by
  unfold MEquiv Live
  constructor
  · rintro h ⟨w, hw⟩
    have := h w
    rw [S.lang q hq, hw, mfin_mrun_none] at this
    cases this
  · intro h w
    rw [S.lang q hq, mfin_mrun_none]
    cases hf : d.isFinal (d.run (some q) w) with
    | false => rfl
    | true => exact absurd ⟨w, hf⟩ h

/-- Language. -/
theorem MinSource.accepts (w : List α) :
    (minifyCore kept d.syms d.trans d.init finals pick).accepts w = d.accepts w := by
  rw [minifyCore_accepts S.hyp S.rows_nodup (hopcroft_nerode S.hyp pick)]
  exact S.lang d.init S.hyp.init_mem w

theorem MinSource.wf : (minifyCore kept d.syms d.trans d.init finals pick).WF := by
  rw [minifyCore_eq]; exact quotOf_wf (S.quotHyp pick) S.reach

/-- Validity. -/
theorem MinSource.valid : (minifyCore kept d.syms d.trans d.init finals pick).validate = .ok () :=
  (validate_eq_ok _).mpr (S.wf pick)

theorem MinSource.pyShape : (minifyCore kept d.syms d.trans d.init finals pick).PyShape := by
  rw [minifyCore_eq]; exact quotOf_pyShape (S.quotHyp pick)

omit S in
theorem minifyCore_syms (kept : List σ) (syms : List α) (trans : List (σ × List (α × σ)))
    (init : σ) (finals : List σ) (pick : List Nat → Nat) :
    (minifyCore kept syms trans init finals pick).syms = syms := by
  rw [minifyCore_eq]; exact quotOf_syms

theorem MinSource.reachable :
    ∀ n ∈ (minifyCore kept d.syms d.trans d.init finals pick).states,
      ∃ w, (minifyCore kept d.syms d.trans d.init finals pick).run
        (some (minifyCore kept d.syms d.trans d.init finals pick).init) w = some n := by
  rw [minifyCore_eq]; exact quotOf_reachable (S.quotHyp pick) S.reach

theorem MinSource.distinguishable :
    ∀ n ∈ (minifyCore kept d.syms d.trans d.init finals pick).states,
    ∀ n' ∈ (minifyCore kept d.syms d.trans d.init finals pick).states, n ≠ n' →
      ∃ w, (minifyCore kept d.syms d.trans d.init finals pick).isFinal
          ((minifyCore kept d.syms d.trans d.init finals pick).run (some n) w) ≠
        (minifyCore kept d.syms d.trans d.init finals pick).isFinal
          ((minifyCore kept d.syms d.trans d.init finals pick).run (some n') w) := by
  rw [minifyCore_eq]; exact quotOf_distinguishable (S.quotHyp pick)

/-- Every state of a partial result is live. -/
theorem MinSource.live
    (hp : (minifyCore kept d.syms d.trans d.init finals pick).allowPartial = true) :
    ∀ n ∈ (minifyCore kept d.syms d.trans d.init finals pick).states,
      (minifyCore kept d.syms d.trans d.init finals pick).Live n := by
  rw [minifyCore_eq] at hp ⊢; exact quotOf_live (S.quotHyp pick) hp

theorem MinSource.complete_of_noTrap (hnt : needTrap kept d.syms d.trans = false) :
    (minifyCore kept d.syms d.trans d.init finals pick).allowPartial = false := by
  rw [minifyCore_eq]; exact quotOf_complete_of_noTrap (S.quotHyp pick) hnt

theorem MinSource.size_le :
    (minifyCore kept d.syms d.trans d.init finals pick).states.length ≤ kept.length := by
  rw [minifyCore_eq]; exact quotOf_size_le (S.quotHyp pick)

/-- Minimality of a complete result among the valid complete DFAs over (at least) the same
alphabet with the same language; `L` is any list containing the states of `B`. -/
theorem MinSource.minimal_complete
    (hp : (minifyCore kept d.syms d.trans d.init finals pick).allowPartial = false)
    (B : DFA τ α) (wfB : B.WF) (hBc : B.allowPartial = false) (hsyms : ∀ a ∈ d.syms, a ∈ B.syms)
    (hlang : ∀ w, B.accepts w = d.accepts w) (L : List τ) (hL : ∀ t ∈ B.states, t ∈ L) :
    (minifyCore kept d.syms d.trans d.init finals pick).states.length ≤ L.length := by
  have _ := hp
  refine minimal_of_reachable_distinguishable_complete'' _ B (S.pyShape pick).states_nodup
    (S.reachable pick) (S.distinguishable pick) ?_ wfB hBc ?_ L hL
  · intro s a ha
    refine step?_foreign (S.wf pick) s fun h => ha (hsyms a ?_)
    rwa [minifyCore_syms] at h
  · intro w; rw [hlang, S.accepts pick]

/-- Minimality of a partial result: no valid DFA with the same language has fewer live
states than the result has states. -/
theorem MinSource.minimal_partial
    (hp : (minifyCore kept d.syms d.trans d.init finals pick).allowPartial = true)
    (B : DFA τ α) (wfB : B.WF) (hlang : ∀ w, B.accepts w = d.accepts w) :
    (minifyCore kept d.syms d.trans d.init finals pick).states.length ≤ B.liveStates.length :=
  (minimal_of_reachable_distinguishable_partial _ B (S.pyShape pick).states_nodup
    (S.reachable pick) (S.distinguishable pick) (S.live pick hp) wfB
    (fun w => by rw [hlang, S.accepts pick])).1

/-- Names: a state is `zero` only if it is the only state and the language is empty;
otherwise it is `blk l` where `l` is non-empty and is exactly the set of kept states with
the right language of any of its members. -/
theorem MinSource.names :
    ∀ n ∈ (minifyCore kept d.syms d.trans d.init finals pick).states,
      (n = MinName.zero ∧
        (minifyCore kept d.syms d.trans d.init finals pick).states = [MinName.zero] ∧
        ∀ w, d.accepts w = false) ∨
      ∃ l, n = MinName.blk l ∧ l ≠ [] ∧ (∀ q ∈ l, q ∈ kept) ∧
        ∀ q ∈ l, ∀ q' ∈ kept,
          (q' ∈ l ↔ ∀ w, d.isFinal (d.run (some q) w) = d.isFinal (d.run (some q') w)) := by
  intro n hn
  rw [minifyCore_eq] at hn ⊢
  rcases quotOf_names (S.quotHyp pick) n hn with ⟨h1, h2, h3⟩ | ⟨l, h1, h2, h3, h4⟩
  · refine Or.inl ⟨h1, h2, fun w => ?_⟩
    have := h3 d.init S.hyp.init_mem w
    rw [mfin_mrun_none, S.lang d.init S.hyp.init_mem] at this
    exact this
  · refine Or.inr ⟨l, h1, h2, h3, fun q hq q' hq' => ?_⟩
    rw [h4 q hq q' hq', S.equiv_iff (h3 q hq) hq']

theorem MinSource.disjoint {l l' : List σ}
    (hl : MinName.blk l ∈ (minifyCore kept d.syms d.trans d.init finals pick).states)
    (hl' : MinName.blk l' ∈ (minifyCore kept d.syms d.trans d.init finals pick).states) {q : σ}
    (hq : q ∈ l) (hq' : q ∈ l') : l = l' := by
  rw [minifyCore_eq] at hl hl'
  exact quotOf_disjoint (S.quotHyp pick) hl hl' hq hq'

/-- Every live kept state lies in the name of a state of the result. -/
theorem MinSource.cover {q : σ} (hq : q ∈ kept) (hl : d.Live q) :
    ∃ l, MinName.blk l ∈ (minifyCore kept d.syms d.trans d.init finals pick).states ∧ q ∈ l := by
  rw [minifyCore_eq]
  exact quotOf_cover (S.quotHyp pick) hq fun _ he => (S.equiv_trap_iff hq).mp he hl

/-- When the result is complete, every kept state lies in the name of a state — unless the
result is the one-state `empty_language`. -/
theorem MinSource.cover_noTrap {q : σ} (hq : q ∈ kept) (hnt : needTrap kept d.syms d.trans = false) :
    ∃ l, MinName.blk l ∈ (minifyCore kept d.syms d.trans d.init finals pick).states ∧ q ∈ l := by
  rw [minifyCore_eq]
  refine quotOf_cover (S.quotHyp pick) hq fun hU => ?_
  rw [mem_muniverse_none, hnt] at hU
  cases hU

end source

/-! ### sources -/

/-- `d.minify`: the pre-pass produces a source describing `d`. -/
theorem minify_source {d : DFA σ α} (wf : d.WF) (ps : d.PyShape) :
    MinSource d d.minifyKept d.minifyFinals where
  hyp := prepass_minHyp wf ps.syms_nodup
  rows_nodup := fun q r hr => ps.rows_nodup (q, r) (alookup_some_mem hr)
  reach := fun _ hq => prepass_reach wf ps.rows_nodup hq
  lang := fun _ hq w => prepass_right_lang wf hq w

theorem minify_eq (d : DFA σ α) (pick : List Nat → Nat) :
    d.minify pick = minifyCore d.minifyKept d.syms d.trans d.init d.minifyFinals pick := rfl

/-- The pre-pass of a complete DFA needs no trap. -/
theorem minify_noTrap_of_complete {d : DFA σ α} (wf : d.WF) (hc : d.allowPartial = false) :
    needTrap d.minifyKept d.syms d.trans = false := by
  rw [needTrap_eq_false_iff]
  intro q hq a ha
  obtain ⟨t, ht⟩ := step?_complete wf hc (minifyKept_sub_states wf hq) ha
  have ht' : alookup a ((alookup q d.trans).getD []) = some t := ht
  have hk : t ∈ d.minifyKept :=
    (mem_minifyKept_iff wf).mpr
      (Or.inr ⟨Reach.tail (minifyKept_reach wf hq) (step?_succ d ht), Or.inl hc⟩)
  exact ⟨t, by simp [mdelta, ht', hk]⟩

/-- `minify` never returns more states than the DFA declares. -/
theorem minify_size_le {d : DFA σ α} (wf : d.WF) (ps : d.PyShape) (pick : List Nat → Nat) :
    (d.minify pick).states.length ≤ d.states.length :=
  Nat.le_trans ((minify_source wf ps).size_le pick)
    (List.Nodup.length_le_of_subset (nodup_minifyKept wf) fun _ h => minifyKept_sub_states wf h)

/-- A valid Python-shaped DFA all of whose states are reachable, handed to `_minify` with
`kept = states` (what `_expand_dfa(..., minify=True)` does). -/
theorem minSource_of_trim {d : DFA σ α} (wf : d.WF) (ps : d.PyShape)
    (hreach : ∀ q ∈ d.states, ∃ w, d.run (some d.init) w = some q) :
    MinSource d d.states d.finals := by
  have hstep : ∀ (s : Option σ), d.Good s → ∀ a, mdelta d.states d.trans s a = d.step? s a := by
    intro s hs a
    cases s with
    | none => rfl
    | some q =>
      cases hst : d.step? (some q) a with
      | none =>
        have hs' : alookup a ((alookup q d.trans).getD []) = none := hst
        simp [mdelta, hs']
      | some t =>
        have hs' : alookup a ((alookup q d.trans).getD []) = some t := hst
        have ht : t ∈ d.states := step?_mem wf hst
        simp [mdelta, hs', ht]
  have hrun : ∀ (w : List α) (s : Option σ), d.Good s → mrun d.states d.trans s w = d.run s w := by
    intro w
    induction w with
    | nil => intro s _; rfl
    | cons a w ih =>
      intro s hs
      rw [mrun_cons_eq, run_cons, hstep s hs a]
      exact ih _ (good_step wf a hs)
  refine ⟨⟨ps.states_nodup, ps.syms_nodup, wf.initOk, wf.finalsOk, wf.rows,
    fun q r hr a ha => wf.symsOk (q, r) (alookup_some_mem hr) a ha⟩,
    fun q r hr => ps.rows_nodup (q, r) (alookup_some_mem hr), ?_, ?_⟩
  · intro q hq
    obtain ⟨w, hw⟩ := hreach q hq
    exact ⟨w, by rw [hrun w (some d.init) wf.initOk]; exact hw⟩
  · intro q hq w
    rw [hrun w (some q) hq]
    cases d.run (some q) w <;> rfl

theorem complementPlain_wf {c : DFA σ α} (wf : c.WF) (hc : c.allowPartial = false) :
    c.complementPlain.WF :=
  ⟨wf.rows, fun _ => wf.complete hc, wf.symsOk, wf.tgtOk, wf.initOk,
    fun _ hq => (List.mem_filter.mp hq).1⟩

/-- The arguments of `complement(minify=True)` (called on a complete table) describe
`complementPlain c`. -/
theorem complementMin_source {c : DFA σ α} (wf : c.WF) (hc : c.allowPartial = false)
    (ps : c.PyShape) :
    MinSource c.complementPlain c.complementPlain.minifyKept
      (c.complementPlain.minifyKept.filter fun q => decide (q ∉ c.finals)) := by
  have wf' := complementPlain_wf wf hc
  have hm := prepass_minHyp wf' ps.syms_nodup
  refine ⟨⟨hm.kept_nodup, hm.syms_nodup, hm.init_mem, fun q hq => (List.mem_filter.mp hq).1,
    hm.rows, hm.keys⟩, fun q r hr => ps.rows_nodup (q, r) (alookup_some_mem hr),
    fun _ hq => prepass_reach wf' ps.rows_nodup hq, fun q hq w => ?_⟩
  refine prepass_right_lang' wf' (fun q hq => ?_) hq w
  have hqs : q ∈ c.states := minifyKept_sub_states wf' hq
  show q ∈ List.filter _ _ ↔ q ∈ List.filter _ c.states
  simp [List.mem_filter, hq, hqs]

theorem complementMin_eq (c : DFA σ α) (pick : List Nat → Nat) :
    c.complementMin pick =
      minifyCore c.complementPlain.minifyKept c.complementPlain.syms c.complementPlain.trans
        c.complementPlain.init
        (c.complementPlain.minifyKept.filter fun q => decide (q ∉ c.finals)) pick := rfl

/-- `to_partial(minify=True)` is `minify` of the same table flagged partial. -/
theorem toPartialMin_eq (d : DFA σ α) (pick : List Nat → Nat) :
    d.toPartialMin pick = ({ d with allowPartial := true } : DFA σ α).minify pick := rfl

end DFA
end AV
