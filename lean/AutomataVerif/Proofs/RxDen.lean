/-
Proofs/RxDen.lean — the denotation of an expression tree as a Mathlib `Language`, and its
equivalence with the predicate-level denotation `denP` used in the builder proofs.
-/
import AutomataVerif.Proofs.RxSem

namespace AV.Rx

set_option linter.unusedSectionVars false

variable {α : Type} [DecidableEq α]

open Builder

/-- The language an expression denotes over the alphabet `syms` (only the wildcard looks at the
alphabet).  Mathlib's `Language` operations: `*` concatenation, `+` union, `⊓` intersection,
`KStar.kstar` Kleene star, `^` power; `shuffleLang` is the interleaving product. -/
def den (syms : List α) : Rx α → Language α
  | .lit a => {[a]}
  | .wildcard => {w | ∃ a, a ∈ syms ∧ w = [a]}
  | .eps => 1
  | .cat e f => den syms e * den syms f
  | .union e f => den syms e + den syms f
  | .inter e f => den syms e ⊓ den syms f
  | .shuffle e f => shuffleLang (den syms e) (den syms f)
  | .star e => KStar.kstar (den syms e)
  | .plus e => den syms e * KStar.kstar (den syms e)
  | .opt e => 1 + den syms e
  | .rep e lo none => den syms e ^ lo * KStar.kstar (den syms e)
  | .rep e lo (some hi) => {w | ∃ k, lo ≤ k ∧ k ≤ hi ∧ w ∈ den syms e ^ k}

theorem denP_eq_of {syms : List α} {e : Rx α} (h : ∀ w, w ∈ den syms e ↔ denP syms e w) :
    denP syms e = fun x => x ∈ den syms e :=
  funext fun w => propext (h w).symm

theorem den_iff (syms : List α) (e : Rx α) : ∀ w, w ∈ den syms e ↔ denP syms e w := by
  induction e with
  | lit a => intro w; exact Set.mem_singleton_iff
  | wildcard => intro w; exact Iff.rfl
  | eps => intro w; exact Language.mem_one w
  | cat e f ihe ihf =>
    intro w
    show w ∈ den syms e * den syms f ↔ LCat (denP syms e) (denP syms f) w
    rw [denP_eq_of ihe, denP_eq_of ihf]
    exact (LCat_iff _ _ w).symm
  | union e f ihe ihf =>
    intro w
    show w ∈ den syms e + den syms f ↔ (denP syms e w ∨ denP syms f w)
    rw [Language.mem_add, ihe, ihf]
  | inter e f ihe ihf =>
    intro w
    show (w ∈ den syms e ∧ w ∈ den syms f) ↔ (denP syms e w ∧ denP syms f w)
    rw [ihe, ihf]
  | shuffle e f ihe ihf =>
    intro w
    show w ∈ shuffleLang (den syms e) (den syms f) ↔ LShuffle (denP syms e) (denP syms f) w
    rw [denP_eq_of ihe, denP_eq_of ihf]
    constructor
    · rintro ⟨u, hu, v, hv, hi⟩; exact ⟨u, v, hu, hv, hi⟩
    · rintro ⟨u, v, hu, hv, hi⟩; exact ⟨u, hu, v, hv, hi⟩
  | star e ihe =>
    intro w
    show w ∈ KStar.kstar (den syms e) ↔ RepDen (denP syms e) 0 none w
    rw [denP_eq_of ihe, RepDen_iff, mem_kstar_iff_pow]
    constructor
    · rintro ⟨k, hk⟩; exact ⟨k, Nat.zero_le _, (fun _ e' => by cases e'), hk⟩
    · rintro ⟨k, _, _, hk⟩; exact ⟨k, hk⟩
  | plus e ihe =>
    intro w
    show w ∈ den syms e * KStar.kstar (den syms e) ↔ RepDen (denP syms e) 1 none w
    rw [denP_eq_of ihe, RepDen_iff, Language.mem_mul]
    constructor
    · rintro ⟨u, hu, v, hv, rfl⟩
      obtain ⟨k, hk⟩ := (mem_kstar_iff_pow _ v).mp hv
      refine ⟨k + 1, by omega, (fun _ e' => by cases e'), ?_⟩
      rw [pow_succ', Language.mem_mul]
      exact ⟨u, hu, v, hk, rfl⟩
    · rintro ⟨k, h1, _, hk⟩
      obtain ⟨m, rfl⟩ : ∃ m, k = m + 1 := ⟨k - 1, by omega⟩
      rw [pow_succ', Language.mem_mul] at hk
      obtain ⟨u, hu, v, hv, rfl⟩ := hk
      exact ⟨u, hu, v, (mem_kstar_iff_pow _ v).mpr ⟨m, hv⟩, rfl⟩
  | opt e ihe =>
    intro w
    show w ∈ 1 + den syms e ↔ RepDen (denP syms e) 0 (some 1) w
    rw [denP_eq_of ihe, RepDen_iff, Language.mem_add, Language.mem_one]
    constructor
    · rintro (rfl | h)
      · exact ⟨0, Nat.le_refl _, fun h e => Nat.zero_le _, by simp⟩
      · exact ⟨1, by omega, fun h e => by cases e; exact Nat.le_refl _, by simpa using h⟩
    · rintro ⟨k, _, h2, hk⟩
      have := h2 1 rfl
      rcases Nat.le_one_iff_eq_zero_or_eq_one.mp this with rfl | rfl
      · left; simpa using hk
      · right; simpa using hk
  | rep e lo hi ihe =>
    intro w
    cases hi with
    | none =>
      show w ∈ den syms e ^ lo * KStar.kstar (den syms e) ↔ RepDen (denP syms e) lo none w
      rw [denP_eq_of ihe, RepDen_iff, Language.mem_mul]
      constructor
      · rintro ⟨u, hu, v, hv, rfl⟩
        obtain ⟨k, hk⟩ := (mem_kstar_iff_pow _ v).mp hv
        refine ⟨lo + k, by omega, (fun _ e' => by cases e'), ?_⟩
        rw [pow_add, Language.mem_mul]
        exact ⟨u, hu, v, hk, rfl⟩
      · rintro ⟨k, h1, _, hk⟩
        obtain ⟨m, rfl⟩ : ∃ m, k = lo + m := ⟨k - lo, by omega⟩
        rw [pow_add, Language.mem_mul] at hk
        obtain ⟨u, hu, v, hv, rfl⟩ := hk
        exact ⟨u, hu, v, (mem_kstar_iff_pow _ v).mpr ⟨m, hv⟩, rfl⟩
    | some h0 =>
      show (∃ k, lo ≤ k ∧ k ≤ h0 ∧ w ∈ den syms e ^ k) ↔ RepDen (denP syms e) lo (some h0) w
      rw [denP_eq_of ihe, RepDen_iff]
      constructor
      · rintro ⟨k, h1, h2, hk⟩; exact ⟨k, h1, fun h e => by cases e; exact h2, hk⟩
      · rintro ⟨k, h1, h2, hk⟩; exact ⟨k, h1, h2 h0 rfl, hk⟩

end AV.Rx
