/-
Proofs/Freeze.lean — lemmas about `freeze_value` on the model of Python values (core only).
-/
import AutomataVerif.Model.Freeze

namespace AV.VA.PyVal

/-! ### freezing preserves the abstract value -/

mutual
theorem norm_freeze : ∀ v : PyVal, (freeze v).norm = v.norm
  | .str _ => rfl
  | .int _ => rfl
  | .other _ => rfl
  | .dict kvs => by simp only [freeze, norm, normKVs_freezeKVs kvs]
  | .frozendict kvs => by simp only [freeze, norm, normKVs_freezeKVs kvs]
  | .set xs => by simp only [freeze, norm, normList_freezeList xs]
  | .list xs => by simp only [freeze, norm, normList_freezeList xs]
  | .tuple xs => by simp only [freeze, norm, normList_freezeList xs]
  | .setlike xs => by simp only [freeze, norm, normList_freezeList xs]
  | .seqlike xs => by simp only [freeze, norm, normList_freezeList xs]
  | .maplike kvs => by simp only [freeze, norm, normKVs_freezeKVs kvs]
  | .frozenset _ => rfl
theorem normList_freezeList : ∀ xs : List PyVal, normList (freezeList xs) = normList xs
  | [] => rfl
  | x :: xs => by simp only [freezeList, normList, norm_freeze x, normList_freezeList xs]
theorem normKVs_freezeKVs : ∀ kvs : List (PyVal × PyVal), normKVs (freezeKVs kvs) = normKVs kvs
  | [] => rfl
  | (k, v) :: t => by simp only [freezeKVs, normKVs, norm_freeze v, normKVs_freezeKVs t]
end

/-! ### idempotence -/

mutual
theorem freeze_idem : ∀ v : PyVal, freeze (freeze v) = freeze v
  | .str _ => rfl
  | .int _ => rfl
  | .other _ => rfl
  | .dict kvs => by simp only [freeze, freezeKVs_idem kvs]
  | .frozendict kvs => by simp only [freeze, freezeKVs_idem kvs]
  | .set _ => rfl
  | .list xs => by simp only [freeze, freezeList_idem xs]
  | .tuple xs => by simp only [freeze, freezeList_idem xs]
  | .setlike _ => rfl
  | .seqlike xs => by simp only [freeze, freezeList_idem xs]
  | .maplike kvs => by simp only [freeze, freezeKVs_idem kvs]
  | .frozenset _ => rfl
theorem freezeList_idem : ∀ xs : List PyVal, freezeList (freezeList xs) = freezeList xs
  | [] => rfl
  | x :: xs => by simp only [freezeList, freeze_idem x, freezeList_idem xs]
theorem freezeKVs_idem : ∀ kvs : List (PyVal × PyVal), freezeKVs (freezeKVs kvs) = freezeKVs kvs
  | [] => rfl
  | (k, v) :: t => by simp only [freezeKVs, freeze_idem v, freezeKVs_idem t]
end

/-! ### an immutable value is returned as it is -/

mutual
theorem freeze_of_isFrozen : ∀ v : PyVal, v.isFrozen = true → freeze v = v
  | .str _, _ => rfl
  | .int _, _ => rfl
  | .other _, _ => rfl
  | .dict _, h => by simp [isFrozen] at h
  | .set _, h => by simp [isFrozen] at h
  | .list _, h => by simp [isFrozen] at h
  | .setlike _, h => by simp [isFrozen] at h
  | .seqlike _, h => by simp [isFrozen] at h
  | .maplike _, h => by simp [isFrozen] at h
  | .frozendict kvs, h => by
      simp only [isFrozen] at h
      simp only [freeze, freezeKVs_of_isFrozen kvs h]
  | .frozenset _, _ => rfl
  | .tuple xs, h => by
      simp only [isFrozen] at h
      simp only [freeze, freezeList_of_isFrozen xs h]
theorem freezeList_of_isFrozen : ∀ xs : List PyVal, isFrozenList xs = true → freezeList xs = xs
  | [], _ => rfl
  | x :: xs, h => by
      simp only [isFrozenList, Bool.and_eq_true] at h
      simp only [freezeList, freeze_of_isFrozen x h.1, freezeList_of_isFrozen xs h.2]
theorem freezeKVs_of_isFrozen : ∀ kvs : List (PyVal × PyVal), isFrozenKVs kvs = true → freezeKVs kvs = kvs
  | [], _ => rfl
  | (k, v) :: t, h => by
      simp only [isFrozenKVs, Bool.and_eq_true] at h
      simp only [freezeKVs, freeze_of_isFrozen v h.1.2, freezeKVs_of_isFrozen t h.2]
end

/-! ### no mutable container survives (keys and set elements hashable: `supported`) -/

mutual
theorem isFrozen_freeze : ∀ v : PyVal, v.supported = true → (freeze v).isFrozen = true
  | .str _, _ => rfl
  | .int _, _ => rfl
  | .other _, _ => rfl
  | .dict kvs, h => by
      simp only [supported] at h
      simp only [freeze, isFrozen, isFrozenKVs_freezeKVs kvs h]
  | .frozendict kvs, h => by
      simp only [supported] at h
      simp only [freeze, isFrozen, isFrozenKVs_freezeKVs kvs h]
  | .set xs, h => by
      simp only [supported] at h
      simp only [freeze, isFrozen, isFrozenList_freezeList_of_frozen xs h]
  | .list xs, h => by
      simp only [supported] at h
      simp only [freeze, isFrozen, isFrozenList_freezeList xs h]
  | .frozenset xs, h => by
      simp only [supported] at h
      simp only [freeze, isFrozen, h]
  | .tuple xs, h => by
      simp only [supported] at h
      simp only [freeze, isFrozen, isFrozenList_freezeList xs h]
  | .setlike xs, h => by
      simp only [supported] at h
      simp only [freeze, isFrozen, isFrozenList_freezeList xs h]
  | .seqlike xs, h => by
      simp only [supported] at h
      simp only [freeze, isFrozen, isFrozenList_freezeList xs h]
  | .maplike kvs, h => by
      simp only [supported] at h
      simp only [freeze, isFrozen, isFrozenKVs_freezeKVs kvs h]
theorem isFrozenList_freezeList : ∀ xs : List PyVal, supportedList xs = true →
    isFrozenList (freezeList xs) = true
  | [], _ => rfl
  | x :: xs, h => by
      simp only [supportedList, Bool.and_eq_true] at h
      simp only [freezeList, isFrozenList, isFrozen_freeze x h.1, isFrozenList_freezeList xs h.2,
        Bool.and_self]
theorem isFrozenKVs_freezeKVs : ∀ kvs : List (PyVal × PyVal), supportedKVs kvs = true →
    isFrozenKVs (freezeKVs kvs) = true
  | [], _ => rfl
  | (k, v) :: t, h => by
      simp only [supportedKVs, Bool.and_eq_true] at h
      simp only [freezeKVs, isFrozenKVs, h.1.1, isFrozen_freeze v h.1.2, isFrozenKVs_freezeKVs t h.2,
        Bool.and_self]
theorem isFrozenList_freezeList_of_frozen : ∀ xs : List PyVal, isFrozenList xs = true →
    isFrozenList (freezeList xs) = true
  | [], _ => rfl
  | x :: xs, h => by
      simp only [isFrozenList, Bool.and_eq_true] at h
      simp only [freezeList, isFrozenList, freeze_of_isFrozen x h.1, h.1,
        isFrozenList_freezeList_of_frozen xs h.2, Bool.and_self]
end

theorem freezeList_eq_map (xs : List PyVal) : freezeList xs = xs.map freeze := by
  induction xs with
  | nil => rfl
  | cons x t ih => simp [freezeList, ih]

theorem freezeKVs_eq_map (kvs : List (PyVal × PyVal)) :
    freezeKVs kvs = kvs.map fun kv => (kv.1, kv.2.freeze) := by
  induction kvs with
  | nil => rfl
  | cons kv t ih => obtain ⟨k, v⟩ := kv; simp [freezeKVs, ih]

/-! ### an immutable (= hashable) value is supported; supported values stay supported -/

mutual
theorem supported_of_isFrozen : ∀ v : PyVal, v.isFrozen = true → v.supported = true
  | .str _, _ => rfl
  | .int _, _ => rfl
  | .other _, _ => rfl
  | .dict _, h => by simp [isFrozen] at h
  | .set _, h => by simp [isFrozen] at h
  | .list _, h => by simp [isFrozen] at h
  | .setlike _, h => by simp [isFrozen] at h
  | .seqlike _, h => by simp [isFrozen] at h
  | .maplike _, h => by simp [isFrozen] at h
  | .frozendict kvs, h => by
      simp only [isFrozen] at h
      simp only [supported, supportedKVs_of_isFrozen kvs h]
  | .frozenset xs, h => by
      simp only [isFrozen] at h
      simp only [supported, h]
  | .tuple xs, h => by
      simp only [isFrozen] at h
      simp only [supported, supportedList_of_isFrozen xs h]
theorem supportedList_of_isFrozen : ∀ xs : List PyVal, isFrozenList xs = true → supportedList xs = true
  | [], _ => rfl
  | x :: xs, h => by
      simp only [isFrozenList, Bool.and_eq_true] at h
      simp only [supportedList, supported_of_isFrozen x h.1, supportedList_of_isFrozen xs h.2,
        Bool.and_self]
theorem supportedKVs_of_isFrozen : ∀ kvs : List (PyVal × PyVal), isFrozenKVs kvs = true →
    supportedKVs kvs = true
  | [], _ => rfl
  | (k, v) :: t, h => by
      simp only [isFrozenKVs, Bool.and_eq_true] at h
      simp only [supportedKVs, h.1.1, supported_of_isFrozen v h.1.2, supportedKVs_of_isFrozen t h.2,
        Bool.and_self]
end

end AV.VA.PyVal
