/-
Proofs/MinPrepass.lean — the pre-pass of `DFA.minify` (core only).

`minifyKept d` is (accessible ∩ co-accessible) ∪ {init} for a partial `d` and the
BFS-reachable states for a complete one.  For a valid, Python-shaped `d`:
* the arguments handed to `_minify` satisfy `MinHyp`, every kept state is reachable inside
  the refinement system, and
* the refinement system restricted to the kept states has, from every kept state, the
  right language of that state in `d` (a transition into a pruned state leads to a state
  from which no final state is reachable, which is what the trap stands for).
Also: co-accessible = live (`mem_coaccessible_iff_live`), the computable reading of
`DFA.Live`.
-/
import AutomataVerif.Proofs.MinQuotient

namespace AV
namespace DFA

set_option linter.unusedSectionVars false

variable {σ α : Type} [DecidableEq σ] [DecidableEq α]

/-! ### the digraph -/
section graph
variable (d : DFA σ α)

theorem states_sub_graphNodes {q : σ} (h : q ∈ d.states) : q ∈ d.graphNodes := by
  unfold graphNodes; rw [mem_dedup]
  exact List.mem_append_left _ (List.mem_append_left _ h)

theorem keys_sub_graphNodes {q : σ} (h : q ∈ akeys d.trans) : q ∈ d.graphNodes := by
  unfold graphNodes; rw [mem_dedup]
  exact List.mem_append_left _ (List.mem_append_right _ h)

theorem row_mem_trans {q : σ} {e : α × σ} (h : e ∈ d.row q) : (q, d.row q) ∈ d.trans := by
  unfold row row? at h ⊢
  cases hr : alookup q d.trans with
  | none => simp [hr] at h
  | some r => simpa using alookup_some_mem hr

theorem succStates_sub_graphNodes {u v : σ} (h : v ∈ d.succStates u) : v ∈ d.graphNodes := by
  unfold succStates at h
  obtain ⟨e, he, hv⟩ := List.mem_map.mp h
  unfold graphNodes; rw [mem_dedup]
  refine List.mem_append_right _ (List.mem_flatMap.mpr ⟨(u, d.row u), row_mem_trans d he, ?_⟩)
  exact h

theorem predStates_sub_keys {u v : σ} (h : v ∈ d.predStates u) : v ∈ akeys d.trans := by
  unfold predStates at h
  obtain ⟨kv, hkv, hv⟩ := List.mem_map.mp h
  exact List.mem_map.mpr ⟨kv, (List.mem_filter.mp hkv).1, hv⟩

theorem step?_succ {q t : σ} {a : α} (h : d.step? (some q) a = some t) : t ∈ d.succStates q :=
  alookup_some_val_mem (k := a) h

theorem succ_pred {q t : σ} (h : t ∈ d.succStates q) : q ∈ d.predStates t := by
  unfold succStates at h
  obtain ⟨e, he, _⟩ := List.mem_map.mp h
  unfold predStates
  refine List.mem_map.mpr ⟨(q, d.row q), List.mem_filter.mpr ⟨row_mem_trans d he, ?_⟩, rfl⟩
  simpa using h

theorem succ_step? (hr : ∀ kv ∈ d.trans, (akeys kv.2).Nodup) {q t : σ} (h : t ∈ d.succStates q) :
    ∃ a, d.step? (some q) a = some t := by
  unfold succStates at h
  obtain ⟨e, he, hv⟩ := List.mem_map.mp h
  obtain ⟨a, t'⟩ := e
  cases hv
  exact ⟨a, alookup_of_mem_nodup (hr _ (row_mem_trans d he)) he⟩

theorem pred_step? (hk : (akeys d.trans).Nodup) (hr : ∀ kv ∈ d.trans, (akeys kv.2).Nodup)
    {q t : σ} (h : q ∈ d.predStates t) : ∃ a, d.step? (some q) a = some t := by
  unfold predStates at h
  obtain ⟨kv, hkv, hq⟩ := List.mem_map.mp h
  obtain ⟨hmem, ht⟩ := List.mem_filter.mp hkv
  obtain ⟨q', r⟩ := kv
  have hq' : q = q' := hq.symm
  subst hq'
  have hrow : d.row q = r := by
    unfold row row?
    rw [alookup_of_mem_nodup hk hmem]; rfl
  have ht' : t ∈ avals r := by simpa using ht
  obtain ⟨e, he, hv⟩ := List.mem_map.mp ht'
  obtain ⟨a, t'⟩ := e
  have hv' : t = t' := hv.symm
  subst hv'
  refine ⟨a, ?_⟩
  show alookup a (d.row q) = some t
  rw [hrow]
  exact alookup_of_mem_nodup (hr _ hmem) he

variable {d}

theorem mem_accessible_iff (wf : d.WF) {q : σ} :
    q ∈ d.accessible ↔ Reach d.succStates d.init q := by
  unfold accessible
  rw [mem_bfs_iff d.succStates (univ := d.graphNodes) (srcs := [d.init])]
  · simp
  · intro s hs
    simp at hs; subst hs
    exact states_sub_graphNodes d wf.initOk
  · intro u _ v hv; exact succStates_sub_graphNodes d hv

theorem mem_coaccessible_iff (wf : d.WF) {q : σ} :
    q ∈ d.coaccessible ↔ ∃ f ∈ d.finals, Reach d.predStates f q := by
  unfold coaccessible
  rw [mem_bfs_iff d.predStates (univ := d.graphNodes) (srcs := d.finals)]
  · intro s hs; exact states_sub_graphNodes d (wf.finalsOk s hs)
  · intro u _ v hv; exact keys_sub_graphNodes d (predStates_sub_keys d hv)

theorem reach_states (wf : d.WF) {q : σ} (h : Reach d.succStates d.init q) : q ∈ d.states := by
  induction h with
  | refl => exact wf.initOk
  | tail _ hc _ =>
    unfold succStates at hc
    obtain ⟨e, he, _⟩ := List.mem_map.mp hc
    exact wf.tgtOk _ (row_mem_trans d he) _ hc

/-- Live states are co-accessible. -/
theorem coaccessible_of_live (wf : d.WF) {q : σ} (h : d.Live q) : q ∈ d.coaccessible := by
  obtain ⟨w, hw⟩ := h
  rw [mem_coaccessible_iff wf]
  induction w generalizing q with
  | nil =>
    refine ⟨q, ?_, Reach.refl q⟩
    simpa [isFinal] using hw
  | cons a w ih =>
    rw [run_cons] at hw
    cases hs : d.step? (some q) a with
    | none => rw [hs, run_none] at hw; cases hw
    | some t =>
      rw [hs] at hw
      obtain ⟨f, hf, hr⟩ := ih hw
      exact ⟨f, hf, Reach.tail hr (succ_pred d (step?_succ d hs))⟩

/-- Co-accessible states of a Python-shaped table are live. -/
theorem live_of_coaccessible (wf : d.WF) (hk : (akeys d.trans).Nodup)
    (hr : ∀ kv ∈ d.trans, (akeys kv.2).Nodup) {q : σ} (h : q ∈ d.coaccessible) : d.Live q := by
  obtain ⟨f, hf, hreach⟩ := (mem_coaccessible_iff wf).mp h
  clear h
  induction hreach with
  | refl => exact ⟨[], by simp [isFinal, hf]⟩
  | tail _ hc ih =>
    obtain ⟨w, hw⟩ := ih
    obtain ⟨a, ha⟩ := pred_step? d hk hr hc
    exact ⟨a :: w, by rw [run_cons, ha]; exact hw⟩

/-- The computable reading of liveness: `get_reachable_nodes(graph, final_states, reversed)`. -/
theorem mem_coaccessible_iff_live (wf : d.WF) (ps : d.PyShape) {q : σ} :
    q ∈ d.coaccessible ↔ d.Live q :=
  ⟨live_of_coaccessible wf ps.keys_nodup ps.rows_nodup, coaccessible_of_live wf⟩

end graph

/-! ### the kept states -/
section kept
variable {d : DFA σ α}

/-- The states that survive the pre-pass, declaratively. -/
theorem mem_minifyKept_iff (wf : d.WF) {q : σ} :
    q ∈ d.minifyKept ↔
      q = d.init ∨ (Reach d.succStates d.init q ∧ (d.allowPartial = false ∨ q ∈ d.coaccessible)) := by
  unfold minifyKept
  cases hp : d.allowPartial with
  | true =>
    simp only [if_true, mem_sinsert, List.mem_filter, decide_eq_true_eq, mem_accessible_iff wf]
    simp
  | false =>
    simp only [Bool.false_eq_true, if_false, bfsStates]
    rw [mem_bfsN_iff (succ := fun s => avals (d.row s)) (univ := d.graphNodes) (srcs := [d.init])
      (Nat.lt_succ_self _)]
    · simp only [List.mem_singleton, exists_eq_left, true_or, and_true]
      constructor
      · intro h; exact Or.inr h
      · rintro (h | h)
        · subst h; exact Reach.refl _
        · exact h
    · intro s hs
      simp at hs; subst hs
      exact states_sub_graphNodes d wf.initOk
    · intro u _ v hv; exact succStates_sub_graphNodes d hv

theorem nodup_minifyKept (wf : d.WF) : d.minifyKept.Nodup := by
  unfold minifyKept
  cases hp : d.allowPartial with
  | true =>
    simp only [if_true]
    refine nodup_sinsert (List.Nodup.sublist List.filter_sublist ?_)
    unfold accessible
    exact nodup_bfs d.succStates (univ := d.graphNodes)
      (fun s hs => by simp at hs; subst hs; exact states_sub_graphNodes d wf.initOk)
      (fun u _ v hv => succStates_sub_graphNodes d hv)
  | false =>
    simp only [Bool.false_eq_true, if_false, bfsStates]
    exact nodup_bfsN (succ := fun s => avals (d.row s)) (univ := d.graphNodes) (Nat.lt_succ_self _)
      (fun s hs => by simp at hs; subst hs; exact states_sub_graphNodes d wf.initOk)
      (fun u _ v hv => succStates_sub_graphNodes d hv)

theorem init_mem_minifyKept (wf : d.WF) : d.init ∈ d.minifyKept :=
  (mem_minifyKept_iff wf).mpr (Or.inl rfl)

theorem minifyKept_reach (wf : d.WF) {q : σ} (h : q ∈ d.minifyKept) :
    Reach d.succStates d.init q := by
  rcases (mem_minifyKept_iff wf).mp h with h | h
  · subst h; exact Reach.refl _
  · exact h.1

theorem minifyKept_sub_states (wf : d.WF) {q : σ} (h : q ∈ d.minifyKept) : q ∈ d.states :=
  reach_states wf (minifyKept_reach wf h)

/-- A transition from a kept state to a pruned state leads to a dead state. -/
theorem pruned_dead (wf : d.WF) {q t : σ} {a : α} (hq : q ∈ d.minifyKept)
    (hs : d.step? (some q) a = some t) (ht : t ∉ d.minifyKept) : ¬ d.Live t := by
  intro hl
  apply ht
  have hr : Reach d.succStates d.init t := Reach.tail (minifyKept_reach wf hq) (step?_succ d hs)
  exact (mem_minifyKept_iff wf).mpr (Or.inr ⟨hr, Or.inr (coaccessible_of_live wf hl)⟩)

/-- `reachable_final_states`. -/
abbrev minifyFinals (d : DFA σ α) : List σ := d.finals.filter fun q => decide (q ∈ d.minifyKept)

/-- From every kept state, the refinement system (with any final-state list that agrees with
`d.finals` on the kept states) accepts exactly the right language of that state in `d`. -/
theorem prepass_right_lang' (wf : d.WF) {fin : List σ}
    (hfin : ∀ q ∈ d.minifyKept, (q ∈ fin ↔ q ∈ d.finals)) {q : σ} (hq : q ∈ d.minifyKept)
    (w : List α) :
    mfin fin (mrun d.minifyKept d.trans (some q) w) = d.isFinal (d.run (some q) w) := by
  induction w generalizing q with
  | nil => simp [mfin, isFinal, hfin q hq]
  | cons a w ih =>
    rw [mrun_cons_eq, run_cons]
    cases hs : d.step? (some q) a with
    | none =>
      have hs' : alookup a ((alookup q d.trans).getD []) = none := hs
      have : mdelta d.minifyKept d.trans (some q) a = none := by simp [mdelta, hs']
      rw [this, mrun_none, run_none]; rfl
    | some t =>
      have hs' : alookup a ((alookup q d.trans).getD []) = some t := hs
      by_cases ht : t ∈ d.minifyKept
      · have : mdelta d.minifyKept d.trans (some q) a = some t := by simp [mdelta, hs', ht]
        rw [this]; exact ih ht
      · have : mdelta d.minifyKept d.trans (some q) a = none := by simp [mdelta, hs', ht]
        rw [this, mrun_none]
        have hd := pruned_dead wf hq hs ht
        cases hf : d.isFinal (d.run (some t) w) with
        | false => rfl
        | true => exact absurd ⟨w, hf⟩ hd

theorem prepass_right_lang (wf : d.WF) {q : σ} (hq : q ∈ d.minifyKept) (w : List α) :
    mfin d.minifyFinals (mrun d.minifyKept d.trans (some q) w) = d.isFinal (d.run (some q) w) :=
  prepass_right_lang' wf (fun q hq => by simp [List.mem_filter, hq]) hq w

/-- **3. Language of the pre-pass**: the system handed to `_minify` accepts `d`'s language. -/
theorem prepass_accepts (wf : d.WF) (w : List α) :
    mfin d.minifyFinals (mrun d.minifyKept d.trans (some d.init) w) = d.accepts w :=
  prepass_right_lang wf (init_mem_minifyKept wf) w

/-- **3. `MinHyp` for the pre-pass.** -/
theorem prepass_minHyp (wf : d.WF) (hsyms : d.syms.Nodup) :
    MinHyp d.minifyKept d.syms d.trans d.init d.minifyFinals where
  kept_nodup := nodup_minifyKept wf
  syms_nodup := hsyms
  init_mem := init_mem_minifyKept wf
  finals_sub := fun q hq => by simpa using (List.mem_filter.mp hq).2
  rows := fun q hq => wf.rows q (minifyKept_sub_states wf hq)
  keys := fun q r hr a ha => wf.symsOk (q, r) (alookup_some_mem hr) a ha

/-- Every kept state is reachable from `init` inside the refinement system. -/
theorem prepass_reach (wf : d.WF) (hr : ∀ kv ∈ d.trans, (akeys kv.2).Nodup) {q : σ}
    (hq : q ∈ d.minifyKept) : ∃ w, mrun d.minifyKept d.trans (some d.init) w = some q := by
  have key : ∀ b, Reach d.succStates d.init b →
      (d.allowPartial = false ∨ b ∈ d.coaccessible) →
      ∃ w, mrun d.minifyKept d.trans (some d.init) w = some b := by
    intro b hb
    induction hb with
    | refl => intro _; exact ⟨[], rfl⟩
    | @tail b c hb hc ih =>
      intro hk
      have hkb : d.allowPartial = false ∨ b ∈ d.coaccessible := by
        rcases hk with hk | hk
        · exact Or.inl hk
        · refine Or.inr ?_
          obtain ⟨f, hf, hfc⟩ := (mem_coaccessible_iff wf).mp hk
          exact (mem_coaccessible_iff wf).mpr ⟨f, hf, Reach.tail hfc (succ_pred d hc)⟩
      obtain ⟨w, hw⟩ := ih hkb
      obtain ⟨a, ha⟩ := succ_step? d hr hc
      have hck : c ∈ d.minifyKept := (mem_minifyKept_iff wf).mpr (Or.inr ⟨Reach.tail hb hc, hk⟩)
      have ha' : alookup a ((alookup b d.trans).getD []) = some c := ha
      refine ⟨w ++ [a], ?_⟩
      rw [mrun_append, hw]
      simp [mdelta, ha', hck]
  rcases (mem_minifyKept_iff wf).mp hq with h | h
  · subst h; exact ⟨[], rfl⟩
  · exact key q h.1 h.2

end kept

end DFA
end AV
