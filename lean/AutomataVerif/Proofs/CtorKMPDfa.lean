/-
Proofs/CtorKMPDfa.lean — from_substring / from_suffix (C15): from the verified `kmp_table` and
transition function to the DFA: validity, the state invariant, the language, minimality.
Core only.
-/
import AutomataVerif.Proofs.CtorKMP

namespace AV.Ctor.KMP

set_option linter.unusedSectionVars false
set_option linter.unusedVariables false
set_option linter.unusedSimpArgs false

variable {α : Type} [DecidableEq α]

/-- The value of a result that is known to be `.ok`. -/
def getOk (r : Res Int) : Int :=
  match r with
  | .ok v => v
  | .error _ => 0

theorem rowOfM_ok (f : α → Res Int) (syms : List α) (h : ∀ a ∈ syms, ∃ v, f a = .ok v) :
    rowOfM f syms = .ok (rowOf syms fun a => getOk (f a)) := by
  induction syms with
  | nil => rfl
  | cons a t ih =>
    obtain ⟨v, hv⟩ := h a (by simp)
    unfold rowOfM
    rw [hv, ih (fun b hb => h b (List.mem_cons_of_mem _ hb))]
    simp [rowOf, getOk, hv]

theorem rowsM_ok (f : Nat → Res (List (α × Int))) (g : Nat → List (α × Int)) :
    ∀ (n start : Nat), (∀ i, start ≤ i → i < start + n → f i = .ok (g i)) →
      rowsM f n start = .ok ((List.range' start n).map fun i => (nat i, g i)) := by
  intro n
  induction n with
  | zero => intro start _; rfl
  | succ n ih =>
    intro start h
    unfold rowsM
    rw [h start (Nat.le_refl _) (by omega), ih (start + 1) (fun i h1 h2 => h i (by omega) (by omega))]
    simp [List.range'_succ]

section dfa
variable (syms p : List α) (T : List Int)

/-- The next-state function the table is filled with: the KMP transition below the accepting
state (and at it in suffix mode), the self-loop of the accepting state in substring mode. -/
def kmpDelta (sf : Bool) (i : Nat) (a : α) : Int :=
  if i < p.length ∨ sf = true then getOk (kmpNext p T i a) else nat p.length

def kmpTrans (sf : Bool) : List (Int × List (α × Int)) :=
  (List.range (p.length + 1)).map fun i => (nat i, rowOf syms (kmpDelta p T sf i))

def kmpDFA (contains sf : Bool) : DFA Int α :=
  { states := akeys (kmpTrans syms p T sf), syms := syms, trans := kmpTrans syms p T sf, init := 0,
    finals := if contains then [nat p.length] else sdiff (akeys (kmpTrans syms p T sf)) [nat p.length],
    allowPartial := false }

variable (hT : TableOK p T)
include hT

theorem kmpNext_ok (sf : Bool) (hsf : sf = true → p ≠ []) (i : Nat) (hi : i < p.length ∨ (sf = true ∧ i = p.length))
    (a : α) : ∃ v, kmpNext p T i a = .ok v := by
  rcases hi with hi | ⟨h1, rfl⟩
  · obtain ⟨r, hr, _⟩ := kmpNext_lt p T hT i hi a; exact ⟨_, hr⟩
  · obtain ⟨b, r, _, hr, _⟩ := kmpNext_full p T hT (hsf h1) a; exact ⟨_, hr⟩

theorem fromSubstring_eq (hk : kmpTable p = .ok T) (contains sf : Bool) (hpne : p ≠ []) :
    fromSubstring syms p contains sf = build (kmpDFA syms p T contains sf) := by
  have hsf : sf = true → p ≠ [] := fun _ => hpne
  unfold fromSubstring
  have hemp : p.isEmpty = false := by
    cases p with
    | nil => exact absurd rfl hpne
    | cons a t => rfl
  rw [hemp]
  simp only [Bool.false_eq_true, if_false]
  rw [hk]
  simp only
  have hrows : rowsM (fun i => rowOfM (kmpNext p T i) syms) (if sf = true then p.length + 1 else p.length) 0 =
      .ok ((List.range' 0 (if sf = true then p.length + 1 else p.length)).map fun i =>
        (nat i, rowOf syms fun a => getOk (kmpNext p T i a))) := by
    apply rowsM_ok
    intro i _ hi
    apply rowOfM_ok
    intro a _
    apply kmpNext_ok p T hT sf hsf i _ a
    cases sf with
    | true =>
      simp only [if_true] at hi
      by_cases h : i < p.length
      · exact Or.inl h
      · exact Or.inr ⟨rfl, by omega⟩
    | false =>
      simp only [Bool.false_eq_true, if_false] at hi
      exact Or.inl (by omega)
  rw [hrows]
  simp only
  have htab : (if sf = true then
        (List.range' 0 (if sf = true then p.length + 1 else p.length)).map fun i =>
          (nat i, rowOf syms fun a => getOk (kmpNext p T i a))
      else
        ((List.range' 0 (if sf = true then p.length + 1 else p.length)).map fun i =>
          (nat i, rowOf syms fun a => getOk (kmpNext p T i a))) ++
          [(nat p.length, rowOf syms fun _ => nat p.length)]) = kmpTrans syms p T sf := by
    unfold kmpTrans
    rw [List.range_eq_range']
    cases sf with
    | true =>
      simp only [if_true]
      apply List.map_congr_left
      intro i _
      have : (fun a => getOk (kmpNext p T i a)) = kmpDelta p T true i := by
        funext a; simp [kmpDelta]
      rw [this]
    | false =>
      simp only [Bool.false_eq_true, if_false]
      rw [List.range'_1_concat, List.map_append]
      congr 1
      · apply List.map_congr_left
        intro i hi
        have hlt : i < p.length := by simpa using (List.mem_range'_1.mp hi).2
        have : (fun a => getOk (kmpNext p T i a)) = kmpDelta p T false i := by
          funext a; simp [kmpDelta, hlt]
        rw [this]
      · have : (fun _ : α => nat p.length) = kmpDelta p T false (0 + p.length) := by
          funext a; simp [kmpDelta]
        simp only [List.map_cons, List.map_nil]
        rw [this, Nat.zero_add]
  rw [htab]
  rfl

/-- The transition function as a function on state numbers. -/
def kmpStepN (sf : Bool) (i : Nat) (a : α) : Nat := (kmpDelta p T sf i a).toNat

theorem kmpDelta_spec (sf : Bool) (hsf : sf = true → p ≠ []) (i : Nat) (hi : i ≤ p.length) (a : α) :
    kmpDelta p T sf i a = nat (kmpStepN p T sf i a) ∧ kmpStepN p T sf i a ≤ p.length ∧
    (i < p.length → ∀ w, IsLps p w i → IsLps p (w ++ [a]) (kmpStepN p T sf i a)) ∧
    (i = p.length → sf = true → ∀ w, IsLps p w i → IsLps p (w ++ [a]) (kmpStepN p T sf i a)) ∧
    (i = p.length → sf = false → kmpStepN p T sf i a = p.length) := by
  unfold kmpStepN
  by_cases h1 : i < p.length
  · obtain ⟨r, hr, hb⟩ := kmpNext_lt p T hT i h1 a
    have e : kmpDelta p T sf i a = r + 1 := by unfold kmpDelta; simp [h1, hr, getOk]
    obtain ⟨k, hk, hkm⟩ := hb.succ_range
    rw [e]
    have e2 : (r + 1).toNat = k := by rw [hk, nat_cast]; omega
    refine ⟨by rw [e2, hk], by rw [e2]; exact hkm, ?_, fun h => by omega, fun h => by omega⟩
    intro _ w hw
    exact lps_snoc_lt p h1 hw hb
  · have h2 : i = p.length := by omega
    subst h2
    cases sf with
    | true =>
      obtain ⟨b, r, hw, hr, hb⟩ := kmpNext_full p T hT (hsf rfl) a
      have e : kmpDelta p T true p.length a = r + 1 := by unfold kmpDelta; simp [hr, getOk]
      obtain ⟨k, hk, hkm⟩ := hb.succ_range
      rw [e]
      have e2 : (r + 1).toNat = k := by rw [hk, nat_cast]; omega
      refine ⟨by rw [e2, hk], by rw [e2]; exact hkm, fun h => absurd h h1, ?_,
        (fun _ (h : true = false) => nomatch h)⟩
      intro _ _ w hl
      exact lps_snoc_full p hl hw hb
    | false =>
      have e : kmpDelta p T false p.length a = nat p.length := by unfold kmpDelta; simp
      have e2 : (nat p.length).toNat = p.length := by rw [nat_cast]; omega
      rw [e, e2]
      exact ⟨rfl, Nat.le_refl _, fun h => absurd h h1, (fun _ (h : false = true) => nomatch h),
        fun _ _ => rfl⟩

theorem mem_kmp_states (sf : Bool) (q : Int) :
    q ∈ akeys (kmpTrans syms p T sf) ↔ ∃ i, i ≤ p.length ∧ q = nat i := by
  unfold kmpTrans
  rw [akeys_rangeMap]
  simp only [List.mem_map, List.mem_range]
  constructor
  · rintro ⟨i, hi, rfl⟩; exact ⟨i, by omega, rfl⟩
  · rintro ⟨i, hi, rfl⟩; exact ⟨i, by omega, rfl⟩

theorem kmpDFA_wf (contains sf : Bool) (hsf : sf = true → p ≠ []) : (kmpDFA syms p T contains sf).WF := by
  apply wf_of_table
  · intro q; rfl
  · intro kv hkv a
    simp only [kmpDFA, kmpTrans, List.mem_map, List.mem_range] at hkv
    obtain ⟨i, _, rfl⟩ := hkv
    simp [kmpDFA]
  · intro kv hkv q hq
    simp only [kmpDFA, kmpTrans, List.mem_map, List.mem_range] at hkv
    obtain ⟨i, hi, rfl⟩ := hkv
    simp only [avals_rowOf, List.mem_map] at hq
    obtain ⟨a, _, rfl⟩ := hq
    show _ ∈ akeys (kmpTrans syms p T sf)
    rw [mem_kmp_states syms p T hT]
    obtain ⟨h1, h2, _⟩ := kmpDelta_spec p T hT sf hsf i (by omega) a
    exact ⟨_, h2, h1⟩
  · show (0 : Int) ∈ akeys (kmpTrans syms p T sf)
    rw [mem_kmp_states syms p T hT]; exact ⟨0, Nat.zero_le _, rfl⟩
  · intro q hq
    show q ∈ akeys (kmpTrans syms p T sf)
    cases contains with
    | true =>
      simp only [kmpDFA, if_true, List.mem_singleton] at hq
      rw [mem_kmp_states syms p T hT]; exact ⟨p.length, Nat.le_refl _, hq⟩
    | false =>
      simp only [kmpDFA, Bool.false_eq_true, if_false, mem_sdiff] at hq
      exact hq.1

theorem kmpDFA_step (contains sf : Bool) (hsf : sf = true → p ≠ []) (i : Nat) (hi : i ≤ p.length)
    (a : α) (ha : a ∈ syms) :
    (kmpDFA syms p T contains sf).step? (some (nat i)) a = some (nat (kmpStepN p T sf i a)) := by
  simp only [DFA.step?, DFA.row, DFA.row?, kmpDFA, kmpTrans]
  rw [alookup_rangeMap]
  have : i < p.length + 1 := by omega
  simp only [this, if_true, Option.getD_some, alookup_rowOf, ha]
  rw [(kmpDelta_spec p T hT sf hsf i hi a).1]

theorem kmpDFA_run (contains sf : Bool) (hsf : sf = true → p ≠ []) (i : Nat) (hi : i ≤ p.length)
    (w : List α) (hw : Over syms w) :
    (kmpDFA syms p T contains sf).run (some (nat i)) w = some (nat (w.foldl (kmpStepN p T sf) i)) ∧
      w.foldl (kmpStepN p T sf) i ≤ p.length :=
  run_sim (kmpDFA syms p T contains sf) nat (kmpStepN p T sf) (fun i => i ≤ p.length)
    (fun i a hi ha => ⟨kmpDFA_step syms p T hT contains sf hsf i hi a ha,
      (kmpDelta_spec p T hT sf hsf i hi a).2.1⟩) w i hi hw

theorem kmp_fold_le (sf : Bool) (hsf : sf = true → p ≠ []) (w : List α) (i : Nat) (hi : i ≤ p.length) :
    w.foldl (kmpStepN p T sf) i ≤ p.length := by
  induction w generalizing i with
  | nil => exact hi
  | cons a w ih =>
    rw [List.foldl_cons]
    exact ih _ (kmpDelta_spec p T hT sf hsf i hi a).2.1

/-- **State invariant, suffix mode**: the state after `w` is the length of the longest prefix of
the pattern that is a suffix of `w`. -/
theorem kmp_inv_suffix (hp : p ≠ []) (w : List α) :
    IsLps p w (w.foldl (kmpStepN p T true) 0) := by
  induction w using snoc_induction with
  | h0 => exact IsLps.nil p
  | hs w a ih =>
    rw [List.foldl_append, List.foldl_cons, List.foldl_nil]
    have hle := kmp_fold_le p T hT true (fun _ => hp) w 0 (Nat.zero_le _)
    obtain ⟨_, _, h3, h4, _⟩ := kmpDelta_spec p T hT true (fun _ => hp) _ hle a
    by_cases h : w.foldl (kmpStepN p T true) 0 < p.length
    · exact h3 h w ih
    · exact h4 (by omega) rfl w ih

/-- **State invariant, substring mode**: absorbing at `|p|` once the pattern has occurred,
longest prefix-suffix before. -/
theorem kmp_inv_substring (w : List α) :
    (p <:+: w → w.foldl (kmpStepN p T false) 0 = p.length) ∧
    (¬ p <:+: w → IsLps p w (w.foldl (kmpStepN p T false) 0)) := by
  have hsf : false = true → p ≠ [] := fun h => by cases h
  induction w using snoc_induction with
  | h0 =>
    constructor
    · intro h
      have := List.eq_nil_of_infix_nil h
      subst this; rfl
    · intro _; exact IsLps.nil p
  | hs w a ih =>
    rw [List.foldl_append, List.foldl_cons, List.foldl_nil]
    have hle := kmp_fold_le p T hT false hsf w 0 (Nat.zero_le _)
    obtain ⟨_, _, h3, _, h5⟩ := kmpDelta_spec p T hT false hsf _ hle a
    by_cases hin : p <:+: w
    · -- already absorbed
      have e := ih.1 hin
      have hin' : p <:+: w ++ [a] := List.infix_concat_iff.mpr (Or.inr hin)
      refine ⟨fun _ => ?_, fun h => absurd hin' h⟩
      rw [e] at h5 ⊢
      exact h5 rfl rfl
    · have hl := ih.2 hin
      have hlt : w.foldl (kmpStepN p T false) 0 < p.length := by
        apply Classical.byContradiction; intro h
        have : w.foldl (kmpStepN p T false) 0 = p.length := by omega
        exact hin ((hl.full_iff p).mp this).isInfix
      have hl' := h3 hlt w hl
      constructor
      · intro h
        rcases List.infix_concat_iff.mp h with h | h
        · exact (hl'.full_iff p).mpr h
        · exact absurd h hin
      · intro _; exact hl'

theorem kmp_isFinal (contains sf : Bool) (k : Nat) (hk : k ≤ p.length) :
    (kmpDFA syms p T contains sf).isFinal (some (nat k)) = (decide (k = p.length) == contains) := by
  cases contains with
  | true => simp [DFA.isFinal, kmpDFA]
  | false =>
    simp only [DFA.isFinal, kmpDFA, Bool.false_eq_true, if_false, mem_sdiff, List.mem_singleton,
      nat_inj]
    have : nat k ∈ akeys (kmpTrans syms p T sf) := (mem_kmp_states syms p T hT sf _).mpr ⟨k, hk, rfl⟩
    by_cases h : k = p.length <;> simp [h, this]

/-- In both modes: the fold ends at `|p|` iff the mode's predicate holds. -/
theorem kmp_fold_top (sf : Bool) (hsf : sf = true → p ≠ []) (w : List α) :
    w.foldl (kmpStepN p T sf) 0 = p.length ↔ (if sf then p <:+ w else p <:+: w) := by
  cases sf with
  | true =>
    simp only [if_true]
    exact (kmp_inv_suffix p T hT (hsf rfl) w).full_iff p
  | false =>
    simp only [Bool.false_eq_true, if_false]
    obtain ⟨h1, h2⟩ := kmp_inv_substring p T hT w
    constructor
    · intro e
      apply Classical.byContradiction; intro hin
      exact hin (((h2 hin).full_iff p).mp e).isInfix
    · exact h1

theorem kmpDFA_accepts (contains sf : Bool) (hsf : sf = true → p ≠ []) (w : List α) :
    (kmpDFA syms p T contains sf).accepts w = true ↔
      Over syms w ∧ ((if sf then p <:+ w else p <:+: w) ↔ contains = true) := by
  by_cases hw : Over syms w
  · unfold DFA.accepts
    obtain ⟨h1, h2⟩ := kmpDFA_run syms p T hT contains sf hsf 0 (Nat.zero_le _) w hw
    rw [show (kmpDFA syms p T contains sf).init = nat 0 from rfl, h1,
      kmp_isFinal syms p T hT contains sf _ h2, ← kmp_fold_top p T hT sf hsf w]
    cases contains <;> simp [hw]
  · rw [accepts_false_of_not_over (kmpDFA_wf syms p T hT contains sf hsf) hw]; simp [hw]

/-- After reading `p[:i]` the automaton is in state `i`. -/
theorem kmp_fold_take (sf : Bool) (hsf : sf = true → p ≠ []) (i : Nat) (hi : i ≤ p.length) :
    (p.take i).foldl (kmpStepN p T sf) 0 = i := by
  have hself : IsLps p (p.take i) i := by
    refine ⟨⟨hi, List.suffix_refl _⟩, ?_⟩
    intro j hj
    have := hj.2.length_le
    rw [length_take_le' p hj.1, length_take_le' p hi] at this
    exact this
  cases sf with
  | true => exact (kmp_inv_suffix p T hT (hsf rfl) (p.take i)).unique p hself
  | false =>
    obtain ⟨h1, h2⟩ := kmp_inv_substring p T hT (p.take i)
    by_cases hin : p <:+: p.take i
    · have := hin.length_le
      rw [length_take_le' p hi] at this
      have e : i = p.length := by omega
      rw [h1 hin, e]
    · exact (h2 hin).unique p hself

/-- A word shorter than the pattern never leads to the accepting state. -/
theorem kmp_fold_short (sf : Bool) (hsf : sf = true → p ≠ []) (w : List α) (hw : w.length < p.length) :
    w.foldl (kmpStepN p T sf) 0 ≠ p.length := by
  rw [Ne, kmp_fold_top p T hT sf hsf w]
  cases sf with
  | true => simp only [if_true]; intro h; have := h.length_le; omega
  | false => simp only [Bool.false_eq_true, if_false]; intro h; have := h.length_le; omega

theorem kmpDFA_minimal (hp : ∀ c ∈ p, c ∈ syms) (contains sf : Bool) (hsf : sf = true → p ≠ []) :
    MinimalShape (kmpDFA syms p T contains sf) where
  nodup := by
    show (akeys (kmpTrans syms p T sf)).Nodup
    unfold kmpTrans
    rw [akeys_rangeMap]
    exact nodup_map_nat List.nodup_range
  reach := by
    intro q hq
    obtain ⟨i, hi, rfl⟩ := (mem_kmp_states syms p T hT sf q).mp hq
    have hov : Over syms (p.take i) := fun a ha => hp a (List.mem_of_mem_take ha)
    refine ⟨p.take i, hov, ?_⟩
    rw [show (kmpDFA syms p T contains sf).init = nat 0 from rfl,
      (kmpDFA_run syms p T hT contains sf hsf 0 (Nat.zero_le _) _ hov).1,
      kmp_fold_take p T hT sf hsf i hi]
  dist := by
    have key : ∀ i j, i < j → j ≤ p.length →
        Distinguishable (kmpDFA syms p T contains sf) (nat i) (nat j) := by
      intro i j hij hj
      have hov : Over syms (p.drop j) := fun a ha => hp a (List.mem_of_mem_drop ha)
      refine ⟨p.drop j, hov, ?_⟩
      obtain ⟨r1, b1⟩ := kmpDFA_run syms p T hT contains sf hsf i (by omega) _ hov
      obtain ⟨r2, b2⟩ := kmpDFA_run syms p T hT contains sf hsf j hj _ hov
      rw [r1, r2, kmp_isFinal syms p T hT contains sf _ b1, kmp_isFinal syms p T hT contains sf _ b2]
      -- from j: the whole pattern has been read
      have e2 : (p.drop j).foldl (kmpStepN p T sf) j = p.length := by
        have h := kmp_fold_take p T hT sf hsf j hj
        have : (p.take j ++ p.drop j).foldl (kmpStepN p T sf) 0 = p.length := by
          rw [List.take_append_drop]
          have := kmp_fold_take p T hT sf hsf p.length (Nat.le_refl _)
          rwa [List.take_length] at this
        rwa [List.foldl_append, h] at this
      -- from i: a word shorter than the pattern has been read
      have e1 : (p.drop j).foldl (kmpStepN p T sf) i ≠ p.length := by
        have h := kmp_fold_take p T hT sf hsf i (by omega)
        have := kmp_fold_short p T hT sf hsf (p.take i ++ p.drop j) (by
          rw [List.length_append, length_take_le' p (by omega), List.length_drop]; omega)
        rwa [List.foldl_append, h] at this
      rw [e2]
      simp only [e1, decide_false, decide_true]
      cases contains <;> simp
    intro a ha b hb hne
    obtain ⟨i, hi, rfl⟩ := (mem_kmp_states syms p T hT sf a).mp ha
    obtain ⟨j, hj, rfl⟩ := (mem_kmp_states syms p T hT sf b).mp hb
    have hij : i ≠ j := fun e => hne (by rw [e])
    rcases Nat.lt_or_gt_of_ne hij with h | h
    · exact key i j h hj
    · obtain ⟨w, hw, hd⟩ := key j i h hi
      exact ⟨w, hw, fun e => hd e.symm⟩

end dfa

/-- The empty pattern: `if not substring: return universal_language / empty_language` (the
repair of finding F10a; before it, suffix mode raised `IndexError`). -/
theorem fromSubstring_empty (syms : List α) (contains sf : Bool) :
    fromSubstring syms [] contains sf =
      if contains then universalLanguage syms else emptyLanguage syms := rfl

end AV.Ctor.KMP
