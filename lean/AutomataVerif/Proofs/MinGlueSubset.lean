/-
Proofs/MinGlueSubset.lean — `DFA.from_nfa(n, minify=True)`: the subset construction (C07,
Proofs/Subset.lean) meets the correctness of `_minify` (C05, Proofs/MinifyExpand.lean).

C07 proves that the BFS of `_expand_dfa` over the subset automaton is exhaustive
(`subset_expandHyp`, universe `powerset n.states`) and that its rows only use alphabet
symbols; C05 proves that the output of an exhaustive `_expand_dfa`, handed to `_minify` with
all its states, is a source describing it (`expand_minSource`).  Joined here (core only).
-/
import AutomataVerif.Proofs.Subset
import AutomataVerif.Proofs.MinifyExpand

namespace AV
namespace C07
open DFA

variable {σ α : Type} [DecidableEq σ] [DecidableEq α]

/-- The arguments with which `from_nfa(minify=True)` calls `_minify` — all states of the
subset DFA — are a source describing the subset DFA, unconditionally. -/
theorem toDFA_minSource {n : NFA σ α} (wf : n.WF) (ps : n.PyShape) :
    MinSource n.toDFA n.toDFA.states n.toDFA.finals :=
  expand_minSource n.subsetFinal n.syms (subset_expandHyp n (n.closure n.init)) ps.syms_nodup
    (fun u _ => subsetSucc_keys_sub wf u)

/-- The subset DFA has the language of the NFA (the statement of `C07_from_nfa_lang`, kept
here so that C05 can use it without importing Props/C07). -/
theorem toDFA_accepts {n : NFA σ α} (wf : n.WF) (ps : n.PyShape) (w : List α) :
    n.toDFA.accepts w = n.accepts w := by
  unfold NFA.toDFA
  rw [DFA.expand_accepts _ _ (subset_expandHyp n _) w]
  have h := subset_run wf ps w _ (fun q hq => NFA.closure_sub_states wf wf.initOk hq)
  cases hr : DFA.implRun n.subsetSucc (some (n.canon (n.closure n.init))) w <;>
    rw [hr] at h <;> exact h

/-- `_minify` as called by `from_nfa(minify=True)`: valid, duplicate-free, and accepts the
language of the refinement system it was given — for every pop order `pick`. -/
theorem toDFAMin_core {n : NFA σ α} (wf : n.WF) (ps : n.PyShape) (pick : List Nat → Nat) :
    (minifyCore n.toDFA.states n.toDFA.syms n.toDFA.trans n.toDFA.init n.toDFA.finals pick).validate
        = .ok () ∧
    (minifyCore n.toDFA.states n.toDFA.syms n.toDFA.trans n.toDFA.init n.toDFA.finals pick).PyShape ∧
    ∀ w, (minifyCore n.toDFA.states n.toDFA.syms n.toDFA.trans n.toDFA.init n.toDFA.finals
        pick).accepts w =
      mfin n.toDFA.finals (mrun n.toDFA.states n.toDFA.trans (some n.toDFA.init) w) := by
  have S := toDFA_minSource wf ps
  exact ⟨S.valid pick, S.pyShape pick,
    fun w => minifyCore_accepts S.hyp S.rows_nodup (hopcroft_nerode S.hyp pick) w⟩

end C07
end AV
