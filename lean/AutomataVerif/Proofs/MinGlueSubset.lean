/-
Proofs/MinGlueSubset.lean — `DFA.from_nfa(n, minify=True)`: the subset construction (C07,
Proofs/Subset.lean) meets the correctness of `_minify` (C05, Proofs/MinifyExpand.lean).

C07 proves that the BFS of `_expand_dfa` over the subset automaton is exhaustive
(`subset_expandHyp`, universe `powerset n.states`) and that its rows only use alphabet
symbols; C05 proves that the output of an exhaustive `_expand_dfa`, handed to `_minify` with
all its states, is a source describing it (`expand_minSource`).  Joined here (core only).
-/
import AutomataVerif.Proofs.Subset
import AutomataVerif.Proofs.MinifyExpand
import AutomataVerif.Proofs.Rename
import AutomataVerif.Proofs.ExpandValid

namespace AV
namespace C07
open DFA

variable {σ α : Type} [DecidableEq σ] [DecidableEq α]

/-- The arguments with which `from_nfa(minify=True)` calls `_minify` — all states of the
subset DFA — are a source describing the subset DFA, unconditionally. -/
theorem toDFA_minSource {n : NFA σ α} (wf : n.WF) (ps : n.PyShape) :
    MinSource n.toDFA n.toDFA.states n.toDFA.finals :=
  expand_minSource n.subsetFinal n.syms (subset_expandHyp n (n.closure n.init)) ps.syms_nodup
    (fun u _ => subsetSucc_keys_sub wf u)

/-- The subset DFA has the language of the NFA (the statement of `C07_from_nfa_lang`, kept
here so that C05 can use it without importing Props/C07). -/
theorem toDFA_accepts {n : NFA σ α} (wf : n.WF) (ps : n.PyShape) (w : List α) :
    n.toDFA.accepts w = n.accepts w := by
  unfold NFA.toDFA
  rw [DFA.expand_accepts _ _ (subset_expandHyp n _) w]
  have h := subset_run wf ps w _ (fun q hq => NFA.closure_sub_states wf wf.initOk hq)
  cases hr : DFA.implRun n.subsetSucc (some (n.canon (n.closure n.init))) w <;>
    rw [hr] at h <;> exact h

/-- `_minify` as called by `from_nfa(minify=True)`: valid, duplicate-free, and accepts the
language of the refinement system it was given — for every pop order `pick`. -/
theorem toDFAMin_core {n : NFA σ α} (wf : n.WF) (ps : n.PyShape) (pick : List Nat → Nat) :
    (minifyCore n.toDFA.states n.toDFA.syms n.toDFA.trans n.toDFA.init n.toDFA.finals pick).validate
        = .ok () ∧
    (minifyCore n.toDFA.states n.toDFA.syms n.toDFA.trans n.toDFA.init n.toDFA.finals pick).PyShape ∧
    ∀ w, (minifyCore n.toDFA.states n.toDFA.syms n.toDFA.trans n.toDFA.init n.toDFA.finals
        pick).accepts w =
      mfin n.toDFA.finals (mrun n.toDFA.states n.toDFA.trans (some n.toDFA.init) w) := by
  have S := toDFA_minSource wf ps
  exact ⟨S.valid pick, S.pyShape pick,
    fun w => minifyCore_accepts S.hyp S.rows_nodup (hopcroft_nerode S.hyp pick) w⟩

/-! ### the default options: `_minify` on the RENUMBERED subset DFA -/

/-- Every state of the renumbered subset DFA is reached, inside the renumbered DFA, by a
word (the BFS of `_expand_dfa` only names states it has discovered). -/
theorem toDFA_renumber_reach {n : NFA σ α} (wf : n.WF) :
    ∀ q ∈ n.toDFA.renumber.states,
      ∃ w, n.toDFA.renumber.run (some n.toDFA.renumber.init) w = some q := by
  have wfD : n.toDFA.WF :=
    expand_wf n.subsetFinal n.syms (subset_expandHyp n (n.closure n.init))
      (fun u _ => subsetSucc_keys_sub wf u)
  intro q hq
  obtain ⟨s, hs, rfl⟩ := List.mem_map.mp (show q ∈ n.toDFA.states.map _ from hq)
  obtain ⟨w, hw⟩ := expand_all_reachable n.subsetFinal n.syms
    (subset_expandHyp n (n.closure n.init)) s hs
  refine ⟨w, ?_⟩
  show n.toDFA.renumber.run (some (indexOf n.toDFA.init n.toDFA.states)) w = _
  rw [renumber_run wfD w n.toDFA.init wfD.initOk]
  have : n.toDFA.run (some n.toDFA.init) w = some s := hw
  rw [this]; rfl

/-- The arguments with which `from_nfa()` — default options `retain_names=False,
minify=True` — calls `_minify` (the renumbered table with all its states) are a source
describing the renumbered subset DFA. -/
theorem toDFA_renumber_minSource {n : NFA σ α} (wf : n.WF) (ps : n.PyShape) :
    MinSource n.toDFA.renumber n.toDFA.renumber.states n.toDFA.renumber.finals := by
  have hyp := subset_expandHyp n (n.closure n.init)
  have wfD : n.toDFA.WF :=
    expand_wf n.subsetFinal n.syms hyp (fun u _ => subsetSucc_keys_sub wf u)
  have psD : n.toDFA.PyShape := expand_pyShape n.subsetFinal n.syms hyp ps.syms_nodup
  have hk : ∀ k ∈ akeys n.toDFA.trans, k ∈ n.toDFA.states := by
    intro k hk
    have : akeys n.toDFA.trans = n.toDFA.states := C04.expand_keys_eq_states n.subsetFinal n.syms
    rw [← this]; exact hk
  refine minSource_of_trim (renumber_wf wfD) ?_ (toDFA_renumber_reach wf)
  rw [C04.renumber_eq_rename]
  exact C04.rename_pyShape _ wfD psD (C04.renumber_injOn n.toDFA hk)

/-- `_minify` as called by `from_nfa()` with the default options: valid, duplicate-free,
and with the language of the NFA — for every pop order `pick`. -/
theorem toDFAMinRenum_core {n : NFA σ α} (wf : n.WF) (ps : n.PyShape) (pick : List Nat → Nat) :
    (n.toDFAMinRenum pick).validate = .ok () ∧ (n.toDFAMinRenum pick).PyShape ∧
    ∀ w, (n.toDFAMinRenum pick).accepts w = n.accepts w := by
  have S := toDFA_renumber_minSource wf ps
  have wfD : n.toDFA.WF :=
    expand_wf n.subsetFinal n.syms (subset_expandHyp n (n.closure n.init))
      (fun u _ => subsetSucc_keys_sub wf u)
  refine ⟨S.valid pick, S.pyShape pick, fun w => ?_⟩
  show (minifyCore n.toDFA.renumber.states n.toDFA.renumber.syms n.toDFA.renumber.trans
    n.toDFA.renumber.init n.toDFA.renumber.finals pick).accepts w = _
  rw [S.accepts pick w, renumber_accepts wfD w, toDFA_accepts wf ps w]

end C07
end AV
