/-
Spec/TMTape.lean — what a stored `TMTape` stands for (trusted definitions of C03, Lean core only).

* `Tape.view t`   the two-way infinite tape a `TMTape` denotes: blank outside the stored cells,
                  indexed relative to the head (`view t 0` is the scanned cell);
* `shift d f`     moving the head over a head-relative tape `f`: the content shifts the other way.

`Spec/TM.lean` builds the reference semantics of the machines on these; `Proofs/TMTape.lean`
proves that `write_symbol` / `move` of the model act on the view as `update` / `shift`.
-/
import AutomataVerif.Model.TMDefs

namespace AV.TM
variable {Γ : Type}

/-- The tape a `TMTape` stands for: a two-way infinite tape, blank outside the stored cells,
indexed relative to the head (`view t 0` is the scanned cell). -/
def Tape.view (t : Tape Γ) : Int → Γ := fun i =>
  if 0 ≤ (t.pos : Int) + i then t.cells.getD ((t.pos : Int) + i).toNat t.blank else t.blank

/-- Moving the head: the head-relative content shifts the other way. -/
def shift : Dir → (Int → Γ) → (Int → Γ)
  | .L, f => fun i => f (i - 1)
  | .R, f => fun i => f (i + 1)
  | _, f => f

end AV.TM
