/-
Spec/GnfaRx.lean — reference notions for C12 (state elimination), independent of the model:

* `Rx`, `Rx.den` — regular expressions over characters with the operators the GNFA labels use
  (ε, symbol, concatenation, union, star, option) and their language (Mathlib `Language`);
* `Renders lvl e s` — `s` is a concrete string for `e` in the library's regex syntax
  (automata/regex): a literal is any non-reserved, non-blank character, `()` is the empty string,
  `(…)` groups, the postfix operators `*` `?` bind tighter than concatenation, which binds tighter
  than `|` (precedences 3 > 2 > 1 in the table regenerated from parser.py, see
  `Props/C12.lean: C12_generated_precedence`);
* `Lab L s` — the string `s` denotes the language `L`: either `s` is the empty string (which the
  library's parser special-cases as ε) and `L = {ε}`, or `s` renders an expression with language `L`;
* `Walk Lb p q w` — `w` labels a path `p ⇝ q` in a graph whose edge `(p, q)` carries the
  language `Lb p q` (`0` = no edge): the semantics of a generalised NFA.
-/
import Mathlib.Computability.Language
import AutomataVerif.Generated.Regex
import AutomataVerif.Model.GNFAValidate

namespace AV.GnfaSpec
open AV

/-- Regular expressions as they occur as GNFA labels. -/
inductive Rx
  | eps
  | sym (c : Char)
  | cat (a b : Rx)
  | union (a b : Rx)
  | star (a : Rx)
  | opt (a : Rx)
  deriving Repr, DecidableEq

/-- The language of an expression. -/
def Rx.den : Rx → Language Char
  | .eps => 1
  | .sym c => {[c]}
  | .cat a b => a.den * b.den
  | .union a b => a.den + b.den
  | .star a => KStar.kstar a.den
  | .opt a => 1 + a.den

/-- A character the library's lexer reads as a one-character string literal. -/
def IsLit (c : Char) : Prop := c ∉ AV.Gen.Regex.reservedCharacters ∧ pyIsSpace c = false

instance (c : Char) : Decidable (IsLit c) := by unfold IsLit; infer_instance

/-- Syntactic levels: union ⊇ concatenation ⊇ postfix/atom. -/
inductive Lvl
  | U | C | P
  deriving DecidableEq, Repr

/-- `Renders lvl e s`: `s` is a string of level `lvl` for the expression `e` in the library's
regex syntax (no blanks, no redundant grouping other than what the rules allow). -/
inductive Renders : Lvl → Rx → Str → Prop
  | sym {c : Char} : IsLit c → Renders .P (.sym c) [c]
  | emp : Renders .P .eps ['(', ')']
  | paren {e : Rx} {s : Str} : Renders .U e s → Renders .P e ('(' :: s ++ [')'])
  | star {e : Rx} {s : Str} : Renders .P e s → Renders .P (.star e) (s ++ ['*'])
  | opt {e : Rx} {s : Str} : Renders .P e s → Renders .P (.opt e) (s ++ ['?'])
  | ofP {e : Rx} {s : Str} : Renders .P e s → Renders .C e s
  | cat {e₁ e₂ : Rx} {s₁ s₂ : Str} :
      Renders .C e₁ s₁ → Renders .P e₂ s₂ → Renders .C (.cat e₁ e₂) (s₁ ++ s₂)
  | ofC {e : Rx} {s : Str} : Renders .C e s → Renders .U e s
  | union {e₁ e₂ : Rx} {s₁ s₂ : Str} :
      Renders .U e₁ s₁ → Renders .C e₂ s₂ → Renders .U (.union e₁ e₂) (s₁ ++ '|' :: s₂)

/-- The string `s` denotes the language `L` under the library's regex syntax. -/
def Lab (L : Language Char) (s : Str) : Prop :=
  (s = [] ∧ L = 1) ∨ ∃ e, Renders .U e s ∧ e.den = L

/-- An optional label (`None` = no edge) denotes `L`. -/
def LabO (L : Language Char) : Option Str → Prop
  | none => L = 0
  | some s => Lab L s

/-- Paths of a graph with language-labelled edges. -/
inductive Walk {σ α : Type} (Lb : σ → σ → Language α) : σ → σ → List α → Prop
  | nil (p : σ) : Walk Lb p p []
  | cons {p q r : σ} {u v : List α} : u ∈ Lb p q → Walk Lb q r v → Walk Lb p r (u ++ v)

/-- The language of a generalised NFA: labels of the paths from `init` to `final`. -/
def GLang {σ α : Type} (Lb : σ → σ → Language α) (init final : σ) : Language α :=
  {w | Walk Lb init final w}

/-- Ripping `q`: every remaining pair `(i, j)` gets `Lb i j + Lb i q · (Lb q q)* · Lb q j`,
and `q` loses all its edges. -/
def rip {σ α : Type} [DecidableEq σ] (Lb : σ → σ → Language α) (q : σ) : σ → σ → Language α :=
  fun i j => if i = q ∨ j = q then 0 else Lb i j + Lb i q * KStar.kstar (Lb q q) * Lb q j

end AV.GnfaSpec
