/-
Spec/TM.lean — reference semantics of Turing machines on two-way infinite, blank-extended
tapes.  Independent of `TMTape`: a tape is a function `Int → Γ` indexed relative to the head
(`tape 0` is the scanned cell); a step overwrites cell 0 and shifts (`shift`, and `Tape.view` =
what a stored `TMTape` stands for, are in `Spec/TMTape.lean`; this file imports no `Proofs/` module).

* `VCfg` / `VMCfg`        configuration of a one-tape / multitape machine on such tapes;
* `blankTape b w`         the input `w` from the head rightwards, blank everywhere else;
* `vapply` / `vmapply`    effect of one transition tuple;
* `DTM.vstep`, `DTM.vrun` the (partial) transition function and its `k`-fold application;
* `NTM.VStep`, `MNTM.VStep`, `ReachN`   the transition relations and `k`-step reachability;
* `MNTM.vchildren`, `MNTM.vlevel`       successors in the order the library enqueues them
                                        (`transitions[1:]` then `transitions[0]`), and the
                                        breadth-first levels.
-/
import AutomataVerif.Model.TM
import AutomataVerif.Spec.TMTape
import Mathlib.Logic.Function.Iterate

namespace AV.TM
variable {σ Γ : Type} [DecidableEq σ] [DecidableEq Γ]

/-- One-tape configuration on a two-way infinite tape (head at index 0). -/
structure VCfg (σ Γ : Type) where
  state : σ
  tape : Int → Γ

/-- Multitape configuration on two-way infinite tapes. -/
structure VMCfg (σ Γ : Type) where
  state : σ
  tapes : List (Int → Γ)

/-- The start tape: input from the head rightwards, blank elsewhere (both directions). -/
def blankTape (b : Γ) (w : List Γ) : Int → Γ := fun i => if 0 ≤ i then w.getD i.toNat b else b

/-- Effect of the transition tuple `(q', s', d)`: write `s'` under the head, move. -/
def vapply (c : VCfg σ Γ) (r : σ × Γ × Dir) : VCfg σ Γ :=
  { state := r.1, tape := shift r.2.2 (Function.update c.tape 0 r.2.1) }

/-- Effect of a multitape transition `(q', ((s'₁,d₁),…))`, tape by tape. -/
def vmapply (c : VMCfg σ Γ) (t : σ × List (Γ × Dir)) : VMCfg σ Γ :=
  { state := t.1,
    tapes := List.zipWith (fun (m : Γ × Dir) (f : Int → Γ) => shift m.2 (Function.update f 0 m.1))
      t.2 c.tapes }

/-- What a stored configuration stands for. -/
def viewCfg (c : Cfg σ Γ) : VCfg σ Γ := { state := c.state, tape := c.tape.view }

def viewM (c : MCfg σ Γ) : VMCfg σ Γ := { state := c.state, tapes := c.tapes.map Tape.view }

/-- `k`-step reachability for a relation. -/
def ReachN {α : Type} (R : α → α → Prop) : Nat → α → α → Prop
  | 0, a, b => a = b
  | k + 1, a, b => ∃ m, R a m ∧ ReachN R k m b

/-! ### DTM -/
namespace DTM

/-- The transition function `δ(q, s)` of the table. -/
def delta (M : DTM σ Γ) (q : σ) (s : Γ) : Option (σ × Γ × Dir) :=
  (alookup q M.trans).bind (alookup s)

/-- One application of the transition function to a configuration (`none`: undefined). -/
def vstep (M : DTM σ Γ) (c : VCfg σ Γ) : Option (VCfg σ Γ) :=
  (M.delta c.state (c.tape 0)).map (vapply c)

def vstart (M : DTM σ Γ) (w : List Γ) : VCfg σ Γ := { state := M.init, tape := blankTape M.blank w }

/-- `k` applications of the transition function, from `c`. -/
def vrunFrom (M : DTM σ Γ) (c : Option (VCfg σ Γ)) (k : Nat) : Option (VCfg σ Γ) :=
  (fun o => o.bind M.vstep)^[k] c

/-- `k` applications of the transition function to the initial configuration. -/
def vrun (M : DTM σ Γ) (w : List Γ) (k : Nat) : Option (VCfg σ Γ) := M.vrunFrom (some (M.vstart w)) k

/-- The run reaches a final state after exactly `k` steps, and not before. -/
def AcceptsAt (M : DTM σ Γ) (w : List Γ) (k : Nat) : Prop :=
  (∃ v, M.vrun w k = some v ∧ v.state ∈ M.finals) ∧
  ∀ j, j < k → ∀ v, M.vrun w j = some v → v.state ∉ M.finals

/-- The run is stuck after exactly `k` steps (non-final state, no applicable row), and no
final state was seen before. -/
def StuckAt (M : DTM σ Γ) (w : List Γ) (k : Nat) : Prop :=
  (∃ v, M.vrun w k = some v ∧ v.state ∉ M.finals ∧ M.vstep v = none) ∧
  ∀ j, j < k → ∀ v, M.vrun w j = some v → v.state ∉ M.finals

end DTM

/-! ### NTM -/
namespace NTM

/-- The transition relation of the table as a set of tuples. -/
def delta (M : NTM σ Γ) (q : σ) (s : Γ) : List (σ × Γ × Dir) :=
  ((alookup q M.trans).bind (alookup s)).getD []

/-- One step. -/
def VStep (M : NTM σ Γ) (c c' : VCfg σ Γ) : Prop :=
  ∃ r ∈ M.delta c.state (c.tape 0), c' = vapply c r

def vstart (M : NTM σ Γ) (w : List Γ) : VCfg σ Γ := { state := M.init, tape := blankTape M.blank w }

/-- The set of `k`-step successors of the initial configuration. -/
def vlevel (M : NTM σ Γ) (w : List Γ) (k : Nat) : VCfg σ Γ → Prop :=
  fun v => ReachN M.VStep k (M.vstart w) v

/-- Level `k` contains a final state, and no earlier level does. -/
def AcceptsAt (M : NTM σ Γ) (w : List Γ) (k : Nat) : Prop :=
  (∃ v, M.vlevel w k v ∧ v.state ∈ M.finals) ∧
  ∀ j, j < k → ∀ v, M.vlevel w j v → v.state ∉ M.finals

/-- Level `k` is empty (every branch is stuck), and no earlier level contains a final state. -/
def StuckAt (M : NTM σ Γ) (w : List Γ) (k : Nat) : Prop :=
  (∀ v, ¬ M.vlevel w k v) ∧ ∀ j, j < k → ∀ v, M.vlevel w j v → v.state ∉ M.finals

end NTM

/-! ### MNTM -/
namespace MNTM

def delta (M : MNTM σ Γ) (q : σ) (heads : List Γ) : List (σ × List (Γ × Dir)) :=
  ((alookup q M.trans).bind (alookup heads)).getD []

/-- One step of the multitape machine. -/
def VStep (M : MNTM σ Γ) (c c' : VMCfg σ Γ) : Prop :=
  ∃ t ∈ M.delta c.state (c.tapes.map fun f => f 0), c' = vmapply c t

/-- The successors of `c` in the order the library enqueues them: those for
`transitions[1:]`, then the one for `transitions[0]`. -/
def vchildren (M : MNTM σ Γ) (c : VMCfg σ Γ) : List (VMCfg σ Γ) :=
  match M.delta c.state (c.tapes.map fun f => f 0) with
  | [] => []
  | t0 :: ts => (ts ++ [t0]).map (vmapply c)

def vstart (M : MNTM σ Γ) (w : List Γ) : VMCfg σ Γ :=
  { state := M.init,
    tapes := blankTape M.blank w :: List.replicate (M.nTapes - 1) (blankTape M.blank []) }

/-- Breadth-first level `d`: the children, in order, of level `d - 1` (path multiplicity kept:
the library keeps no visited set). -/
def vlevel (M : MNTM σ Γ) (w : List Γ) : Nat → List (VMCfg σ Γ)
  | 0 => [M.vstart w]
  | d + 1 => (vlevel M w d).flatMap M.vchildren

/-- `vlevel 0 ++ vlevel 1 ++ … ++ vlevel (n-1)`. -/
def vlevelsUpTo (M : MNTM σ Γ) (w : List Γ) : Nat → List (VMCfg σ Γ)
  | 0 => []
  | n + 1 => vlevelsUpTo M w n ++ M.vlevel w n

def isFinal (M : MNTM σ Γ) (c : VMCfg σ Γ) : Bool := decide (c.state ∈ M.finals)

end MNTM
end AV.TM
