/-
Spec/TMSim.lean — what the extended tape of `MNTM.read_input_as_ntm` is supposed to be.

* `encTape hd sep t`  one virtual tape: the stored cells of `t`, the head mark `hd` right after
                      the scanned cell, the separator `sep` at the end;
* `encode hd sep ts`  the extended tape of a tuple of tapes;
* `stepTapes`         the native effect of one transition on the tapes
                      (`tape.write_symbol(s).move(d)` per `zip(moves, tapes)`, `TMTape` as in C03);
* `Clean`, `GoodTape`, `GoodCfg`, `SimDomain`   the domain of C17: no mark among cells, written
                      symbols, blank or input; a valid machine with at least one tape;
* `strip`, `encS`     (state, extended tape) of a queue entry / of a native configuration;
* `MNTM.succL`, `MNTM.accF`   the native successors in transition-list order and the "state is
                      final" test: the search the simulation performs.
Lean core only.
-/
import AutomataVerif.Model.TMSim
import AutomataVerif.Model.TMValidate

namespace AV.TM
variable {σ Γ : Type} [DecidableEq σ] [DecidableEq Γ]

/-- No symbol of `l` is the head mark or the separator. -/
def Clean (hd sep : Γ) (l : List Γ) : Prop := ∀ x ∈ l, x ≠ hd ∧ x ≠ sep

/-- A virtual tape on the extended tape: the cells, the head mark right after the scanned
cell, the separator at the end. -/
def encTape (hd sep : Γ) (t : Tape Γ) : List Γ :=
  t.cells.take (t.pos + 1) ++ hd :: t.cells.drop (t.pos + 1) ++ [sep]

/-- The extended tape of a tuple of tapes. -/
def encode (hd sep : Γ) (ts : List (Tape Γ)) : List Γ := ts.flatMap (encTape hd sep)

/-- A tape the simulation can represent: class invariant, the machine's blank, no cell equal
to the head mark or the separator. -/
structure GoodTape (hd sep b : Γ) (t : Tape Γ) : Prop where
  wf : t.WF
  blank : t.blank = b
  clean : Clean hd sep t.cells

/-- The moves of one transition, applied tape by tape (`zip(moves, tapes)`). -/
def stepTapes (moves : List (Γ × Dir)) (ts : List (Tape Γ)) : List (Tape Γ) :=
  List.zipWith (fun (m : Γ × Dir) (tp : Tape Γ) => (tp.write m.1).move m.2) moves ts

/-- Domain of C17: a valid machine with at least one tape whose tape alphabet avoids the two
marks of the extended tape. -/
structure SimDomain (M : MNTM σ Γ) (hd sep : Γ) : Prop where
  valid : M.validate = .ok ()
  ntapes : 1 ≤ M.nTapes
  marks : sep ≠ hd
  alphabet : ∀ a ∈ M.tapeSyms, a ≠ hd ∧ a ≠ sep

/-- A native configuration the simulation can represent. -/
structure GoodCfg (M : MNTM σ Γ) (hd sep : Γ) (c : MCfg σ Γ) : Prop where
  len : c.tapes.length = M.nTapes
  tapes : ∀ t ∈ c.tapes, GoodTape hd sep M.blank t

/-- State and extended tape of a queue entry (the recorded head index plays no role). -/
def strip (e : SimEntry σ Γ) : σ × List Γ := (e.1, e.2.1)

/-- The queue entry standing for a native configuration. -/
def encS (hd sep : Γ) (c : MCfg σ Γ) : σ × List Γ := (c.state, encode hd sep c.tapes)

namespace MNTM

/-- Successors in the order of the transition list (the order of the simulation's queue). -/
def succL (M : MNTM σ Γ) (c : MCfg σ Γ) : List (MCfg σ Γ) :=
  ((M.getTransition c.state c.tapes).getD []).map (apply c.tapes)

def accF (M : MNTM σ Γ) (c : MCfg σ Γ) : Bool := decide (c.state ∈ M.finals)

end MNTM

end AV.TM
