/-
Spec/PDA.lean — reference semantics of pushdown automata (independent of the readers'
code; Lean core only).  Short on purpose: this is what the C02 theorems compare the
model of `automata/pda/*.py` with.

A configuration is `(state, unread input, stack)`; the stack is written bottom first as in
the code (`PDAStack.stack`), so the TOP is the LAST element.  One move looks at the state,
at the top symbol `X` and at either the next input symbol or nothing, goes to a new
state, consumes the symbol it looked at (if any) and replaces `X` by the pushed string,
whose FIRST symbol becomes the new top (`β ++ [X]` becomes `β ++ push.reverse`).  A
configuration with an empty stack has no move.
-/
import AutomataVerif.Model.PDA

namespace AV.PDA

variable {σ α γ : Type}

/-- The move relation of a table: `Δ q a X p push` — in state `q`, reading `a`
(`none`: nothing), with `X` on top of the stack, go to `p` and replace `X` by `push`. -/
abbrev Moves (σ α γ : Type) := σ → Option α → γ → σ → List γ → Prop

/-- One move. -/
inductive Step (Δ : Moves σ α γ) : Config σ α γ → Config σ α γ → Prop
  | read {q p : σ} {a : α} {w : List α} {β push : List γ} {X : γ} (h : Δ q (some a) X p push) :
      Step Δ ⟨q, a :: w, β ++ [X]⟩ ⟨p, w, β ++ push.reverse⟩
  | eps {q p : σ} {w : List α} {β push : List γ} {X : γ} (h : Δ q none X p push) :
      Step Δ ⟨q, w, β ++ [X]⟩ ⟨p, w, β ++ push.reverse⟩

/-- Exactly `n` moves. -/
inductive StepN (Δ : Moves σ α γ) : Nat → Config σ α γ → Config σ α γ → Prop
  | zero (c : Config σ α γ) : StepN Δ 0 c c
  | succ {n : Nat} {c c' c'' : Config σ α γ} (h : StepN Δ n c c') (s : Step Δ c' c'') : StepN Δ (n + 1) c c''

/-- A λ-move (ε-move): a move that reads nothing. -/
inductive EpsStep (Δ : Moves σ α γ) : Config σ α γ → Config σ α γ → Prop
  | mk {q p : σ} {w : List α} {β push : List γ} {X : γ} (h : Δ q none X p push) :
      EpsStep Δ ⟨q, w, β ++ [X]⟩ ⟨p, w, β ++ push.reverse⟩

/-- "The ε-moves of the table cannot run forever" (the condition in C02's quantifier): there is
no infinite sequence of λ-moves, from any configuration whatever — the converse of the λ-move
relation is well founded (every configuration is accessible). -/
def EpsTerminates (Δ : Moves σ α γ) : Prop := ∀ c, Acc (fun c' c => EpsStep Δ c c') c

/-- The three acceptance modes. -/
inductive AccMode
  | finalState | emptyStack | both
  deriving DecidableEq, Repr

/-- The `acceptance_mode` string of each mode. -/
def AccMode.literal : AccMode → String
  | .finalState => "final_state"
  | .emptyStack => "empty_stack"
  | .both => "both"

/-- An accepting configuration: the whole input is consumed and, depending on the mode,
the state is final, the stack is empty, or either. -/
def Accepting (m : AccMode) (F : List σ) (c : Config σ α γ) : Prop :=
  c.input = [] ∧
  match m with
  | .finalState => c.state ∈ F
  | .emptyStack => c.stack = []
  | .both => c.stack = [] ∨ c.state ∈ F

variable [DecidableEq σ] [DecidableEq α] [DecidableEq γ]

/-- Moves of an NPDA table: `(p, push) ∈ transitions[q][a][X]`. -/
def NPDA.moves (M : NPDA σ α γ) : Moves σ α γ :=
  fun q a X p push => ∃ ts, M.entry? q a X = some ts ∧ (p, push) ∈ ts

/-- Moves of a DPDA table: `transitions[q][a][X] = (p, push)`. -/
def DPDA.moves (M : DPDA σ α γ) : Moves σ α γ :=
  fun q a X p push => M.entry? q a X = some (p, push)

/-- A table (of a DPDA) offers two moves to some configuration: a symbol move and a
λ-move for the same state and stack top (entries themselves are single-valued). -/
def DPDA.TwoMoves (M : DPDA σ α γ) : Prop :=
  ∃ q a X, (M.entry? q (some a) X).isSome = true ∧ (M.entry? q none X).isSome = true

/-- The moves of an NPDA table stated by membership only — no lookup function of the model is
involved: `transitions` has an item `(q, row)`, `row` an item `(a, sp)`, `sp` an item `(X, ts)`
and `(p, push) ∈ ts`.  Equal to `NPDA.moves` when dict keys are unique
(`C02_moves_by_membership`). -/
def NPDA.movesMem (M : NPDA σ α γ) : Moves σ α γ :=
  fun q a X p push => ∃ row sp ts, (q, row) ∈ M.trans ∧ (a, sp) ∈ row ∧ (X, ts) ∈ sp ∧ (p, push) ∈ ts

/-- The moves of a DPDA table stated by membership only. -/
def DPDA.movesMem (M : DPDA σ α γ) : Moves σ α γ :=
  fun q a X p push => ∃ row sp, (q, row) ∈ M.trans ∧ (a, sp) ∈ row ∧ (X, (p, push)) ∈ sp

/-- `DPDA.TwoMoves` stated by membership only. -/
def DPDA.TwoMovesMem (M : DPDA σ α γ) : Prop :=
  ∃ q row a sp sp' X, (q, row) ∈ M.trans ∧ (some a, sp) ∈ row ∧ (none, sp') ∈ row ∧
    X ∈ akeys sp ∧ X ∈ akeys sp'

/-- Python dicts have unique keys: the association lists standing for `transitions` and
for each `transitions[q]` have no repeated key (a representation invariant, not a
restriction on definitions). -/
def Table.KeysUnique {τ : Type} (M : Table σ α γ τ) : Prop :=
  (akeys M.trans).Nodup ∧ ∀ kv ∈ M.trans, (akeys kv.2).Nodup

/-- Unique keys at all three levels of `transitions[q][a][X]` (the innermost dicts included). -/
def Table.KeysUniqueAll {τ : Type} (M : Table σ α γ τ) : Prop :=
  M.KeysUnique ∧ ∀ kv ∈ M.trans, ∀ e ∈ kv.2, (akeys e.2).Nodup

/-- Everything `PDA.validate` asks of a definition apart from determinism: the input
symbols labelling transitions are declared (or are the empty string), the stack symbols
keying transitions are declared, the initial state, initial stack symbol and final states
are declared, and the acceptance mode is one of the three literals.  (The code checks
neither target states, nor pushed symbols, nor that rows are keyed by states.) -/
structure Table.WellFormed {τ : Type} (M : Table σ α γ τ) : Prop where
  inputOk : ∀ kv ∈ M.trans, ∀ e ∈ kv.2, ∀ a, e.1 = some a → a ∈ M.inputSyms
  stackOk : ∀ kv ∈ M.trans, ∀ e ∈ kv.2, ∀ X ∈ akeys e.2, X ∈ M.stackSyms
  initOk : M.init ∈ M.states
  initStackOk : M.initStack ∈ M.stackSyms
  finalsOk : ∀ q ∈ M.finals, q ∈ M.states
  modeOk : ∃ m : AccMode, M.mode = m.literal

end AV.PDA
