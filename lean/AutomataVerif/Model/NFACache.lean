/-
Model/NFACache.lean — the mutable part of an `NFA` instance (property C20, NFA half): the
`cached_method` table of `_get_lambda_closures()` (automata/fa/nfa.py).

`_get_lambda_closures()` builds the dict `state ↦ frozenset(λ-closure)` (keys: the members of
`states`) on its first call and returns the stored object afterwards.  Every reader asks for it
again: `read_input_stepwise` (first line), `_get_next_current_states` (once per input symbol),
`_iterate_through_symbol_path_pairs`, `eliminate_lambda`, `__eq__`, `DFA.from_nfa`.

`nstep : NInst → NQuery → NInst × NAns` is one public call on the instance: the readers of
Model/NFA.lean re-stated over *the table they are handed* (`tableGet`, `nextStatesT`,
`cReadAux`, `cReadStepwise`), with the instance threaded through every `_get_lambda_closures()`
call.  `nstepPure` is the stateless reference: the functions of Model/NFA.lean, which compute
every closure from the definition.  Props/C20.lean proves that both agree on every history.
-/
import AutomataVerif.Model.NFA

namespace AV
namespace NFA
variable {σ α : Type} [DecidableEq σ] [DecidableEq α]

/-- `_get_lambda_closures()` computed from the definition. -/
def closureTable (n : NFA σ α) : List (σ × List σ) := n.states.map fun q => (q, n.closure q)

/-- The `cached_method` table of one `NFA` object (`none` = not yet cached). -/
structure NInst (σ : Type) where
  closures : Option (List (σ × List σ)) := none
  deriving Repr

def NInst.fresh : NInst σ := {}

/-- `_get_lambda_closures()` (cached). -/
def cClosures (n : NFA σ α) (s : NInst σ) : NInst σ × List (σ × List σ) :=
  match s.closures with
  | some t => (s, t)
  | none => ({ closures := some n.closureTable }, n.closureTable)

/-- `lambda_closures[q]` on the table at hand. -/
def tableGet (t : List (σ × List σ)) (q : σ) : Res (List σ) :=
  match alookup q t with
  | some c => .ok c
  | none => .error (.py .keyError)

/-- `_get_next_current_states(current_states, input_symbol)` reading the closures from `t`. -/
def nextStatesT (n : NFA σ α) (t : List (σ × List σ)) (cur : List σ) (a : α) : Res (List σ) :=
  cur.foldlM (init := []) fun acc q =>
    match n.row? q with
    | none => pure acc
    | some r =>
      ((alookup (some a) r).getD []).foldlM (init := acc) fun acc t' => do
        let c ← tableGet t t'
        pure (sunion acc c)

/-- The loop of `read_input_stepwise` on the instance: every `_get_next_current_states` call
fetches the table through the memo. -/
def cReadAux (n : NFA σ α) : NInst σ → List σ → List α → NInst σ × List (List σ) × Option Exn
  | s, cur, [] => (s, [], rejectUnless (n.anyFinal cur))
  | s, cur, a :: w =>
      let r := n.cClosures s
      match n.nextStatesT r.2 cur a with
      | .error e => (r.1, [], some e)
      | .ok nxt =>
          let r2 := cReadAux n r.1 nxt w
          (r2.1, nxt :: r2.2.1, r2.2.2)

/-- `read_input_stepwise(w)` consumed to its end, on the instance: yields and terminating exception. -/
def cReadStepwise (n : NFA σ α) (s : NInst σ) (w : List α) : NInst σ × List (List σ) × Option Exn :=
  let r := n.cClosures s
  match tableGet r.2 n.init with
  | .error e => (r.1, [], some e)
  | .ok c0 =>
      let r2 := n.cReadAux r.1 c0 w
      (r2.1, c0 :: r2.2.1, r2.2.2)

/-- `Automaton.read_input` on what the generator delivered. -/
def readInputOf (r : List (List σ) × Option Exn) : Res (List σ) :=
  match r.2 with
  | some e => .error e
  | none => match r.1.getLast? with
            | some c => .ok c
            | none => .error (.py .unboundLocal)

/-- `Automaton.accepts_input`. -/
def acceptsOf (r : List (List σ) × Option Exn) : Res Bool :=
  match readInputOf r with
  | .ok _ => .ok true
  | .error (.lib .rejectionException) => .ok false
  | .error e => .error e

inductive NQuery (α : Type)
  | accepts (w : List α)                 -- `accepts_input(w)` / `w in nfa`
  | readStepwise (w : List α)            -- `read_input_stepwise(w)` consumed to its end
  | viaClosures (tag : Nat)
      -- `==`, `DFA.from_nfa(nfa)`, `eliminate_lambda()`, …: read `_get_lambda_closures()` through the
      -- memo; the rest of their body is a function of the definition and of that table
  | other (tag : Nat)                    -- never touches the memo (`validate`, `copy`, `reverse`, …)

inductive NAns (σ : Type)
  | bool (b : Bool)
  | exn (e : Exn)
  | configs (cs : List (List σ)) (e : Option Exn)
  | opaque (v : Nat)
  deriving Repr, DecidableEq

def NAns.res : Res Bool → NAns σ
  | .ok b => .bool b
  | .error e => .exn e

/-- The values of the queries whose body is not modelled here. -/
structure NExt (σ : Type) where
  other : Nat → Nat
  viaTable : Nat → List (σ × List σ) → Nat

/-- One public call on the instance. -/
def nstep (n : NFA σ α) (ext : NExt σ) (s : NInst σ) : NQuery α → NInst σ × NAns σ
  | .accepts w => let r := n.cReadStepwise s w; (r.1, .res (acceptsOf r.2))
  | .readStepwise w => let r := n.cReadStepwise s w; (r.1, .configs r.2.1 r.2.2)
  | .viaClosures tag => let r := n.cClosures s; (r.1, .opaque (ext.viaTable tag r.2))
  | .other tag => (s, .opaque (ext.other tag))

/-- The stateless reference: every answer from the definition alone (Model/NFA.lean). -/
def nstepPure (n : NFA σ α) (ext : NExt σ) : NQuery α → NAns σ
  | .accepts w => .res (n.acceptsInput w)
  | .readStepwise w => .configs (n.readStepwise w).1 (n.readStepwise w).2
  | .viaClosures tag => .opaque (ext.viaTable tag n.closureTable)
  | .other tag => .opaque (ext.other tag)

def nrunHistory (n : NFA σ α) (ext : NExt σ) : NInst σ → List (NQuery α) → List (NAns σ)
  | _, [] => []
  | s, q :: qs => (n.nstep ext s q).2 :: nrunHistory n ext (n.nstep ext s q).1 qs

def nafterHistory (n : NFA σ α) (ext : NExt σ) : NInst σ → List (NQuery α) → NInst σ
  | s, [] => s
  | s, q :: qs => nafterHistory n ext (n.nstep ext s q).1 qs

end NFA
end AV
