/-
Model/ValidateAll.lean — `validate()` of GNFA, DPDA, NPDA, DTM, NTM, MNTM, and the
reserved-name checks that `validate()` of DFA, NFA and of the PDA classes perform first (C19).

Definitions as data only (no run semantics): exactly the constructor parameters, sets as
lists, dicts as association lists in insertion order.  Every `validate` performs the checks
in the order of the code and returns the first error.  (DFA and NFA: the checks on the
transition table, the initial and the final states are `AV.DFA.validate`, `AV.NFA.validate`
of Model/DFA.lean, Model/NFA.lean; the complete `validate()` of the code — reserved names
first — is `DFA.validateDef`, `NFA.validateDef` below.)

Reserved names.  Since fixes b159ae7 / 07f4843 / cb4efab / f47420f the library refuses the two
values it uses as markers itself: Python's `None` as a state name of a DFA / NFA or as the key of
a row of its transition table (the "no state" marker of a DFA run and of `_minify`), the empty string as an input symbol of a DFA / NFA
(the λ-marker) and as a stack symbol of a PDA (`PDAStack.top()` of an empty stack).  The
abstract name types `σ`, `α`, `γ` of the model are arbitrary types, so *which* of their
elements stands for `None` / `""` is an explicit interpretation (`Reserved`, resp. a
predicate on stack symbols) that the definitions are validated under.  With the
interpretation `Reserved.absent` ("no name is `None` or `""`" — the name types of the models
of C01–C17, where `none : Option σ` is the sink and `none : Option α` is λ and neither can
be a name) `validateDef` is `validate`.

Mirrors
  automata/fa/fa.py           _validate_reserved_names
  automata/base/automaton.py  _validate_initial_state, _validate_initial_state_transitions,
                              _validate_final_states, __init__/__post_init__ (options)
  automata/fa/gnfa.py         _validate_transition_invalid_symbols, _validate_transition_end_states,
                              _validate_final_state, validate, __post_init__
  automata/pda/pda.py         _validate_transition_invalid_input_symbols, …_stack_symbols,
                              _validate_initial_stack_symbol, _validate_acceptance, validate
                              (first statement: `"" in self.stack_symbols`)
  automata/pda/dpda.py        _validate_transition_invalid_symbols, …_isolated_lambda_transitions,
                              …_lambda_transition_sibling
  automata/pda/npda.py        _validate_transition_invalid_symbols
  automata/tm/tm.py           _read_input_symbol_subset, _validate_blank_symbol,
                              _validate_nonfinal_initial_state
  automata/tm/dtm.py, ntm.py  _validate_transition_state/_symbols/_result/_results,
                              _validate_final_state_transitions, validate
  automata/tm/mntm.py         the three overrides, _validate_tapes_consistency, validate

Literals of the source (direction letters, acceptance modes) come from the regenerated
`AV.Gen.Validate` tables.  Type-incorrect definitions (a transition result that is not a
triple, a non-iterable where a set is expected, …) are outside the model.
-/
import AutomataVerif.Model.Basic
import AutomataVerif.Model.DFA
import AutomataVerif.Model.NFA
import AutomataVerif.Generated.ValidateLits

namespace AV.VA
open AV

/-- `self.final_states - self.states` is empty. -/
def subsetB {β : Type} [DecidableEq β] (l r : List β) : Bool := l.all fun x => decide (x ∈ r)

/-! ## reserved names: DFA, NFA -/

/-- Interpretation of the abstract name types: which state names stand for Python's `None`
and which symbols stand for the empty string `""`. -/
structure Reserved (σ α : Type) where
  isNone : σ → Bool
  isEmptyStr : α → Bool

/-- Name types that cannot express `None` / `""` (the models of C01–C17). -/
def Reserved.absent {σ α : Type} : Reserved σ α := ⟨fun _ => false, fun _ => false⟩

/-- The obvious concrete interpretation: state names `Option σ` with `none` for Python's `None`,
symbols `String` with `""` for the empty string. -/
def Reserved.python {σ : Type} : Reserved (Option σ) String := ⟨Option.isNone, fun s => s == ""⟩

/-- `FA._validate_reserved_names`: `None in self.states or None in self.transitions` (`keys` = the
keys of the transition dict; fix f47420f) → `InvalidStateError`, then `"" in self.input_symbols`
→ `InvalidSymbolError`. -/
def faValidateReserved {σ α : Type} (R : Reserved σ α) (states keys : List σ) (syms : List α) : Res Unit :=
  (guardE (!(states.any R.isNone || keys.any R.isNone)) (.lib .invalidStateError)).andThen <|
  guardE (!syms.any R.isEmptyStr) (.lib .invalidSymbolError)

namespace DFA
variable {σ α : Type} [DecidableEq σ] [DecidableEq α]

/-- `DFA.validate` of the code: `_validate_reserved_names()` first, then the checks of
`AV.DFA.validate` (start states, rows, initial state, final states). -/
def validateDef (R : Reserved σ α) (d : DFA σ α) : Res Unit :=
  (faValidateReserved R d.states (akeys d.trans) d.syms).andThen d.validate

end DFA

namespace NFA
variable {σ α : Type} [DecidableEq σ] [DecidableEq α]

/-- `NFA.validate` of the code: `_validate_reserved_names()` first, then the checks of
`AV.NFA.validate`. -/
def validateDef (R : Reserved σ α) (n : NFA σ α) : Res Unit :=
  (faValidateReserved R n.states (akeys n.trans) n.syms).andThen n.validate

end NFA

/-! ## GNFA -/

/-- A character of a GNFA label: an input symbol (or any other ordinary character), or a
character written literally (the operators `* | ( ) ?`). -/
inductive GChar (α : Type)
  | sym (a : α)
  | extra (c : String)
  deriving DecidableEq, Repr

/-- What `re._validate` does with a label (the regex validator is the subject of C11; here
it is an oracle): accepts it, rejects it (`InvalidRegexError` caught → `False`), or lets a
`LexerError` escape. -/
inductive RegexVerdict
  | valid | invalid | lexerError
  deriving DecidableEq, Repr

/-- A GNFA label: `None`, or a string together with the verdict of `re._validate` on it. -/
structure GLabel (α : Type) where
  chars : List (GChar α)
  verdict : RegexVerdict
  deriving DecidableEq, Repr

structure GNFA (σ α : Type) where
  states : List σ
  syms : List α
  trans : List (σ × List (σ × Option (GLabel α)))
  init : σ
  final : σ
  deriving Repr

namespace GNFA
variable {σ α : Type} [DecidableEq σ] [DecidableEq α]

/-- `c in self.input_symbols | {"*", "|", "(", ")", "?"}`. -/
def charOk (g : GNFA σ α) : GChar α → Bool
  | .sym a => decide (a ∈ g.syms)
  | .extra c => decide (c ∈ Gen.Validate.gnfaLabelExtra)

/-- One label of `_validate_transition_invalid_symbols`:
`regex is not None and (set(regex) - check and regex != "" or not re._validate(regex))`. -/
def validateLabel (g : GNFA σ α) : Option (GLabel α) → Res Unit
  | none => .ok ()
  | some l =>
    if (!(l.chars.all g.charOk)) && !l.chars.isEmpty then .error (.lib .invalidRegexError)
    else match l.verdict with
      | .valid => .ok ()
      | .invalid => .error (.lib .invalidRegexError)
      | .lexerError => .error (.lib .lexerError)

/-- `self.states - paths.keys() - {self.initial_state} != set()` negated. -/
def rowComplete (g : GNFA σ α) (paths : List (σ × Option (GLabel α))) : Bool :=
  g.states.all fun q => ahas q paths || decide (q = g.init)

/-- `_validate_transition_end_states(start_state, paths)`. -/
def validateEndStates (g : GNFA σ α) (start : σ) (paths : List (σ × Option (GLabel α))) : Res Unit :=
  (if start = g.final then guardE paths.isEmpty (.lib .invalidStateError)
   else guardE (g.rowComplete paths) (.lib .missingStateError)).andThen <|
  firstErr (akeys paths) fun q => guardE (decide (q ∈ g.states)) (.lib .invalidStateError)

/-- `paths.get(self.initial_state) is not None`: a labelled transition into the initial state. -/
def entersInit (g : GNFA σ α) (paths : List (σ × Option (GLabel α))) : Bool :=
  match alookup g.init paths with
  | some (some _) => true
  | _ => false

/-- `GNFA.validate` (with the checks added by fix 084dfed: final ≠ initial, a row for every
non-final state, no labelled transition into the initial state). -/
def validate (g : GNFA σ α) : Res Unit :=
  (guardE (decide (g.init ∈ g.states)) (.lib .invalidStateError)).andThen <|
  (guardE (decide (g.final ∈ g.states)) (.lib .invalidStateError)).andThen <|
  (guardE (decide (g.init ≠ g.final)) (.lib .invalidStateError)).andThen <|
  (firstErr g.states fun q =>
    guardE (decide (q = g.final) || ahas q g.trans) (.lib .missingStateError)).andThen <|
  (firstErr g.trans fun kv =>
    (firstErr (avals kv.2) g.validateLabel).andThen <|
    (g.validateEndStates kv.1 kv.2).andThen <|
    guardE (!g.entersInit kv.2) (.lib .invalidStateError)).andThen <|
  guardE (ahas g.init g.trans || decide (g.states.length ≤ 1)) (.lib .missingStateError)

end GNFA

/-! ## PDA -/

/-- DPDA: `transitions[state][input_symbol][stack_symbol] = (state', push)`; the pushed
string / tuple is a list of stack symbols. -/
structure DPDA (σ α γ : Type) where
  states : List σ
  syms : List α
  stackSyms : List γ
  trans : List (σ × List (Option α × List (γ × (σ × List γ))))
  init : σ
  initStack : γ
  finals : List σ
  mode : String
  deriving Repr

/-- NPDA: `transitions[state][input_symbol][stack_symbol] = {(state', push), …}`. -/
structure NPDA (σ α γ : Type) where
  states : List σ
  syms : List α
  stackSyms : List γ
  trans : List (σ × List (Option α × List (γ × List (σ × List γ))))
  init : σ
  initStack : γ
  finals : List σ
  mode : String
  deriving Repr

/-- `_validate_transition_invalid_input_symbols`: `""` (`none`) is always allowed. -/
def pdaInputSymOk {α : Type} [DecidableEq α] (syms : List α) : Option α → Res Unit
  | none => .ok ()
  | some a => guardE (decide (a ∈ syms)) (.lib .invalidSymbolError)

/-- The tail of `PDA.validate` after the transition loop. -/
def pdaValidateTail {σ γ : Type} [DecidableEq σ] [DecidableEq γ]
    (states : List σ) (stackSyms : List γ) (init : σ) (initStack : γ) (finals : List σ)
    (mode : String) : Res Unit :=
  (guardE (decide (init ∈ states)) (.lib .invalidStateError)).andThen <|
  (guardE (decide (initStack ∈ stackSyms)) (.lib .invalidSymbolError)).andThen <|
  (guardE (subsetB finals states) (.lib .invalidStateError)).andThen <|
  guardE (decide (mode ∈ Gen.Validate.pdaAcceptanceModes)) (.lib .invalidAcceptanceModeError)

/-- The first statement of `PDA.validate` (fix cb4efab): `"" in self.stack_symbols` →
`InvalidSymbolError`.  `isEmptyStr` says which stack symbols stand for the empty string. -/
def pdaValidateReserved {γ : Type} (isEmptyStr : γ → Bool) (stackSyms : List γ) : Res Unit :=
  guardE (!stackSyms.any isEmptyStr) (.lib .invalidSymbolError)

namespace DPDA
variable {σ α γ : Type} [DecidableEq σ] [DecidableEq α] [DecidableEq γ]

/-- `self.transitions[start_state][""]` seen from inside the row `paths` of `start_state`
(the row being validated *is* `transitions[start_state]`). -/
def lamRow (paths : List (Option α × List (γ × (σ × List γ)))) : List (γ × (σ × List γ)) :=
  (alookup none paths).getD []

/-- `_validate_transition_isolated_lambda_transitions` for a stack symbol of the `""`
entry: every sibling entry on a real input symbol must not share a stack symbol with the
`""` entry (`_validate_transition_lambda_transition_sibling`). -/
def lambdaSiblingsOk (paths : List (Option α × List (γ × (σ × List γ)))) : Res Unit :=
  firstErr paths fun e =>
    match e.1 with
    | none => .ok ()
    | some _ => firstErr (akeys e.2) fun g' =>
        guardE (!ahas g' (lamRow paths)) (.lib .nondeterminismError)

/-- `DPDA._validate_transition_invalid_symbols(start_state, paths)`. -/
def validateRow (d : DPDA σ α γ) (paths : List (Option α × List (γ × (σ × List γ)))) : Res Unit :=
  firstErr paths fun e =>
    (pdaInputSymOk d.syms e.1).andThen <|
    firstErr (akeys e.2) fun g =>
      (match e.1 with
       | none => lambdaSiblingsOk paths
       | some _ => .ok ()).andThen <|
      guardE (decide (g ∈ d.stackSyms)) (.lib .invalidSymbolError)

/-- `PDA.validate` for a DPDA after its first statement (the reserved stack symbol). -/
def validate (d : DPDA σ α γ) : Res Unit :=
  (firstErr d.trans fun kv => d.validateRow kv.2).andThen <|
  pdaValidateTail d.states d.stackSyms d.init d.initStack d.finals d.mode

/-- `PDA.validate` for a DPDA: `"" in self.stack_symbols` first, then `validate`. -/
def validateDef (isEmptyStr : γ → Bool) (d : DPDA σ α γ) : Res Unit :=
  (pdaValidateReserved isEmptyStr d.stackSyms).andThen d.validate

end DPDA

namespace NPDA
variable {σ α γ : Type} [DecidableEq σ] [DecidableEq α] [DecidableEq γ]

/-- `NPDA._validate_transition_invalid_symbols`. -/
def validateRow (d : NPDA σ α γ) (paths : List (Option α × List (γ × List (σ × List γ)))) : Res Unit :=
  firstErr paths fun e =>
    (pdaInputSymOk d.syms e.1).andThen <|
    firstErr (akeys e.2) fun g => guardE (decide (g ∈ d.stackSyms)) (.lib .invalidSymbolError)

/-- `PDA.validate` for an NPDA after its first statement (the reserved stack symbol). -/
def validate (d : NPDA σ α γ) : Res Unit :=
  (firstErr d.trans fun kv => d.validateRow kv.2).andThen <|
  pdaValidateTail d.states d.stackSyms d.init d.initStack d.finals d.mode

/-- `PDA.validate` for an NPDA: `"" in self.stack_symbols` first, then `validate`. -/
def validateDef (isEmptyStr : γ → Bool) (d : NPDA σ α γ) : Res Unit :=
  (pdaValidateReserved isEmptyStr d.stackSyms).andThen d.validate

end NPDA

/-! ## Turing machines -/

/-- `(result_state, result_symbol, result_direction)`; the direction is a Python string. -/
abbrev TMResult (σ γ : Type) := σ × γ × String

structure DTM (σ γ : Type) where
  states : List σ
  syms : List γ
  tapeSyms : List γ
  trans : List (σ × List (γ × TMResult σ γ))
  init : σ
  blank : γ
  finals : List σ
  deriving Repr

structure NTM (σ γ : Type) where
  states : List σ
  syms : List γ
  tapeSyms : List γ
  trans : List (σ × List (γ × List (TMResult σ γ)))
  init : σ
  blank : γ
  finals : List σ
  deriving Repr

/-- MNTM: `transitions[state][(s₁,…,s_n)] = [(state', ((w₁,d₁),…,(w_n,d_n))), …]`. -/
structure MNTM (σ γ : Type) where
  states : List σ
  syms : List γ
  tapeSyms : List γ
  nTapes : Int
  trans : List (σ × List (List γ × List (σ × List (γ × String))))
  init : σ
  blank : γ
  finals : List σ
  deriving Repr

section tm
variable {σ γ : Type} [DecidableEq σ] [DecidableEq γ]

/-- `_read_input_symbol_subset` then `_validate_blank_symbol`:
`input_symbols < tape_symbols` is the *strict* subset test. -/
def tmValidateHead (syms tapeSyms : List γ) (blank : γ) : Res Unit :=
  (guardE (subsetB syms tapeSyms && !subsetB tapeSyms syms) (.lib .missingSymbolError)).andThen <|
  guardE (decide (blank ∈ tapeSyms)) (.lib .invalidSymbolError)

/-- `_validate_transition_result` with the direction literals `dirs` of the class. -/
def tmValidateResult (states : List σ) (tapeSyms : List γ) (dirs : List String)
    (r : TMResult σ γ) : Res Unit :=
  (guardE (decide (r.1 ∈ states)) (.lib .invalidStateError)).andThen <|
  (guardE (decide (r.2.1 ∈ tapeSyms)) (.lib .invalidSymbolError)).andThen <|
  guardE (decide (r.2.2 ∈ dirs)) (.lib .invalidDirectionError)

/-- The tail of `validate` after `_validate_transitions`: initial state, initial-state row,
initial state not final, final states, final states without rows.  `keys` are the keys of
the transition dict. -/
def tmValidateTail (states : List σ) (keys : List σ) (init : σ) (finals : List σ) : Res Unit :=
  (guardE (decide (init ∈ states)) (.lib .invalidStateError)).andThen <|
  (guardE (decide (init ∈ keys) || decide (states.length ≤ 1)) (.lib .missingStateError)).andThen <|
  (guardE (decide (init ∉ finals)) (.lib .initialStateError)).andThen <|
  (guardE (subsetB finals states) (.lib .invalidStateError)).andThen <|
  firstErr finals fun f => guardE (decide (f ∉ keys)) (.lib .finalStateError)

end tm

namespace DTM
variable {σ γ : Type} [DecidableEq σ] [DecidableEq γ]

/-- One iteration of `_validate_transitions`. -/
def validateRow (d : DTM σ γ) (kv : σ × List (γ × TMResult σ γ)) : Res Unit :=
  (guardE (decide (kv.1 ∈ d.states)) (.lib .invalidStateError)).andThen <|
  (firstErr (akeys kv.2) fun s => guardE (decide (s ∈ d.tapeSyms)) (.lib .invalidSymbolError)).andThen <|
  firstErr (avals kv.2) (tmValidateResult d.states d.tapeSyms Gen.Validate.dtmDirections)

/-- `DTM.validate`. -/
def validate (d : DTM σ γ) : Res Unit :=
  (tmValidateHead d.syms d.tapeSyms d.blank).andThen <|
  (firstErr d.trans d.validateRow).andThen <|
  tmValidateTail d.states (akeys d.trans) d.init d.finals

end DTM

namespace NTM
variable {σ γ : Type} [DecidableEq σ] [DecidableEq γ]

def validateRow (d : NTM σ γ) (kv : σ × List (γ × List (TMResult σ γ))) : Res Unit :=
  (guardE (decide (kv.1 ∈ d.states)) (.lib .invalidStateError)).andThen <|
  (firstErr (akeys kv.2) fun s => guardE (decide (s ∈ d.tapeSyms)) (.lib .invalidSymbolError)).andThen <|
  firstErr (avals kv.2) fun rs =>
    firstErr rs (tmValidateResult d.states d.tapeSyms Gen.Validate.ntmDirections)

/-- `NTM.validate`. -/
def validate (d : NTM σ γ) : Res Unit :=
  (tmValidateHead d.syms d.tapeSyms d.blank).andThen <|
  (firstErr d.trans d.validateRow).andThen <|
  tmValidateTail d.states (akeys d.trans) d.init d.finals

end NTM

namespace MNTM
variable {σ γ : Type} [DecidableEq σ] [DecidableEq γ]

/-- One iteration of NTM's `_validate_transitions` with MNTM's three overrides: the key
state, every symbol of every read tuple, then for every result every `(symbol, direction)`
move checked as `(state, symbol, direction)` (a result with no move is not checked here). -/
def validateRow (d : MNTM σ γ) (kv : σ × List (List γ × List (σ × List (γ × String)))) : Res Unit :=
  (guardE (decide (kv.1 ∈ d.states)) (.lib .invalidStateError)).andThen <|
  (firstErr ((akeys kv.2).flatMap id) fun s =>
      guardE (decide (s ∈ d.tapeSyms)) (.lib .invalidSymbolError)).andThen <|
  firstErr (avals kv.2) fun rs =>
    firstErr rs fun r =>
      firstErr r.2 fun mv =>
        tmValidateResult d.states d.tapeSyms Gen.Validate.ntmDirections (r.1, mv.1, mv.2)

/-- `_validate_tapes_consistency`. -/
def validateTapes (d : MNTM σ γ) : Res Unit :=
  firstErr d.trans fun kv =>
    firstErr kv.2 fun e =>
      (guardE (decide ((e.1.length : Int) = d.nTapes)) (.lib .inconsistentTapesException)).andThen <|
      firstErr e.2 fun r =>
        guardE (decide ((r.2.length : Int) = d.nTapes)) (.lib .inconsistentTapesException)

/-- `MNTM.validate` = `NTM.validate` (with the overrides) then the tape-count check. -/
def validate (d : MNTM σ γ) : Res Unit :=
  (tmValidateHead d.syms d.tapeSyms d.blank).andThen <|
  (firstErr d.trans d.validateRow).andThen <|
  (tmValidateTail d.states (akeys d.trans) d.init d.finals).andThen <|
  d.validateTapes

end MNTM

end AV.VA
