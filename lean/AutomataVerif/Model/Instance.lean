/-
Model/Instance.lean — constructing, copying and pickling automaton objects (C18).

Mirrors automata/base/automaton.py `__init__`, `input_parameters`, `copy`, `__getstate__`,
`__setstate__` and the keyword handling of the eight concrete `__init__`s.  Which names are
slots, which are `__init__` parameters and which are handed on to `Automaton.__init__` is
read from the regenerated tables (`AV.Gen.Slots.slots`, `AV.Gen.Slots.initParams`,
`AV.Gen.Validate.superInitKwargs`), so renaming / dropping a slot or a parameter in the
source changes these functions at the next build.
-/
import AutomataVerif.Model.Freeze
import AutomataVerif.Generated.Slots
import AutomataVerif.Generated.ValidateLits
import AutomataVerif.Generated.ObjectProtocol

namespace AV.VA.Obj
open AV AV.VA

def table (t : List (String × List String)) (cls : String) : List String := (alookup cls t).getD []

/-- `[f(x) for x in l]` where `f` may raise: the first exception wins. -/
def resMapM {β β' : Type} (f : β → Res β') : List β → Res (List β')
  | [] => .ok []
  | x :: xs =>
    match f x with
    | .error e => .error e
    | .ok y =>
      match resMapM f xs with
      | .error e => .error e
      | .ok ys => .ok (y :: ys)

/-- `cls.__slots__`. -/
def slotsOf (cls : String) : List String := table Gen.Slots.slots cls
/-- parameter names of `cls.__init__` (all keyword-only). -/
def initParamsOf (cls : String) : List String := table Gen.Slots.initParams cls
/-- keyword names `cls.__init__` passes to `Automaton.__init__`. -/
def superKwOf (cls : String) : List String := table Gen.Validate.superInitKwargs cls

/-- `not attr_name.startswith("_")`. -/
def isPublic (s : String) : Bool := !(s.toList.head? == some '_')

/-- The names `input_parameters` reports. -/
def publicSlots (cls : String) : List String := (slotsOf cls).filter isPublic

/-- The concrete automaton classes. -/
def classes : List String := Gen.Slots.slots.map Prod.fst

/-- A literal of the source as a model value: `False` / `True` are the ints `0` / `1`
(`bool ⊂ int`), `None` is the atom `other 0`, any other expression an opaque atom. -/
def litVal : Gen.Object.Lit → PyVal
  | .bool b => .int (if b then 1 else 0)
  | .int i => .int i
  | .str s => .str s
  | .none => .other 0
  | .other _ => .other 2

/-- Default values of the parameters of `cls.__init__`, read from the regenerated signatures
(`AV.Gen.Object.initDefaults`; at present `DFA(allow_partial=False)`,
`DPDA / NPDA(acceptance_mode="both")`). -/
def defaultOf (cls p : String) : Option PyVal :=
  (alookup p ((alookup cls Gen.Object.initDefaults).getD [])).map litVal

/-- Python's binding of `**kwargs` to a keyword-only signature: an unexpected keyword or a
missing parameter without default is a `TypeError`; the result lists the parameters in
signature order. -/
def bindVal (cls : String) (kwargs : List (String × PyVal)) (p : String) : Option PyVal :=
  match alookup p kwargs with
  | some v => some v
  | none => defaultOf cls p

def bindOne (cls : String) (kwargs : List (String × PyVal)) (p : String) : Res (String × PyVal) :=
  match bindVal cls kwargs p with
  | some v => .ok (p, v)
  | none => .error (.py .typeError)

def bindArgs (cls : String) (params : List String) (kwargs : List (String × PyVal)) :
    Res (List (String × PyVal)) :=
  if (akeys kwargs).all (fun k => decide (k ∈ params)) then resMapM (bindOne cls kwargs) params
  else .error (.py .typeError)

/-- The value `cls.__init__` passes to `Automaton.__init__` under keyword `k`: the bound
parameter of that name; `GNFA` additionally passes `final_states={final_state}`. -/
def superArg (bound : List (String × PyVal)) (k : String) : Res (String × PyVal) :=
  match alookup k bound with
  | some v => .ok (k, v)
  | none =>
    if k = "final_states" then
      match alookup "final_state" bound with
      | some f => .ok (k, .set [f])
      | none => .error (.py .typeError)
    else .error (.py .typeError)

/-- Attributes `cls.__init__` binds itself after `Automaton.__init__` (DFA: `clear_cache` sets
`_word_cache = []`, `_count_cache = []`), from the regenerated table
`AV.Gen.Object.postInitAttrs` (name, shape of the value). -/
def extraAttrs (cls : String) : List (String × PyVal) :=
  ((alookup cls Gen.Object.postInitAttrs).getD []).map fun nv =>
    (nv.1, if nv.2 = "[]" then .list [] else if nv.2 = "{}" then .dict [] else .other 2)

/-- `cls(**kwargs)` up to (not including) validation. -/
def classInit (allowMutable : Bool) (cls : String) (kwargs : List (String × PyVal)) : Res Inst :=
  match bindArgs cls (initParamsOf cls) kwargs with
  | .error e => .error e
  | .ok bound =>
    match resMapM (superArg bound) (superKwOf cls) with
    | .error e => .error e
    | .ok kw => .ok { cls := cls, attrs := storeKwargs allowMutable kw ++ extraAttrs cls }

/-! ### construction with `__post_init__` (validation) -/

/-- The abstract value of a keyword list: the names with `norm`-alised values. -/
def absKw (kw : List (String × PyVal)) : List (String × PyVal) := kw.map fun kv => (kv.1, kv.2.norm)

/-- Does `cls` validate whatever `should_validate_automata` says?  `GNFA` overrides
`__post_init__` with a plain `self.validate()` (regenerated call table). -/
def alwaysValidates (cls : String) : Bool :=
  alookup (cls ++ ".__post_init__") Gen.Validate.validateCalls == some ["validate"]

/-- `cls(**kwargs)` including `Automaton.__post_init__`: the keywords are bound and handed to
`Automaton.__init__`, which stores them (frozen unless `allow_mutable_automata`) and then calls
`validate()` if `should_validate_automata` is on (GNFA: always) — before `cls.__init__` binds
its own extra attributes.  This is `construct` (Model/Freeze.lean, the constructor C19's option
theorems are about) on the keyword list.  `v cls` is the class's validator, a function of the
abstract value of the stored definition (validators only test membership and equality of
names, which the kind of container does not affect). -/
def classInitV (v : String → List (String × PyVal) → Res Unit) (shouldValidate allowMutable : Bool)
    (cls : String) (kwargs : List (String × PyVal)) : Res Inst :=
  match bindArgs cls (initParamsOf cls) kwargs with
  | .error e => .error e
  | .ok bound =>
    match resMapM (superArg bound) (superKwOf cls) with
    | .error e => .error e
    | .ok kw =>
      match construct absKw (storeKwargs false) (v cls) (alwaysValidates cls) shouldValidate allowMutable kw with
      | .error e => .error e
      | .ok stored => .ok { cls := cls, attrs := stored ++ extraAttrs cls }

/-- `getattr(self, name)`. -/
def getattr (o : Inst) (name : String) : Res PyVal :=
  match alookup name o.attrs with
  | some v => .ok v
  | none => .error (.py .attributeError)

/-- `Automaton.input_parameters`. -/
def paramOf (o : Inst) (s : String) : Res (String × PyVal) :=
  match getattr o s with
  | .ok v => .ok (s, v)
  | .error e => .error e

def inputParameters (o : Inst) : Res (List (String × PyVal)) :=
  resMapM (paramOf o) (publicSlots o.cls)

/-- `Automaton.copy`: `self.__class__(**self.input_parameters)`. -/
def copy (allowMutable : Bool) (o : Inst) : Res Inst :=
  match inputParameters o with
  | .error e => .error e
  | .ok ps => classInit allowMutable o.cls ps

/-- What `validate()` reads on a live object: the abstract value of the attributes that were
handed to `Automaton.__init__` (the definition). -/
def definitionOf (o : Inst) : List (String × PyVal) :=
  (superKwOf o.cls).filterMap fun k => (alookup k o.attrs).map fun w => (k, w.norm)

/-- `Automaton.copy` with the validation the new object's `__post_init__` performs. -/
def copyV (v : String → List (String × PyVal) → Res Unit) (shouldValidate allowMutable : Bool)
    (o : Inst) : Res Inst :=
  match inputParameters o with
  | .error e => .error e
  | .ok ps => classInitV v shouldValidate allowMutable o.cls ps

/-- `__getstate__`. -/
def getstate (o : Inst) : Res (List (String × PyVal)) := inputParameters o

/-- `__setstate__(d)` on the blank object pickle creates with `cls.__new__`:
`self.__init__(**d)`. -/
def setstate (allowMutable : Bool) (cls : String) (d : List (String × PyVal)) : Res Inst :=
  classInit allowMutable cls d

/-- `pickle.loads(pickle.dumps(o))` (the byte encoding itself is CPython's and trusted:
it transports `d` unchanged). -/
def pickleRoundTrip (allowMutable : Bool) (o : Inst) : Res Inst :=
  match getstate o with
  | .error e => .error e
  | .ok d => setstate allowMutable o.cls d

end AV.VA.Obj
