/-
Model/Instance.lean — constructing, copying and pickling automaton objects (C18).

Mirrors automata/base/automaton.py `__init__`, `input_parameters`, `copy`, `__getstate__`,
`__setstate__` and the keyword handling of the eight concrete `__init__`s.  Which names are
slots, which are `__init__` parameters and which are handed on to `Automaton.__init__` is
read from the regenerated tables (`AV.Gen.Slots.slots`, `AV.Gen.Slots.initParams`,
`AV.Gen.Validate.superInitKwargs`), so renaming / dropping a slot or a parameter in the
source changes these functions at the next build.
-/
import AutomataVerif.Model.Freeze
import AutomataVerif.Generated.Slots
import AutomataVerif.Generated.ValidateLits

namespace AV.VA.Obj
open AV AV.VA

def table (t : List (String × List String)) (cls : String) : List String := (alookup cls t).getD []

/-- `[f(x) for x in l]` where `f` may raise: the first exception wins. -/
def resMapM {β β' : Type} (f : β → Res β') : List β → Res (List β')
  | [] => .ok []
  | x :: xs =>
    match f x with
    | .error e => .error e
    | .ok y =>
      match resMapM f xs with
      | .error e => .error e
      | .ok ys => .ok (y :: ys)

/-- `cls.__slots__`. -/
def slotsOf (cls : String) : List String := table Gen.Slots.slots cls
/-- parameter names of `cls.__init__` (all keyword-only). -/
def initParamsOf (cls : String) : List String := table Gen.Slots.initParams cls
/-- keyword names `cls.__init__` passes to `Automaton.__init__`. -/
def superKwOf (cls : String) : List String := table Gen.Validate.superInitKwargs cls

/-- `not attr_name.startswith("_")`. -/
def isPublic (s : String) : Bool := !(s.toList.head? == some '_')

/-- The names `input_parameters` reports. -/
def publicSlots (cls : String) : List String := (slotsOf cls).filter isPublic

/-- The concrete automaton classes. -/
def classes : List String := Gen.Slots.slots.map Prod.fst

/-- Default values of `__init__` parameters (`allow_partial=False`, `acceptance_mode="both"`);
`False` is the int `0`. -/
def defaultOf (p : String) : Option PyVal :=
  if p = "allow_partial" then some (.int 0)
  else if p = "acceptance_mode" then some (.str "both")
  else none

/-- Python's binding of `**kwargs` to a keyword-only signature: an unexpected keyword or a
missing parameter without default is a `TypeError`; the result lists the parameters in
signature order. -/
def bindVal (kwargs : List (String × PyVal)) (p : String) : Option PyVal :=
  match alookup p kwargs with
  | some v => some v
  | none => defaultOf p

def bindOne (kwargs : List (String × PyVal)) (p : String) : Res (String × PyVal) :=
  match bindVal kwargs p with
  | some v => .ok (p, v)
  | none => .error (.py .typeError)

def bindArgs (params : List String) (kwargs : List (String × PyVal)) : Res (List (String × PyVal)) :=
  if (akeys kwargs).all (fun k => decide (k ∈ params)) then resMapM (bindOne kwargs) params
  else .error (.py .typeError)

/-- The value `cls.__init__` passes to `Automaton.__init__` under keyword `k`: the bound
parameter of that name; `GNFA` additionally passes `final_states={final_state}`. -/
def superArg (bound : List (String × PyVal)) (k : String) : Res (String × PyVal) :=
  match alookup k bound with
  | some v => .ok (k, v)
  | none =>
    if k = "final_states" then
      match alookup "final_state" bound with
      | some f => .ok (k, .set [f])
      | none => .error (.py .typeError)
    else .error (.py .typeError)

/-- Attributes `cls.__init__` sets after `Automaton.__init__` (DFA: `clear_cache`). -/
def extraAttrs (cls : String) : List (String × PyVal) :=
  (slotsOf cls).filterMap fun s =>
    if s = "_word_cache" ∨ s = "_count_cache" then some (s, .list []) else none

/-- `cls(**kwargs)` up to (not including) validation. -/
def classInit (allowMutable : Bool) (cls : String) (kwargs : List (String × PyVal)) : Res Inst :=
  match bindArgs (initParamsOf cls) kwargs with
  | .error e => .error e
  | .ok bound =>
    match resMapM (superArg bound) (superKwOf cls) with
    | .error e => .error e
    | .ok kw => .ok { cls := cls, attrs := storeKwargs allowMutable kw ++ extraAttrs cls }

/-- `getattr(self, name)`. -/
def getattr (o : Inst) (name : String) : Res PyVal :=
  match alookup name o.attrs with
  | some v => .ok v
  | none => .error (.py .attributeError)

/-- `Automaton.input_parameters`. -/
def paramOf (o : Inst) (s : String) : Res (String × PyVal) :=
  match getattr o s with
  | .ok v => .ok (s, v)
  | .error e => .error e

def inputParameters (o : Inst) : Res (List (String × PyVal)) :=
  resMapM (paramOf o) (publicSlots o.cls)

/-- `Automaton.copy`: `self.__class__(**self.input_parameters)`. -/
def copy (allowMutable : Bool) (o : Inst) : Res Inst :=
  match inputParameters o with
  | .error e => .error e
  | .ok ps => classInit allowMutable o.cls ps

/-- `__getstate__`. -/
def getstate (o : Inst) : Res (List (String × PyVal)) := inputParameters o

/-- `__setstate__(d)` on the blank object pickle creates with `cls.__new__`:
`self.__init__(**d)`. -/
def setstate (allowMutable : Bool) (cls : String) (d : List (String × PyVal)) : Res Inst :=
  classInit allowMutable cls d

/-- `pickle.loads(pickle.dumps(o))` (the byte encoding itself is CPython's and trusted:
it transports `d` unchanged). -/
def pickleRoundTrip (allowMutable : Bool) (o : Inst) : Res Inst :=
  match getstate o with
  | .error e => .error e
  | .ok d => setstate allowMutable o.cls d

end AV.VA.Obj
